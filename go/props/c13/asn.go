package c13

// Independent view of OCSP messages: the ASN.1 structures of RFC 6960 mirrored for the STANDARD
// LIBRARY's encoding/asn1 (not zcrypto's fork), used to (a) hand-assemble responses CreateResponse cannot
// produce (several SingleResponses, key-hash responder, odd CHOICE arms, several certificates …) and
// (b) decode any DER into the abstract input of the Lean model, independently of the code under test.

import (
	"crypto"
	"crypto/ecdsa"
	"crypto/md5"
	"crypto/rand"
	stdrsa "crypto/rsa"
	"crypto/sha1"
	"crypto/sha256"
	"crypto/sha512"
	stdx509 "crypto/x509"
	"crypto/x509/pkix"
	"encoding/asn1"
	"math/big"
	"math/bits"
	"time"
)

type mCertID struct {
	HashAlgorithm pkix.AlgorithmIdentifier
	NameHash      []byte
	IssuerKeyHash []byte
	SerialNumber  *big.Int
}

type mRevoked struct {
	RevocationTime time.Time       `asn1:"generalized"`
	Reason         asn1.Enumerated `asn1:"explicit,tag:0,optional"`
}

type mSingle struct {
	CertID           mCertID
	Good             asn1.Flag        `asn1:"tag:0,optional"`
	Revoked          mRevoked         `asn1:"tag:1,optional"`
	Unknown          asn1.Flag        `asn1:"tag:2,optional"`
	ThisUpdate       time.Time        `asn1:"generalized"`
	NextUpdate       time.Time        `asn1:"generalized,explicit,tag:0,optional"`
	SingleExtensions []pkix.Extension `asn1:"explicit,tag:1,optional"`
}

type mResponseData struct {
	Raw            asn1.RawContent
	Version        int `asn1:"optional,default:0,explicit,tag:0"`
	RawResponderID asn1.RawValue
	ProducedAt     time.Time `asn1:"generalized"`
	Responses      []mSingle
}

type mBasic struct {
	TBSResponseData    mResponseData
	SignatureAlgorithm pkix.AlgorithmIdentifier
	Signature          asn1.BitString
	Certificates       []asn1.RawValue `asn1:"explicit,tag:0,optional"`
}

// for assembling: the TBS goes in as the exact bytes that were signed
type mBasicOut struct {
	TBSResponseData    asn1.RawValue
	SignatureAlgorithm pkix.AlgorithmIdentifier
	Signature          asn1.BitString
	Certificates       []asn1.RawValue `asn1:"explicit,tag:0,optional"`
}

type mRespBytes struct {
	ResponseType asn1.ObjectIdentifier
	Response     []byte
}

type mResponse struct {
	Status   asn1.Enumerated
	Response mRespBytes `asn1:"explicit,tag:0,optional"`
}

type mRequestCert struct{ Cert mCertID }
type mTBSRequest struct {
	Version       int              `asn1:"explicit,tag:0,default:0,optional"`
	RequestorName pkix.RDNSequence `asn1:"explicit,tag:1,optional"`
	RequestList   []mRequestCert
}
type mRequest struct{ TBSRequest mTBSRequest }

var (
	oidBasic    = asn1.ObjectIdentifier{1, 3, 6, 1, 5, 5, 7, 48, 1, 1}
	oidNonce    = asn1.ObjectIdentifier{1, 3, 6, 1, 5, 5, 7, 48, 1, 2}
	oidSHA1     = asn1.ObjectIdentifier{1, 3, 14, 3, 2, 26}
	oidSHA256   = asn1.ObjectIdentifier{2, 16, 840, 1, 101, 3, 4, 2, 1}
	oidSHA384   = asn1.ObjectIdentifier{2, 16, 840, 1, 101, 3, 4, 2, 2}
	oidSHA512   = asn1.ObjectIdentifier{2, 16, 840, 1, 101, 3, 4, 2, 3}
	oidSHA224   = asn1.ObjectIdentifier{2, 16, 840, 1, 101, 3, 4, 2, 4}
	oidMD5      = asn1.ObjectIdentifier{1, 2, 840, 113549, 2, 5}
	nullParams  = asn1.RawValue{Tag: 5}
	zeroTimeSec = time.Time{}.Unix() // -62135596800
)

// hashByID: crypto.Hash number -> (OID, independent hash function)
func hashOID(id int) asn1.ObjectIdentifier {
	switch crypto.Hash(id) {
	case crypto.SHA1:
		return oidSHA1
	case crypto.SHA256:
		return oidSHA256
	case crypto.SHA384:
		return oidSHA384
	case crypto.SHA512:
		return oidSHA512
	case crypto.SHA224:
		return oidSHA224
	}
	return oidMD5
}

func hashIDOfOID(o asn1.ObjectIdentifier) int {
	switch {
	case o.Equal(oidSHA1):
		return int(crypto.SHA1)
	case o.Equal(oidSHA256):
		return int(crypto.SHA256)
	case o.Equal(oidSHA384):
		return int(crypto.SHA384)
	case o.Equal(oidSHA512):
		return int(crypto.SHA512)
	}
	return 0
}

func refHash(id int, b []byte) []byte {
	switch crypto.Hash(id) {
	case crypto.MD5:
		s := md5.Sum(b)
		return s[:]
	case crypto.SHA1:
		s := sha1.Sum(b)
		return s[:]
	case crypto.SHA256:
		s := sha256.Sum256(b)
		return s[:]
	case crypto.SHA384:
		s := sha512.Sum384(b)
		return s[:]
	case crypto.SHA512:
		s := sha512.Sum512(b)
		return s[:]
	}
	return nil
}

// signature algorithm OIDs (RFC 3279 / 4055 / 5758), written out here independently of zcrypto's table
type sigAlg struct {
	oid  asn1.ObjectIdentifier
	rsa  bool
	hash int
}

var sigAlgs = []sigAlg{
	{asn1.ObjectIdentifier{1, 2, 840, 113549, 1, 1, 4}, true, int(crypto.MD5)},
	{asn1.ObjectIdentifier{1, 2, 840, 113549, 1, 1, 5}, true, int(crypto.SHA1)},
	{asn1.ObjectIdentifier{1, 2, 840, 113549, 1, 1, 11}, true, int(crypto.SHA256)},
	{asn1.ObjectIdentifier{1, 2, 840, 113549, 1, 1, 12}, true, int(crypto.SHA384)},
	{asn1.ObjectIdentifier{1, 2, 840, 113549, 1, 1, 13}, true, int(crypto.SHA512)},
	{asn1.ObjectIdentifier{1, 2, 840, 10045, 4, 1}, false, int(crypto.SHA1)},
	{asn1.ObjectIdentifier{1, 2, 840, 10045, 4, 3, 2}, false, int(crypto.SHA256)},
	{asn1.ObjectIdentifier{1, 2, 840, 10045, 4, 3, 3}, false, int(crypto.SHA384)},
	{asn1.ObjectIdentifier{1, 2, 840, 10045, 4, 3, 4}, false, int(crypto.SHA512)},
}

// refVerify: the signature primitive, evaluated with the standard library only.
func refVerify(pub any, alg asn1.ObjectIdentifier, signed, sig []byte) bool {
	for _, a := range sigAlgs {
		if !a.oid.Equal(alg) {
			continue
		}
		d := refHash(a.hash, signed)
		switch k := pub.(type) {
		case *stdrsa.PublicKey:
			return a.rsa && stdrsa.VerifyPKCS1v15(k, crypto.Hash(a.hash), d, sig) == nil
		case *ecdsa.PublicKey:
			return !a.rsa && ecdsa.VerifyASN1(k, d, sig)
		}
		return false
	}
	return false
}

func isRSA(e *ent) bool { _, ok := e.std.PublicKey.(*stdrsa.PublicKey); return ok }

// signWith signs `tbs` with the pool key; hashID 0 = SHA-256. Returns algorithm identifier and signature.
func signWith(e *ent, hashID int, tbs []byte) (pkix.AlgorithmIdentifier, []byte) {
	if hashID == 0 {
		hashID = int(crypto.SHA256)
	}
	var ai pkix.AlgorithmIdentifier
	for _, a := range sigAlgs {
		if a.rsa == isRSA(e) && a.hash == hashID {
			ai.Algorithm = a.oid
		}
	}
	if ai.Algorithm == nil { // e.g. no ecdsa-with-MD5
		return signWith(e, int(crypto.SHA256), tbs)
	}
	if isRSA(e) {
		ai.Parameters = nullParams
	}
	sig, err := e.key.Sign(rand.Reader, refHash(hashID, tbs), crypto.Hash(hashID))
	if err != nil {
		panic(err)
	}
	return ai, sig
}

// spkiBits returns the subjectPublicKey BIT STRING contents of a certificate (standard library parse).
func spkiBits(c *stdx509.Certificate) []byte {
	var spki struct {
		Algorithm pkix.AlgorithmIdentifier
		PublicKey asn1.BitString
	}
	if _, err := asn1.Unmarshal(c.RawSubjectPublicKeyInfo, &spki); err != nil {
		panic(err)
	}
	return spki.PublicKey.RightAlign()
}

// ---- hand assembly ----

type asmSingle struct {
	serial            *big.Int
	good, rev, unk    bool
	this, next, revAt int64 // unix seconds; next == zeroTimeSec -> absent
	reason            int
	hash              int // crypto.Hash id; anything not SHA1/256/384/512 -> an OID the parser does not know
	crit              bool
	ext               bool // carry a non-critical extension
}

type asmSpec struct {
	ca       int // issuer whose name/key hashes go into the CertIDs (entity index, see entAt)
	signer   *ent
	sigHash  int
	status   int  // OCSPResponseStatus
	noBytes  bool // omit responseBytes
	badType  bool
	rtag     int  // responder id tag
	rgarbage bool // responder id content that does not decode
	singles  []asmSingle
	certs    [][]byte
	flipSig  bool // corrupt the signature after signing
	swapTBS  bool // sign, then replace the TBS by one with every status flipped to good ("tampering")
	trailOut bool
	trailIn  bool
	produced int64
	sigTZ    int // re-sign (ProducedAt moved by a minute each time) until the signature ends in at least this many zero bits
	padBits  int // declare this many unused bits in the signature BIT STRING (needs sigTZ >= padBits to be well-formed DER)
}

func utc(sec int64) time.Time { return time.Unix(sec, 0).UTC() }

func buildTBS(sp *asmSpec, allGood bool) []byte {
	ca := entAt(sp.ca)
	var rs []mSingle
	for _, s := range sp.singles {
		m := mSingle{CertID: mCertID{
			HashAlgorithm: pkix.AlgorithmIdentifier{Algorithm: hashOID(s.hash), Parameters: nullParams},
			NameHash:      refHash(hashOr1(s.hash), ca.subj),
			IssuerKeyHash: refHash(hashOr1(s.hash), spkiBits(ca.std)),
			SerialNumber:  s.serial},
			ThisUpdate: utc(s.this)}
		if s.next != zeroTimeSec {
			m.NextUpdate = utc(s.next)
		}
		if allGood {
			m.Good = true
		} else {
			m.Good, m.Unknown = asn1.Flag(s.good), asn1.Flag(s.unk)
			if s.rev {
				m.Revoked = mRevoked{RevocationTime: utc(s.revAt), Reason: asn1.Enumerated(s.reason)}
			}
		}
		if s.crit {
			m.SingleExtensions = append(m.SingleExtensions, pkix.Extension{Id: asn1.ObjectIdentifier{1, 3, 6, 1, 4, 1, 99999, 2}, Critical: true, Value: []byte{5, 0}})
		}
		if s.ext {
			m.SingleExtensions = append(m.SingleExtensions, pkix.Extension{Id: asn1.ObjectIdentifier{1, 3, 6, 1, 4, 1, 99999, 1}, Value: []byte{4, 1, 7}})
		}
		rs = append(rs, m)
	}
	rid := asn1.RawValue{Class: 2, Tag: sp.rtag, IsCompound: true}
	switch {
	case sp.rgarbage:
		rid.Bytes = []byte{0x02, 0x01, 0x05} // an INTEGER: neither a Name nor an OCTET STRING
	case sp.rtag == 2:
		kh := sha1.Sum(spkiBits(sp.signer.std))
		b, _ := asn1.Marshal(kh[:])
		rid.Bytes = b
	default:
		rid.Bytes = sp.signer.subj
	}
	tbs, err := asn1.Marshal(mResponseData{RawResponderID: rid, ProducedAt: utc(sp.produced), Responses: rs})
	if err != nil {
		panic(err)
	}
	return tbs
}

func hashOr1(h int) int {
	if hashIDOfOID(hashOID(h)) == 0 {
		return int(crypto.SHA1)
	}
	return h
}

// assemble returns the DER of an OCSPResponse following the spec.
func assemble(sp *asmSpec) []byte {
	if sp.padBits > sp.sigTZ {
		sp.sigTZ = sp.padBits
	}
	tbs := buildTBS(sp, false)
	ai, sig := signWith(sp.signer, sp.sigHash, tbs)
	for attempt := 0; attempt < 4000 && bits.TrailingZeros8(sig[len(sig)-1]) < sp.sigTZ; attempt++ {
		sp.produced += 60
		tbs = buildTBS(sp, false)
		ai, sig = signWith(sp.signer, sp.sigHash, tbs)
	}
	if bits.TrailingZeros8(sig[len(sig)-1]) < sp.padBits {
		panic("assemble: no signature with enough trailing zero bits")
	}
	if sp.flipSig {
		sig = append([]byte{}, sig...)
		sig[len(sig)/2+3] ^= 0x10
	}
	if sp.swapTBS {
		tbs = buildTBS(sp, true)
	}
	b := mBasicOut{TBSResponseData: asn1.RawValue{FullBytes: tbs}, SignatureAlgorithm: ai,
		Signature: asn1.BitString{Bytes: sig, BitLength: 8*len(sig) - sp.padBits}}
	for _, c := range sp.certs {
		b.Certificates = append(b.Certificates, asn1.RawValue{FullBytes: c})
	}
	bd, err := asn1.Marshal(b)
	if err != nil {
		panic(err)
	}
	if sp.trailIn {
		bd = append(bd, 0x05, 0x00)
	}
	r := mResponse{Status: asn1.Enumerated(sp.status)}
	if !sp.noBytes {
		r.Response = mRespBytes{ResponseType: oidBasic, Response: bd}
		if sp.badType {
			r.Response.ResponseType = oidNonce
		}
	}
	out, err := asn1.Marshal(r)
	if err != nil {
		panic(err)
	}
	if sp.trailOut {
		out = append(out, 0x00)
	}
	return out
}

// ---- independent decode to the model's abstract input ----

type absSingle struct {
	serial            *big.Int
	good, unk         bool
	this, next, revAt int64
	reason            int
	hash              int
	crit              bool
}

type abstract struct {
	outerOk, typeOk, basicOk, rok, c0ok bool
	status, rtag, ncerts                int
	vEResp, vICert, vIResp              bool
	singles                             []absSingle
	tbs, sig                            []byte
	alg                                 asn1.ObjectIdentifier
	cert0                               []byte
	nameHashes, keyHashes               [][]byte
	rid                                 []byte // content of the responder id CHOICE arm as it stands in the DER
}

func decodeAbs(der []byte, issuer *ent) (a abstract) {
	var r mResponse
	rest, err := asn1.Unmarshal(der, &r)
	if err != nil || len(rest) > 0 {
		return
	}
	a.outerOk = true
	a.status = int(r.Status)
	if a.status != 0 {
		return
	}
	a.typeOk = r.Response.ResponseType.Equal(oidBasic)
	if !a.typeOk {
		return
	}
	var b mBasic
	rest, err = asn1.Unmarshal(r.Response.Response, &b)
	if err != nil || len(rest) > 0 {
		return
	}
	a.basicOk = true
	for _, s := range b.TBSResponseData.Responses {
		x := absSingle{serial: s.CertID.SerialNumber, good: bool(s.Good), unk: bool(s.Unknown), this: s.ThisUpdate.Unix(),
			next: s.NextUpdate.Unix(), revAt: s.Revoked.RevocationTime.Unix(), reason: int(s.Revoked.Reason),
			hash: hashIDOfOID(s.CertID.HashAlgorithm.Algorithm)}
		for _, e := range s.SingleExtensions {
			if e.Critical {
				x.crit = true
			}
		}
		a.singles = append(a.singles, x)
		a.nameHashes = append(a.nameHashes, s.CertID.NameHash)
		a.keyHashes = append(a.keyHashes, s.CertID.IssuerKeyHash)
	}
	rid := b.TBSResponseData.RawResponderID
	a.rtag = rid.Tag
	a.rid = rid.Bytes
	switch rid.Tag {
	case 1:
		var rdn pkix.RDNSequence
		rest, err := asn1.Unmarshal(rid.Bytes, &rdn)
		a.rok = err == nil && len(rest) == 0
	case 2:
		var kh []byte
		rest, err := asn1.Unmarshal(rid.Bytes, &kh)
		a.rok = err == nil && len(rest) == 0
	}
	a.tbs, a.sig, a.alg = b.TBSResponseData.Raw, b.Signature.RightAlign(), b.SignatureAlgorithm.Algorithm
	a.ncerts = len(b.Certificates)
	a.vIResp = refVerify(issuer.std.PublicKey, a.alg, a.tbs, a.sig)
	if a.ncerts > 0 {
		a.cert0 = b.Certificates[0].FullBytes
		if c, err := stdx509.ParseCertificate(a.cert0); err == nil {
			a.c0ok = true
			a.vEResp = refVerify(c.PublicKey, a.alg, a.tbs, a.sig)
			var outer struct {
				TBS asn1.RawValue
				Alg pkix.AlgorithmIdentifier
				Sig asn1.BitString
			}
			if _, err := asn1.Unmarshal(a.cert0, &outer); err == nil {
				a.vICert = refVerify(issuer.std.PublicKey, outer.Alg.Algorithm, outer.TBS.FullBytes, outer.Sig.RightAlign())
			}
		}
	}
	return
}
