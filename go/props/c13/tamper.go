package c13

import (
	"bytes"
	stdx509 "crypto/x509"
	"encoding/asn1"
	"fmt"
	"math/big"
	"math/bits"
	"strings"
	"time"

	uocsp "golang.org/x/crypto/ocsp"

	"github.com/zmap/zcrypto/x509"
	zpkix "github.com/zmap/zcrypto/x509/pkix"
	"github.com/zmap/zcrypto/x509/revocation/ocsp"

	"zv/internal/zv"
)

// ---- where in the DER a byte lies (plain TLV walk, no ASN.1 library) ----

type region struct {
	from, to int
	name     string
}

func tl(b []byte, off int) (hdr, clen int, ok bool) {
	if off+2 > len(b) {
		return
	}
	l := int(b[off+1])
	hdr = 2
	if l&0x80 != 0 {
		n := l & 0x7f
		if n == 0 || n > 3 || off+2+n > len(b) {
			return
		}
		l = 0
		for i := 0; i < n; i++ {
			l = l<<8 | int(b[off+2+i])
		}
		hdr += n
	}
	if off+hdr+l > len(b) {
		return
	}
	return hdr, l, true
}

// regions of an OCSPResponse produced by CreateResponse / assemble (well-formed by construction).
func regions(b []byte) (rs []region) {
	off := 0
	add := func(n int, name string) { rs = append(rs, region{off, off + n, name}); off += n }
	hdrOnly := func(name string) {
		h, _, ok := tl(b, off)
		if !ok {
			panic("regions: malformed " + name)
		}
		add(h, name)
	}
	whole := func(name string) {
		h, l, ok := tl(b, off)
		if !ok {
			panic("regions: malformed " + name)
		}
		add(h+l, name)
	}
	algid := func(prefix string) {
		h, l, ok := tl(b, off)
		if !ok {
			panic("regions: malformed algid")
		}
		end := off + h + l
		add(h, prefix+"sigalg-hdr")
		whole(prefix + "sigalg-oid")
		if off < end {
			add(end-off, prefix+"sigalg-params")
		}
	}
	bitstr := func(prefix string) {
		h, l, ok := tl(b, off)
		if !ok {
			panic("regions: malformed bit string")
		}
		add(h+1, prefix+"sig-bitstring-hdr")
		add(l-1, prefix+"sig")
	}
	hdrOnly("outer-seq-hdr")
	whole("response-status")
	hdrOnly("responseBytes-ctx-hdr")
	hdrOnly("responseBytes-seq-hdr")
	whole("response-type-oid")
	hdrOnly("response-octetstring-hdr")
	hdrOnly("basic-seq-hdr")
	whole("tbsResponseData")
	algid("")
	bitstr("")
	if off < len(b) {
		hdrOnly("certs-ctx-hdr")
		hdrOnly("certs-seq-hdr")
		for i := 0; off < len(b); i++ {
			p := fmt.Sprintf("cert%d-", i)
			hdrOnly(p + "seq-hdr")
			whole(p + "tbs")
			algid(p)
			bitstr(p)
		}
	}
	return
}

func regionOf(rs []region, pos int) string {
	for _, r := range rs {
		if pos >= r.from && pos < r.to {
			return r.name
		}
	}
	return "?"
}

// ---- comparison of two parsed responses, every field ----

func extsEqual(a, b []zpkix.Extension) bool {
	if len(a) != len(b) {
		return false
	}
	for i := range a {
		if !a[i].Id.Equal(b[i].Id) || a[i].Critical != b[i].Critical || !bytes.Equal(a[i].Value, b[i].Value) {
			return false
		}
	}
	return true
}

// diffSigned names a field derived from the SIGNED TBSResponseData that differs between two parsed responses ("" = none).
func diffSigned(a, b *ocsp.Response) string {
	switch {
	case a.Status != b.Status:
		return "Status"
	case a.SerialNumber.Cmp(b.SerialNumber) != 0:
		return "SerialNumber"
	case a.IsRevoked != b.IsRevoked:
		return "IsRevoked"
	case !a.ProducedAt.Equal(b.ProducedAt):
		return "ProducedAt"
	case !a.ThisUpdate.Equal(b.ThisUpdate):
		return "ThisUpdate"
	case !a.NextUpdate.Equal(b.NextUpdate):
		return "NextUpdate"
	case !a.RevokedAt.Equal(b.RevokedAt):
		return "RevokedAt"
	case a.RevocationReason != b.RevocationReason:
		return "RevocationReason"
	case !bytes.Equal(a.TBSResponseData, b.TBSResponseData):
		return "TBSResponseData"
	case a.IssuerHash != b.IssuerHash:
		return "IssuerHash"
	case !bytes.Equal(a.RawResponderName, b.RawResponderName) || (a.RawResponderName == nil) != (b.RawResponderName == nil):
		return "RawResponderName"
	case !bytes.Equal(a.ResponderKeyHash, b.ResponderKeyHash) || (a.ResponderKeyHash == nil) != (b.ResponderKeyHash == nil):
		return "ResponderKeyHash"
	case !extsEqual(a.Extensions, b.Extensions):
		return "Extensions"
	}
	return ""
}

// ---- independent structural view of a (possibly mutated) response: standard library encoding/asn1 only ----

type mAlgID struct {
	Algorithm  asn1.ObjectIdentifier
	Parameters asn1.RawValue `asn1:"optional"`
}

// mBasicRaw does NOT descend into the TBS: what matters here is which bytes are the TBS, the algorithm, the signature.
type mBasicRaw struct {
	TBS   asn1.RawValue
	Alg   mAlgID
	Sig   asn1.BitString
	Certs []asn1.RawValue `asn1:"explicit,tag:0,optional"`
}

type indep struct {
	ok      bool
	tbs     []byte // complete TLV of tbsResponseData
	alg     asn1.ObjectIdentifier
	sig     []byte // BIT STRING contents without the unused-bits octet
	sigBits int    // BitLength
	certs   [][]byte
}

func indepDecode(der []byte) (x indep) {
	var r mResponse
	if rest, err := asn1.Unmarshal(der, &r); err != nil || len(rest) != 0 || r.Status != 0 || !r.Response.ResponseType.Equal(oidBasic) {
		return
	}
	var b mBasicRaw
	if rest, err := asn1.Unmarshal(r.Response.Response, &b); err != nil || len(rest) != 0 {
		return
	}
	x.ok, x.tbs, x.alg, x.sig, x.sigBits = true, b.TBS.FullBytes, b.Alg.Algorithm, b.Sig.Bytes, b.Sig.BitLength
	for _, c := range b.Certs {
		x.certs = append(x.certs, c.FullBytes)
	}
	return
}

// splitCert cuts a Certificate into the complete TLVs of tbsCertificate, signatureAlgorithm, signatureValue (plain TLV walk).
// Bytes after the third element inside the SEQUENCE are tolerated (Go's encoding/asn1 and zcrypto's fork ignore extra
// elements at the end of a SEQUENCE mapped to a struct; a mutated length of the first embedded certificate can push one
// byte of the next certificate in there) — they are outside tbsCertificate and signatureValue.
func splitCert(b []byte) (tbs, alg, sig []byte, ok bool) {
	h, l, k := tl(b, 0)
	if !k || h+l != len(b) {
		return
	}
	off := h
	var parts [3][]byte
	for i := range parts {
		hh, ll, kk := tl(b, off)
		if !kk {
			return
		}
		parts[i] = b[off : off+hh+ll]
		off += hh + ll
	}
	return parts[0], parts[1], parts[2], off <= len(b)
}

// protectedRegion: byte ranges of the ORIGINAL response of which no single byte may change in an accepted mutant:
// the signed tbsResponseData, the signatureAlgorithm OID, the whole signature BIT STRING (tag, length, unused-bits octet,
// value), and — because acceptance through an embedded certificate rests on them — the first embedded certificate's
// tbsCertificate and signature BIT STRING.
func protectedRegion(name string) bool {
	switch name {
	case "tbsResponseData", "sigalg-oid", "sig-bitstring-hdr", "sig", "cert0-tbs", "cert0-sig-bitstring-hdr", "cert0-sig":
		return true
	}
	return false
}

// tctx: one signed response under mutation.
type tctx struct {
	iss   *ent
	cert  *x509.Certificate
	ucert *stdx509.Certificate
	der   []byte
	rs    []region
	orig  *ocsp.Response
	oi    indep
	c0tbs []byte
	c0sig []byte
	upOK  bool // the reference implementation (golang.org/x/crypto/ocsp) accepts the untampered response
}

func newTctx(ca int, certArg string, der []byte) (*tctx, string) {
	c := &tctx{iss: entAt(ca), der: der}
	if certArg != "n" {
		c.cert = &x509.Certificate{SerialNumber: bigOf(certArg)}
		c.ucert = &stdx509.Certificate{SerialNumber: bigOf(certArg)}
	}
	var err error
	if c.orig, err = ocsp.ParseResponseForCert(der, c.cert, c.iss.cert); err != nil {
		return nil, "harness inconsistency: the untampered response is rejected: " + err.Error()
	}
	c.rs = regions(der)
	if c.oi = indepDecode(der); !c.oi.ok {
		return nil, "harness inconsistency: the untampered response does not decode with the standard library"
	}
	if len(c.oi.certs) > 0 {
		var ok bool
		if c.c0tbs, _, c.c0sig, ok = splitCert(c.oi.certs[0]); !ok {
			return nil, "harness inconsistency: embedded certificate of the untampered response is not a 3-element SEQUENCE"
		}
	}
	// the reference implementation must accept what zcrypto accepts, starting with the untampered response (it does for
	// every key type and default algorithm of the pool; all of them are SHA-2 based)
	if _, uerr := uocsp.ParseResponseForCert(der, c.ucert, c.iss.std); uerr != nil {
		return nil, "the untampered response is accepted by zcrypto but rejected by golang.org/x/crypto/ocsp: " + uerr.Error()
	}
	c.upOK = true
	return c, ""
}

// judge decides about a mutant (one byte at pos differs from the original) that zcrypto ACCEPTED with result r.
// Rule: an accepted mutant must carry byte-identical tbsResponseData, an identical signature value including its
// BitLength and an identical signatureAlgorithm OID (decided on the bytes, by position and by an independent decode —
// not on what zcrypto reports), must be reported with exactly the original's fields, and
//
//	wrapper        differs only in bytes no decoder looks at (lengths of EXPLICIT wrappers, which Go's encoding/asn1 and
//	               its zcrypto fork do not compare with the inner element; algorithm parameters)
//	trailing-cert  differs only in embedded certificates after the first (documented as ignored)
//	cert-dropped   the optional certs field is no longer recognised and the response verifies DIRECTLY under the issuer key
//	               (checked here with the standard library on the independently decoded bytes)
//	cert-outer     the first embedded certificate differs outside its tbsCertificate and signatureValue (its outer,
//	               unsigned signatureAlgorithm copy, which zcrypto's x509 never reads; the signed inner copy is used)
//
// are the only classes allowed; anything else is a violation.  In addition the reference implementation
// golang.org/x/crypto/ocsp must accept what zcrypto accepts (except cert-outer, which crypto/x509 refuses).
func (c *tctx) judge(mut []byte, pos int, r *ocsp.Response) (class, viol string) {
	reg := regionOf(c.rs, pos)
	if protectedRegion(reg) {
		return "", "a byte of " + reg + " changed"
	}
	m := indepDecode(mut)
	switch {
	case !m.ok:
		return "", "accepted bytes do not decode as a BasicOCSPResponse with the standard library"
	case !bytes.Equal(m.tbs, c.oi.tbs):
		return "", "tbsResponseData bytes differ from the signed ones"
	case !bytes.Equal(m.sig, c.oi.sig) || m.sigBits != c.oi.sigBits:
		return "", fmt.Sprintf("signature value differs (BitLength %d -> %d)", c.oi.sigBits, m.sigBits)
	case !m.alg.Equal(c.oi.alg):
		return "", "signatureAlgorithm OID differs"
	}
	if d := diffSigned(c.orig, r); d != "" {
		return "", "signed field " + d + " reported differently"
	}
	if !bytes.Equal(r.Signature, c.orig.Signature) || r.SignatureAlgorithm != c.orig.SignatureAlgorithm {
		return "", "Signature / SignatureAlgorithm reported differently"
	}
	class = "wrapper"
	switch {
	case len(c.oi.certs) == 0:
		if len(m.certs) != 0 || r.Certificate != nil {
			return "", "an embedded certificate appeared"
		}
	case len(m.certs) == 0:
		if r.Certificate != nil {
			return "", "Certificate reported although the certs field is gone"
		}
		if !refVerify(c.iss.std.PublicKey, m.alg, m.tbs, asn1.BitString{Bytes: m.sig, BitLength: m.sigBits}.RightAlign()) {
			return "", "embedded certificate dropped and the response does not verify directly under the issuer"
		}
		class = "cert-dropped"
	default:
		if r.Certificate == nil || !bytes.Equal(r.Certificate.Raw, m.certs[0]) {
			return "", "reported Certificate is not the first embedded certificate"
		}
		if !bytes.Equal(m.certs[0], c.oi.certs[0]) {
			t, _, s, ok := splitCert(m.certs[0])
			if !ok || !bytes.Equal(t, c.c0tbs) || !bytes.Equal(s, c.c0sig) {
				return "", "tbsCertificate / signatureValue of the embedded certificate changed"
			}
			class = "cert-outer"
		} else if len(m.certs) != len(c.oi.certs) {
			class = "trailing-cert"
		} else {
			for i := range m.certs {
				if !bytes.Equal(m.certs[i], c.oi.certs[i]) {
					class = "trailing-cert"
				}
			}
		}
	}
	if c.upOK {
		if _, uerr := uocsp.ParseResponseForCert(mut, c.ucert, c.iss.std); uerr != nil {
			if class != "cert-outer" {
				return "", "accepted by zcrypto but rejected by golang.org/x/crypto/ocsp (" + uerr.Error() + ")"
			}
			class += ",upstream-rejects"
		}
	}
	return class, ""
}

// try applies one mutation and records the verdict.
func (c *tctx) try(o *zv.Out, mut []byte, pos int, m byte, rejected *int) {
	copy(mut, c.der)
	mut[pos] ^= m
	r, err := ocsp.ParseResponseForCert(mut, c.cert, c.iss.cert)
	if err != nil {
		*rejected++
		return
	}
	reg := regionOf(c.rs, pos)
	class, viol := c.judge(mut, pos, r)
	if viol != "" {
		if o.Viol == "" {
			certArg := "n"
			if c.cert != nil {
				certArg = c.cert.SerialNumber.String()
			}
			o.Viol = fmt.Sprintf("tampered response accepted: byte %d (%s) 0x%02x -> 0x%02x: %s; single-position replay: c13 tamper <ca> %s %d %d 255 0 <der>",
				pos, reg, c.der[pos], mut[pos], viol, certArg, pos, pos+1)
		}
		o.Tags = append(o.Tags, "tamper:ACCEPTED-CHANGED@"+reg)
		return
	}
	o.Tags = append(o.Tags, "tamper:accepted("+class+")@"+reg)
}

// sweep tries the masks at one position.  Where the unchanged code accepts almost every value (length octets of EXPLICIT
// wrappers, bytes of ignored trailing certificates, the embedded certificate's unread outer algorithm) every acceptance
// costs up to four signature verifications, so after `dense` (8) accepted mutants at a position only every 16th further
// mask is tried.  Rejections never shorten the sweep, and every accepted mutant that is tried is judged.
func (c *tctx) sweep(o *zv.Out, mut []byte, pos int, masks []byte, rejected *int) {
	const dense = 8
	accepted := 0
	for i, m := range masks {
		if accepted >= dense && i%16 != 0 {
			continue
		}
		before := *rejected
		c.try(o, mut, pos, m, rejected)
		if *rejected == before {
			accepted++
		}
	}
}

func rejTags(o *zv.Out, rejected int) {
	for i := 0; i < rejected/100; i++ {
		o.Tags = append(o.Tags, "tamper:rejected(x100)")
	}
	for i := 0; i < rejected%100; i++ {
		o.Tags = append(o.Tags, "tamper:rejected(x1)")
	}
}

func masksFor(nmask int, seed uint64, pos int) []byte {
	if nmask >= 255 {
		m := make([]byte, 255)
		for i := range m {
			m[i] = byte(i + 1)
		}
		return m
	}
	r := zv.NewRng(seed*0x9e3779b97f4a7c15 + uint64(pos))
	rnd := func() byte { return byte(1 + r.Intn(255)) }
	switch {
	case nmask <= 2: // one walking bit (bit 0 at the positions = 0 mod 8 …) and one random value
		return []byte{1 << uint(pos&7), rnd()}
	case nmask <= 4:
		return []byte{0x01, 0x80, 0xff, rnd()}
	case nmask <= 6:
		return []byte{0x01, 0x80, 0xff, 1 << uint(pos&7), rnd(), rnd()}
	}
	return []byte{1, 2, 4, 8, 16, 32, 64, 128, 0xff, rnd(), rnd(), rnd()}
}

// tamper line: ca cert from to nmask seed der
func execTamper(f []string) zv.Out {
	if len(f) != 8 {
		panic("tamper: wrong number of fields")
	}
	ca, from, to, nmask, seed := atoi(f[1]), atoi(f[3]), atoi(f[4]), atoi(f[5]), uint64(atoi64(f[6]))
	der := zv.UnHex(f[7])
	c, bad := newTctx(ca, f[2], der)
	if c == nil {
		return zv.Out{Viol: bad}
	}
	if to > len(der) {
		to = len(der)
	}
	o := zv.Out{}
	rejected := 0
	mut := make([]byte, len(der))
	for pos := from; pos < to; pos++ {
		c.sweep(&o, mut, pos, masksFor(nmask, seed, pos), &rejected)
	}
	rejTags(&o, rejected)
	return o
}

// structural positions of a response: every byte that is tag, length, unused-bits octet, algorithm identifier, status,
// response type — i.e. everything except the bulk contents of the TBS / signatures / certificates' TBS, of which the
// TLV header bytes and the first and last content byte are kept.
func structuralPositions(der []byte, rs []region) (ps []int, bulk map[int]bool) {
	bulk = map[int]bool{}
	for _, r := range rs {
		if strings.HasPrefix(r.name, "cert") && !strings.HasPrefix(r.name, "cert0-") && !strings.HasPrefix(r.name, "certs-") {
			continue // certificates after the first are ignored by the parser: covered by the every-position stream only
		}
		bulkTLV := r.name == "tbsResponseData" || strings.HasSuffix(r.name, "-tbs")
		bulkRaw := r.name == "sig" || strings.HasSuffix(r.name, "-sig")
		switch {
		case bulkTLV:
			h, _, _ := tl(der, r.from)
			for p := r.from; p < r.from+h+1 && p < r.to; p++ {
				ps = append(ps, p)
				bulk[p] = p >= r.from+h
			}
			ps = append(ps, r.to-1)
			bulk[r.to-1] = true
		case bulkRaw:
			ps = append(ps, r.from)
			bulk[r.from] = true
			if r.to-1 > r.from {
				ps = append(ps, r.to-1)
				bulk[r.to-1] = true
			}
		default:
			for p := r.from; p < r.to; p++ {
				ps = append(ps, p)
			}
		}
	}
	return
}

// tstruct line: ca cert part nparts seed der — ALL 255 values at every structural position p with index%nparts == part
// (12 masks inside the embedded certificate's outer algorithm OID / parameters, where every value is accepted and each
// acceptance costs four signature verifications; certificates after the first are left to the every-position stream).
func execTStruct(f []string) zv.Out {
	if len(f) != 7 {
		panic("tstruct: wrong number of fields")
	}
	ca, part, nparts, seed := atoi(f[1]), atoi(f[3]), atoi(f[4]), uint64(atoi64(f[5]))
	der := zv.UnHex(f[6])
	c, bad := newTctx(ca, f[2], der)
	if c == nil {
		return zv.Out{Viol: bad}
	}
	o := zv.Out{}
	rejected := 0
	mut := make([]byte, len(der))
	sp, bulk := structuralPositions(der, c.rs)
	for i, pos := range sp {
		if i%nparts != part {
			continue
		}
		reg := regionOf(c.rs, pos)
		n := 255
		if reg == "cert0-sigalg-oid" || reg == "cert0-sigalg-params" {
			n = 12
		}
		if bulk[pos] { // a content byte: any change is caught (or not) by the signature check alone
			n = 12
		}
		c.sweep(&o, mut, pos, masksFor(n, seed, pos), &rejected)
		o.Tags = append(o.Tags, "tstruct:pos@"+reg)
	}
	rejTags(&o, rejected)
	return o
}

// sigTrailingZeros: number of zero bits at the end of the response signature (8 = last byte is zero).  A mutant whose
// unused-bits octet is k is well-formed DER only if the last k bits of the value are zero, so the generator asks for
// signatures with trailing zero bits to make the "unused bits 0 -> k" mutants reach the signature check.
func sigTrailingZeros(der []byte) int {
	x := indepDecode(der)
	if !x.ok || len(x.sig) == 0 {
		return 0
	}
	return bits.TrailingZeros8(x.sig[len(x.sig)-1])
}

func genTamper(g *zv.Gen) {
	r := g.Rng
	p := pool()
	type target struct {
		ca   int
		cert string
		der  []byte
	}
	// create: CreateResponse output, re-made (fresh serial, hence fresh signature also for RSA) until the signature ends in tz zero bits
	create := func(ca, mode, variant, tz int) target {
		signer, rcert, embed := respSetup(ca, mode)
		var best []byte
		for attempt := 0; attempt < 1500; attempt++ {
			t := ocsp.Response{Status: variant % 3, SerialNumber: new(big.Int).SetBytes(r.Bytes(1 + r.Intn(19))), ThisUpdate: time.Unix(1700000000+int64(r.Intn(1000000)), 0),
				RevokedAt: time.Unix(1600000000+int64(r.Intn(1000000)), 0), IssuerHash: 0}
			if variant%3 == 1 {
				t.RevocationReason = 4
			}
			if variant&1 == 1 {
				t.NextUpdate = t.ThisUpdate.Add(24 * time.Hour)
				t.ExtraExtensions = []zpkix.Extension{{Id: []int{1, 3, 6, 1, 4, 1, 99999, 10}, Value: []byte{4, 2, 1, 2}}}
			}
			if variant&2 == 2 {
				t.IssuerHash = 5
			}
			if embed != nil {
				t.Certificate = embed.cert
			}
			der, err := ocsp.CreateResponse(p[ca].cert, rcert.cert, t, signer.key)
			if err != nil {
				panic(err)
			}
			if best == nil || sigTrailingZeros(der) > sigTrailingZeros(best) {
				best = der
			}
			if sigTrailingZeros(best) >= tz {
				break
			}
		}
		return target{ca, "n", best}
	}
	asm := func(ca, mode, tz int) target {
		sp := &asmSpec{ca: ca, rtag: 2, produced: 1700000000 + int64(r.Intn(100000))*60, signer: p[ca], sigTZ: tz}
		rs := responderOf(ca)
		if mode == 1 {
			sp.signer, sp.certs = rs, [][]byte{rs.der, responderOf((ca + 1) % nCA).der}
		}
		sp.singles = []asmSingle{
			{serial: big.NewInt(5), good: true, this: 1700000000, next: zeroTimeSec, hash: 3},
			{serial: big.NewInt(7), rev: true, revAt: 1600000000, reason: 1, this: 1700003600, next: 1700090000, hash: 5, ext: true},
			{serial: big.NewInt(7), unk: true, this: 1700007200, next: zeroTimeSec, hash: 3}}
		return target{ca, "7", assemble(sp)}
	}
	emit := func(t target, from, to, nmask int) {
		for a := from; a < to; a += 256 {
			b := a + 256
			if b > to {
				b = to
			}
			g.Emitf("c13 tamper %d %s %d %d %d %d %s", t.ca, t.cert, a, b, nmask, r.U64()>>12, zv.Hex(t.der))
		}
	}
	// (1) structural positions, deterministic in every tier: ALL 255 values of every tag / length / unused-bits /
	// algorithm-identifier byte of every wrapper, for every issuer key type x {issuer-signed, delegated responder,
	// issuer-signed with certificate, hand-assembled with two certificates}.  The issuer-signed response of every CA has a
	// signature ending in >= 7 zero bits, so that unused-bits 1..7 are all well-formed; the others end in >= 3.
	const nparts = 4
	estruct := func(t target) {
		for part := 0; part < nparts; part++ {
			g.Emitf("c13 tstruct %d %s %d %d %d %s", t.ca, t.cert, part, nparts, r.U64()>>12, zv.Hex(t.der))
		}
	}
	for rep := 0; rep < g.N(1, 3); rep++ {
		for ca := 0; ca < nCA; ca++ {
			estruct(create(ca, 0, rep+ca, 7))
			estruct(create(ca, 1, rep+ca+1, 3))
			estruct(create(ca, 4, rep+ca+2, 3))
			estruct(asm(ca, 1, 3))
			if rep > 0 {
				estruct(asm(ca, 0, 7))
			}
		}
	}
	// (2) every position x a few masks (quick: a walking bit and a random value; the structural positions had all 255 in (1))
	nFull, maskFull := g.N(1, 8), g.N(2, 12)
	for rep := 0; rep < nFull; rep++ {
		for ca := 0; ca < nCA; ca++ {
			for _, mode := range []int{0, 1, 4} {
				for v := 0; v < g.N(1, 2); v++ {
					t := create(ca, mode, rep*2+v+ca+mode+int(g.Seed), 1+v)
					emit(t, 0, len(t.der), maskFull)
				}
			}
			for mode := 0; mode < 2; mode++ {
				t := asm(ca, mode, 1+mode)
				emit(t, 0, len(t.der), maskFull)
			}
		}
	}
	// (3) every one of the 255 single-byte mutations at every position (thorough: all CAs; quick: one small response, the CA rotating with the seed over P-256, RSA-1024, P-224, RSA-2048)
	if g.Quick {
		// (P-384 / P-521 issuers only in the thorough tier: ~85 000 verifications at 0.5-1.5 ms each)
		t := create([]int{2, 0, 4, 1}[g.Seed%4], 0, 1, 2)
		emit(t, 0, len(t.der), 255)
	} else {
		for ca := 0; ca < nCA; ca++ {
			for _, mode := range []int{0, 1} {
				t := create(ca, mode, ca+mode, 2)
				emit(t, 0, len(t.der), 255)
			}
			t := asm(ca, 1, 2)
			emit(t, 0, len(t.der), 255)
		}
	}
	// (4) sampled windows over many more responses
	n := g.N(100, 2000)
	for i := 0; i < n; i++ {
		var t target
		if r.Chance(20) {
			t = asm(r.Intn(nCA), r.Intn(2), r.Intn(3))
		} else {
			t = create(r.Intn(nCA), []int{0, 1, 4}[r.Intn(3)], r.Intn(12), r.Intn(3))
		}
		from := r.Intn(len(t.der))
		emit(t, from, min(from+g.N(48, 64), len(t.der)), g.N(6, 12))
	}
}
