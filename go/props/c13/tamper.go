package c13

import (
	"bytes"
	"fmt"
	"math/big"
	"time"

	"github.com/zmap/zcrypto/x509"
	zpkix "github.com/zmap/zcrypto/x509/pkix"
	"github.com/zmap/zcrypto/x509/revocation/ocsp"

	"zv/internal/zv"
)

// ---- where in the DER a byte lies (plain TLV walk, no ASN.1 library) ----

type region struct {
	from, to int
	name     string
}

func tl(b []byte, off int) (hdr, clen int, ok bool) {
	if off+2 > len(b) {
		return
	}
	l := int(b[off+1])
	hdr = 2
	if l&0x80 != 0 {
		n := l & 0x7f
		if n == 0 || n > 3 || off+2+n > len(b) {
			return
		}
		l = 0
		for i := 0; i < n; i++ {
			l = l<<8 | int(b[off+2+i])
		}
		hdr += n
	}
	if off+hdr+l > len(b) {
		return
	}
	return hdr, l, true
}

// regions of an OCSPResponse produced by CreateResponse / assemble (well-formed by construction).
func regions(b []byte) (rs []region) {
	off := 0
	add := func(n int, name string) { rs = append(rs, region{off, off + n, name}); off += n }
	hdrOnly := func(name string) {
		h, _, ok := tl(b, off)
		if !ok {
			panic("regions: malformed " + name)
		}
		add(h, name)
	}
	whole := func(name string) {
		h, l, ok := tl(b, off)
		if !ok {
			panic("regions: malformed " + name)
		}
		add(h+l, name)
	}
	algid := func(prefix string) {
		h, l, ok := tl(b, off)
		if !ok {
			panic("regions: malformed algid")
		}
		end := off + h + l
		add(h, prefix+"sigalg-hdr")
		whole(prefix + "sigalg-oid")
		if off < end {
			add(end-off, prefix+"sigalg-params")
		}
	}
	bitstr := func(prefix string) {
		h, l, ok := tl(b, off)
		if !ok {
			panic("regions: malformed bit string")
		}
		add(h+1, prefix+"sig-bitstring-hdr")
		add(l-1, prefix+"sig")
	}
	hdrOnly("outer-seq-hdr")
	whole("response-status")
	hdrOnly("responseBytes-ctx-hdr")
	hdrOnly("responseBytes-seq-hdr")
	whole("response-type-oid")
	hdrOnly("response-octetstring-hdr")
	hdrOnly("basic-seq-hdr")
	whole("tbsResponseData")
	algid("")
	bitstr("")
	if off < len(b) {
		hdrOnly("certs-ctx-hdr")
		hdrOnly("certs-seq-hdr")
		for i := 0; off < len(b); i++ {
			p := fmt.Sprintf("cert%d-", i)
			hdrOnly(p + "seq-hdr")
			whole(p + "tbs")
			algid(p)
			bitstr(p)
		}
	}
	return
}

func regionOf(rs []region, pos int) string {
	for _, r := range rs {
		if pos >= r.from && pos < r.to {
			return r.name
		}
	}
	return "?"
}

// ---- comparison of two parsed responses, every field ----

func extsEqual(a, b []zpkix.Extension) bool {
	if len(a) != len(b) {
		return false
	}
	for i := range a {
		if !a[i].Id.Equal(b[i].Id) || a[i].Critical != b[i].Critical || !bytes.Equal(a[i].Value, b[i].Value) {
			return false
		}
	}
	return true
}

// diffSigned names a field derived from the SIGNED TBSResponseData that differs between two parsed responses ("" = none).
func diffSigned(a, b *ocsp.Response) string {
	switch {
	case a.Status != b.Status:
		return "Status"
	case a.SerialNumber.Cmp(b.SerialNumber) != 0:
		return "SerialNumber"
	case a.IsRevoked != b.IsRevoked:
		return "IsRevoked"
	case !a.ProducedAt.Equal(b.ProducedAt):
		return "ProducedAt"
	case !a.ThisUpdate.Equal(b.ThisUpdate):
		return "ThisUpdate"
	case !a.NextUpdate.Equal(b.NextUpdate):
		return "NextUpdate"
	case !a.RevokedAt.Equal(b.RevokedAt):
		return "RevokedAt"
	case a.RevocationReason != b.RevocationReason:
		return "RevocationReason"
	case !bytes.Equal(a.TBSResponseData, b.TBSResponseData):
		return "TBSResponseData"
	case a.IssuerHash != b.IssuerHash:
		return "IssuerHash"
	case !bytes.Equal(a.RawResponderName, b.RawResponderName) || (a.RawResponderName == nil) != (b.RawResponderName == nil):
		return "RawResponderName"
	case !bytes.Equal(a.ResponderKeyHash, b.ResponderKeyHash) || (a.ResponderKeyHash == nil) != (b.ResponderKeyHash == nil):
		return "ResponderKeyHash"
	case !extsEqual(a.Extensions, b.Extensions):
		return "Extensions"
	}
	return ""
}

// classifyUnsigned looks at the fields NOT covered by the response signature (Signature, SignatureAlgorithm,
// Certificate) of an accepted mutant whose signed fields all agree with the original.  It returns
//
//	""                       nothing differs at all (mutation confined to wrapper bytes)
//	"cert-outer"             only the embedded certificate's encoding outside TBS/signature/algorithm differs
//	"cert-dropped"           the embedded certificate is gone and the response verifies directly under the issuer
//	"ecdsa-sig-trailing"     the signature is the original one followed by extra bytes, issuer key is ECDSA and zcrypto's
//	                         verify primitive accepts it (x509.CheckSignatureFromKey, *AugmentedECDSA branch ignores trailing data)
//	"!…"                     anything else: a violation
func classifyUnsigned(orig, r *ocsp.Response, iss *ent) string {
	certSame := (orig.Certificate == nil) == (r.Certificate == nil) && (orig.Certificate == nil || bytes.Equal(orig.Certificate.Raw, r.Certificate.Raw))
	sigSame := bytes.Equal(orig.Signature, r.Signature) && orig.SignatureAlgorithm == r.SignatureAlgorithm
	if certSame && sigSame {
		return ""
	}
	// the accepted mutant must still be bound to the issuer, by zcrypto's own primitive, on the fields it reports
	if r.Certificate == nil {
		if r.CheckSignatureFrom(iss.cert) != nil {
			return "!accepted without a valid issuer signature"
		}
	} else if r.CheckSignatureFrom(r.Certificate) != nil ||
		iss.cert.CheckSignature(r.Certificate.SignatureAlgorithm, r.Certificate.RawTBSCertificate, r.Certificate.Signature) != nil {
		return "!accepted without a valid chain to the issuer"
	}
	if !sigSame {
		if orig.SignatureAlgorithm == r.SignatureAlgorithm && !isRSA(iss) && r.Certificate == nil && len(r.Signature) > len(orig.Signature) &&
			bytes.HasPrefix(r.Signature, orig.Signature) {
			return "ecdsa-sig-trailing"
		}
		return "!Signature/SignatureAlgorithm changed"
	}
	if r.Certificate == nil {
		return "cert-dropped"
	}
	if orig.Certificate != nil {
		ca, cb := orig.Certificate, r.Certificate
		if bytes.Equal(ca.RawTBSCertificate, cb.RawTBSCertificate) && bytes.Equal(ca.Signature, cb.Signature) && ca.SignatureAlgorithm == cb.SignatureAlgorithm {
			return "cert-outer"
		}
	}
	return "!Certificate changed"
}

func masksFor(nmask int, seed uint64, pos int) []byte {
	if nmask >= 255 {
		m := make([]byte, 255)
		for i := range m {
			m[i] = byte(i + 1)
		}
		return m
	}
	r := zv.NewRng(seed*0x9e3779b97f4a7c15 + uint64(pos))
	rnd := func() byte { return byte(1 + r.Intn(255)) }
	if nmask <= 4 {
		return []byte{0x01, 0x80, 0xff, rnd()}
	}
	return []byte{1, 2, 4, 8, 16, 32, 64, 128, 0xff, rnd(), rnd(), rnd()}
}

// tamper line: ca cert from to nmask seed der
func execTamper(f []string) zv.Out {
	if len(f) != 8 {
		panic("tamper: wrong number of fields")
	}
	ca, from, to, nmask, seed := atoi(f[1]), atoi(f[3]), atoi(f[4]), atoi(f[5]), uint64(atoi64(f[6]))
	der := zv.UnHex(f[7])
	iss := pool()[ca]
	var cert *x509.Certificate
	if f[2] != "n" {
		cert = &x509.Certificate{SerialNumber: bigOf(f[2])}
	}
	orig, err := ocsp.ParseResponseForCert(der, cert, iss.cert)
	if err != nil {
		return zv.Out{Viol: "harness inconsistency: the untampered response is rejected: " + err.Error()}
	}
	rs := regions(der)
	if to > len(der) {
		to = len(der)
	}
	o := zv.Out{}
	rejected := 0
	mut := make([]byte, len(der))
	for pos := from; pos < to; pos++ {
		for _, m := range masksFor(nmask, seed, pos) {
			copy(mut, der)
			mut[pos] ^= m
			r, err := ocsp.ParseResponseForCert(mut, cert, iss.cert)
			if err != nil {
				rejected++
				continue
			}
			reg := regionOf(rs, pos)
			viol := func(what string) {
				if o.Viol == "" {
					o.Viol = fmt.Sprintf("tampered response accepted: byte %d (%s) xor 0x%02x: %s; replay with from=%d to=%d", pos, reg, m, what, pos, pos+1)
				}
				o.Tags = append(o.Tags, "tamper:ACCEPTED-CHANGED@"+reg)
			}
			if d := diffSigned(orig, r); d != "" {
				viol("signed field " + d + " changed")
				continue
			}
			switch c := classifyUnsigned(orig, r, iss); {
			case c == "":
				o.Tags = append(o.Tags, "tamper:accepted-unsigned-wrapper@"+reg)
			case c[0] == '!':
				viol(c[1:])
			default:
				o.Tags = append(o.Tags, "tamper:accepted-unsigned("+c+")@"+reg)
			}
		}
	}
	for i := 0; i < rejected/100; i++ {
		o.Tags = append(o.Tags, "tamper:rejected(x100)")
	}
	for i := 0; i < rejected%100; i++ {
		o.Tags = append(o.Tags, "tamper:rejected(x1)")
	}
	return o
}

func genTamper(g *zv.Gen) {
	r := g.Rng
	p := pool()
	type target struct {
		ca   int
		cert string
		der  []byte
	}
	create := func(ca, mode, variant int) target {
		signer, rcert, embed := respSetup(ca, mode)
		t := ocsp.Response{Status: variant % 3, SerialNumber: new(big.Int).SetBytes(r.Bytes(1 + r.Intn(19))), ThisUpdate: time.Unix(1700000000+int64(r.Intn(1000000)), 0),
			RevokedAt: time.Unix(1600000000+int64(r.Intn(1000000)), 0), IssuerHash: 0}
		t.RevocationReason = 0
		if variant%3 == 1 {
			t.RevocationReason = 1 + t.RevocationReason + 3
		}
		if variant&1 == 1 {
			t.NextUpdate = t.ThisUpdate.Add(24 * time.Hour)
			t.ExtraExtensions = []zpkix.Extension{{Id: []int{1, 3, 6, 1, 4, 1, 99999, 10}, Value: []byte{4, 2, 1, 2}}}
		}
		if variant&2 == 2 {
			t.IssuerHash = 5
		}
		if embed != nil {
			t.Certificate = embed.cert
		}
		der, err := ocsp.CreateResponse(p[ca].cert, rcert.cert, t, signer.key)
		if err != nil {
			panic(err)
		}
		return target{ca, "n", der}
	}
	asm := func(ca, mode int) target {
		sp := &asmSpec{ca: ca, rtag: 2, produced: 1700000000, signer: p[ca]}
		rs := responderOf(ca)
		if mode == 1 {
			sp.signer, sp.certs = rs, [][]byte{rs.der, responderOf((ca + 1) % nCA).der}
		}
		sp.singles = []asmSingle{
			{serial: big.NewInt(5), good: true, this: 1700000000, next: zeroTimeSec, hash: 3},
			{serial: big.NewInt(7), rev: true, revAt: 1600000000, reason: 1, this: 1700003600, next: 1700090000, hash: 5, ext: true},
			{serial: big.NewInt(7), unk: true, this: 1700007200, next: zeroTimeSec, hash: 3}}
		return target{ca, "7", assemble(sp)}
	}
	emit := func(t target, from, to, nmask int) {
		for a := from; a < to; a += 256 {
			b := a + 256
			if b > to {
				b = to
			}
			g.Emitf("c13 tamper %d %s %d %d %d %d %s", t.ca, t.cert, a, b, nmask, r.U64()>>12, zv.Hex(t.der))
		}
	}
	// full coverage of every position
	nFull, maskFull := g.N(1, 12), g.N(4, 12)
	for rep := 0; rep < nFull; rep++ {
		for ca := 0; ca < nCA; ca++ {
			for _, mode := range []int{0, 1, 4} {
				for v := 0; v < 2; v++ {
					t := create(ca, mode, rep*2+v+ca)
					emit(t, 0, len(t.der), maskFull)
				}
			}
			for mode := 0; mode < 2; mode++ {
				t := asm(ca, mode)
				emit(t, 0, len(t.der), maskFull)
			}
		}
	}
	// every one of the 255 single-byte mutations at every position (thorough: all CAs; quick: one small response)
	if g.Quick {
		t := create(2, 0, 1)
		emit(t, 0, len(t.der), 255)
	} else {
		for ca := 0; ca < nCA; ca++ {
			for _, mode := range []int{0, 1} {
				t := create(ca, mode, ca+mode)
				emit(t, 0, len(t.der), 255)
			}
			t := asm(ca, 1)
			emit(t, 0, len(t.der), 255)
		}
	}
	// sampled windows over many more responses
	n := g.N(150, 3000)
	for i := 0; i < n; i++ {
		var t target
		if r.Chance(20) {
			t = asm(r.Intn(nCA), r.Intn(2))
		} else {
			t = create(r.Intn(nCA), []int{0, 1, 4}[r.Intn(3)], r.Intn(12))
		}
		from := r.Intn(len(t.der))
		emit(t, from, min(from+64, len(t.der)), 12)
	}
}
