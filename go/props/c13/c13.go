// Package c13: OCSP request / response round trips and signature binding
// (x509/revocation/ocsp: CreateRequest, ParseRequest, CreateResponse, ParseResponse, ParseResponseForCert).
//
// sub-ops (see lean/ZV/Drv/C13.lean for the two that also go to the model):
//
//	c13 decide <abstract input…> <issuerIdx> <derhex>      T2 + T3   real ParseResponseForCert vs the Lean decision model
//	c13 resp   <ca> <mode> <inil> <algok> <template…> <keyKind> <reqAlgo>   T2 + T3   CreateResponse -> ParseResponse round trip (+ signingParamsForPublicKey model)
//	c13 xresp  <issuer name variant> <responder name variant> <the fields of resp>   T2 + T3   the same round trip over certificates with exotic names (xpki.go)
//	c13 req    <ca> <hash> <serial> <nilopts>              T3        CreateRequest -> ParseRequest (ca >= 100: issuer with an exotic name, see entAt)
//	c13 reqm   <hash> <namehash> <keyhash> <serial>        T3        Request.Marshal -> ParseRequest
//	c13 enc    <ca> <mode> <keyKind> <reqAlgo> <template…> <hashes> <responder name> <sig> <cert|n>   T2 + T3   CreateResponse byte for byte vs ZV.Model.C13Enc (enc.go)
//	c13 tamper <ca> <cert n|serial> <from> <to> <nmask> <seed> <derhex>   T3  every single-byte mutation in [from,to)
//	c13 tstruct <ca> <cert n|serial> <part> <nparts> <seed> <derhex>      T3  all 255 values at every structural position (tags, lengths, unused-bits octet, algorithm identifiers)
package c13

import (
	"bytes"
	"crypto"
	"crypto/ecdsa"
	"crypto/elliptic"
	stdrsa "crypto/rsa"
	"encoding/asn1"
	"fmt"
	"math/big"
	"reflect"
	"strconv"
	"strings"
	"sync"
	"time"

	"github.com/zmap/zcrypto/x509"
	zpkix "github.com/zmap/zcrypto/x509/pkix"
	"github.com/zmap/zcrypto/x509/revocation/crl"
	"github.com/zmap/zcrypto/x509/revocation/ocsp"

	"zv/internal/zv"
)

func b01(b bool) string {
	if b {
		return "1"
	}
	return "0"
}

func atoi(s string) int {
	n, err := strconv.Atoi(s)
	if err != nil {
		panic("bad int in line: " + s)
	}
	return n
}
func atoi64(s string) int64 {
	n, err := strconv.ParseInt(s, 10, 64)
	if err != nil {
		panic("bad int in line: " + s)
	}
	return n
}
func bigOf(s string) *big.Int {
	n, ok := new(big.Int).SetString(s, 10)
	if !ok {
		panic("bad big int in line: " + s)
	}
	return n
}

// ---------------------------------------------------------------- canonical output of a parsed Response

func statusName(s int) string {
	switch s {
	case ocsp.Good:
		return "good"
	case ocsp.Revoked:
		return "revoked"
	case ocsp.Unknown:
		return "unknown"
	}
	return "status" + strconv.Itoa(s)
}

func canon(r *ocsp.Response, idx int) string {
	ra, re := "-", "-"
	if r.Status == ocsp.Revoked {
		ra, re = strconv.FormatInt(r.RevokedAt.Unix(), 10), strconv.Itoa(int(r.RevocationReason))
	}
	kind := "none"
	switch {
	case r.RawResponderName != nil && r.ResponderKeyHash == nil:
		kind = "name"
	case r.RawResponderName == nil && r.ResponderKeyHash != nil:
		kind = "keyhash"
	case r.RawResponderName != nil && r.ResponderKeyHash != nil:
		kind = "both"
	}
	return fmt.Sprintf("ok %d %s %s %d %d %s %s %d %s %s", idx, statusName(r.Status), r.SerialNumber.String(),
		r.ThisUpdate.Unix(), r.NextUpdate.Unix(), ra, re, int(r.IssuerHash), kind, b01(r.Certificate != nil))
}

// ---------------------------------------------------------------- decide

func singlesStr(ss []absSingle) string {
	if len(ss) == 0 {
		return "-"
	}
	var p []string
	for _, s := range ss {
		p = append(p, fmt.Sprintf("%s/%s/%s/%d/%d/%d/%d/%d/%s", s.serial.String(), b01(s.good), b01(s.unk), s.this, s.next,
			s.revAt, s.reason, s.hash, b01(s.crit)))
	}
	return strings.Join(p, ",")
}

// absFields renders the abstract input exactly as it appears on a decide line (first 11 fields + singles).
func absFields(a abstract) (head string, singles string) {
	return fmt.Sprintf("%s %d %s %s %d %s %d %s %s %s %s", b01(a.outerOk), a.status, b01(a.typeOk), b01(a.basicOk), a.rtag,
		b01(a.rok), a.ncerts, b01(a.c0ok), b01(a.vEResp), b01(a.vICert), b01(a.vIResp)), singlesStr(a.singles)
}

func emitDecide(g *zv.Gen, der []byte, ca int, issuerNil bool, cert string) {
	a := decodeAbs(der, entAt(ca))
	h, s := absFields(a)
	g.Emitf("c13 decide %s %s %s %s %d %s", h, b01(!issuerNil), cert, s, ca, zv.Hex(der))
	// the same case with the Lean side decoding the DER itself (ZV.Model.C13Der) instead of taking the abstract fields
	g.Emitf("c13 bytes %s %s %s %s %d %s", h, b01(!issuerNil), cert, s, ca, zv.Hex(der))
}

func execDecide(f []string) zv.Out {
	// f: decide + 11 abstract + issuer + cert + singles + ca + der
	if len(f) != 17 {
		panic("decide: wrong number of fields")
	}
	ca := atoi(f[15])
	der := zv.UnHex(f[16])
	iss := entAt(ca)
	orig := append([]byte{}, der...)
	a := decodeAbs(der, iss)
	h, s := absFields(a)
	if h != strings.Join(f[1:12], " ") || s != f[14] {
		return zv.Out{Go: "harness-inconsistency", Viol: "harness inconsistency: the abstract fields on the line do not describe the DER (independent decode gives: " + h + " " + s + ")"}
	}
	var issuer, cert *x509.Certificate
	if f[12] == "1" {
		issuer = iss.cert
	}
	if f[13] != "n" {
		cert = &x509.Certificate{SerialNumber: bigOf(f[13])}
	}
	r, err := ocsp.ParseResponseForCert(der, cert, issuer)
	tags := []string{"decide:ncerts=" + f[7], "decide:issuer=" + f[12]}
	if cert == nil {
		tags = append(tags, "decide:cert=nil")
	}
	if err != nil {
		tags = append(tags, "decide:err:"+errClass(err))
		return zv.Out{Go: "err", Tags: tags}
	}
	idx := idxOf(a, r)
	out := zv.Out{Go: canon(r, idx), Tags: append(tags, "decide:ok", fmt.Sprintf("decide:ok-idx=%d/%d", idx, len(a.singles)))}
	// T3, directly on the implementation: the sentences of the property
	if issuer != nil {
		direct := a.ncerts == 0 && a.vIResp
		via := a.ncerts > 0 && a.c0ok && a.vEResp && a.vICert
		if !direct && !via {
			out.Viol = "accepted with an issuer although the signature verifies neither under the issuer nor through an embedded certificate signed by the issuer"
		}
	} else if a.ncerts > 0 && !(a.c0ok && a.vEResp) {
		out.Viol = "accepted although the signature does not verify under the embedded certificate"
	}
	if cert != nil && out.Viol == "" {
		first := -1
		for i, x := range a.singles {
			if x.serial.Cmp(cert.SerialNumber) == 0 {
				first = i
				break
			}
		}
		if first != idx {
			out.Viol = fmt.Sprintf("ParseResponseForCert returned single response %d, the first with a matching serial is %d", idx, first)
		}
	}
	if cert == nil && len(a.singles) != 1 && out.Viol == "" {
		out.Viol = "ParseResponse accepted a response that does not hold exactly one single response"
	}
	if out.Viol == "" {
		out.Viol = decideRepeat(der, orig, a, r, cert, f[13], issuer, iss, &out)
	}
	return out
}

// idxOf: which single response of the independent decode a parsed Response is
func idxOf(a abstract, r *ocsp.Response) int {
	for i, x := range a.singles {
		if x.this == r.ThisUpdate.Unix() && x.serial.Cmp(r.SerialNumber) == 0 && x.next == r.NextUpdate.Unix() {
			return i
		}
	}
	return -1
}

// decideRepeat — "inputs are only read, repeated calls agree", and the first-match sentence for EVERY serial of the
// response (and the negation / an absent neighbour of each), all on the same byte slice and the same certificate objects:
//   - the DER, the certificate and the issuer handed in are unchanged after the call;
//   - the raw fields reported are the bytes of the DER (responder name, embedded certificate);
//   - asking for each serial in turn returns the FIRST single response with exactly that serial (math/big.Cmp; sign
//     matters) or an error if there is none; asking again for the original certificate gives the first answer again.
func decideRepeat(der, orig []byte, a abstract, r *ocsp.Response, cert *x509.Certificate, certArg string, issuer *x509.Certificate, iss *ent, out *zv.Out) string {
	if !bytes.Equal(der, orig) {
		return "ParseResponseForCert modified the bytes handed in"
	}
	if cert != nil && cert.SerialNumber.String() != certArg {
		return "ParseResponseForCert modified the certificate handed in"
	}
	if v := rawFieldsViol(iss); v != "" {
		return "after ParseResponseForCert the issuer's " + v
	}
	if a.rtag == 1 && !bytes.Equal(r.RawResponderName, a.rid) {
		return "RawResponderName is not the responder name of the DER"
	}
	if a.ncerts > 0 && (r.Certificate == nil || !bytes.Equal(r.Certificate.Raw, a.cert0)) {
		return "Response.Certificate.Raw is not the first embedded certificate of the DER"
	}
	if !bytes.Equal(r.TBSResponseData, a.tbs) || !bytes.Equal(r.Signature, a.sig) {
		return "TBSResponseData / Signature are not the bytes of the DER"
	}
	first := canon(r, idxOf(a, r))
	if cert != nil {
		asked := map[string]bool{}
		var qs []*big.Int
		for _, x := range a.singles {
			for _, q := range []*big.Int{x.serial, new(big.Int).Neg(x.serial), new(big.Int).Add(x.serial, big.NewInt(1))} {
				if !asked[q.String()] && len(qs) < 12 {
					asked[q.String()] = true
					qs = append(qs, q)
				}
			}
		}
		for _, q := range qs {
			want := -1
			for i, x := range a.singles {
				if x.serial.Cmp(q) == 0 {
					want = i
					break
				}
			}
			r2, err := ocsp.ParseResponseForCert(der, &x509.Certificate{SerialNumber: q}, issuer)
			if want < 0 {
				if err == nil {
					return fmt.Sprintf("asked for serial %s, which is not in the response: got the entry for %s", q, r2.SerialNumber)
				}
				continue
			}
			// the entry may be refused for its own reasons (critical extension, unknown hash); if it is returned it must be the first match
			if err == nil && (idxOf(a, r2) != want || r2.SerialNumber.Cmp(q) != 0) {
				return fmt.Sprintf("asked for serial %s: got single response %d (serial %s), the first with that serial is %d", q, idxOf(a, r2), r2.SerialNumber, want)
			}
			if err == nil && r2.Status != wantStatus(a.singles[want]) {
				return fmt.Sprintf("asked for serial %s: status %d, the first single response with that serial says %d", q, r2.Status, wantStatus(a.singles[want]))
			}
		}
		out.Tags = append(out.Tags, "decide:all-serials-asked")
	}
	rAgain, err := ocsp.ParseResponseForCert(der, cert, issuer)
	if err != nil {
		return "the same call a second time fails: " + err.Error()
	}
	if again := canon(rAgain, idxOf(a, rAgain)); again != first {
		return "the same call a second time gives " + again + " after " + first
	}
	if !bytes.Equal(rAgain.RawResponderName, r.RawResponderName) || !bytes.Equal(rAgain.ResponderKeyHash, r.ResponderKeyHash) ||
		!bytes.Equal(rAgain.TBSResponseData, r.TBSResponseData) || !bytes.Equal(rAgain.Signature, r.Signature) ||
		rAgain.SignatureAlgorithm != r.SignatureAlgorithm || !rAgain.ProducedAt.Equal(r.ProducedAt) || !extsEqual(rAgain.Extensions, r.Extensions) {
		return "the same call a second time reports other raw fields"
	}
	if !bytes.Equal(der, orig) {
		return "ParseResponseForCert modified the bytes handed in"
	}
	return ""
}

func wantStatus(x absSingle) int {
	switch {
	case x.good:
		return ocsp.Good
	case x.unk:
		return ocsp.Unknown
	}
	return ocsp.Revoked
}

func errClass(err error) string {
	s := err.Error()
	for _, k := range []string{"bad OCSP signature", "bad signature on embedded certificate", "bad number of responses", "no response matching",
		"bad OCSP response type", "trailing data", "error from server", "invalid responder", "critical extension", "issuer hash", "asn1:", "x509:"} {
		if strings.Contains(s, k) {
			return strings.ReplaceAll(k, " ", "-")
		}
	}
	return "other"
}

var decSerials = []string{"5", "7", "9", "0", "-3", "1427247692705959881058285969449495136382746625", "340282366920938463463374607431768211455",
	"3", "-5", "-7", "128", "-128", "-1427247692705959881058285969449495136382746625"}

func genDecide(g *zv.Gen) {
	r := g.Rng
	p := pool()
	base := int64(1700000000)
	mkSingles := func(n int) []asmSingle {
		var ss []asmSingle
		for i := 0; i < n; i++ {
			s := asmSingle{serial: bigOf(decSerials[r.Intn(len(decSerials))]), this: base + int64(i)*3600 + int64(r.Intn(3600)),
				next: zeroTimeSec, revAt: base - int64(r.Intn(1000000)) - 1, reason: r.Intn(11), hash: []int{3, 5, 6, 7}[r.Intn(4)]}
			if r.Chance(50) {
				s.next = s.this + 86400
			}
			switch k := r.Intn(100); {
			case k < 35:
				s.good = true
			case k < 65:
				s.rev = true
			case k < 85:
				s.unk = true
			case k < 90:
				s.good, s.unk = true, true
			case k < 95:
				s.good, s.rev = true, true
			case k < 97:
				s.rev, s.unk = true, true
			default: // no CHOICE arm at all
			}
			if r.Chance(6) {
				s.hash = []int{2, 4}[r.Intn(2)] // MD5 / SHA-224 OIDs: not in hashOIDs
			}
			s.crit = r.Chance(6)
			s.ext = r.Chance(30)
			ss = append(ss, s)
		}
		return ss
	}
	// certsMode -> signer, embedded certificates
	setup := func(sp *asmSpec, ca, mode int) {
		rs, other := responderOf(ca), responderOf((ca+1)%nCA)
		sp.signer = p[ca]
		switch mode {
		case 0: // signed by the issuer, nothing embedded
		case 1: // delegated responder, embedded
			sp.signer, sp.certs = rs, [][]byte{rs.der}
		case 2: // responder certified by ANOTHER CA, embedded
			sp.signer, sp.certs = other, [][]byte{other.der}
		case 3: // two certificates, the right one first
			sp.signer, sp.certs = rs, [][]byte{rs.der, other.der}
		case 4: // two certificates, the signer's second: only the first is looked at
			sp.signer, sp.certs = rs, [][]byte{other.der, rs.der}
		case 5: // first embedded certificate does not parse
			sp.signer, sp.certs = rs, [][]byte{{0x30, 0x03, 0x02, 0x01, 0x01}, rs.der}
		case 6: // responder embedded but the issuer signed
			sp.certs = [][]byte{rs.der}
		case 7: // responder signed, nothing embedded
			sp.signer = rs
		case 8: // the issuer's own (self-signed) certificate embedded
			sp.certs = [][]byte{p[ca].der}
		case 9: // issuer signed; another CA's certificate embedded
			sp.certs = [][]byte{p[(ca+1)%nCA].der}
		}
	}
	certChoice := func(ss []asmSingle) string {
		switch k := r.Intn(10); {
		case k < 2:
			return "n"
		case k < 8 && len(ss) > 0:
			return ss[r.Intn(len(ss))].serial.String()
		case k < 9 && len(ss) > 0: // same magnitude, other sign
			return new(big.Int).Neg(ss[r.Intn(len(ss))].serial).String()
		}
		return "4242"
	}
	// systematic: certificate mode x issuer/nil x good/bad signature x CA, one and two single responses
	for ca := 0; ca < nCA; ca++ {
		for mode := 0; mode <= 9; mode++ {
			for v := 0; v < 8; v++ {
				sp := &asmSpec{ca: ca, rtag: 1 + v%2, produced: base, flipSig: v&2 != 0}
				setup(sp, ca, mode)
				sp.singles = mkSingles(1 + v/4)
				der := assemble(sp)
				for _, inil := range []bool{false, true} {
					emitDecide(g, der, ca, inil, "n")
					emitDecide(g, der, ca, inil, sp.singles[len(sp.singles)-1].serial.String())
				}
			}
		}
	}
	// signature BIT STRING declaring 1..7 unused bits over a value whose last bits are zero (well-formed DER): what is
	// verified is the right-aligned value, so a good signature must stop verifying — every CA x direct / delegated /
	// wrong CA / issuer-signed with certificates
	for ca := 0; ca < nCA; ca++ {
		for _, mode := range []int{0, 1, 2, 6, 8} {
			pads := []int{1, 2, 4}
			if mode == 0 {
				pads = []int{1, 2, 3, 4, 5, 6, 7}
			}
			for _, k := range pads {
				sp := &asmSpec{ca: ca, rtag: 1 + k%2, produced: base, padBits: k}
				setup(sp, ca, mode)
				sp.singles = mkSingles(1)
				der := assemble(sp)
				for _, inil := range []bool{false, true} {
					emitDecide(g, der, ca, inil, "n")
					emitDecide(g, der, ca, inil, sp.singles[0].serial.String())
				}
			}
		}
	}
	// serial lists of signed multi-entry responses (CreateResponse cannot build them): sign, magnitude, duplicates and the
	// position of the matching entry.  Over {+N, -N, N+1} every list of length 2 and 3, and lists of length 4 with both
	// signs twice, for N at the byte boundaries of the DER INTEGER (+128 = 00 80, -128 = 80; 255/256; 2^15; 2^63; a 20-byte
	// serial); entries with the same magnitude carry different statuses; asked for +N, -N (and 0 / N+1 in turn).
	mags := []string{"1", "7", "127", "128", "200", "255", "256", "32768", "9223372036854775808", "1427247692705959881058285969449495136382746625"}
	if g.Quick {
		mags = []string{"1", "128", "200", "256", "9223372036854775808", "1427247692705959881058285969449495136382746625"}
	}
	for mi, m := range mags {
		N := bigOf(m)
		alpha := []*big.Int{N, new(big.Int).Neg(N), new(big.Int).Add(N, big.NewInt(1))}
		var lists [][]*big.Int
		for a := 0; a < 3; a++ {
			for b := 0; b < 3; b++ {
				lists = append(lists, []*big.Int{alpha[a], alpha[b]})
				for c := 0; c < 3; c++ {
					lists = append(lists, []*big.Int{alpha[a], alpha[b], alpha[c]})
				}
			}
		}
		negM := new(big.Int).Neg(alpha[2])
		lists = append(lists, []*big.Int{alpha[2], negM, alpha[1], alpha[0]}, []*big.Int{alpha[1], alpha[1], alpha[0], alpha[0]},
			[]*big.Int{alpha[0], alpha[1], alpha[0], alpha[1]}, []*big.Int{negM, alpha[2], alpha[0], alpha[1]}, []*big.Int{big.NewInt(0), alpha[1], alpha[2], alpha[0]})
		for li, l := range lists {
			ca := (mi + li) % nCA
			sp := &asmSpec{ca: ca, rtag: 1 + li%2, produced: base}
			setup(sp, ca, []int{0, 1, 0, 3}[li%4])
			for i, sn := range l {
				x := asmSingle{serial: sn, this: base + int64(i)*3600 + int64(li), next: zeroTimeSec, revAt: base - 1000 - int64(i), reason: 1 + (li+i)%6, hash: []int{3, 5, 6, 7}[(li+i)%4]}
				switch (li + i) % 3 {
				case 0:
					x.good = true
				case 1:
					x.rev = true
				default:
					x.unk = true
				}
				sp.singles = append(sp.singles, x)
			}
			der := assemble(sp)
			emitDecide(g, der, ca, li%5 == 4, alpha[0].String())
			emitDecide(g, der, ca, li%5 == 3, alpha[1].String())
			switch li % 3 {
			case 0:
				emitDecide(g, der, ca, false, alpha[2].String())
			case 1:
				emitDecide(g, der, ca, false, negM.String())
			}
		}
	}
	// issuers and delegated responders whose names are not in Go's own encoding (xpki.go): direct, delegated and
	// issuer-certificate-embedded responses, responder by name and by key hash
	for v := range nameVarList {
		for k := 0; k < g.N(2, 6); k++ {
			ca := (v + k) % nCA
			vR := (v + 1 + 5*k) % len(nameVarList)
			xi, xr := xCA(ca, v), xResp(ca, v, vR)
			if xi.e == nil || xr.e == nil || !xi.e.stdParsed || !xr.e.stdParsed {
				continue // the independent decoder of decide lines is the standard library: names it refuses are covered by xresp lines
			}
			for mode := 0; mode < 3; mode++ {
				sp := &asmSpec{ca: xIdx(ca, v), rtag: 1 + (k+mode)%2, produced: base, signer: xi.e}
				switch mode {
				case 1:
					sp.signer, sp.certs = xr.e, [][]byte{xr.e.der}
				case 2:
					sp.certs = [][]byte{xi.e.der}
				}
				sp.singles = mkSingles(1 + (v+mode)%3)
				der := assemble(sp)
				emitDecide(g, der, xIdx(ca, v), false, "n")
				emitDecide(g, der, xIdx(ca, v), k%2 == 1, sp.singles[len(sp.singles)-1].serial.String())
			}
		}
	}
	// random
	n := g.N(1500, 30000)
	for i := 0; i < n; i++ {
		ca := r.Intn(nCA)
		sp := &asmSpec{ca: ca, rtag: 1, produced: base + int64(r.Intn(100000))}
		if r.Chance(8) {
			sp.padBits = 1 + r.Intn(3)
		}
		mode := 0
		if r.Chance(60) {
			mode = r.Intn(10)
		}
		setup(sp, ca, mode)
		nS := 1
		if r.Chance(60) {
			nS = r.Intn(5)
		}
		sp.singles = mkSingles(nS)
		if r.Chance(30) {
			sp.rtag = 2
		}
		if r.Chance(5) {
			sp.rtag = []int{0, 3, 4}[r.Intn(3)]
		}
		sp.rgarbage = r.Chance(5)
		sp.flipSig = r.Chance(15)
		sp.swapTBS = r.Chance(8)
		if r.Chance(20) {
			sp.sigHash = []int{2, 3, 5, 6, 7}[r.Intn(5)]
		}
		if r.Chance(6) {
			sp.status = []int{1, 2, 3, 5, 6, 4, 7}[r.Intn(7)]
			sp.noBytes = r.Chance(60)
		} else if r.Chance(2) {
			sp.noBytes = true
		}
		sp.badType = r.Chance(4)
		sp.trailOut = r.Chance(3)
		sp.trailIn = r.Chance(3)
		der := assemble(sp)
		if r.Chance(3) && len(der) > 4 {
			der = der[:len(der)-1-r.Intn(3)] // truncated
		}
		emitDecide(g, der, ca, r.Chance(25), certChoice(sp.singles))
	}
}

// ---------------------------------------------------------------- resp: CreateResponse -> ParseResponse

type sigChoice struct {
	algo x509.SignatureAlgorithm
	rsa  bool // key family it belongs to
	ok   bool // signingParamsForPublicKey can sign with it
	oid  asn1.ObjectIdentifier
}

var sigChoices = []sigChoice{
	{0, false, true, nil}, // default for the key
	{x509.MD5WithRSA, true, true, sigAlgs[0].oid},
	{x509.SHA1WithRSA, true, true, sigAlgs[1].oid},
	{x509.SHA256WithRSA, true, true, sigAlgs[2].oid},
	{x509.SHA384WithRSA, true, true, sigAlgs[3].oid},
	{x509.SHA512WithRSA, true, true, sigAlgs[4].oid},
	{x509.ECDSAWithSHA1, false, true, sigAlgs[5].oid},
	{x509.ECDSAWithSHA256, false, true, sigAlgs[6].oid},
	{x509.ECDSAWithSHA384, false, true, sigAlgs[7].oid},
	{x509.ECDSAWithSHA512, false, true, sigAlgs[8].oid},
	{x509.MD2WithRSA, true, false, nil},
	{x509.DSAWithSHA1, false, false, nil},
	{x509.SHA256WithRSAPSS, true, false, nil},
	{x509.Ed25519Sig, false, false, nil},
}

// respSetup: who signs and what is embedded, per mode (mirrors handleResp in the Lean driver).
func respSetup(ca, mode int) (signer, responderCert *ent, embed *ent) {
	p := pool()
	switch mode {
	case 0:
		return p[ca], p[ca], nil
	case 1:
		return responderOf(ca), responderOf(ca), responderOf(ca)
	case 2:
		return responderOf(ca), responderOf(ca), nil
	case 3:
		o := responderOf((ca + 1) % nCA)
		return o, o, o
	case 4:
		return p[ca], p[ca], p[ca]
	}
	if mode == 6 {
		return offCurve(), p[ca], nil
	}
	return p[idxEd], p[idxEd], nil
}

var (
	offCurveOnce sync.Once
	offCurveEnt  *ent
)

// offCurve: an ECDSA key on a curve that is none of elliptic.P224/P256/P384/P521 as far as signingParamsForPublicKey's
// `switch pub.Curve` can tell (the parameters of P-256 held in a plain *elliptic.CurveParams): the "unknown elliptic
// curve" arm.  It has no certificate of its own; name / std are only used for tags and keyKind.
func offCurve() *ent {
	offCurveOnce.Do(func() {
		base := pool()[2]
		k := base.key.(*ecdsa.PrivateKey)
		cp := *elliptic.P256().Params()
		cp.Name = "P-256 (generic parameters)"
		nk := &ecdsa.PrivateKey{PublicKey: ecdsa.PublicKey{Curve: &cp, X: k.X, Y: k.Y}, D: k.D}
		std := *base.std
		std.PublicKey = &nk.PublicKey
		offCurveEnt = &ent{name: "off-curve ecdsa", key: nk, cert: base.cert, std: &std, der: base.der}
	})
	return offCurveEnt
}

func algOK(signer *ent, sc int) bool {
	if signer == pool()[idxEd] || signer == offCurveEnt {
		return false
	}
	c := sigChoices[sc]
	if sc == 0 {
		return true
	}
	return c.ok && c.rsa == isRSA(signer)
}

// keyKind: the arm of signingParamsForPublicKey's type / curve switch the signer's key falls into, decided on the
// standard library's view of the certificate (0 rsa, 1 p224, 2 p256, 3 p384, 4 p521, 5 other curve, 6 other key type).
func keyKind(e *ent) int {
	switch k := e.std.PublicKey.(type) {
	case *stdrsa.PublicKey:
		return 0
	case *ecdsa.PublicKey:
		switch k.Curve.Params().Name {
		case "P-224":
			return 1
		case "P-256":
			return 2
		case "P-384":
			return 3
		case "P-521":
			return 4
		}
		return 5
	}
	return 6
}

// resp line: ca mode inil algok status serial this next revAt reason hash crit | sigchoice nsec tzoff next | keyKind requestedAlgo
// (the last two are what the Lean model of signingParamsForPublicKey needs; they are re-derived here and must agree)
func execResp(f []string) zv.Out {
	if len(f) != 19 {
		panic("resp: wrong number of fields")
	}
	ca, mode := atoi(f[1]), atoi(f[2])
	signer, rcert, embed := respSetup(ca, mode)
	return execRespCore(f, pool()[ca], signer, rcert, embed, nil)
}

// xrespSetup: the signer arrangements 0..4 of respSetup over certificates with exotic names (xpki.go): issuer = xCA(ca, vI),
// delegated responder = xResp(ca, vI, vR).
func xrespSetup(ca, mode, vI, vR int) (iss, signer, responderCert, embed *ent, bad string) {
	get := func(r *xentRec) *ent {
		if r.e == nil && bad == "" {
			bad = r.bad
		}
		return r.e
	}
	iss = get(xCA(ca, vI))
	switch mode {
	case 0:
		return iss, iss, iss, nil, bad
	case 1:
		rs := get(xResp(ca, vI, vR))
		return iss, rs, rs, rs, bad
	case 2:
		rs := get(xResp(ca, vI, vR))
		return iss, rs, rs, nil, bad
	case 3:
		o := get(xResp((ca+1)%nCA, vI, vR))
		return iss, o, o, o, bad
	case 4:
		return iss, iss, iss, iss, bad
	}
	panic("xresp: mode out of range")
}

// xresp line: vI vR + the fields of a resp line
func execXResp(f []string) zv.Out {
	if len(f) != 21 {
		panic("xresp: wrong number of fields")
	}
	vI, vR := atoi(f[1]), atoi(f[2])
	g := f[2:]
	iss, signer, rcert, embed, bad := xrespSetup(atoi(g[1]), atoi(g[2]), vI, vR)
	if bad != "" {
		return zv.Out{Go: "unusable-certificate", Viol: "a certificate with name variant " + nameVarList[vI].name + " / " + nameVarList[vR].name + " is refused: " + bad}
	}
	return execRespCore(g, iss, signer, rcert, embed, []string{"xresp:issuer-name=" + nameVarList[vI].name, "xresp:responder-name=" + nameVarList[vR].name})
}

func execRespCore(f []string, iss, signer, rcert, embed *ent, xtags []string) zv.Out {
	ca, mode, inil, algok := atoi(f[1]), atoi(f[2]), f[3] == "1", f[4] == "1"
	status, serial := atoi(f[5]), bigOf(f[6])
	this, next, revAt := atoi64(f[7]), atoi64(f[8]), atoi64(f[9])
	reason, hash, crit := atoi(f[10]), atoi(f[11]), f[12] == "1"
	sc, nsec, tz, nExt := atoi(f[13]), atoi64(f[14]), atoi(f[15]), atoi(f[16])
	p := pool()
	if algok != algOK(signer, sc) || atoi(f[17]) != keyKind(signer) || atoi(f[18]) != int(sigChoices[sc].algo) {
		return zv.Out{Go: "harness-inconsistency", Viol: "harness inconsistency: algok / key kind / requested algorithm on the line do not match signer and signature choice"}
	}
	loc := time.FixedZone("x", tz)
	mk := func(sec int64) time.Time { return time.Unix(sec, nsec).In(loc) }
	mkTmpl := func() ocsp.Response {
		tmpl := ocsp.Response{Status: status, SerialNumber: new(big.Int).Set(serial), ThisUpdate: mk(this), RevokedAt: mk(revAt),
			RevocationReason: crl.RevocationReasonCode(reason), IssuerHash: crypto.Hash(hash), SignatureAlgorithm: sigChoices[sc].algo}
		if next != zeroTimeSec {
			tmpl.NextUpdate = mk(next)
		}
		for i := 0; i < nExt; i++ {
			tmpl.ExtraExtensions = append(tmpl.ExtraExtensions, zpkix.Extension{Id: []int{1, 3, 6, 1, 4, 1, 99999, 10 + i},
				Value: append([]byte{4, byte(1 + i)}, bytes.Repeat([]byte{byte(i) ^ byte(this)}, 1+i)...)})
		}
		if crit {
			tmpl.ExtraExtensions = append(tmpl.ExtraExtensions, zpkix.Extension{Id: []int{1, 3, 6, 1, 4, 1, 99999, 2}, Critical: true, Value: []byte{5, 0}})
		}
		if embed != nil {
			tmpl.Certificate = embed.cert
		}
		return tmpl
	}
	tmpl, tmplRef := mkTmpl(), mkTmpl()
	tags := append(xtags, fmt.Sprintf("resp:mode=%d", mode), "resp:key="+signer.name, fmt.Sprintf("resp:status=%d", status), fmt.Sprintf("resp:hash=%d", hash))
	before := time.Now()
	der, err := ocsp.CreateResponse(iss.cert, rcert.cert, tmpl, signer.key)
	if err != nil {
		o := zv.Out{Go: "err-create", Tags: append(tags, "resp:err-create")}
		hashOk := hash == 0 || hashIDOfOID(hashOID(hash)) == hash
		if algok && hashOk && this < 253402300800 && this >= zeroTimeSec {
			o.Viol = "CreateResponse refused a template inside the accepted set: " + err.Error()
		}
		if mode == 5 {
			o.Tags = append(o.Tags, "resp:ed25519-refused")
		}
		if mode == 6 {
			o.Tags = append(o.Tags, "resp:unknown-curve-refused")
		}
		return o
	}
	if mode == 5 {
		return zv.Out{Go: "created", Viol: "CreateResponse accepted an Ed25519 signer", Tags: tags}
	}
	if mode == 6 { // outside the creation API's documented set; the model (signingParams .otherCurve = err) says err-create
		return zv.Out{Go: "created", Tags: append(tags, "resp:unknown-curve-ACCEPTED")}
	}
	var issuer *x509.Certificate
	if !inil {
		issuer = iss.cert
	}
	derOrig := append([]byte{}, der...)
	r, err := ocsp.ParseResponse(der, issuer)
	bound := mode == 0 || mode == 1 || mode == 4
	if err != nil {
		o := zv.Out{Go: "err", Tags: append(tags, "resp:parse-err:"+errClass(err))}
		if (bound || inil) && !crit {
			o.Viol = "response built by CreateResponse does not parse back: " + err.Error()
		}
		return o
	}
	o := zv.Out{Go: canon(r, 0) + fmt.Sprintf(" sig=%d", int(r.SignatureAlgorithm)), Tags: append(tags, "resp:ok", "resp:sig="+r.SignatureAlgorithm.String())}
	fail := func(format string, a ...any) {
		if o.Viol == "" {
			o.Viol = "round trip: " + fmt.Sprintf(format, a...)
		}
	}
	if !bound && !inil {
		fail("response not signed by the issuer nor through a certificate of the issuer was accepted (mode %d)", mode)
	}
	if crit {
		fail("critical single extension accepted")
	}
	// every field the property lists
	wantStatus := status
	if status != ocsp.Good && status != ocsp.Revoked && status != ocsp.Unknown {
		wantStatus = ocsp.Revoked // documented quirk (theorem create_status_out_of_domain): no CHOICE arm emitted
		o.Tags = append(o.Tags, "resp:status-out-of-domain-parsed-as-revoked")
	}
	if r.Status != wantStatus || r.IsRevoked != (wantStatus == ocsp.Revoked) {
		fail("status %d came back as %d (IsRevoked=%v)", status, r.Status, r.IsRevoked)
	}
	if r.SerialNumber.Cmp(serial) != 0 {
		fail("serial %s came back as %s", serial, r.SerialNumber)
	}
	if r.ThisUpdate.Unix() != this || r.ThisUpdate.Nanosecond() != 0 {
		fail("ThisUpdate %d came back as %d", this, r.ThisUpdate.Unix())
	}
	if r.NextUpdate.Unix() != next {
		fail("NextUpdate %d came back as %d", next, r.NextUpdate.Unix())
	}
	if status == ocsp.Revoked {
		if r.RevokedAt.Unix() != revAt {
			fail("RevokedAt %d came back as %d", revAt, r.RevokedAt.Unix())
		}
		if int(r.RevocationReason) != reason {
			fail("reason %d came back as %d", reason, int(r.RevocationReason))
		}
	} else if !r.RevokedAt.IsZero() || r.RevocationReason != 0 {
		fail("non-revoked response carries RevokedAt/reason")
	}
	wantHash := hash
	if hash == 0 {
		wantHash = int(crypto.SHA1)
	}
	if int(r.IssuerHash) != wantHash {
		fail("issuer hash %d came back as %d", wantHash, int(r.IssuerHash))
	}
	if !bytes.Equal(r.RawResponderName, rcert.subj) || r.ResponderKeyHash != nil {
		fail("responder name differs from the responder certificate's subject bytes (got %x, the certificate was made with %x)", r.RawResponderName, rcert.subj)
	}
	// the arguments are only read: template (deeply), certificates (every raw field against the bytes they were made from)
	if !reflect.DeepEqual(tmpl, tmplRef) {
		fail("CreateResponse modified the template handed in")
	}
	for _, e := range []*ent{iss, rcert, embed} {
		if e != nil {
			if v := rawFieldsViol(e); v != "" {
				fail("after CreateResponse / ParseResponse: %s (%s)", v, e.name)
			}
		}
	}
	if !bytes.Equal(der, derOrig) {
		fail("ParseResponse modified the bytes handed in")
	}
	if embed != nil && r.Certificate != nil && (!bytes.Equal(r.Certificate.RawSubject, embed.subj) || !bytes.Equal(r.Certificate.RawIssuer, embed.issuerSubj) ||
		!bytes.Equal(r.Certificate.RawSubjectPublicKeyInfo, embed.spki)) {
		fail("raw subject / issuer / public key of the parsed embedded certificate differ from the bytes the certificate was made with")
	}
	if len(r.Extensions) != len(tmpl.ExtraExtensions) {
		fail("extensions: %d sent, %d parsed", len(tmpl.ExtraExtensions), len(r.Extensions))
	} else {
		for i, e := range r.Extensions {
			w := tmpl.ExtraExtensions[i]
			if !e.Id.Equal(w.Id) || e.Critical != w.Critical || !bytes.Equal(e.Value, w.Value) {
				fail("extension %d differs", i)
			}
		}
	}
	if (embed == nil) != (r.Certificate == nil) || (embed != nil && !bytes.Equal(r.Certificate.Raw, embed.der)) {
		fail("embedded certificate differs")
	}
	if pa := r.ProducedAt; pa.Before(before.Add(-61*time.Second)) || pa.After(time.Now().Add(time.Second)) || pa.Second() != 0 {
		fail("ProducedAt %v is not the current time truncated to the minute", pa)
	}
	// independent decode: CertID hashes, the signature really is by the signer over the TBS bytes returned
	a := decodeAbs(der, iss)
	if !a.basicOk || len(a.singles) != 1 {
		fail("independent decode of the produced DER failed")
	} else {
		if !bytes.Equal(a.nameHashes[0], refHash(wantHash, iss.subj)) {
			fail("issuerNameHash is not H(issuer subject bytes)")
		}
		if a.rtag != 1 || !bytes.Equal(a.rid, rcert.subj) {
			fail("the responder id in the DER is not [1] + the responder certificate's subject bytes")
		}
		if !bytes.Equal(a.keyHashes[0], refHash(wantHash, spkiBits(iss.std))) {
			fail("issuerKeyHash is not H(issuer public key)")
		}
		if !bytes.Equal(a.tbs, r.TBSResponseData) || !bytes.Equal(a.sig, r.Signature) {
			fail("TBSResponseData / Signature fields are not the bytes in the DER")
		}
		if !refVerify(signer.std.PublicKey, a.alg, r.TBSResponseData, r.Signature) {
			fail("signature does not verify under the signer's key (standard library)")
		}
		if sc != 0 && !a.alg.Equal(sigChoices[sc].oid) {
			fail("signature algorithm OID is not the requested one")
		}
		if getAlg := sigChoices[sc].algo; sc != 0 && r.SignatureAlgorithm != getAlg {
			fail("SignatureAlgorithm %v came back as %v", getAlg, r.SignatureAlgorithm)
		}
	}
	// the signature BIT STRING is bound bit for bit: declaring k unused bits (well-formed when the value ends in k zero
	// bits) changes the value that is verified, and flipping one bit of the signed data or of the signature is refused
	if issuer != nil || embed != nil {
		mutated := func(pos int, v byte) bool {
			mut := append([]byte{}, der...)
			mut[pos] = v
			_, err := ocsp.ParseResponse(mut, issuer)
			return err == nil
		}
		for _, g := range regions(der) {
			switch g.name {
			case "sig-bitstring-hdr":
				tz := sigTrailingZeros(der)
				for k := 1; k <= tz && k <= 7; k++ {
					if mutated(g.to-1, byte(k)) {
						fail("signature BIT STRING re-declared with %d unused bits is accepted", k)
					}
					o.Tags = append(o.Tags, "resp:unused-bits-mutant-refused")
				}
			case "sig", "tbsResponseData":
				if p := g.from + (g.to-g.from)*(1+int(this&3))/5; mutated(p, der[p]^(1<<uint(serial.Bit(0)+2*serial.Bit(1)))) {
					fail("one flipped bit inside %s is accepted", g.name)
				}
			case "sigalg-oid":
				if mutated(g.to-1, der[g.to-1]^[]byte{1, 7}[this&1]) {
					fail("signatureAlgorithm OID changed in its last arc and still accepted")
				}
			}
		}
	}
	// ParseResponseForCert: same answer for the matching serial, error for another one
	r2, err := ocsp.ParseResponseForCert(der, &x509.Certificate{SerialNumber: serial}, issuer)
	if err != nil || canon(r2, 0) != canon(r, 0) || r2.SignatureAlgorithm != r.SignatureAlgorithm {
		fail("ParseResponseForCert with the matching serial disagrees with ParseResponse")
	}
	if _, err := ocsp.ParseResponseForCert(der, &x509.Certificate{SerialNumber: new(big.Int).Add(serial, big.NewInt(1))}, issuer); err == nil {
		fail("ParseResponseForCert accepted a response for another serial")
	}
	// the same parse again, on the same bytes and objects
	if r3, err := ocsp.ParseResponse(der, issuer); err != nil || canon(r3, 0) != canon(r, 0) || !bytes.Equal(r3.RawResponderName, r.RawResponderName) ||
		!bytes.Equal(r3.TBSResponseData, r.TBSResponseData) || !bytes.Equal(r3.Signature, r.Signature) || !extsEqual(r3.Extensions, r.Extensions) {
		fail("ParseResponse on the same bytes a second time disagrees with the first")
	}
	if !bytes.Equal(der, derOrig) {
		fail("parsing modified the bytes handed in")
	}
	// wrong issuer
	if _, err := ocsp.ParseResponse(der, p[(ca+2)%nCA].cert); err == nil {
		fail("ParseResponse accepted the response under an unrelated issuer")
	}
	if r.CheckSignatureFrom(signer.cert) != nil {
		fail("CheckSignatureFrom(signer) fails on the parsed response")
	}
	if other := p[(ca+2)%nCA]; r.CheckSignatureFrom(other.cert) == nil {
		fail("CheckSignatureFrom(unrelated certificate) succeeds")
	}
	return o
}

func genResp(g *zv.Gen) {
	r := g.Rng
	emit := func(ca, mode int, inil bool, status int, serial string, this, next, revAt int64, reason, hash int, crit bool, sc int, nsec int64, tz, nExt int) {
		signer, _, _ := respSetup(ca, mode)
		g.Emitf("c13 resp %d %d %s %s %d %s %d %d %d %d %d %s %d %d %d %d %d %d", ca, mode, b01(inil), b01(algOK(signer, sc)), status, serial,
			this, next, revAt, reason, hash, b01(crit), sc, nsec, tz, nExt, keyKind(signer), int(sigChoices[sc].algo))
	}
	serials := []string{"0", "1", "127", "128", "255", "256", "65535", "-1", "-129", "1427247692705959881058285969449495136382746624",
		"1427247692705959881058285969449495136382746623", "713623846352979940529142984724747568191373311"}
	// exhaustive small product: ca x mode x issuer/nil x status x hash
	for ca := 0; ca < nCA; ca++ {
		for mode := 0; mode <= 5; mode++ {
			for _, inil := range []bool{false, true} {
				for _, st := range []int{0, 1, 2} {
					for _, h := range []int{0, 3, 5, 6, 7} {
						emit(ca, mode, inil, st, serials[(ca+mode+st+h)%len(serials)], 1700000000+int64(h), 1700086400, 1600000000, 1+(h+st)%10, h, false, 0, 0, 0, (h+st)%3)
					}
				}
			}
		}
		// every reason, every signature algorithm choice, unsupported hashes, status out of domain
		for reason := 0; reason <= 11; reason++ {
			emit(ca, 0, false, 1, "77", 1700000000, zeroTimeSec, 1500000000+int64(reason), reason, 0, false, 0, 0, 0, 0)
		}
		for sc := range sigChoices {
			for _, mode := range []int{0, 1, 5, 6} {
				emit(ca, mode, false, 1, "78", 1700000000, 1700000100, 1500000000, 4, 5, false, sc, 0, 0, 1)
			}
		}
		for _, h := range []int{1, 2, 4, 8, 9, 10, 11, 12, 13, 14, 15, 16, 17, 18, 19, 20, 99} {
			emit(ca, 0, false, 0, "79", 1700000000, zeroTimeSec, 0, 0, h, false, 0, 0, 0, 0)
		}
		for _, st := range []int{3, 4, -1, 255} {
			emit(ca, 0, false, st, "80", 1700000000, zeroTimeSec, 1600000000, 3, 0, false, 0, 0, 0, 0)
		}
		emit(ca, 0, false, 0, "81", 1700000000, zeroTimeSec, 0, 0, 0, true, 0, 0, 0, 1) // critical extra extension
	}
	// boundary times (GeneralizedTime range), nanoseconds, time zones
	for _, ts := range []int64{zeroTimeSec + 1, -1, 0, 1, 951782400, 2147483647, 2147483648, 253402300799} {
		for _, nsec := range []int64{0, 1, 999999999} {
			for _, tz := range []int{0, 3600, -43200 + 1800} {
				emit(2, 0, false, 1, "90", ts, ts, ts, 1, 5, false, 0, nsec, tz, 0)
			}
		}
	}
	n := g.N(1500, 40000)
	for i := 0; i < n; i++ {
		ca, mode := r.Intn(nCA), r.Intn(5)
		if r.Chance(2) {
			mode = 5 + r.Intn(2)
		}
		st := r.Intn(3)
		serial := serials[r.Intn(len(serials))]
		if r.Chance(50) {
			serial = new(big.Int).SetBytes(r.Bytes(1 + r.Intn(20))).String()
		}
		this := int64(r.Intn(2000000000))
		next := zeroTimeSec
		if r.Chance(70) {
			next = this + int64(r.Intn(1000000))
		}
		revAt := int64(r.Intn(2000000000))
		reason := r.Intn(11)
		if r.Chance(5) {
			reason = []int{127, 128, 255, 256, 65536, -1}[r.Intn(6)]
		}
		hash := []int{0, 3, 5, 6, 7}[r.Intn(5)]
		sc := 0
		if r.Chance(40) {
			sc = r.Intn(len(sigChoices))
		}
		var nsec int64
		if r.Chance(50) {
			nsec = int64(r.Intn(1000000000))
		}
		tz := 0
		if r.Chance(30) {
			tz = (r.Intn(27) - 12) * 3600
		}
		emit(ca, mode, r.Chance(20), st, serial, this, next, revAt, reason, hash, r.Chance(3), sc, nsec, tz, r.Intn(4))
	}
}

// genXResp: CreateResponse -> ParseResponse over issuers / responders with exotic names.
func genXResp(g *zv.Gen) {
	r := g.Rng
	nv := len(nameVarList)
	serials := []string{"1", "128", "-129", "65535", "1427247692705959881058285969449495136382746624"}
	emit := func(vI, vR, ca, mode int, inil bool, status int, serial string, hash, sc, nExt int) {
		_, signer, _, _, bad := xrespSetup(ca, mode, vI, vR)
		if bad != "" { // reported once through the line below; nothing else can be derived for it
			g.Emitf("c13 xresp %d %d %d %d 0 0 0 1 1700000000 1700086400 1600000000 1 0 0 0 0 0 0 0 0", vI, vR, ca, mode)
			return
		}
		g.Emitf("c13 xresp %d %d %d %d %s %s %d %s %d %d %d %d %d %s %d %d %d %d %d %d", vI, vR, ca, mode, b01(inil), b01(algOK(signer, sc)), status, serial,
			1700000000+int64(vI), 1700086400+int64(vR), 1600000000, 1+(vI+vR)%10, hash, "0", sc, 0, 0, nExt, keyKind(signer), int(sigChoices[sc].algo))
	}
	hashes := []int{0, 3, 5, 6, 7}
	for vI := 0; vI < nv; vI++ {
		// the issuer itself answers (responder name = issuer name), with and without its certificate embedded
		for ca := 0; ca < nCA; ca++ {
			if g.Quick && (ca+vI)%2 == 1 {
				continue
			}
			emit(vI, vI, ca, 0, ca%2 == 1, (vI+ca)%3, serials[(vI+ca)%len(serials)], hashes[(vI+ca)%5], 0, ca%3)
			emit(vI, vI, ca, 4, ca%2 == 0, (vI+ca+1)%3, serials[(vI+ca+1)%len(serials)], hashes[(vI+ca+1)%5], 0, 0)
		}
		// delegated responder: every (issuer name, responder name) pair
		for vR := 0; vR < nv; vR++ {
			ca := (vI + 2*vR) % nCA
			emit(vI, vR, ca, 1, (vI+vR)%4 == 3, (vI+vR)%3, serials[(vI+vR)%len(serials)], hashes[(vI*3+vR)%5], 0, (vI+vR)%2)
			if vR == (vI+1)%nv {
				emit(vI, vR, ca, 2, false, 0, "77", 0, 0, 0)
				emit(vI, vR, ca, 2, true, 1, "78", 5, 0, 0)
				emit(vI, vR, ca, 3, false, 0, "79", 0, 0, 0)
				emit(vI, vR, ca, 3, true, 2, "80", 6, 0, 1)
			}
		}
	}
	n := g.N(300, 6000)
	for i := 0; i < n; i++ {
		sc := 0
		if r.Chance(30) {
			sc = r.Intn(len(sigChoices))
		}
		serial := serials[r.Intn(len(serials))]
		if r.Chance(50) {
			serial = new(big.Int).SetBytes(r.Bytes(1 + r.Intn(20))).String()
		}
		emit(r.Intn(nv), r.Intn(nv), r.Intn(nCA), r.Intn(5), r.Chance(20), r.Intn(3), serial, hashes[r.Intn(5)], sc, r.Intn(3))
	}
}

// ---------------------------------------------------------------- requests

func execReq(f []string) zv.Out {
	ca, hash, serial, nilOpts := atoi(f[1]), atoi(f[2]), bigOf(f[3]), f[4] == "1"
	iss := entAt(ca)
	var opts *ocsp.RequestOptions
	if !nilOpts {
		opts = &ocsp.RequestOptions{Hash: crypto.Hash(hash)}
	} else {
		hash = 0
	}
	subject := &x509.Certificate{SerialNumber: new(big.Int).Set(serial)}
	der, err := ocsp.CreateRequest(subject, iss.cert, opts)
	want := hash
	if hash == 0 {
		want = int(crypto.SHA1)
	}
	supported := hashIDOfOID(hashOID(want)) == want
	tags := []string{fmt.Sprintf("req:hash=%d", hash)}
	if ca >= xBase {
		tags = append(tags, "req:issuer-name="+nameVarList[(ca-xBase)/nCA].name)
	}
	if v := rawFieldsViol(iss); v != "" || subject.SerialNumber.Cmp(serial) != 0 {
		return zv.Out{Tags: tags, Viol: "CreateRequest modified its arguments: " + v}
	}
	if err != nil {
		o := zv.Out{Tags: append(tags, "req:err-create")}
		if supported {
			o.Viol = "CreateRequest refused a supported hash: " + err.Error()
		}
		return o
	}
	o := zv.Out{Tags: append(tags, "req:ok")}
	if !supported {
		o.Viol = "CreateRequest accepted a hash outside SHA1/SHA256/SHA384/SHA512"
		return o
	}
	q, err := ocsp.ParseRequest(der)
	if err != nil {
		o.Viol = "request built by CreateRequest does not parse back: " + err.Error()
		return o
	}
	switch {
	case int(q.HashAlgorithm) != want:
		o.Viol = fmt.Sprintf("request hash %d came back as %d", want, int(q.HashAlgorithm))
	case !bytes.Equal(q.IssuerNameHash, refHash(want, iss.subj)):
		o.Viol = "IssuerNameHash is not H(issuer subject bytes)"
	case !bytes.Equal(q.IssuerKeyHash, refHash(want, spkiBits(iss.std))):
		o.Viol = "IssuerKeyHash is not H(issuer public key bits)"
	case q.SerialNumber.Cmp(serial) != 0:
		o.Viol = fmt.Sprintf("request serial %s came back as %s", serial, q.SerialNumber)
	}
	// independent decode of the produced DER
	var m mRequest
	if rest, err := asn1.Unmarshal(der, &m); err != nil || len(rest) != 0 || len(m.TBSRequest.RequestList) != 1 {
		o.Viol = "request DER does not decode as an RFC 6960 OCSPRequest with one Request"
	} else if c := m.TBSRequest.RequestList[0].Cert; hashIDOfOID(c.HashAlgorithm.Algorithm) != want || c.SerialNumber.Cmp(serial) != 0 ||
		!bytes.Equal(c.NameHash, q.IssuerNameHash) || !bytes.Equal(c.IssuerKeyHash, q.IssuerKeyHash) {
		if o.Viol == "" {
			o.Viol = "request DER carries other values than ParseRequest reports"
		}
	}
	if _, err := ocsp.ParseRequest(append(append([]byte{}, der...), 0)); err == nil && o.Viol == "" {
		o.Viol = "ParseRequest accepts trailing data"
	}
	return o
}

func execReqM(f []string) zv.Out {
	hash, nh, kh, serial := atoi(f[1]), zv.UnHex(f[2]), zv.UnHex(f[3]), bigOf(f[4])
	req := &ocsp.Request{HashAlgorithm: crypto.Hash(hash), IssuerNameHash: nh, IssuerKeyHash: kh, SerialNumber: serial}
	der, err := req.Marshal()
	supported := hash != 0 && hashIDOfOID(hashOID(hash)) == hash
	o := zv.Out{Tags: []string{fmt.Sprintf("reqm:hash=%d", hash)}}
	if err != nil {
		if supported {
			o.Viol = "Request.Marshal refused a supported hash: " + err.Error()
		}
		return o
	}
	if !supported {
		o.Viol = "Request.Marshal accepted an unsupported hash"
		return o
	}
	q, err := ocsp.ParseRequest(der)
	if err != nil {
		o.Viol = "marshalled request does not parse back: " + err.Error()
		return o
	}
	if q.HashAlgorithm != req.HashAlgorithm || !bytes.Equal(q.IssuerNameHash, nh) || !bytes.Equal(q.IssuerKeyHash, kh) || q.SerialNumber.Cmp(serial) != 0 {
		o.Viol = "Request.Marshal -> ParseRequest changed a field"
	}
	return o
}

func genReq(g *zv.Gen) {
	r := g.Rng
	serials := []string{"0", "1", "127", "128", "-1", "-128", "1427247692705959881058285969449495136382746624", "255"}
	for ca := 0; ca < nCA; ca++ {
		for h := 0; h <= 20; h++ {
			for _, s := range serials {
				g.Emitf("c13 req %d %d %s 0", ca, h, s)
			}
		}
		g.Emitf("c13 req %d 0 %s 1", ca, "12345")
	}
	// issuers with exotic names: the name hash is over the subject bytes as they stand in the certificate
	for v := range nameVarList {
		for ca := 0; ca < nCA; ca++ {
			if xCA(ca, v).e == nil {
				continue
			}
			for _, h := range []int{0, 3, 5, 6, 7} {
				if g.Quick && (ca+h+v)%2 == 1 {
					continue
				}
				g.Emitf("c13 req %d %d %s 0", xIdx(ca, v), h, serials[(v+ca+h)%len(serials)])
			}
		}
	}
	n := g.N(300, 20000)
	for i := 0; i < n; i++ {
		h := []int{3, 5, 6, 7}[r.Intn(4)]
		if r.Chance(10) {
			h = r.Intn(21)
		}
		g.Emitf("c13 reqm %d %s %s %s", h, zv.Hex(r.Bytes(r.Intn(70))), zv.Hex(r.Bytes(r.Intn(70))), new(big.Int).SetBytes(r.Bytes(1+r.Intn(24))).String())
		g.Emitf("c13 req %d %d %s 0", r.Intn(nCA), h, new(big.Int).SetBytes(r.Bytes(1+r.Intn(24))).String())
	}
}

// ---------------------------------------------------------------- dispatch

func exec(line string) zv.Out {
	f := strings.Fields(line)
	switch f[1] {
	case "decide", "bytes":
		return execDecide(f[1:])
	case "resp":
		return execResp(f[1:])
	case "xresp":
		return execXResp(f[1:])
	case "req":
		return execReq(f[1:])
	case "reqm":
		return execReqM(f[1:])
	case "tamper":
		return execTamper(f[1:])
	case "tstruct":
		return execTStruct(f[1:])
	case "der":
		return execDer(f[1:])
	case "rq":
		return execRq(f[1:])
	case "rqd":
		return execRqd(f[1:])
	case "time":
		return execTime(f[1:])
	case "schema":
		return execSchema(f[1:])
	case "enc":
		return execEnc(f[1:])
	}
	panic("unknown sub-op " + f[1])
}

func gen(g *zv.Gen) {
	pool()
	genDecide(g)
	genResp(g)
	genXResp(g)
	genReq(g)
	genDer(g)
	genRq(g)
	genTime(g)
	genEnc(g)
	genTamper(g)
}

func init() {
	zv.Register(&zv.Prop{ID: "C13", Topic: "c13", Gen: gen, Exec: exec, Timeout: 20 * time.Minute, // the all-positions x all-255-values tamper lines are heavy; on a loaded machine 2 min was not enough
		Rule: "decide: hand-assembled OCSP responses (0..4 single responses with duplicate serials and every CHOICE-arm combination, 0..2 embedded certificates in 10 signer/certificate arrangements, good/corrupted signatures, signature BIT STRINGs declaring 1..7 unused bits over a value ending in zero bits, swapped TBS, responder by name/key hash/bad tag, status/type/trailing-data/truncation variants) x 6 issuers x issuer or nil x cert nil/matching/absent, decoded independently with the standard library into the model's abstract input; bytes: the same cases with the Lean side decoding the DER itself through its encoding/asn1 model and feeding the decision model (only the x509.ParseCertificate result and the three signature-primitive bits are taken from the line); resp: CreateResponse templates (issuers RSA-1024/2048, P-256, P-384, P-224, P-521 and delegated responders P-256, RSA-2048, RSA-1024, P-384, P-521, P-224 x 6 signer modes x default and each of 13 requested signature algorithms x status x reason x issuer hash x extensions x times incl. GeneralizedTime bounds, nanoseconds, zones) parsed back and compared field by field, the accept/refuse decision and the resulting SignatureAlgorithm compared with the Lean model of signingParamsForPublicKey, and each created response re-parsed with its signature BIT STRING re-declared with k unused bits (k up to the number of trailing zero bits), one flipped bit in TBS and signature, and a changed algorithm OID; req: CreateRequest/Marshal -> ParseRequest over all crypto.Hash ids; tstruct: ALL 255 values at every structural byte (tags, every length octet of every wrapper, unused-bits octets, algorithm identifiers, status, response type; 12 masks on the first/last content bytes and in the embedded certificate's outer algorithm) of responses of every issuer x {issuer-signed with >= 7 trailing zero signature bits, delegated, issuer-signed + certificate, hand-assembled two certificates / key-hash responder / 3 single responses}; tamper: every byte position of signed responses x walking-bit and random masks, all 255 values at every position of one response (thorough: of 18), random windows x 6-12 masks. An accepted mutant is a violation unless tbsResponseData, the signature BIT STRING (value, BitLength) and the signatureAlgorithm OID are byte-identical (by position in the original and by an independent decode of the mutant), every reported field is unchanged, golang.org/x/crypto/ocsp accepts it too, and the difference is one of: wrapper (length octets of EXPLICIT wrappers / algorithm parameters, which encoding/asn1 does not compare), trailing-cert (certificates after the first), cert-dropped (certs field no longer recognised AND the response verifies directly under the issuer with the standard library), cert-outer (first embedded certificate differs outside its tbsCertificate and signatureValue, both byte-identical). schema: the declarations of ocspRequest / responseASN1 / basicResponse (all nested types, field order, struct tags through the real parseFieldParameters) by reflection against the model's schema terms; der: the two asn1.Unmarshal calls of ParseResponseForCert on ocsp.go's own struct types (hook) against the Lean decode through its encoding/asn1 model at the schema terms of those types — responses of the assembler, hand-built responses with 0..4 single responses over every optional part (version, key-hash / odd responder ids, UTCTime in place of GeneralizedTime, zone offsets, NULL / absent / other algorithm parameters, unused signature bits, 0..2 certificates, 0..3 extensions with critical absent / TRUE / explicit FALSE, trailing elements), and mutants: a value set at EVERY identifier and length octet of the TLV tree, random single bytes, truncations; every decoded field is compared (status, type, TBS bytes, version, responder id, times as Unix seconds, hash OID and parameters, hashes, serial, CHOICE arms, reason, extensions, algorithm OID, signature bytes and BitLength, certificate count and sizes, both rests); rq: Request.Marshal bytes + ParseRequest of them; rqd: ParseRequest on marshalled requests, their header/random mutants and hand-built requests with version / requestor name / several entries; time: UTCTime / GeneralizedTime contents (boundary dates x leap years x zones, every position x substitutions / deletions / insertions, random fields) through asn1.Unmarshal into time.Time, with the standard library's encoding/asn1 as differential oracle (also for der). xresp: the resp round trip over hand-assembled certificates whose subject / issuer DER is not Go's own encoding (19 name variants: UTF8String for ASCII, IA5, Teletex, BMP, Numeric, Universal strings, PrintableString with & and *, multi-valued RDNs sorted and unsorted, empty values, empty name, long-form lengths, non-string values, repeated types) as issuer (6 keys) x delegated responder, every (issuer name, responder name) pair x 5 signer arrangements: RawResponderName, the responder id and issuerNameHash inside the produced DER, and Raw / RawSubject / RawIssuer / RawSubjectPublicKeyInfo of issuer, responder and parsed embedded certificate are compared with the bytes the certificates were CONFIGURED from; req lines over the same issuers; decide/bytes lines with these certificates as issuer / signer / embedded certificate. decide serial lists: signed multi-entry responses for every list of length 2..3 over {+N, -N, N+1} and length-4 lists with both signs twice / zero, N at the DER INTEGER byte boundaries, equal magnitudes carrying different statuses, asked for +N, -N, N+1, -(N+1); random lists draw from +-pairs and ask for the negation of a listed serial. Repeat oracle (every accepted decide line, every resp/xresp line, rqd): on the SAME bytes and certificate objects ask for every serial of the response, its negation and successor (first exact match and its status, or error), repeat the original call (same answer and raw fields), and check DER, certificate, issuer raw fields and the CreateResponse template (DeepEqual with a second copy) unchanged. enc: the REAL CreateResponse with a signer that returns the signature bytes of the line, compared byte for byte (tbsResponseData and the whole response, ProducedAt content normalised after its T3 check) with the Lean encoding model ZV.Model.C13Enc: 6 issuers x 7 signer arrangements (incl. off-list curve, Ed25519) x status -1..3 x requested algorithms 0..17 x unsupported hashes x revoked (time list x reasons 0, 1, 10, -1, 127, 128, 70000) x GeneralizedTime bounds (year 0 / 9999 +- 1 s, zero time, leap days) in every time field x serial boundaries x nil / empty / 1..3 extensions x embedded certificate, plus random templates; T3: the digest given to the signer is the digest of the tbsResponseData in the output. A case is one distinct line; a tamper/tstruct line covers a position set of one response."})
}
