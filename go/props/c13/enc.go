package c13

// c13 enc <ca> <mode> <keyKind> <reqAlgo> <status> <serial> <this> <next> <revAt> <reason> <hash> <exts> <nameHash> <keyHash>
//         <responderName> <sig> <cert|n>                                                      T2 + T3
// The REAL CreateResponse, byte for byte, against the Lean model of its encoding (ZV.Model.C13Enc.createDER: the values it
// hands to asn1.Marshal on the schema terms reflected from ocsp.go's struct types, ZV.Model.C18 marshal, GeneralizedTime of
// ZV.Model.Time, signingParams + the generated OID column for the algorithm identifier).  CreateResponse is made
// deterministic from the outside only: the crypto.Signer handed to it returns the signature bytes of the line (its Public()
// is the real signer's key, so signingParamsForPublicKey runs on the real key), and the 15 content bytes of ProducedAt
// (time.Now, not an input) are overwritten with 20000101000000Z — the value the model is run with — after their position was
// found by walking the DER and the value they held was checked to be a minute boundary inside the call window (T3).
// <nameHash>/<keyHash>/<responderName> are computed by the generator with the standard library from the bytes the
// certificates were configured from.  Output: `err` | `<tbsResponseData hex> <response hex>`.
// T3: the digest the signer was asked to sign is hashFunc(tbsResponseData as it stands in the output) for the digest of the
// algorithm identifier that was written.

import (
	"bytes"
	"crypto"
	"encoding/hex"
	"fmt"
	"io"
	"strings"
	"time"

	"github.com/zmap/zcrypto/x509"
	zpkix "github.com/zmap/zcrypto/x509/pkix"
	"github.com/zmap/zcrypto/x509/revocation/crl"
	"github.com/zmap/zcrypto/x509/revocation/ocsp"

	"zv/internal/zv"
)

const encProducedAt = "20000101000000Z"

type fixedSigner struct {
	pub    crypto.PublicKey
	sig    []byte
	digest []byte
	hash   crypto.Hash
}

func (s *fixedSigner) Public() crypto.PublicKey { return s.pub }
func (s *fixedSigner) Sign(_ io.Reader, digest []byte, opts crypto.SignerOpts) ([]byte, error) {
	s.digest = append([]byte(nil), digest...)
	s.hash = opts.HashFunc()
	return append([]byte(nil), s.sig...), nil
}

func hx(b []byte) string {
	if len(b) == 0 {
		return "-"
	}
	return hex.EncodeToString(b)
}

func unhx(s string) []byte {
	if s == "-" {
		return nil
	}
	b, err := hex.DecodeString(s)
	if err != nil {
		panic(err)
	}
	return b
}

// tlAt: header length and content length of the element at off (definite lengths, low tag numbers only).
func tlAt(b []byte, off int) (hdr, n int, ok bool) {
	if off+2 > len(b) || b[off]&0x1f == 0x1f {
		return 0, 0, false
	}
	l := int(b[off+1])
	if l < 0x80 {
		return 2, l, off+2+l <= len(b)
	}
	k := l & 0x7f
	if k == 0 || k > 3 || off+2+k > len(b) {
		return 0, 0, false
	}
	n = 0
	for i := 0; i < k; i++ {
		n = n<<8 | int(b[off+2+i])
	}
	return 2 + k, n, off+2+k+n <= len(b)
}

// encLocate: offsets of tbsResponseData [tbs0,tbs1) and of the content of ProducedAt inside a response.
func encLocate(der []byte) (tbs0, tbs1, pa int, ok bool) {
	step := func(off int, want byte) (content int, end int, good bool) {
		if off >= len(der) || der[off] != want {
			return 0, 0, false
		}
		h, n, k := tlAt(der, off)
		return off + h, off + h + n, k
	}
	c, _, k := step(0, 0x30) // OCSPResponse
	if !k {
		return
	}
	_, e, k := step(c, 0x0a) // status
	if !k {
		return
	}
	c, _, k = step(e, 0xa0) // [0]
	if !k {
		return
	}
	c, _, k = step(c, 0x30) // ResponseBytes
	if !k {
		return
	}
	_, e, k = step(c, 0x06) // type
	if !k {
		return
	}
	c, _, k = step(e, 0x04) // OCTET STRING
	if !k {
		return
	}
	c, _, k = step(c, 0x30) // BasicOCSPResponse
	if !k {
		return
	}
	tbs0 = c
	c, tbs1, k = step(c, 0x30) // tbsResponseData
	if !k {
		return
	}
	if c < len(der) && der[c] == 0xa0 { // version
		if _, e, k = step(c, 0xa0); !k {
			return
		}
		c = e
	}
	if c >= len(der) {
		return
	}
	if _, e, k = step(c, der[c]); !k { // responder id
		return
	}
	c, e, k = step(e, 0x18)
	if !k || e-c != len(encProducedAt) {
		return
	}
	return tbs0, tbs1, c, true
}

func encExts(s string) []zpkix.Extension {
	switch s {
	case "n":
		return nil
	case "e":
		return []zpkix.Extension{}
	}
	var out []zpkix.Extension
	for _, p := range strings.Split(s, "+") {
		q := strings.Split(p, "/")
		var id []int
		for _, a := range strings.Split(q[0], ".") {
			id = append(id, atoi(a))
		}
		out = append(out, zpkix.Extension{Id: id, Critical: q[1] == "1", Value: append([]byte{}, unhx(q[2])...)})
	}
	return out
}

func execEnc(f []string) zv.Out {
	ca, mode := atoi(f[1]), atoi(f[2])
	signer, rcert, _ := respSetup(ca, mode)
	iss := pool()[ca]
	req := atoi(f[4])
	status, reason, hash := atoi(f[5]), atoi(f[10]), atoi(f[11])
	this, next, revAt := atoi64(f[7]), atoi64(f[8]), atoi64(f[9])
	tags := []string{"enc", "enc-status-" + f[5], "enc-kind-" + f[3], "enc-req-" + f[4], "enc-hash-" + f[11]}
	tm := func(u int64) time.Time {
		if u == zeroTimeSec {
			return time.Time{}
		}
		return time.Unix(u, 0)
	}
	tmpl := ocsp.Response{Status: status, SerialNumber: bigOf(f[6]), ThisUpdate: tm(this), NextUpdate: tm(next), RevokedAt: tm(revAt),
		RevocationReason: crl.RevocationReasonCode(reason), IssuerHash: crypto.Hash(hash), SignatureAlgorithm: x509.SignatureAlgorithm(req),
		ExtraExtensions: encExts(f[12])}
	if f[17] != "n" {
		c, err := x509.ParseCertificate(unhx(f[17]))
		if err != nil {
			panic("enc: embedded certificate of the line does not parse: " + err.Error())
		}
		tmpl.Certificate = c
		tags = append(tags, "enc-cert")
	}
	if atoi(f[3]) != keyKind(signer) || !bytes.Equal(unhx(f[15]), rcert.subj) {
		panic("enc line disagrees with the PKI pool")
	}
	fs := &fixedSigner{pub: signer.key.Public(), sig: unhx(f[16])}
	t0 := time.Now()
	der, err := ocsp.CreateResponse(iss.cert, rcert.cert, tmpl, fs)
	t1 := time.Now()
	if err != nil {
		return zv.Out{Go: "err", Tags: append(tags, "enc-err")}
	}
	out := zv.Out{Tags: append(tags, "enc-ok")}
	tbs0, tbs1, pa, ok := encLocate(der)
	if !ok {
		out.Viol = "enc: CreateResponse output does not have the OCSPResponse / BasicOCSPResponse / ResponseData layout"
		out.Go = hx(der)
		return out
	}
	// T3: ProducedAt is the call time truncated to the minute, UTC
	got, perr := time.Parse("20060102150405Z0700", string(der[pa:pa+len(encProducedAt)]))
	if perr != nil || got.Second() != 0 || got.Before(t0.Add(-time.Minute)) || got.After(t1) || der[pa+len(encProducedAt)-1] != 'Z' {
		out.Viol = fmt.Sprintf("enc: ProducedAt %q is not the call time truncated to the minute (UTC)", der[pa:pa+len(encProducedAt)])
	}
	// T3: what was signed is the digest of the tbsResponseData that is in the response
	if fs.hash == 0 || !fs.hash.Available() {
		out.Viol = "enc: signer asked for an unavailable digest"
	} else {
		h := fs.hash.New()
		h.Write(der[tbs0:tbs1])
		if !bytes.Equal(h.Sum(nil), fs.digest) {
			out.Viol = "enc: the digest handed to the signer is not the digest of the tbsResponseData in the response"
		}
	}
	norm := append([]byte(nil), der...)
	copy(norm[pa:], encProducedAt)
	out.Go = hx(norm[tbs0:tbs1]) + " " + hx(norm)
	return out
}

func genEnc(g *zv.Gen) {
	r := g.Rng
	hashOf := func(h int, b []byte) []byte {
		if h == 0 {
			h = int(crypto.SHA1)
		}
		ch := crypto.Hash(h)
		if h >= 20 || !ch.Available() {
			return nil
		}
		x := ch.New()
		x.Write(b)
		return x.Sum(nil)
	}
	emit := func(ca, mode, req, status int, serial string, this, next, revAt int64, reason, hash int, exts string, sig []byte, cert bool) {
		signer, rcert, embed := respSetup(ca, mode)
		iss := pool()[ca]
		c := "n"
		if cert {
			e := embed
			if e == nil {
				e = iss
			}
			c = hx(e.der)
		}
		g.Emitf("c13 enc %d %d %d %d %d %s %d %d %d %d %d %s %s %s %s %s %s", ca, mode, keyKind(signer), req, status, serial, this, next, revAt,
			reason, hash, exts, hx(hashOf(hash, iss.subj)), hx(hashOf(hash, spkiBits(iss.std))), hx(rcert.subj), hx(sig), c)
	}
	serials := []string{"0", "1", "127", "128", "255", "256", "-1", "-128", "-129", "32768", "1427247692705959881058285969449495136382746624",
		"-713623846352979940529142984724747568191373312"}
	extsL := []string{"n", "e", "1.3.6.1.4.1.99999.1/0/0500", "2.5.29.20/0/-", "1.3.6.1.5.5.7.48.1.2/1/0410000102030405060708090a0b0c0d0e0f",
		"1.3.6.1.4.1.99999.1/0/01+2.999.3/1/" + strings.Repeat("ab", 130) + "+0.39.16383.16384/0/ff"}
	// GeneralizedTime domain: year 0 .. 9999 (outside: refused), zero time, leap days, minute / second boundaries
	times := []int64{zeroTimeSec, zeroTimeSec + 1, -62167219200, -62167219201, 253402300799, 253402300800, 0, -1, 951782400, 951868799, 1709164800,
		1700000000, 1700000059, 4102444800, -2208988800, 946684800}
	sigs := [][]byte{{1}, {0x30, 0x06, 2, 1, 1, 2, 1, 1}, bytes.Repeat([]byte{0xa5}, 128), bytes.Repeat([]byte{0x80}, 256), {}, {0}}
	for ca := 0; ca < nCA; ca++ {
		for mode := 0; mode <= 6; mode++ {
			for st := -1; st <= 3; st++ {
				i := ca + mode + st + 1
				emit(ca, mode, 0, st, serials[i%len(serials)], times[(i+5)%len(times)], times[i%len(times)], times[(i*3)%len(times)], i%11, []int{0, 3, 5, 6, 7}[i%5],
					extsL[i%len(extsL)], sigs[i%len(sigs)], mode == 1 || mode == 4 || i%7 == 0)
			}
		}
		for req := 0; req <= 17; req++ {
			for _, mode := range []int{0, 2} {
				emit(ca, mode, req, 1, "99", 1700000000, 1700086400, 1600000000, req%11, 5, "n", sigs[req%len(sigs)], false)
			}
		}
		for _, h := range []int{1, 2, 4, 8, 9, 10, 11, 12, 13, 14, 19, 20, 99} {
			emit(ca, 0, 0, 0, "5", 1700000000, zeroTimeSec, 0, 0, h, "n", sigs[0], false)
		}
		// revoked: zero time x reason 0 (the whole CHOICE arm is left out), each alone, every time of the list in every position
		for _, ra := range times {
			for _, reason := range []int{0, 1, 10, -1, 127, 128, 70000} {
				emit(ca, 0, 0, 1, "7", 1700000000, zeroTimeSec, ra, reason, 0, "n", sigs[1], false)
			}
			emit(ca, 0, 0, 0, "8", ra, 1700000000, 0, 0, 3, "n", sigs[1], false)
			emit(ca, 0, 0, 2, "9", 1700000000, ra, 0, 0, 6, "e", sigs[1], false)
		}
		for _, s := range serials {
			for _, e := range extsL {
				emit(ca, 1, 0, 0, s, 1700000000, 1700003600, 0, 0, 7, e, sigs[2], true)
			}
		}
	}
	n := g.N(1500, 30000)
	for i := 0; i < n; i++ {
		ca, mode := r.Intn(nCA), r.Intn(7)
		u := func() int64 {
			switch r.Intn(6) {
			case 0:
				return times[r.Intn(len(times))]
			case 1:
				return -62167219200 + int64(r.Intn(400))*31556952 + int64(r.Intn(86400))
			}
			return int64(r.Intn(2000000000)) + int64(r.Intn(100))*2500000000
		}
		req := 0
		if r.Intn(3) == 0 {
			req = r.Intn(18)
		}
		sig := make([]byte, r.Intn(140))
		for j := range sig {
			sig[j] = byte(r.Intn(256))
		}
		ser := serials[r.Intn(len(serials))]
		if r.Intn(2) == 0 {
			ser = fmt.Sprint(int64(r.Intn(1<<31))*int64(r.Intn(1<<31)) - int64(r.Intn(1<<20)))
		}
		emit(ca, mode, req, r.Intn(4), ser, u(), u(), u(), r.Intn(12), []int{0, 3, 5, 6, 7, 4}[r.Intn(6)], extsL[r.Intn(len(extsL))], sig, r.Intn(3) == 0)
	}
}
