package c13

// Certificates whose subject DER is NOT what Go's marshaller would produce from the parsed strings.
//
// The fixed pool (pkidata.go) was made with x509.CreateCertificate from plain pkix.Name values: every subject there is a
// fixed point of "parse, then marshal Subject.ToRDNSequence() again", so code that re-encodes a name instead of copying
// RawSubject is invisible on it.  Here the harness hand-assembles tbsCertificates — subject (and, for delegated responders,
// issuer) taken verbatim from nameVars: every ASN.1 string type, multi-valued RDNs, empty values, an empty name, long-form
// lengths, non-string attribute values — and signs them with the pool's CA keys.  The public keys are the pool's (CA i /
// responder of CA i), so nothing but names changes.  The CONFIGURED bytes (ent.subj / ent.issuerSubj / ent.spki / ent.der)
// are what every parsed raw field is compared with.

import (
	"bytes"
	stdx509 "crypto/x509"
	"crypto/x509/pkix"
	"encoding/asn1"
	"fmt"
	"sync"
	"time"

	"github.com/zmap/zcrypto/x509"
)

func oidDER(o ...int) []byte {
	b, err := asn1.Marshal(asn1.ObjectIdentifier(o))
	if err != nil {
		panic(err)
	}
	return b
}

// ASN.1 universal tags of the string types
const (
	tUTF8      = 12
	tNumeric   = 18
	tPrintable = 19
	tT61       = 20
	tIA5       = 22
	tUniversal = 28
	tBMP       = 30
)

var (
	atCN     = []int{2, 5, 4, 3}
	atSerial = []int{2, 5, 4, 5}
	atC      = []int{2, 5, 4, 6}
	atL      = []int{2, 5, 4, 7}
	atO      = []int{2, 5, 4, 10}
	atOU     = []int{2, 5, 4, 11}
	atEmail  = []int{1, 2, 840, 113549, 1, 9, 1}
	atDC     = []int{0, 9, 2342, 19200300, 100, 1, 25}
	atPriv   = []int{1, 3, 6, 1, 4, 1, 99999, 7}
)

// atv: AttributeTypeAndValue with a string value of the given type
func atv(oid []int, tag byte, val string) []byte {
	return tlv(0x30, oidDER(oid...), tlv(tag, []byte(val)))
}
func atvRaw(oid []int, value []byte) []byte { return tlv(0x30, oidDER(oid...), value) }
func rdn(atvs ...[]byte) []byte             { return tlv(0x31, atvs...) }
func rdns(r ...[]byte) []byte               { return tlv(0x30, r...) }

func bmp(s string) string {
	var b []byte
	for _, r := range s {
		b = append(b, byte(r>>8), byte(r))
	}
	return string(b)
}
func ucs4(s string) string {
	var b []byte
	for _, r := range s {
		b = append(b, byte(r>>24), byte(r>>16), byte(r>>8), byte(r))
	}
	return string(b)
}

type nameVar struct {
	name string
	der  []byte
	// goFixed: Go would produce exactly these bytes from the parsed strings (control variants)
	goFixed bool
}

var nameVarList = []nameVar{
	{"printable", rdns(rdn(atv(atO, tPrintable, "Example")), rdn(atv(atCN, tPrintable, "OCSP Responder"))), true},
	{"utf8-ascii", rdns(rdn(atv(atC, tPrintable, "US")), rdn(atv(atO, tUTF8, "Example")), rdn(atv(atCN, tUTF8, "OCSP Responder"))), false},
	{"ia5", rdns(rdn(atv(atDC, tIA5, "example")), rdn(atv(atEmail, tIA5, "ocsp@example.com")), rdn(atv(atCN, tIA5, "responder"))), false},
	{"t61", rdns(rdn(atv(atO, tT61, "Example T61")), rdn(atv(atCN, tT61, "Responder"))), false},
	{"bmp", rdns(rdn(atv(atO, tBMP, bmp("Example"))), rdn(atv(atCN, tBMP, bmp("Responder")))), false},
	{"numeric", rdns(rdn(atv(atSerial, tNumeric, "12345 678")), rdn(atv(atCN, tPrintable, "Responder"))), false},
	{"universal", rdns(rdn(atv(atCN, tUniversal, ucs4("Resp")))), false},
	{"multi-valued", rdns(rdn(atv(atCN, tUTF8, "Responder"), atv(atOU, tPrintable, "Unit")), rdn(atv(atO, tPrintable, "Example"))), false},
	{"multi-valued-printable", rdns(rdn(atv(atCN, tPrintable, "Responder"), atv(atOU, tPrintable, "Unit")), rdn(atv(atO, tPrintable, "Example"))), false},
	{"multi-valued-unsorted", rdns(rdn(atv(atOU, tPrintable, "Unit"), atv(atCN, tPrintable, "Responder"))), false},
	{"empty-values", rdns(rdn(atv(atO, tUTF8, "")), rdn(atv(atOU, tPrintable, "")), rdn(atv(atCN, tIA5, ""))), false},
	{"empty-name", rdns(), true},
	{"printable-amp-star", rdns(rdn(atv(atO, tPrintable, "A&B *")), rdn(atv(atCN, tPrintable, "*.responder"))), false},
	{"utf8-nonascii", rdns(rdn(atv(atO, tUTF8, "Ünïcødé")), rdn(atv(atCN, tUTF8, "Répondeur"))), true},
	{"mixed", rdns(rdn(atv(atC, tPrintable, "DE")), rdn(atv(atL, tT61, "Ort")), rdn(atv(atO, tUTF8, "Firma")), rdn(atv(atOU, tIA5, "ou")), rdn(atv(atCN, tBMP, bmp("Name")))), false},
	{"long-utf8", rdns(rdn(atv(atO, tUTF8, string(bytes.Repeat([]byte("long organisation name "), 12)))), rdn(atv(atCN, tPrintable, string(bytes.Repeat([]byte("x"), 130))))), false},
	{"nonstring-values", rdns(rdn(atvRaw(atPriv, []byte{0x02, 0x01, 0x05})), rdn(atvRaw(atPriv, []byte{0x04, 0x02, 0xde, 0xad})), rdn(atv(atCN, tUTF8, "Responder"))), false},
	{"repeated-types", rdns(rdn(atv(atOU, tUTF8, "a")), rdn(atv(atCN, tUTF8, "first")), rdn(atv(atOU, tPrintable, "b")), rdn(atv(atCN, tT61, "second"))), false},
	{"cn-first", rdns(rdn(atv(atCN, tUTF8, "Responder")), rdn(atv(atO, tUTF8, "Example")), rdn(atv(atC, tPrintable, "US"))), false},
}

// xent: an exotic-name certificate with what it was configured from.
type xentRec struct {
	e   *ent
	bad string // non-empty: the certificate could not be used (reason); lines naming it are skipped by the generator
}

var xents sync.Map // key string -> *xentRec

var (
	oidEKU        = []int{2, 5, 29, 37}
	oidBasicCons  = []int{2, 5, 29, 19}
	oidKeyUsage   = []int{2, 5, 29, 15}
	oidOCSPSign   = []int{1, 3, 6, 1, 5, 5, 7, 3, 9}
	xNotBefore    = time.Date(2020, 1, 1, 0, 0, 0, 0, time.UTC)
	xNotAfter     = time.Date(2060, 1, 1, 0, 0, 0, 0, time.UTC)
	derTrue       = []byte{0x01, 0x01, 0xff}
	ctx0, ctx3    = byte(0xa0), byte(0xa3)
	derVersion3   = tlv(ctx0, []byte{0x02, 0x01, 0x02})
	utcTimeLayout = "060102150405Z"
)

// assembleCert builds and signs a v3 certificate from raw parts.
func assembleCert(serial int64, issuerDER, subjectDER, spki []byte, isCA bool, signer *ent) []byte {
	var exts [][]byte
	if isCA {
		exts = append(exts, tlv(0x30, oidDER(oidBasicCons...), derTrue, tlv(0x04, tlv(0x30, derTrue))))
		exts = append(exts, tlv(0x30, oidDER(oidKeyUsage...), derTrue, tlv(0x04, []byte{0x03, 0x02, 0x01, 0x86}))) // digitalSignature, keyCertSign, cRLSign
	} else {
		exts = append(exts, tlv(0x30, oidDER(oidKeyUsage...), derTrue, tlv(0x04, []byte{0x03, 0x02, 0x07, 0x80}))) // digitalSignature
		exts = append(exts, tlv(0x30, oidDER(oidEKU...), tlv(0x04, tlv(0x30, oidDER(oidOCSPSign...)))))
	}
	// the signature algorithm is fixed by the signer's key (SHA-256)
	ai, _ := signWith(signer, 0, []byte{})
	aiDER, err := asn1.Marshal(ai)
	if err != nil {
		panic(err)
	}
	sn, _ := asn1.Marshal(serial)
	validity := tlv(0x30, tlv(23, []byte(xNotBefore.Format(utcTimeLayout))), tlv(24, []byte(xNotAfter.Format("20060102150405Z"))))
	tbs := tlv(0x30, derVersion3, sn, aiDER, issuerDER, validity, subjectDER, spki, tlv(ctx3, tlv(0x30, exts...)))
	_, sig := signWith(signer, 0, tbs)
	return tlv(0x30, tbs, aiDER, tlv(0x03, []byte{0}, sig))
}

func mkXent(name string, der []byte, base *ent, subj, issuerSubj []byte) *xentRec {
	c, err := x509.ParseCertificate(der)
	if err != nil {
		return &xentRec{bad: "zcrypto x509.ParseCertificate: " + err.Error()}
	}
	e := &ent{name: name, key: base.key, cert: c, der: der, subj: subj, issuerSubj: issuerSubj, spki: base.std.RawSubjectPublicKeyInfo}
	if sc, err := stdx509.ParseCertificate(der); err == nil {
		e.std, e.stdParsed = sc, true
	} else {
		// the standard library refuses this name: keep its view of the KEY (same key as base); names always come from subj
		cp := *base.std
		e.std = &cp
	}
	return &xentRec{e: e}
}

// xCA: self-signed certificate with the key of pool CA `ca` and subject variant v.
func xCA(ca, v int) *xentRec {
	key := fmt.Sprintf("ca/%d/%d", ca, v)
	if r, ok := xents.Load(key); ok {
		return r.(*xentRec)
	}
	base := pool()[ca]
	subj := nameVarList[v].der
	der := assembleCert(int64(9000+100*ca+v), subj, subj, base.std.RawSubjectPublicKeyInfo, true, base)
	r, _ := xents.LoadOrStore(key, mkXent(fmt.Sprintf("xca%d %s", ca, nameVarList[v].name), der, base, subj, subj))
	return r.(*xentRec)
}

// xResp: delegated responder (key of responderOf(ca)) with subject variant vR, issued by xCA(ca, vI).
func xResp(ca, vI, vR int) *xentRec {
	key := fmt.Sprintf("resp/%d/%d/%d", ca, vI, vR)
	if r, ok := xents.Load(key); ok {
		return r.(*xentRec)
	}
	base := responderOf(ca)
	subj, isubj := nameVarList[vR].der, nameVarList[vI].der
	der := assembleCert(int64(20000+3000*ca+50*vI+vR), isubj, subj, base.std.RawSubjectPublicKeyInfo, false, pool()[ca])
	r, _ := xents.LoadOrStore(key, mkXent(fmt.Sprintf("xresp%d %s/%s", ca, nameVarList[vI].name, nameVarList[vR].name), der, base, subj, isubj))
	return r.(*xentRec)
}

// entity indices on case lines: 0..12 the pool; xBase + v*nCA + ca = xCA(ca, v)
const xBase = 100

func xIdx(ca, v int) int { return xBase + v*nCA + ca }

func entAt(i int) *ent {
	if i < xBase {
		return pool()[i]
	}
	r := xCA((i-xBase)%nCA, (i-xBase)/nCA)
	if r.e == nil {
		panic("entity " + fmt.Sprint(i) + " unusable: " + r.bad)
	}
	return r.e
}

// rawFieldsViol: every raw field zcrypto's parse of the certificate reports against the bytes it was configured from.
func rawFieldsViol(e *ent) string {
	switch {
	case !bytes.Equal(e.cert.Raw, e.der):
		return "Certificate.Raw differs from the certificate DER"
	case !bytes.Equal(e.cert.RawSubject, e.subj):
		return "Certificate.RawSubject differs from the configured subject bytes"
	case e.issuerSubj != nil && !bytes.Equal(e.cert.RawIssuer, e.issuerSubj):
		return "Certificate.RawIssuer differs from the configured issuer bytes"
	case e.spki != nil && !bytes.Equal(e.cert.RawSubjectPublicKeyInfo, e.spki):
		return "Certificate.RawSubjectPublicKeyInfo differs from the configured SubjectPublicKeyInfo"
	}
	return ""
}

var _ = pkix.Name{}
