package c05

// List level of CreateRevocationList / ParseRevocationList, tied to the Lean model ZV.Model.C05List:
//
//	c05 rlist <seed> <key> <alg> <sigAI> <subject> <ski> <crlSign> <this> <next> <num|nil> <entries> <extras>
//	c05 rlp <der hex>

import (
	"bytes"
	stdasn1 "encoding/asn1"
	"fmt"
	"math/big"
	"strconv"
	"strings"
	"time"

	"github.com/zmap/zcrypto/encoding/asn1"
	"github.com/zmap/zcrypto/x509"
	"github.com/zmap/zcrypto/x509/pkix"

	"zv/internal/x509rig"
	"zv/internal/zv"
)

var (
	oidAKI    = []int{2, 5, 29, 35}
	oidNumber = []int{2, 5, 29, 20}
)

// ---- line syntax helpers ----

func parseOID(s string) asn1.ObjectIdentifier {
	var o asn1.ObjectIdentifier
	for _, p := range strings.Split(s, ".") {
		n, _ := strconv.Atoi(p)
		o = append(o, n)
	}
	return o
}

func extsField(xs []pkix.Extension) string {
	if len(xs) == 0 {
		return "-"
	}
	var out []string
	for _, x := range xs {
		out = append(out, oidStr(x.Id)+"/"+b01(x.Critical)+"/"+zv.Hex(x.Value))
	}
	return strings.Join(out, "+")
}

func parseExtsField(s string) []pkix.Extension {
	if s == "-" {
		return nil
	}
	var out []pkix.Extension
	for _, p := range strings.Split(s, "+") {
		q := strings.Split(p, "/")
		out = append(out, pkix.Extension{Id: parseOID(q[0]), Critical: q[1] == "1", Value: zv.UnHex(q[2])})
	}
	return out
}

type entryT struct {
	serial *big.Int
	unix   int64
	reason *int
	extras []pkix.Extension
}

func entriesTField(es []entryT) string {
	if len(es) == 0 {
		return "-"
	}
	var parts []string
	for _, e := range es {
		reason := "-"
		if e.reason != nil {
			reason = strconv.Itoa(*e.reason)
		}
		parts = append(parts, fmt.Sprintf("%s:%d:%s:%s", e.serial, e.unix, reason, extsField(e.extras)))
	}
	return strings.Join(parts, ",")
}

func parseEntriesT(s string) []entryT {
	if s == "-" {
		return nil
	}
	var out []entryT
	for _, p := range strings.Split(s, ",") {
		q := strings.Split(p, ":")
		e := entryT{}
		e.serial, _ = new(big.Int).SetString(q[0], 10)
		e.unix, _ = strconv.ParseInt(q[1], 10, 64)
		if q[2] != "-" {
			v, _ := strconv.Atoi(q[2])
			e.reason = &v
		}
		e.extras = parseExtsField(q[3])
		out = append(out, e)
	}
	return out
}

func parseTimeArg(s string) time.Time {
	q := strings.Split(s, "/")
	u, _ := strconv.ParseInt(q[0], 10, 64)
	n, _ := strconv.ParseInt(q[1], 10, 64)
	return time.Unix(u, n).UTC()
}

// ---- canonical output of a parsed list (same text as showPRL of ZV/Drv/C05.lean) ----

func oidHex(o asn1.ObjectIdentifier) string {
	b, err := stdasn1.Marshal(stdasn1.ObjectIdentifier(o))
	if err != nil {
		return "unencodable"
	}
	_, body, _ := x509rig.Open(b)
	return zv.Hex(body)
}

func showT(t time.Time) string {
	_, off := t.Zone()
	return fmt.Sprintf("%d@%d", t.Unix(), off)
}

func showPExts(xs []pkix.Extension) string {
	if len(xs) == 0 {
		return "-"
	}
	var out []string
	for _, x := range xs {
		out = append(out, oidHex(x.Id)+"/"+b01(x.Critical)+"/"+zv.Hex(x.Value))
	}
	return strings.Join(out, "+")
}

func showRL(rl *x509.RevocationList) string {
	next := "-"
	if _, off := rl.NextUpdate.Zone(); !rl.NextUpdate.IsZero() || off != 0 { // 0001-01-01T00:00:00Z is what "absent" looks like
		next = showT(rl.NextUpdate)
	}
	num := "-"
	if rl.Number != nil {
		num = rl.Number.String()
	}
	aki := "nil"
	if rl.AuthorityKeyId != nil {
		aki = zv.Hex(rl.AuthorityKeyId)
	}
	entries := "nil"
	if rl.RevokedCertificates != nil {
		var es []string
		for _, g := range rl.RevokedCertificates {
			r := "-"
			if g.ReasonCode != nil {
				r = strconv.Itoa(*g.ReasonCode)
			}
			es = append(es, fmt.Sprintf("%s:%s:%s:%s:%d", g.SerialNumber, showT(g.RevocationTime), r, showPExts(g.Extensions), len(g.Raw)))
		}
		entries = "-"
		if len(es) > 0 {
			entries = strings.Join(es, ";")
		}
	}
	return fmt.Sprintf("tbs=%s iss=%s this=%s next=%s num=%s aki=%s entries=%s exts=%s", zv.Hex(rl.RawTBSRevocationList), zv.Hex(rl.RawIssuer),
		showT(rl.ThisUpdate), next, num, aki, entries, showPExts(rl.Extensions))
}

// ---- signature AlgorithmIdentifier of (key, algorithm), read off a list the library created ----

var aiCache = map[string][]byte{}

func sigAIFor(k *x509rig.Key, alg int) []byte {
	id := fmt.Sprintf("%s/%d", k.Name, alg)
	if b, ok := aiCache[id]; ok {
		return b
	}
	ca, _ := caFor(k)
	t := &x509.RevocationList{SignatureAlgorithm: x509.SignatureAlgorithm(alg), Number: big.NewInt(1),
		ThisUpdate: time.Date(2024, 1, 1, 0, 0, 0, 0, time.UTC), NextUpdate: time.Date(2024, 2, 1, 0, 0, 0, 0, time.UTC)}
	der, err := x509.CreateRevocationList(zv.NewRng(5), t, ca, k.Priv)
	if err != nil {
		panic(err)
	}
	_, body, _ := x509rig.Open(der)
	ch, _ := x509rig.Children(body)
	aiCache[id] = ch[1]
	return ch[1]
}

// ---- exec ----

func validOID(o []int) bool {
	if len(o) < 2 || o[0] > 2 || (o[0] < 2 && o[1] >= 40) {
		return false
	}
	for _, a := range o {
		if a < 0 {
			return false
		}
	}
	return true
}

func yearOK(u int64) bool {
	y := time.Unix(u, 0).UTC().Year()
	return y >= 0 && y <= 9999
}

func hasOID(xs []pkix.Extension, o []int) bool {
	for _, x := range xs {
		if x.Id.Equal(o) {
			return true
		}
	}
	return false
}

func execRList(f []string) zv.Out {
	if len(f) != 14 {
		return zv.Out{Viol: "bad rlist line"}
	}
	seed, _ := strconv.ParseUint(f[2], 10, 64)
	k := x509rig.KeyByName(f[3])
	alg, _ := strconv.Atoi(f[4])
	subject, ski, crlSign := zv.UnHex(f[6]), zv.UnHex(f[7]), f[8] == "1"
	this, next := parseTimeArg(f[9]), parseTimeArg(f[10])
	var number *big.Int
	if f[11] != "nil" {
		number, _ = new(big.Int).SetString(f[11], 10)
	}
	es := parseEntriesT(f[12])
	extras := parseExtsField(f[13])
	if seed%3 == 0 { // the zone of the template times is irrelevant (forced to UTC)
		z := time.FixedZone("", 5*3600+1800)
		this, next = this.In(z), next.In(z)
	}
	tags := []string{"rlist", fmt.Sprintf("rlist:entries=%d", len(es)), fmt.Sprintf("rlist:extras=%d", len(extras))}
	ca, _ := caFor(k)
	issuer := &x509.Certificate{RawSubject: subject, SubjectKeyId: ski}
	if crlSign {
		issuer.KeyUsage = x509.KeyUsageCRLSign
	}
	t := &x509.RevocationList{SignatureAlgorithm: x509.SignatureAlgorithm(alg), ThisUpdate: this, NextUpdate: next, Number: number, ExtraExtensions: extras}
	// reference expectation of the guards (independent of the model)
	expectErr := ""
	note := func(s string) {
		if expectErr == "" {
			expectErr = s
		}
		tags = append(tags, "rlist:reject="+s)
	}
	if !crlSign {
		note("no-crlSign")
	}
	if len(ski) == 0 {
		note("no-ski")
	}
	if next.Before(this) {
		note("next-before-this")
	}
	if number == nil {
		note("nil-number")
	} else if number.BitLen() > 159 {
		note("number>20-octets")
	}
	for _, u := range []time.Time{this, next} {
		if y := u.UTC().Year(); y < 0 || y > 9999 {
			note("update-year-out-of-range")
		}
	}
	for _, x := range extras {
		if !validOID(x.Id) {
			note("bad-oid")
		}
	}
	for _, e := range es {
		if !yearOK(e.unix) {
			note("entry-year-out-of-range")
		}
		for _, x := range e.extras {
			if !validOID(x.Id) && !x.Id.Equal(reasonOID) {
				note("bad-oid")
			}
		}
		z := time.UTC
		if e.unix%2 == 0 {
			z = time.FixedZone("", -7*3600)
		}
		t.RevokedCertificates = append(t.RevokedCertificates, x509.RevokedCertificate{SerialNumber: e.serial, RevocationTime: time.Unix(e.unix, 0).In(z),
			ReasonCode: e.reason, ExtraExtensions: e.extras})
	}
	for _, u := range []time.Time{this.UTC(), next.UTC()} {
		switch y := u.Year(); {
		case u.IsZero():
			tags = append(tags, "rlist:time=zero")
		case y >= 1950 && y < 2050:
			tags = append(tags, "rlist:time=utc")
		default:
			tags = append(tags, "rlist:time=generalized")
		}
	}
	der, err := x509.CreateRevocationList(zv.NewRng(seed^1), t, issuer, k.Priv)
	if err != nil {
		v := ""
		if expectErr == "" {
			v = "CreateRevocationList refuses a template inside the documented domain: " + err.Error()
		}
		return zv.Out{Go: "err", Viol: v, Tags: tags}
	}
	if expectErr != "" {
		return zv.Out{Go: "created", Viol: "CreateRevocationList accepted a template it must refuse (" + expectErr + ")", Tags: tags}
	}
	overriding := hasOID(extras, oidAKI) || hasOID(extras, oidNumber)
	nameIsCA := bytes.Equal(subject, ca.RawSubject)
	rl, err := x509.ParseRevocationList(der)
	if err != nil {
		v := ""
		if nameIsCA && !overriding {
			v = "ParseRevocationList rejects the created list: " + err.Error()
		}
		return zv.Out{Go: "created-but-rejected", Viol: v, Tags: append(tags, "rlist:created-but-rejected")}
	}
	var viol []string
	bad := func(format string, a ...any) { viol = append(viol, fmt.Sprintf(format, a...)) }
	if !bytes.Equal(rl.RawIssuer, subject) {
		bad("issuer bytes %x != %x", rl.RawIssuer, subject)
	}
	if omitted := next.UTC().IsZero(); rl.ThisUpdate.Unix() != this.Unix() || (omitted && !rl.NextUpdate.IsZero()) || (!omitted && rl.NextUpdate.Unix() != next.Unix()) {
		bad("update times %v %v != %v %v", rl.ThisUpdate, rl.NextUpdate, this, next)
	}
	if !overriding {
		if rl.Number == nil || rl.Number.Cmp(number) != 0 {
			bad("CRL number %v != %v", rl.Number, number)
		}
		if want := x509rig.TLV(0x30, x509rig.TLV(0x80, ski)); !bytes.Equal(rl.AuthorityKeyId, want) {
			bad("authority key id %x != %x", rl.AuthorityKeyId, want)
		}
	} else {
		tags = append(tags, "rlist:extras-override-aki-or-number")
	}
	if len(rl.Extensions) != 2+len(extras) {
		bad("list extension count %d != %d", len(rl.Extensions), 2+len(extras))
	} else {
		for i, x := range extras {
			g := rl.Extensions[2+i]
			if !g.Id.Equal(x.Id) || g.Critical != x.Critical || !bytes.Equal(g.Value, x.Value) {
				bad("list extension %d differs", i)
			}
		}
	}
	if len(rl.RevokedCertificates) != len(es) || (len(es) == 0) != (rl.RevokedCertificates == nil) {
		bad("entry count %d != %d", len(rl.RevokedCertificates), len(es))
	} else {
		for i, e := range es {
			g := rl.RevokedCertificates[i]
			if g.SerialNumber.Cmp(e.serial) != 0 || g.RevocationTime.Unix() != e.unix {
				bad("entry %d (%v, %v) != (%v, %d)", i, g.SerialNumber, g.RevocationTime, e.serial, e.unix)
			}
			gr := "-"
			if g.ReasonCode != nil {
				gr = strconv.Itoa(*g.ReasonCode)
			}
			if gr != normReason(e.reason) {
				bad("entry %d reason %s, supplied %s", i, gr, normReason(e.reason))
			}
			var want []pkix.Extension
			for _, x := range e.extras {
				if !x.Id.Equal(reasonOID) {
					want = append(want, x)
				}
			}
			n := len(want)
			if normReason(e.reason) != "-" {
				n++
			}
			if len(g.Extensions) != n {
				bad("entry %d: %d extensions, expected %d", i, len(g.Extensions), n)
			} else {
				for j := range want {
					if !want[j].Id.Equal(g.Extensions[j].Id) || want[j].Critical != g.Extensions[j].Critical || !bytes.Equal(want[j].Value, g.Extensions[j].Value) {
						bad("entry %d extension %d differs", i, j)
					}
				}
			}
		}
	}
	if err := rl.CheckSignatureFrom(ca); err != nil {
		bad("CheckSignatureFrom(issuer): %v", err)
	}
	if d, ok := sigTable[rl.SignatureAlgorithm]; ok {
		if good, known := x509rig.Verify(k.Pub, d.scheme, d.h, rl.RawTBSRevocationList, rl.Signature); known && !good {
			bad("signature does not verify with the standard library")
		}
	} else {
		bad("unknown parsed signature algorithm")
	}
	return zv.Out{Go: "ok " + showRL(rl), Viol: strings.Join(viol, "; "), Tags: append(tags, "rlist:ok")}
}

func execRLP(f []string) zv.Out {
	der := zv.UnHex(f[2])
	rl, err := x509.ParseRevocationList(der)
	if err != nil {
		return zv.Out{Go: "err", Tags: []string{"rlp", "rlp:err"}}
	}
	tags := []string{"rlp", "rlp:ok"}
	if rl.RevokedCertificates == nil {
		tags = append(tags, "rlp:no-entries-field")
	}
	if rl.NextUpdate.IsZero() {
		tags = append(tags, "rlp:no-nextUpdate")
	}
	if rl.Number == nil {
		tags = append(tags, "rlp:no-number")
	}
	return zv.Out{Go: "ok sig=" + zv.Hex(rl.Signature) + " " + showRL(rl), Tags: tags}
}

// ---- generators ----

var boundaryTimes = []time.Time{
	time.Date(1949, 12, 31, 23, 59, 59, 0, time.UTC), time.Date(1950, 1, 1, 0, 0, 0, 0, time.UTC),
	time.Date(1968, 12, 31, 23, 59, 59, 0, time.UTC), time.Date(1969, 1, 1, 0, 0, 0, 0, time.UTC),
	time.Date(1999, 12, 31, 23, 59, 59, 0, time.UTC), time.Date(2000, 2, 29, 12, 0, 0, 0, time.UTC),
	time.Date(2049, 12, 31, 23, 59, 59, 0, time.UTC), time.Date(2050, 1, 1, 0, 0, 0, 0, time.UTC),
	time.Date(9999, 12, 31, 23, 59, 59, 0, time.UTC), time.Date(10000, 1, 1, 0, 0, 0, 0, time.UTC),
	time.Date(0, 1, 1, 0, 0, 0, 0, time.UTC), time.Date(-1, 12, 31, 23, 59, 59, 0, time.UTC),
	time.Date(1, 1, 1, 0, 0, 0, 0, time.UTC), time.Date(1, 1, 1, 0, 0, 1, 0, time.UTC), time.Date(1970, 1, 1, 0, 0, 0, 0, time.UTC),
	time.Date(2024, 2, 29, 23, 59, 60, 0, time.UTC), time.Date(12345, 6, 7, 8, 9, 10, 0, time.UTC),
}

func randUnix(r *zv.Rng) int64 {
	switch r.Intn(6) {
	case 0:
		return boundaryTimes[r.Intn(len(boundaryTimes))].Unix()
	case 1:
		return time.Date(r.Intn(10000), time.Month(1+r.Intn(12)), 1+r.Intn(31), r.Intn(24), r.Intn(60), r.Intn(60), 0, time.UTC).Unix()
	default:
		return x509rig.RandTime(r).Unix()
	}
}

func randExt(r *zv.Rng) pkix.Extension {
	x := pkix.Extension{Id: x509rig.RandOID(r), Critical: r.Chance(30), Value: r.Bytes(r.Intn(9))}
	switch r.Intn(40) {
	case 0:
		x.Id = asn1.ObjectIdentifier{1, 40, 1} // not encodable
	case 1:
		x.Id = asn1.ObjectIdentifier{2, 999, 3}
	case 2:
		x.Id = asn1.ObjectIdentifier{0, 0}
	case 3:
		x.Id = asn1.ObjectIdentifier{2, 5, 29, 2147483647}
	}
	return x
}

func randEntriesT(r *zv.Rng) []entryT {
	n := r.Intn(5)
	if r.Chance(25) {
		n = 0
	}
	var out []entryT
	for i := 0; i < n; i++ {
		e := entryT{serial: x509rig.RandSerial(r), unix: randUnix(r)}
		switch r.Intn(6) {
		case 0:
		case 1:
			z := 0
			e.reason = &z
		case 2:
			v := []int{-1, -128, -129, 127, 128, 255, 256, 1 << 40, -(1 << 40), 1<<62 + 5}[r.Intn(10)]
			e.reason = &v
		default:
			v := 1 + r.Intn(10)
			e.reason = &v
		}
		for j := r.Intn(3); j > 0; j-- {
			e.extras = append(e.extras, randExt(r))
		}
		if r.Chance(25) {
			ext := pkix.Extension{Id: reasonOID, Critical: r.Chance(20), Value: []byte{0x0a, 0x01, byte(r.Intn(11))}}
			if r.Chance(20) {
				ext.Value = r.Bytes(r.Intn(4)) // not even an ENUMERATED: dropped all the same
			}
			pos := r.Intn(len(e.extras) + 1)
			e.extras = append(e.extras[:pos], append([]pkix.Extension{ext}, e.extras[pos:]...)...)
		}
		out = append(out, e)
	}
	return out
}

// hand-made issuer names: every string type parseName knows, and the ways it refuses a value
func oddNames(r *zv.Rng) [][]byte {
	T := x509rig.TLV
	atv := func(tag byte, v []byte) []byte {
		return T(0x30, T(0x31, T(0x30, x509rig.Cat(T(0x06, []byte{0x55, 0x04, 0x03}), T(tag, v)))))
	}
	return [][]byte{
		T(0x30, nil),
		atv(0x13, []byte("printable OK *&")), atv(0x13, []byte("bad_char")), atv(0x13, []byte("bad@char")),
		atv(0x0c, []byte("utf8 \xc3\xa9")), atv(0x0c, []byte{0xc3, 0x28}), atv(0x0c, []byte{0xed, 0xa0, 0x80}), atv(0x0c, []byte{0xf4, 0x90, 0x80, 0x80}),
		atv(0x14, []byte{0xff, 0x00, 0x80}), atv(0x16, []byte("ia5@ok")), atv(0x16, []byte{0x80}),
		atv(0x12, []byte("12 34")), atv(0x12, []byte("12a")), atv(0x1e, []byte{0, 0x41, 0, 0x42}), atv(0x1e, []byte{0, 0x41, 0}),
		atv(0x04, []byte("octets")), atv(0x80, []byte("ctx")), atv(0x33, nil), atv(0x1f, []byte{0x21, 0x00}),
		T(0x30, T(0x31, nil)), T(0x30, T(0x30, nil)), T(0x30, T(0x31, T(0x31, nil))),
		T(0x30, T(0x31, T(0x30, T(0x06, nil)))), T(0x30, T(0x31, T(0x30, T(0x06, []byte{0x80, 0x01})))),
		T(0x30, T(0x31, T(0x30, T(0x06, []byte{0x55})))),
		T(0x30, T(0x31, T(0x30, x509rig.Cat(T(0x06, []byte{0x55, 0x04, 0x03}), T(0x13, []byte("two")), T(0x05, nil))))),
		T(0x30, x509rig.Cat(T(0x31, x509rig.Cat(T(0x30, x509rig.Cat(T(0x06, []byte{0x55, 0x04, 0x0a}), T(0x0c, []byte("Org")))), T(0x30, x509rig.Cat(T(0x06, []byte{0x55, 0x04, 0x0b}), T(0x13, []byte("Unit")))))),
			T(0x31, T(0x30, x509rig.Cat(T(0x06, []byte{0x2a, 0x86, 0x48, 0x86, 0xf7, 0x0d, 0x01, 0x09, 0x01}), T(0x16, []byte("a@b.example"))))))),
	}
}

type rlCase struct {
	k            *x509rig.Key
	alg          int
	subject, ski []byte
	crlSign      bool
	this, next   time.Time
	number       *big.Int
	es           []entryT
	extras       []pkix.Extension
}

func (c *rlCase) line(seed uint64) string {
	num := "nil"
	if c.number != nil {
		num = c.number.String()
	}
	return fmt.Sprintf("c05 rlist %d %s %d %s %s %s %s %d/%d %d/%d %s %s %s", seed, c.k.Name, c.alg, zv.Hex(sigAIFor(c.k, c.alg)), zv.Hex(c.subject), zv.Hex(c.ski),
		b01(c.crlSign), c.this.Unix(), c.this.Nanosecond(), c.next.Unix(), c.next.Nanosecond(), num, entriesTField(c.es), extsField(c.extras))
}

func randRLCase(r *zv.Rng, k *x509rig.Key, alg int) *rlCase {
	ca, _ := caFor(k)
	c := &rlCase{k: k, alg: alg, subject: ca.RawSubject, ski: ca.SubjectKeyId, crlSign: true}
	a, b := randUnix(r), randUnix(r)
	if b < a && !r.Chance(8) {
		a, b = b, a
	}
	c.this, c.next = time.Unix(a, 0).UTC(), time.Unix(b, 0).UTC()
	switch r.Intn(12) {
	case 0:
		c.next = c.this
	case 1:
		c.this = c.this.Add(time.Duration(1+r.Intn(999999999)) * time.Nanosecond)
		c.next = time.Unix(c.this.Unix(), int64(r.Intn(1000000000))).UTC() // same second: Before decided by the nanoseconds
	case 2:
		c.next = time.Time{}
		c.this = []time.Time{time.Time{}, time.Date(0, 3, 4, 5, 6, 7, 0, time.UTC), time.Date(1, 1, 1, 0, 0, 0, 1, time.UTC), time.Date(0, 12, 31, 23, 59, 59, 0, time.UTC)}[r.Intn(4)]
	case 3:
		c.next = c.next.Add(time.Duration(r.Intn(999999999)) * time.Nanosecond)
	}
	switch r.Intn(10) {
	case 0:
		c.number = big.NewInt(int64(r.Intn(300)))
	case 1:
		c.number = new(big.Int).SetBytes(r.Bytes(20))
		c.number.SetBit(c.number, 159, 0)
	case 2:
		c.number = new(big.Int).SetBytes(r.Bytes(20))
		c.number.SetBit(c.number, 159, 1) // refused
	case 3:
		c.number = new(big.Int).Neg(new(big.Int).SetBytes(r.Bytes(1 + r.Intn(20))))
	case 4:
		if r.Chance(30) {
			c.number = nil
		} else {
			c.number = big.NewInt(0)
		}
	default:
		c.number = new(big.Int).SetBytes(r.Bytes(1 + r.Intn(19)))
	}
	c.es = randEntriesT(r)
	for i := r.Intn(3); i > 0 && r.Chance(60); i-- {
		c.extras = append(c.extras, randExt(r))
	}
	switch r.Intn(30) {
	case 0:
		c.extras = append(c.extras, pkix.Extension{Id: oidNumber, Value: []byte{2, 1, byte(r.Intn(128))}})
	case 1:
		c.extras = append(c.extras, pkix.Extension{Id: oidNumber, Value: r.Bytes(r.Intn(4))})
	case 2:
		c.extras = append(c.extras, pkix.Extension{Id: oidAKI, Critical: r.Bool(), Value: r.Bytes(r.Intn(5))})
	}
	switch r.Intn(25) {
	case 0:
		c.crlSign = false
	case 1:
		c.ski = nil
	case 2:
		c.ski = r.Bytes(1 + r.Intn(40))
	case 3, 4, 5:
		n := oddNames(r)
		c.subject = n[r.Intn(len(n))]
	case 6:
		nm := x509rig.RandName(r)
		if b, err := asn1.Marshal(nm.ToRDNSequence()); err == nil {
			c.subject = b
		}
	}
	return c
}

// build makes the DER of a case at generation time (for the parser stream); nil when creation fails
func (c *rlCase) build(seed uint64) []byte {
	issuer := &x509.Certificate{RawSubject: c.subject, SubjectKeyId: c.ski}
	if c.crlSign {
		issuer.KeyUsage = x509.KeyUsageCRLSign
	}
	t := &x509.RevocationList{SignatureAlgorithm: x509.SignatureAlgorithm(c.alg), ThisUpdate: c.this, NextUpdate: c.next, Number: c.number, ExtraExtensions: c.extras}
	for _, e := range c.es {
		t.RevokedCertificates = append(t.RevokedCertificates, x509.RevokedCertificate{SerialNumber: e.serial, RevocationTime: time.Unix(e.unix, 0).UTC(), ReasonCode: e.reason, ExtraExtensions: e.extras})
	}
	der, err := x509.CreateRevocationList(zv.NewRng(seed), t, issuer, c.k.Priv)
	if err != nil {
		return nil
	}
	return der
}

// hand-assembled lists: every field of the TBS can be replaced
type rlParts struct {
	version, ai, outerAI, issuer, this, next, revoked, exts, sig, tbsTail, outerTail, afterOuter []byte
}

func (p *rlParts) der() []byte {
	T := x509rig.TLV
	tbs := T(0x30, x509rig.Cat(p.version, p.ai, p.issuer, p.this, p.next, p.revoked, p.exts, p.tbsTail))
	return x509rig.Cat(T(0x30, x509rig.Cat(tbs, p.outerAI, p.sig, p.outerTail)), p.afterOuter)
}

func handMade(r *zv.Rng) []byte {
	T := x509rig.TLV
	k := x509rig.KeyByName("ed25519")
	ca, _ := caFor(k)
	ai := sigAIFor(k, 0)
	ext := func(oid []byte, crit []byte, val []byte) []byte {
		return T(0x30, x509rig.Cat(T(0x06, oid), crit, T(0x04, val)))
	}
	entry := func(serial []byte, tm []byte, exts []byte) []byte {
		return T(0x30, x509rig.Cat(T(0x02, serial), tm, exts))
	}
	utc := func(s string) []byte { return T(0x17, []byte(s)) }
	gen := func(s string) []byte { return T(0x18, []byte(s)) }
	times := [][]byte{utc("240101120000Z"), utc("2401011200Z"), utc("500101000000Z"), utc("491231235959Z"), utc("680101000000Z"), utc("690101000000Z"),
		utc("240101120000+0100"), utc("240101120000-0030"), utc("2401011200+0100"), utc("240101120000+0000"), utc("240101120000"), utc("241301120000Z"),
		utc("240230120000Z"), utc("240229120000Z"), utc("230229120000Z"), utc("240101240000Z"), utc("240101126000Z"), utc("240101120060Z"), utc("24010112000Z"),
		utc("240101120000.5Z"), utc("-40101120000Z"), utc("+40101120000Z"), utc("240101120000z"), utc(""),
		gen("20240101120000Z"), gen("20500101000000Z"), gen("99991231235959Z"), gen("00000101000000Z"), gen("19491231235959Z"), gen("20240101120000+0100"),
		gen("20240101120000-2359"), gen("20240101120000+2400"), gen("20240101120000+2500"), gen("20240101120000.123Z"), gen("20240101120000,5Z"), gen("202401011200Z"),
		gen("2024010112Z"), gen("20240101120000"), gen("20241301120000Z"), gen("20240230120000Z"), gen("20240101250000Z"), gen("2024010112000Z"), gen("020240101120000Z"),
		gen("+0240101120000Z"), gen("20240101120000+0060"), gen("20240101120000+0061"), gen("20240101120000+0000"), gen("20240101120000-0000"),
		T(0x37, []byte("240101120000Z")), T(0x38, []byte("20240101120000Z")), T(0x16, []byte("240101120000Z")), {0x17, 0x81, 0x0d, '2', '4', '0', '1', '0', '1', '1', '2', '0', '0', '0', '0', 'Z'}}
	pick := func() []byte { return times[r.Intn(len(times))] }
	reasonX := [][]byte{{0x0a, 0x01, 0x01}, {0x0a, 0x01, 0x00}, {0x0a, 0x02, 0x00, 0x01}, {0x0a, 0x08, 0x7f, 1, 2, 3, 4, 5, 6, 7}, {0x0a, 0x09, 0x01, 0, 0, 0, 0, 0, 0, 0, 0},
		{0x0a, 0x00}, {0x02, 0x01, 0x01}, {0x0a, 0x01, 0x05, 0xff}, {}, {0x0a, 0x01, 0xff}, {0x0a, 0x02, 0xff, 0x7f}}
	bools := [][]byte{nil, {0x01, 0x01, 0xff}, {0x01, 0x01, 0x00}, {0x01, 0x01, 0x01}, {0x01, 0x00}, {0x01, 0x02, 0xff, 0xff}}
	p := &rlParts{version: []byte{2, 1, 1}, ai: ai, outerAI: ai, issuer: ca.RawSubject, this: utc("240101120000Z"), next: utc("240201120000Z"),
		exts: T(0xa0, T(0x30, x509rig.Cat(ext([]byte{0x55, 0x1d, 0x23}, nil, T(0x30, T(0x80, []byte{1, 2, 3}))), ext([]byte{0x55, 0x1d, 0x14}, nil, []byte{2, 1, 7})))),
		sig:  T(0x03, append([]byte{0}, r.Bytes(8)...))}
	e1 := entry([]byte{5}, pick(), nil)
	e2 := entry([]byte{0x00, 0x80}, pick(), T(0x30, x509rig.Cat(ext([]byte{0x55, 0x1d, 0x15}, bools[r.Intn(len(bools))], reasonX[r.Intn(len(reasonX))]), ext([]byte{0x2b, 0x06, 0x01}, bools[r.Intn(len(bools))], r.Bytes(r.Intn(4))))))
	p.revoked = T(0x30, x509rig.Cat(e1, e2))
	for n := 1 + r.Intn(2); n > 0; n-- {
		switch r.Intn(34) {
		case 0:
			p.version = [][]byte{nil, {2, 1, 0}, {2, 1, 2}, {2, 2, 0, 1}, {2, 0}, {2, 9, 0, 0, 0, 0, 0, 0, 0, 0, 1}, {0x0a, 1, 1}, {2, 1, 0xff}}[r.Intn(8)]
		case 1:
			p.outerAI = T(0x30, T(0x06, []byte{0x2b, 0x65, 0x71}))
		case 2:
			alt := [][]byte{T(0x30, x509rig.Cat(T(0x06, []byte{0x2b, 0x65, 0x70}), T(0x05, nil))), T(0x30, x509rig.Cat(T(0x06, []byte{0x2b, 0x65, 0x70}), []byte{0x1f, 0x21, 0x00})),
				T(0x30, x509rig.Cat(T(0x06, []byte{0x2b, 0x65, 0x70}), T(0x05, nil), []byte{0xff})), T(0x30, T(0x06, nil)), T(0x30, T(0x06, []byte{0x80, 0x01})), T(0x30, nil),
				T(0x30, T(0x06, []byte{0x2a, 0x86, 0x48, 0x86, 0xf7, 0x0d, 0x01, 0x01, 0x0b})), T(0x30, x509rig.Cat(T(0x06, []byte{0x2b, 0x65, 0x70}), []byte{0x05})),
				T(0x30, T(0x06, []byte{0x2b, 0x81, 0x80, 0x80, 0x80, 0x80, 0x01})), T(0x30, T(0x06, []byte{0x2b, 0x8f, 0xff, 0xff, 0xff, 0x7f})), T(0x30, T(0x06, []byte{0x2b, 0x90, 0x80, 0x80, 0x80, 0x00}))}
			a := alt[r.Intn(len(alt))]
			p.ai, p.outerAI = a, a
		case 3:
			p.this = pick()
		case 4:
			p.next = pick()
		case 5:
			p.next = nil
		case 6:
			p.revoked = nil
		case 7:
			p.revoked = T(0x30, nil)
		case 8:
			p.exts = nil
		case 9:
			p.exts = [][]byte{T(0xa0, nil), T(0xa0, T(0x30, nil)), T(0xa0, T(0x31, nil)), T(0x80, nil), T(0xa0, x509rig.Cat(T(0x30, nil), []byte{0xff})), T(0xa3, T(0x30, nil))}[r.Intn(6)]
		case 10:
			p.exts = T(0xa0, T(0x30, x509rig.Cat(ext([]byte{0x55, 0x1d, 0x14}, bools[r.Intn(len(bools))], [][]byte{{2, 1, 7}, {2, 2, 0, 7}, {2, 0}, {2, 21, 1, 2, 3, 4, 5, 6, 7, 8, 9, 10, 11, 12, 13, 14, 15, 16, 17, 18, 19, 20, 21}, {4, 1, 7}, {2, 1, 0x80}, {2, 1, 7, 9}}[r.Intn(7)]),
				ext([]byte{0x55, 0x1d, 0x23}, nil, r.Bytes(r.Intn(3))), ext([]byte{0x55, 0x1d, 0x14}, nil, []byte{2, 1, 9}))))
		case 11:
			p.sig = [][]byte{T(0x03, nil), T(0x03, []byte{0}), T(0x03, []byte{1}), T(0x03, []byte{8, 0}), T(0x03, []byte{3, 0xa8}), T(0x03, []byte{3, 0xa4}), T(0x03, []byte{7, 0xff, 0x80}),
				T(0x03, []byte{4, 0x12, 0x34, 0x50}), T(0x04, []byte{0, 1}), T(0x23, []byte{0, 1})}[r.Intn(10)]
		case 12:
			p.tbsTail = [][]byte{{0}, {5, 0}, T(0x30, nil), {0xff, 0xff, 0xff}}[r.Intn(4)]
		case 13:
			p.outerTail = [][]byte{{0}, {5, 0}}[r.Intn(2)]
		case 14:
			p.afterOuter = [][]byte{{0}, {0x30, 0}}[r.Intn(2)]
		case 15:
			n := oddNames(r)
			p.issuer = n[r.Intn(len(n))]
		case 16:
			p.issuer = [][]byte{nil, T(0x31, nil), {0x30, 0x81, 0x00}, {0x30, 0x80}}[r.Intn(4)]
		case 17:
			p.revoked = T(0x30, x509rig.Cat(e1, []byte{0x30}))
		case 18:
			p.revoked = T(0x30, entry([]byte{5}, pick(), []byte{0x05, 0x80}))
		case 19:
			p.revoked = T(0x30, entry([]byte{5}, pick(), x509rig.Cat(T(0x30, nil), []byte{0xff})))
		case 20:
			p.revoked = T(0x30, entry([][]byte{{0, 1}, {0xff, 0x80}, {}, {0x80}, {0xff}, {0, 0x80, 0}}[r.Intn(6)], pick(), nil))
		case 21:
			p.revoked = T(0x30, entry([]byte{5}, pick(), T(0x30, x509rig.Cat(T(0x30, x509rig.Cat(T(0x06, []byte{0x2b, 0x06}), T(0x04, nil), []byte{0xff, 0xff})), T(0x31, nil)))))
		case 22:
			p.revoked = T(0x30, entry([]byte{5}, pick(), T(0x30, T(0x30, x509rig.Cat(T(0x06, []byte{0x2b, 0x06}), [][]byte{T(0x05, nil), T(0x0c, []byte("x")), nil}[r.Intn(3)])))))
		case 23:
			p.revoked = T(0x31, e1)
		case 24:
			p.revoked = T(0x30, T(0x31, x509rig.Cat(T(0x02, []byte{5}), pick())))
		case 25:
			p.revoked = T(0x30, T(0x30, x509rig.Cat(pick(), T(0x02, []byte{5}))))
		case 26:
			p.revoked = T(0x30, x509rig.Cat(e2, e1, e2))
		case 27:
			p.this = nil
		case 28:
			p.revoked = T(0x30, entry([]byte{5}, pick(), T(0x30, x509rig.Cat(ext([]byte{0x55, 0x1d, 0x15}, nil, []byte{0x0a, 1, 3}), ext([]byte{0x55, 0x1d, 0x15}, nil, reasonX[r.Intn(len(reasonX))])))))
		default:
		}
	}
	return p.der()
}

func genRList(g *zv.Gen) {
	r := g.Rng
	keys := x509rig.Keys()
	fast := []*x509rig.Key{x509rig.KeyByName("ed25519"), x509rig.KeyByName("p256")}
	// every key x algorithm once, then mostly the cheap keys
	for _, k := range keys {
		for _, a := range x509rig.SigAlgsFor(k.Kind) {
			if k.Name == "rsa1024" && a == x509.SHA512WithRSAPSS {
				continue
			}
			g.Emit(randRLCase(r, k, int(a)).line(r.U64() >> 1))
		}
	}
	// boundary dates as thisUpdate = nextUpdate, no entries
	ed := fast[0]
	ca, _ := caFor(ed)
	for _, bt := range boundaryTimes {
		c := &rlCase{k: ed, subject: ca.RawSubject, ski: ca.SubjectKeyId, crlSign: true, this: bt, next: bt, number: big.NewInt(1)}
		g.Emit(c.line(r.U64() >> 1))
		c.es = []entryT{{serial: big.NewInt(3), unix: bt.Unix()}}
		c.this, c.next = boundaryTimes[1], boundaryTimes[8]
		g.Emit(c.line(r.U64() >> 1))
	}
	for _, nm := range oddNames(r) {
		c := &rlCase{k: ed, subject: nm, ski: ca.SubjectKeyId, crlSign: true, this: boundaryTimes[5], next: boundaryTimes[7], number: big.NewInt(2)}
		g.Emit(c.line(r.U64() >> 1))
	}
	n := g.N(700, 30000)
	for i := 0; i < n; i++ {
		k := fast[r.Intn(2)]
		if r.Chance(4) {
			k = keys[r.Intn(len(keys))]
		}
		algs := x509rig.SigAlgsFor(k.Kind)
		a := algs[r.Intn(len(algs))]
		if k.Name == "rsa1024" && a == x509.SHA512WithRSAPSS {
			continue
		}
		c := randRLCase(r, k, int(a))
		g.Emit(c.line(r.U64() >> 1))
		if k.Kind != "rsa" && r.Chance(50) {
			// parser stream: the created list as it is, truncated, with one octet changed
			der := c.build(r.U64())
			if der == nil {
				continue
			}
			g.Emitf("c05 rlp %s", zv.Hex(der))
			switch r.Intn(3) {
			case 0:
				g.Emitf("c05 rlp %s", zv.Hex(der[:r.Intn(len(der))]))
			case 1:
				m := append([]byte{}, der...)
				m[r.Intn(len(m))] ^= byte(1 << r.Intn(8))
				g.Emitf("c05 rlp %s", zv.Hex(m))
			default:
				m := append([]byte{}, der...)
				m[r.Intn(len(m))] = byte(r.Intn(256))
				g.Emitf("c05 rlp %s", zv.Hex(m))
			}
		}
	}
	for i := g.N(900, 30000); i > 0; i-- {
		g.Emitf("c05 rlp %s", zv.Hex(handMade(r)))
	}
	g.Emit("c05 rlp -")
}
