// Package c05: CSRs, legacy CRLs and v2 revocation lists created by zcrypto parse back and self-verify.
package c05

import (
	"bytes"
	"crypto"
	"encoding/hex"
	"fmt"
	"math/big"
	"os"
	"strconv"
	"strings"
	"time"

	"github.com/zmap/zcrypto/x509"
	"github.com/zmap/zcrypto/x509/pkix"

	"zv/internal/x509rig"
	"zv/internal/zv"
)

var sigTable = map[x509.SignatureAlgorithm]struct {
	scheme string
	h      crypto.Hash
}{
	x509.MD5WithRSA: {"pkcs1", crypto.MD5}, x509.SHA1WithRSA: {"pkcs1", crypto.SHA1}, x509.SHA256WithRSA: {"pkcs1", crypto.SHA256},
	x509.SHA384WithRSA: {"pkcs1", crypto.SHA384}, x509.SHA512WithRSA: {"pkcs1", crypto.SHA512},
	x509.SHA256WithRSAPSS: {"pss", crypto.SHA256}, x509.SHA384WithRSAPSS: {"pss", crypto.SHA384}, x509.SHA512WithRSAPSS: {"pss", crypto.SHA512},
	x509.ECDSAWithSHA1: {"ecdsa", crypto.SHA1}, x509.ECDSAWithSHA256: {"ecdsa", crypto.SHA256}, x509.ECDSAWithSHA384: {"ecdsa", crypto.SHA384},
	x509.ECDSAWithSHA512: {"ecdsa", crypto.SHA512}, x509.Ed25519Sig: {"ed25519", 0},
}

func isPSS(a x509.SignatureAlgorithm) bool {
	return a == x509.SHA256WithRSAPSS || a == x509.SHA384WithRSAPSS || a == x509.SHA512WithRSAPSS
}

func b01(b bool) string {
	if b {
		return "1"
	}
	return "0"
}
func oidStr(o []int) string {
	var p []string
	for _, a := range o {
		p = append(p, strconv.Itoa(a))
	}
	return strings.Join(p, ".")
}

var reasonOID = []int{2, 5, 29, 21}

// ---- issuer certificates (one CA per key, created once) ----

var caCache = map[string]*x509.Certificate{}

func caFor(k *x509rig.Key) (*x509.Certificate, error) {
	if c, ok := caCache[k.Name]; ok {
		return c, nil
	}
	t := &x509.Certificate{SerialNumber: big.NewInt(7), Subject: pkix.Name{CommonName: "zv CA " + k.Name, Organization: []string{"ZV"}},
		NotBefore: time.Date(2020, 1, 1, 0, 0, 0, 0, time.UTC), NotAfter: time.Date(2040, 1, 1, 0, 0, 0, 0, time.UTC),
		BasicConstraintsValid: true, IsCA: true, KeyUsage: x509.KeyUsageCertSign | x509.KeyUsageCRLSign, SubjectKeyId: []byte{1, 2, 3, 4, byte(len(k.Name))}}
	der, err := x509.CreateCertificate(zv.NewRng(1), t, t, k.Pub, k.Priv)
	if err != nil {
		return nil, err
	}
	c, err := x509.ParseCertificate(der)
	if err != nil {
		return nil, err
	}
	caCache[k.Name] = c
	return c, nil
}

func init() {
	for _, k := range x509rig.Keys() {
		if _, err := caFor(k); err != nil {
			panic(err)
		}
	}
}

// ---- CSR ----

func execCSR(f []string) zv.Out {
	seed, _ := strconv.ParseUint(f[2], 10, 64)
	k := x509rig.KeyByName(f[3])
	alg, _ := strconv.Atoi(f[4])
	critical := f[5] == "crit"
	r := zv.NewRng(seed)
	ct := x509rig.RandTemplate(r, false)
	t := &x509.CertificateRequest{Subject: ct.Subject, DNSNames: ct.DNSNames, EmailAddresses: ct.EmailAddresses, IPAddresses: ct.IPAddresses,
		SignatureAlgorithm: x509.SignatureAlgorithm(alg)}
	for i := r.Intn(3); i > 0; i-- {
		t.ExtraExtensions = append(t.ExtraExtensions, pkix.Extension{Id: x509rig.RandOID(r), Critical: critical && r.Bool(), Value: r.Bytes(1 + r.Intn(12))})
	}
	if critical && len(t.ExtraExtensions) == 0 {
		t.ExtraExtensions = append(t.ExtraExtensions, pkix.Extension{Id: x509rig.RandOID(r), Critical: true, Value: []byte{1}})
	}
	tags := []string{"csr", "csr:key=" + k.Name, "csr:alg=" + x509.SignatureAlgorithm(alg).String()}
	der, err := x509.CreateCertificateRequest(zv.NewRng(seed^1), t, k.Priv)
	if err != nil {
		return zv.Out{Viol: "CreateCertificateRequest: " + err.Error(), Tags: tags}
	}
	c, err := x509.ParseCertificateRequest(der)
	if err != nil {
		return zv.Out{Viol: "ParseCertificateRequest rejects the created CSR: " + err.Error(), Tags: tags}
	}
	var viol []string
	bad := func(format string, a ...any) { viol = append(viol, fmt.Sprintf(format, a...)) }
	if c.Subject.CommonName != t.Subject.CommonName || fmt.Sprint(sortedCopy(c.Subject.Organization)) != fmt.Sprint(sortedCopy(t.Subject.Organization)) ||
		fmt.Sprint(sortedCopy(c.Subject.OrganizationalUnit)) != fmt.Sprint(sortedCopy(t.Subject.OrganizationalUnit)) || fmt.Sprint(c.Subject.Country) != fmt.Sprint(t.Subject.Country) {
		bad("subject %v != %v", c.Subject, t.Subject)
	}
	if fmt.Sprint(c.DNSNames) != fmt.Sprint(t.DNSNames) || fmt.Sprint(c.EmailAddresses) != fmt.Sprint(t.EmailAddresses) {
		bad("SAN names %v %v != %v %v", c.DNSNames, c.EmailAddresses, t.DNSNames, t.EmailAddresses)
	}
	if len(c.IPAddresses) != len(t.IPAddresses) {
		bad("SAN IPs")
	} else {
		for i := range t.IPAddresses {
			if !c.IPAddresses[i].Equal(t.IPAddresses[i]) {
				bad("SAN IP %v != %v", c.IPAddresses[i], t.IPAddresses[i])
			}
		}
	}
	// extensions: [SAN] ++ extras, each with id, critical, value
	want := []pkix.Extension{}
	if len(t.DNSNames) > 0 || len(t.EmailAddresses) > 0 || len(t.IPAddresses) > 0 {
		want = append(want, pkix.Extension{Id: []int{2, 5, 29, 17}})
	}
	want = append(want, t.ExtraExtensions...)
	if len(c.Extensions) != len(want) {
		bad("extension count %d != %d", len(c.Extensions), len(want))
	} else {
		for i, e := range want {
			g := c.Extensions[i]
			if !g.Id.Equal(e.Id) || (i > 0 || len(want) == len(t.ExtraExtensions)) && (!bytes.Equal(g.Value, e.Value) || g.Critical != e.Critical) {
				bad("extension %d: got {%v critical=%v %x}, supplied {%v critical=%v %x}", i, g.Id, g.Critical, g.Value, e.Id, e.Critical, e.Value)
			}
		}
	}
	if critical {
		tags = append(tags, "csr:critical-extra-extension")
	}
	// self-verification
	if isPSS(t.SignatureAlgorithm) && os.Getenv("ZV_C05_SKIP_D7") == "1" {
		tags = append(tags, "csr:rsa-pss-self-verification-skipped(D7)")
	} else {
		if err := c.CheckSignature(); err != nil {
			bad("CSR does not verify under its own key (%v): %v", x509.SignatureAlgorithm(alg), err)
		}
		if d, ok := sigTable[c.SignatureAlgorithm]; ok {
			if good, known := x509rig.Verify(k.Pub, d.scheme, d.h, c.RawTBSCertificateRequest, c.Signature); known && !good {
				bad("CSR signature does not verify with the standard library (%s)", d.scheme)
			}
		}
	}
	if alg != 0 && int(c.SignatureAlgorithm) != alg {
		bad("SignatureAlgorithm %v != requested %v", c.SignatureAlgorithm, x509.SignatureAlgorithm(alg))
	}
	return zv.Out{Viol: strings.Join(viol, "; "), Tags: tags}
}

func sortedCopy(l []string) []string {
	o := append([]string{}, l...)
	for i := range o {
		for j := i + 1; j < len(o); j++ {
			if o[j] < o[i] {
				o[i], o[j] = o[j], o[i]
			}
		}
	}
	return o
}

// ---- revocation entries (shared by legacy CRL and RevocationList) ----

type entry struct {
	serial *big.Int
	t      time.Time
	reason *int
	extras []pkix.Extension
}

func randEntries(r *zv.Rng) []entry {
	n := r.Intn(6)
	if r.Chance(10) {
		n = 0
	}
	var out []entry
	for i := 0; i < n; i++ {
		e := entry{serial: x509rig.RandSerial(r), t: x509rig.RandTime(r)}
		if i > 0 && r.Chance(20) {
			e.serial = new(big.Int).Set(out[r.Intn(i)].serial) // duplicate serial
		}
		switch r.Intn(4) {
		case 0: // nil
		case 1:
			z := 0
			e.reason = &z
		default:
			v := 1 + r.Intn(10)
			e.reason = &v
		}
		for j := r.Intn(3); j > 0; j-- {
			e.extras = append(e.extras, pkix.Extension{Id: x509rig.RandOID(r), Critical: r.Chance(30), Value: r.Bytes(1 + r.Intn(8))})
		}
		if r.Chance(25) { // a user-supplied reasonCode extension, possibly contradicting ReasonCode
			v := byte(r.Intn(11))
			ext := pkix.Extension{Id: reasonOID, Value: []byte{0x0a, 0x01, v}}
			pos := r.Intn(len(e.extras) + 1)
			e.extras = append(e.extras[:pos], append([]pkix.Extension{ext}, e.extras[pos:]...)...)
		}
		out = append(out, e)
	}
	return out
}

func entriesField(es []entry) string {
	if len(es) == 0 {
		return "-"
	}
	var parts []string
	for _, e := range es {
		reason := "-"
		if e.reason != nil {
			reason = strconv.Itoa(*e.reason)
		}
		ex := "-"
		if len(e.extras) > 0 {
			var xs []string
			for _, x := range e.extras {
				xs = append(xs, oidStr(x.Id)+"/"+b01(x.Critical)+"/"+zv.Hex(x.Value))
			}
			ex = strings.Join(xs, "+")
		}
		parts = append(parts, e.serial.String()+":"+e.t.UTC().Format("20060102150405")+":"+reason+":"+ex)
	}
	return strings.Join(parts, ",")
}

func normReason(r *int) string {
	if r == nil || *r == 0 {
		return "-"
	}
	return strconv.Itoa(*r)
}

// ---- v2 RevocationList ----

func rlTemplate(seed uint64, alg int) (*x509.RevocationList, []entry) {
	r := zv.NewRng(seed)
	es := randEntries(r)
	a, b := x509rig.RandTime(r), x509rig.RandTime(r)
	if b.Before(a) {
		a, b = b, a
	}
	t := &x509.RevocationList{SignatureAlgorithm: x509.SignatureAlgorithm(alg), ThisUpdate: a, NextUpdate: b}
	switch r.Intn(4) {
	case 0:
		t.Number = big.NewInt(int64(r.Intn(300)))
	case 1:
		t.Number = new(big.Int).SetBytes(r.Bytes(20))
		t.Number.SetBit(t.Number, 159, 0) // largest accepted size
	default:
		t.Number = new(big.Int).SetBytes(r.Bytes(1 + r.Intn(19)))
	}
	for _, e := range es {
		t.RevokedCertificates = append(t.RevokedCertificates, x509.RevokedCertificate{SerialNumber: e.serial, RevocationTime: e.t, ReasonCode: e.reason, ExtraExtensions: e.extras})
	}
	for i := r.Intn(2); i > 0; i-- {
		t.ExtraExtensions = append(t.ExtraExtensions, pkix.Extension{Id: x509rig.RandOID(r), Value: r.Bytes(3)})
	}
	return t, es
}

func execRL(f []string) zv.Out {
	seed, _ := strconv.ParseUint(f[2], 10, 64)
	k := x509rig.KeyByName(f[3])
	alg, _ := strconv.Atoi(f[4])
	t, es := rlTemplate(seed, alg)
	tags := []string{"rl", "rl:key=" + k.Name, "rl:alg=" + x509.SignatureAlgorithm(alg).String(), fmt.Sprintf("rl:entries=%d", len(es))}
	if entriesField(es) != f[5] {
		return zv.Out{Viol: "harness: entries regenerated from the seed differ from the line", Tags: tags}
	}
	ca, _ := caFor(k)
	der, err := x509.CreateRevocationList(zv.NewRng(seed^1), t, ca, k.Priv)
	if err != nil {
		return zv.Out{Go: "err", Viol: "CreateRevocationList: " + err.Error(), Tags: tags}
	}
	rl, err := x509.ParseRevocationList(der)
	if err != nil {
		return zv.Out{Go: "err", Viol: "ParseRevocationList rejects the created list: " + err.Error(), Tags: tags}
	}
	var viol []string
	bad := func(format string, a ...any) { viol = append(viol, fmt.Sprintf(format, a...)) }
	if !bytes.Equal(rl.RawIssuer, ca.RawSubject) || rl.Issuer.CommonName != ca.Subject.CommonName {
		bad("issuer")
	}
	if !rl.ThisUpdate.Equal(t.ThisUpdate) || !rl.NextUpdate.Equal(t.NextUpdate) {
		bad("update times %v %v != %v %v", rl.ThisUpdate, rl.NextUpdate, t.ThisUpdate, t.NextUpdate)
	}
	if rl.Number == nil || rl.Number.Cmp(t.Number) != 0 {
		bad("CRL number %v != %v", rl.Number, t.Number)
	}
	wantAKI := x509rig.TLV(0x30, x509rig.TLV(0x80, ca.SubjectKeyId))
	if !bytes.Equal(rl.AuthorityKeyId, wantAKI) {
		bad("authority key id extension %x != %x", rl.AuthorityKeyId, wantAKI)
	}
	var raws []byte
	var parsed []string
	if len(rl.RevokedCertificates) != len(es) {
		bad("entry count %d != %d", len(rl.RevokedCertificates), len(es))
	} else {
		for i, e := range es {
			g := rl.RevokedCertificates[i]
			raws = append(raws, g.Raw...)
			gr := "-"
			if g.ReasonCode != nil {
				gr = strconv.Itoa(*g.ReasonCode)
			}
			parsed = append(parsed, fmt.Sprintf("%s:%s:%s:%d", g.SerialNumber, g.RevocationTime.UTC().Format("20060102150405"), gr, len(g.Extensions)))
			if g.SerialNumber.Cmp(e.serial) != 0 {
				bad("entry %d serial %v != %v", i, g.SerialNumber, e.serial)
			}
			if !g.RevocationTime.Equal(e.t) {
				bad("entry %d time %v != %v", i, g.RevocationTime, e.t)
			}
			if gr != normReason(e.reason) {
				bad("entry %d reason code %s, supplied %s", i, gr, normReason(e.reason))
			}
			// extensions: extras minus user reasonCode, then the synthesised reasonCode
			var want []pkix.Extension
			for _, x := range e.extras {
				if !x.Id.Equal(reasonOID) {
					want = append(want, x)
				} else {
					tags = append(tags, "rl:user-supplied-reasonCode")
				}
			}
			if normReason(e.reason) != "-" {
				want = append(want, pkix.Extension{Id: reasonOID, Value: []byte{0x0a, 0x01, byte(*e.reason)}})
			}
			if len(want) != len(g.Extensions) {
				bad("entry %d: %d extensions, expected %d", i, len(g.Extensions), len(want))
			} else {
				for j := range want {
					if !want[j].Id.Equal(g.Extensions[j].Id) || want[j].Critical != g.Extensions[j].Critical || !bytes.Equal(want[j].Value, g.Extensions[j].Value) {
						bad("entry %d extension %d differs", i, j)
					}
				}
			}
			tags = append(tags, "rl:reason="+map[bool]string{true: "nil", false: "set"}[e.reason == nil])
		}
	}
	// extra extensions of the list: after AKI and number
	if len(rl.Extensions) != 2+len(t.ExtraExtensions) {
		bad("list extension count")
	}
	if err := rl.CheckSignatureFrom(ca); err != nil {
		bad("CheckSignatureFrom(issuer): %v", err)
	}
	if d, ok := sigTable[rl.SignatureAlgorithm]; ok {
		if good, known := x509rig.Verify(k.Pub, d.scheme, d.h, rl.RawTBSRevocationList, rl.Signature); known && !good {
			bad("signature does not verify with the standard library")
		}
	} else {
		bad("unknown parsed signature algorithm")
	}
	if alg != 0 && int(rl.SignatureAlgorithm) != alg {
		bad("SignatureAlgorithm %v != requested", rl.SignatureAlgorithm)
	}
	p := "-"
	if len(parsed) > 0 {
		p = strings.Join(parsed, ",")
	}
	out := fmt.Sprintf("ok entries=%s parsed=%s", zv.Hex(raws), p)
	return zv.Out{Go: out, Viol: strings.Join(viol, "; "), Tags: tags}
}

// ---- CRL number rule ----

func execNum(f []string) zv.Out {
	n, ok := new(big.Int).SetString(f[2], 10)
	if !ok {
		return zv.Out{Viol: "bad number"}
	}
	k := x509rig.KeyByName("ed25519")
	ca, _ := caFor(k)
	t := &x509.RevocationList{Number: n, ThisUpdate: time.Date(2024, 1, 1, 0, 0, 0, 0, time.UTC), NextUpdate: time.Date(2024, 2, 1, 0, 0, 0, 0, time.UTC)}
	der, err := x509.CreateRevocationList(zv.NewRng(3), t, ca, k.Priv)
	if err != nil {
		return zv.Out{Go: "err", Tags: []string{"num:rejected"}}
	}
	rl, err := x509.ParseRevocationList(der)
	if err != nil {
		return zv.Out{Go: "err", Viol: "created list with number " + f[2] + " does not parse: " + err.Error()}
	}
	v := ""
	if rl.Number.Cmp(n) != 0 {
		v = fmt.Sprintf("CRL number %v != %v", rl.Number, n)
	}
	var val []byte
	for _, e := range rl.Extensions {
		if e.Id.Equal([]int{2, 5, 29, 20}) {
			val = e.Value
		}
	}
	return zv.Out{Go: "ok " + zv.Hex(val), Viol: v, Tags: []string{"num:accepted", fmt.Sprintf("num:octets=%d", (n.BitLen()+8)/8)}}
}

// ---- legacy CRL ----

func execCRL(f []string) zv.Out {
	seed, _ := strconv.ParseUint(f[2], 10, 64)
	k := x509rig.KeyByName(f[3])
	r := zv.NewRng(seed)
	es := randEntries(r)
	now, exp := x509rig.RandTime(r), x509rig.RandTime(r)
	ca, _ := caFor(k)
	var rcs []pkix.RevokedCertificate
	for _, e := range es {
		rcs = append(rcs, pkix.RevokedCertificate{SerialNumber: e.serial, RevocationTime: e.t, Extensions: e.extras})
	}
	tags := []string{"crl", "crl:key=" + k.Name, fmt.Sprintf("crl:entries=%d", len(es))}
	der, err := ca.CreateCRL(zv.NewRng(seed^1), k.Priv, rcs, now, exp)
	if err != nil {
		return zv.Out{Viol: "CreateCRL: " + err.Error(), Tags: tags}
	}
	cl, err := x509.ParseCRL(der)
	if err != nil {
		return zv.Out{Viol: "ParseCRL rejects the created CRL: " + err.Error(), Tags: tags}
	}
	var viol []string
	bad := func(format string, a ...any) { viol = append(viol, fmt.Sprintf(format, a...)) }
	if !cl.TBSCertList.ThisUpdate.Equal(now) || !cl.TBSCertList.NextUpdate.Equal(exp) {
		bad("update times")
	}
	var issuer pkix.Name
	issuer.FillFromRDNSequence(&cl.TBSCertList.Issuer)
	if issuer.CommonName != ca.Subject.CommonName {
		bad("issuer %v", issuer)
	}
	if len(cl.TBSCertList.RevokedCertificates) != len(es) {
		bad("entry count")
	} else {
		for i, e := range es {
			g := cl.TBSCertList.RevokedCertificates[i]
			if g.SerialNumber.Cmp(e.serial) != 0 || !g.RevocationTime.Equal(e.t) {
				bad("entry %d (%v,%v) != (%v,%v)", i, g.SerialNumber, g.RevocationTime, e.serial, e.t)
			}
			if len(g.Extensions) != len(e.extras) {
				bad("entry %d extension count", i)
			} else {
				for j := range e.extras {
					if !g.Extensions[j].Id.Equal(e.extras[j].Id) || g.Extensions[j].Critical != e.extras[j].Critical || !bytes.Equal(g.Extensions[j].Value, e.extras[j].Value) {
						bad("entry %d extension %d", i, j)
					}
				}
			}
		}
	}
	if err := ca.CheckCRLSignature(cl); err != nil {
		bad("CheckCRLSignature: %v", err)
	}
	alg := x509.GetSignatureAlgorithmFromAI(cl.SignatureAlgorithm)
	if d, ok := sigTable[alg]; ok {
		if good, known := x509rig.Verify(k.Pub, d.scheme, d.h, cl.TBSCertList.Raw, cl.SignatureValue.RightAlign()); known && !good {
			bad("CRL signature does not verify with the standard library")
		}
	} else {
		bad("unknown signature algorithm on created CRL")
	}
	return zv.Out{Viol: strings.Join(viol, "; "), Tags: tags}
}

func exec(line string) zv.Out {
	f := strings.Fields(line)
	switch f[1] {
	case "csr":
		return execCSR(f)
	case "rl":
		return execRL(f)
	case "crl":
		return execCRL(f)
	case "num":
		return execNum(f)
	case "rlist":
		return execRList(f)
	case "rlp":
		return execRLP(f)
	case "crlm":
		return execCRLM(f)
	case "csrm":
		return execCSRM(f)
	case "csrp":
		return execCSRP(f)
	case "xsch":
		return execXSch(f)
	}
	return zv.Out{Viol: "bad line"}
}

func gen(g *zv.Gen) {
	r := g.Rng
	keys := x509rig.Keys()
	pick := func() *x509rig.Key {
		k := keys[r.Intn(len(keys))]
		if k.Name == "rsa2048" && r.Chance(60) {
			k = keys[0]
		}
		return k
	}
	okAlg := func(k *x509rig.Key, a x509.SignatureAlgorithm) bool {
		return !(k.Name == "rsa1024" && a == x509.SHA512WithRSAPSS)
	}
	// every key x algorithm, for each of the three objects
	per := g.N(2, 10)
	for _, k := range keys {
		for _, a := range x509rig.SigAlgsFor(k.Kind) {
			if !okAlg(k, a) {
				continue
			}
			for i := 0; i < per; i++ {
				g.Emitf("c05 csr %d %s %d plain", r.U64()>>1, k.Name, int(a))
				seed := r.U64() >> 1
				_, es := rlTemplate(seed, int(a))
				g.Emitf("c05 rl %d %s %d %s", seed, k.Name, int(a), entriesField(es))
			}
		}
		for i := 0; i < per; i++ {
			g.Emitf("c05 crl %d %s", r.U64()>>1, k.Name)
		}
	}
	n := g.N(1500, 50000)
	for i := 0; i < n; i++ {
		k := pick()
		algs := x509rig.SigAlgsFor(k.Kind)
		a := algs[r.Intn(len(algs))]
		if !okAlg(k, a) {
			continue
		}
		switch r.Intn(5) {
		case 0:
			g.Emitf("c05 csr %d %s %d plain", r.U64()>>1, k.Name, int(a))
		case 1:
			g.Emitf("c05 crl %d %s", r.U64()>>1, k.Name)
		default:
			seed := r.U64() >> 1
			_, es := rlTemplate(seed, int(a))
			g.Emitf("c05 rl %d %s %d %s", seed, k.Name, int(a), entriesField(es))
		}
	}
	if os.Getenv("ZV_C05_SKIP_CSR_CRITICAL") != "1" {
		for i := 0; i < 50; i++ {
			g.Emitf("c05 csr %d %s 0 crit", r.U64()>>1, pick().Name)
		}
	}
	// CRL number boundary: 2^159 - 1 accepted, 2^159 refused, around every octet boundary, negatives
	one := big.NewInt(1)
	for _, bits := range []uint{0, 7, 8, 63, 64, 127, 151, 152, 158, 159, 160, 167, 168, 200} {
		p := new(big.Int).Lsh(one, bits)
		for _, d := range []int64{-1, 0, 1} {
			v := new(big.Int).Add(p, big.NewInt(d))
			g.Emitf("c05 num %s", v)
			g.Emitf("c05 num %s", new(big.Int).Neg(v))
		}
	}
	for i := g.N(100, 3000); i > 0; i-- {
		v := new(big.Int).SetBytes(r.Bytes(1 + r.Intn(24)))
		g.Emitf("c05 num %s", v)
	}
	genRList(g)
	genCSRM(g)
	genCRLM(g)
}

var _ = hex.EncodeToString

func init() {
	zv.Register(&zv.Prop{ID: "C05", Topic: "c05", Gen: gen, Exec: exec,
		Rule: "CSRs (random subject/SANs/extra extensions), legacy CRLs and v2 revocation lists (0..5 entries with duplicate, negative and 160-bit serials, revocation times in both time encodings, reason codes nil/0/1..10, extra entry extensions incl. a user-supplied reasonCode, CRL numbers up to the 20-octet limit) x every key of {RSA-1024/2048, P-224..P-521, Ed25519} x every signature algorithm the creation API accepts; CRL numbers around every octet boundary and the 2^159 limit; a case is one distinct template; T3 = parse-back comparison + the library's own verification API + standard-library signature verification"})
}
