package c05

// legacy Certificate.CreateCRL, create side, tied to ZV.Model.C05Csr (namespace Legacy):
//
//	c05 crlm <seed> <key> <sigAI> <issuer name> <ski> <now unix/nsec> <expiry unix/nsec> <entries serial:unix:-:exts>

import (
	"fmt"
	"strconv"
	"time"

	"github.com/zmap/zcrypto/encoding/asn1"
	"github.com/zmap/zcrypto/x509"
	"github.com/zmap/zcrypto/x509/pkix"

	"zv/internal/x509rig"
	"zv/internal/zv"
)

func execCRLM(f []string) zv.Out {
	if len(f) != 10 {
		return zv.Out{Viol: "bad crlm line"}
	}
	seed, _ := strconv.ParseUint(f[2], 10, 64)
	k := x509rig.KeyByName(f[3])
	ski := zv.UnHex(f[6])
	now, exp := parseTimeArg(f[7]), parseTimeArg(f[8])
	es := parseEntriesT(f[9])
	ca0, _ := caFor(k)
	ca := *ca0
	ca.SubjectKeyId = ski
	if seed%2 == 0 {
		z := time.FixedZone("", -3*3600)
		now, exp = now.In(z), exp.In(z)
	}
	var rcs []pkix.RevokedCertificate
	expectErr := false
	for _, e := range es {
		rcs = append(rcs, pkix.RevokedCertificate{SerialNumber: e.serial, RevocationTime: time.Unix(e.unix, 0).In(time.FixedZone("", 3600)), Extensions: e.extras})
		if !yearOK(e.unix) {
			expectErr = true
		}
		for _, x := range e.extras {
			if !validOID(x.Id) {
				expectErr = true
			}
		}
	}
	for _, u := range []time.Time{now, exp} {
		if y := u.UTC().Year(); y < 0 || y > 9999 {
			expectErr = true
		}
	}
	tags := []string{"crlm", fmt.Sprintf("crlm:entries=%d", len(es)), fmt.Sprintf("crlm:ski=%v", len(ski) > 0)}
	der, err := ca.CreateCRL(zv.NewRng(seed^1), k.Priv, rcs, now, exp)
	if err != nil {
		v := ""
		if !expectErr {
			v = "CreateCRL: " + err.Error()
		}
		return zv.Out{Go: "err", Viol: v, Tags: append(tags, "crlm:err")}
	}
	_, body, _ := x509rig.Open(der)
	ch, _ := x509rig.Children(body)
	v := ""
	cl, err := x509.ParseCRL(der)
	if err != nil {
		v = "ParseCRL rejects the created CRL: " + err.Error()
	} else {
		if cl.TBSCertList.ThisUpdate.Unix() != now.Unix() || (!exp.UTC().IsZero() && cl.TBSCertList.NextUpdate.Unix() != exp.Unix()) || len(cl.TBSCertList.RevokedCertificates) != len(es) {
			v = "legacy CRL fields differ from the template"
		}
		if err := ca0.CheckCRLSignature(cl); err != nil {
			v = "CheckCRLSignature: " + err.Error()
		}
	}
	return zv.Out{Go: "ok tbs=" + zv.Hex(ch[0]), Viol: v, Tags: append(tags, "crlm:ok")}
}

func genCRLM(g *zv.Gen) {
	r := g.Rng
	keys := x509rig.Keys()
	for i := g.N(400, 15000); i > 0; i-- {
		k := keys[r.Intn(len(keys))]
		if k.Kind == "rsa" && r.Chance(80) {
			k = x509rig.KeyByName("ed25519")
		}
		ca, _ := caFor(k)
		name, err := asn1.Marshal(ca.Subject.ToRDNSequence())
		if err != nil {
			continue
		}
		ai := sigAIFor(k, 0)
		ski := ca.SubjectKeyId
		if r.Chance(15) {
			ski = nil
		} else if r.Chance(15) {
			ski = r.Bytes(1 + r.Intn(3)) // boundary of the "has a subject key id" guard
		}
		es := randEntriesT(r)
		for j := range es {
			es[j].reason = nil
		}
		a, b := randUnix(r), randUnix(r)
		now, exp := time.Unix(a, int64(r.Intn(2)*r.Intn(1000000000))).UTC(), time.Unix(b, 0).UTC()
		if r.Chance(10) {
			exp = time.Time{}
		}
		g.Emitf("c05 crlm %d %s %s %s %s %d/%d %d/%d %s", r.U64()>>1, k.Name, zv.Hex(ai), zv.Hex(name), zv.Hex(ski), now.Unix(), now.Nanosecond(), exp.Unix(), exp.Nanosecond(), entriesTField(es))
	}
}
