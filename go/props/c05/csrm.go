package c05

// CSR path tied to the Lean model ZV.Model.C05Csr:
//
//	c05 csrm <seed> <key> <alg> <sigAI> <spki> <subject> <dns> <email> <ips> <extras>
//	c05 csrp <der hex>
//	c05 xsch <type name> <schema>

import (
	"bytes"
	"fmt"
	"net"
	"reflect"
	"strconv"
	"strings"

	"github.com/zmap/zcrypto/encoding/asn1"
	"github.com/zmap/zcrypto/x509"
	"github.com/zmap/zcrypto/x509/pkix"

	"zv/internal/x509rig"
	"zv/internal/zv"
	"zv/props/c18"
)

var oidSAN = []int{2, 5, 29, 17}

func hexList(l [][]byte) string {
	if len(l) == 0 {
		return "-"
	}
	var o []string
	for _, b := range l {
		if len(b) == 0 {
			o = append(o, "e")
		} else {
			o = append(o, zv.Hex(b))
		}
	}
	return strings.Join(o, ",")
}
func unHexList(s string) [][]byte {
	if s == "-" {
		return nil
	}
	var o [][]byte
	for _, p := range strings.Split(s, ",") {
		if p == "e" {
			o = append(o, []byte{})
		} else {
			o = append(o, zv.UnHex(p))
		}
	}
	return o
}
func strs(l [][]byte) []string {
	var o []string
	for _, b := range l {
		o = append(o, string(b))
	}
	return o
}
func byteses(l []string) [][]byte {
	var o [][]byte
	for _, s := range l {
		o = append(o, []byte(s))
	}
	return o
}

// (spki, sigAI) of a key/algorithm, read off a request the library created
var csrParts = map[string][2][]byte{}

func csrPartsFor(k *x509rig.Key, alg int) (spki, ai []byte) {
	id := fmt.Sprintf("%s/%d", k.Name, alg)
	if p, ok := csrParts[id]; ok {
		return p[0], p[1]
	}
	der, err := x509.CreateCertificateRequest(zv.NewRng(9), &x509.CertificateRequest{SignatureAlgorithm: x509.SignatureAlgorithm(alg)}, k.Priv)
	if err != nil {
		panic(err)
	}
	c, err := x509.ParseCertificateRequest(der)
	if err != nil {
		panic(err)
	}
	_, body, _ := x509rig.Open(der)
	ch, _ := x509rig.Children(body)
	csrParts[id] = [2][]byte{c.RawSubjectPublicKeyInfo, ch[1]}
	return c.RawSubjectPublicKeyInfo, ch[1]
}

func showCSR(c *x509.CertificateRequest) string {
	var xs []string
	for _, x := range c.Extensions {
		xs = append(xs, oidStr(x.Id)+"/"+b01(x.Critical)+"/"+zv.Hex(x.Value))
	}
	ex := "-"
	if len(xs) > 0 {
		ex = strings.Join(xs, "+")
	}
	var ips [][]byte
	for _, ip := range c.IPAddresses {
		ips = append(ips, []byte(ip))
	}
	return fmt.Sprintf("ver=%d subj=%s sig=%s exts=%s dns=%s email=%s ips=%s", c.Version, zv.Hex(c.RawSubject), zv.Hex(c.Signature), ex,
		hexList(byteses(c.DNSNames)), hexList(byteses(c.EmailAddresses)), hexList(ips))
}

func to4(ip []byte) []byte {
	if v := net.IP(ip).To4(); v != nil {
		return v
	}
	return ip
}

func execCSRM(f []string) zv.Out {
	if len(f) != 12 {
		return zv.Out{Viol: "bad csrm line"}
	}
	seed, _ := strconv.ParseUint(f[2], 10, 64)
	k := x509rig.KeyByName(f[3])
	alg, _ := strconv.Atoi(f[4])
	subject := zv.UnHex(f[7])
	dns, email, ips := unHexList(f[8]), unHexList(f[9]), unHexList(f[10])
	extras := parseExtsField(f[11])
	t := &x509.CertificateRequest{RawSubject: subject, DNSNames: strs(dns), EmailAddresses: strs(email), ExtraExtensions: extras, SignatureAlgorithm: x509.SignatureAlgorithm(alg)}
	for _, ip := range ips {
		t.IPAddresses = append(t.IPAddresses, net.IP(ip))
	}
	hasSAN := len(dns)+len(email)+len(ips) > 0
	override := hasOID(extras, oidSAN)
	tags := []string{"csrm", fmt.Sprintf("csrm:sans=%v", hasSAN), fmt.Sprintf("csrm:extras=%d", len(extras))}
	if override {
		tags = append(tags, "csrm:extras-contain-subjectAltName")
	}
	badOID := false
	for _, x := range extras {
		if !validOID(x.Id) {
			badOID = true
		}
	}
	der, err := x509.CreateCertificateRequest(zv.NewRng(seed^1), t, k.Priv)
	if err != nil {
		v := ""
		if !badOID {
			v = "CreateCertificateRequest refuses the template: " + err.Error()
		}
		return zv.Out{Go: "err", Viol: v, Tags: append(tags, "csrm:create-err")}
	}
	c, err := x509.ParseCertificateRequest(der)
	if err != nil {
		// acceptable only when the caller's own subject bytes or subjectAltName value do not parse
		v := ""
		ca, _ := caFor(k)
		if bytes.Equal(subject, ca.RawSubject) && !override {
			bad := false
			for _, ip := range ips {
				if n := len(to4(ip)); n != 4 && n != 16 {
					bad = true
				}
			}
			if !bad {
				v = "ParseCertificateRequest rejects the created request: " + err.Error()
			}
		}
		return zv.Out{Go: "created-but-rejected", Viol: v, Tags: append(tags, "csrm:created-but-rejected")}
	}
	var viol []string
	bad := func(format string, a ...any) { viol = append(viol, fmt.Sprintf(format, a...)) }
	if !bytes.Equal(c.RawSubject, subject) {
		bad("subject bytes differ")
	}
	var want []pkix.Extension
	if hasSAN && !override {
		want = append(want, pkix.Extension{Id: oidSAN})
		if fmt.Sprint(c.DNSNames) != fmt.Sprint(t.DNSNames) || fmt.Sprint(c.EmailAddresses) != fmt.Sprint(t.EmailAddresses) || len(c.IPAddresses) != len(ips) {
			bad("SANs %v %v %v != %v %v %v", c.DNSNames, c.EmailAddresses, c.IPAddresses, t.DNSNames, t.EmailAddresses, t.IPAddresses)
		} else {
			for i := range ips {
				if !bytes.Equal(c.IPAddresses[i], to4(ips[i])) {
					bad("SAN IP %d", i)
				}
			}
		}
	}
	want = append(want, extras...)
	if len(c.Extensions) != len(want) {
		bad("extension count %d != %d", len(c.Extensions), len(want))
	} else {
		for i, e := range want {
			g := c.Extensions[i]
			// the Critical flag is NOT compared here: finding D34 (see the `c05 csr … crit` lines), the model says `false`
			if !g.Id.Equal(e.Id) || (e.Value != nil || i > 0 || !hasSAN || override) && !bytes.Equal(g.Value, e.Value) {
				bad("extension %d: got {%v %x}, supplied {%v %x}", i, g.Id, g.Value, e.Id, e.Value)
			}
		}
	}
	if !isPSS(t.SignatureAlgorithm) || true {
		if err := c.CheckSignature(); err != nil {
			bad("CSR does not verify under its own key: %v", err)
		}
	}
	c.Signature = nil // the model signs with a placeholder
	return zv.Out{Go: "ok tbs=" + zv.Hex(c.RawTBSCertificateRequest) + " " + showCSR(c), Viol: strings.Join(viol, "; "), Tags: append(tags, "csrm:ok")}
}

func execCSRP(f []string) zv.Out {
	c, err := x509.ParseCertificateRequest(zv.UnHex(f[2]))
	if err != nil {
		return zv.Out{Go: "err", Tags: []string{"csrp", "csrp:err"}}
	}
	return zv.Out{Go: "ok " + showCSR(c), Tags: []string{"csrp", "csrp:ok", fmt.Sprintf("csrp:exts=%d", len(c.Extensions))}}
}

// schema of a Go type as the model writes it: a leading asn1.RawContent field is not part of the encoding
func schemaNoRaw(t reflect.Type) *c18.Sch {
	switch t.Kind() {
	case reflect.Interface:
		return &c18.Sch{Kind: "raw"}
	case reflect.Slice:
		if t.Elem().Kind() != reflect.Uint8 && t != reflect.TypeOf(asn1.ObjectIdentifier(nil)) {
			k := "L"
			if strings.HasSuffix(t.Name(), "SET") {
				k = "LS"
			}
			return &c18.Sch{Kind: k, Elem: schemaNoRaw(t.Elem())}
		}
	case reflect.Struct:
		if t != reflect.TypeOf(asn1.BitString{}) && t != reflect.TypeOf(asn1.RawValue{}) && t.String() != "time.Time" {
			s := &c18.Sch{Kind: "S"}
			for i := 0; i < t.NumField(); i++ {
				fl := t.Field(i)
				if i == 0 && fl.Type == reflect.TypeOf(asn1.RawContent(nil)) {
					continue
				}
				s.Fields = append(s.Fields, c18.Fld{Tag: fl.Tag.Get("asn1"), S: schemaNoRaw(fl.Type)})
			}
			return s
		}
	}
	return c18.SchemaOf(t)
}

func csrTypes() map[string]reflect.Type {
	m := x509.ZVC05Types()
	m["extensions"] = reflect.TypeOf([]pkix.Extension(nil))
	m["RDNSequence"] = reflect.TypeOf(pkix.RDNSequence(nil))
	m["AlgorithmIdentifier"] = reflect.TypeOf(pkix.AlgorithmIdentifier{})
	m["CertificateList"] = reflect.TypeOf(pkix.CertificateList{})
	return m
}

func execXSch(f []string) zv.Out {
	t, ok := csrTypes()[f[2]]
	if !ok {
		return zv.Out{Go: "bad-op", Viol: "unknown type"}
	}
	if schemaNoRaw(t).String() != f[3] {
		return zv.Out{Go: "differ-go", Viol: "schema on the case line is not the schema reflected from the Go type " + f[2]}
	}
	return zv.Out{Go: "match", Tags: []string{"xsch"}}
}

// ---- generators ----

func randNames(r *zv.Rng, max int, f func() []byte) [][]byte {
	var o [][]byte
	for i := r.Intn(max + 1); i > 0; i-- {
		o = append(o, f())
	}
	return o
}

type csrCase struct {
	k               *x509rig.Key
	alg             int
	subject         []byte
	dns, email, ips [][]byte
	extras          []pkix.Extension
}

func (c *csrCase) line(seed uint64) string {
	spki, ai := csrPartsFor(c.k, c.alg)
	return fmt.Sprintf("c05 csrm %d %s %d %s %s %s %s %s %s %s", seed, c.k.Name, c.alg, zv.Hex(ai), zv.Hex(spki), zv.Hex(c.subject),
		hexList(c.dns), hexList(c.email), hexList(c.ips), extsField(c.extras))
}

func sanValue(r *zv.Rng) []byte {
	T := x509rig.TLV
	switch r.Intn(8) {
	case 0:
		return T(0x30, nil)
	case 1:
		return T(0x30, x509rig.Cat(T(0x82, []byte("x.example")), T(0x86, []byte("http://u/")), T(0x87, []byte{1, 2, 3, 4})))
	case 2:
		return T(0x30, T(0x87, []byte{1, 2, 3}))
	case 3:
		return T(0x31, T(0x82, []byte("set")))
	case 4:
		return x509rig.Cat(T(0x30, T(0x82, []byte("trail"))), []byte{0})
	case 5:
		return T(0x30, x509rig.Cat(T(0x02, []byte("universal-2")), T(0x41, []byte("app-1")), T(0xa7, []byte{1, 2, 3, 4}), T(0x88, []byte{0x2a, 3})))
	case 6:
		return r.Bytes(r.Intn(5))
	default:
		return T(0x30, x509rig.Cat(T(0x81, []byte("a@b")), T(0x82, nil), T(0x87, r.Bytes(16))))
	}
}

func randCSRCase(r *zv.Rng, k *x509rig.Key, alg int) *csrCase {
	ca, _ := caFor(k)
	c := &csrCase{k: k, alg: alg, subject: ca.RawSubject}
	if r.Chance(60) {
		c.dns = randNames(r, 3, func() []byte {
			return []byte([]string{"a.example", "*.b.test", "", "xn--e1afmkfd.example", "UPPER.example"}[r.Intn(5)])
		})
		c.email = randNames(r, 2, func() []byte { return []byte([]string{"a@b.example", "x", "ü@non-ascii"}[r.Intn(3)]) })
		c.ips = randNames(r, 2, func() []byte {
			switch r.Intn(8) {
			case 0:
				return append([]byte{0, 0, 0, 0, 0, 0, 0, 0, 0, 0, 0xff, 0xff}, r.Bytes(4)...)
			case 1:
				return r.Bytes(16)
			case 2:
				return r.Bytes(r.Intn(20)) // not an IP length: parse-back refuses
			default:
				return r.Bytes(4)
			}
		})
	}
	for i := r.Intn(4); i > 0 && r.Chance(70); i-- {
		x := randExt(r)
		c.extras = append(c.extras, x)
	}
	if r.Chance(15) {
		x := pkix.Extension{Id: oidSAN, Critical: r.Bool(), Value: sanValue(r)}
		pos := r.Intn(len(c.extras) + 1)
		c.extras = append(c.extras[:pos], append([]pkix.Extension{x}, c.extras[pos:]...)...)
		if r.Chance(30) {
			c.extras = append(c.extras, pkix.Extension{Id: oidSAN, Value: sanValue(r)})
		}
	}
	switch r.Intn(12) {
	case 0, 1:
		n := oddNames(r)
		c.subject = n[r.Intn(len(n))]
	case 2:
		nm := x509rig.RandName(r)
		if b, err := asn1.Marshal(nm.ToRDNSequence()); err == nil {
			c.subject = b
		}
	}
	return c
}

func handMadeCSR(r *zv.Rng) []byte {
	T := x509rig.TLV
	k := x509rig.KeyByName("ed25519")
	ca, _ := caFor(k)
	spki, ai := csrPartsFor(k, 0)
	ext := func(oid []byte, crit []byte, val []byte) []byte {
		return T(0x30, x509rig.Cat(T(0x06, oid), crit, T(0x04, val)))
	}
	extReq := []byte{0x2a, 0x86, 0x48, 0x86, 0xf7, 0x0d, 0x01, 0x09, 0x0e}
	attr := func(oid []byte, vals ...[]byte) []byte {
		return T(0x30, x509rig.Cat(T(0x06, oid), T(0x31, x509rig.Cat(vals...))))
	}
	san := func() []byte { return ext([]byte{0x55, 0x1d, 0x11}, nil, sanValue(r)) }
	bools := [][]byte{nil, {0x01, 0x01, 0xff}, {0x01, 0x01, 0x00}, {0x01, 0x01, 0x01}, {0x01, 0x00}}
	other := func() []byte {
		return ext([]byte{0x2b, 0x06, byte(r.Intn(100))}, bools[r.Intn(len(bools))], r.Bytes(r.Intn(4)))
	}
	attrsChoices := [][]byte{
		nil,
		attr(extReq, T(0x30, x509rig.Cat(other(), san(), other()))),
		attr(extReq, T(0x30, nil)),
		attr(extReq),
		attr(extReq, T(0x30, other()), T(0x30, x509rig.Cat(other(), other()))),
		x509rig.Cat(attr(extReq, T(0x30, other())), attr(extReq, T(0x30, x509rig.Cat(san(), san())))),
		x509rig.Cat(attr([]byte{0x2a, 0x86, 0x48, 0x86, 0xf7, 0x0d, 0x01, 0x09, 0x07}, T(0x13, []byte("challenge"))), attr(extReq, T(0x30, other()))),
		attr(extReq, T(0x31, other())),
		attr(extReq, T(0x30, T(0x30, T(0x06, []byte{0x2b, 0x06})))),
		attr(extReq, T(0x30, T(0x30, x509rig.Cat(T(0x06, []byte{0x2b, 0x06}), T(0x04, nil), []byte{0x05, 0x00})))),
		x509rig.Cat(T(0x30, x509rig.Cat(T(0x06, extReq), T(0x31, T(0x30, other())), []byte{0x05, 0x00})), attr(extReq, T(0x30, other()))),
		T(0x30, x509rig.Cat(T(0x06, extReq), T(0x30, T(0x30, other())))),
		x509rig.Cat(T(0x04, []byte("not an attribute")), attr(extReq, T(0x30, other()))),
		x509rig.Cat(attr(extReq, T(0x30, other())), []byte{0x30}),
		attr(extReq, x509rig.Cat(T(0x30, other()), []byte{0xff})),
		attr([]byte{0x80, 0x01}, T(0x30, other())),
		attr(extReq, T(0x30, x509rig.Cat(other(), []byte{0x30, 0x81}))),
	}
	version, subject, attrs, oai, sig := []byte{2, 1, 0}, ca.RawSubject, T(0xa0, attrsChoices[r.Intn(len(attrsChoices))]), ai, T(0x03, append([]byte{0}, r.Bytes(6)...))
	var tbsTail, outerTail, after []byte
	for n := r.Intn(2); n > 0; n-- {
		switch r.Intn(14) {
		case 0:
			version = [][]byte{nil, {2, 1, 1}, {2, 1, 0xff}, {2, 2, 0, 1}, {2, 8, 0x7f, 1, 1, 1, 1, 1, 1, 1}, {2, 9, 1, 0, 0, 0, 0, 0, 0, 0, 0}, {0x0a, 1, 0}, {2, 0}}[r.Intn(8)]
		case 1, 2:
			nn := oddNames(r)
			subject = nn[r.Intn(len(nn))]
		case 3:
			subject = [][]byte{nil, T(0x31, nil), T(0x04, []byte("x")), {0x30, 0x80}, T(0x30, T(0x31, T(0x30, x509rig.Cat(T(0x06, []byte{0x55, 4, 3}), T(0x17, []byte("notatime")))))),
				T(0x30, T(0x31, T(0x30, x509rig.Cat(T(0x06, []byte{0x55, 4, 3}), T(0x02, []byte{0, 1}))))), T(0x30, T(0x31, T(0x30, x509rig.Cat(T(0x06, []byte{0x55, 4, 3}), T(0x30, nil)))))}[r.Intn(7)]
		case 4:
			attrs = [][]byte{nil, T(0xa0, nil), T(0x80, nil), T(0xa1, nil), T(0x30, nil), {0xa0, 0x81, 0x00}}[r.Intn(6)]
		case 5:
			oai = [][]byte{T(0x30, nil), T(0x30, T(0x06, []byte{0x2b, 0x65, 0x70})), T(0x30, x509rig.Cat(T(0x06, []byte{0x2b, 0x65, 0x70}), T(0x05, nil), T(0x05, nil))), T(0x31, T(0x06, []byte{0x2b}))}[r.Intn(4)]
		case 6:
			sig = [][]byte{T(0x03, nil), T(0x03, []byte{0}), T(0x03, []byte{3, 0xa8}), T(0x03, []byte{3, 0xa4}), T(0x03, []byte{8, 0}), T(0x04, []byte{0}), T(0x03, []byte{4, 0x12, 0x30})}[r.Intn(7)]
		case 7:
			tbsTail = []byte{5, 0}
		case 8:
			outerTail = []byte{5, 0}
		case 9:
			after = []byte{0}
		}
	}
	tbs := T(0x30, x509rig.Cat(version, subject, spki, attrs, tbsTail))
	der := x509rig.Cat(T(0x30, x509rig.Cat(tbs, oai, sig, outerTail)), after)
	if r.Chance(5) {
		der = der[:r.Intn(len(der))]
	}
	return der
}

func genCSRM(g *zv.Gen) {
	r := g.Rng
	for name, t := range csrTypes() {
		if sc := schemaNoRaw(t).String(); !strings.Contains(sc, ";time") { // the CRL types have time leaves: outside the schema language of ZV.Model.C18
			g.Emitf("c05 xsch %s %s", name, sc)
		}
	}
	keys := x509rig.Keys()
	fast := []*x509rig.Key{x509rig.KeyByName("ed25519"), x509rig.KeyByName("p256")}
	ed := fast[0]
	ca, _ := caFor(ed)
	// the named shapes: nothing, SAN-only, extras-only, both, extras overriding the SANs, empty-string names
	crit := pkix.Extension{Id: asn1.ObjectIdentifier{1, 3, 9999, 1}, Critical: true, Value: []byte{1}}
	plain := pkix.Extension{Id: asn1.ObjectIdentifier{1, 3, 9999, 2}, Value: nil}
	ovr := pkix.Extension{Id: oidSAN, Value: x509rig.TLV(0x30, x509rig.TLV(0x82, []byte("override.example")))}
	dns1, ip1 := [][]byte{[]byte("a.example")}, [][]byte{{10, 0, 0, 1}}
	for _, c := range []*csrCase{
		{}, {dns: dns1}, {email: [][]byte{[]byte("a@b")}}, {ips: ip1}, {dns: dns1, ips: ip1, email: [][]byte{[]byte("a@b"), {}}},
		{extras: []pkix.Extension{crit}}, {extras: []pkix.Extension{plain, crit}}, {dns: dns1, extras: []pkix.Extension{crit}},
		{dns: dns1, extras: []pkix.Extension{ovr}}, {dns: dns1, extras: []pkix.Extension{crit, ovr, plain}}, {extras: []pkix.Extension{ovr}},
		{dns: [][]byte{{}}}, {ips: [][]byte{{1, 2, 3}}},
	} {
		c.k, c.subject = ed, ca.RawSubject
		g.Emit(c.line(r.U64() >> 1))
	}
	for _, k := range keys {
		for _, a := range x509rig.SigAlgsFor(k.Kind) {
			if k.Name == "rsa1024" && a == x509.SHA512WithRSAPSS {
				continue
			}
			g.Emit(randCSRCase(r, k, int(a)).line(r.U64() >> 1))
		}
	}
	for i := g.N(500, 20000); i > 0; i-- {
		k := fast[r.Intn(2)]
		algs := x509rig.SigAlgsFor(k.Kind)
		g.Emit(randCSRCase(r, k, int(algs[r.Intn(len(algs))])).line(r.U64() >> 1))
	}
	for i := g.N(700, 20000); i > 0; i-- {
		g.Emitf("c05 csrp %s", zv.Hex(handMadeCSR(r)))
	}
	g.Emit("c05 csrp -")
}
