// Package c21: cryptobyte builders and readers are exact inverses.
//
// Case lines: `c21 rw <prog> <tailhex>`. <prog> is a comma separated token list (`-` = empty):
//
//	u8:N u16:N u24:N u32:N      AddUintN            <-> ReadUintN
//	b:HEX                       AddBytes            <-> ReadBytes(len)
//	p1[ … ]  p2[ … ]  p3[ … ]   AddUintNLengthPrefixed <-> ReadUintNLengthPrefixed (body read from the child, child must end Empty)
//	p4[ … ]                     AddUint32LengthPrefixed <-> ReadUint32 + ReadBytes (String has no ReadUint32LengthPrefixed)
//	aTAG[ … ]                   AddASN1(tag)        <-> ReadASN1(&child, tag)
//	i:V itTAG:V e:V u:V n:V     AddASN1Int64 / …WithTag / Enum / Uint64 / BigInt <-> ReadASN1Integer / ReadASN1Int64WithTag / ReadASN1Enum
//	t f                         AddASN1Boolean      <-> ReadASN1Boolean
//	o:1.2.3  s:HEX  bs:HEX  z   OID / OCTET STRING / BIT STRING / NULL
//	g:SECS  g:SECS@OFF          AddASN1GeneralizedTime(time.Unix(SECS,0) in UTC / in FixedZone(OFF)) <-> ReadASN1GeneralizedTime
//	                            (value read back: SECS, or SECS@OFF for a non-zero zone offset; model lean/ZV/Model/Time.lean)
//	oaTAG[ … ] / naTAG          element present / absent   <-> ReadOptionalASN1
//	oiTAG:V:D / niTAG:D         [tag]{INTEGER V} / nothing  <-> ReadOptionalASN1Integer(default D)
//	osTAG:HEX / nsTAG           [tag]{OCTET STRING} / nothing <-> ReadOptionalASN1OctetString
//	ob:V:D / nb:D               BOOLEAN / nothing            <-> ReadOptionalASN1Boolean(default D)
//	sk:HEX  cp:HEX              AddBytes            <-> Skip(len) / CopyBytes(out[:len])      (value `~` / HEX)
//	elTAG:HEX anTAG:HEX aeTAG:HEX  AddASN1(tag){AddBytes} <-> ReadASN1Element / ReadAnyASN1 / ReadAnyASN1Element
//	                            (values: element hex / `tag#body` / `tag#element`)
//	ksTAG:HEX koTAG:HEX knTAG   element / element / nothing <-> SkipASN1 / SkipOptionalASN1 (`~` / `+` / `-`)
//	bb:HEX                      AddASN1BitString    <-> ReadASN1BitStringAsBytes
//	se                          SetError(non-nil error): nothing is read
//	v[ … ]  vf[ … ]             AddValue(v) where v.Marshal makes the calls of the body on the Builder it is given and
//	                            returns nil / an error; read back inline
//
// `c21 bw <prog>`: builder-only programs (no mirrored reader): b:HEX (AddBytes), uw:N (Unwrite), se (SetError),
// p1[ … ] … p4[ … ], aTAG[ … ]; output `panic` | `builderr` | <bytes>. T3 = an independent block-accumulating
// reference (Unwrite drops the last N bytes of the current block, panics when the block holds fewer).
//
// Output: `builderr` | `<bytes> readfail` | `<bytes> ok <v;v;…> <unread rest>`.
package c21

import (
	"bytes"
	"fmt"
	"math/big"
	"strconv"
	"strings"
	"time"

	"github.com/zmap/zcrypto/cryptobyte"
	cbasn1 "github.com/zmap/zcrypto/cryptobyte/asn1"
	"github.com/zmap/zcrypto/encoding/asn1"

	"zv/internal/zv"
)

type op struct {
	kind string // token head
	tag  int
	a, b string // arguments
	body []op
}

func hx(b []byte) string { return zv.Hex(b) }

func splitHead(tok string) (string, int, []string) {
	open := strings.HasSuffix(tok, "[")
	tok = strings.TrimSuffix(tok, "[")
	parts := strings.Split(tok, ":")
	head := parts[0]
	i := 0
	for i < len(head) && (head[i] < '0' || head[i] > '9') {
		i++
	}
	tag := -1
	if i < len(head) && !(head[:i] == "u" || head[:i] == "p") {
		tag, _ = strconv.Atoi(head[i:])
		head = head[:i]
	}
	if open {
		head += "["
	}
	return head, tag, parts[1:]
}

func parseSeq(toks []string) ([]op, []string) {
	var out []op
	for len(toks) > 0 {
		t := toks[0]
		toks = toks[1:]
		if t == "]" {
			return out, toks
		}
		head, tag, args := splitHead(t)
		o := op{kind: head, tag: tag}
		if len(args) > 0 {
			o.a = args[0]
		}
		if len(args) > 1 {
			o.b = args[1]
		}
		if strings.HasSuffix(head, "[") {
			o.body, toks = parseSeq(toks)
		}
		out = append(out, o)
	}
	return out, nil
}

func atoi64(s string) int64   { v, _ := strconv.ParseInt(s, 10, 64); return v }
func atou64(s string) uint64  { v, _ := strconv.ParseUint(s, 10, 64); return v }
func bigOf(s string) *big.Int { v, _ := new(big.Int).SetString(s, 10); return v }
func oidOf(s string) asn1.ObjectIdentifier {
	if s == "" {
		return nil
	}
	var o asn1.ObjectIdentifier
	for _, p := range strings.Split(s, ".") {
		v, _ := strconv.Atoi(p)
		o = append(o, v)
	}
	return o
}
func oidStr(o []int) string {
	ss := make([]string, len(o))
	for i, v := range o {
		ss[i] = strconv.Itoa(v)
	}
	return strings.Join(ss, ".")
}
func tf(b bool) string {
	if b {
		return "t"
	}
	return "f"
}

// write side; also collects the values that were written (the T3 expectation).
func write(b *cryptobyte.Builder, prog []op, exp *[]string) {
	for _, o := range prog {
		o := o
		switch o.kind {
		case "u8":
			b.AddUint8(uint8(atou64(o.a)))
			*exp = append(*exp, o.a)
		case "u16":
			b.AddUint16(uint16(atou64(o.a)))
			*exp = append(*exp, o.a)
		case "u24":
			b.AddUint24(uint32(atou64(o.a)))
			*exp = append(*exp, o.a)
		case "u32":
			b.AddUint32(uint32(atou64(o.a)))
			*exp = append(*exp, o.a)
		case "b":
			b.AddBytes(zv.UnHex(o.a))
			*exp = append(*exp, o.a)
		case "p1[":
			b.AddUint8LengthPrefixed(func(c *cryptobyte.Builder) { write(c, o.body, exp) })
		case "p2[":
			b.AddUint16LengthPrefixed(func(c *cryptobyte.Builder) { write(c, o.body, exp) })
		case "p3[":
			b.AddUint24LengthPrefixed(func(c *cryptobyte.Builder) { write(c, o.body, exp) })
		case "p4[":
			b.AddUint32LengthPrefixed(func(c *cryptobyte.Builder) { write(c, o.body, exp) })
		case "a[":
			b.AddASN1(cbasn1.Tag(o.tag), func(c *cryptobyte.Builder) { write(c, o.body, exp) })
		case "oa[":
			*exp = append(*exp, "+")
			b.AddASN1(cbasn1.Tag(o.tag), func(c *cryptobyte.Builder) { write(c, o.body, exp) })
		case "na":
			*exp = append(*exp, "-")
		case "i":
			b.AddASN1Int64(atoi64(o.a))
			*exp = append(*exp, o.a)
		case "it":
			b.AddASN1Int64WithTag(atoi64(o.a), cbasn1.Tag(o.tag))
			*exp = append(*exp, o.a)
		case "e":
			b.AddASN1Enum(atoi64(o.a))
			*exp = append(*exp, o.a)
		case "u":
			b.AddASN1Uint64(atou64(o.a))
			*exp = append(*exp, o.a)
		case "n":
			b.AddASN1BigInt(bigOf(o.a))
			*exp = append(*exp, o.a)
		case "t", "f":
			b.AddASN1Boolean(o.kind == "t")
			*exp = append(*exp, o.kind)
		case "o":
			b.AddASN1ObjectIdentifier(oidOf(o.a))
			*exp = append(*exp, o.a)
		case "s":
			b.AddASN1OctetString(zv.UnHex(o.a))
			*exp = append(*exp, o.a)
		case "bs":
			d := zv.UnHex(o.a)
			b.AddASN1BitString(d)
			*exp = append(*exp, fmt.Sprintf("%d/%s", 8*len(d), o.a))
		case "z":
			b.AddASN1NULL()
			*exp = append(*exp, "z")
		case "g":
			b.AddASN1GeneralizedTime(gtimeOf(o.a))
			*exp = append(*exp, gtimeStr(gtimeOf(o.a)))
		case "oi":
			b.AddASN1(cbasn1.Tag(o.tag), func(c *cryptobyte.Builder) { c.AddASN1Int64(atoi64(o.a)) })
			*exp = append(*exp, o.a)
		case "ni":
			*exp = append(*exp, o.a)
		case "os":
			b.AddASN1(cbasn1.Tag(o.tag), func(c *cryptobyte.Builder) { c.AddASN1OctetString(zv.UnHex(o.a)) })
			*exp = append(*exp, "+"+o.a)
		case "ns":
			*exp = append(*exp, "-")
		case "ob":
			b.AddASN1Boolean(o.a == "t")
			*exp = append(*exp, o.a)
		case "nb":
			*exp = append(*exp, o.a)
		case "sk":
			b.AddBytes(zv.UnHex(o.a))
			*exp = append(*exp, "~")
		case "cp":
			b.AddBytes(zv.UnHex(o.a))
			*exp = append(*exp, hx(zv.UnHex(o.a)))
		case "el", "an", "ae", "ks", "ko":
			body := zv.UnHex(o.a)
			b.AddASN1(cbasn1.Tag(o.tag), func(c *cryptobyte.Builder) { c.AddBytes(body) })
			switch o.kind {
			case "el":
				*exp = append(*exp, hx(refElement(o.tag, body)))
			case "an":
				*exp = append(*exp, fmt.Sprintf("%d#%s", o.tag, hx(body)))
			case "ae":
				*exp = append(*exp, fmt.Sprintf("%d#%s", o.tag, hx(refElement(o.tag, body))))
			case "ks":
				*exp = append(*exp, "~")
			case "ko":
				*exp = append(*exp, "+")
			}
		case "kn":
			*exp = append(*exp, "-")
		case "bb":
			b.AddASN1BitString(zv.UnHex(o.a))
			*exp = append(*exp, hx(zv.UnHex(o.a)))
		case "se":
			b.SetError(errSet)
		case "v[", "vf[":
			b.AddValue(marshaler{body: o.body, exp: exp, fail: o.kind == "vf["})
		default:
			panic("bad op " + o.kind)
		}
	}
}

var errSet = fmt.Errorf("c21: SetError")
var errMarshal = fmt.Errorf("c21: Marshal failed")

// marshaler is the MarshalingValue of the `v[`/`vf[` ops: its Marshal makes the calls of body on the Builder it is given.
type marshaler struct {
	body []op
	exp  *[]string
	fail bool
}

func (m marshaler) Marshal(b *cryptobyte.Builder) error {
	write(b, m.body, m.exp)
	if m.fail {
		return errMarshal
	}
	return nil
}

// refElement: independent reference for tag + minimal DER length + body (T3 expectation of ReadASN1Element / ReadAnyASN1Element).
func refElement(tag int, body []byte) []byte {
	out := []byte{byte(tag)}
	n := len(body)
	switch {
	case n < 0x80:
		out = append(out, byte(n))
	case n <= 0xff:
		out = append(out, 0x81, byte(n))
	case n <= 0xffff:
		out = append(out, 0x82, byte(n>>8), byte(n))
	case n <= 0xffffff:
		out = append(out, 0x83, byte(n>>16), byte(n>>8), byte(n))
	default:
		out = append(out, 0x84, byte(n>>24), byte(n>>16), byte(n>>8), byte(n))
	}
	return append(out, body...)
}

// Read modes. Every program is read back once per mode and all modes must report the same values and
// remainder: an out-parameter that a reader leaves unwritten (or only partly written) keeps whatever the
// caller had in it, which a fresh zero variable hides.
//
//	mZero    every out-parameter is a fresh zero value (flags false, ints 0, slices/Strings nil)
//	mPoison  every out-parameter is pre-set to a non-default value (flags true, ints 0xa5.., slices and
//	         Strings non-nil and non-empty, big.Int / OID / BitString / time non-zero)
//	mShared  one variable per type is reused for the whole program (the hand-written-parser idiom
//	         `var present bool` shared by consecutive optional fields); optional INTEGERs go to a *big.Int
//	mNilFlag outPresent == nil where the API allows it (presence inferred from the consumed length),
//	         all other out-parameters poisoned with the complementary pattern
const (
	mZero = iota
	mPoison
	mShared
	mNilFlag
	nModes
)

var modeName = [nModes]string{"zero-initialised", "poisoned", "shared-variables", "nil-outPresent"}

type rd struct {
	vals      []string
	ambiguous bool // an absent optional element was followed by a byte equal to its tag
	mode      int
	// mShared state
	sb   bool
	si   int64
	sy   []byte
	sc   cryptobyte.String
	sbig *big.Int
}

func (r *rd) absent(s *cryptobyte.String, tag int) {
	if len(*s) > 0 && int((*s)[0]) == tag {
		r.ambiguous = true
	}
}

var poisonBytes = []byte{0xde, 0xad, 0xbe, 0xef, 0x30, 0x03, 0x01, 0x01, 0xff}

// out-parameter factories: the returned pointer is what the reader gets.
func (r *rd) pBool() *bool {
	switch r.mode {
	case mShared:
		return &r.sb
	case mPoison:
		v := true
		return &v
	}
	return new(bool)
}

// flag for a boolean VALUE (ReadASN1Boolean / ReadOptionalASN1Boolean): in mNilFlag the complement of mPoison
func (r *rd) pBoolVal(want bool) *bool {
	switch r.mode {
	case mShared:
		return &r.sb
	case mPoison:
		v := !want // the reader must overwrite the opposite value
		return &v
	case mNilFlag:
		v := true
		return &v
	}
	return new(bool)
}

func (r *rd) pI64() *int64 {
	switch r.mode {
	case mShared:
		return &r.si
	case mPoison:
		v := int64(-0x5a5a5a5a5a5a5a5b)
		return &v
	case mNilFlag:
		v := int64(0x0102030405060708)
		return &v
	}
	return new(int64)
}

func (r *rd) pBytes() *[]byte {
	switch r.mode {
	case mShared:
		return &r.sy
	case mPoison:
		v := append([]byte(nil), poisonBytes...)
		return &v
	case mNilFlag:
		v := []byte{}
		return &v
	}
	return new([]byte)
}

func (r *rd) pStr() *cryptobyte.String {
	switch r.mode {
	case mShared:
		return &r.sc
	case mPoison:
		v := cryptobyte.String(append([]byte(nil), poisonBytes...))
		return &v
	case mNilFlag:
		v := cryptobyte.String([]byte{0x01, 0x01, 0xff, 0x02, 0x01, 0x05})
		return &v
	}
	return new(cryptobyte.String)
}

func (r *rd) poisoned() bool { return r.mode != mZero }

func (r *rd) read(s *cryptobyte.String, prog []op) bool {
	for _, o := range prog {
		switch o.kind {
		case "u8":
			var v uint8
			if r.poisoned() {
				v = 0xa5
			}
			if !s.ReadUint8(&v) {
				return false
			}
			r.vals = append(r.vals, strconv.Itoa(int(v)))
		case "u16":
			var v uint16
			if r.poisoned() {
				v = 0xa5a5
			}
			if !s.ReadUint16(&v) {
				return false
			}
			r.vals = append(r.vals, strconv.Itoa(int(v)))
		case "u24":
			var v uint32
			if r.poisoned() {
				v = 0xa5a5a5a5 // the top byte must be cleared by ReadUint24
			}
			if !s.ReadUint24(&v) {
				return false
			}
			r.vals = append(r.vals, strconv.FormatUint(uint64(v), 10))
		case "u32":
			var v uint32
			if r.poisoned() {
				v = 0xa5a5a5a5
			}
			if !s.ReadUint32(&v) {
				return false
			}
			r.vals = append(r.vals, strconv.FormatUint(uint64(v), 10))
		case "b":
			v := r.pBytes()
			if !s.ReadBytes(v, len(zv.UnHex(o.a))) {
				return false
			}
			r.vals = append(r.vals, hx(*v))
		case "p1[", "p2[", "p3[", "p4[":
			c := r.pStr()
			ok := false
			switch o.kind {
			case "p4[":
				var n uint32
				if r.poisoned() {
					n = 0xa5a5a5a5
				}
				body := r.pBytes()
				ok = s.ReadUint32(&n) && s.ReadBytes(body, int(n))
				if ok {
					*c = cryptobyte.String(*body)
				}
			case "p1[":
				ok = s.ReadUint8LengthPrefixed(c)
			case "p2[":
				ok = s.ReadUint16LengthPrefixed(c)
			case "p3[":
				ok = s.ReadUint24LengthPrefixed(c)
			}
			if !ok {
				return false
			}
			cc := *c // the shared variable may be reused inside the body
			if !r.read(&cc, o.body) || !cc.Empty() {
				return false
			}
		case "a[":
			c := r.pStr()
			if !s.ReadASN1(c, cbasn1.Tag(o.tag)) {
				return false
			}
			cc := *c
			if !r.read(&cc, o.body) || !cc.Empty() {
				return false
			}
		case "oa[", "na":
			if o.kind == "na" {
				r.absent(s, o.tag)
			}
			c := r.pStr()
			var present bool
			if r.mode == mNilFlag {
				before := len(*s)
				if !s.ReadOptionalASN1(c, nil, cbasn1.Tag(o.tag)) {
					return false
				}
				present = len(*s) != before // an element is at least two bytes long
			} else {
				pp := r.pBool()
				if !s.ReadOptionalASN1(c, pp, cbasn1.Tag(o.tag)) {
					return false
				}
				present = *pp
			}
			if present {
				r.vals = append(r.vals, "+")
				if o.kind == "na" { // only in the ambiguous situation
					continue
				}
				cc := *c
				if !r.read(&cc, o.body) || !cc.Empty() {
					return false
				}
			} else {
				r.vals = append(r.vals, "-")
			}
		case "i":
			v := r.pI64()
			if !s.ReadASN1Integer(v) {
				return false
			}
			r.vals = append(r.vals, strconv.FormatInt(*v, 10))
		case "it":
			v := r.pI64()
			if !s.ReadASN1Int64WithTag(v, cbasn1.Tag(o.tag)) {
				return false
			}
			r.vals = append(r.vals, strconv.FormatInt(*v, 10))
		case "e":
			var v int
			if r.poisoned() {
				v = -0x5a5a5a5a5a5a5a5b
			}
			if !s.ReadASN1Enum(&v) {
				return false
			}
			r.vals = append(r.vals, strconv.Itoa(v))
		case "u":
			var v uint64
			if r.poisoned() {
				v = 0xa5a5a5a5a5a5a5a5
			}
			if !s.ReadASN1Integer(&v) {
				return false
			}
			r.vals = append(r.vals, strconv.FormatUint(v, 10))
		case "n":
			v := new(big.Int)
			if r.mode == mShared {
				if r.sbig == nil {
					r.sbig = new(big.Int)
				}
				v = r.sbig
			} else if r.poisoned() {
				v.SetString("-123456789012345678901234567890123456789012345678901234567890", 10)
			}
			if !s.ReadASN1Integer(v) {
				return false
			}
			r.vals = append(r.vals, v.String())
		case "t", "f":
			v := r.pBoolVal(o.kind == "t")
			if !s.ReadASN1Boolean(v) {
				return false
			}
			r.vals = append(r.vals, tf(*v))
		case "o":
			var v asn1.ObjectIdentifier
			if r.poisoned() {
				v = asn1.ObjectIdentifier{2, 999, 7, 7, 7, 7, 7, 7, 7, 7, 7, 7}
			}
			if !s.ReadASN1ObjectIdentifier(&v) {
				return false
			}
			r.vals = append(r.vals, oidStr(v))
		case "s":
			v := r.pBytes()
			if !s.ReadASN1Bytes(v, cbasn1.OCTET_STRING) {
				return false
			}
			r.vals = append(r.vals, hx(*v))
		case "bs":
			var v asn1.BitString
			if r.poisoned() {
				v = asn1.BitString{Bytes: append([]byte(nil), poisonBytes...), BitLength: 67}
			}
			if !s.ReadASN1BitString(&v) {
				return false
			}
			r.vals = append(r.vals, fmt.Sprintf("%d/%s", v.BitLength, hx(v.Bytes)))
		case "z":
			if !s.SkipASN1(cbasn1.NULL) {
				return false
			}
			r.vals = append(r.vals, "z")
		case "g":
			var v time.Time
			if r.poisoned() {
				v = time.Date(1234, 5, 6, 7, 8, 9, 10, time.FixedZone("x", 3600))
			}
			if !s.ReadASN1GeneralizedTime(&v) {
				return false
			}
			r.vals = append(r.vals, gtimeStr(v))
		case "oi", "ni":
			d := o.b
			if o.kind == "ni" {
				d = o.a
				r.absent(s, o.tag)
			}
			if r.mode == mShared {
				// out and default are *big.Int (the other documented out type)
				if r.sbig == nil {
					r.sbig = new(big.Int)
				}
				def := big.NewInt(atoi64(d))
				if !s.ReadOptionalASN1Integer(r.sbig, cbasn1.Tag(o.tag), def) {
					return false
				}
				if def.Cmp(big.NewInt(atoi64(d))) != 0 {
					r.vals = append(r.vals, "!default-modified")
				}
				r.vals = append(r.vals, r.sbig.String())
				continue
			}
			v := r.pI64()
			if !s.ReadOptionalASN1Integer(v, cbasn1.Tag(o.tag), atoi64(d)) {
				return false
			}
			r.vals = append(r.vals, strconv.FormatInt(*v, 10))
		case "os", "ns":
			if o.kind == "ns" {
				r.absent(s, o.tag)
			}
			v := r.pBytes()
			var present bool
			if r.mode == mNilFlag {
				before := len(*s)
				if !s.ReadOptionalASN1OctetString(v, nil, cbasn1.Tag(o.tag)) {
					return false
				}
				present = len(*s) != before
			} else {
				pp := r.pBool()
				if !s.ReadOptionalASN1OctetString(v, pp, cbasn1.Tag(o.tag)) {
					return false
				}
				present = *pp
			}
			if present {
				r.vals = append(r.vals, "+"+hx(*v))
			} else if *v != nil {
				// documented: "If no element with a matching tag is present, it sets out to nil"
				r.vals = append(r.vals, "-!out="+hx(*v)+"(want-nil)")
			} else {
				r.vals = append(r.vals, "-")
			}
		case "ob", "nb":
			d := o.b
			want := o.a == "t"
			if o.kind == "nb" {
				d = o.a
				r.absent(s, int(cbasn1.BOOLEAN))
			}
			v := r.pBoolVal(want)
			if !s.ReadOptionalASN1Boolean(v, d == "t") {
				return false
			}
			r.vals = append(r.vals, tf(*v))
		case "sk":
			if !s.Skip(len(zv.UnHex(o.a))) {
				return false
			}
			r.vals = append(r.vals, "~")
		case "cp":
			out := make([]byte, len(zv.UnHex(o.a)))
			if r.poisoned() {
				for i := range out {
					out[i] = 0xa5
				}
			}
			if !s.CopyBytes(out) {
				return false
			}
			r.vals = append(r.vals, hx(out))
		case "el":
			c := r.pStr()
			if !s.ReadASN1Element(c, cbasn1.Tag(o.tag)) {
				return false
			}
			r.vals = append(r.vals, hx(*c))
		case "an", "ae":
			c := r.pStr()
			var t cbasn1.Tag
			if r.poisoned() {
				t = 0xa5
			}
			ok := false
			if o.kind == "an" {
				ok = s.ReadAnyASN1(c, &t)
			} else {
				ok = s.ReadAnyASN1Element(c, &t)
			}
			if !ok {
				return false
			}
			r.vals = append(r.vals, fmt.Sprintf("%d#%s", int(t), hx(*c)))
		case "ks":
			if !s.SkipASN1(cbasn1.Tag(o.tag)) {
				return false
			}
			r.vals = append(r.vals, "~")
		case "ko", "kn":
			if o.kind == "kn" {
				r.absent(s, o.tag)
			}
			before := len(*s)
			if !s.SkipOptionalASN1(cbasn1.Tag(o.tag)) {
				return false
			}
			if len(*s) != before { // an element is at least two bytes long
				r.vals = append(r.vals, "+")
			} else {
				r.vals = append(r.vals, "-")
			}
		case "bb":
			v := r.pBytes()
			if !s.ReadASN1BitStringAsBytes(v) {
				return false
			}
			r.vals = append(r.vals, hx(*v))
		case "se":
		case "v[", "vf[":
			if !r.read(s, o.body) {
				return false
			}
		default:
			panic("bad op " + o.kind)
		}
	}
	return true
}

// gtimeOf: `SECS` (UTC) or `SECS@OFF` (zone OFF seconds east of UTC).
func gtimeOf(a string) time.Time {
	if i := strings.IndexByte(a, '@'); i >= 0 {
		off, _ := strconv.Atoi(a[i+1:])
		t := time.Unix(atoi64(a[:i]), 0)
		if off == 0 {
			return t.UTC()
		}
		return t.In(time.FixedZone("", off))
	}
	return time.Unix(atoi64(a), 0).UTC()
}

func gtimeStr(t time.Time) string {
	if _, off := t.Zone(); off != 0 {
		return fmt.Sprintf("%d@%d", t.Unix(), off)
	}
	return strconv.FormatInt(t.Unix(), 10)
}

// subMinuteZone: the program writes a GeneralizedTime whose zone offset is not a whole number of minutes. The text form
// has no seconds in the zone: AddASN1GeneralizedTime (Time.Format) drops them, keeping the local clock reading, so the
// reader either rejects the writer's output (0 < |offset| < 60: "+0000" is not what "Z" re-serialises to) or returns
// an instant shifted by the dropped seconds. Outside the domain of the round-trip theorem (read_write_all: gtimeOK);
// reported as a finding, compared with the model (T2), not counted as a T3 violation.
func subMinuteZone(p []op) bool {
	for _, o := range p {
		if o.kind == "g" {
			// (a zone of 25 hours or more is written with an hour field that the reader's time.Parse refuses: also outside)
			if _, off := gtimeOf(o.a).Zone(); off%60 != 0 || off <= -90000 || off >= 90000 {
				return true
			}
		}
		if subMinuteZone(o.body) {
			return true
		}
	}
	return false
}

// bigArc: the program writes an OID with a sub-identifier >= 2^31 (an arc, or 80+arc2 under arc1 = 2).
func bigArc(p []op) bool {
	for _, o := range p {
		if o.kind == "o" {
			a := oidOf(o.a)
			for i, v := range a {
				if v >= 1<<31 || (i == 1 && a[0] == 2 && v+80 >= 1<<31) {
					return true
				}
			}
		}
		if bigArc(o.body) {
			return true
		}
	}
	return false
}

func depth(p []op) int {
	d := 0
	for _, o := range p {
		if x := depth(o.body) + 1; o.body != nil && x > d {
			d = x
		} else if strings.HasSuffix(o.kind, "[") && d < 1 {
			d = 1
		}
	}
	return d
}

func kinds(p []op, m map[string]bool) {
	for _, o := range p {
		m["op="+o.kind] = true
		kinds(o.body, m)
	}
}

func joinVals(v []string) string {
	if len(v) == 0 {
		return "-"
	}
	return strings.Join(v, ";")
}

// ---------- builder-only programs ----------

func writeB(b *cryptobyte.Builder, prog []op) {
	for _, o := range prog {
		o := o
		switch o.kind {
		case "b":
			b.AddBytes(zv.UnHex(o.a))
		case "uw":
			b.Unwrite(int(atoi64(o.a)))
		case "se":
			b.SetError(errSet)
		case "p1[":
			b.AddUint8LengthPrefixed(func(c *cryptobyte.Builder) { writeB(c, o.body) })
		case "p2[":
			b.AddUint16LengthPrefixed(func(c *cryptobyte.Builder) { writeB(c, o.body) })
		case "p3[":
			b.AddUint24LengthPrefixed(func(c *cryptobyte.Builder) { writeB(c, o.body) })
		case "p4[":
			b.AddUint32LengthPrefixed(func(c *cryptobyte.Builder) { writeB(c, o.body) })
		case "a[":
			b.AddASN1(cbasn1.Tag(o.tag), func(c *cryptobyte.Builder) { writeB(c, o.body) })
		default:
			panic("bad op " + o.kind)
		}
	}
}

// refB: reference semantics on plain slices. Returns the block content and "" | "err" | "panic". After an error every
// call is a no-op (it cannot panic any more); a panic ends everything.
func refB(prog []op, acc []byte, st *string) []byte {
	for _, o := range prog {
		if *st != "" {
			return acc
		}
		switch o.kind {
		case "b":
			acc = append(acc, zv.UnHex(o.a)...)
		case "uw":
			n := int(atoi64(o.a))
			if n > len(acc) {
				*st = "panic"
				return acc
			}
			acc = acc[:len(acc)-n]
		case "se":
			*st = "err"
		case "p1[", "p2[", "p3[", "p4[":
			w := int(o.kind[1] - '0')
			c := refB(o.body, nil, st)
			if *st != "" {
				return acc
			}
			if w < 8 && len(c) >= 1<<(8*uint(w)) {
				*st = "err"
				return acc
			}
			for i := w - 1; i >= 0; i-- {
				acc = append(acc, byte(len(c)>>(8*uint(i))))
			}
			acc = append(acc, c...)
		case "a[":
			if o.tag&0x1f == 0x1f {
				*st = "err"
				return acc
			}
			c := refB(o.body, nil, st)
			if *st != "" {
				return acc
			}
			acc = append(acc, refElement(o.tag, c)...)
		}
	}
	return acc
}

func execB(f []string) (out zv.Out) {
	var toks []string
	if f[2] != "-" {
		toks = strings.Split(f[2], ",")
	}
	prog, _ := parseSeq(toks)
	km := map[string]bool{}
	kinds(prog, km)
	tags := []string{"bw", fmt.Sprintf("depth=%d", depth(prog))}
	for k := range km {
		tags = append(tags, "bw:"+k)
	}
	st := ""
	want := hx(refB(prog, nil, &st))
	switch st {
	case "err":
		want = "builderr"
	case "panic":
		want = "panic"
	}
	got := func() (g string) {
		defer func() {
			if r := recover(); r != nil {
				g = "panic"
			}
		}()
		var b cryptobyte.Builder
		writeB(&b, prog)
		o, err := b.Bytes()
		if err != nil {
			return "builderr"
		}
		return hx(o)
	}()
	tags = append(tags, "bw:"+map[string]string{"": "ok", "err": "builderr", "panic": "panic"}[st])
	viol := ""
	if got != want {
		viol = fmt.Sprintf("Builder with Unwrite/SetError: got %s, the block reference gives %s", got, want)
	}
	return zv.Out{Go: got, Viol: viol, Tags: tags}
}

func genB(zg *zv.Gen) {
	r := zv.NewRng(zg.Seed*0x9e3779b97f4a7c15 + 0xb21)
	for _, l := range []string{"c21 bw - ", "c21 bw b:0102,uw:1", "c21 bw b:0102,uw:2", "c21 bw b:0102,uw:3", "c21 bw uw:0", "c21 bw uw:1",
		"c21 bw b:01,p1[,uw:1,]", "c21 bw b:01,p1[,b:02,uw:1,]", "c21 bw b:01,p1[,b:02,uw:2,]", "c21 bw b:01,a48[,b:02,uw:2,]", "c21 bw a48[,b:0203,uw:1,],uw:3",
		"c21 bw a48[,b:0203,],uw:5", "c21 bw p2[,b:02,],uw:3,b:07", "c21 bw se,uw:9", "c21 bw b:01,se,uw:1,b:02", "c21 bw p1[,se,uw:4,],uw:9",
		"c21 bw p1[,p1[,uw:1,],]", "c21 bw a31[,uw:1,]", "c21 bw p1[,b:01,p1[,b:02,],uw:2,]", "c21 bw p1[,b:01,p1[,b:02,],uw:3,]", "c21 bw p1[,b:01,p1[,b:02,],uw:4,]"} {
		zg.Emit(strings.TrimSpace(l))
	}
	// a block at the DER / prefix length boundaries shrunk back across them by Unwrite
	for _, l := range []int{0x7f, 0x80, 0x81, 0xff, 0x100, 0x101} {
		for _, u := range []int{0, 1, 2, l, l + 1} {
			for _, w := range []string{"p1[", "p2[", "a48["} {
				zg.Emitf("c21 bw b:aa,%s,b:%s,uw:%d,],b:bb", w, hx(r.Bytes(l)), u)
			}
		}
	}
	var seq func(n, depth int) []string
	seq = func(n, depth int) []string {
		var out []string
		for i := 0; i < n; i++ {
			switch k := r.Intn(10); {
			case k < 4:
				out = append(out, "b:"+hx(r.Bytes(r.Intn(4))))
			case k < 7:
				out = append(out, fmt.Sprintf("uw:%d", r.Intn(5)))
			case k == 7 && r.Chance(20):
				out = append(out, "se")
			case depth > 0:
				if r.Bool() {
					out = append(out, fmt.Sprintf("p%d[", 1+r.Intn(4)))
				} else {
					out = append(out, fmt.Sprintf("a%d[", []int{0x30, 0x04, 0xa0, 0x1f}[r.Intn(4)*r.Intn(2)*r.Intn(2)]))
				}
				out = append(out, seq(r.Intn(4), depth-1)...)
				out = append(out, "]")
			default:
				out = append(out, "b:"+hx(r.Bytes(1+r.Intn(3))))
			}
		}
		return out
	}
	for i, n := 0, zg.N(4000, 300000); i < n; i++ {
		zg.Emitf("c21 bw %s", strings.Join(seq(1+r.Intn(5), 1+r.Intn(3)), ","))
	}
}

func exec(line string) zv.Out {
	f := strings.Fields(line)
	if f[1] == "bw" {
		if len(f) < 3 {
			f = append(f, "-")
		}
		return execB(f)
	}
	var toks []string
	if f[2] != "-" {
		toks = strings.Split(f[2], ",")
	}
	prog, _ := parseSeq(toks)
	tail := zv.UnHex(f[3])
	km := map[string]bool{}
	kinds(prog, km)
	tags := []string{fmt.Sprintf("depth=%d", depth(prog))}
	for k := range km {
		tags = append(tags, k)
	}
	modelled := true // every op, GeneralizedTime included, is modelled

	var b cryptobyte.Builder
	var exp []string
	write(&b, prog, &exp)
	out, err := b.Bytes()
	if err != nil {
		tags = append(tags, "builderr")
		o := zv.Out{Go: "builderr", Tags: tags, Trivial: true}
		if !modelled {
			o.Go = ""
		}
		return o
	}
	switch l := len(out); {
	case l >= 0x10000:
		tags = append(tags, "len>=0x10000")
	case l >= 0x100:
		tags = append(tags, "len>=0x100")
	case l >= 0x80:
		tags = append(tags, "len>=0x80")
	}
	in := append(append(make([]byte, 0, len(out)+len(tail)), out...), tail...)
	// the program is read back once per mode (see mZero…); the poisoned run is the reported one
	runMode := func(mode int) (*rd, bool, []byte) {
		buf := append(make([]byte, 0, len(in)+1), in...) // non-nil even when empty, as before
		s := cryptobyte.String(buf)
		r := &rd{mode: mode, sb: true, si: -0x5a5a5a5a5a5a5a5b, sy: []byte{0xde, 0xad}, sc: cryptobyte.String([]byte{0x05, 0x00})}
		ok := r.read(&s, prog)
		if !bytes.Equal(buf, in) {
			r.vals = append(r.vals, "!input-modified")
		}
		return r, ok, []byte(s)
	}
	r, ok, s := runMode(mPoison)
	var goOut, viol string
	if !ok {
		goOut = hx(out) + " readfail"
		tags = append(tags, "readfail")
		viol = fmt.Sprintf("the Builder wrote %s for this program but the mirrored String readers fail on it", hx(out))
		if bigArc(prog) {
			viol += " [oid-subidentifier>=2^31: AddASN1ObjectIdentifier writes it, no reader accepts it]"
		}
	} else {
		goOut = fmt.Sprintf("%s ok %s %s", hx(out), joinVals(r.vals), hx(s))
		if joinVals(r.vals) != joinVals(exp) {
			viol = fmt.Sprintf("values read back differ from the values written: wrote %s, read %s (bytes %s; out-parameters pre-set to non-default values)", joinVals(exp), joinVals(r.vals), hx(out))
		} else if !bytes.Equal(s, tail) {
			viol = fmt.Sprintf("unread remainder is %s, expected the tail %s (bytes %s)", hx(s), hx(tail), hx(out))
		}
	}
	for _, m := range []int{mZero, mShared, mNilFlag} {
		r2, ok2, s2 := runMode(m)
		if viol != "" {
			break
		}
		switch {
		case ok2 != ok:
			viol = fmt.Sprintf("readers succeed=%v with %s out-parameters but succeed=%v with poisoned ones (bytes %s)", ok2, modeName[m], ok, hx(out))
		case ok && joinVals(r2.vals) != joinVals(r.vals):
			viol = fmt.Sprintf("results depend on the previous contents of the out-parameters: %s run read %s, poisoned run read %s (wrote %s, bytes %s)", modeName[m], joinVals(r2.vals), joinVals(r.vals), joinVals(exp), hx(out))
		case ok && !bytes.Equal(s2, s):
			viol = fmt.Sprintf("unread remainder differs between the %s run (%s) and the poisoned run (%s) (bytes %s)", modeName[m], hx(s2), hx(s), hx(out))
		}
	}
	trivial := false
	if km["op=g"] && subMinuteZone(prog) {
		if viol != "" {
			tags = append(tags, "gtime:sub-minute-zone-not-read-back(outside-domain)")
		}
		viol, trivial = "", true
		tags = append(tags, "gtime:zone-with-seconds-or->=25h")
	}
	if r.ambiguous {
		// an absent optional element followed by data that happens to carry the same tag: the reader rightly treats it as present
		viol, trivial = "", true
		tags = append(tags, "ambiguous-absent")
	}
	if !modelled {
		goOut = ""
	}
	return zv.Out{Go: goOut, Viol: viol, Tags: tags, Trivial: trivial}
}

// ---------- generator ----------

var i64s = []int64{0, 1, -1, 127, 128, -128, -129, 255, 256, -255, -256, 32767, 32768, -32768, -32769, 1 << 31, -(1 << 31), 1<<31 - 1, 1<<63 - 1, -1 << 63, 1 << 62, 0x7fffff, 0x800000, -0x800000, -0x800001}
var arcs = []int{0, 1, 39, 40, 127, 128, 16383, 16384, 1 << 21, 1<<21 - 1, 1<<28 - 1, 1 << 28, 1<<31 - 1, 840, 113549}
var lens = []int{0, 1, 2, 0x7e, 0x7f, 0x80, 0x81, 0xfe, 0xff, 0x100, 0x101}

type gen struct {
	r   *zv.Rng
	big int // number of >= 64 KiB strings still allowed
}

func (g *gen) blen() int {
	r := g.r
	switch {
	case r.Chance(55):
		return r.Intn(6)
	case r.Chance(80):
		return lens[r.Intn(len(lens))]
	case g.big > 0 && r.Chance(50):
		g.big--
		return []int{0xffff, 0x10000, 0xfffe, 0x10001, 0xfffd - 3}[r.Intn(5)]
	default:
		return r.Intn(600)
	}
}

func (g *gen) i64() int64 {
	r := g.r
	if r.Chance(70) {
		return i64s[r.Intn(len(i64s))] + int64(r.Intn(3)) - 1
	}
	return int64(r.U64()) >> uint(r.Intn(64))
}

func (g *gen) tag() int {
	r := g.r
	switch {
	case r.Chance(50):
		return 0xa0 + r.Intn(4)
	case r.Chance(50):
		return []int{0x30, 0x31, 0x04, 0x02, 0x01, 0x80, 0x81, 0x05}[r.Intn(8)]
	case r.Chance(8):
		return []int{0x1f, 0x3f, 0xbf, 0xff}[r.Intn(4)] // high-tag form: builder error
	default:
		return r.Intn(256)
	}
}

func (g *gen) oid() string {
	r := g.r
	n := 2 + r.Intn(5)
	o := []int{r.Intn(3), 0}
	if o[0] < 2 {
		o[1] = r.Intn(40)
	} else {
		o[1] = arcs[r.Intn(len(arcs))]
	}
	for i := 2; i < n; i++ {
		o = append(o, arcs[r.Intn(len(arcs))])
		if r.Chance(20) {
			o[i] = r.Intn(1 << 31)
		}
	}
	if r.Chance(2) {
		o[0] = 3 // invalid
	}
	if r.Chance(2) {
		o[1] = 40 // invalid under 0/1
	}
	if r.Chance(1) {
		o = o[:1]
	}
	if len(o) > 1 && o[0] == 2 && o[1] > 1<<31-81 && !r.Chance(3) {
		o[1] = 1<<31 - 81 // largest second arc under 2 that the readers accept
	}
	if r.Chance(1) && r.Chance(30) {
		o[len(o)-1] = 1 << 31 // accepted by the writer on 64-bit, rejected by every reader (finding)
	}
	return oidStr(o)
}

func (g *gen) big10() string {
	r := g.r
	n := new(big.Int).SetBytes(r.Bytes(r.Intn(41)))
	if r.Chance(40) {
		n = new(big.Int).Lsh(big.NewInt(1), uint(8*(1+r.Intn(20))-1))
		n.Add(n, big.NewInt(int64(r.Intn(3)-1)))
	}
	if r.Bool() {
		n.Neg(n)
	}
	return n.String()
}

func (g *gen) seq(n, depth int) []string {
	r := g.r
	var out []string
	for i := 0; i < n; i++ {
		k := r.Intn(36)
		if depth <= 0 && (k >= 22 && k <= 26 || k == 33) {
			k = r.Intn(22)
		}
		switch k {
		case 0:
			out = append(out, fmt.Sprintf("u8:%d", r.Intn(256)))
		case 1:
			out = append(out, fmt.Sprintf("u16:%d", r.Intn(1<<16)))
		case 2:
			out = append(out, fmt.Sprintf("u24:%d", r.Intn(1<<24)))
		case 3:
			out = append(out, fmt.Sprintf("u32:%d", r.U64()&0xffffffff))
		case 4:
			out = append(out, "b:"+hx(r.Bytes(g.blen())))
		case 5, 6:
			out = append(out, fmt.Sprintf("i:%d", g.i64()))
		case 7:
			out = append(out, fmt.Sprintf("it%d:%d", g.tag(), g.i64()))
		case 8:
			out = append(out, fmt.Sprintf("e:%d", g.i64()))
		case 9:
			v := uint64(g.i64())
			if r.Chance(50) {
				v = r.U64() >> uint(r.Intn(64))
			}
			out = append(out, fmt.Sprintf("u:%d", v))
		case 10:
			out = append(out, "n:"+g.big10())
		case 11:
			out = append(out, "t")
		case 12:
			out = append(out, "f")
		case 13, 14:
			out = append(out, "o:"+g.oid())
		case 15:
			out = append(out, "s:"+hx(r.Bytes(g.blen())))
		case 16:
			out = append(out, "bs:"+hx(r.Bytes(g.blen())))
		case 17:
			out = append(out, "z")
		case 18:
			if r.Chance(50) {
				out = append(out, fmt.Sprintf("oi%d:%d:%d", g.tag(), g.i64(), g.i64()))
			} else {
				out = append(out, fmt.Sprintf("ni%d:%d", g.tag(), g.i64()))
			}
		case 19:
			if r.Chance(50) {
				out = append(out, fmt.Sprintf("os%d:%s", g.tag(), hx(r.Bytes(g.blen()))))
			} else {
				out = append(out, fmt.Sprintf("ns%d", g.tag()))
			}
		case 20:
			if r.Chance(50) {
				out = append(out, fmt.Sprintf("ob:%s:%s", tf(r.Bool()), tf(r.Bool())))
			} else {
				out = append(out, "nb:"+tf(r.Bool()))
			}
		case 21:
			out = append(out, fmt.Sprintf("na%d", g.tag()))
		case 22, 23:
			out = append(out, fmt.Sprintf("p%d[", 1+r.Intn(3)))
			out = append(out, g.seq(r.Intn(4), depth-1)...)
			out = append(out, "]")
		case 24, 25:
			out = append(out, fmt.Sprintf("a%d[", g.tag()))
			out = append(out, g.seq(r.Intn(4), depth-1)...)
			out = append(out, "]")
		case 26:
			out = append(out, fmt.Sprintf("oa%d[", g.tag()))
			out = append(out, g.seq(r.Intn(3), depth-1)...)
			out = append(out, "]")
		case 27:
			if r.Chance(15) {
				out = append(out, fmt.Sprintf("g:%d", r.U64()%253402300800))
			} else {
				out = append(out, "t")
			}
		case 28:
			out = append(out, []string{"sk:", "cp:"}[r.Intn(2)]+hx(r.Bytes(g.blen())))
		case 29, 30:
			out = append(out, fmt.Sprintf("%s%d:%s", []string{"el", "an", "ae", "ks", "ko"}[r.Intn(5)], g.tag(), hx(r.Bytes(g.blen()))))
		case 31:
			out = append(out, fmt.Sprintf("kn%d", g.tag()))
		case 32:
			out = append(out, "bb:"+hx(r.Bytes(g.blen())))
		case 33:
			if r.Chance(12) {
				out = append(out, "vf[")
			} else {
				out = append(out, "v[")
			}
			out = append(out, g.seq(r.Intn(4), depth-1)...)
			out = append(out, "]")
		case 34:
			if r.Chance(15) {
				out = append(out, "se")
			} else {
				out = append(out, "z")
			}
		default:
			out = append(out, fmt.Sprintf("u8:%d", []int{0, 1, 2, 4, 5, 0x30, 0xa0, 0xff}[r.Intn(8)]))
		}
	}
	return out
}

func emit(g *zv.Gen, toks []string, tail []byte) {
	p := "-"
	if len(toks) > 0 {
		p = strings.Join(toks, ",")
	}
	g.Emitf("c21 rw %s %s", p, hx(tail))
}

func genAll(zg *zv.Gen) {
	genRW(zg)
	genB(zg)
}

func genRW(zg *zv.Gen) {
	r := zg.Rng
	// corpus: D1 (optional BOOLEAN followed by data), D28 (OID arcs >= 2^28), boundaries
	for _, l := range []string{
		"c21 rw ob:t:f,u8:7 -", "c21 rw ob:f:t,i:5 -", "c21 rw a48[,ob:t:f,t,] 01", "c21 rw ob:t:f 0101ff", "c21 rw nb:t,u8:2 -", "c21 rw nb:f 0500",
		"c21 rw o:1.2.268435456 -", "c21 rw o:1.2.2147483647 -", "c21 rw o:2.268435456.1 -", "c21 rw o:1.2.268435455 -", "c21 rw o:2.2147483567 -",
		"c21 rw p4[,] -", "c21 rw p4[,u8:1,p4[,a48[,p4[,t,],],],] ff", "c21 rw a48[,p4[,b:0102,],z,] 00000000",
		"c21 rw - -", "c21 rw - 00", "c21 rw p1[,] -", "c21 rw a48[,] -", "c21 rw a31[,u8:1,] -", "c21 rw p1[,p2[,p3[,a48[,u8:1,],],],] ff",
		"c21 rw oi160:5:7,u8:160 -", "c21 rw ni160:7,u8:161 -", "c21 rw ni160:7,a160[,i:5,] -", "c21 rw os161:aabb,ns161,u8:1 -", "c21 rw oa162[,i:1,],na162,z -",
		"c21 rw oa160[,s:7a65726f,],na161,oa162[,s:74776f,],u16:48879 -", "c21 rw na160,i:5 -", "c21 rw os160:aa,ns161,os162:-,ns163 -", "c21 rw oi160:5:7,ni161:7,ni162:0 -",
		"c21 rw u:18446744073709551615 -", "c21 rw u:9223372036854775808 -", "c21 rw i:-9223372036854775808 -", "c21 rw n:-128,n:128,n:-129,n:0 -",
	} {
		zg.Emit(l)
	}
	// exhaustive: every sequence of <= 2 (quick) / 3 (thorough) ops over a small alphabet, x {no tail, tail}
	alpha := [][]string{{"u8:1"}, {"u16:258"}, {"b:0102"}, {"i:-129"}, {"u:128"}, {"t"}, {"f"}, {"z"}, {"o:1.2.840"}, {"s:aa"},
		{"ob:t:f"}, {"ob:f:t"}, {"nb:t"}, {"oi160:5:7"}, {"ni160:7"}, {"os161:bb"}, {"ns161"}, {"na162"}, {"oa162[", "t", "]"},
		{"p1[", "u8:1", "]"}, {"a48[", "f", "]"}, {"p2[", "]"}, {"a160[", "i:5", "]"}, {"p4[", "z", "]"},
		{"sk:0101"}, {"cp:a0"}, {"el48:0101ff"}, {"an160:0500"}, {"ae4:-"}, {"ks162:01"}, {"ko162:a2"}, {"kn162"}, {"bb:0180"},
		{"se"}, {"v[", "t", "kn1", "]"}, {"vf[", "u8:1", "]"}, {"p1[", "u8:5", "se", "]"}, {"a48[", "vf[", "]", "z", "]"}}
	maxl := zg.N(2, 3)
	var rec func(prefix []string, n int)
	rec = func(prefix []string, n int) {
		if n > 0 {
			emit(zg, prefix, nil)
			emit(zg, prefix, []byte{0x01, 0x01, 0xff})
		}
		if n == maxl {
			return
		}
		for _, a := range alpha {
			rec(append(append([]string{}, prefix...), a...), n+1)
		}
	}
	rec(nil, 0)
	// runs of consecutive optional fields (present/absent in every combination, as in a hand-written DER parser
	// that walks [0] [1] [2] … with one `present` variable), <= 3 (quick) / 4 (thorough) fields, each run alone,
	// followed by data and wrapped in a SEQUENCE
	optAlpha := [][]string{{"oa160[", "s:00", "]"}, {"na160"}, {"oa161[", "]"}, {"na161"}, {"oi162:5:7"}, {"ni162:7"}, {"ni162:0"},
		{"os163:bb"}, {"os163:-"}, {"ns163"}, {"ob:t:f"}, {"ob:f:t"}, {"nb:t"}, {"nb:f"}}
	maxo := zg.N(3, 4)
	var reco func(prefix []string, n int)
	reco = func(prefix []string, n int) {
		if n > 0 {
			emit(zg, prefix, nil)
			emit(zg, append(append([]string{}, prefix...), "u16:48879"), nil)
			emit(zg, append(append([]string{"a48["}, prefix...), "]", "z"), []byte{0xa0})
		}
		if n == maxo {
			return
		}
		for _, a := range optAlpha {
			reco(append(append([]string{}, prefix...), a...), n+1)
		}
	}
	reco(nil, 0)
	// length boundaries of every kind of block, each followed by data
	g := &gen{r: r, big: zg.N(12, 400)}
	bl := []int{0, 1, 0x7d, 0x7e, 0x7f, 0x80, 0x81, 0xfc, 0xfd, 0xfe, 0xff, 0x100, 0x101, 0x102}
	if !zg.Quick {
		bl = append(bl, 0xfffb, 0xfffc, 0xfffd, 0xfffe, 0xffff, 0x10000, 0x10001)
	} else {
		bl = append(bl, 0xfffc, 0xffff, 0x10000)
	}
	for _, l := range bl {
		body := "b:" + hx(r.Bytes(l))
		for _, w := range []string{"p1[", "p2[", "p3[", "p4[", "a48[", "a4[", "oa160["} {
			emit(zg, []string{w, body, "]", "u8:9"}, nil)
			emit(zg, []string{"a49[", w, body, "]", "t", "]", "z"}, []byte{0x30})
		}
		emit(zg, []string{"s:" + hx(r.Bytes(l)), "i:1"}, nil)
		emit(zg, []string{"bs:" + hx(r.Bytes(l)), "f"}, []byte{0})
		emit(zg, []string{fmt.Sprintf("os160:%s", hx(r.Bytes(l))), "u8:160"}, nil)
		// nested ASN.1 elements whose own headers push the parent across a boundary
		emit(zg, []string{"a48[", "a48[", "a48[", body, "]", "]", "]"}, nil)
	}
	// random programs
	for i, n := 0, zg.N(14000, 1500000); i < n; i++ {
		nops := 1 + r.Intn(6)
		toks := g.seq(nops, 1+r.Intn(4))
		cnt := 0
		for _, t := range toks {
			if t != "]" {
				cnt++
			}
		}
		if cnt > 12 {
			continue
		}
		emit(zg, toks, r.Bytes(r.Intn(5)*r.Intn(2)))
	}
	// GeneralizedTime (appended last; a generator of its own, so the lines above do not depend on these): the years
	// -1 / 0 / 9999 / 10000 and the seconds around them (the Builder must refuse years outside 0..9999, in the zone of
	// the value), leap days, zones of whole minutes up to 24h59 and beyond (25h: the reader refuses its hour field), zones
	// with seconds (outside the round-trip domain, see subMinuteZone), alone / followed by data / nested / twice
	tr := zv.NewRng(zg.Seed*0x9e3779b97f4a7c15 + 0x7c21)
	offs := []int{0, 0, 3600, -3600, 19800, -43200, 60, -60, 86340, -86340, 86400, -86400, 89940, -89940, 90000, -90000, 30, -30, 59, 61, -3661, 1}
	gtok := func(u int64, off int) string {
		if off == 0 && tr.Bool() {
			return fmt.Sprintf("g:%d", u)
		}
		return fmt.Sprintf("g:%d@%d", u, off)
	}
	const year0, year10000 = -62167219200, 253402300800
	for _, edge := range []int64{year0, year10000, -62135596800, 0, 951782400 /* 2000-02-29 */, 4107542400 /* 2100-03-01 */} {
		for _, ds := range []int64{-90001, -86401, -3601, -3600, -61, -60, -1, 0, 1, 59, 60, 3599, 3600, 86399, 86400, 90000} {
			for _, off := range offs {
				emit(zg, []string{gtok(edge+ds, off)}, nil)
			}
		}
	}
	for i, n := 0, zg.N(3000, 100000); i < n; i++ {
		u := year0 + int64(tr.U64()%uint64(year10000-year0))
		off := offs[tr.Intn(len(offs))]
		if tr.Chance(10) {
			off = tr.Intn(180001) - 90000
		}
		switch tr.Intn(5) {
		case 0:
			emit(zg, []string{gtok(u, off)}, tr.Bytes(1+tr.Intn(3)))
		case 1:
			emit(zg, []string{"a48[", gtok(u, off), "i:5", "]", "z"}, nil)
		case 2:
			emit(zg, []string{gtok(u, off), gtok(year0+int64(tr.U64()%uint64(year10000-year0)), offs[tr.Intn(len(offs))])}, []byte{0x18})
		case 3:
			emit(zg, []string{"p2[", "u8:24", gtok(u, off), "]"}, nil)
		default:
			emit(zg, []string{gtok(u, off)}, nil)
		}
	}
}

func init() {
	zv.Register(&zv.Prop{ID: "C21", Topic: "c21", Gen: genAll, Exec: exec,
		Rule: "write/read programs over the cryptobyte Builder/String API: every sequence of <= 2 (quick) / 3 (thorough) ops over a 38-op alphabet (incl. the alternative readers Skip/CopyBytes/ReadASN1Element/ReadAnyASN1/ReadAnyASN1Element/SkipASN1/SkipOptionalASN1/ReadASN1BitStringAsBytes, SetError, AddValue with a succeeding and a failing Marshal) with and without trailing data; every kind of block (8/16/24/32-bit length prefixes - the 32-bit one read back with ReadUint32+ReadBytes -, ASN.1 elements) at the length boundaries 0/1/0x7f/0x80/0xff/0x100/0xffff/0x10000 followed by data; random programs of <= 12 ops, nesting <= 4, with boundary integers, OID arcs up to 2^31-1, big integers up to 40 bytes, optional elements present/absent followed by other data, tails of 0..4 bytes; a case is one program+tail; every run of <= 3 (quick) / 4 (thorough) consecutive optional fields (present/absent, 14-op alphabet) alone, followed by data and inside a SEQUENCE; every program is read back four times: with every out-parameter of every reader pre-set to a non-default value (flags true, integers 0xa5.., slices/Strings/big.Int/OID/BitString/time non-empty), zero-initialised, with one shared variable per type reused for the whole program (optional INTEGERs into *big.Int), and with outPresent == nil; T3 = in all four the mirrored readers succeed, return the written values (absent optional: present=false / the default / a nil slice), leave exactly the tail and do not modify the input (programs whose build fails, and absent optionals followed by an equal tag byte, are counted trivial); GeneralizedTime programs (model-compared): years -1/0/9999/10000 and the seconds around them, leap days, zone offsets of whole minutes up to 24h59 and 25h, alone / followed by data / nested / twice; zone offsets with seconds or of 25 hours and more are outside the round-trip domain (the text form has no zone seconds: the reader rejects or returns a shifted instant; time.Parse refuses a zone hour above 24) - such programs are compared with the model only and tagged gtime:zone-with-seconds-or->=25h; builder-only programs (`c21 bw`): AddBytes / Unwrite / SetError / 8..32-bit and ASN.1 blocks, nesting <= 3, blocks shrunk back across the 0x7f/0x80/0xff/0x100 length boundaries by Unwrite, Unwrite reaching into the length prefix or the parent (documented panic); T3 = an independent block-accumulating reference gives the same bytes / error / panic"})
}
