// Package c07: Certificate.Verify (x509/verify.go) on small generated PKIs of real Ed25519 certificates.
package c07

import (
	"bytes"
	"fmt"
	"sort"
	"strconv"
	"strings"
	"sync"
	"time"

	"github.com/zmap/zcrypto/encoding/asn1"
	"github.com/zmap/zcrypto/x509"

	"zv/internal/zv"
	"zv/props/c08"
)

const baseT = 1500000000

// harness numbering of extended key usages (sent to the model)
var ekuList = []x509.ExtKeyUsage{x509.ExtKeyUsageAny, x509.ExtKeyUsageServerAuth, x509.ExtKeyUsageClientAuth,
	x509.ExtKeyUsageNetscapeServerGatedCrypto, x509.ExtKeyUsageMicrosoftServerGatedCrypto, x509.ExtKeyUsageCodeSigning}

func ekuNum(e x509.ExtKeyUsage) int {
	for i, x := range ekuList {
		if x == e {
			return i
		}
	}
	return 100 + int(e)
}

type pki struct {
	specs []c08.CertSpec
	certs []*x509.Certificate
	sigOK [][]bool // sigOK[i][j]: certs[j]'s key verifies the signature on certs[i] (real CheckSignature)
	desc  string
}

var (
	pkiMu sync.Mutex
	pkis  = map[uint64]*pki{}
)

// memoSeed designates a FIXED PKI (not a random one): the counter-example to completeness of the
// memoised builder (Lean: memo_lost_chain / memo_verify_expired in ZV/Props/C07.lean).
//   0 R  self-signed root          1 B  CA issued by R
//   2 A1 CA issued by B, EXPIRED   3 A2 CA issued by B, same subject and key as A1, current
//   4 L  leaf issued by A1/A2's name and key
// With intermediates added in the order B, A1, A2 the builder caches B's result computed below
// [L, A1] and re-uses it below [L, A2]: the valid current chain L-A2-B-R is never produced, the
// expired chain L-A1-B-R is returned twice and Verify fails with Expired.
const memoSeed = uint64(1)<<62 + 7

func memoSpecs() []c08.CertSpec {
	lo, hi := int64(baseT-2000), int64(baseT+5000)
	mk := func(serial, subj, key, iss, signKey int, ca bool) c08.CertSpec {
		return c08.CertSpec{Serial: serial, Subject: subj, Key: key, SKID: 10 + key, IssuerName: iss, AKID: 10 + signKey, SignKey: signKey,
			BCValid: ca, IsCA: ca, MaxPathLen: -1, NotBefore: lo, NotAfter: hi}
	}
	sp := []c08.CertSpec{mk(0, 1, 1, 1, 1, true), mk(1, 2, 2, 1, 1, true), mk(2, 3, 3, 2, 2, true), mk(3, 3, 3, 2, 2, true), mk(4, 4, 4, 3, 3, false)}
	sp[2].NotAfter = baseT - 1000
	return sp
}

func genSpecs(seed uint64) []c08.CertSpec {
	if seed == memoSeed {
		return memoSpecs()
	}
	r := zv.NewRng(seed*0x9e3779b9 + 17)
	n := 3 + r.Intn(5) // 3..7
	specs := make([]c08.CertSpec, n)
	twinOf := make([]int, n)
	issuerOf := make([]int, n)
	for i := range specs {
		twinOf[i] = -1
		s := &specs[i]
		s.Serial = i
		s.Subject, s.Key = i+1, i+1
		if i > 0 && r.Chance(30) { // cross-signed twin: same subject and key as an earlier certificate
			twinOf[i] = r.Intn(i)
			t := specs[twinOf[i]]
			s.Subject, s.Key = t.Subject, t.Key
		}
		if r.Chance(10) {
			s.Key = 1 + r.Intn(n)
		}
		switch k := r.Intn(100); {
		case k < 15:
			s.SKID = 0
		case k < 25:
			s.SKID = 1 + r.Intn(3)
		default:
			s.SKID = 10 + s.Key
		}
	}
	nbs := []int64{-2000, -1000, -1000, 0, 1000}
	durs := []int64{500, 1500, 3000, 3000, 5000}
	for i := range specs {
		s := &specs[i]
		j := i // self-signed
		if i > 0 {
			switch k := r.Intn(100); {
			case k < 70:
				j = r.Intn(i) // an earlier certificate
			case k < 85:
				j = r.Intn(n) // any certificate: cross-signs and loops arise
			}
		}
		if twinOf[i] > 0 && r.Chance(50) { // twin CAs under the SAME issuer: the shape on which the builder's cache loses chains
			j = issuerOf[twinOf[i]]
		}
		issuerOf[i] = j
		s.IssuerName, s.SignKey = specs[j].Subject, specs[j].Key
		switch k := r.Intn(100); {
		case k < 15:
			s.AKID = 0
		case k < 25:
			s.AKID = 1 + r.Intn(3)
		default:
			s.AKID = specs[j].SKID
		}
		if r.Chance(8) {
			s.SignKey = 1 + r.Intn(n) // possibly a bad signature
		}
		caChance := 92
		if i == n-1 {
			caChance = 30
		}
		s.BCValid = r.Chance(caChance + 5)
		s.IsCA = s.BCValid && r.Chance(caChance)
		s.MaxPathLen = -1
		if s.BCValid && r.Chance(30) {
			s.MaxPathLen = r.Intn(3)
		}
		switch k := r.Intn(100); {
		case k < 18:
			s.KeyUsage = x509.KeyUsageCertSign
		case k < 25:
			s.KeyUsage = x509.KeyUsageDigitalSignature
		}
		if r.Chance(40) {
			for _, e := range ekuList {
				if r.Chance(35) {
					s.EKU = append(s.EKU, e)
				}
			}
		}
		s.UnknownEKU = r.Chance(8)
		if r.Chance(70) {
			s.NotBefore, s.NotAfter = baseT-2000-int64(r.Intn(3))*100, baseT+5000+int64(r.Intn(3))*100
		} else {
			s.NotBefore = baseT + nbs[r.Intn(len(nbs))]
			s.NotAfter = s.NotBefore + durs[r.Intn(len(durs))]
		}
		if r.Chance(40) {
			s.DNS = []string{"a.example", "*.b.example"}
		}
	}
	return specs
}

func getPKI(seed uint64) *pki {
	pkiMu.Lock()
	defer pkiMu.Unlock()
	if p, ok := pkis[seed]; ok {
		return p
	}
	if len(pkis) > 4000 {
		pkis = map[uint64]*pki{}
	}
	p := &pki{specs: genSpecs(seed)}
	for _, s := range p.specs {
		c, err := c08.Mint(s)
		if err != nil {
			panic(fmt.Sprintf("c07: cannot mint %+v: %v", s, err))
		}
		p.certs = append(p.certs, c)
	}
	names, kids, spkis, raws := c08.NewInterner(), c08.NewInterner(), c08.NewInterner(), c08.NewInterner()
	var ds, rows []string
	b := func(x bool) int {
		if x {
			return 1
		}
		return 0
	}
	for i, c := range p.certs {
		row := make([]bool, len(p.certs))
		var sb strings.Builder
		for j, par := range p.certs {
			row[j] = par.CheckSignature(c.SignatureAlgorithm, c.RawTBSCertificate, c.Signature) == nil
			sb.WriteByte(byte('0' + b(row[j])))
		}
		p.sigOK = append(p.sigOK, row)
		rows = append(rows, sb.String())
		var ek []string
		for _, e := range c.ExtKeyUsage {
			ek = append(ek, strconv.Itoa(ekuNum(e)))
		}
		eku := "_"
		if len(ek) > 0 {
			eku = strings.Join(ek, ".")
		}
		_ = i
		ds = append(ds, fmt.Sprintf("%d:%d:%d:%d:%d:%d:%d:%d:%d:%d:%d:%d:%d:%s:%d:%d:%d",
			raws.ID(c.Raw), names.ID(c.RawSubject), names.ID(c.RawIssuer), spkis.ID(c.RawSubjectPublicKeyInfo),
			kids.ID(c.SubjectKeyId), kids.ID(c.AuthorityKeyId), b(c.Version == 3), b(c.BasicConstraintsValid), b(c.IsCA),
			c.MaxPathLen, b(c.KeyUsage != 0), b(c.KeyUsage&x509.KeyUsageCertSign != 0), b(c.SelfSigned), eku,
			b(len(c.UnknownExtKeyUsage) > 0), c.NotBefore.Unix(), c.NotAfter.Unix()))
	}
	p.desc = strings.Join(ds, ";") + " " + strings.Join(rows, ";")
	pkis[seed] = p
	return p
}

func idxList(l []int) string {
	if len(l) == 0 {
		return "_"
	}
	ss := make([]string, len(l))
	for i, x := range l {
		ss[i] = strconv.Itoa(x)
	}
	return strings.Join(ss, ".")
}

func parseIdx(s string) []int {
	if s == "_" {
		return nil
	}
	var out []int
	for _, p := range strings.Split(s, ".") {
		n, err := strconv.Atoi(p)
		if err != nil {
			panic("c07: bad index list " + s)
		}
		out = append(out, n)
	}
	return out
}

func errKind(err error) string {
	switch e := err.(type) {
	case nil:
		return "ok"
	case x509.CertificateInvalidError:
		switch e.Reason {
		case x509.NotAuthorizedToSign:
			return "notAuthorizedToSign"
		case x509.TooManyIntermediates:
			return "tooManyIntermediates"
		case x509.IsSelfSigned:
			return "isSelfSigned"
		case x509.IncompatibleUsage:
			return "incompatibleUsage"
		case x509.Expired:
			return "expired"
		case x509.NeverValid:
			return "neverValid"
		}
		return fmt.Sprintf("invalid-%d", e.Reason)
	case x509.UnknownAuthorityError:
		return "unknownAuthority"
	case x509.HostnameError:
		return "hostname"
	}
	return "other:" + err.Error()
}

// ---- T3: the property's sentence applied to one returned chain ----

func supports(c *x509.Certificate, u x509.ExtKeyUsage) bool {
	if len(c.ExtKeyUsage) == 0 && len(c.UnknownExtKeyUsage) == 0 {
		return true
	}
	for _, e := range c.ExtKeyUsage {
		if e == x509.ExtKeyUsageAny || e == u {
			return true
		}
		if u == x509.ExtKeyUsageServerAuth && (e == x509.ExtKeyUsageNetscapeServerGatedCrypto || e == x509.ExtKeyUsageMicrosoftServerGatedCrypto) {
			return true
		}
	}
	return false
}

func checkChain(p *pki, idx map[*x509.Certificate]int, chain x509.CertificateChain, leaf *x509.Certificate, roots []*x509.Certificate, kus []x509.ExtKeyUsage) string {
	if len(chain) == 0 {
		return "empty chain returned"
	}
	if chain[0] != leaf {
		return "chain does not start at the verified certificate"
	}
	last := chain[len(chain)-1]
	inRoots := false
	for _, r := range roots {
		if bytes.Equal(r.Raw, last.Raw) {
			inRoots = true
		}
	}
	if !inRoots {
		return "chain does not end at a certificate of the supplied roots"
	}
	for k := 0; k+1 < len(chain); k++ {
		child, parent := chain[k], chain[k+1]
		if !bytes.Equal(child.RawIssuer, parent.RawSubject) {
			return fmt.Sprintf("link %d: issuer name of the child differs from the subject of the parent", k)
		}
		if !p.sigOK[idx[child]][idx[parent]] {
			return fmt.Sprintf("link %d: the parent's key does not verify the child's signature", k)
		}
	}
	for k := 1; k+1 < len(chain); k++ {
		c := chain[k]
		if !c.BasicConstraintsValid || !c.IsCA {
			return fmt.Sprintf("intermediate at position %d is not a CA certificate", k)
		}
		if c.MaxPathLen >= 0 && k-1 > c.MaxPathLen { // parsed certificates: MaxPathLen == -1 when there is no limit
			return fmt.Sprintf("intermediate at position %d has %d intermediates below it, path length limit %d", k, k-1, c.MaxPathLen)
		}
	}
	for a := 0; a < len(chain); a++ {
		for b := a + 1; b < len(chain); b++ {
			if bytes.Equal(chain[a].Raw, chain[b].Raw) {
				return fmt.Sprintf("certificate repeated at positions %d and %d", a, b)
			}
		}
	}
	if len(kus) == 0 {
		kus = []x509.ExtKeyUsage{x509.ExtKeyUsageServerAuth}
	}
	okUsage := false
	for _, u := range kus {
		if u == x509.ExtKeyUsageAny {
			okUsage = true
			break
		}
		all := true
		for _, c := range chain {
			all = all && supports(c, u)
		}
		okUsage = okUsage || all
	}
	if !okUsage {
		return "no requested extended key usage is supported by every certificate of the chain"
	}
	return ""
}

// ---- independent enumeration of ALL valid chains (Lean: ValidChain), for the completeness tags and a
// second soundness oracle.  Candidate parents as findVerifiedParents selects them (Lean: findVerifiedParents_spec).

func poolParents(pool []*x509.Certificate, c *x509.Certificate) []*x509.Certificate {
	var cand []*x509.Certificate
	if len(c.AuthorityKeyId) > 0 {
		for _, p := range pool {
			if bytes.Equal(p.SubjectKeyId, c.AuthorityKeyId) {
				cand = append(cand, p)
			}
		}
	}
	if len(cand) == 0 {
		for _, p := range pool {
			if bytes.Equal(p.RawSubject, c.RawIssuer) {
				cand = append(cand, p)
			}
		}
	}
	var out []*x509.Certificate
	for _, p := range cand {
		if c.CheckSignatureFrom(p) == nil {
			out = append(out, p)
		}
	}
	return out
}

func rawIn(l []*x509.Certificate, c *x509.Certificate) bool {
	for _, x := range l {
		if bytes.Equal(x.Raw, c.Raw) {
			return true
		}
	}
	return false
}

func allValidChains(leaf *x509.Certificate, roots, inters []*x509.Certificate) []x509.CertificateChain {
	if rawIn(roots, leaf) {
		return []x509.CertificateChain{{leaf}}
	}
	var out []x509.CertificateChain
	var dfs func(cur x509.CertificateChain)
	dfs = func(cur x509.CertificateChain) {
		last := cur[len(cur)-1]
		for _, r := range poolParents(roots, last) {
			if r.ZVIsValid(x509.CertificateTypeRoot, cur) == nil && !rawIn(cur, r) {
				out = append(out, append(append(x509.CertificateChain{}, cur...), r))
			}
		}
		for _, x := range poolParents(inters, last) {
			if rawIn(roots, x) {
				continue
			}
			dup := false
			for _, y := range cur {
				if bytes.Equal(y.RawSubject, x.RawSubject) && bytes.Equal(y.RawSubjectPublicKeyInfo, x.RawSubjectPublicKeyInfo) {
					dup = true
				}
			}
			if dup || x.ZVIsValid(x509.CertificateTypeIntermediate, cur) != nil {
				continue
			}
			dfs(append(append(x509.CertificateChain{}, cur...), x))
		}
	}
	dfs(x509.CertificateChain{leaf})
	return out
}

func window(chain x509.CertificateChain) (lo, hi time.Time) {
	lo, hi = chain[0].NotBefore, chain[0].NotAfter
	for _, c := range chain[1:] {
		if c.NotBefore.After(lo) {
			lo = c.NotBefore
		}
		if c.NotAfter.Before(hi) {
			hi = c.NotAfter
		}
	}
	return
}

// ---- `c07 eku <chain> <usages>`: checkChainForKeyUsage alone (through the verif hook) ----

// usageSpec is the declarative rule proved equivalent to the model's checkChainForKeyUsage
// (Lean: UsageSpec / checkChainForKeyUsage_spec): non-empty chain and (nothing requested, or some
// requested slot -- the in-band sentinel -1 trivially -- is supported by every certificate).
func usageSpec(chain []*x509.Certificate, kus []x509.ExtKeyUsage) bool {
	if len(chain) == 0 {
		return false
	}
	if len(kus) == 0 {
		return true
	}
	for _, u := range kus {
		if u == -1 {
			return true
		}
		all := true
		for _, c := range chain {
			all = all && supports(c, u)
		}
		if all {
			return true
		}
	}
	return false
}

func ekuOf(k int) x509.ExtKeyUsage {
	if k < 0 {
		return x509.ExtKeyUsage(k)
	}
	return ekuList[k]
}

func execEku(f []string) zv.Out {
	var chain []*x509.Certificate
	tags := []string{"eku-direct"}
	if f[2] != "_" {
		for _, cs := range strings.Split(f[2], ";") {
			p := strings.Split(cs, ":")
			c := &x509.Certificate{}
			for _, k := range parseIdx(p[0]) {
				c.ExtKeyUsage = append(c.ExtKeyUsage, ekuOf(k))
			}
			if p[1] == "1" {
				c.UnknownExtKeyUsage = []asn1.ObjectIdentifier{{1, 2, 3, 4}}
			}
			chain = append(chain, c)
		}
	} else {
		tags = append(tags, "eku-empty-chain")
	}
	var kus []x509.ExtKeyUsage
	for _, k := range parseIdx(f[3]) {
		kus = append(kus, ekuOf(k))
		if k < 0 {
			tags = append(tags, "eku-sentinel-requested")
		}
	}
	if len(kus) == 0 {
		tags = append(tags, "eku-nothing-requested")
	}
	got := x509.ZVCheckChainForKeyUsage(chain, kus)
	viol := ""
	if want := usageSpec(chain, kus); got != want {
		viol = fmt.Sprintf("checkChainForKeyUsage = %v, the declarative rule (some requested usage supported by every certificate) gives %v", got, want)
	}
	tags = append(tags, fmt.Sprintf("eku-%v", got), fmt.Sprintf("eku-chainlen-%d", len(chain)))
	return zv.Out{Go: strconv.FormatBool(got), Viol: viol, Tags: tags}
}

// ---- `c07 isvalid <type> <bc> <ca> <maxPathLen> <len(currentChain)>`: isValid alone (verif hook) ----
// type: 0 leaf, 1 intermediate, 2 root.  This is the guard that bounds the recursion of buildChains
// (Lean: buildChains_never_out_of_fuel relies on `len(currentChain) > maxIntermediateCount` failing).

func execIsValid(f []string) zv.Out {
	ty, _ := strconv.Atoi(f[2])
	mpl, _ := strconv.Atoi(f[5])
	n, _ := strconv.Atoi(f[6])
	c := &x509.Certificate{BasicConstraintsValid: f[3] == "1", IsCA: f[4] == "1", MaxPathLen: mpl}
	chain := make(x509.CertificateChain, n)
	for i := range chain {
		chain[i] = &x509.Certificate{}
	}
	ct := []x509.CertificateType{x509.CertificateTypeLeaf, x509.CertificateTypeIntermediate, x509.CertificateTypeRoot}[ty]
	got := errKind(c.ZVIsValid(ct, chain))
	// independent statement of the rule
	want := "ok"
	switch {
	case ty == 1 && !(c.BasicConstraintsValid && c.IsCA):
		want = "notAuthorizedToSign"
	case c.BasicConstraintsValid && mpl >= 0 && n-1 > mpl:
		want = "tooManyIntermediates"
	case n >= 11:
		want = "tooManyIntermediates"
	}
	viol := ""
	if got != want {
		viol = fmt.Sprintf("isValid = %s, expected %s (CA gate for intermediates, path-length limit, at most 10 certificates below)", got, want)
	}
	return zv.Out{Go: got, Viol: viol, Tags: []string{"isvalid-direct", "isvalid-" + got, fmt.Sprintf("isvalid-len-%d", n)}}
}

// ---- `c07 vsd <Verify line arguments>`: ValidateWithStupidDetail (x509/validation.go) ----

func kindOfText(leaf *x509.Certificate, text string) string {
	if text == "" {
		return "ok"
	}
	for _, r := range []x509.InvalidReason{x509.NotAuthorizedToSign, x509.TooManyIntermediates, x509.IsSelfSigned, x509.IncompatibleUsage, x509.Expired, x509.NeverValid} {
		e := x509.CertificateInvalidError{Cert: leaf, Reason: r}
		if e.Error() == text {
			return errKind(e)
		}
	}
	if strings.HasPrefix(text, "x509: certificate signed by unknown authority") {
		return "unknownAuthority"
	}
	return "other:" + text
}

func execVsd(p *pki, idx map[*x509.Certificate]int, leaf *x509.Certificate, rootCerts []*x509.Certificate, opts x509.VerifyOptions, kus []x509.ExtKeyUsage) zv.Out {
	chains, val, err := leaf.ValidateWithStupidDetail(opts)
	var ss []string
	for _, ch := range chains {
		var is []string
		for _, c := range ch {
			is = append(is, strconv.Itoa(idx[c]))
		}
		ss = append(ss, strings.Join(is, "."))
	}
	sort.Strings(ss)
	b := func(x bool) int {
		if x {
			return 1
		}
		return 0
	}
	kind := errKind(err)
	out := fmt.Sprintf("%s|chains=%s|trusted=%d|berr=%s|matches=%d|domain=%s", kind, strings.Join(ss, ","), b(val.BrowserTrusted),
		kindOfText(leaf, val.BrowserError), b(val.MatchesDomain), zv.Hex([]byte(val.Domain)))
	// T3: the property's sentence for the chains ValidateWithStupidDetail returns.  The requested key usages are
	// discarded by the function (documented: "Don't pass a KeyUsage to the Verify API"), so the usage clause is
	// checked for the ServerAuth default, not for opts.KeyUsages.
	viol := ""
	nowT := opts.CurrentTime
	for _, ch := range chains {
		if msg := checkChain(p, idx, ch, leaf, rootCerts, nil); msg != "" && viol == "" {
			viol = "ValidateWithStupidDetail returned chain: " + msg
		}
		if lo, hi := window(ch); !(lo.Before(nowT) && hi.After(nowT)) && viol == "" {
			viol = "ValidateWithStupidDetail returned a chain that is not current"
		}
	}
	hostOK := opts.DNSName == "" || leaf.VerifyHostname(opts.DNSName) == nil
	if err == nil && (len(chains) == 0 || !val.BrowserTrusted || !hostOK) && viol == "" {
		viol = "ValidateWithStupidDetail: nil error without a current chain / BrowserTrusted / matching name"
	}
	if val.BrowserTrusted != (len(chains) > 0) && viol == "" {
		viol = "BrowserTrusted differs from 'a current chain was returned'"
	}
	if opts.DNSName != "" && val.MatchesDomain != hostOK && viol == "" {
		viol = "MatchesDomain differs from VerifyHostname"
	}
	tags := []string{"vsd", "vsd-err=" + kind, fmt.Sprintf("vsd-trusted=%d", b(val.BrowserTrusted)), fmt.Sprintf("vsd-matches=%d", b(val.MatchesDomain))}
	if opts.DNSName == "" {
		tags = append(tags, "vsd-no-domain")
	}
	if len(kus) > 0 && len(chains) > 0 {
		anyReq := false
		for _, u := range kus {
			anyReq = anyReq || u == x509.ExtKeyUsageAny
		}
		for _, ch := range chains {
			if !anyReq && !usageSpec(ch, kus) {
				tags = append(tags, "vsd-chain-fails-requested-usage(usages-discarded)")
				break
			}
		}
	}
	if err != nil && val.BrowserTrusted {
		tags = append(tags, "vsd-trusted-but-name-mismatch")
	}
	return zv.Out{Go: out, Viol: viol, Tags: tags}
}

func exec(line string) zv.Out {
	f := strings.Fields(line)
	if f[1] == "eku" {
		return execEku(f)
	}
	if f[1] == "isvalid" {
		return execIsValid(f)
	}
	vsd := false
	if f[1] == "vsd" {
		vsd = true
		f = append([]string{f[0]}, f[2:]...)
	}
	seed, _ := strconv.ParseUint(f[1], 10, 64)
	p := getPKI(seed)
	if p.desc != f[2]+" "+f[3] {
		panic("c07: PKI description on the case line does not match the regenerated PKI")
	}
	leafI, _ := strconv.Atoi(f[4])
	rootI, interI := parseIdx(f[5]), parseIdx(f[6])
	now, _ := strconv.ParseInt(f[7], 10, 64)
	var kus []x509.ExtKeyUsage
	for _, k := range parseIdx(f[8]) {
		kus = append(kus, ekuList[k])
	}
	dns := string(zv.UnHex(f[9]))
	idx := map[*x509.Certificate]int{}
	for i, c := range p.certs {
		idx[c] = i
	}
	leaf := p.certs[leafI]
	roots := x509.NewCertPool()
	var rootCerts []*x509.Certificate
	for _, i := range rootI {
		roots.AddCert(p.certs[i])
		rootCerts = append(rootCerts, p.certs[i])
	}
	var inters *x509.CertPool // nil pool when no intermediates are given
	var interCerts []*x509.Certificate
	if len(interI) > 0 {
		inters = x509.NewCertPool()
		for _, i := range interI {
			inters.AddCert(p.certs[i])
			interCerts = append(interCerts, p.certs[i])
		}
	}
	opts := x509.VerifyOptions{DNSName: dns, Intermediates: inters, Roots: roots, CurrentTime: time.Unix(now, 0), KeyUsages: kus}
	if vsd {
		return execVsd(p, idx, leaf, rootCerts, opts, kus)
	}
	current, expired, never, err := leaf.Verify(opts)

	show := func(chains []x509.CertificateChain) string {
		var ss []string
		for _, ch := range chains {
			var is []string
			for _, c := range ch {
				is = append(is, strconv.Itoa(idx[c]))
			}
			ss = append(ss, strings.Join(is, "."))
		}
		sort.Strings(ss)
		return strings.Join(ss, ",")
	}
	kind := errKind(err)
	out := fmt.Sprintf("%s|c=%s|e=%s|n=%s", kind, show(current), show(expired), show(never))

	// ---- T3
	viol := ""
	fail := func(format string, a ...any) {
		if viol == "" {
			viol = fmt.Sprintf(format, a...)
		}
	}
	nowT := time.Unix(now, 0)
	maxLen := 0
	for ci, class := range [][]x509.CertificateChain{current, expired, never} {
		for _, ch := range class {
			if len(ch) > maxLen {
				maxLen = len(ch)
			}
			if msg := checkChain(p, idx, ch, leaf, rootCerts, kus); msg != "" {
				fail("returned chain %s: %s", show([]x509.CertificateChain{ch}), msg)
				continue
			}
			lo, hi := window(ch)
			want := 2 // never: empty window
			if lo.Before(nowT) && hi.After(nowT) {
				want = 0
			} else if lo.Before(hi) {
				want = 1
			}
			if want != ci {
				fail("chain %s with window (%d,%d) at time %d is in class %d, expected %d (0 current, 1 expired, 2 never)", show([]x509.CertificateChain{ch}), lo.Unix(), hi.Unix(), now, ci, want)
			}
		}
	}
	if err == nil {
		if len(current) == 0 {
			fail("nil error without a current chain")
		}
		if dns != "" && leaf.VerifyHostname(dns) != nil {
			fail("nil error although DNS name %q does not match the certificate", dns)
		}
	}
	tags := []string{"err=" + kind, fmt.Sprintf("certs=%d", len(p.certs)), fmt.Sprintf("maxchain=%d", maxLen)}
	// completeness is NOT part of the property (and false for the memoised builder): tags only.
	// Soundness again, against the independent enumeration: every returned chain is one of the valid chains.
	{
		one := func(ch x509.CertificateChain) string { return show([]x509.CertificateChain{ch}) }
		valid := map[string]bool{}
		wanted := map[string]bool{}
		anyReq := false
		for _, u := range kus {
			anyReq = anyReq || u == x509.ExtKeyUsageAny
		}
		eff := kus
		if len(eff) == 0 {
			eff = []x509.ExtKeyUsage{x509.ExtKeyUsageServerAuth}
		}
		for _, ch := range allValidChains(leaf, rootCerts, interCerts) {
			valid[one(ch)] = true
			if anyReq || usageSpec(ch, eff) {
				wanted[one(ch)] = true
			}
		}
		got := map[string]int{}
		for _, class := range [][]x509.CertificateChain{current, expired, never} {
			for _, ch := range class {
				got[one(ch)]++
				if !valid[one(ch)] {
					fail("returned chain %s is not among the independently enumerated valid chains", one(ch))
				}
			}
		}
		dupl, lost := false, false
		for _, n := range got {
			dupl = dupl || n > 1
		}
		for k := range wanted {
			lost = lost || got[k] == 0
		}
		if dupl {
			tags = append(tags, "same-chain-returned-twice")
		}
		if lost {
			tags = append(tags, "valid-chain-not-returned(memoisation)")
			if len(current)+len(expired)+len(never) == 0 {
				tags = append(tags, "error-although-valid-chain-exists")
			}
			wantCur := false
			for _, ch := range allValidChains(leaf, rootCerts, interCerts) {
				lo, hi := window(ch)
				if wanted[one(ch)] && lo.Before(nowT) && hi.After(nowT) {
					wantCur = true
				}
			}
			if wantCur && len(current) == 0 {
				tags = append(tags, "no-current-chain-although-valid-current-chain-exists")
			}
		}
		if seed == memoSeed {
			tags = append(tags, "memo-counter-example")
		}
	}
	if len(current) > 0 {
		tags = append(tags, "has-current")
	}
	if len(expired) > 0 {
		tags = append(tags, "has-expired")
	}
	if len(never) > 0 {
		tags = append(tags, "has-never")
	}
	if len(current)+len(expired)+len(never) > 1 {
		tags = append(tags, "multiple-chains")
	}
	if inters == nil {
		tags = append(tags, "nil-intermediates")
	}
	return zv.Out{Go: out, Viol: viol, Tags: tags, Trivial: false}
}

func gen(g *zv.Gen) {
	r := g.Rng
	nPKI := g.N(3000, 60000)
	kuChoices := [][]int{nil, {1}, {2}, {0}, {2, 1}, {5, 0}, {5}, {1, 1}, {3}}
	dnsChoices := []string{"", "", "a.example", "x.b.example", "A.EXAMPLE.", "nomatch.test"}
	for k := 0; k < nPKI; k++ {
		seed := g.Seed*1000003 + uint64(k)
		p := getPKI(seed)
		n := len(p.certs)
		// times of interest: around the base time and exactly on certificate boundaries
		times := []int64{baseT - 2500, baseT - 1500, baseT - 500, baseT + 1, baseT + 600, baseT + 1200, baseT + 2500, baseT + 6500}
		for _, c := range p.certs {
			times = append(times, c.NotBefore.Unix(), c.NotAfter.Unix())
		}
		for q := 0; q < 8; q++ {
			leaf := n - 1
			if r.Chance(40) {
				leaf = r.Intn(n)
			}
			var roots, inters []int
			isRoot := make([]bool, n)
			for i := 0; i < n; i++ {
				pr := 10
				if p.certs[i].SelfSigned {
					pr = 75
				}
				if i == leaf {
					pr = 8
				}
				if r.Chance(pr) {
					roots = append(roots, i)
					isRoot[i] = true
				}
			}
			if len(roots) == 0 {
				roots = []int{r.Intn(n)}
				isRoot[roots[0]] = true
			}
			for i := 0; i < n; i++ {
				pr := 85
				if isRoot[i] {
					pr = 20
				}
				if r.Chance(pr) {
					inters = append(inters, i)
				}
			}
			if r.Chance(30) { // insertion order matters for the chain order and the cache
				r2 := r.Intn(len(inters) + 1)
				inters = append(inters[r2:], inters[:r2]...)
			}
			if r.Chance(5) {
				inters = nil
			}
			now := int64(baseT + 1)
			if r.Chance(40) {
				now = times[r.Intn(len(times))]
			}
			var kus []int
			if r.Chance(60) {
				kus = kuChoices[r.Intn(len(kuChoices))]
			}
			dns := dnsChoices[r.Intn(len(dnsChoices))]
			lc := p.certs[leaf]
			san := 0
			if len(lc.DNSNames) > 0 {
				san = 1
			}
			var ld []string
			for _, d := range lc.DNSNames {
				ld = append(ld, zv.Hex([]byte(d)))
			}
			lds := "_"
			if len(ld) > 0 {
				lds = strings.Join(ld, ",")
			}
			g.Emitf("c07 %d %s %d %s %s %d %s %s %d %s %s", seed, p.desc, leaf, idxList(roots), idxList(inters), now,
				idxList(kus), zv.Hex([]byte(dns)), san, lds, zv.Hex([]byte(lc.Subject.CommonName)))
			if q < 3 { // the same query through ValidateWithStupidDetail
				g.Emitf("c07 vsd %d %s %d %s %s %d %s %s %d %s %s", seed, p.desc, leaf, idxList(roots), idxList(inters), now,
					idxList(kus), zv.Hex([]byte(dns)), san, lds, zv.Hex([]byte(lc.Subject.CommonName)))
			}
		}
	}
	// the fixed counter-example to completeness of the memoised builder, in both insertion orders of the twins,
	// through Verify and through ValidateWithStupidDetail
	{
		p := getPKI(memoSeed)
		cn := zv.Hex([]byte(p.certs[4].Subject.CommonName))
		for _, in := range []string{"1.2.3", "1.3.2", "2.3.1", "3.2.1"} {
			g.Emitf("c07 %d %s 4 0 %s %d _ - 0 _ %s", memoSeed, p.desc, in, baseT+1, cn)
			g.Emitf("c07 vsd %d %s 4 0 %s %d _ - 0 _ %s", memoSeed, p.desc, in, baseT+1, cn)
		}
	}
	// checkChainForKeyUsage alone: every chain of <= 2 certificates over 13 EKU shapes x 18 request lists
	// (incl. the empty list and the sentinel -1), then random longer chains.
	ekuCerts := []string{"_:0", "_:1", "0:0", "1:0", "2:0", "3:0", "4:0", "5:0", "1.2:0", "2.3:0", "0.2:0", "2:1", "4.5:0"}
	ekuReqs := []string{"_", "1", "2", "5", "-1", "1.2", "2.1", "2.5", "-1.2", "2.-1", "1.1", "2.2", "2.5.1", "5.-1.2", "0", "0.2", "3", "4"}
	for _, u := range ekuReqs {
		g.Emitf("c07 eku _ %s", u)
		for _, a := range ekuCerts {
			g.Emitf("c07 eku %s %s", a, u)
			for _, b := range ekuCerts {
				g.Emitf("c07 eku %s;%s %s", a, b, u)
			}
		}
	}
	// isValid alone, exhaustively around the depth bound (chains of 0..14 certificates)
	for ty := 0; ty < 3; ty++ {
		for flags := 0; flags < 4; flags++ {
			for _, mpl := range []int{-1, 0, 1, 2, 5, 9, 10, 11, 12} {
				for n := 0; n <= 14; n++ {
					g.Emitf("c07 isvalid %d %d %d %d %d", ty, flags&1, flags>>1, mpl, n)
				}
			}
		}
	}
	for k, n := 0, g.N(1500, 30000); k < n; k++ {
		var cs []string
		for i, l := 0, 3+r.Intn(4); i < l; i++ {
			cs = append(cs, ekuCerts[r.Intn(len(ekuCerts))])
		}
		g.Emitf("c07 eku %s %s", strings.Join(cs, ";"), ekuReqs[r.Intn(len(ekuReqs))])
	}
}

func init() {
	zv.Register(&zv.Prop{ID: "C07", Topic: "c07", Gen: gen, Exec: exec,
		Rule: "random PKIs of 3-7 real Ed25519 certificates (layered: 70% issued by an earlier certificate, 15% by any certificate incl. later ones and itself (cross-signs, loops), 15% self-signed; 30% cross-signed twins sharing subject+key with an earlier certificate, half of them under the same issuer as their twin; shared key ids; random BasicConstraints/IsCA/MaxPathLen, KeyUsage, EKU sets incl. Any/SGC/unknown, validity windows incl. empty intersections, AKID present/absent/wrong, 10% bad signatures) x 8 queries each (leaf, root subset, intermediate subset and order, nil intermediates, verification time incl. exact NotBefore/NotAfter boundaries, requested key usages, DNS name). The abstract PKI (identities, flags, times, real-signature sigOK matrix) is sent to the model; compared: error kind and the multiset of chains per class. T3 = independent path checker applying the property's sentence to every returned chain, date-class check, nil-error check. Every returned chain is also looked up in an independent enumeration of all valid chains (second soundness oracle); chains of that enumeration that are NOT returned are tagged (completeness is not part of the property; false for the memoised builder: fixed counter-example PKI memoSeed, Lean memo_lost_chain). Plus `c07 vsd`: the same queries through ValidateWithStupidDetail (3 of 8 per PKI): compared chains, error kind, BrowserTrusted, kind of BrowserError, MatchesDomain, Domain; T3 = returned chains valid and current, nil error => chain + name match, BrowserTrusted <=> chain returned. Plus `c07 eku`: checkChainForKeyUsage alone (verif hook) on all chains of <= 2 certificates over 13 EKU shapes x 18 request lists (incl. empty list, sentinel -1, duplicates, SGC) and random chains of 3-6; model compared, T3 = the declarative rule UsageSpec re-implemented in the harness. Plus `c07 isvalid`: isValid alone (verif hook) for every certificate type x BasicConstraints/IsCA x 9 path-length limits x current chains of 0..14 certificates (the guard that bounds the recursion depth)."})
}
