// Package c22: pkix.Name <-> RDNSequence conversions (x509/pkix/pkix.go: FillFromRDNSequence, appendRDNs,
// ToRDNSequence) through the public API, plus the DER leg through encoding/asn1.
//
// Line protocol (one token per argument):
//
//	c22 t <name>          ToRDNSequence of a Name built from its fields, then FillFromRDNSequence of the result
//	c22 f <seq>           FillFromRDNSequence into a zero Name, then ToRDNSequence with OriginalRDNS kept / reset to nil
//	c22 a <name> <seq>    FillFromRDNSequence into an already populated Name (append semantics)
//	c22 s                 the declaration of pkix.RDNSequence (reflection: slice types, the "SET" name suffix, field order and struct
//	                      tags through the real parseFieldParameters; interface{} rendered as the string kind that stands in
//	                      for it) against the model's schema term rdnSchema
//	c22 u <der hex>       the parse direction on arbitrary DER (see any.go): asn1.Unmarshal into pkix.RDNSequence (ANY arm of
//	                      parseField) -> FillFromRDNSequence -> ToRDNSequence (-> asn1.Marshal when all values are strings)
//	c22 d <name>          the DER leg: asn1.Marshal(ToRDNSequence(name)) -> asn1.Unmarshal (strict) -> FillFromRDNSequence;
//	                      the Lean side runs the same pipeline through its model of encoding/asn1 (ZV.Model.C18) on the schema
//	                      SEQUENCE OF SET OF SEQUENCE {OID, string}; bytes, decoded sequence and filled Name are compared
//
//	name  = "-" | item{,item}      item = Key:hex{;hex}  (Key = Go field name; one value per hex, "" = empty string)
//	                                      | CommonName:hex | SerialNumber:hex | X:atv{;atv} (ExtraNames) | N:atv{;atv} (Names)
//	seq   = "nil" | "-" | rdn{,rdn}   rdn = "e" (empty RDN) | atv{+atv}
//	atv   = oid=val     oid = dotted decimal | "_" (empty OID)     val = "s"hex (Go string) | "o"tag"."hex (non-string)
//
// Output: t: "<seq> | <name dump>"   f: "<name dump> | <seq kept> | <seq reset>"   a: "<name dump> | <seq kept>"
// d: "<der hex> | <decoded seq> | rest=<n> | <name dump> dom=<0|1>"  or  "merr dom=…" (Marshal fails)  or  "<der hex> uerr dom=…"
// (Unmarshal fails); dom = the sequence is in the domain of the Lean theorem name_der_roundtrip (ZV.C22.seqOK).
// name dump = name items in struct order (only non-empty fields) + " O=" + seq(OriginalRDNS).
package c22

import (
	"bytes"
	"encoding/binary"
	"encoding/hex"
	"fmt"
	"reflect"
	"sort"
	"strconv"
	"strings"
	"unicode/utf8"

	"github.com/zmap/zcrypto/encoding/asn1"
	"github.com/zmap/zcrypto/x509/pkix"

	"zv/internal/zv"
)

// ---- field access (struct declaration order) ----

type fieldAcc struct {
	key    string
	slice  func(*pkix.Name) *[]string
	scalar func(*pkix.Name) *string
}

var fields = []fieldAcc{
	{key: "Country", slice: func(n *pkix.Name) *[]string { return &n.Country }},
	{key: "Organization", slice: func(n *pkix.Name) *[]string { return &n.Organization }},
	{key: "OrganizationalUnit", slice: func(n *pkix.Name) *[]string { return &n.OrganizationalUnit }},
	{key: "Locality", slice: func(n *pkix.Name) *[]string { return &n.Locality }},
	{key: "Province", slice: func(n *pkix.Name) *[]string { return &n.Province }},
	{key: "StreetAddress", slice: func(n *pkix.Name) *[]string { return &n.StreetAddress }},
	{key: "PostalCode", slice: func(n *pkix.Name) *[]string { return &n.PostalCode }},
	{key: "DomainComponent", slice: func(n *pkix.Name) *[]string { return &n.DomainComponent }},
	{key: "EmailAddress", slice: func(n *pkix.Name) *[]string { return &n.EmailAddress }},
	{key: "SerialNumber", scalar: func(n *pkix.Name) *string { return &n.SerialNumber }},
	{key: "CommonName", scalar: func(n *pkix.Name) *string { return &n.CommonName }},
	{key: "SerialNumbers", slice: func(n *pkix.Name) *[]string { return &n.SerialNumbers }},
	{key: "CommonNames", slice: func(n *pkix.Name) *[]string { return &n.CommonNames }},
	{key: "GivenName", slice: func(n *pkix.Name) *[]string { return &n.GivenName }},
	{key: "Surname", slice: func(n *pkix.Name) *[]string { return &n.Surname }},
	{key: "OrganizationIDs", slice: func(n *pkix.Name) *[]string { return &n.OrganizationIDs }},
	{key: "JurisdictionLocality", slice: func(n *pkix.Name) *[]string { return &n.JurisdictionLocality }},
	{key: "JurisdictionProvince", slice: func(n *pkix.Name) *[]string { return &n.JurisdictionProvince }},
	{key: "JurisdictionCountry", slice: func(n *pkix.Name) *[]string { return &n.JurisdictionCountry }},
}

func fieldByKey(k string) *fieldAcc {
	for i := range fields {
		if fields[i].key == k {
			return &fields[i]
		}
	}
	return nil
}

// ---- the property's own statement of which attribute type belongs to which field (independent of pkix.go) ----
// RFC 5280 / X.520 / CABF EV / ETSI QWAC attribute types.

type refRow struct {
	oid     string
	field   string // slice field receiving the values on parse
	scalar  string // scalar receiving the last value on parse ("" = none)
	emitted bool   // ToRDNSequence emits this field
}

// emission order of ToRDNSequence as documented by this property (CN first ... serialNumber last)
var refRows = []refRow{
	{"2.5.4.3", "CommonNames", "CommonName", true},
	{"1.2.840.113549.1.9.1", "EmailAddress", "", true},
	{"2.5.4.11", "OrganizationalUnit", "", true},
	{"2.5.4.10", "Organization", "", true},
	{"2.5.4.9", "StreetAddress", "", true},
	{"2.5.4.7", "Locality", "", true},
	{"2.5.4.8", "Province", "", true},
	{"2.5.4.17", "PostalCode", "", true},
	{"2.5.4.6", "Country", "", true},
	{"0.9.2342.19200300.100.1.25", "DomainComponent", "", true},
	{"1.3.6.1.4.1.311.60.2.1.1", "JurisdictionLocality", "", true},
	{"1.3.6.1.4.1.311.60.2.1.2", "JurisdictionProvince", "", true},
	{"1.3.6.1.4.1.311.60.2.1.3", "JurisdictionCountry", "", true},
	{"2.5.4.97", "OrganizationIDs", "", true},
	{"2.5.4.5", "SerialNumbers", "SerialNumber", true},
	// parsed but never emitted
	{"2.5.4.4", "Surname", "", false},
	{"2.5.4.42", "GivenName", "", false},
}

func refByOID(o string) *refRow {
	for i := range refRows {
		if refRows[i].oid == o {
			return &refRows[i]
		}
	}
	return nil
}

// ---- values ----

// non-string attribute values: a Go value per tag, so that several dynamic types pass through `atv.Value.(string)`.
func mkOther(tag int, raw []byte) interface{} {
	switch tag {
	case 1:
		return len(raw) > 0 && raw[0] != 0
	case 2:
		var b [8]byte
		copy(b[8-min(len(raw), 8):], raw)
		return int64(binary.BigEndian.Uint64(b[:]))
	case 3:
		return asn1.BitString{Bytes: raw, BitLength: 8 * len(raw)}
	case 4:
		return append([]byte{}, raw...)
	case 5:
		return nil
	default:
		return asn1.RawValue{Tag: tag, Bytes: raw}
	}
}

// canonical text of a value (inverse of mkOther on the forms the generator produces)
func valStr(v interface{}) string {
	switch x := v.(type) {
	case string:
		return "s" + hex.EncodeToString([]byte(x))
	case bool:
		if x {
			return "o1.ff"
		}
		return "o1.00"
	case int64:
		var b [8]byte
		binary.BigEndian.PutUint64(b[:], uint64(x))
		return "o2." + hex.EncodeToString(b[:])
	case asn1.BitString:
		return "o3." + hex.EncodeToString(x.Bytes)
	case []byte:
		return "o4." + hex.EncodeToString(x)
	case nil:
		return "o5."
	case asn1.RawValue:
		return "o" + strconv.Itoa(x.Tag) + "." + hex.EncodeToString(x.Bytes)
	}
	return fmt.Sprintf("?%T", v)
}

func parseVal(s string) interface{} {
	if s[0] == 's' {
		b, err := hex.DecodeString(s[1:])
		if err != nil {
			panic("bad value " + s)
		}
		return string(b)
	}
	i := strings.IndexByte(s, '.')
	tag, _ := strconv.Atoi(s[1:i])
	raw, err := hex.DecodeString(s[i+1:])
	if err != nil {
		panic("bad value " + s)
	}
	return mkOther(tag, raw)
}

func oidStr(o asn1.ObjectIdentifier) string {
	if len(o) == 0 {
		return "_"
	}
	return o.String()
}

func parseOID(s string) asn1.ObjectIdentifier {
	if s == "_" {
		return asn1.ObjectIdentifier{}
	}
	var o asn1.ObjectIdentifier
	for _, p := range strings.Split(s, ".") {
		k, err := strconv.Atoi(p)
		if err != nil {
			panic("bad oid " + s)
		}
		o = append(o, k)
	}
	return o
}

func atvStr(a pkix.AttributeTypeAndValue) string { return oidStr(a.Type) + "=" + valStr(a.Value) }

func parseATV(s string) pkix.AttributeTypeAndValue {
	i := strings.IndexByte(s, '=')
	return pkix.AttributeTypeAndValue{Type: parseOID(s[:i]), Value: parseVal(s[i+1:])}
}

func atvsStr(l []pkix.AttributeTypeAndValue, sep string) string {
	ss := make([]string, len(l))
	for i, a := range l {
		ss[i] = atvStr(a)
	}
	return strings.Join(ss, sep)
}

func seqStr(s pkix.RDNSequence) string {
	if s == nil {
		return "nil"
	}
	if len(s) == 0 {
		return "-"
	}
	ss := make([]string, len(s))
	for i, r := range s {
		if len(r) == 0 {
			ss[i] = "e"
		} else {
			ss[i] = atvsStr(r, "+")
		}
	}
	return strings.Join(ss, ",")
}

func parseSeq(s string) pkix.RDNSequence {
	if s == "nil" {
		return nil
	}
	seq := pkix.RDNSequence{}
	if s == "-" {
		return seq
	}
	for _, r := range strings.Split(s, ",") {
		rdn := pkix.RelativeDistinguishedNameSET{}
		if r != "e" {
			for _, a := range strings.Split(r, "+") {
				rdn = append(rdn, parseATV(a))
			}
		}
		seq = append(seq, rdn)
	}
	return seq
}

func hexList(l []string) string {
	ss := make([]string, len(l))
	for i, v := range l {
		ss[i] = hex.EncodeToString([]byte(v))
	}
	return strings.Join(ss, ";")
}

func nameItems(n *pkix.Name) string {
	var items []string
	for _, f := range fields {
		if f.slice != nil {
			if l := *f.slice(n); len(l) > 0 {
				items = append(items, f.key+":"+hexList(l))
			}
		} else if v := *f.scalar(n); len(v) > 0 {
			items = append(items, f.key+":"+hex.EncodeToString([]byte(v)))
		}
	}
	if len(n.Names) > 0 {
		items = append(items, "N:"+atvsStr(n.Names, ";"))
	}
	if len(n.ExtraNames) > 0 {
		items = append(items, "X:"+atvsStr(n.ExtraNames, ";"))
	}
	if len(items) == 0 {
		return "-"
	}
	return strings.Join(items, ",")
}

func nameDump(n *pkix.Name) string { return nameItems(n) + " O=" + seqStr(n.OriginalRDNS) }

func parseName(s string) pkix.Name {
	var n pkix.Name
	if s == "-" {
		return n
	}
	for _, it := range strings.Split(s, ",") {
		i := strings.IndexByte(it, ':')
		key, body := it[:i], it[i+1:]
		switch key {
		case "N", "X":
			var l []pkix.AttributeTypeAndValue
			for _, a := range strings.Split(body, ";") {
				l = append(l, parseATV(a))
			}
			if key == "N" {
				n.Names = l
			} else {
				n.ExtraNames = l
			}
			continue
		}
		f := fieldByKey(key)
		if f == nil {
			panic("bad field key " + key)
		}
		if f.scalar != nil {
			b, err := hex.DecodeString(body)
			if err != nil {
				panic("bad hex " + body)
			}
			*f.scalar(&n) = string(b)
			continue
		}
		var l []string
		for _, h := range strings.Split(body, ";") {
			b, err := hex.DecodeString(h)
			if err != nil {
				panic("bad hex " + h)
			}
			l = append(l, string(b))
		}
		*f.slice(&n) = l
	}
	return n
}

// ---- T3: the property, stated independently of pkix.go ----

// expected fields after FillFromRDNSequence of a flat attribute list (document order), per refRows
func expectFill(flat []pkix.AttributeTypeAndValue) (sl map[string][]string, sc map[string]string) {
	sl, sc = map[string][]string{}, map[string]string{}
	for _, a := range flat {
		v, ok := a.Value.(string)
		if !ok {
			continue
		}
		r := refByOID(a.Type.String())
		if r == nil {
			continue
		}
		sl[r.field] = append(sl[r.field], v)
		if r.scalar != "" {
			sc[r.scalar] = v
		}
	}
	return
}

// what the attribute list of ToRDNSequence(n) must be, RDN by RDN, per refRows (OriginalRDNS == nil)
func expectSeq(n *pkix.Name) pkix.RDNSequence {
	var seq pkix.RDNSequence
	for _, r := range refRows {
		if !r.emitted {
			continue
		}
		var vals []string
		if r.scalar != "" {
			if v := *fieldByKey(r.scalar).scalar(n); v != "" {
				vals = []string{v}
			}
		} else {
			vals = *fieldByKey(r.field).slice(n)
		}
		if len(vals) == 0 {
			continue
		}
		var rdn pkix.RelativeDistinguishedNameSET
		for _, v := range vals {
			rdn = append(rdn, pkix.AttributeTypeAndValue{Type: parseOID(r.oid), Value: v})
		}
		seq = append(seq, rdn)
	}
	for _, a := range n.ExtraNames {
		seq = append(seq, pkix.RelativeDistinguishedNameSET{a})
	}
	return seq
}

func flatten(s pkix.RDNSequence) []pkix.AttributeTypeAndValue {
	var l []pkix.AttributeTypeAndValue
	for _, r := range s {
		l = append(l, r...)
	}
	return l
}

func sortedCopy(l []string) []string {
	c := append([]string{}, l...)
	sort.Strings(c)
	return c
}

func sameList(a, b []string) bool {
	if len(a) != len(b) {
		return false
	}
	for i := range a {
		if a[i] != b[i] {
			return false
		}
	}
	return true
}

// checkFilled compares every field of m with the expectation; multiset = true compares slices up to order.
func checkFilled(m *pkix.Name, flat []pkix.AttributeTypeAndValue, multiset bool, what string) string {
	sl, sc := expectFill(flat)
	for _, f := range fields {
		if f.slice != nil {
			got, want := *f.slice(m), sl[f.key]
			if multiset {
				got, want = sortedCopy(got), sortedCopy(want)
			}
			if !sameList(got, want) {
				return fmt.Sprintf("%s: field %s = %q, the attributes of that type are %q", what, f.key, *f.slice(m), sl[f.key])
			}
		} else if *f.scalar(m) != sc[f.key] {
			return fmt.Sprintf("%s: field %s = %q, want %q (last attribute of that type)", what, f.key, *f.scalar(m), sc[f.key])
		}
	}
	if len(m.Names) != len(flat) {
		return fmt.Sprintf("%s: Names has %d entries for %d attributes", what, len(m.Names), len(flat))
	}
	return ""
}

func atvKey(a pkix.AttributeTypeAndValue) string { return atvStr(a) }

func rdnMultisetEq(a, b pkix.RelativeDistinguishedNameSET) bool {
	if len(a) != len(b) {
		return false
	}
	x, y := make([]string, len(a)), make([]string, len(b))
	for i := range a {
		x[i], y[i] = atvKey(a[i]), atvKey(b[i])
	}
	sort.Strings(x)
	sort.Strings(y)
	return sameList(x, y)
}

func encodable(s pkix.RDNSequence) bool {
	for _, r := range s {
		for _, a := range r {
			v, ok := a.Value.(string)
			if !ok || !utf8.ValidString(v) {
				return false
			}
			if len(a.Type) < 2 || a.Type[0] > 2 || (a.Type[0] < 2 && a.Type[1] >= 40) {
				return false
			}
			for _, k := range a.Type {
				if k < 0 {
					return false
				}
			}
		}
	}
	return true
}

// inLeanDomain mirrors ZV.C22.seqOK (the decidable domain of the Lean theorem name_der_roundtrip): every value a Go string
// that is valid UTF-8, every attribute type an OBJECT IDENTIFIER that Marshal accepts and strict Unmarshal reads back
// (>= 2 arcs, first <= 2, second < 40 unless the first is 2, first sub-identifier and all further arcs < 2^31).
func inLeanDomain(s pkix.RDNSequence) bool {
	for _, r := range s {
		for _, a := range r {
			v, ok := a.Value.(string)
			if !ok || !utf8.ValidString(v) {
				return false
			}
			t := a.Type
			if len(t) < 2 || t[0] < 0 || t[0] > 2 || t[1] < 0 || (t[0] != 2 && t[1] >= 40) || t[0]*40+t[1] > 2147483647 {
				return false
			}
			for _, k := range t[2:] {
				if k < 0 || k > 2147483647 {
					return false
				}
			}
		}
	}
	return true
}

// isCanonical: the sequences ToRDNSequence can produce from fields alone (no ExtraNames), stated over refRows.
func isCanonical(s pkix.RDNSequence) bool {
	pos := -1
	for _, rdn := range s {
		if len(rdn) == 0 {
			return false
		}
		o := rdn[0].Type.String()
		idx := -1
		for i, r := range refRows {
			if r.emitted && r.oid == o {
				idx = i
			}
		}
		if idx <= pos {
			return false
		}
		pos = idx
		for _, a := range rdn {
			if _, ok := a.Value.(string); !ok || a.Type.String() != o {
				return false
			}
		}
		if refRows[idx].scalar != "" && (len(rdn) != 1 || rdn[0].Value.(string) == "") {
			return false
		}
	}
	return true
}

// derLeg: Marshal -> Unmarshal (strict) -> Fill; members of one RDN may come back permuted (DER SET OF), nothing else may change.
func derLeg(seq pkix.RDNSequence, tags *[]string) string {
	der, err := asn1.Marshal(seq)
	if err != nil {
		return "DER leg: Marshal(ToRDNSequence(n)) failed on valid UTF-8 strings: " + err.Error()
	}
	var dec pkix.RDNSequence
	rest, err := asn1.Unmarshal(der, &dec)
	if err != nil {
		return "DER leg: Unmarshal of the marshalled sequence failed: " + err.Error()
	}
	if len(rest) != 0 {
		return "DER leg: trailing bytes after the marshalled sequence"
	}
	if len(dec) != len(seq) {
		return fmt.Sprintf("DER leg: %d RDNs encoded, %d decoded", len(seq), len(dec))
	}
	permuted := false
	for i := range seq {
		if !rdnMultisetEq(seq[i], dec[i]) {
			return fmt.Sprintf("DER leg: RDN %d decoded as %s, encoded from %s", i, atvsStr(dec[i], "+"), atvsStr(seq[i], "+"))
		}
		if !reflect.DeepEqual(seq[i], dec[i]) {
			permuted = true
		}
	}
	if permuted {
		*tags = append(*tags, "der:set-of-permuted")
	} else {
		*tags = append(*tags, "der:order-kept")
	}
	var m pkix.Name
	m.FillFromRDNSequence(&dec)
	// every field as a multiset of what was encoded; the scalars exactly (single-valued RDNs keep their place)
	if v := checkFilled(&m, flatten(seq), true, "DER leg"); v != "" {
		return v
	}
	if back := m.ToRDNSequence(); !reflect.DeepEqual(back, dec) {
		return "DER leg: ToRDNSequence of the Name filled from the decoded sequence is not that sequence"
	}
	der2, err := asn1.Marshal(dec)
	if err != nil || !bytes.Equal(der, der2) {
		return "DER leg: re-marshalling the decoded sequence does not reproduce the bytes"
	}
	return ""
}

// schemaText renders a Go type the way lean/ZV/Drv/C22.lean renders a schema term.
func schemaText(t reflect.Type) string {
	if t == reflect.TypeOf(asn1.ObjectIdentifier{}) {
		return "oid"
	}
	switch t.Kind() {
	case reflect.Interface, reflect.String: // interface{}: represented by the string kind (exact for Go-string values)
		return "str"
	case reflect.Slice:
		k := "L"
		if strings.HasSuffix(t.Name(), "SET") {
			k = "LS"
		}
		return k + "(" + schemaText(t.Elem()) + ")"
	case reflect.Struct:
		var fs []string
		for i := 0; i < t.NumField(); i++ {
			fs = append(fs, asn1.ZVFieldParametersText(t.Field(i).Tag.Get("asn1"))+":"+schemaText(t.Field(i).Type))
		}
		return "{" + strings.Join(fs, ";") + "}"
	}
	panic("schemaText: unsupported type " + t.String())
}

func exec(line string) zv.Out {
	f := strings.Fields(line)
	var tags []string
	switch f[1] {
	case "u":
		return execU(f[2])
	case "s":
		return zv.Out{Go: schemaText(reflect.TypeOf(pkix.RDNSequence(nil))), Tags: []string{"s:schema"}}
	case "t":
		n := parseName(f[2])
		seq := n.ToRDNSequence()
		var m pkix.Name
		m.FillFromRDNSequence(&seq)
		out := seqStr(seq) + " | " + nameDump(&m)
		viol := ""
		want := expectSeq(&n)
		if !reflect.DeepEqual(seq, want) {
			viol = fmt.Sprintf("ToRDNSequence gave %s; the fields in emission order are %s", seqStr(seq), seqStr(want))
		}
		if viol == "" {
			viol = checkFilled(&m, flatten(want), false, "fill(toRDN(n))")
		}
		if viol == "" && !reflect.DeepEqual(m.ToRDNSequence(), seq) {
			viol = "ToRDNSequence(fill(seq)) != seq"
		}
		tags = append(tags, fmt.Sprintf("t:rdns=%d", len(seq)))
		if len(n.ExtraNames) > 0 {
			tags = append(tags, "t:extra-names")
		}
		if n.CommonName == "" {
			tags = append(tags, "t:cn-empty")
		}
		if seq == nil {
			tags = append(tags, "t:nil-result")
		}
		multi := false
		for _, r := range seq {
			if len(r) > 1 {
				multi = true
			}
		}
		if multi {
			tags = append(tags, "t:multi-valued-rdn")
		}
		if encodable(seq) {
			if viol == "" {
				viol = derLeg(seq, &tags)
			}
		} else {
			tags = append(tags, "der:skipped-invalid-utf8-or-non-string")
		}
		return zv.Out{Go: out, Viol: viol, Tags: tags}
	case "d":
		n := parseName(f[2])
		seq := n.ToRDNSequence()
		in := inLeanDomain(seq)
		dom := " dom=0"
		if in {
			dom = " dom=1"
			tags = append(tags, "d:in-domain")
		} else {
			tags = append(tags, "d:outside-domain")
		}
		der, err := asn1.Marshal(seq)
		if err != nil {
			viol := ""
			if in {
				viol = "DER leg: Marshal failed on a sequence of the theorem's domain: " + err.Error()
			}
			return zv.Out{Go: "merr" + dom, Viol: viol, Tags: append(tags, "d:marshal-error")}
		}
		var dec pkix.RDNSequence
		rest, err := asn1.Unmarshal(der, &dec)
		if err != nil {
			viol := ""
			if in {
				viol = "DER leg: strict Unmarshal of Marshal's output failed on a sequence of the theorem's domain: " + err.Error()
			}
			return zv.Out{Go: hex.EncodeToString(der) + " uerr" + dom, Viol: viol, Tags: append(tags, "d:unmarshal-error")}
		}
		var m pkix.Name
		m.FillFromRDNSequence(&dec)
		out := hex.EncodeToString(der) + " | " + seqStr(dec) + " | rest=" + strconv.Itoa(len(rest)) + " | " + nameDump(&m) + dom
		viol := ""
		if in {
			viol = derLeg(seq, &tags)
		}
		for _, r := range seq {
			if len(r) > 1 {
				tags = append(tags, "d:multi-valued-rdn")
				break
			}
		}
		return zv.Out{Go: out, Viol: viol, Tags: tags}
	case "f", "a":
		var n pkix.Name
		si := 2
		if f[1] == "a" {
			n = parseName(f[2])
			si = 3
		}
		seq := parseSeq(f[si])
		flatPre := flattenName(&n)
		n.FillFromRDNSequence(&seq)
		kept := n.ToRDNSequence()
		out := nameDump(&n) + " | " + seqStr(kept)
		viol := ""
		if !reflect.DeepEqual(kept, pkix.RDNSequence(seq)) && !(seq == nil) {
			viol = "ToRDNSequence(fill(seq)) != seq"
		}
		if f[1] == "f" {
			r := n
			r.OriginalRDNS = nil
			reset := r.ToRDNSequence()
			out += " | " + seqStr(reset)
			if viol == "" {
				viol = checkFilled(&n, flatten(seq), false, "fill(seq)")
			}
			if seq == nil && kept != nil && viol == "" {
				viol = "fill(nil sequence) converts back to a non-nil sequence"
			}
			canon := isCanonical(seq)
			same := reflect.DeepEqual(reset, seq) || (len(seq) == 0 && reset == nil)
			if viol == "" && canon != same {
				viol = fmt.Sprintf("canonical=%v but field re-emission reproduces the sequence=%v", canon, same)
			}
			if canon {
				tags = append(tags, "f:canonical")
			} else {
				tags = append(tags, "f:non-canonical")
			}
			if viol == "" && encodable(seq) && canon && len(seq) > 0 {
				viol = derLeg(seq, &tags)
			}
		} else {
			// append semantics: fields = previous values ++ attributes of the sequence
			all := append(append([]pkix.AttributeTypeAndValue{}, flatPre...), flatten(seq)...)
			if v := checkAppend(&n, all); v != "" {
				viol = v
			}
			tags = append(tags, "a:prefilled")
		}
		tags = append(tags, seqTags(seq)...)
		return zv.Out{Go: out, Viol: viol, Tags: tags}
	}
	return zv.Out{Go: "bad-op"}
}

// flattenName: the string fields of a Name as an attribute list that would fill them (for the append check)
func flattenName(n *pkix.Name) []pkix.AttributeTypeAndValue {
	var l []pkix.AttributeTypeAndValue
	for _, r := range refRows {
		for _, v := range *fieldByKey(r.field).slice(n) {
			l = append(l, pkix.AttributeTypeAndValue{Type: parseOID(r.oid), Value: v})
		}
	}
	return l
}

// checkAppend: slice fields only (a pre-set scalar is kept when the sequence has no attribute of its type)
func checkAppend(m *pkix.Name, all []pkix.AttributeTypeAndValue) string {
	sl, _ := expectFill(all)
	for _, f := range fields {
		if f.slice != nil && !sameList(*f.slice(m), sl[f.key]) {
			return fmt.Sprintf("fill into a populated Name: field %s = %q, want previous values followed by the new attributes %q", f.key, *f.slice(m), sl[f.key])
		}
	}
	return ""
}

func seqTags(seq pkix.RDNSequence) []string {
	var t []string
	if seq == nil {
		return []string{"f:nil-seq"}
	}
	if len(seq) == 0 {
		return []string{"f:empty-seq"}
	}
	seen := map[string]bool{}
	for _, r := range seq {
		if len(r) == 0 {
			seen["f:empty-rdn"] = true
		}
		if len(r) > 1 {
			seen["f:multi-valued-rdn"] = true
			for _, a := range r[1:] {
				if !a.Type.Equal(r[0].Type) {
					seen["f:mixed-oids-in-rdn"] = true
				}
			}
		}
		for _, a := range r {
			if _, ok := a.Value.(string); !ok {
				seen["f:non-string-value"] = true
			} else if refByOID(a.Type.String()) == nil {
				seen["f:unknown-oid"] = true
			} else if !refByOID(a.Type.String()).emitted {
				seen["f:parsed-not-emitted-oid"] = true
			}
		}
	}
	for k := range seen {
		t = append(t, k)
	}
	sort.Strings(t)
	return t
}

// ---- generators ----

var pool = []string{
	"", "US", "Example Org", "a", "*.example.com", "R&D", "user@example.com", "a,b", "a+b", "\"q\"", "back\\slash",
	"#hash", " lead", "trail ", "Zürich", "日本", "café ☃", "US", "x=y;z<w>", "\xff\xfe", "\xc3", "a\x00b", "é",
}

const valAlphabet = " abcXYZ019'()+,-./:=?*&@\"\\#"

// randVal: safe = only values asn1.Marshal can encode (valid UTF-8)
func randVal(r *zv.Rng, safe bool) string {
	for {
		v := randVal1(r)
		if !safe || utf8.ValidString(v) {
			return v
		}
	}
}

func randVal1(r *zv.Rng) string {
	switch r.Intn(10) {
	case 0:
		n := r.Intn(6)
		b := make([]byte, n)
		for i := range b {
			b[i] = valAlphabet[r.Intn(len(valAlphabet))]
		}
		return string(b)
	case 1:
		return string(r.Bytes(r.Intn(4)))
	default:
		return pool[r.Intn(len(pool))]
	}
}

var extraOIDs = []string{"2.5.4.12", "2.5.4.99", "1.2.3", "2.5.4", "2.5.4.3.1", "2.5.5.3", "0.9.2342.19200300.100.1.1", "2.5.4.0", "1.2.840.113549.1.9.2", "1.3.6.1.4.1.311.60.2.1.4"}

func randOID(r *zv.Rng, known int) string {
	if r.Chance(known) {
		return refRows[r.Intn(len(refRows))].oid
	}
	if r.Chance(5) {
		return "_"
	}
	return extraOIDs[r.Intn(len(extraOIDs))]
}

func randOther(r *zv.Rng) string {
	tags := []int{1, 2, 3, 4, 5, 12, 19, 30}
	t := tags[r.Intn(len(tags))]
	switch t {
	case 1:
		if r.Bool() {
			return "o1.ff"
		}
		return "o1.00"
	case 2:
		return "o2." + hex.EncodeToString(r.Bytes(8))
	case 5:
		return "o5."
	}
	return fmt.Sprintf("o%d.%s", t, hex.EncodeToString(r.Bytes(r.Intn(4))))
}

func atvLine(oid, v string) string { return oid + "=s" + hex.EncodeToString([]byte(v)) }

func randATV(r *zv.Rng, known, nonString int, safe bool) string {
	o := randOID(r, known)
	for safe && o == "_" {
		o = randOID(r, known)
	}
	if !safe && r.Chance(nonString) {
		return o + "=" + randOther(r)
	}
	return atvLine(o, randVal(r, safe))
}

func randName(r *zv.Rng, density int, extras, safe bool) string {
	var items []string
	for _, f := range fields {
		if !r.Chance(density) {
			continue
		}
		if f.scalar != nil {
			if v := randVal(r, safe); v != "" {
				items = append(items, f.key+":"+hex.EncodeToString([]byte(v)))
			}
			continue
		}
		k := 1 + r.Intn(3)
		var l []string
		for i := 0; i < k; i++ {
			if i > 0 && r.Chance(15) {
				l = append(l, l[r.Intn(len(l))]) // duplicate
			} else {
				l = append(l, randVal(r, safe))
			}
		}
		items = append(items, f.key+":"+hexList(l))
	}
	if extras && r.Chance(30) {
		k := 1 + r.Intn(3)
		var l []string
		for i := 0; i < k; i++ {
			l = append(l, randATV(r, 60, 10, safe))
		}
		items = append(items, "X:"+strings.Join(l, ";"))
	}
	if r.Chance(5) { // Names is ignored by ToRDNSequence
		items = append(items, "N:"+randATV(r, 50, 20, false))
	}
	if len(items) == 0 {
		return "-"
	}
	return strings.Join(items, ",")
}

// canonical sequence: emitted rows in order, each with probability density
func randCanonical(r *zv.Rng, density int, safe bool) []string {
	var rdns []string
	for _, row := range refRows {
		if !row.emitted || !r.Chance(density) {
			continue
		}
		k := 1 + r.Intn(3)
		if row.scalar != "" {
			k = 1
		}
		var l []string
		for i := 0; i < k; i++ {
			v := randVal(r, safe)
			if row.scalar != "" && v == "" {
				v = "x"
			}
			l = append(l, atvLine(row.oid, v))
		}
		rdns = append(rdns, strings.Join(l, "+"))
	}
	return rdns
}

func joinSeq(rdns []string) string {
	if len(rdns) == 0 {
		return "-"
	}
	return strings.Join(rdns, ",")
}

func randSeq(r *zv.Rng) string {
	switch r.Intn(12) {
	case 0:
		if r.Bool() {
			return "nil"
		}
		return "-"
	case 1, 2, 3: // canonical
		return joinSeq(randCanonical(r, 10+r.Intn(60), r.Chance(75)))
	case 4, 5: // canonical, then one perturbation
		rd := randCanonical(r, 20+r.Intn(50), false)
		if len(rd) == 0 {
			return "e"
		}
		i := r.Intn(len(rd))
		switch r.Intn(7) {
		case 0: // swap two RDNs
			j := r.Intn(len(rd))
			rd[i], rd[j] = rd[j], rd[i]
		case 1: // repeat an RDN
			rd = append(rd, rd[i])
		case 2: // empty RDN
			rd[i] = "e"
		case 3: // foreign member inside an RDN
			rd[i] += "+" + randATV(r, 70, 0, false)
		case 4: // non-string member
			rd[i] += "+" + strings.SplitN(rd[i], "=", 2)[0] + "=" + randOther(r)
		case 5: // unknown attribute type appended
			rd = append(rd, randATV(r, 0, 0, false))
		case 6: // empty CN / serial
			rd[i] = strings.SplitN(rd[i], "=", 2)[0] + "=s"
		}
		return joinSeq(rd)
	default: // free form
		k := r.Intn(6)
		var rd []string
		for i := 0; i < k; i++ {
			m := r.Intn(4)
			if m == 0 {
				rd = append(rd, "e")
				continue
			}
			var l []string
			o := randOID(r, 80)
			for j := 0; j < m; j++ {
				if r.Chance(25) {
					l = append(l, randATV(r, 80, 15, false))
				} else if r.Chance(8) {
					l = append(l, o+"="+randOther(r))
				} else {
					l = append(l, atvLine(o, randVal(r, false)))
				}
			}
			rd = append(rd, strings.Join(l, "+"))
		}
		return joinSeq(rd)
	}
}

func gen(g *zv.Gen) {
	r := g.Rng
	// corpus
	g.Emit("c22 t -")
	g.Emit("c22 f nil")
	g.Emit("c22 f -")
	g.Emit("c22 f e")
	g.Emit("c22 f e,e")
	g.Emit("c22 t CommonName:6578616d706c652e636f6d,Country:5553;4445,Organization:41636d65")
	g.Emit("c22 f 2.5.4.3=s61,2.5.4.3=s62")
	g.Emit("c22 f 2.5.4.3=s")
	g.Emit("c22 f 2.5.4.6=s5553+2.5.4.10=s41")
	g.Emit("c22 f 2.5.4.3=o4.6162")
	g.Emit("c22 f 2.5.4.3.1=s61,2.5.4=s62,_=s63")
	g.Emit("c22 a Country:5553,CommonName:61 2.5.4.6=s4445")
	// every field alone with every pool value (1 and 2 values), every pair of fields
	for _, f := range fields {
		for _, v := range pool {
			h := hex.EncodeToString([]byte(v))
			g.Emitf("c22 t %s:%s", f.key, h)
			if f.slice != nil {
				g.Emitf("c22 t %s:%s;%s", f.key, h, hex.EncodeToString([]byte(pool[(len(v)+3)%len(pool)])))
			}
		}
	}
	for i, a := range fields {
		for j, b := range fields {
			if i < j {
				g.Emitf("c22 t %s:41,%s:42", a.key, b.key)
			}
		}
	}
	// every known / unknown attribute type alone, as string and as non-string, single and double
	for _, row := range refRows {
		g.Emitf("c22 f %s=s4142", row.oid)
		g.Emitf("c22 f %s=s", row.oid)
		g.Emitf("c22 f %s=s41+%s=s42", row.oid, row.oid)
		g.Emitf("c22 f %s=o4.4142", row.oid)
		g.Emitf("c22 t X:%s=s4142", row.oid)
	}
	// every conjunct of the prefix guard `len(t) == 4 && t[0] == 2 && t[1] == 5 && t[2] == 4` falsified alone, for every switch key
	for _, k := range []int{3, 4, 5, 6, 7, 8, 9, 10, 11, 17, 42, 97} {
		for _, pat := range []string{"1.5.4.%d", "0.5.4.%d", "2.4.4.%d", "2.6.4.%d", "2.5.3.%d", "2.5.5.%d", "2.5.4.%d.0", "2.5.4.4.%d", "5.4.%d", "2.2.5.4.%d"} {
			g.Emitf("c22 f "+pat+"=s4142", k)
		}
	}
	// proper prefixes / extensions of the else-if chain OIDs
	for _, o := range []string{"0.9.2342.19200300.100.1", "0.9.2342.19200300.100.1.25.0", "1.2.840.113549.1.9", "1.2.840.113549.1.9.1.0", "1.3.6.1.4.1.311.60.2.1", "1.3.6.1.4.1.311.60.2.1.3.0", "1.3.6.1.4.1.311.60.2.1.0"} {
		g.Emitf("c22 f %s=s4142", o)
	}
	for _, o := range extraOIDs {
		g.Emitf("c22 f %s=s4142", o)
		g.Emitf("c22 t X:%s=s4142", o)
	}
	// exhaustive: all sequences of <= 2 RDNs with <= 2 attributes over a small alphabet
	alphaO := []string{"2.5.4.3", "2.5.4.10", "2.5.4.5", "2.5.4.12"}
	alphaV := []string{"s41", "s"}
	if !g.Quick {
		alphaO = append(alphaO, "2.5.4.6", "1.2.840.113549.1.9.1")
		alphaV = append(alphaV, "o2.0000000000000001")
	}
	var atoms []string
	for _, o := range alphaO {
		for _, v := range alphaV {
			atoms = append(atoms, o+"="+v)
		}
	}
	rdnsAll := []string{"e"}
	for _, a := range atoms {
		rdnsAll = append(rdnsAll, a)
		for _, b := range atoms {
			rdnsAll = append(rdnsAll, a+"+"+b)
		}
	}
	for _, a := range rdnsAll {
		g.Emit("c22 f " + a)
		for _, b := range rdnsAll {
			g.Emit("c22 f " + a + "," + b)
		}
	}
	// random names
	n := g.N(6000, 320000)
	for i := 0; i < n; i++ {
		g.Emit("c22 t " + randName(r, 5+r.Intn(60), true, r.Chance(75)))
	}
	// random sequences
	n = g.N(6000, 300000)
	for i := 0; i < n; i++ {
		g.Emit("c22 f " + randSeq(r))
	}
	// the DER leg through the Lean model of encoding/asn1 (string-valued attributes only: a non-string interface{} value
	// has no counterpart in the schema)
	g.Emit("c22 s")
	g.Emit("c22 d -")
	g.Emit("c22 d CommonName:6578616d706c652e636f6d,Country:5553;4445,Organization:41636d65")
	g.Emit("c22 d Country:5553;44;4445;;5553,Organization:c3a9;41;2a;26;41")
	for _, o := range []string{"2.999.2147483647", "2.2147483567", "2.2147483568", "1.2.2147483648", "1.40", "3.1", "2", "_", "0.39.0", "2.0", "1.2.840.113549.1.9.1"} {
		g.Emitf("c22 d X:%s=s4142", o)
	}
	for _, f := range fields {
		for _, v := range pool {
			h := hex.EncodeToString([]byte(v))
			g.Emitf("c22 d %s:%s", f.key, h)
			if f.slice != nil {
				g.Emitf("c22 d %s:%s;%s;%s", f.key, h, hex.EncodeToString([]byte(pool[(len(v)+3)%len(pool)])), hex.EncodeToString([]byte(pool[(len(v)+7)%len(pool)])))
			}
		}
	}
	n = g.N(5000, 250000)
	for i := 0; i < n; i++ {
		var line string
		if r.Chance(30) { // one or two fields with many values: exercises the SET OF sort
			var items []string
			for k := 1 + r.Intn(2); k > 0; k-- {
				f := fields[r.Intn(len(fields))]
				if f.slice == nil {
					continue
				}
				m := 2 + r.Intn(6)
				var l []string
				for j := 0; j < m; j++ {
					l = append(l, randVal(r, r.Chance(90)))
				}
				items = append(items, f.key+":"+hexList(l))
			}
			if len(items) == 0 || (len(items) == 2 && strings.SplitN(items[0], ":", 2)[0] == strings.SplitN(items[1], ":", 2)[0]) {
				continue
			}
			line = strings.Join(items, ",")
		} else {
			line = randName(r, 5+r.Intn(60), true, r.Chance(80))
		}
		if strings.Contains(line, "=o") {
			continue
		}
		g.Emit("c22 d " + line)
	}
	// the parse direction on DER built by hand (ANY arm of parseField)
	genForeign(g)
	// fill into a populated name
	n = g.N(1000, 40000)
	for i := 0; i < n; i++ {
		g.Emit("c22 a " + randName(r, 5+r.Intn(40), false, false) + " " + randSeq(r))
	}
}

func init() {
	zv.Register(&zv.Prop{ID: "C22", Topic: "c22", Gen: gen, Exec: exec,
		Rule: "t: Names with 0-3 values per field (19 fields, ExtraNames, Names) from a pool of empty/printable/UTF-8/special-character/invalid-UTF-8 values, every field alone with every pool value, every pair of fields; f: every sequence of <=2 RDNs x <=2 attributes over a small alphabet (exhaustive), canonical / perturbed / free-form random sequences incl. nil, empty, empty RDNs, unknown and non-emitted types, mixed RDNs, non-string values; a: fill into a populated Name; d: Names (every field alone with every pool value, 1 and 3 values; random names with string-valued ExtraNames; fields with 2-7 values; boundary OIDs) through Marshal -> strict Unmarshal -> Fill, compared with the Lean pipeline over its encoding/asn1 model (bytes, decoded sequence, filled Name, membership in the theorem's domain). A case is one distinct line. u: DER built by hand, independent of encoding/asn1 (every table attribute type x every universal tag 0..30 x 5 contents, every identifier octet, every pool value under every string tag incl. BMPString, UTCTime/GeneralizedTime bodies, a certificate-style name and all its truncations, Marshal outputs, random names over 19 value kinds with structural faults: SET/SEQUENCE swapped, missing/extra/reordered members, empty SETs, truncation, trailing bytes, bit flips, wrong lengths) through the real Unmarshal -> Fill -> ToRDNSequence -> Marshal, compared with the model of the ANY arm (ZV.Model.C22Any). T3 = independent field/OID table in the harness, plus on u an independent element scanner with its own table of the tags that become Go strings: exact equality on the pure legs, per-RDN multiset equality + byte-identical re-marshal on the DER leg, canonical <=> re-emission reproduces the sequence"})
}
