package c22

// c22 u <der hex | ->   the PARSE direction on DER that asn1.Marshal did not produce: the real asn1.Unmarshal (strict) into a
//                       pkix.RDNSequence — the attribute value goes through the ANY arm of parseField —, FillFromRDNSequence,
//                       ToRDNSequence, and (when every value is a Go string) asn1.Marshal of the decoded sequence.
// Output: "uerr"  or  "<decoded seq> | rest=<n> | <name dump> | <ToRDNSequence> | re=<hex|merr|skip>".
// Values that are not Go strings print as o<tag>.<hex>: int64 o2.<8 bytes BE>, BitString o3.<pad><bytes>, []byte o4.<bytes>,
// nil o5., ObjectIdentifier o6.<dotted text>, time.Time o23.<Unix seconds, 8 bytes BE>.

import (
	"bytes"
	"encoding/binary"
	"encoding/hex"
	"fmt"
	"reflect"
	"strconv"
	"strings"
	"time"

	"github.com/zmap/zcrypto/encoding/asn1"
	"github.com/zmap/zcrypto/x509/pkix"

	"zv/internal/zv"
)

func anyStr(v interface{}) string {
	switch x := v.(type) {
	case asn1.BitString:
		return "o3." + hex.EncodeToString(append([]byte{byte(8*len(x.Bytes) - x.BitLength)}, x.Bytes...))
	case asn1.ObjectIdentifier:
		return "o6." + hex.EncodeToString([]byte(x.String()))
	case time.Time:
		var b [8]byte
		binary.BigEndian.PutUint64(b[:], uint64(x.Unix()))
		return "o23." + hex.EncodeToString(b[:])
	}
	return valStr(v)
}

func seqStrAny(s pkix.RDNSequence) string {
	if s == nil {
		return "nil"
	}
	if len(s) == 0 {
		return "-"
	}
	ss := make([]string, len(s))
	for i, r := range s {
		if len(r) == 0 {
			ss[i] = "e"
			continue
		}
		as := make([]string, len(r))
		for j, a := range r {
			as[j] = oidStr(a.Type) + "=" + anyStr(a.Value)
		}
		ss[i] = strings.Join(as, "+")
	}
	return strings.Join(ss, ",")
}

func nameDumpAny(n *pkix.Name) string {
	var items []string
	for _, f := range fields {
		if f.slice != nil {
			if l := *f.slice(n); len(l) > 0 {
				items = append(items, f.key+":"+hexList(l))
			}
		} else if v := *f.scalar(n); len(v) > 0 {
			items = append(items, f.key+":"+hex.EncodeToString([]byte(v)))
		}
	}
	if len(n.Names) > 0 {
		as := make([]string, len(n.Names))
		for j, a := range n.Names {
			as[j] = oidStr(a.Type) + "=" + anyStr(a.Value)
		}
		items = append(items, "N:"+strings.Join(as, ";"))
	}
	s := "-"
	if len(items) > 0 {
		s = strings.Join(items, ",")
	}
	return s + " O=" + seqStrAny(n.OriginalRDNS)
}

// the harness's own statement of which universal primitive tags the ANY arm turns into a Go string
var stringTags = map[int]string{12: "utf8", 18: "numeric", 19: "printable", 20: "t61", 22: "ia5", 30: "bmp"}

// scanValues walks SEQUENCE OF SET OF SEQUENCE {OID, value} with a deliberately simple reader (short and long definite
// lengths) and returns the identifier octet of every attribute value, in order; ok=false when the simple reader gives up.
func scanValues(der []byte) (ids []byte, ok bool) {
	rd := func(b []byte) (id byte, body, rest []byte, ok bool) {
		if len(b) < 2 || b[0]&0x1f == 0x1f {
			return
		}
		n, off := int(b[1]), 2
		if n >= 0x80 {
			k := n & 0x7f
			if k == 0 || k > 3 || len(b) < 2+k {
				return
			}
			n = 0
			for _, c := range b[2 : 2+k] {
				n = n<<8 | int(c)
			}
			off = 2 + k
		}
		if len(b) < off+n {
			return
		}
		return b[0], b[off : off+n], b[off+n:], true
	}
	id, seq, _, k := rd(der)
	if !k || id != 0x30 {
		return nil, false
	}
	for len(seq) > 0 {
		var set []byte
		id, set, seq, k = rd(seq)
		if !k || id != 0x31 {
			return nil, false
		}
		for len(set) > 0 {
			var atv []byte
			id, atv, set, k = rd(set)
			if !k || id != 0x30 {
				return nil, false
			}
			var r []byte
			id, _, r, k = rd(atv)
			if !k || id != 0x06 {
				return nil, false
			}
			id, _, _, k = rd(r)
			if !k {
				return nil, false
			}
			ids = append(ids, id)
		}
	}
	return ids, true
}

func execU(arg string) zv.Out {
	var der []byte
	if arg != "-" {
		var err error
		der, err = hex.DecodeString(arg)
		if err != nil {
			return zv.Out{Go: "bad-op"}
		}
	}
	var tags []string
	var dec pkix.RDNSequence
	rest, err := asn1.Unmarshal(der, &dec)
	if err != nil {
		return zv.Out{Go: "uerr", Tags: []string{"u:unmarshal-error"}}
	}
	var m pkix.Name
	m.FillFromRDNSequence(&dec)
	back := m.ToRDNSequence()
	viol := ""
	if !reflect.DeepEqual(back, dec) {
		viol = "a Name filled from a parsed sequence does not convert back to that sequence"
	}
	if viol == "" {
		viol = checkFilled(&m, flatten(dec), false, "fill(parsed sequence)")
	}
	// the Go type of every decoded value against the harness's own tag table
	if ids, ok := scanValues(der[:len(der)-len(rest)]); ok && viol == "" {
		flat := flatten(dec)
		if len(ids) != len(flat) {
			viol = fmt.Sprintf("parsed sequence has %d attributes, the encoding has %d", len(flat), len(ids))
		}
		for i := 0; viol == "" && i < len(ids); i++ {
			_, isStr := flat[i].Value.(string)
			kind, want := stringTags[int(ids[i])]
			if ids[i]&0xe0 != 0 {
				want = false
			}
			if isStr != want {
				viol = fmt.Sprintf("attribute %d with identifier octet %#x decoded as %T", i, ids[i], flat[i].Value)
			}
			if want {
				tags = append(tags, "u:string-"+kind)
			} else {
				tags = append(tags, fmt.Sprintf("u:non-string-%T", flat[i].Value))
			}
		}
	}
	re := "skip"
	all := true
	for _, a := range flatten(dec) {
		if _, ok := a.Value.(string); !ok {
			all = false
		}
	}
	if all {
		b, err := asn1.Marshal(dec)
		if err != nil {
			re = "merr"
			tags = append(tags, "u:remarshal-error")
			if viol == "" && encodable(dec) {
				viol = "Marshal of a parsed all-string sequence with valid UTF-8 values failed: " + err.Error()
			}
		} else {
			re = hex.EncodeToString(b)
			if bytes.Equal(b, der[:len(der)-len(rest)]) {
				tags = append(tags, "u:remarshal-identical")
			} else {
				tags = append(tags, "u:remarshal-differs")
			}
			// decoding the re-encoding gives the same attributes (per RDN, as a multiset)
			var dec2 pkix.RDNSequence
			if _, err := asn1.Unmarshal(b, &dec2); err != nil && viol == "" {
				viol = "the re-encoding of a parsed sequence does not parse: " + err.Error()
			} else if viol == "" {
				if len(dec2) != len(dec) {
					viol = "the re-encoding of a parsed sequence has a different number of RDNs"
				}
				for i := 0; viol == "" && i < len(dec); i++ {
					if !rdnMultisetEq(dec[i], dec2[i]) {
						viol = fmt.Sprintf("RDN %d changes when the parsed sequence is re-encoded and parsed again", i)
					}
				}
			}
		}
	}
	tags = append(tags, "u:ok", fmt.Sprintf("u:rdns=%d", min(len(dec), 6)))
	if len(rest) > 0 {
		tags = append(tags, "u:trailing-bytes")
	}
	for _, r := range dec {
		if len(r) == 0 {
			tags = append(tags, "u:empty-set")
		}
		if len(r) > 1 {
			tags = append(tags, "u:multi-valued-rdn")
		}
	}
	out := seqStrAny(dec) + " | rest=" + strconv.Itoa(len(rest)) + " | " + nameDumpAny(&m) + " | " + seqStrAny(back) + " | re=" + re
	return zv.Out{Go: out, Viol: viol, Tags: dedup(tags)}
}

func dedup(l []string) []string {
	seen := map[string]bool{}
	var o []string
	for _, s := range l {
		if !seen[s] {
			seen[s] = true
			o = append(o, s)
		}
	}
	return o
}

// ---- DER construction (independent of encoding/asn1) ----

func derLen(n int) []byte {
	if n < 128 {
		return []byte{byte(n)}
	}
	if n < 256 {
		return []byte{0x81, byte(n)}
	}
	return []byte{0x82, byte(n >> 8), byte(n)}
}

func tlv(id byte, body []byte) []byte {
	return append(append([]byte{id}, derLen(len(body))...), body...)
}

func derOID(o string) []byte {
	arcs := parseOID(o)
	if len(arcs) < 2 {
		return tlv(6, nil)
	}
	var b []byte
	b128 := func(n int) {
		var t []byte
		t = append(t, byte(n&0x7f))
		for n >>= 7; n > 0; n >>= 7 {
			t = append([]byte{byte(n&0x7f | 0x80)}, t...)
		}
		b = append(b, t...)
	}
	b128(arcs[0]*40 + arcs[1])
	for _, a := range arcs[2:] {
		b128(a)
	}
	return tlv(6, b)
}

func bmp(s string) []byte {
	var b []byte
	for _, r := range s {
		if r > 0xffff {
			r = '?'
		}
		b = append(b, byte(r>>8), byte(r))
	}
	return b
}

var timeBodies = []string{"250102030405Z", "2501020304Z", "490102030405Z", "500102030405Z", "250102030405+0100", "20250102030405Z",
	"20250102030405+0100", "99991231235959Z", "2501020304", "250132030405Z", "20250102030405.5Z", "", "Z", "251302030405Z"}

// one attribute value as an element
func randAnyValue(r *zv.Rng) []byte {
	switch r.Intn(20) {
	case 0, 1, 2: // PrintableString (possibly with characters outside the set)
		return tlv(19, []byte(randVal(r, false)))
	case 3, 4: // UTF8String (possibly invalid)
		return tlv(12, []byte(randVal(r, false)))
	case 5, 6: // IA5String
		return tlv(22, []byte(randVal(r, false)))
	case 7: // T61String
		return tlv(20, []byte(randVal(r, false)))
	case 8: // NumericString
		if r.Bool() {
			return tlv(18, []byte("0123 456"[:r.Intn(9)]))
		}
		return tlv(18, []byte(randVal(r, false)))
	case 9: // BMPString: well-formed, odd length, with terminator, surrogates
		switch r.Intn(5) {
		case 0:
			return tlv(30, append(bmp(randVal(r, true)), 0))
		case 1:
			return tlv(30, append(bmp(randVal(r, true)), 0, 0))
		case 2:
			return tlv(30, []byte{0xd8, 0x3d, 0xde, 0x00, 0xd8, 0x00, 0x00, 0x41, 0xdc, 0x00})
		}
		return tlv(30, bmp(randVal(r, true)))
	case 10: // other string tags the ANY arm does not know: GeneralString, VisibleString, UniversalString, GraphicString
		return tlv([]byte{27, 26, 28, 25, 21}[r.Intn(5)], []byte(randVal(r, false)))
	case 11: // INTEGER
		switch r.Intn(5) {
		case 0:
			return tlv(2, nil)
		case 1:
			return tlv(2, []byte{0, byte(r.Intn(256))})
		case 2:
			return tlv(2, []byte{0xff, byte(r.Intn(256))})
		case 3:
			return tlv(2, r.Bytes(8+r.Intn(2)))
		}
		return tlv(2, r.Bytes(1+r.Intn(8)))
	case 12: // BIT STRING
		switch r.Intn(4) {
		case 0:
			return tlv(3, nil)
		case 1:
			return tlv(3, []byte{byte(r.Intn(10))})
		}
		return tlv(3, append([]byte{byte(r.Intn(9))}, r.Bytes(1+r.Intn(3))...))
	case 13: // OBJECT IDENTIFIER
		switch r.Intn(4) {
		case 0:
			return tlv(6, nil)
		case 1:
			return tlv(6, r.Bytes(1+r.Intn(5)))
		case 2:
			return tlv(6, []byte{0x55, 0x80, 0x01})
		}
		return derOID(extraOIDs[r.Intn(len(extraOIDs))])
	case 14: // UTCTime / GeneralizedTime
		return tlv(byte(23+r.Intn(2)), []byte(timeBodies[r.Intn(len(timeBodies))]))
	case 15: // OCTET STRING
		return tlv(4, r.Bytes(r.Intn(5)))
	case 16: // NULL, BOOLEAN, ENUMERATED, tag 0, tag 31 in high-tag-number form
		switch r.Intn(5) {
		case 0:
			return tlv(5, nil)
		case 1:
			return tlv(1, []byte{0xff})
		case 2:
			return tlv(10, []byte{1})
		case 3:
			return tlv(0, r.Bytes(r.Intn(3)))
		}
		return append([]byte{0x1f, 0x1f, 2}, 'a', 'b')
	case 17: // constructed / other classes with a string tag number
		id := []byte{0x33, 0x2c, 0x30, 0x31, 0x93, 0x8c, 0x53, 0xd3, 0xa0, 0x36}[r.Intn(10)]
		if id&0x20 != 0 && r.Bool() {
			return tlv(id, tlv(19, []byte("in")))
		}
		return tlv(id, []byte(randVal(r, false)))
	case 18: // long-form length (valid for >= 128 bytes, non-minimal otherwise)
		if r.Bool() {
			return tlv(12, bytes.Repeat([]byte("é"), 64+r.Intn(70)))
		}
		v := []byte(randVal(r, true))
		return append([]byte{19, 0x81, byte(len(v))}, v...)
	}
	return tlv(19, []byte(pool[r.Intn(len(pool))]))
}

func randForeignDER(r *zv.Rng) []byte {
	var seq []byte
	for k := r.Intn(5); k > 0; k-- {
		var set []byte
		m := 1 + r.Intn(3)
		if r.Chance(6) {
			m = 0
		}
		for ; m > 0; m-- {
			o := randOID(r, 75)
			for o == "_" {
				o = randOID(r, 75)
			}
			atv := append(derOID(o), randAnyValue(r)...)
			switch r.Intn(40) {
			case 0: // a third element inside the attribute
				atv = append(atv, tlv(5, nil)...)
			case 1: // value missing
				atv = derOID(o)
			case 2: // value first
				atv = append(randAnyValue(r), derOID(o)...)
			}
			id := byte(0x30)
			if r.Chance(2) {
				id = 0x31
			}
			set = append(set, tlv(id, atv)...)
		}
		id := byte(0x31)
		if r.Chance(3) {
			id = 0x30
		}
		seq = append(seq, tlv(id, set)...)
	}
	id := byte(0x30)
	if r.Chance(2) {
		id = []byte{0x31, 0x10, 0xa0}[r.Intn(3)]
	}
	der := tlv(id, seq)
	switch r.Intn(25) {
	case 0: // truncated
		if len(der) > 0 {
			der = der[:r.Intn(len(der))]
		}
	case 1: // trailing bytes
		der = append(der, r.Bytes(1+r.Intn(3))...)
	case 2: // one byte changed
		der[r.Intn(len(der))] ^= byte(1 << r.Intn(8))
	case 3: // outer length off by one
		if len(der) > 1 && der[1] < 0x7f && der[1] > 0 {
			der[1] += byte(r.Intn(3)) - 1
		}
	}
	return der
}

func genForeign(g *zv.Gen) {
	r := g.Rng
	hx := func(b []byte) string {
		if len(b) == 0 {
			return "-"
		}
		return hex.EncodeToString(b)
	}
	one := func(oid string, val []byte) []byte {
		return tlv(0x30, tlv(0x31, tlv(0x30, append(derOID(oid), val...))))
	}
	g.Emit("c22 u -")
	g.Emit("c22 u 3000")
	g.Emit("c22 u 30023100")
	g.Emit("c22 u 3080")
	g.Emit("c22 u 30")
	// every attribute type of the table x every universal tag number 0..31 (primitive), with a content that suits most
	for _, row := range refRows {
		for tag := 0; tag < 31; tag++ {
			for _, body := range []string{"AB", "12", "250102030405Z", "\x00A\x00B", ""} {
				g.Emit("c22 u " + hx(one(row.oid, tlv(byte(tag), []byte(body)))))
			}
		}
	}
	// every identifier octet (all classes, primitive and constructed) on CN
	for id := 0; id < 256; id++ {
		if id&0x1f == 0x1f {
			continue
		}
		g.Emit("c22 u " + hx(one("2.5.4.3", tlv(byte(id), []byte("ab")))))
	}
	// every pool value under every string tag, on an e-mail address and on a CN
	for _, v := range pool {
		for _, tag := range []byte{12, 18, 19, 20, 22, 27, 30} {
			g.Emit("c22 u " + hx(one("1.2.840.113549.1.9.1", tlv(tag, []byte(v)))))
			g.Emit("c22 u " + hx(one("2.5.4.3", tlv(tag, []byte(v)))))
		}
		g.Emit("c22 u " + hx(one("2.5.4.10", tlv(30, bmp(v)))))
	}
	for _, tb := range timeBodies {
		g.Emit("c22 u " + hx(one("2.5.4.3", tlv(23, []byte(tb)))))
		g.Emit("c22 u " + hx(one("2.5.4.3", tlv(24, []byte(tb)))))
	}
	// a certificate-style name: C (Printable), O (UTF8), OU (T61), CN (BMP), emailAddress (IA5), DC (IA5), serialNumber (Printable)
	cert := tlv(0x30, bytes.Join([][]byte{
		tlv(0x31, tlv(0x30, append(derOID("2.5.4.6"), tlv(19, []byte("US"))...))),
		tlv(0x31, tlv(0x30, append(derOID("2.5.4.10"), tlv(12, []byte("Zürich AG"))...))),
		tlv(0x31, append(tlv(0x30, append(derOID("2.5.4.11"), tlv(20, []byte("R\xe9seau"))...)), tlv(0x30, append(derOID("2.5.4.11"), tlv(19, []byte("A"))...))...)),
		tlv(0x31, tlv(0x30, append(derOID("2.5.4.3"), tlv(30, bmp("example.com"))...))),
		tlv(0x31, tlv(0x30, append(derOID("1.2.840.113549.1.9.1"), tlv(22, []byte("a@example.com"))...))),
		tlv(0x31, tlv(0x30, append(derOID("0.9.2342.19200300.100.1.25"), tlv(22, []byte("example"))...))),
		tlv(0x31, tlv(0x30, append(derOID("2.5.4.5"), tlv(19, []byte("0042"))...))),
	}, nil))
	g.Emit("c22 u " + hx(cert))
	for i := 0; i <= len(cert); i++ { // every truncation of it
		g.Emit("c22 u " + hx(cert[:i]))
	}
	// what Marshal itself produces, read back through this op
	n := g.N(1500, 60000)
	for i := 0; i < n; i++ {
		nm := parseName(randName(r, 5+r.Intn(50), false, true))
		if b, err := asn1.Marshal(nm.ToRDNSequence()); err == nil {
			g.Emit("c22 u " + hx(b))
		}
	}
	n = g.N(9000, 400000)
	for i := 0; i < n; i++ {
		g.Emit("c22 u " + hx(randForeignDER(r)))
	}
}
