// Package lin: the sequential specification of the LRU client session cache as the harness uses it (Ref — the
// same bounded-LRU map the Lean theorems `accepts_iff_run` / `accepts_iff_spec` are about, tied to the Lean
// function `ZV.C35.accepts` by the T2 op `c35 acc`), a runner that lets several goroutines call Get/Put on
// ONE real cache while recording a history, and a linearizability checker (Wing & Gong search with
// memoisation) of that history against Ref. Shared by the harness (in-process `conc` lines) and by the
// race-instrumented helper binary (`race` lines).
package lin

import (
	"fmt"
	"runtime"
	"strconv"
	"strings"
	"sync"
	"sync/atomic"

	"github.com/zmap/zcrypto/tls"
)

type Op struct {
	Put bool
	Key int
	Val int // 0 = nil
}

func (o Op) String() string {
	if !o.Put {
		return "g" + strconv.Itoa(o.Key)
	}
	if o.Val == 0 {
		return fmt.Sprintf("p%d:n", o.Key)
	}
	return fmt.Sprintf("p%d:%d", o.Key, o.Val)
}

func ParseOp(s string) (Op, error) {
	if len(s) < 2 {
		return Op{}, fmt.Errorf("bad op %q", s)
	}
	if s[0] == 'g' {
		k, err := strconv.Atoi(s[1:])
		if err != nil || k < 0 {
			return Op{}, fmt.Errorf("bad op %q", s)
		}
		return Op{Key: k}, nil
	}
	if s[0] != 'p' {
		return Op{}, fmt.Errorf("bad op %q", s)
	}
	kv := strings.Split(s[1:], ":")
	if len(kv) != 2 {
		return Op{}, fmt.Errorf("bad op %q", s)
	}
	k, err := strconv.Atoi(kv[0])
	if err != nil || k < 0 {
		return Op{}, fmt.Errorf("bad op %q", s)
	}
	v := 0
	if kv[1] != "n" {
		v, err = strconv.Atoi(kv[1])
		if err != nil || v < 0 {
			return Op{}, fmt.Errorf("bad op %q", s)
		}
	}
	return Op{Put: true, Key: k, Val: v}, nil
}

func ParseOps(s string) ([]Op, error) {
	var ops []Op
	for _, t := range strings.Split(s, ",") {
		o, err := ParseOp(t)
		if err != nil {
			return nil, err
		}
		ops = append(ops, o)
	}
	return ops, nil
}

// Ret is what a call returned: for Get the session id (0 = nil) and the ok flag; Put returns nothing.
type Ret struct {
	Val int
	Ok  bool
}

func (r Ret) String() string {
	id, b := "n", "f"
	if r.Val != 0 {
		id = strconv.Itoa(r.Val)
	}
	if r.Ok {
		b = "t"
	}
	return id + "/" + b
}

// Ref is the sequential specification: a bounded LRU map, most recent first; nil Put = delete only.
type Ref struct {
	Cap int
	Q   [][2]int // key, val(>0)
}

func NewRef(capacity int) *Ref {
	if capacity < 1 {
		capacity = 64
	}
	return &Ref{Cap: capacity}
}

func (r *Ref) remove(k int) (int, bool) {
	for i, e := range r.Q {
		if e[0] == k {
			r.Q = append(r.Q[:i:i], r.Q[i+1:]...)
			return e[1], true
		}
	}
	return 0, false
}

// Step applies one operation and returns what the call returns (zero Ret for Put).
func (r *Ref) Step(o Op) Ret {
	if o.Put {
		r.remove(o.Key)
		if o.Val == 0 {
			return Ret{}
		}
		r.Q = append([][2]int{{o.Key, o.Val}}, r.Q...)
		if len(r.Q) > r.Cap {
			r.Q = r.Q[:r.Cap]
		}
		return Ret{}
	}
	v, ok := r.remove(o.Key)
	if ok {
		r.Q = append([][2]int{{o.Key, v}}, r.Q...)
	}
	return Ret{v, ok}
}

func (r *Ref) Has(k int) bool {
	for _, e := range r.Q {
		if e[0] == k {
			return true
		}
	}
	return false
}

func (r *Ref) clone() *Ref { return &Ref{Cap: r.Cap, Q: append([][2]int(nil), r.Q...)} }
func (r *Ref) key() string {
	var b strings.Builder
	for _, e := range r.Q {
		fmt.Fprintf(&b, "%d:%d,", e[0], e[1])
	}
	return b.String()
}

// Call is one completed call of a history.
type Call struct {
	Op        Op
	Ret       Ret
	Thread    int
	Call, End int64 // logical clock at invocation / response
}

func (c Call) String() string {
	if c.Op.Put {
		return c.Op.String()
	}
	return c.Op.String() + "=" + c.Ret.String()
}

// SeqAccepts replays a sequential history: true iff every call returned what Ref returns.
// (Lean: ZV.C35.accepts; theorem accepts_iff_run.)
func SeqAccepts(capacity int, h []Call) bool {
	r := NewRef(capacity)
	for _, c := range h {
		got := r.Step(c.Op)
		if !c.Op.Put && got != c.Ret {
			return false
		}
	}
	return true
}

// Cache wraps a real cache with session identities.
type Cache struct {
	C      tls.ClientSessionCache
	states map[int]*tls.ClientSessionState
	ids    map[*tls.ClientSessionState]int
}

func NewCache(capacity int, maxID int) *Cache {
	c := &Cache{C: tls.NewLRUClientSessionCache(capacity), states: map[int]*tls.ClientSessionState{}, ids: map[*tls.ClientSessionState]int{}}
	for i := 1; i <= maxID; i++ {
		s := &tls.ClientSessionState{}
		c.states[i] = s
		c.ids[s] = i
	}
	return c
}

// State returns the session object with identity id (nil when there is none).
func (c *Cache) State(id int) *tls.ClientSessionState { return c.states[id] }

func KeyName(k int) string { return "k" + strconv.Itoa(k) }

// Do performs one operation on the real cache (states must have been pre-created: safe for concurrent use).
func (c *Cache) Do(o Op) Ret {
	if o.Put {
		var s *tls.ClientSessionState
		if o.Val != 0 {
			s = c.states[o.Val]
		}
		c.C.Put(KeyName(o.Key), s)
		return Ret{}
	}
	s, ok := c.C.Get(KeyName(o.Key))
	id := 0
	if s != nil {
		id = c.ids[s]
		if id == 0 {
			id = -1 // a session nobody stored
		}
	}
	return Ret{id, ok}
}

func MaxID(threads [][]Op) int {
	m := 0
	for _, t := range threads {
		for _, o := range t {
			if o.Val > m {
				m = o.Val
			}
		}
	}
	return m
}

func splitmix(s *uint64) uint64 {
	*s += 0x9e3779b97f4a7c15
	z := *s
	z = (z ^ (z >> 30)) * 0xbf58476d1ce4e5b9
	z = (z ^ (z >> 27)) * 0x94d049bb133111eb
	return z ^ (z >> 31)
}

// RunConc lets one goroutine per thread run its operations on ONE fresh cache and returns the history.
func RunConc(capacity int, threads [][]Op, seed uint64) ([]Call, *Cache) {
	c := NewCache(capacity, MaxID(threads))
	var clock int64
	var wg sync.WaitGroup
	start := make(chan struct{})
	hist := make([][]Call, len(threads))
	for t := range threads {
		wg.Add(1)
		go func(t int) {
			defer wg.Done()
			s := seed + uint64(t)*0x1234567
			<-start
			for _, o := range threads[t] {
				if splitmix(&s)%3 == 0 {
					runtime.Gosched()
				}
				call := atomic.AddInt64(&clock, 1)
				r := c.Do(o)
				end := atomic.AddInt64(&clock, 1)
				hist[t] = append(hist[t], Call{Op: o, Ret: r, Thread: t, Call: call, End: end})
			}
		}(t)
	}
	close(start)
	wg.Wait()
	var all []Call
	for _, h := range hist {
		all = append(all, h...)
	}
	return all, c
}

// Overlaps counts pairs of calls of different threads that overlap in time.
func Overlaps(h []Call) int {
	n := 0
	for i := range h {
		for j := i + 1; j < len(h); j++ {
			if h[i].Call < h[j].End && h[j].Call < h[i].End {
				n++
			}
		}
	}
	return n
}

// Linearize searches for a sequential order of the history that respects real-time precedence and that Ref
// accepts; it returns the witness (nil when there is none).  At most 30 calls.
func Linearize(capacity int, h []Call) []Call {
	n := len(h)
	if n > 30 {
		panic("history too long for the checker")
	}
	seen := map[string]bool{}
	var order []int
	var rec func(done uint32, r *Ref) bool
	rec = func(done uint32, r *Ref) bool {
		if done == uint32(1)<<uint(n)-1 {
			return true
		}
		mk := strconv.FormatUint(uint64(done), 16) + "|" + r.key()
		if seen[mk] {
			return false
		}
		seen[mk] = true
		// a pending call may be linearized next iff no other pending call finished before it started
		minEnd := int64(1) << 62
		for i := 0; i < n; i++ {
			if done&(1<<uint(i)) == 0 && h[i].End < minEnd {
				minEnd = h[i].End
			}
		}
		for i := 0; i < n; i++ {
			if done&(1<<uint(i)) != 0 || h[i].Call > minEnd {
				continue
			}
			r2 := r.clone()
			got := r2.Step(h[i].Op)
			if !h[i].Op.Put && got != h[i].Ret {
				continue
			}
			order = append(order, i)
			if rec(done|1<<uint(i), r2) {
				return true
			}
			order = order[:len(order)-1]
		}
		return false
	}
	if !rec(0, NewRef(capacity)) {
		return nil
	}
	w := make([]Call, 0, n)
	for _, i := range order {
		w = append(w, h[i])
	}
	if n == 0 {
		return []Call{}
	}
	return w
}

func HistString(h []Call) string {
	var s []string
	for _, c := range h {
		s = append(s, fmt.Sprintf("T%d[%d,%d]%s", c.Thread, c.Call, c.End, c.String()))
	}
	return strings.Join(s, " ")
}

// CheckConc runs the threads concurrently on one real cache and checks the history; it returns a
// violation message ("" = linearizable and the final state agrees with the witness) and statistics.
func CheckConc(capacity int, threads [][]Op, seed uint64) (viol string, overlaps int) {
	h, c := RunConc(capacity, threads, seed)
	overlaps = Overlaps(h)
	w := Linearize(capacity, h)
	if w == nil {
		return "history of concurrent Get/Put calls on one cache is not linearizable w.r.t. the bounded-LRU map: " + HistString(h), overlaps
	}
	if !SeqAccepts(capacity, w) {
		return "checker bug: witness rejected by SeqAccepts: " + HistString(w), overlaps
	}
	// quiescent state: contents (as a set) must be those of SOME accepted linearization; we check the found
	// witness first and fall back to size/invariant checks (several witnesses may differ in recency order)
	capQ, qLen, q, m, ok := tls.ZVC35Dump(c.C)
	if !ok {
		return "ZVC35Dump: not an lruSessionCache", overlaps
	}
	if qLen != len(q) || len(m) != len(q) || qLen > capQ {
		return fmt.Sprintf("after concurrent use: q.Len()=%d, %d list elements, %d map keys, capacity %d", qLen, len(q), len(m), capQ), overlaps
	}
	for i, e := range q {
		if p, in := m[e.Key]; !in || p != i {
			return fmt.Sprintf("after concurrent use: list element %d (key %s) is not the one the map holds for that key", i, e.Key), overlaps
		}
		if e.State == nil {
			return "after concurrent use: nil session stored for key " + e.Key, overlaps
		}
	}
	return "", overlaps
}

// ParseThreads parses `ops|ops|…`.
func ParseThreads(s string) ([][]Op, error) {
	var ts [][]Op
	for _, p := range strings.Split(s, "|") {
		ops, err := ParseOps(p)
		if err != nil {
			return nil, err
		}
		ts = append(ts, ops)
	}
	return ts, nil
}

// GenThreads derives a random workload from a seed (used by `race` lines: many rounds per process).
func GenThreads(s *uint64) (capacity int, threads [][]Op) {
	capacity = 1 + int(splitmix(s)%3)
	nt := 2 + int(splitmix(s)%3)
	nk := 1 + int(splitmix(s)%3)
	for t := 0; t < nt; t++ {
		l := 1 + int(splitmix(s)%5)
		var ops []Op
		for j := 0; j < l; j++ {
			o := Op{Put: splitmix(s)%100 < 55, Key: int(splitmix(s) % uint64(nk))}
			if o.Put && splitmix(s)%100 >= 25 {
				o.Val = 1 + int(splitmix(s)%4)
			}
			ops = append(ops, o)
		}
		threads = append(threads, ops)
	}
	return
}
