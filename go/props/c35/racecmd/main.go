// racecmd is the concurrency helper of the C35 harness, built twice by it: plain (zv-c35-conccmd) and with
// `go build -race` (zv-c35-racecmd; its stderr is searched for race reports).
//
//	racecmd rounds <seed> <rounds>             <rounds> random concurrent Get/Put workloads (lin.GenThreads), each on one
//	                                           fresh real LRU client session cache, every history checked for linearizability
//	racecmd one <cap> <seed> <ops|ops|…> <n>   the given workload (one goroutine per part), n runs
package main

import (
	"fmt"
	"os"
	"strconv"

	"zv/props/c35/lin"
)

func main() {
	if len(os.Args) < 2 {
		fmt.Println("usage")
		os.Exit(2)
	}
	overl := 0
	switch {
	case os.Args[1] == "rounds" && len(os.Args) == 4:
		seed, err1 := strconv.ParseUint(os.Args[2], 10, 64)
		rounds, err2 := strconv.Atoi(os.Args[3])
		if err1 != nil || err2 != nil {
			fmt.Println("bad arguments")
			os.Exit(2)
		}
		s := seed
		for i := 0; i < rounds; i++ {
			capacity, threads := lin.GenThreads(&s)
			v, o := lin.CheckConc(capacity, threads, s)
			overl += o
			if v != "" {
				fmt.Printf("violation: round %d cap %d: %s\n", i, capacity, v)
				os.Exit(3)
			}
		}
	case os.Args[1] == "one" && len(os.Args) == 6:
		capacity, err1 := strconv.Atoi(os.Args[2])
		seed, err2 := strconv.ParseUint(os.Args[3], 10, 64)
		threads, err3 := lin.ParseThreads(os.Args[4])
		n, err4 := strconv.Atoi(os.Args[5])
		if err1 != nil || err2 != nil || err3 != nil || err4 != nil {
			fmt.Println("bad arguments")
			os.Exit(2)
		}
		for i := 0; i < n; i++ {
			v, o := lin.CheckConc(capacity, threads, seed+uint64(i))
			overl += o
			if v != "" {
				fmt.Printf("violation: run %d: %s\n", i, v)
				os.Exit(3)
			}
		}
	default:
		fmt.Println("usage")
		os.Exit(2)
	}
	fmt.Printf("ok overlaps=%d\n", overl)
}
