// Package c35: LRU client session cache (tls/common.go lruSessionCache) through the public API.
package c35

import (
	"bytes"
	"fmt"
	"os"
	"os/exec"
	"path/filepath"
	"runtime"
	"sort"
	"strconv"
	"strings"
	"sync"
	"time"

	"github.com/zmap/zcrypto/tls"

	"zv/internal/zv"
	"zv/props/c35/lin"
)

type op struct {
	put bool
	key int
	val int // 0 = nil
}

func parse(line string) (cap int, ops []op) {
	f := strings.Fields(line)
	cap, _ = strconv.Atoi(f[1])
	for _, s := range strings.Split(f[2], ",") {
		if s[0] == 'g' {
			k, _ := strconv.Atoi(s[1:])
			ops = append(ops, op{key: k})
		} else {
			kv := strings.Split(s[1:], ":")
			k, _ := strconv.Atoi(kv[0])
			v := 0
			if kv[1] != "n" {
				v, _ = strconv.Atoi(kv[1])
			}
			ops = append(ops, op{put: true, key: k, val: v})
		}
	}
	return
}

// reference: the property's sentence as an independent bounded-LRU map.
type ref struct {
	cap int
	q   [][2]int // most recent first: key, val(>0)
}

func (r *ref) remove(k int) (int, bool) {
	for i, e := range r.q {
		if e[0] == k {
			r.q = append(r.q[:i:i], r.q[i+1:]...)
			return e[1], true
		}
	}
	return 0, false
}
func (r *ref) put(k, v int) {
	r.remove(k)
	if v == 0 {
		return
	}
	r.q = append([][2]int{{k, v}}, r.q...)
	if len(r.q) > r.cap {
		r.q = r.q[:r.cap]
	}
}
func (r *ref) get(k int) (int, bool) {
	v, ok := r.remove(k)
	if ok {
		r.q = append([][2]int{{k, v}}, r.q...)
	}
	return v, ok
}

func execLine(line string) zv.Out {
	f := strings.Fields(line)
	if len(f) >= 2 {
		switch f[1] {
		case "st":
			return execState(f)
		case "acc":
			return execAcc(f)
		case "conc":
			return execConc(f)
		case "concb":
			return execRounds(f, false)
		case "race":
			return execRounds(f, true)
		}
	}
	if len(f) != 3 {
		return zv.Out{Go: "bad-op"}
	}
	capacity, ops := parse(line)
	c := tls.NewLRUClientSessionCache(capacity)
	rc := capacity
	if rc < 1 {
		rc = 64
	}
	r := &ref{cap: rc}
	states := map[int]*tls.ClientSessionState{}
	ids := map[*tls.ClientSessionState]int{}
	var outs []string
	viol := ""
	nilAbsent := false
	for i, o := range ops {
		if o.put {
			var s *tls.ClientSessionState
			if o.val != 0 {
				s = states[o.val]
				if s == nil {
					s = &tls.ClientSessionState{}
					states[o.val] = s
					ids[s] = o.val
				}
			} else {
				present := false
				for _, e := range r.q {
					if e[0] == o.key {
						present = true
					}
				}
				if !present {
					nilAbsent = true
				}
			}
			c.Put("k"+strconv.Itoa(o.key), s)
			r.put(o.key, o.val)
		} else {
			s, ok := c.Get("k" + strconv.Itoa(o.key))
			id := "n"
			if s != nil {
				id = strconv.Itoa(ids[s])
			}
			b := "f"
			if ok {
				b = "t"
			}
			outs = append(outs, id+"/"+b)
			rv, rok := r.get(o.key)
			rid := "n"
			if rok {
				rid = strconv.Itoa(rv)
			}
			if (rid != id || rok != ok) && viol == "" {
				viol = fmt.Sprintf("op %d Get(k%d) returned (%s,%v); a bounded LRU map with nil-Put = delete returns (%s,%v)", i, o.key, id, ok, rid, rok)
			}
		}
	}
	out := "-"
	if len(outs) > 0 {
		out = strings.Join(outs, ",")
	}
	tags := []string{fmt.Sprintf("cap=%d", capacity), fmt.Sprintf("len<=%d", (len(ops)/8+1)*8)}
	if nilAbsent {
		tags = append(tags, "nil-put-on-absent-key")
	}
	return zv.Out{Go: out, Viol: viol, Tags: tags}
}

func opStr(o op) string {
	if !o.put {
		return "g" + strconv.Itoa(o.key)
	}
	if o.val == 0 {
		return fmt.Sprintf("p%d:n", o.key)
	}
	return fmt.Sprintf("p%d:%d", o.key, o.val)
}

func emit(g *zv.Gen, cap int, ops []op, nkeys int) {
	var ss []string
	for _, o := range ops {
		ss = append(ss, opStr(o))
	}
	for k := 0; k < nkeys; k++ { // tail probe: observe the final contents
		ss = append(ss, "g"+strconv.Itoa(k))
	}
	g.Emitf("c35 %d %s", cap, strings.Join(ss, ","))
}

func gen(g *zv.Gen) {
	// corpus: the nil-Put-on-absent-key sequences (D12)
	g.Emit("c35 2 p0:1,p1:2,p2:n,g0,g1,g2")
	g.Emit("c35 1 p0:1,p1:n,g0,g1")
	g.Emit("c35 3 p0:n,g0")
	// exhaustive short histories
	nkeys, maxlen, maxcap := 3, g.N(4, 5), 3
	var alphabet []op
	for k := 0; k < nkeys; k++ {
		alphabet = append(alphabet, op{key: k})
		for v := 0; v <= 2; v++ {
			alphabet = append(alphabet, op{put: true, key: k, val: v})
		}
	}
	for cap := 1; cap <= maxcap; cap++ {
		var rec func(prefix []op)
		rec = func(prefix []op) {
			if len(prefix) > 0 {
				emit(g, cap, prefix, nkeys)
			}
			if len(prefix) == maxlen {
				return
			}
			for _, a := range alphabet {
				rec(append(append([]op{}, prefix...), a))
			}
		}
		rec(nil)
	}
	// random longer histories, more keys, capacities incl. the <1 ⇒ 64 default
	n := g.N(20000, 400000)
	for i := 0; i < n; i++ {
		r := g.Rng
		nk := 2 + r.Intn(6)
		cap := 1 + r.Intn(5)
		if r.Chance(3) {
			cap = -r.Intn(2)
		}
		l := 1 + r.Intn(40)
		ops := make([]op, l)
		for j := range ops {
			ops[j] = op{put: r.Chance(60), key: r.Intn(nk)}
			if ops[j].put && !r.Chance(25) {
				ops[j].val = 1 + r.Intn(9)
			}
		}
		emit(g, cap, ops, nk)
	}
	gen2(g)
}

func joinOps(ops []lin.Op) string {
	var ss []string
	for _, o := range ops {
		ss = append(ss, o.String())
	}
	return strings.Join(ss, ",")
}

func randOps(r *zv.Rng, l, nk, nv int) []lin.Op {
	ops := make([]lin.Op, l)
	for j := range ops {
		ops[j] = lin.Op{Put: r.Chance(60), Key: r.Intn(nk)}
		if ops[j].Put && !r.Chance(25) {
			ops[j].Val = 1 + r.Intn(nv)
		}
	}
	return ops
}

// gen2: the second-wave streams (internal state, default capacity reached, sequential acceptance, concurrency).
func gen2(g *zv.Gen) {
	r := g.Rng
	// (1) internal state after every history up to length 3 over 3 keys, capacities 1..3
	var alphabet []lin.Op
	for k := 0; k < 3; k++ {
		alphabet = append(alphabet, lin.Op{Key: k})
		for v := 0; v <= 2; v++ {
			alphabet = append(alphabet, lin.Op{Put: true, Key: k, Val: v})
		}
	}
	for cap := 1; cap <= 3; cap++ {
		var rec func(prefix []lin.Op)
		rec = func(prefix []lin.Op) {
			if len(prefix) > 0 {
				g.Emitf("c35 st %d %s", cap, joinOps(prefix))
			}
			if len(prefix) == 3 {
				return
			}
			for _, a := range alphabet {
				rec(append(append([]lin.Op{}, prefix...), a))
			}
		}
		rec(nil)
	}
	// (2) internal state after random histories
	for i, n := 0, g.N(8000, 150000); i < n; i++ {
		cap := 1 + r.Intn(6)
		if r.Chance(5) {
			cap = -r.Intn(3)
		}
		g.Emitf("c35 st %d %s", cap, joinOps(randOps(r, 1+r.Intn(40), 2+r.Intn(8), 9)))
	}
	// (3) the default capacity really reached: capacity < 1, more distinct keys than the default holds
	//     (fills 64 entries, then evicts), boundaries 63/64/65/66 keys, with Gets and nil Puts in between
	for _, cap := range []int{0, -1, -7} {
		for _, nk := range []int{63, 64, 65, 66, 80} {
			var ops []lin.Op
			for k := 0; k < nk; k++ {
				ops = append(ops, lin.Op{Put: true, Key: k, Val: 1 + k%5})
			}
			g.Emitf("c35 st %d %s", cap, joinOps(ops))
			g.Emitf("c35 %d %s,g0,g1,g%d,g%d", cap, joinOps(ops), nk-2, nk-1)
			ops = append(ops, lin.Op{Key: 1}, lin.Op{Put: true, Key: 2}, lin.Op{Put: true, Key: 100, Val: 3}, lin.Op{Put: true, Key: 101, Val: 4})
			g.Emitf("c35 st %d %s", cap, joinOps(ops))
		}
	}
	for i, n := 0, g.N(60, 2000); i < n; i++ {
		cap := -r.Intn(3)
		l := 70 + r.Intn(120)
		g.Emitf("c35 st %d %s", cap, joinOps(randOps(r, l, 60+r.Intn(20), 5)))
		ops := randOps(r, l, 60+r.Intn(20), 5)
		var probe []string
		for k := 0; k < 6; k++ {
			probe = append(probe, "g"+strconv.Itoa(r.Intn(80)))
		}
		g.Emitf("c35 %d %s,%s", cap, joinOps(ops), strings.Join(probe, ","))
	}
	// explicit capacities around the boundary of the guard `capacity < 1`
	for _, cap := range []int{-2, -1, 0, 1, 2, 63, 64, 65, 1000} {
		g.Emitf("c35 st %d p0:1,p1:2,p2:3,g0", cap)
	}
	// (4) sequential-history acceptance: recorded returns right / one flipped / random
	for i, n := 0, g.N(6000, 100000); i < n; i++ {
		cap := 1 + r.Intn(4)
		if r.Chance(3) {
			cap = 0
		}
		ops := randOps(r, 1+r.Intn(24), 2+r.Intn(5), 4)
		ref := lin.NewRef(cap)
		var h []lin.Call
		for _, o := range ops {
			h = append(h, lin.Call{Op: o, Ret: ref.Step(o)})
		}
		switch r.Intn(3) {
		case 1: // flip one recorded Get return
			var gets []int
			for j, c := range h {
				if !c.Op.Put {
					gets = append(gets, j)
				}
			}
			if len(gets) > 0 {
				j := gets[r.Intn(len(gets))]
				switch r.Intn(3) {
				case 0:
					h[j].Ret.Ok = !h[j].Ret.Ok
				case 1:
					h[j].Ret.Val = (h[j].Ret.Val + 1 + r.Intn(3)) % 5
				default:
					h[j].Ret = lin.Ret{Val: r.Intn(5), Ok: r.Bool()}
				}
			}
		case 2:
			for j := range h {
				if !h[j].Op.Put && r.Chance(30) {
					h[j].Ret = lin.Ret{Val: r.Intn(5), Ok: r.Bool()}
				}
			}
		}
		var ss []string
		for _, c := range h {
			ss = append(ss, c.String())
		}
		g.Emitf("c35 acc %d %s", cap, strings.Join(ss, ","))
	}
	// malformed lines (both sides answer bad-op)
	g.Emit("c35 st x p0:1")
	g.Emit("c35 st 2 q1")
	g.Emit("c35 acc 2 g1")
	g.Emit("c35 acc 2 p1:1=1/t")
	g.Emit("c35 acc 2 g1=2/x")
	g.Emit("c35 acc 2 g1=n/f=1")
	// (5) goroutines on ONE cache; history checked for linearizability against the sequential specification
	for i, n := 0, g.N(150, 2000); i < n; i++ {
		cap := 1 + r.Intn(3)
		nt := 2 + r.Intn(3)
		nk := 1 + r.Intn(3)
		var ts []string
		for t := 0; t < nt; t++ {
			ts = append(ts, joinOps(randOps(r, 1+r.Intn(5), nk, 4)))
		}
		g.Emitf("c35 conc %d %d %s", cap, 1+r.Intn(1<<30), strings.Join(ts, "|"))
	}
	for i, n := 0, g.N(8, 40); i < n; i++ {
		g.Emitf("c35 concb %d %d", 1+r.Intn(1<<30), g.N(2500, 10000))
	}
	// (6) the same kind of workload in a -race build
	for i, n := 0, g.N(4, 12); i < n; i++ {
		g.Emitf("c35 race %d %d", 1+r.Intn(1<<30), g.N(150, 500))
	}
}

func init() {
	zv.Register(&zv.Prop{ID: "C35", Topic: "c35", Gen: gen, Exec: execLine, Timeout: 400 * time.Second,
		Rule: "every Put/Get history up to length 4 (quick) / 5 (thorough) over 3 keys x {nil,s1,s2} x capacity 1..3, plus random histories up to 40 ops over 2..7 keys, capacity 1..5 and the <1 default; each followed by a Get of every key; a case is one distinct history; T3 = independent bounded-LRU reference (nil Put = delete only). " +
			"Second wave: `st` lines compare the INTERNAL state (capacity, q front to back, index map m and what it points at; hook ZVC35Dump) after every history up to length 3 " +
			"and after random ones, including capacity < 1 with 63..80+ distinct keys (default capacity filled and evicting); `acc` lines = sequential histories with recorded returns " +
			"(right / one flipped / random) accepted or rejected by the checker's specification vs ZV.C35.accepts, and vs the real cache run sequentially; " +
			"`conc` lines = 2..4 goroutines x 1..5 ops on ONE cache, 8 runs each, history checked for linearizability; `concb` lines = 2500/10000 random such workloads; `race` lines = 150/500 such workloads in a -race build (all T3 only, in helper processes)"})
}

// ---- `c35 st <cap> <ops>`: the internal state (capacity, q, m) after a sequential history --------------------

func keyNum(k string) int {
	n, err := strconv.Atoi(strings.TrimPrefix(k, "k"))
	if err != nil {
		return -1
	}
	return n
}

func execState(f []string) zv.Out {
	if len(f) != 4 {
		return zv.Out{Go: "bad-op"}
	}
	capacity, err := strconv.Atoi(f[2])
	ops, err2 := lin.ParseOps(f[3])
	if err != nil || err2 != nil {
		return zv.Out{Go: "bad-op"}
	}
	maxID := 0
	for _, o := range ops {
		if o.Val > maxID {
			maxID = o.Val
		}
	}
	c := lin.NewCache(capacity, maxID)
	r := lin.NewRef(capacity)
	evictions, evictAtDefault := 0, false
	for _, o := range ops {
		if o.Put && o.Val != 0 && !r.Has(o.Key) && len(r.Q) == r.Cap {
			evictions++
			if capacity < 1 {
				evictAtDefault = true
			}
		}
		c.Do(o)
		r.Step(o)
	}
	capQ, qLen, q, m, ok := tls.ZVC35Dump(c.C)
	if !ok {
		return zv.Out{Go: "not-lru", Viol: "NewLRUClientSessionCache did not return an *lruSessionCache"}
	}
	viol := ""
	var qs, ms []string
	ids := map[*tls.ClientSessionState]int{}
	for i := 1; i <= maxID; i++ {
		ids[c.State(i)] = i
	}
	for _, e := range q {
		id := "n"
		if e.State != nil {
			id = strconv.Itoa(ids[e.State])
		}
		qs = append(qs, fmt.Sprintf("%d:%s", keyNum(e.Key), id))
	}
	var mk []int
	for k := range m {
		mk = append(mk, keyNum(k))
	}
	sort.Ints(mk)
	for _, k := range mk {
		pos := m[lin.KeyName(k)]
		t := strconv.Itoa(k)
		if pos < 0 || pos >= len(q) || q[pos].Key != lin.KeyName(k) {
			t += "!" // the map does not point at the list element carrying this key
			if viol == "" {
				viol = fmt.Sprintf("index map entry for k%d points at list position %d, which does not carry that key", k, pos)
			}
		}
		ms = append(ms, t)
	}
	// T3: the state is that of the independent bounded-LRU reference
	if viol == "" {
		if len(q) != len(r.Q) {
			viol = fmt.Sprintf("cache holds %d entries, the bounded LRU map %d", len(q), len(r.Q))
		} else {
			for i, e := range r.Q {
				if keyNum(q[i].Key) != e[0] || ids[q[i].State] != e[1] {
					viol = fmt.Sprintf("recency position %d holds %s, the bounded LRU map has k%d:%d", i, qs[i], e[0], e[1])
					break
				}
			}
		}
		if viol == "" && (capQ != r.Cap || qLen != len(q) || qLen > capQ) {
			viol = fmt.Sprintf("capacity %d (expected %d), q.Len()=%d, %d elements", capQ, r.Cap, qLen, len(q))
		}
	}
	dash := func(l []string) string {
		if len(l) == 0 {
			return "-"
		}
		return strings.Join(l, ",")
	}
	out := fmt.Sprintf("cap=%d len=%d q=%s m=%s", capQ, qLen, dash(qs), dash(ms))
	tags := []string{"st", fmt.Sprintf("st-cap=%d", capacity), fmt.Sprintf("st-evictions=%s", bucket(evictions))}
	if evictAtDefault {
		tags = append(tags, "st-eviction-at-default-capacity")
	}
	if len(q) == capQ {
		tags = append(tags, "st-final-full")
	}
	return zv.Out{Go: out, Viol: viol, Tags: tags}
}

func bucket(n int) string {
	switch {
	case n == 0:
		return "0"
	case n < 4:
		return "1-3"
	case n < 16:
		return "4-15"
	}
	return "16+"
}

// ---- `c35 acc <cap> <calls>`: sequential-history acceptance (the checker's specification vs ZV.C35.accepts) ----

func parseCalls(s string) ([]lin.Call, bool) {
	var h []lin.Call
	for _, t := range strings.Split(s, ",") {
		p := strings.Split(t, "=")
		o, err := lin.ParseOp(p[0])
		if err != nil || len(p) > 2 {
			return nil, false
		}
		c := lin.Call{Op: o}
		if o.Put != (len(p) == 1) {
			return nil, false
		}
		if !o.Put {
			vb := strings.Split(p[1], "/")
			if len(vb) != 2 || (vb[1] != "t" && vb[1] != "f") {
				return nil, false
			}
			if vb[0] != "n" {
				v, err := strconv.Atoi(vb[0])
				if err != nil || v < 0 {
					return nil, false
				}
				c.Ret.Val = v
			}
			c.Ret.Ok = vb[1] == "t"
		}
		h = append(h, c)
	}
	return h, true
}

func execAcc(f []string) zv.Out {
	if len(f) != 4 {
		return zv.Out{Go: "bad-op"}
	}
	capacity, err := strconv.Atoi(f[2])
	h, ok := parseCalls(f[3])
	if err != nil || !ok {
		return zv.Out{Go: "bad-op"}
	}
	acc := lin.SeqAccepts(capacity, h)
	// T3: the REAL cache, run sequentially on the same operations, returns the recorded values iff accepted
	var threads [][]lin.Op
	threads = append(threads, nil)
	for _, c := range h {
		threads[0] = append(threads[0], c.Op)
	}
	rc := lin.NewCache(capacity, lin.MaxID(threads))
	real := true
	for _, c := range h {
		got := rc.Do(c.Op)
		if !c.Op.Put && got != c.Ret {
			real = false
		}
	}
	out, viol := "rej", ""
	if acc {
		out = "acc"
	}
	if acc != real {
		viol = fmt.Sprintf("sequential history accepted by the specification: %v, reproduced by the real cache: %v", acc, real)
	}
	return zv.Out{Go: out, Viol: viol, Tags: []string{"acc", "acc-" + out}}
}

// ---- concurrency (T3 only) -------------------------------------------------------------------------------------
// `c35 conc <cap> <seed> <ops|ops|…>`  goroutines (one per `|` part) on ONE cache, 8 runs; every history checked for
//                                      linearizability against the sequential specification (lin.Ref)
// `c35 concb <seed> <rounds>`          <rounds> random workloads of that kind (lin.GenThreads)
// `c35 race <seed> <rounds>`           the same in a `-race` build of helper + zcrypto
// All of them run in a helper process (go/props/c35/racecmd, built plain and with -race), because unsynchronised map
// access ends a Go process with a fatal error that cannot be recovered: the helper's death is then a violation
// of THIS line instead of the end of the whole harness run.

func execConc(f []string) zv.Out {
	if len(f) != 5 {
		return zv.Out{Go: "bad-op"}
	}
	_, err := strconv.Atoi(f[2])
	_, err2 := strconv.ParseUint(f[3], 10, 64)
	threads, err3 := lin.ParseThreads(f[4])
	if err != nil || err2 != nil || err3 != nil {
		return zv.Out{Go: "bad-op"}
	}
	seed, _ := strconv.ParseUint(f[3], 10, 64)
	return runHelper(false, seed, []string{"conc", fmt.Sprintf("conc-threads=%d", len(threads))}, "one", f[2], f[3], f[4], "8")
}

func execRounds(f []string, race bool) zv.Out {
	if len(f) != 4 {
		return zv.Out{Go: "bad-op"}
	}
	seed, err := strconv.ParseUint(f[2], 10, 64)
	rounds, err2 := strconv.Atoi(f[3])
	if err != nil || err2 != nil || rounds < 1 {
		return zv.Out{Go: "bad-op"}
	}
	tag := "concb"
	if race {
		tag = "race-run"
	}
	return runHelper(race, seed, []string{tag}, "rounds", f[2], f[3])
}

type helper struct {
	once sync.Once
	bin  string
	err  string
}

var helpers [2]helper // 0 plain, 1 -race

func goDir() string {
	_, file, _, ok := runtime.Caller(0)
	if ok {
		d := filepath.Dir(filepath.Dir(filepath.Dir(file))) // …/go
		if _, err := os.Stat(filepath.Join(d, "go.mod")); err == nil {
			return d
		}
	}
	if exe, err := os.Executable(); err == nil { // <verif>/.build/zvharness
		d := filepath.Join(filepath.Dir(filepath.Dir(exe)), "go")
		if _, err := os.Stat(filepath.Join(d, "go.mod")); err == nil {
			return d
		}
	}
	return ""
}

func goEnv() []string {
	var env []string
	for _, kv := range os.Environ() {
		switch strings.SplitN(kv, "=", 2)[0] {
		case "GOFLAGS", "GOPROXY", "GOTOOLCHAIN", "GOSUMDB", "GONOSUMDB", "GONOSUMCHECK", "GOMEMLIMIT", "GORACE", "GOMAXPROCS":
			continue
		}
		env = append(env, kv)
	}
	return append(env, "GOFLAGS=-mod=mod", "GOPROXY=off")
}

// build (re)builds a helper once per harness process into <verif>/.build (never under the system temp directory):
// `go build -o` leaves an up-to-date target alone, relinks it when zcrypto or the harness sources changed, and
// creates it when absent.
func (h *helper) build(race bool) {
	d := goDir()
	if d == "" {
		h.err = "cannot locate the harness source directory (go.mod) to build the concurrency helper"
		return
	}
	bdir := filepath.Join(filepath.Dir(d), ".build")
	if err := os.MkdirAll(bdir, 0o755); err != nil {
		h.err = "cannot create " + bdir + ": " + err.Error()
		return
	}
	name, args := "zv-c35-conccmd", []string{"build", "-tags", "verif"}
	if race {
		name, args = "zv-c35-racecmd", []string{"build", "-race", "-tags", "verif"}
	}
	final := filepath.Join(bdir, name)
	out := fmt.Sprintf("%s.%d", final, os.Getpid())
	if b, err := os.ReadFile(final); err == nil { // start from the previous binary so that nothing is relinked when up to date
		os.WriteFile(out, b, 0o755)
	}
	cmd := exec.Command("go", append(args, "-o", out, "./props/c35/racecmd")...)
	cmd.Dir = d
	cmd.Env = goEnv()
	b, err := cmd.CombinedOutput()
	if err != nil {
		os.Remove(out)
		h.err = "go " + strings.Join(args, " ") + " failed: " + err.Error() + "\n" + string(b)
		return
	}
	if err := os.Rename(out, final); err != nil {
		h.bin = out
		return
	}
	h.bin = final
}

func runHelper(race bool, seed uint64, tags []string, args ...string) zv.Out {
	h := &helpers[0]
	if race {
		h = &helpers[1]
	}
	h.once.Do(func() { h.build(race) })
	if h.err != "" {
		return zv.Out{Viol: h.err, Tags: []string{"helper-build-failed"}}
	}
	procs := []string{"2", "4", "8"}[seed%3]
	cmd := exec.Command(h.bin, args...)
	cmd.Env = append(goEnv(), "GORACE=halt_on_error=0 exitcode=66", "GOMAXPROCS="+procs)
	var stdout, stderr bytes.Buffer
	cmd.Stdout, cmd.Stderr = &stdout, &stderr
	if err := cmd.Start(); err != nil {
		return zv.Out{Viol: "cannot start concurrency helper: " + err.Error()}
	}
	done := make(chan error, 1)
	go func() { done <- cmd.Wait() }()
	var werr error
	select {
	case werr = <-done:
	case <-time.After(200 * time.Second):
		cmd.Process.Kill()
		<-done
		return zv.Out{Viol: "concurrency helper did not finish within 200 s (deadlock?)\n" + tail(stderr.String(), 1500), Tags: append(tags, "helper-timeout")}
	}
	tags = append(tags, tags[0]+"-GOMAXPROCS="+procs)
	se := stderr.String()
	if i := strings.Index(se, "WARNING: DATA RACE"); i >= 0 {
		return zv.Out{Viol: "data race reported by the race detector during concurrent Get/Put on one cache:\n" + tail2(se[i:], 1800), Tags: append(tags, "DATA-RACE")}
	}
	if i := strings.Index(se, "fatal error:"); i >= 0 {
		return zv.Out{Viol: "Go runtime fatal error during concurrent Get/Put on one cache: " + tail2(se[i:], 900), Tags: append(tags, "FATAL")}
	}
	so := strings.TrimSpace(stdout.String())
	if strings.HasPrefix(so, "violation:") {
		return zv.Out{Viol: tail2(so, 2500), Tags: append(tags, "NOT-LINEARIZABLE")}
	}
	if werr != nil || !strings.HasPrefix(so, "ok") {
		return zv.Out{Viol: "concurrency helper: " + fmt.Sprint(werr) + " " + tail(so, 1200) + "\n" + tail(se, 1200), Tags: append(tags, "helper-failed")}
	}
	if !strings.HasSuffix(so, "overlaps=0") {
		tags = append(tags, tags[0]+"-calls-overlapped")
	}
	return zv.Out{Tags: tags}
}

func tail(s string, n int) string {
	if len(s) > n {
		return "…" + s[len(s)-n:]
	}
	return s
}

func tail2(s string, n int) string { // head, actually: the first report
	if len(s) > n {
		return s[:n] + "…"
	}
	return s
}
