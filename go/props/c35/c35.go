// Package c35: LRU client session cache (tls/common.go lruSessionCache) through the public API.
package c35

import (
	"fmt"
	"strconv"
	"strings"

	"github.com/zmap/zcrypto/tls"

	"zv/internal/zv"
)

type op struct {
	put bool
	key int
	val int // 0 = nil
}

func parse(line string) (cap int, ops []op) {
	f := strings.Fields(line)
	cap, _ = strconv.Atoi(f[1])
	for _, s := range strings.Split(f[2], ",") {
		if s[0] == 'g' {
			k, _ := strconv.Atoi(s[1:])
			ops = append(ops, op{key: k})
		} else {
			kv := strings.Split(s[1:], ":")
			k, _ := strconv.Atoi(kv[0])
			v := 0
			if kv[1] != "n" {
				v, _ = strconv.Atoi(kv[1])
			}
			ops = append(ops, op{put: true, key: k, val: v})
		}
	}
	return
}

// reference: the property's sentence as an independent bounded-LRU map.
type ref struct {
	cap int
	q   [][2]int // most recent first: key, val(>0)
}

func (r *ref) remove(k int) (int, bool) {
	for i, e := range r.q {
		if e[0] == k {
			r.q = append(r.q[:i:i], r.q[i+1:]...)
			return e[1], true
		}
	}
	return 0, false
}
func (r *ref) put(k, v int) {
	r.remove(k)
	if v == 0 {
		return
	}
	r.q = append([][2]int{{k, v}}, r.q...)
	if len(r.q) > r.cap {
		r.q = r.q[:r.cap]
	}
}
func (r *ref) get(k int) (int, bool) {
	v, ok := r.remove(k)
	if ok {
		r.q = append([][2]int{{k, v}}, r.q...)
	}
	return v, ok
}

func exec(line string) zv.Out {
	capacity, ops := parse(line)
	c := tls.NewLRUClientSessionCache(capacity)
	rc := capacity
	if rc < 1 {
		rc = 64
	}
	r := &ref{cap: rc}
	states := map[int]*tls.ClientSessionState{}
	ids := map[*tls.ClientSessionState]int{}
	var outs []string
	viol := ""
	nilAbsent := false
	for i, o := range ops {
		if o.put {
			var s *tls.ClientSessionState
			if o.val != 0 {
				s = states[o.val]
				if s == nil {
					s = &tls.ClientSessionState{}
					states[o.val] = s
					ids[s] = o.val
				}
			} else {
				present := false
				for _, e := range r.q {
					if e[0] == o.key {
						present = true
					}
				}
				if !present {
					nilAbsent = true
				}
			}
			c.Put("k"+strconv.Itoa(o.key), s)
			r.put(o.key, o.val)
		} else {
			s, ok := c.Get("k" + strconv.Itoa(o.key))
			id := "n"
			if s != nil {
				id = strconv.Itoa(ids[s])
			}
			b := "f"
			if ok {
				b = "t"
			}
			outs = append(outs, id+"/"+b)
			rv, rok := r.get(o.key)
			rid := "n"
			if rok {
				rid = strconv.Itoa(rv)
			}
			if (rid != id || rok != ok) && viol == "" {
				viol = fmt.Sprintf("op %d Get(k%d) returned (%s,%v); a bounded LRU map with nil-Put = delete returns (%s,%v)", i, o.key, id, ok, rid, rok)
			}
		}
	}
	out := "-"
	if len(outs) > 0 {
		out = strings.Join(outs, ",")
	}
	tags := []string{fmt.Sprintf("cap=%d", capacity), fmt.Sprintf("len<=%d", (len(ops)/8+1)*8)}
	if nilAbsent {
		tags = append(tags, "nil-put-on-absent-key")
	}
	return zv.Out{Go: out, Viol: viol, Tags: tags}
}

func opStr(o op) string {
	if !o.put {
		return "g" + strconv.Itoa(o.key)
	}
	if o.val == 0 {
		return fmt.Sprintf("p%d:n", o.key)
	}
	return fmt.Sprintf("p%d:%d", o.key, o.val)
}

func emit(g *zv.Gen, cap int, ops []op, nkeys int) {
	var ss []string
	for _, o := range ops {
		ss = append(ss, opStr(o))
	}
	for k := 0; k < nkeys; k++ { // tail probe: observe the final contents
		ss = append(ss, "g"+strconv.Itoa(k))
	}
	g.Emitf("c35 %d %s", cap, strings.Join(ss, ","))
}

func gen(g *zv.Gen) {
	// corpus: the nil-Put-on-absent-key sequences (D12)
	g.Emit("c35 2 p0:1,p1:2,p2:n,g0,g1,g2")
	g.Emit("c35 1 p0:1,p1:n,g0,g1")
	g.Emit("c35 3 p0:n,g0")
	// exhaustive short histories
	nkeys, maxlen, maxcap := 3, g.N(4, 5), 3
	var alphabet []op
	for k := 0; k < nkeys; k++ {
		alphabet = append(alphabet, op{key: k})
		for v := 0; v <= 2; v++ {
			alphabet = append(alphabet, op{put: true, key: k, val: v})
		}
	}
	for cap := 1; cap <= maxcap; cap++ {
		var rec func(prefix []op)
		rec = func(prefix []op) {
			if len(prefix) > 0 {
				emit(g, cap, prefix, nkeys)
			}
			if len(prefix) == maxlen {
				return
			}
			for _, a := range alphabet {
				rec(append(append([]op{}, prefix...), a))
			}
		}
		rec(nil)
	}
	// random longer histories, more keys, capacities incl. the <1 ⇒ 64 default
	n := g.N(20000, 400000)
	for i := 0; i < n; i++ {
		r := g.Rng
		nk := 2 + r.Intn(6)
		cap := 1 + r.Intn(5)
		if r.Chance(3) {
			cap = -r.Intn(2)
		}
		l := 1 + r.Intn(40)
		ops := make([]op, l)
		for j := range ops {
			ops[j] = op{put: r.Chance(60), key: r.Intn(nk)}
			if ops[j].put && !r.Chance(25) {
				ops[j].val = 1 + r.Intn(9)
			}
		}
		emit(g, cap, ops, nk)
	}
}

func init() {
	zv.Register(&zv.Prop{ID: "C35", Topic: "c35", Gen: gen, Exec: exec,
		Rule: "every Put/Get history up to length 4 (quick) / 5 (thorough) over 3 keys x {nil,s1,s2} x capacity 1..3, plus random histories up to 40 ops over 2..7 keys, capacity 1..5 and the <1 default; each followed by a Get of every key; a case is one distinct history; T3 = independent bounded-LRU reference (nil Put = delete only)"})
}
