package c25

// C25 / T3 with real cipher suites: real in-process handshakes for every (version, suite) pair that negotiates in
// this tree, then
//
//	cover  the negotiated set must contain the required minimum (no silent loss of coverage)
//	xfer   both peers write random write-size sequences at the same time over a segmenting transport; each peer
//	       must read exactly what the other wrote, then io.EOF; every protected record on the wire is parsed and
//	       checked against the suite's expansion: no record can carry more than 2^14 plaintext bytes, the
//	       plaintext lengths add up to the bytes written (per Write call), one Read per record with a big buffer
//	fault  one peer writes, a record-aware middlebox alters the protected records (flip / drop / duplicate / swap /
//	       truncate / replay / cut / insert / length edits, single and multiple); the reader must deliver exactly
//	       the plaintext of the records before the first altered wire byte and then fail
//
// Lines are T3-only (Out.Go == ""). Every random choice of a case derives from the seed in its line.

import (
	"errors"
	"fmt"
	"io"
	"net"
	"strconv"
	"strings"
	"time"

	"github.com/zmap/zcrypto/tls"

	"zv/internal/tlsrig"
	"zv/internal/zv"
)

const (
	realWait    = 7 * time.Second // per-phase guard; cases normally take a few ms
	bigReadBuf  = 1 << 15
	recTypeCCS  = 20
	recTypeAlrt = 21
	recTypeApp  = 23
)

/* ---------------------------------------------------------------- generator ---------------------------------------------------------------- */

func genReal(g *zv.Gen) {
	ps := negotiated()
	var ss []string
	for _, p := range ps {
		ss = append(ss, p.String())
	}
	if len(ss) == 0 {
		ss = []string{"-"}
	}
	g.Emitf("c25 real cover %s", strings.Join(ss, ","))
	r := g.Rng
	for _, p := range ps {
		if !p.known {
			continue // reported by the cover case
		}
		id := fmt.Sprintf("%04x %04x %s", p.vers, p.suite, p.cert)
		// ---- no-fault transfers: profile 0 (edge sizes) and 1 (bulk, crosses the record-size boost) always, others random
		// finite-field DHE handshakes cost ~9 ms instead of 1-2 ms and share their record protection with the RSA /
		// ECDHE suites of the same cipher: fewer cases for them
		slow := strings.HasPrefix(p.prot.kx, "dhe_")
		nx := g.N(5, 100)
		if slow {
			nx = g.N(2, 10)
		}
		for i := 0; i < nx; i++ {
			prof := i
			if i >= 5 {
				prof = r.Intn(5)
			}
			dyn, beast := r.Intn(2), 0
			if i == 0 {
				dyn = 1 // dynamic sizing off: full-size records from the first write on
			}
			if i == 1 {
				dyn = 0 // dynamic sizing on: the bulk profile ramps up and crosses the 128 KiB boost threshold
			}
			if p.vers == tls.VersionTLS10 && r.Chance(30) {
				beast = 1
			}
			g.Emitf("c25 real xfer %s %d %d %d %d", id, r.U64()>>1, dyn, beast, prof)
		}
		// ---- wire faults
		emit2 := func(writes []int, faults, dyn string) {
			ws := make([]string, len(writes))
			for i, w := range writes {
				ws[i] = strconv.Itoa(w)
			}
			dir := "c2s"
			if r.Bool() {
				dir = "s2c"
			}
			g.Emitf("c25 real fault %s %d %s %s %s %s", id, r.U64()>>1, dir, dyn, strings.Join(ws, ","), faults)
		}
		emit := func(writes []int, faults string) { emit2(writes, faults, strconv.Itoa(r.Intn(2))) }
		randWrites := func() []int {
			n := 2 + r.Intn(4)
			w := make([]int, n)
			for i := range w {
				switch r.Intn(10) {
				case 0:
					w[i] = 1
				case 1:
					w[i] = 2
				case 2:
					w[i] = 1000 + r.Intn(3000)
				case 3:
					if r.Chance(30) {
						w[i] = 16384 + r.Intn(3)
					} else {
						w[i] = 3 + r.Intn(40)
					}
				default:
					w[i] = 3 + r.Intn(200)
				}
			}
			return w
		}
		mask := func() int {
			switch r.Intn(4) {
			case 0:
				return 1 << r.Intn(8)
			case 1:
				return 0xff
			case 2:
				return 0x80
			}
			return 1 + r.Intn(255)
		}
		bodyPos := func() string {
			switch r.Intn(5) {
			case 0:
				return "b0"
			case 1:
				return "e0"
			case 2:
				return fmt.Sprintf("e%d", r.Intn(16))
			case 3:
				return fmt.Sprintf("b%d", r.Intn(24))
			}
			return fmt.Sprintf("b%d", r.Intn(4000))
		}
		randFault := func() string {
			i := r.Intn(8)
			switch r.Intn(14) {
			case 0:
				return fmt.Sprintf("drop:%d", i)
			case 1:
				return fmt.Sprintf("dup:%d", i)
			case 2:
				return fmt.Sprintf("swap:%d", i)
			case 3:
				return fmt.Sprintf("trunc:%d:%d", i, r.Intn(80))
			case 4:
				return fmt.Sprintf("tail:%d", i)
			case 5:
				return fmt.Sprintf("replay:%d:%d", i, r.Intn(8))
			case 6:
				return fmt.Sprintf("cut:%d:%d:%d", i, r.Intn(60), 1+r.Intn(20))
			case 7:
				return fmt.Sprintf("garbage:%d", i)
			case 8:
				return fmt.Sprintf("zero:%d", i)
			case 9:
				return fmt.Sprintf("setlen:%d:%d", i, []int{-1, 1, -5, 16, 256, 20000, -20000}[r.Intn(7)])
			case 10:
				return fmt.Sprintf("flip:%d:h%d:%02x", i, r.Intn(5), mask())
			}
			return fmt.Sprintf("flip:%d:%s:%02x", i, bodyPos(), mask())
		}
		// POODLE-style block substitution (CBC only): a record whose padding fills a whole block gets its last
		// ciphertext block replaced by another block of the same record; data and MAC are untouched, so a receiver
		// that looks at the last padding byte only accepts it with probability 1/256 per attempt. Must always fail.
		poodle := func(tries int) {
			if p.prot.kind != "cbc" {
				return
			}
			for t := 0; t < tries; t++ {
				n := p.prot.block - p.prot.mac%p.prot.block + p.prot.block*r.Intn(6) // n + mac ≡ 0 (mod block)
				w := []int{3 + r.Intn(50), n, 3 + r.Intn(50)}
				target := 1
				if p.vers == tls.VersionTLS10 {
					w[1] = n + 1 // 1/n-1 splitting: records of 1 and n bytes
					target = 3   // records: w0 → 0,1; w1 → 2,3
				}
				emit2(w, fmt.Sprintf("poodle:%d:%d", target, r.Intn(64)), "0")
			}
		}
		if g.Quick && slow {
			emit(randWrites(), fmt.Sprintf("flip:%d:h%d:%02x", r.Intn(8), r.Intn(5), mask()))
			emit(randWrites(), fmt.Sprintf("flip:%d:%s:%02x", r.Intn(8), bodyPos(), mask()))
			for k := 0; k < 6; k++ {
				emit(randWrites(), randFault())
			}
			continue
		}
		if g.Quick {
			for h := 0; h < 5; h++ { // every header byte
				emit(randWrites(), fmt.Sprintf("flip:%d:h%d:%02x", r.Intn(8), h, mask()))
			}
			emit(randWrites(), fmt.Sprintf("flip:%d:b%d:%02x", r.Intn(8), r.Intn(p.prot.explicit+p.prot.block+1), mask())) // explicit nonce / IV / first block
			emit(randWrites(), fmt.Sprintf("flip:%d:b%d:%02x", r.Intn(8), r.Intn(4000), mask()))                           // somewhere in the body
			emit(randWrites(), fmt.Sprintf("flip:%d:e%d:%02x", r.Intn(8), r.Intn(p.prot.tag+p.prot.mac+1), mask()))        // tag / MAC / padding
			emit(randWrites(), "flip:0:e0:01")                                                                             // last byte (padding length / tag)
			for _, k := range []string{"drop", "dup", "swap", "tail"} {
				emit(randWrites(), fmt.Sprintf("%s:%d", k, r.Intn(8)))
			}
			emit(randWrites(), fmt.Sprintf("trunc:%d:%d", r.Intn(8), r.Intn(80)))
			emit(randWrites(), fmt.Sprintf("replay:%d:%d", r.Intn(8), r.Intn(8)))
			emit(randWrites(), fmt.Sprintf("cut:%d:%d:%d", r.Intn(8), r.Intn(60), 1+r.Intn(20)))
			emit(randWrites(), fmt.Sprintf("ccs:%d", r.Intn(8)))
			emit(randWrites(), randFault())
			emit(randWrites(), randFault()+"+"+randFault())
			emit(randWrites(), randFault()+"+"+randFault()+"+"+randFault())
			for i := 0; i < 10; i++ {
				f := randFault()
				for k := r.Intn(3); k > 0; k-- {
					f += "+" + randFault()
				}
				emit(randWrites(), f)
			}
			poodle(40)
			continue
		}
		if slow {
			poodle(100)
		} else {
			poodle(600)
		}
		// thorough: EVERY byte position of a small record, in the first, a middle and the last record
		for _, n := range []int{1, 5, 33} {
			total := 5 + p.prot.bodyLen(p.vers, n)
			for pos := 0; pos < total; pos++ {
				w := []int{n, n, n}
				if p.vers == tls.VersionTLS10 && p.prot.kind == "cbc" && n > 1 {
					w = []int{n, 1, n} // with 1/n-1 splitting the records of an n-byte write are 1 and n-1 bytes; target the 1-byte write's record as well
				}
				ps := fmt.Sprintf("b%d", pos-5)
				if pos < 5 {
					ps = fmt.Sprintf("h%d", pos)
				}
				emit(w, fmt.Sprintf("flip:%d:%s:%02x", pos%4, ps, mask()))
				if n == 5 && !slow { // and every single bit of every byte of the 5-byte-payload record
					for bit := 0; bit < 8; bit++ {
						emit(w, fmt.Sprintf("flip:%d:%s:%02x", r.Intn(4), ps, 1<<bit))
					}
				}
			}
		}
		// every bit of every header byte and of the first / last 2 body bytes
		for _, ps := range []string{"h0", "h1", "h2", "h3", "h4", "b0", "b1", "e0", "e1"} {
			for bit := 0; bit < 8; bit++ {
				emit([]int{7, 20, 9}, fmt.Sprintf("flip:%d:%s:%02x", r.Intn(3), ps, 1<<bit))
			}
		}
		// every record-level fault at every record index of a 4-write sequence
		for _, k := range []string{"drop", "dup", "swap", "tail", "garbage", "zero", "ccs"} {
			for i := 0; i < 6; i++ {
				emit(randWrites(), fmt.Sprintf("%s:%d", k, i))
			}
		}
		for i := 0; i < 6; i++ {
			for e := 0; e < 4; e++ {
				emit(randWrites(), fmt.Sprintf("replay:%d:%d", i, e))
			}
			for _, d := range []int{-1, 1, -5, 16, 256, 20000, -20000} {
				emit(randWrites(), fmt.Sprintf("setlen:%d:%d", i, d))
			}
			for t := 0; t < 6; t++ {
				emit(randWrites(), fmt.Sprintf("trunc:%d:%d", i, []int{0, 1, 4, 5, 6, 40}[t]))
			}
			emit(randWrites(), fmt.Sprintf("cut:%d:%d:%d", i, r.Intn(60), 1+r.Intn(20)))
		}
		for i := 0; i < 60; i++ {
			f := randFault()
			for k := r.Intn(4); k > 0; k-- {
				f += "+" + randFault()
			}
			emit(randWrites(), f)
		}
	}
}

/* ---------------------------------------------------------------- executor ---------------------------------------------------------------- */

func execReal(line string) zv.Out {
	f := strings.Fields(line)
	if len(f) < 4 || f[0] != "c25" || f[1] != "real" {
		return zv.Out{Viol: "rig: malformed line", Tags: []string{"real:malformed"}}
	}
	switch f[2] {
	case "cover":
		return execCover(f[3])
	case "xfer":
		if len(f) == 10 {
			return execXfer(f)
		}
	case "fault":
		if len(f) == 11 {
			return execFault(f)
		}
	case "seg":
		if len(f) == 14 {
			return execSeg(f)
		}
	}
	return zv.Out{Viol: "rig: malformed line", Tags: []string{"real:malformed"}}
}

func execCover(list string) zv.Out {
	ps := negotiated()
	var ss []string
	o := zv.Out{Tags: []string{"real:cover", fmt.Sprintf("real:pairs=%d", len(ps))}}
	for _, p := range ps {
		ss = append(ss, p.String())
		o.Tags = append(o.Tags, "real:pair:"+versName(p.vers)+":"+p.name)
	}
	bad := coverageProblems(ps)
	if got := strings.Join(ss, ","); got != list && list != "-" {
		// informative only when replaying a line from another tree; the generator of this process wrote `list`
		o.Tags = append(o.Tags, "real:cover:list-differs")
	}
	if len(bad) > 0 {
		o.Viol = "coverage lost: " + strings.Join(bad, "; ")
	}
	return o
}

func parsePair(f []string) (pair, error) {
	v, e1 := strconv.ParseUint(f[3], 16, 16)
	s, e2 := strconv.ParseUint(f[4], 16, 16)
	if e1 != nil || e2 != nil {
		return pair{}, errors.New("bad version/suite")
	}
	p := pair{vers: uint16(v), suite: uint16(s), cert: f[5], name: tls.CipherSuiteID(s).String()}
	p.prot, p.known = protFor(p.vers, p.name)
	if !p.known {
		return p, errors.New("suite construction unknown to the oracle: " + p.name)
	}
	if _, ok := tlsrig.GetPKI().Leaf[p.cert]; !ok {
		return p, errors.New("unknown certificate kind " + p.cert)
	}
	return p, nil
}

func (p pair) tags() []string {
	return []string{"real:" + versName(p.vers), "real:suite:" + p.name, "real:kind:" + versName(p.vers) + "/" + p.prot.kind,
		"real:cipher:" + p.prot.cipher, "real:kx:" + p.prot.kx}
}

// session is an established connection pair with a RecordBox on each endpoint's transport.
type session struct {
	cc, sc     *tls.Conn
	cbox, sbox *tlsrig.RecordBox
}

func (s *session) close() {
	// close the transports first so that no Close can block, then release the tls.Conn state
	s.cbox.Conn.Close()
	s.sbox.Conn.Close()
	s.cc.Close()
	s.sc.Close()
}

func establish(p pair, dynOff, beastOff bool) (*session, string) {
	return establishWith(p, dynOff, beastOff, estOpts{})
}

// estOpts: tweak may adjust the two configurations before the handshake; alignClient makes the client's transport
// serve the handshake record by record (no read-ahead), so that post-handshake messages of the server stay queued.
type estOpts struct {
	tweak       func(ccfg, scfg *tls.Config)
	alignClient bool
}

func establishWith(p pair, dynOff, beastOff bool, eo estOpts) (*session, string) {
	ccfg, scfg := configs(p.vers, p.suite, p.cert)
	for _, c := range []*tls.Config{ccfg, scfg} {
		c.DynamicRecordSizingDisabled = dynOff
		c.DisableTLS10BEASTMitigation = beastOff
	}
	if eo.tweak != nil {
		eo.tweak(ccfg, scfg)
	}
	s := &session{}
	res := tlsrig.Handshake(ccfg, scfg, tlsrig.Opts{KeepOpen: true, Timeout: realWait,
		WrapClient: func(c net.Conn) net.Conn {
			s.cbox = tlsrig.NewRecordBox(c)
			if eo.alignClient {
				s.cbox.ReadHook = tlsrig.RecordAlignedRead(c)
			}
			return s.cbox
		},
		WrapServer: func(c net.Conn) net.Conn { s.sbox = tlsrig.NewRecordBox(c); return s.sbox }})
	s.cc, s.sc = res.Client.Conn, res.Server.Conn
	bad := ""
	switch {
	case res.TimedOut:
		bad = "handshake timed out"
	case res.Client.Panic != nil || res.Server.Panic != nil:
		bad = fmt.Sprintf("handshake panic: %v / %v", res.Client.Panic, res.Server.Panic)
	case res.Client.Err != nil || res.Server.Err != nil:
		bad = fmt.Sprintf("handshake failed: client=%v server=%v", res.Client.Err, res.Server.Err)
	case res.Client.State.Version != p.vers || res.Server.State.Version != p.vers ||
		res.Client.State.CipherSuite != p.suite || res.Server.State.CipherSuite != p.suite:
		bad = fmt.Sprintf("negotiated %04x/%04x instead of the requested pair", res.Client.State.Version, res.Client.State.CipherSuite)
	}
	if bad != "" {
		s.close()
		return nil, bad
	}
	return s, ""
}

// wireRec is one record of the writer's post-handshake output with the plaintext length it can carry.
type wireRec struct {
	raw    []byte
	lo, hi int
}

// checkWire parses the bytes an endpoint wrote after the handshake. marks[i] = bytes logged after the i-th Write
// returned (so the records of each Write call are known), sizes[i] = its length. Everything after the last mark is
// the close_notify alert. It returns the application-data records and the first violated wire claim.
func checkWire(p pair, logged []byte, sizes, marks []int, closed bool) (app []wireRec, tags []string, viol string) {
	recs, rest := tlsrig.SplitRecords(logged)
	if len(rest) != 0 {
		return nil, nil, fmt.Sprintf("writer output does not end at a record boundary (%d stray bytes)", len(rest))
	}
	wireVers := p.vers
	if wireVers == tls.VersionTLS13 {
		wireVers = tls.VersionTLS12
	}
	limit := maxPT + 2048
	if p.vers == tls.VersionTLS13 {
		limit = maxPT + 256
	}
	off, w := 0, 0 // byte offset of the current record, index of the Write it belongs to
	sumLo, sumHi := 0, 0
	maxHi := 0
	endApp := 0
	if len(marks) > 0 {
		endApp = marks[len(marks)-1]
	}
	for i, rec := range recs {
		if off >= endApp {
			// close_notify: one alert record with 2 plaintext bytes
			typ := byte(recTypeAlrt)
			want := 2
			if p.vers == tls.VersionTLS13 {
				typ = recTypeApp
			}
			lo, hi, _, ok := p.prot.ptRange(p.vers, len(rec)-5)
			if rec[0] != typ || !ok || lo > want || hi < want || !closed || i != len(recs)-1 {
				return nil, nil, fmt.Sprintf("unexpected record after the application data: % x… (len %d)", rec[:5], len(rec))
			}
			off += len(rec)
			continue
		}
		for w < len(marks) && marks[w] <= off { // Writes that produced no record (length 0) or are complete
			if sumLo > sizes[w] || sumHi < sizes[w] {
				return nil, nil, fmt.Sprintf("records of write #%d (len %d) carry between %d and %d plaintext bytes", w, sizes[w], sumLo, sumHi)
			}
			w++
			sumLo, sumHi = 0, 0
		}
		body := len(rec) - 5
		if rec[0] != recTypeApp {
			return nil, nil, fmt.Sprintf("record %d: type %d in the application data phase", i, rec[0])
		}
		if uint16(rec[1])<<8|uint16(rec[2]) != wireVers {
			return nil, nil, fmt.Sprintf("record %d: version bytes %02x%02x, negotiated %04x", i, rec[1], rec[2], p.vers)
		}
		if body > limit {
			return nil, nil, fmt.Sprintf("record %d: length field %d exceeds 2^14+%d", i, body, limit-maxPT)
		}
		if body > p.prot.maxBody(p.vers) {
			return nil, nil, fmt.Sprintf("record %d: %d ciphertext bytes, more than 2^14 plaintext bytes can expand to (%d)", i, body, p.prot.maxBody(p.vers))
		}
		lo, hi, exact, ok := p.prot.ptRange(p.vers, body)
		if !ok {
			return nil, nil, fmt.Sprintf("record %d: body length %d impossible for %s", i, body, p.prot.kind)
		}
		if exact && hi > maxPT {
			return nil, nil, fmt.Sprintf("record %d carries %d > 2^14 plaintext bytes", i, hi)
		}
		if off+len(rec) > marks[w] {
			return nil, nil, fmt.Sprintf("record %d straddles the end of write #%d", i, w)
		}
		if hi > maxHi {
			maxHi = hi
		}
		sumLo, sumHi = sumLo+lo, sumHi+hi
		app = append(app, wireRec{raw: rec, lo: lo, hi: hi})
		off += len(rec)
	}
	for w < len(marks) {
		if sumLo > sizes[w] || sumHi < sizes[w] {
			return nil, nil, fmt.Sprintf("records of write #%d (len %d) carry between %d and %d plaintext bytes", w, sizes[w], sumLo, sumHi)
		}
		w++
		sumLo, sumHi = 0, 0
	}
	// narrow the CBC ranges with the per-write totals: a single-record write is exact
	narrowByWrites(app, logged, sizes, marks)
	switch {
	case maxHi >= maxPT:
		tags = append(tags, "real:maxrec:2^14")
	case maxHi > 1300:
		tags = append(tags, "real:maxrec:>mss")
	default:
		tags = append(tags, "real:maxrec:<=mss")
	}
	tags = append(tags, "real:records:"+bucket(len(app)))
	return app, tags, ""
}

// narrowByWrites tightens [lo,hi] of each record using Σ plaintext(records of a write) = length of that write.
func narrowByWrites(app []wireRec, logged []byte, sizes, marks []int) {
	off, k := 0, 0
	for w := range marks {
		a := k
		for k < len(app) && off < marks[w] {
			off += len(app[k].raw)
			k++
		}
		sl, sh := 0, 0
		for _, r := range app[a:k] {
			sl, sh = sl+r.lo, sh+r.hi
		}
		for i := a; i < k; i++ {
			lo := sizes[w] - (sh - app[i].hi)
			hi := sizes[w] - (sl - app[i].lo)
			if lo > app[i].lo {
				app[i].lo = lo
			}
			if hi < app[i].hi {
				app[i].hi = hi
			}
		}
	}
}

func bucket(n int) string {
	switch {
	case n == 0:
		return "0"
	case n <= 2:
		return "1-2"
	case n <= 8:
		return "3-8"
	case n <= 32:
		return "9-32"
	}
	return ">32"
}

func errClass(err error) string {
	var rhe tls.RecordHeaderError
	var ne net.Error
	switch {
	case err == nil:
		return "nil"
	case err == io.EOF:
		return "eof"
	case errors.Is(err, io.ErrUnexpectedEOF):
		return "unexpected-eof"
	case errors.As(err, &rhe):
		return "record-header"
	case strings.Contains(err.Error(), "bad record MAC"):
		return "bad-record-mac"
	case strings.Contains(err.Error(), "record overflow"):
		return "record-overflow"
	case strings.Contains(err.Error(), "unexpected message"):
		return "unexpected-message"
	case strings.Contains(err.Error(), "error decoding message"):
		return "decode-error"
	case errors.As(err, &ne) && ne.Timeout():
		return "timeout"
	}
	return "other"
}

/* ------------------------------------------------------ no-fault transfer ------------------------------------------------------ */

type flow struct {
	// writer side
	data   []byte
	sizes  []int
	marks  []int
	werr   error
	closed bool
	// reader side
	got      []byte
	reads    []int // sizes of the non-empty Reads
	rerr     error
	panicked bool
}

func writeSizes(r *zv.Rng, prof int) []int {
	edges := []int{0, 1, 2, 16383, 16384, 16385, 40000, 32768, 16384 * 3, 1207, 1400}
	var s []int
	switch prof {
	case 0: // the sizes around the record limit
		for _, i := range []int{0, 1, 3, 4, 5, 6} {
			s = append(s, edges[i])
		}
		for i := len(s) - 1; i > 0; i-- {
			j := r.Intn(i + 1)
			s[i], s[j] = s[j], s[i]
		}
	case 1: // bulk: crosses recordSizeBoostThreshold (128 KiB)
		total := 0
		for total < 140000 {
			n := []int{1 + r.Intn(50000), 16384, 16385, 1 + r.Intn(3000), 0}[r.Intn(5)]
			s = append(s, n)
			total += n
		}
		s = append(s, 16385+r.Intn(30000), 1+r.Intn(20), 40000) // well past the threshold: still at most 2^14 per record
	case 2: // many small writes
		for n := 5 + r.Intn(40); n > 0; n-- {
			s = append(s, r.Intn(300))
		}
	case 3: // medium
		for n := 3 + r.Intn(8); n > 0; n-- {
			s = append(s, 1+r.Intn(6000))
		}
	default: // a single write
		s = []int{edges[r.Intn(len(edges))]}
	}
	return s
}

func readSizer(r *zv.Rng, mode int) func() int {
	switch mode {
	case 0:
		return func() int { return bigReadBuf }
	case 1:
		return func() int { return 1 + r.Intn(64) }
	case 2:
		return func() int { return []int{0, 1, 7, 100, 1000, 16383, 16384, 16385, 20000}[r.Intn(9)] }
	}
	return func() int { return 1 + r.Intn(40000) }
}

// segmenter: how the transport cuts the byte stream for the reading endpoint.
func segmenter(r *zv.Rng, mode int) func() int {
	switch mode {
	case 0:
		return nil
	case 1:
		return func() int { return 1 }
	case 2:
		return func() int { return 1 + r.Intn(16) }
	case 3:
		return func() int { return 1 + r.Intn(1500) }
	case 4:
		return func() int { return []int{1, 4, 5, 6, 13, 100, 1460, 16384, 70000}[r.Intn(9)] }
	}
	return func() int { return 1 + r.Intn(70000) }
}

// The reader / writer goroutines run zcrypto code outside the framework's recover: a panic there is turned into
// an error of that flow (and reported as a violation by the caller) instead of killing the harness process.
func runWriter(c *tls.Conn, box *tlsrig.RecordBox, fl *flow, r *zv.Rng) {
	defer func() {
		if x := recover(); x != nil {
			fl.werr = fmt.Errorf("PANIC in Write: %v", x)
		}
	}()
	for _, n := range fl.sizes {
		b := r.Bytes(n)
		fl.data = append(fl.data, b...)
		m, err := c.Write(b)
		fl.marks = append(fl.marks, box.LoggedLen())
		if err != nil || m != n {
			if err == nil {
				err = fmt.Errorf("short write %d of %d", m, n)
			}
			fl.werr = err
			return
		}
	}
	if err := c.CloseWrite(); err != nil {
		fl.werr = fmt.Errorf("CloseWrite: %w", err)
		return
	}
	fl.closed = true
}

func runReader(c *tls.Conn, fl *flow, size func() int) {
	defer func() {
		if x := recover(); x != nil {
			fl.rerr = fmt.Errorf("PANIC in Read: %v", x)
			fl.panicked = true
		}
	}()
	buf := make([]byte, 70000)
	zero := 0
	for {
		k := size()
		n, err := c.Read(buf[:k])
		if n > 0 {
			fl.got = append(fl.got, buf[:n]...)
			fl.reads = append(fl.reads, n)
		}
		if err != nil {
			fl.rerr = err
			return
		}
		if n == 0 {
			if zero++; k != 0 && zero > 3 {
				fl.rerr = errors.New("rig: Read returned (0, nil) repeatedly with a non-empty buffer")
				return
			}
		} else {
			zero = 0
		}
	}
}

func firstDiff(a, b []byte) int {
	n := len(a)
	if len(b) < n {
		n = len(b)
	}
	for i := 0; i < n; i++ {
		if a[i] != b[i] {
			return i
		}
	}
	if len(a) == len(b) {
		return -1
	}
	return n
}

func execXfer(f []string) zv.Out {
	p, err := parsePair(f)
	if err != nil {
		return zv.Out{Viol: "rig: " + err.Error(), Tags: []string{"real:malformed"}}
	}
	seed, _ := strconv.ParseUint(f[6], 10, 64)
	dynOff, beastOff := f[7] == "1", f[8] == "1"
	prof, _ := strconv.Atoi(f[9])
	o := zv.Out{Tags: append(p.tags(), "real:xfer", "real:xfer:prof"+f[9], "real:dynoff="+f[7])}
	if p.vers == tls.VersionTLS10 && p.prot.kind == "cbc" {
		o.Tags = append(o.Tags, "real:beastoff="+f[8])
	}
	s, bad := establish(p, dynOff, beastOff)
	if s == nil {
		o.Viol = bad
		return o
	}
	defer s.close()
	r := zv.NewRng(seed)
	type end struct {
		w, rd  *tls.Conn
		wbox   *tlsrig.RecordBox // the writer's transport (its output is logged)
		rbox   *tlsrig.RecordBox // the reader's transport (its input is segmented)
		fl     *flow
		rmode  int
		wr, rr *zv.Rng
		name   string
	}
	ends := []*end{
		{w: s.cc, rd: s.sc, wbox: s.cbox, rbox: s.sbox, name: "c2s"},
		{w: s.sc, rd: s.cc, wbox: s.sbox, rbox: s.cbox, name: "s2c"},
	}
	done := make(chan struct{}, 4)
	for _, e := range ends {
		e.fl = &flow{sizes: writeSizes(r.Fork(), prof)}
		total := 0
		for _, n := range e.fl.sizes {
			total += n
		}
		e.rmode = r.Intn(4)
		if r.Chance(40) {
			e.rmode = 0 // the big-buffer reader observes record plaintext sizes
		}
		seg := r.Intn(6)
		if total > 30000 && (seg == 1 || seg == 2) {
			seg = 3
		}
		e.wr, e.rr = r.Fork(), r.Fork()
		e.rbox.ReadSeg, e.rbox.Exact = segmenter(r.Fork(), seg), r.Bool()
		e.wbox.SetMode(tlsrig.BoxLog)
		o.Tags = append(o.Tags, fmt.Sprintf("real:seg%d", seg), fmt.Sprintf("real:rmode%d", e.rmode))
	}
	// the end of the transport may be reported together with the last bytes (io.Reader allows n > 0 with io.EOF);
	// drawn last so that every other choice of an existing line stays what it was
	for _, e := range ends {
		if e.rbox.EOFWithData = e.rbox.Exact && e.rbox.ReadSeg != nil && r.Bool(); e.rbox.EOFWithData {
			o.Tags = append(o.Tags, "real:xfer:eof-with-data")
		}
	}
	for _, e := range ends {
		e := e
		go func() { runReader(e.rd, e.fl, readSizer(e.rr, e.rmode)); done <- struct{}{} }()
		go func() {
			runWriter(e.w, e.wbox, e.fl, e.wr)
			e.wbox.CloseTransportWrite() // whatever happened, the peer's transport ends here
			done <- struct{}{}
		}()
	}
	guard := time.After(realWait)
	for i := 0; i < 4; i++ {
		select {
		case <-done:
		case <-guard:
			s.close()
			o.Viol = "stall: transfer without faults did not finish within " + realWait.String() + " (liveness, not a data verdict)"
			o.Tags = append(o.Tags, "real:STALL")
			return o
		}
	}
	for _, e := range ends {
		fl := e.fl
		pre := e.name + ": "
		if fl.werr != nil {
			o.Viol = pre + "writer failed: " + fl.werr.Error()
			return o
		}
		if d := firstDiff(fl.got, fl.data); d >= 0 {
			o.Viol = fmt.Sprintf("%sreader got %d bytes, writer wrote %d, first difference at offset %d (read error: %v)", pre, len(fl.got), len(fl.data), d, fl.rerr)
			return o
		}
		if fl.rerr != io.EOF {
			o.Viol = fmt.Sprintf("%sall data delivered but Read ended with %v instead of io.EOF after close_notify", pre, fl.rerr)
			return o
		}
		app, tags, viol := checkWire(p, e.wbox.Logged(), fl.sizes, fl.marks, fl.closed)
		if viol != "" {
			o.Viol = pre + "wire: " + viol
			return o
		}
		o.Tags = append(o.Tags, tags...)
		for _, n := range fl.reads {
			if n > maxPT {
				o.Viol = fmt.Sprintf("%sa single Read returned %d > 2^14 bytes (one record)", pre, n)
				return o
			}
		}
		if e.rmode == 0 {
			// one Read per record: the reader's view of the record plaintext lengths must fit the wire
			if len(fl.reads) != len(app) {
				o.Viol = fmt.Sprintf("%s%d application records on the wire but %d non-empty reads with a 32 KiB buffer", pre, len(app), len(fl.reads))
				return o
			}
			for i, n := range fl.reads {
				if n < app[i].lo || n > app[i].hi {
					o.Viol = fmt.Sprintf("%srecord %d: Read returned %d bytes, the wire record (%d bytes) can carry %d..%d", pre, i, n, len(app[i].raw), app[i].lo, app[i].hi)
					return o
				}
			}
			// 1/n-1 splitting (TLS 1.0, CBC): evidence only
			if p.vers == tls.VersionTLS10 && p.prot.kind == "cbc" {
				k, split, multi := 0, 0, 0
				for _, sz := range fl.sizes {
					if sz > 1 {
						multi++
						if k < len(fl.reads) && fl.reads[k] == 1 {
							split++
						}
					}
					for rem := sz; rem > 0 && k < len(fl.reads); k++ {
						rem -= fl.reads[k]
					}
				}
				switch {
				case multi == 0:
				case split == multi:
					o.Tags = append(o.Tags, "real:split1n:all")
				case split == 0:
					o.Tags = append(o.Tags, "real:split1n:none")
				default:
					o.Tags = append(o.Tags, "real:split1n:some")
				}
			}
		}
	}
	o.Tags = append(o.Tags, "real:xfer:ok")
	return o
}

/* ------------------------------------------------------------ wire faults ------------------------------------------------------------ */

type item struct {
	pre, post [][]byte
	tol       [][]byte // inserted records the protocol version tolerates (precede pre)
	body      []byte
}

// applyFaults alters the writer's records. app = number of application-data records (the close_notify record
// follows). It returns the byte stream to deliver (out) and the same stream without the insertions the protocol
// tolerates (cmp): TLS 1.3 ignores unprotected change_cipher_spec records (RFC 8446 D.4), so the first altered
// byte that matters is the first difference between cmp and the original stream.
func applyFaults(p pair, recs [][]byte, app int, spec string, r *zv.Rng) (out, cmp []byte, tags []string, err error) {
	items := make([]item, len(recs))
	for i, rec := range recs {
		items[i].body = append([]byte(nil), rec...)
	}
	cutAfter := -1 // drop every item after this index
	wireVers := p.vers
	if wireVers == tls.VersionTLS13 {
		wireVers = tls.VersionTLS12
	}
	for _, fs := range strings.Split(spec, "+") {
		a := strings.Split(fs, ":")
		num := func(k int) int {
			if k >= len(a) {
				return 0
			}
			n, e := strconv.Atoi(a[k])
			if e != nil {
				err = fmt.Errorf("bad fault %q", fs)
			}
			return n
		}
		if len(a) < 2 || app == 0 {
			return nil, nil, nil, fmt.Errorf("bad fault %q (records: %d)", fs, app)
		}
		i := num(1) % app
		it := &items[i]
		tags = append(tags, "real:fault:"+a[0])
		switch a[0] {
		case "flip":
			if len(a) != 4 || len(a[2]) < 2 {
				return nil, nil, nil, fmt.Errorf("bad fault %q", fs)
			}
			k, e1 := strconv.Atoi(a[2][1:])
			m, e2 := strconv.ParseUint(a[3], 16, 8)
			if e1 != nil || e2 != nil || m == 0 || len(it.body) < 6 {
				if len(it.body) < 6 {
					continue // the record was dropped or cut by an earlier fault of the same line
				}
				return nil, nil, nil, fmt.Errorf("bad fault %q", fs)
			}
			body := len(it.body) - 5
			pos := 0
			switch a[2][0] {
			case 'h':
				pos = k % 5
				tags = append(tags, fmt.Sprintf("real:flip:h%d", pos))
			case 'b':
				pos = 5 + k%body
				tags = append(tags, "real:flip:body")
			case 'e':
				pos = len(it.body) - 1 - k%body
				tags = append(tags, "real:flip:tail")
			default:
				return nil, nil, nil, fmt.Errorf("bad fault %q", fs)
			}
			it.body[pos] ^= byte(m)
		case "drop":
			it.body = nil
		case "dup":
			it.post = append(it.post, recs[i])
		case "swap":
			j := i + 1
			if j >= app {
				j = i - 1
			}
			if j < 0 {
				it.post = append(it.post, recs[i]) // a single record: duplicate instead
			} else {
				items[i], items[j] = items[j], items[i]
			}
		case "trunc":
			if len(it.body) > 0 {
				it.body = it.body[:num(2)%len(it.body)]
			}
			it.post = nil
			cutAfter = i
		case "tail":
			it.body, it.post = nil, nil
			cutAfter = i
		case "replay":
			it.pre = append(it.pre, recs[num(2)%app])
		case "cut":
			if n := len(it.body); n > 0 {
				at := num(2) % n
				k := num(3)
				if k < 1 {
					k = 1
				}
				if at+k > n {
					k = n - at
				}
				it.body = append(it.body[:at:at], it.body[at+k:]...)
			}
		case "ccs":
			ccs := []byte{recTypeCCS, byte(wireVers >> 8), byte(wireVers), 0, 1, 1}
			if p.vers == tls.VersionTLS13 {
				it.tol = append(it.tol, ccs)
				tags = append(tags, "real:fault:ccs13-tolerated")
			} else {
				it.pre = append(it.pre, ccs)
			}
		case "garbage":
			g := append([]byte(nil), recs[i]...)
			copy(g[5:], r.Bytes(len(g)-5))
			it.pre = append(it.pre, g)
		case "zero":
			for k := 5; k < len(it.body); k++ {
				it.body[k] = 0
			}
		case "poodle":
			bs := p.prot.block
			iv := 0
			if p.vers >= tls.VersionTLS11 {
				iv = bs
			}
			nb := 0
			if bs > 0 {
				nb = (len(it.body) - 5 - iv) / bs // ciphertext blocks without the explicit IV
			}
			if p.prot.kind != "cbc" || nb < 2 || (len(it.body)-5)%bs != 0 {
				return nil, nil, nil, fmt.Errorf("fault %q needs an intact CBC record of at least two blocks", fs)
			}
			src := 5 + iv + (num(2)%(nb-1))*bs
			copy(it.body[len(it.body)-bs:], recs[i][src:src+bs])
		case "setlen":
			if len(it.body) >= 5 {
				n := (len(it.body) - 5 + num(2)) & 0xffff
				if n == len(it.body)-5 {
					n ^= 1
				}
				it.body[3], it.body[4] = byte(n>>8), byte(n)
			}
		default:
			return nil, nil, nil, fmt.Errorf("unknown fault %q", fs)
		}
		if err != nil {
			return nil, nil, nil, err
		}
	}
	for i, it := range items {
		for _, b := range it.tol {
			out = append(out, b...)
		}
		for _, b := range it.pre {
			out, cmp = append(out, b...), append(cmp, b...)
		}
		out, cmp = append(out, it.body...), append(cmp, it.body...)
		for _, b := range it.post {
			out, cmp = append(out, b...), append(cmp, b...)
		}
		if i == cutAfter {
			break
		}
	}
	return out, cmp, tags, nil
}

func execFault(f []string) zv.Out {
	p, err := parsePair(f)
	if err != nil {
		return zv.Out{Viol: "rig: " + err.Error(), Tags: []string{"real:malformed"}}
	}
	seed, _ := strconv.ParseUint(f[6], 10, 64)
	dir, dynOff := f[7], f[8] == "1"
	var sizes []int
	for _, t := range strings.Split(f[9], ",") {
		n, e := strconv.Atoi(t)
		if e != nil || n < 0 || n > 1<<20 {
			return zv.Out{Viol: "rig: bad write size", Tags: []string{"real:malformed"}}
		}
		sizes = append(sizes, n)
	}
	o := zv.Out{Tags: append(p.tags(), "real:fault", "real:dir:"+dir)}
	s, bad := establish(p, dynOff, false)
	if s == nil {
		o.Viol = bad
		return o
	}
	defer s.close()
	r := zv.NewRng(seed)
	w, rd, wbox, rbox := s.cc, s.sc, s.cbox, s.sbox
	if dir == "s2c" {
		w, rd, wbox, rbox = s.sc, s.cc, s.sbox, s.cbox
	}
	// 1. the writer writes everything (held back by the box) and sends close_notify
	wbox.SetMode(tlsrig.BoxHold)
	fl := &flow{sizes: sizes}
	runWriter(w, wbox, fl, r.Fork())
	if fl.werr != nil {
		o.Viol = "writer failed: " + fl.werr.Error()
		return o
	}
	logged := wbox.Logged()
	app, wtags, viol := checkWire(p, logged, fl.sizes, fl.marks, fl.closed)
	if viol != "" {
		o.Viol = "wire: " + viol
		return o
	}
	o.Tags = append(o.Tags, wtags...)
	if len(app) == 0 {
		o.Viol = "rig: no application record to alter"
		return o
	}
	recs, _ := tlsrig.SplitRecords(logged)
	// 2. the middlebox alters them
	out, cmp, ftags, err := applyFaults(p, recs, len(app), f[10], r.Fork())
	if err != nil {
		o.Viol = "rig: " + err.Error()
		return o
	}
	o.Tags = append(o.Tags, ftags...)
	if n := strings.Count(f[10], "+"); n > 0 {
		o.Tags = append(o.Tags, fmt.Sprintf("real:faults=%d", n+1))
	}
	// 3. expected outcome: the records before the first altered wire byte are delivered, nothing else
	d := firstDiff(cmp, logged)
	j, off := 0, 0 // j = index of the record containing the first altered byte
	for j < len(recs) && d >= off+len(recs[j]) {
		off += len(recs[j])
		j++
	}
	expLo, expHi := 0, 0 // plaintext bytes before record j
	for i := 0; i < j && i < len(app); i++ {
		expLo, expHi = expLo+app[i].lo, expHi+app[i].hi
	}
	clean := d < 0 || j > len(app) // untouched, tolerated insertions only, or altered only after close_notify
	if clean {
		j, expLo, expHi = len(app), len(fl.data), len(fl.data)
	}
	// 4. deliver through the (segmenting) transport, then end the transport
	seg := r.Intn(6)
	rbox.ReadSeg, rbox.Exact = segmenter(r.Fork(), seg), r.Bool()
	done := make(chan struct{})
	var stickyN int
	var stickyErr error
	go func() {
		defer close(done)
		runReader(rd, fl, func() int { return bigReadBuf })
		if fl.panicked {
			return
		}
		defer func() {
			if x := recover(); x != nil {
				fl.rerr, fl.panicked = fmt.Errorf("PANIC in Read after an error: %v", x), true
			}
		}()
		buf := make([]byte, 64)
		stickyN, stickyErr = rd.Read(buf)
	}()
	if err := wbox.Inject(out); err != nil {
		o.Viol = "rig: inject: " + err.Error()
		return o
	}
	// Usually the transport ends right after the last byte. In some cases it stays open for a moment first: an
	// altered length field (or a cut) then makes the reader wait for bytes that never come, which is legitimate;
	// the wait must end with an error as soon as the transport is closed.
	if r.Chance(12) {
		select {
		case <-done:
			o.Tags = append(o.Tags, "real:late-close:reader-already-done")
		case <-time.After(15 * time.Millisecond):
			o.Tags = append(o.Tags, "real:late-close:reader-was-waiting")
		}
	}
	wbox.CloseTransportWrite()
	select {
	case <-done:
	case <-time.After(realWait):
		s.close()
		o.Viol = "stall: Read did not return within " + realWait.String() + " after the transport was closed (liveness, not a data verdict)"
		o.Tags = append(o.Tags, "real:STALL")
		return o
	}
	// 5. verdict
	if fl.panicked {
		o.Viol = fl.rerr.Error()
		o.Tags = append(o.Tags, "real:PANIC")
		return o
	}
	o.Tags = append(o.Tags, "real:err:"+errClass(fl.rerr))
	where := fmt.Sprintf("first altered byte %d in record %d of %d (%d app)", d, j, len(recs), len(app))
	if dd := firstDiff(fl.got, fl.data[:min(len(fl.data), len(fl.got))]); dd >= 0 || len(fl.got) > len(fl.data) {
		o.Viol = fmt.Sprintf("CORRUPT DELIVERY: reader returned %d bytes that are not a prefix of the %d written (first difference at %d); %s; read error %v", len(fl.got), len(fl.data), dd, where, fl.rerr)
		return o
	}
	if len(fl.got) > expHi || len(fl.reads) > j {
		o.Viol = fmt.Sprintf("ACCEPTED ALTERED STREAM: reader delivered %d bytes in %d records, at most %d bytes in %d records precede the alteration; %s; read error %v", len(fl.got), len(fl.reads), expHi, j, where, fl.rerr)
		return o
	}
	if len(fl.got) < expLo || len(fl.reads) < j {
		o.Viol = fmt.Sprintf("LOST DATA: reader delivered %d bytes in %d records, the %d untouched records before the alteration carry at least %d; %s; read error %v", len(fl.got), len(fl.reads), j, expLo, where, fl.rerr)
		return o
	}
	if fl.rerr == nil || stickyErr == nil || stickyN != 0 {
		o.Viol = fmt.Sprintf("no sticky error: Read ended with %v, the next Read returned (%d, %v); %s", fl.rerr, stickyN, stickyErr, where)
		return o
	}
	switch {
	case clean:
		if fl.rerr != io.EOF {
			o.Viol = fmt.Sprintf("stream not altered in a way TLS %s may notice, but Read failed with %v; %s", versName(p.vers), fl.rerr, where)
			return o
		}
		o.Tags = append(o.Tags, "real:fault:benign")
	case fl.rerr == io.EOF:
		// a clean-looking end is only legitimate when the stream was cut at a record boundary and nothing else
		// (truncation is signalled as io.EOF by this library: close_notify is not required, conn.go readRecordOrCCS)
		if !(d == len(cmp) && d == off) {
			o.Viol = fmt.Sprintf("altered stream ended with io.EOF (clean close) instead of an error; %s", where)
			return o
		}
		o.Tags = append(o.Tags, "real:fault:cut-at-boundary=eof")
	default:
		o.Tags = append(o.Tags, "real:fault:detected")
	}
	if errClass(fl.rerr) == "timeout" {
		o.Viol = "rig: deadline error without a deadline"
	}
	return o
}
