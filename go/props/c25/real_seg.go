package c25

// C25 / T3 with real cipher suites, part 3: UNMODIFIED wire, hostile-but-legal transport.
//
//	seg    one peer writes (and sends close_notify, or just ends the transport), the complete byte stream is then
//	       handed to the reading endpoint by a scripted transport (tlsrig.ScriptReader) that does what the io.Reader
//	       and net.Conn contracts allow and kernel TCP sockets rarely do: short reads of every size (1 byte, cuts
//	       inside the 5-byte header, right after it, inside the body, one byte before the end, across record
//	       boundaries), zero-byte reads with a nil error, the last bytes TOGETHER with io.EOF, a read deadline that
//	       fires mid-record (n > 0 or n == 0 together with a temporary timeout error; the reader then clears the
//	       deadline and reads on), close_notify in the same segment as the last data.
//
// Oracle: nothing on the wire was altered, so the reader must obtain exactly the written byte stream and then a
// clean, sticky io.EOF - never a truncated stream with an error; a timeout error surfaces at most once per transport
// timeout (it must not poison later reads); with a big read buffer there is exactly one non-empty Read per record;
// and the connection never asks the transport for more bytes at a record boundary while plaintext of completely
// received records is still undelivered (a peer waiting for the answer would deadlock).
//
// The segmentation is described relative to the record structure (which is only known once the writer has run),
// the line stays self-contained: every random choice derives from the seed in the line.

import (
	"fmt"
	"io"
	"sort"
	"strconv"
	"strings"
	"time"

	"github.com/zmap/zcrypto/tls"

	"zv/internal/tlsrig"
	"zv/internal/zv"
)

/* ---------------------------------------------------------------- generator ---------------------------------------------------------------- */

func joinInts(w []int) string {
	s := make([]string, len(w))
	for i, n := range w {
		s[i] = strconv.Itoa(n)
	}
	return strings.Join(s, ",")
}

func genSeg(g *zv.Gen) {
	r := g.Rng
	for _, p := range negotiated() {
		if !p.known {
			continue
		}
		id := fmt.Sprintf("%04x %04x %s", p.vers, p.suite, p.cert)
		slow := strings.HasPrefix(p.prot.kx, "dhe_")
		writes := func() []int {
			switch r.Intn(8) {
			case 0:
				return []int{1 + r.Intn(100), 16384 + r.Intn(3), 1 + r.Intn(9)}
			case 1:
				w := make([]int, 3+r.Intn(5))
				for i := range w {
					w[i] = 1 + r.Intn(20)
				}
				return w
			case 2:
				return []int{1 + r.Intn(300)}
			case 3:
				return []int{1, 1 + r.Intn(1500), 0, 2}
			}
			return []int{3 + r.Intn(40), 1 + r.Intn(200)}
		}
		type c struct {
			w                      []int
			close, pat, eof, quirk string
		}
		var cases []c
		add := func(w []int, close, pat, eof, quirk string) { cases = append(cases, c{w, close, pat, eof, quirk}) }
		anyClose := func() string { return []string{"cn", "raw"}[r.Intn(2)] }
		anyEOF := func() string {
			if r.Chance(70) {
				return "with"
			}
			return "sep"
		}
		anyQuirk := func() string { return []string{"-", "-", "z", "t", "i", "zt", "zi", "ti", "r", "r"}[r.Intn(10)] }
		tQuirk := func() string { return []string{"t", "i", "zt", "ti", "r"}[r.Intn(5)] }
		pos := func() string {
			switch r.Intn(6) {
			case 0:
				return fmt.Sprintf("h%d", 1+r.Intn(4))
			case 1:
				return "h5"
			case 2:
				return "b0"
			case 3:
				return "e0"
			case 4:
				return fmt.Sprintf("e%d", r.Intn(20))
			}
			return fmt.Sprintf("b%d", r.Intn(4000))
		}
		standard := func() {
			// A. everything (data, close_notify, end of transport) in one transport read
			add(writes(), "cn", "one", "with", "-")
			add(writes(), "raw", "one", "with", "-")
			add(writes(), "cn", "one", "sep", anyQuirk())
			// B. byte by byte
			add(writes(), "cn", "every:1", "with", "-")
			add(writes(), "raw", "every:1", "with", "-")
			add(writes(), anyClose(), "every:1", anyEOF(), "r")
			add(writes(), anyClose(), fmt.Sprintf("every:%d", 2+r.Intn(40)), anyEOF(), anyQuirk())
			// C. the end of the stream: one cut at every kind of position of the LAST record, whose second part
			//    arrives together with the end of the transport
			for _, cl := range []string{"cn", "raw"} {
				for _, ps := range []string{"h1", "h2", "h3", "h4", "h5", "b0", fmt.Sprintf("b%d", r.Intn(4000)), "e0"} {
					add(writes(), cl, "last:"+ps, "with", "-")
				}
			}
			for k := 0; k < 4; k++ {
				add(writes(), anyClose(), "last:"+pos(), anyEOF(), tQuirk())
			}
			// D. close_notify in the same segment as (the tail of) the last data record
			for _, ps := range []string{fmt.Sprintf("h%d", 1+r.Intn(4)), "h5", fmt.Sprintf("b%d", r.Intn(4000)), "e0"} {
				add(writes(), "cn", "lastdata:"+ps, "with", "-")
			}
			add(writes(), "cn", "cnjoin", anyEOF(), "-")
			add(writes(), "cn", "cnjoin", anyEOF(), tQuirk())
			// E. every record split at the same kind of position (with and without cuts at the record boundaries)
			for _, ps := range []string{fmt.Sprintf("h%d", 1+r.Intn(4)), fmt.Sprintf("h%d", 1+r.Intn(4)), "h5", fmt.Sprintf("b%d", r.Intn(4000)), fmt.Sprintf("e%d", r.Intn(20))} {
				add(writes(), anyClose(), "in:"+ps, anyEOF(), anyQuirk())
				add(writes(), anyClose(), "rec+in:"+ps, anyEOF(), tQuirk())
			}
			// F. record by record
			for _, q := range []string{"-", "i", "z", "t"} {
				add(writes(), anyClose(), "rec", anyEOF(), q)
			}
			// G. random segment sizes
			for m := 1; m <= 5; m++ {
				add(writes(), anyClose(), fmt.Sprintf("rnd:%d", m), anyEOF(), "r")
			}
			add(writes(), anyClose(), fmt.Sprintf("rnd:%d", 2+r.Intn(4)), "with", "-")
			add(writes(), anyClose(), fmt.Sprintf("rnd:%d", 2+r.Intn(4)), "with", "z")
			// H. a single deadline expiry somewhere in the stream
			for k := 0; k < 4; k++ {
				add(writes(), anyClose(), fmt.Sprintf("at:%d", r.Intn(1<<20)), anyEOF(), []string{"t", "i", "ti", "zt"}[k])
			}
		}
		standard()
		switch {
		case g.Quick && slow: // same record protection as the RSA / ECDHE suites of the same cipher: a sample
			for i := len(cases) - 1; i > 0; i-- {
				j := r.Intn(i + 1)
				cases[i], cases[j] = cases[j], cases[i]
			}
			cases = cases[:10]
		case g.Quick:
		default:
			reps := 6
			if slow {
				reps = 1
			}
			for k := 0; k < reps; k++ {
				standard()
			}
			if slow {
				break
			}
			// exhaustive on a small stream: EVERY cut position of the whole stream (one deadline expiry / plain
			// short read there), and every cut position of the last record and of the last data record before the
			// end of the transport
			w := []int{5, 33}
			recs := []int{5, 33}
			if p.vers == tls.VersionTLS10 && p.prot.kind == "cbc" {
				recs = []int{1, 4, 1, 32}
			}
			total := 0
			for _, n := range recs {
				total += 5 + p.prot.bodyLen(p.vers, n)
			}
			alert := 5 + p.prot.bodyLen(p.vers, 2)
			lastData := 5 + p.prot.bodyLen(p.vers, recs[len(recs)-1])
			for n := 0; n < total+alert-1; n++ {
				add(w, "cn", fmt.Sprintf("at:%d", n), "with", "t")
				add(w, "cn", fmt.Sprintf("at:%d", n), anyEOF(), "i")
				add(w, "cn", fmt.Sprintf("at:%d", n), "with", "-")
			}
			for k := 0; k < alert-1; k++ {
				add(w, "cn", fmt.Sprintf("last:o%d", k), "with", "-")
				add(w, "cn", fmt.Sprintf("last:o%d", k), "sep", tQuirk())
			}
			for k := 0; k < lastData-1; k++ {
				add(w, "raw", fmt.Sprintf("last:o%d", k), "with", "-")
				add(w, "cn", fmt.Sprintf("lastdata:o%d", k), "with", "-")
				add(w, "cn", fmt.Sprintf("in:o%d", k), anyEOF(), anyQuirk())
				add(w, anyClose(), fmt.Sprintf("rec+in:o%d", k), "with", "t")
			}
		}
		for _, x := range cases {
			dir := "c2s"
			if r.Bool() {
				dir = "s2c"
			}
			g.Emitf("c25 real seg %s %d %s %d %s %s %s %s %s", id, r.U64()>>1, dir, r.Intn(2), joinInts(x.w), x.close, x.pat, x.eof, x.quirk)
		}
	}
}

/* ---------------------------------------------------------------- segmentation ---------------------------------------------------------------- */

// inRecord resolves a position spec inside a record of n bytes (header included) to an offset in 1..n-1:
//
//	h<k>  k bytes of the header (1..5; h5 = right after the header)
//	b<k>  inside the body, k mod (body-1) bytes after its first byte
//	e<k>  inside the body, 1 + k mod (body-1) bytes before the end of the record (e0: the last byte alone)
//	o<k>  offset 1 + k mod (n-1)
func inRecord(spec string, n int) (int, error) {
	if len(spec) < 2 || n < 2 {
		return 0, fmt.Errorf("bad position %q (record of %d bytes)", spec, n)
	}
	k, err := strconv.Atoi(spec[1:])
	if err != nil || k < 0 {
		return 0, fmt.Errorf("bad position %q", spec)
	}
	body := n - 5
	switch spec[0] {
	case 'o':
		return 1 + k%(n-1), nil
	case 'h':
		if k < 1 || k > 5 {
			return 0, fmt.Errorf("bad position %q", spec)
		}
		if k >= n {
			k = n - 1
		}
		return k, nil
	case 'b':
		if body < 2 {
			return 5, nil
		}
		return 6 + k%(body-1), nil
	case 'e':
		if body < 2 {
			return 5, nil
		}
		return n - 1 - k%(body-1), nil
	}
	return 0, fmt.Errorf("bad position %q", spec)
}

// segCuts turns a pattern into the sorted cut offsets (0 < c < total) of the stream. bounds are the record
// boundaries of the stream (ascending, the last one = total); nApp = index in bounds of the end of the last
// application-data record.
func segCuts(pat string, bounds []int, lastApp int, total int, r *zv.Rng) ([]int, error) {
	set := map[int]bool{}
	a := strings.SplitN(pat, ":", 2)
	arg := ""
	if len(a) == 2 {
		arg = a[1]
	}
	start := func(i int) int {
		if i == 0 {
			return 0
		}
		return bounds[i-1]
	}
	inRec := func(i int) error {
		if bounds[i]-start(i) < 2 {
			return nil // nothing to split
		}
		o, err := inRecord(arg, bounds[i]-start(i))
		if err != nil {
			return err
		}
		set[start(i)+o] = true
		return nil
	}
	switch a[0] {
	case "one":
	case "every":
		k, err := strconv.Atoi(arg)
		if err != nil || k < 1 {
			return nil, fmt.Errorf("bad pattern %q", pat)
		}
		for c := k; c < total; c += k {
			set[c] = true
		}
	case "rec", "cnjoin":
		for i, b := range bounds {
			if a[0] == "cnjoin" && i == lastApp && lastApp != len(bounds)-1 {
				continue
			}
			set[b] = true
		}
	case "in", "rec+in":
		for i := range bounds {
			if err := inRec(i); err != nil {
				return nil, err
			}
			if a[0] == "rec+in" {
				set[bounds[i]] = true
			}
		}
	case "last":
		if err := inRec(len(bounds) - 1); err != nil {
			return nil, err
		}
	case "lastdata":
		if err := inRec(lastApp); err != nil {
			return nil, err
		}
	case "at":
		k, err := strconv.Atoi(arg)
		if err != nil || k < 0 || total < 2 {
			return nil, fmt.Errorf("bad pattern %q", pat)
		}
		set[1+k%(total-1)] = true
	case "rnd":
		m, err := strconv.Atoi(arg)
		if err != nil || m < 1 || m > 5 {
			return nil, fmt.Errorf("bad pattern %q", pat)
		}
		next := segmenter(r, m)
		for c := next(); c < total; c += next() {
			set[c] = true
		}
	default:
		return nil, fmt.Errorf("unknown pattern %q", pat)
	}
	var cuts []int
	for c := range set {
		if c > 0 && c < total {
			cuts = append(cuts, c)
		}
	}
	sort.Ints(cuts)
	return cuts, nil
}

// segSteps decorates the segments with the quirks: z = a zero-byte read before the segment, t = the segment's
// last bytes come together with a timeout error, i = a timeout without data after the segment, r = a random
// mixture per segment. The final segment ends the transport: together with its last bytes (eof = "with") or by a
// separate (0, io.EOF).
func segSteps(cuts []int, total int, eof, quirk string, r *zv.Rng) ([]tlsrig.Step, error) {
	if eof != "with" && eof != "sep" {
		return nil, fmt.Errorf("bad eof mode %q", eof)
	}
	if quirk != "-" && strings.Trim(quirk, "ztir") != "" {
		return nil, fmt.Errorf("bad quirk %q", quirk)
	}
	has := func(c byte) bool { return strings.IndexByte(quirk, c) >= 0 }
	var steps []tlsrig.Step
	prev := 0
	for i := 0; i <= len(cuts); i++ {
		end, final := total, i == len(cuts)
		if !final {
			end = cuts[i]
		}
		z, t, idle := has('z'), has('t'), has('i')
		if has('r') {
			switch r.Intn(8) {
			case 0:
				z = true
			case 1:
				t = true
			case 2:
				idle = true
			case 3:
				z, t = true, true
			case 4:
				t, idle = true, true
			case 5:
				z, idle = true, true
			}
		}
		if z {
			for k := 1 + r.Intn(2); k > 0; k-- {
				steps = append(steps, tlsrig.Step{})
			}
		}
		st := tlsrig.Step{N: end - prev}
		switch {
		case final && eof == "with":
			st.Err = io.EOF
		case final:
		case t:
			st.Err = tlsrig.TimeoutErr(r.Bool())
		}
		steps = append(steps, st)
		if idle && !final {
			steps = append(steps, tlsrig.Step{Err: tlsrig.TimeoutErr(r.Bool())})
		}
		prev = end
	}
	return steps, nil
}

/* ---------------------------------------------------------------- executor ---------------------------------------------------------------- */

// runSegReader reads until a non-timeout error. A timeout is what it is for the application: Read is interrupted,
// the deadline is cleared and reading goes on. A timeout returned by a Read during which the transport reported
// none is stale (the read side is poisoned). maxTimeouts = number of timeouts the transport will report.
func runSegReader(c *tls.Conn, fl *flow, size func() int, sr *tlsrig.ScriptReader, maxTimeouts int, timeouts *int) {
	defer func() {
		if x := recover(); x != nil {
			fl.rerr = fmt.Errorf("PANIC in Read: %v", x)
			fl.panicked = true
		}
	}()
	buf := make([]byte, 70000)
	zero := 0
	for {
		k := size()
		before := sr.Timeouts
		n, err := c.Read(buf[:k])
		if n > 0 {
			fl.got = append(fl.got, buf[:n]...)
			fl.reads = append(fl.reads, n)
		}
		if err != nil {
			if tlsrig.IsTimeout(err) {
				if sr.Timeouts == before {
					fl.rerr = fmt.Errorf("POISONED: Read returned a stale timeout (%v): the transport reported no timeout during this call, the deadline had been cleared after the previous one (%d surfaced so far)", err, *timeouts)
					return
				}
				if *timeouts++; *timeouts > maxTimeouts {
					fl.rerr = fmt.Errorf("POISONED: Read reported %d timeouts (last: %v) although the transport reported only %d and the deadline was cleared after each", *timeouts, err, maxTimeouts)
					return
				}
				c.SetReadDeadline(time.Time{})
				continue
			}
			fl.rerr = err
			return
		}
		if n == 0 {
			if zero++; k != 0 && zero > 3 {
				fl.rerr = fmt.Errorf("rig: Read returned (0, nil) repeatedly with a non-empty buffer")
				return
			}
		} else {
			zero = 0
		}
	}
}

func execSeg(f []string) zv.Out {
	p, err := parsePair(f)
	if err != nil {
		return zv.Out{Viol: "rig: " + err.Error(), Tags: []string{"real:malformed"}}
	}
	seed, _ := strconv.ParseUint(f[6], 10, 64)
	dir, dynOff, closeMode, pat, eof, quirk := f[7], f[8] == "1", f[10], f[11], f[12], f[13]
	var sizes []int
	for _, t := range strings.Split(f[9], ",") {
		n, e := strconv.Atoi(t)
		if e != nil || n < 0 || n > 1<<20 {
			return zv.Out{Viol: "rig: bad write size", Tags: []string{"real:malformed"}}
		}
		sizes = append(sizes, n)
	}
	if closeMode != "cn" && closeMode != "raw" {
		return zv.Out{Viol: "rig: bad close mode", Tags: []string{"real:malformed"}}
	}
	o := zv.Out{Tags: append(p.tags(), "real:seg", "real:dir:"+dir, "real:seg:pat:"+strings.SplitN(pat, ":", 2)[0],
		"real:seg:close:"+closeMode, "real:seg:eof:"+eof, "real:seg:quirk:"+quirk)}
	// TLS 1.3, server to client, every second case: the client offers resumption and reads the handshake without
	// read-ahead, so the server's NewSessionTicket (a post-handshake handshake message) is still queued in front of
	// the application data and goes through the same segmentation, zero-byte reads and timeouts
	tickets := p.vers == tls.VersionTLS13 && dir == "s2c" && seed&1 == 1
	s, bad := establishWith(p, dynOff, false, estOpts{alignClient: tickets, tweak: func(ccfg, scfg *tls.Config) {
		if tickets {
			ccfg.ClientSessionCache = tls.NewLRUClientSessionCache(4)
		}
	}})
	if s == nil {
		o.Viol = bad
		return o
	}
	defer s.close()
	r := zv.NewRng(seed)
	w, rd, wbox, rbox := s.cc, s.sc, s.cbox, s.sbox
	if dir == "s2c" {
		w, rd, wbox, rbox = s.sc, s.cc, s.sbox, s.cbox
	}
	// 1. the writer writes everything (held back by the box); close_notify or nothing at the end
	wbox.SetMode(tlsrig.BoxHold)
	fl := &flow{sizes: sizes}
	wr := r.Fork()
	func() {
		defer func() {
			if x := recover(); x != nil {
				fl.werr = fmt.Errorf("PANIC in Write: %v", x)
			}
		}()
		for _, n := range sizes {
			b := wr.Bytes(n)
			fl.data = append(fl.data, b...)
			m, err := w.Write(b)
			fl.marks = append(fl.marks, wbox.LoggedLen())
			if err != nil || m != n {
				fl.werr = fmt.Errorf("Write(%d bytes) = %d, %v", n, m, err)
				return
			}
		}
		if closeMode == "cn" {
			if err := w.CloseWrite(); err != nil {
				fl.werr = fmt.Errorf("CloseWrite: %w", err)
				return
			}
			fl.closed = true
		}
	}()
	if fl.werr != nil {
		o.Viol = "writer failed: " + fl.werr.Error()
		return o
	}
	logged := wbox.Logged()
	app, wtags, viol := checkWire(p, logged, fl.sizes, fl.marks, fl.closed)
	if viol != "" {
		o.Viol = "wire: " + viol
		return o
	}
	o.Tags = append(o.Tags, wtags...)
	recs, _ := tlsrig.SplitRecords(logged)
	if len(recs) == 0 {
		o.Tags = append(o.Tags, "real:seg:empty")
		o.Trivial = true
		return o
	}
	// 2. the stream the reader's transport will deliver: what is already queued for it (TLS 1.3 session tickets
	//    written at the end of the peer's handshake; may start inside a record when the handshake over-read) plus
	//    the held records
	pre := tlsrig.DrainPending(rbox.Conn)
	stream := append(append([]byte(nil), pre...), logged...)
	total := len(stream)
	var bounds []int
	need := map[int]int{len(pre): 0} // record boundary -> plaintext bytes that are complete there (lower bound)
	if len(pre) > 0 {
		if precs, rest := tlsrig.SplitRecords(pre); len(rest) == 0 {
			k := 0
			for _, rec := range precs {
				k += len(rec)
				bounds = append(bounds, k)
				need[k] = 0
			}
		} else {
			bounds = append(bounds, len(pre))
		}
		o.Tags = append(o.Tags, "real:seg:pending-handshake-bytes")
	}
	off := len(pre)
	lastApp := 0
	sumLo := 0
	for i, rec := range recs {
		off += len(rec)
		bounds = append(bounds, off)
		if i < len(app) {
			lastApp = len(bounds) - 1
			sumLo += app[i].lo
		}
		need[off] = sumLo
	}
	sumW := 0
	for i, m := range fl.marks { // exact at the end of each Write
		sumW += fl.sizes[i]
		if need[len(pre)+m] < sumW {
			need[len(pre)+m] = sumW
		}
	}
	cuts, err := segCuts(pat, bounds, lastApp, total, r.Fork())
	if err != nil {
		o.Viol = "rig: " + err.Error()
		return o
	}
	steps, err := segSteps(cuts, total, eof, quirk, r.Fork())
	if err != nil {
		o.Viol = "rig: " + err.Error()
		return o
	}
	planned := 0
	for _, st := range steps {
		if tlsrig.IsTimeout(st.Err) {
			planned++
		}
	}
	// where the last segment starts, relative to the last record (evidence)
	lastStart := start(bounds, len(bounds)-1)
	switch lc := 0; {
	case len(cuts) == 0:
		o.Tags = append(o.Tags, "real:seg:lastcut:none")
	default:
		lc = cuts[len(cuts)-1]
		switch {
		case lc < lastStart:
			o.Tags = append(o.Tags, "real:seg:lastcut:before-last-record")
		case lc == lastStart:
			o.Tags = append(o.Tags, "real:seg:lastcut:record-boundary")
		case lc < lastStart+5:
			o.Tags = append(o.Tags, "real:seg:lastcut:in-header")
		case lc == lastStart+5:
			o.Tags = append(o.Tags, "real:seg:lastcut:after-header")
		default:
			o.Tags = append(o.Tags, "real:seg:lastcut:in-body")
		}
	}
	// 3. read
	overwait := ""
	sr := &tlsrig.ScriptReader{Stream: stream, Steps: steps}
	sr.OnRead = func(at int) {
		if n, ok := need[at]; ok && at < total && len(fl.got) < n && overwait == "" {
			overwait = fmt.Sprintf("transport Read requested at stream offset %d (a record boundary) while only %d of the %d plaintext bytes of the completely received records had been delivered", at, len(fl.got), n)
		}
	}
	rbox.ReadHook = sr.Read
	rmode := r.Intn(4)
	if r.Chance(40) {
		rmode = 0
	}
	o.Tags = append(o.Tags, fmt.Sprintf("real:rmode%d", rmode))
	sizer := readSizer(r.Fork(), rmode)
	done := make(chan struct{})
	surfaced := 0
	var stickyN int
	var stickyErr error
	go func() {
		defer close(done)
		runSegReader(rd, fl, sizer, sr, planned, &surfaced)
		if fl.panicked {
			return
		}
		defer func() {
			if x := recover(); x != nil {
				fl.rerr, fl.panicked = fmt.Errorf("PANIC in Read after the end: %v", x), true
			}
		}()
		buf := make([]byte, 64)
		stickyN, stickyErr = rd.Read(buf)
	}()
	select {
	case <-done:
	case <-time.After(realWait):
		s.close()
		o.Viol = "stall: Read over a scripted (never blocking) transport did not finish within " + realWait.String()
		o.Tags = append(o.Tags, "real:STALL")
		return o
	}
	// 4. verdict
	if sr.DataEOF > 0 {
		o.Tags = append(o.Tags, "real:seg:saw:data+eof")
	}
	if sr.DataTimeout > 0 {
		o.Tags = append(o.Tags, "real:seg:saw:data+timeout")
	}
	if sr.Timeouts > sr.DataTimeout {
		o.Tags = append(o.Tags, "real:seg:saw:idle-timeout")
	}
	if sr.ZeroReads > 0 {
		o.Tags = append(o.Tags, "real:seg:saw:zero-read")
	}
	o.Tags = append(o.Tags, "real:seg:segments:"+bucket(len(cuts)+1))
	how := fmt.Sprintf("unmodified wire (%d bytes, %d records), %d segments, %d/%d timeouts surfaced, transport offset %d at the end", total, len(recs), len(cuts)+1, surfaced, planned, sr.Off())
	if fl.panicked {
		o.Viol = fl.rerr.Error()
		o.Tags = append(o.Tags, "real:PANIC")
		return o
	}
	o.Tags = append(o.Tags, "real:err:"+errClass(fl.rerr))
	if strings.HasPrefix(fmt.Sprint(fl.rerr), "POISONED") {
		o.Viol = fmt.Sprintf("%v; reader has %d of %d bytes; %s", fl.rerr, len(fl.got), len(fl.data), how)
		return o
	}
	if d := firstDiff(fl.got, fl.data); d >= 0 {
		kind := "LOST DATA"
		if d < len(fl.got) {
			kind = "CORRUPT DELIVERY"
		}
		o.Viol = fmt.Sprintf("%s: reader got %d bytes, writer wrote %d, first difference at offset %d, read error: %v; %s", kind, len(fl.got), len(fl.data), d, fl.rerr, how)
		return o
	}
	if fl.rerr != io.EOF {
		o.Viol = fmt.Sprintf("all data delivered but Read ended with %v instead of io.EOF; %s", fl.rerr, how)
		return o
	}
	if stickyN != 0 || stickyErr != io.EOF {
		o.Viol = fmt.Sprintf("end of stream is not sticky: the Read after io.EOF returned (%d, %v); %s", stickyN, stickyErr, how)
		return o
	}
	if overwait != "" {
		o.Viol = "stall: " + overwait + "; " + how
		return o
	}
	for _, n := range fl.reads {
		if n > maxPT {
			o.Viol = fmt.Sprintf("a single Read returned %d > 2^14 bytes (one record)", n)
			return o
		}
	}
	if rmode == 0 {
		if len(fl.reads) != len(app) {
			o.Viol = fmt.Sprintf("%d application records on the wire but %d non-empty reads with a 32 KiB buffer; %s", len(app), len(fl.reads), how)
			return o
		}
		for i, n := range fl.reads {
			if n < app[i].lo || n > app[i].hi {
				o.Viol = fmt.Sprintf("record %d: Read returned %d bytes, the wire record (%d bytes) can carry %d..%d", i, n, len(app[i].raw), app[i].lo, app[i].hi)
				return o
			}
		}
	}
	o.Tags = append(o.Tags, "real:seg:ok")
	return o
}

func start(bounds []int, i int) int {
	if i <= 0 {
		return 0
	}
	return bounds[i-1]
}
