package c25

import (
	"bytes"
	"crypto/hmac"
	"crypto/sha1"
	"crypto/sha256"
	"errors"
	"fmt"
	"hash"
	"strconv"
	"strings"

	"github.com/zmap/zcrypto/tls"

	"zv/internal/zv"
)

/* ---------- toy primitives (defined identically in lean/ZV/Model/C25.lean, section "toy primitives") ---------- */

// toy stream cipher: keystream byte j = key[j mod |key|] + byte(j) + byte(j>>8); the counter persists across calls.
type toyStream struct {
	key []byte
	ctr uint64
}

func toyKS(key []byte, j uint64) byte { return key[j%uint64(len(key))] + byte(j) + byte(j>>8) }
func (s *toyStream) XORKeyStream(dst, src []byte) {
	for i := range src {
		dst[i] = src[i] ^ toyKS(s.key, s.ctr+uint64(i))
	}
	s.ctr += uint64(len(src))
}

// toy block cipher, block size = |key|: E(b) = reverse(b xor key) with +1 on every byte; D inverts it.
func toyE(key, b []byte) []byte {
	n := len(key)
	out := make([]byte, n)
	for i := 0; i < n; i++ {
		out[n-1-i] = (b[i] ^ key[i]) + 1
	}
	return out
}
func toyD(key, c []byte) []byte {
	n := len(key)
	out := make([]byte, n)
	for i := 0; i < n; i++ {
		out[i] = (c[n-1-i] - 1) ^ key[i]
	}
	return out
}

// toy CBC mode over the toy block cipher; implements tls.cbcMode (BlockSize, CryptBlocks, SetIV).
type toyCBC struct {
	key, iv []byte
	dec     bool
}

func (c *toyCBC) BlockSize() int { return len(c.key) }
func (c *toyCBC) SetIV(iv []byte) {
	if len(iv) != len(c.key) {
		panic("toyCBC: bad IV length")
	}
	c.iv = append([]byte{}, iv...)
}
func (c *toyCBC) CryptBlocks(dst, src []byte) {
	bs := len(c.key)
	if len(src)%bs != 0 {
		panic("toyCBC: input not full blocks")
	}
	for o := 0; o < len(src); o += bs {
		in := append([]byte{}, src[o:o+bs]...)
		if c.dec {
			p := toyD(c.key, in)
			for i := range p {
				p[i] ^= c.iv[i]
			}
			copy(dst[o:], p)
			c.iv = in
		} else {
			for i := range in {
				in[i] ^= c.iv[i]
			}
			ct := toyE(c.key, in)
			copy(dst[o:], ct)
			c.iv = ct
		}
	}
}

// toy AEAD (12-byte nonce, tagLen-byte tag): ct[i] = pt[i] xor ((key[i mod |key|] xor nonce[i mod 12]) + byte(i));
// S = sum(key) + sum_{idx} (x[idx]+1)*(idx+1) mod 2^32 over x = nonce || ad || ct (the encrypted body);
// tag[j] = byte(S >> 8*(j mod 4)) + byte(j). (A single changed byte of nonce, AD or body always changes all four bytes' sum.)
type toyAEAD struct {
	key    []byte
	tagLen int
}

func (a *toyAEAD) NonceSize() int { return 12 }
func (a *toyAEAD) Overhead() int  { return a.tagLen }
func (a *toyAEAD) pad(nonce []byte, i int) byte {
	return (a.key[i%len(a.key)] ^ nonce[i%len(nonce)]) + byte(i)
}
func (a *toyAEAD) tag(nonce, ad, body []byte) []byte {
	var s uint32
	for _, k := range a.key {
		s += uint32(k)
	}
	idx := uint32(0)
	for _, part := range [][]byte{nonce, ad, body} {
		for _, x := range part {
			idx++
			s += (uint32(x) + 1) * idx
		}
	}
	t := make([]byte, a.tagLen)
	for j := range t {
		t[j] = byte(s>>(8*(uint(j)%4))) + byte(j)
	}
	return t
}
func (a *toyAEAD) Seal(dst, nonce, pt, ad []byte) []byte {
	if len(nonce) != 12 {
		panic("toyAEAD: bad nonce length")
	}
	out := make([]byte, 0, len(pt)+a.tagLen)
	for i, b := range pt {
		out = append(out, b^a.pad(nonce, i))
	}
	out = append(out, a.tag(nonce, ad, out)...)
	return append(dst, out...)
}
func (a *toyAEAD) Open(dst, nonce, ct, ad []byte) ([]byte, error) {
	if len(nonce) != 12 {
		panic("toyAEAD: bad nonce length")
	}
	if len(ct) < a.tagLen {
		return nil, errors.New("toyAEAD: too short")
	}
	n := len(ct) - a.tagLen
	pt := make([]byte, n)
	for i := 0; i < n; i++ {
		pt[i] = ct[i] ^ a.pad(nonce, i)
	}
	if !bytes.Equal(a.tag(nonce, ad, ct[:n]), ct[n:]) {
		return nil, errors.New("toyAEAD: authentication failed")
	}
	return append(dst, pt...), nil
}

/* ---------- line protocol helpers ---------- */

// bytes spec: parts joined by '+'; part = hex | '-' | g<len>.<seed> (b[i] = seed + 7i + 13(i>>8)) | r<len>.<byte>
func genBytes(n, seed int) []byte {
	b := make([]byte, n)
	for i := range b {
		b[i] = byte(seed + 7*i + 13*(i>>8))
	}
	return b
}
func parseBytes(s string) []byte {
	var out []byte
	for _, p := range strings.Split(s, "+") {
		switch {
		case p == "-":
		case p[0] == 'g' || p[0] == 'r':
			ab := strings.Split(p[1:], ".")
			n, _ := strconv.Atoi(ab[0])
			v, _ := strconv.Atoi(ab[1])
			if p[0] == 'g' {
				out = append(out, genBytes(n, v)...)
			} else {
				out = append(out, bytes.Repeat([]byte{byte(v)}, n)...)
			}
		default:
			out = append(out, zv.UnHex(p)...)
		}
	}
	return out
}

type ciph struct {
	kind   string // null stream cbc prefix xor
	key    []byte
	ctr    uint64
	iv     []byte // cbc iv / prefix4 / mask12
	tagLen int
	macAlg string
	macKey []byte
}

func parseCipher(s string) ciph {
	f := strings.Split(s, ":")
	c := ciph{kind: f[0]}
	switch f[0] {
	case "null":
	case "stream":
		c.key = zv.UnHex(f[1])
		c.ctr, _ = strconv.ParseUint(f[2], 10, 64)
		c.macAlg, c.macKey = f[3], zv.UnHex(f[4])
	case "cbc":
		c.key, c.iv = zv.UnHex(f[1]), zv.UnHex(f[2])
		c.macAlg, c.macKey = f[3], zv.UnHex(f[4])
	case "prefix", "xor":
		c.key = zv.UnHex(f[1])
		c.tagLen, _ = strconv.Atoi(f[2])
		c.iv = zv.UnHex(f[3])
	default:
		panic("bad cipher spec " + s)
	}
	return c
}
func (c ciph) String() string {
	switch c.kind {
	case "stream":
		return fmt.Sprintf("stream:%s:%d:%s:%s", zv.Hex(c.key), c.ctr, c.macAlg, zv.Hex(c.macKey))
	case "cbc":
		return fmt.Sprintf("cbc:%s:%s:%s:%s", zv.Hex(c.key), zv.Hex(c.iv), c.macAlg, zv.Hex(c.macKey))
	case "prefix", "xor":
		return fmt.Sprintf("%s:%s:%d:%s", c.kind, zv.Hex(c.key), c.tagLen, zv.Hex(c.iv))
	}
	return "null"
}

// build instantiates the real halfConn cipher/mac objects; state() renders the cipher state afterwards.
func (c ciph) build(read bool) (ci interface{}, mac hash.Hash, state func() string) {
	state = func() string { return "-" }
	switch c.macAlg {
	case "sha1":
		mac = tls.ZVC25MacSHA1(c.macKey)
	case "sha256":
		mac = tls.ZVC25MacSHA256(c.macKey)
	}
	switch c.kind {
	case "stream":
		s := &toyStream{key: c.key, ctr: c.ctr}
		return s, mac, func() string { return strconv.FormatUint(s.ctr, 10) }
	case "cbc":
		m := &toyCBC{key: c.key, iv: append([]byte{}, c.iv...), dec: read}
		return m, mac, func() string { return zv.Hex(m.iv) }
	case "prefix":
		return tls.ZVC25PrefixNonceAEAD(&toyAEAD{key: c.key, tagLen: c.tagLen}, c.iv), nil, state
	case "xor":
		return tls.ZVC25XorNonceAEAD(&toyAEAD{key: c.key, tagLen: c.tagLen}, c.iv), nil, state
	}
	return nil, nil, state
}

func seq8(s string) (a [8]byte) { copy(a[:], zv.UnHex(s)); return }

type limReader struct{ b []byte }

func (r *limReader) Read(p []byte) (int, error) {
	if len(r.b) == 0 {
		return 0, errors.New("rand exhausted")
	}
	n := copy(p, r.b)
	r.b = r.b[n:]
	return n, nil
}

func atoi(s string) int { n, _ := strconv.Atoi(s); return n }
func parseVers(s string) uint16 {
	v, _ := strconv.ParseUint(s, 16, 16)
	return uint16(v)
}

const allFF = "ffffffffffffffff"

/* ---------- running the real code ---------- */

type encRes struct {
	rec   []byte
	seq   [8]byte
	state string
	err   bool
	panic bool
}

func doEncrypt(vers uint16, c ciph, seq [8]byte, hdr, payload, rnd []byte) (r encRes) {
	ci, mac, st := c.build(false)
	h := tls.ZVC25NewHalf(vers, ci, mac, seq)
	defer func() {
		if e := recover(); e != nil {
			r = encRes{panic: true}
		}
	}()
	rec, err := h.Encrypt(append(make([]byte, 0, 64), hdr...), append([]byte{}, payload...), &limReader{rnd})
	if err != nil {
		return encRes{err: true}
	}
	return encRes{rec: append([]byte{}, rec...), seq: h.Seq(), state: st()}
}

type decRes struct {
	pt    []byte
	typ   byte
	seq   [8]byte
	state string
	err   bool
	panic bool
}

func doDecrypt(vers uint16, c ciph, seq [8]byte, rec []byte) (r decRes) {
	ci, mac, st := c.build(true)
	h := tls.ZVC25NewHalf(vers, ci, mac, seq)
	defer func() {
		if e := recover(); e != nil {
			r = decRes{panic: true}
		}
	}()
	pt, typ, err := h.Decrypt(append([]byte{}, rec...))
	if err != nil {
		return decRes{err: true}
	}
	return decRes{pt: append([]byte{}, pt...), typ: typ, seq: h.Seq(), state: st()}
}

func (r encRes) String() string {
	switch {
	case r.panic:
		return "panic"
	case r.err:
		return "err"
	}
	return fmt.Sprintf("ok %s %s %s", zv.Hex(r.rec), zv.Hex(r.seq[:]), r.state)
}
func (r decRes) String() string {
	switch {
	case r.panic:
		return "panic"
	case r.err:
		return "err"
	}
	return fmt.Sprintf("ok %d %s %s %s", r.typ, zv.Hex(r.pt), zv.Hex(r.seq[:]), r.state)
}

// naive reference for extractPadding: the property's sentence, byte by byte.
func refPadding(p []byte) (int, byte) {
	if len(p) == 0 {
		return 0, 0
	}
	n := int(p[len(p)-1])
	if n+1 > len(p) {
		return 1, 0
	}
	for i := 0; i <= n; i++ {
		if p[len(p)-1-i] != byte(n) {
			return 1, 0
		}
	}
	return n + 1, 255
}

func applyMut(rec []byte, m string) ([]byte, string) {
	f := strings.Split(m, ":")
	out := append([]byte{}, rec...)
	switch f[0] {
	case "none":
	case "flip":
		pos, x := atoi(f[1]), atoi(f[2])
		if pos < len(out) {
			out[pos] ^= byte(x)
		}
	case "trunc":
		k := atoi(f[1])
		if k > len(out)-5 {
			k = len(out) - 5
		}
		out = out[:len(out)-k]
	case "ext":
		out = append(out, parseBytes(f[1])...)
	}
	return out, f[0]
}

func sizeTag(n int) string {
	switch {
	case n == 0:
		return "len=0"
	case n <= 16:
		return "len<=16"
	case n <= 256:
		return "len<=256"
	case n < 16384:
		return "len<2^14"
	case n == 16384:
		return "len=2^14"
	}
	return "len>2^14"
}

func execRecord(line string) zv.Out {
	f := strings.Fields(line)
	switch f[1] {
	case "pad", "padf":
		var p []byte
		if f[1] == "pad" {
			p = parseBytes(f[2])
		} else {
			L, fill, last, pos, val := atoi(f[2]), atoi(f[3]), atoi(f[4]), atoi(f[5]), atoi(f[6])
			p = bytes.Repeat([]byte{byte(fill)}, L)
			if L > 0 {
				p[L-1] = byte(last)
			}
			if pos < L {
				p[L-1-pos] = byte(val)
			}
		}
		n, good := tls.ZVC25ExtractPadding(p)
		rn, rg := refPadding(p)
		o := zv.Out{Go: fmt.Sprintf("%d %d", n, good), Tags: []string{"pad", fmt.Sprintf("pad-good=%d", good)}}
		if n != rn || good != rg {
			o.Viol = fmt.Sprintf("extractPadding = (%d,%d), the padding rule gives (%d,%d)", n, good, rn, rg)
		}
		return o

	case "enc":
		vers, c, seq := parseVers(f[2]), parseCipher(f[3]), seq8(f[4])
		hdr, payload, rnd := parseBytes(f[5]), parseBytes(f[6]), parseBytes(f[7])
		r := doEncrypt(vers, c, seq, hdr, payload, rnd)
		o := zv.Out{Go: r.String(), Tags: []string{"enc", "enc-" + c.kind + "-" + f[2], sizeTag(len(payload))}}
		if r.panic && f[4] != allFF {
			o.Viol = "encrypt panicked"
		}
		if r.err {
			o.Tags = append(o.Tags, "enc-err")
		}
		return o

	case "dec":
		vers, c, seq, rec := parseVers(f[2]), parseCipher(f[3]), seq8(f[4]), parseBytes(f[5])
		r := doDecrypt(vers, c, seq, rec)
		res := "ok"
		if r.err {
			res = "err"
		} else if r.panic {
			res = "panic"
		}
		o := zv.Out{Go: r.String(), Tags: []string{"dec", "dec-" + c.kind + "-" + f[2] + "-" + res}}
		if len(f) > 6 {
			o.Tags = append(o.Tags, "dec-case="+f[6])
		}
		if r.panic && f[4] != allFF {
			o.Viol = "decrypt panicked"
		}
		return o

	case "rt":
		// T3 only: decrypt(encrypt p) = (p, typ) at the same sequence number / chaining state;
		// a mutated record or a different sequence number yields an error or the identical plaintext.
		vers, c, seq := parseVers(f[2]), parseCipher(f[3]), seq8(f[4])
		hdr, payload, rnd := parseBytes(f[5]), parseBytes(f[6]), parseBytes(f[7])
		o := zv.Out{Tags: []string{"rt", "rt-" + c.kind + "-" + f[2]}}
		e := doEncrypt(vers, c, seq, hdr, payload, rnd)
		// outside the property's domain: no protection yet (nil cipher), cipher/version pairs no suite has,
		// content type 0 under TLS 1.3 (indistinguishable from padding), more than 2^14 bytes under TLS 1.3 (decrypt
		// rejects the inner plaintext; writeRecordLocked never produces it)
		natural := c.kind != "null" && !(vers == 0x0304 && c.kind != "xor") && !(vers == 0x0304 && hdr[0] == 0) &&
			!(vers == 0x0304 && len(payload) > 16384)
		if e.err || e.panic || !natural {
			o.Trivial = true
			return o
		}
		if n := len(e.rec) - 5; int(e.rec[3])<<8|int(e.rec[4]) != n {
			o.Viol = "record header length does not match the record"
			return o
		}
		d := doDecrypt(vers, c, seq, e.rec)
		if d.err || d.panic || !bytes.Equal(d.pt, payload) || d.typ != hdr[0] {
			o.Viol = fmt.Sprintf("decrypt(encrypt p) != p: got %s", d.String())
			return o
		}
		if d.seq != e.seq {
			o.Viol = "reader and writer sequence numbers diverge after one record"
			return o
		}
		if (c.kind == "prefix" || c.kind == "xor") && c.tagLen < 4 {
			// the additive toy tag only guarantees detection of these mutations with all four bytes of its sum
			o.Tags = append(o.Tags, "rt-weak-toy-tag")
			return o
		}
		for _, m := range f[8:] {
			if strings.HasPrefix(m, "seq:") {
				d2 := doDecrypt(vers, c, seq8(m[4:]), e.rec)
				o.Tags = append(o.Tags, "rt-mut=seq")
				if seq8(m[4:]) != seq && !d2.err && !(d2.panic && m[4:] == allFF) {
					o.Viol = "record accepted at a different sequence number: " + d2.String()
				}
				continue
			}
			mr, kind := applyMut(e.rec, m)
			o.Tags = append(o.Tags, "rt-mut="+kind)
			d2 := doDecrypt(vers, c, seq, mr)
			if d2.panic {
				o.Viol = "decrypt panicked on mutated record " + m
			} else if !d2.err && (!bytes.Equal(d2.pt, payload) || d2.typ != hdr[0]) {
				o.Viol = fmt.Sprintf("mutated record (%s) delivered different data: %s", m, d2.String())
			} else if !d2.err {
				o.Tags = append(o.Tags, "rt-mut-harmless="+kind)
			}
		}
		return o

	case "maxp":
		vers, c := parseVers(f[2]), parseCipher(f[3])
		dyn, bs, ps, typ := f[4] == "1", atoi(f[5]), atoi(f[6]), atoi(f[7])
		ci, mac, _ := c.build(false)
		out := tls.ZVC25NewHalf(vers, ci, mac, [8]byte{})
		z := tls.ZVC25NewConn(vers, true, true, dyn, false, nil, nil, out, int64(bs), int64(ps), nil)
		n := z.MaxPayloadSizeForWrite(byte(typ))
		_, ps2 := z.Counters()
		o := zv.Out{Go: fmt.Sprintf("%d %d", n, ps2), Tags: []string{"maxp", "maxp-" + c.kind}}
		if n > 16384 {
			o.Viol = fmt.Sprintf("maxPayloadSizeForWrite = %d > 2^14", n)
		}
		return o

	case "write":
		vers, c, seq := parseVers(f[2]), parseCipher(f[3]), seq8(f[4])
		dyn, buf, bs, ps, typ := f[5] == "1", f[6] == "1", atoi(f[7]), atoi(f[8]), atoi(f[9])
		data, rnd := parseBytes(f[10]), parseBytes(f[11])
		ci, mac, _ := c.build(false)
		out := tls.ZVC25NewHalf(vers, ci, mac, seq)
		z := tls.ZVC25NewConn(vers, true, true, dyn, buf, &limReader{rnd}, nil, out, int64(bs), int64(ps), nil)
		n, err := z.WriteRecord(byte(typ), data)
		wire := z.Wire()
		o := zv.Out{Tags: []string{"write", "write-" + c.kind + "-" + f[2], sizeTag(len(data))}}
		if err != nil {
			o.Go = fmt.Sprintf("err %d", n)
			return o
		}
		// parse the wire into records, decrypt with a fresh reader state: T3 fragment_concat / fragment_le
		rci, rmac, _ := c.build(true)
		rd := tls.ZVC25NewHalf(vers, rci, rmac, seq)
		var lens []string
		var got []byte
		w := wire
		for len(w) > 0 {
			if len(w) < 5 || len(w) < 5+(int(w[3])<<8|int(w[4])) {
				o.Viol = "wire does not parse into records"
				break
			}
			l := int(w[3])<<8 | int(w[4])
			lens = append(lens, strconv.Itoa(l))
			pt, t, derr := rd.Decrypt(append([]byte{}, w[:5+l]...))
			if derr != nil || t != byte(typ) {
				o.Viol = "a written record does not decrypt at the reader"
				break
			}
			if len(pt) > 16384 || len(pt) == 0 {
				o.Viol = fmt.Sprintf("fragment of %d bytes", len(pt))
			}
			got = append(got, pt...)
			w = w[5+l:]
		}
		if o.Viol == "" && (!bytes.Equal(got, data) || n != len(data)) {
			o.Viol = "concatenation of the fragments differs from the written data"
		}
		var ck uint32
		for _, b := range wire {
			ck = ck*31 + uint32(b)
		}
		wh := "*"
		if len(wire) <= 1024 {
			wh = zv.Hex(wire)
		}
		bs2, ps2 := z.Counters()
		os := z.OutSeq()
		ls := "-"
		if len(lens) > 0 {
			ls = strings.Join(lens, ",")
		}
		o.Go = fmt.Sprintf("ok %d %s %d %d %s %d %d %s", n, ls, len(wire), ck, wh, bs2, ps2, zv.Hex(os[:]))
		o.Tags = append(o.Tags, fmt.Sprintf("write-records<=%d", (len(lens)/4+1)*4))
		return o

	case "readx":
		return execReadx(f)
	case "writex":
		return execWritex(f)

	case "read":
		vers, have, hsc := parseVers(f[2]), f[3] == "1", f[4] == "1"
		c, seq, wire := parseCipher(f[5]), seq8(f[6]), parseBytes(f[7])
		ci, mac, _ := c.build(true)
		in := tls.ZVC25NewHalf(vers, ci, mac, seq)
		z := tls.ZVC25NewConn(vers, have, hsc, false, false, nil, in, nil, 0, 0, wire)
		err := z.ReadRecord()
		is := z.InSeq()
		o := zv.Out{Tags: []string{"read", "read-" + c.kind + "-" + f[2]}}
		switch {
		case len(z.Input()) > 0:
			o.Go = fmt.Sprintf("data %s %s", zv.Hex(z.Input()), zv.Hex(is[:]))
			if len(z.Input()) > 16384 {
				o.Viol = "a record delivered more than 2^14 plaintext bytes"
			}
			o.Tags = append(o.Tags, "read-data")
		case len(z.Hand()) > 0:
			o.Go = fmt.Sprintf("hand %s %s", zv.Hex(z.Hand()), zv.Hex(is[:]))
			o.Tags = append(o.Tags, "read-hand")
		case err != nil:
			o.Go = fmt.Sprintf("err %d", z.RetryCount())
			o.Tags = append(o.Tags, "read-err")
		default:
			o.Go = "ok-none"
		}
		return o
	}
	return zv.Out{Go: "bad-op"}
}

/* ---------- generators ---------- */

func hmacSum(alg string, key []byte, parts ...[]byte) []byte {
	var h hash.Hash
	if alg == "sha1" {
		h = hmac.New(sha1.New, key)
	} else {
		h = hmac.New(sha256.New, key)
	}
	for _, p := range parts {
		h.Write(p)
	}
	return h.Sum(nil)
}

func rndCipher(r *zv.Rng, kind string) ciph {
	c := ciph{kind: kind}
	mac := func() {
		c.macAlg = "sha1"
		if r.Chance(30) {
			c.macAlg = "sha256"
		}
		c.macKey = r.Bytes([]int{20, 32, 1, 64, 80}[r.Intn(5)])
	}
	switch kind {
	case "stream":
		c.key = r.Bytes(1 + r.Intn(16))
		c.ctr = uint64(r.Intn(100000))
		if r.Chance(20) {
			c.ctr = 0
		}
		mac()
	case "cbc":
		bs := []int{8, 16}[r.Intn(2)]
		c.key, c.iv = r.Bytes(bs), r.Bytes(bs)
		mac()
	case "prefix":
		c.key, c.iv = r.Bytes(1+r.Intn(32)), r.Bytes(4)
		c.tagLen = []int{16, 16, 4, 8, 1}[r.Intn(5)]
	case "xor":
		c.key, c.iv = r.Bytes(1+r.Intn(32)), r.Bytes(12)
		c.tagLen = []int{16, 16, 4, 8, 1}[r.Intn(5)]
	}
	return c
}

func rndSeq(r *zv.Rng) []byte {
	s := make([]byte, 8)
	switch r.Intn(6) {
	case 0:
	case 1:
		s[7] = byte(r.Intn(256))
	case 2: // carry chains
		k := 1 + r.Intn(7)
		for i := 8 - k; i < 8; i++ {
			s[i] = 0xff
		}
		s[7-k] = byte(r.Intn(255))
	default:
		s = r.Bytes(8)
		if r.Chance(50) {
			s[0], s[1], s[2] = 0, 0, 0
		}
	}
	return s
}

func rndLen(r *zv.Rng, big bool) int {
	switch r.Intn(10) {
	case 0:
		return 0
	case 1:
		return 1
	case 2, 3, 4:
		return r.Intn(40)
	case 5, 6:
		return r.Intn(300)
	case 7:
		if big {
			return []int{16384, 16383, 16385, 4096 + r.Intn(9000)}[r.Intn(4)]
		}
		return r.Intn(600)
	}
	return r.Intn(100)
}

// versions a cipher kind is generated with (first entries are the natural ones).
func rndVers(r *zv.Rng, kind string) uint16 {
	odd := r.Chance(6)
	switch kind {
	case "stream":
		if odd {
			return 0x0304
		}
		return []uint16{0x0301, 0x0302, 0x0303, 0x0300}[r.Intn(4)]
	case "cbc":
		if odd {
			return 0x0304
		}
		return []uint16{0x0301, 0x0302, 0x0303, 0x0300, 0x0301, 0x0303}[r.Intn(6)]
	case "prefix":
		if odd {
			return []uint16{0x0304, 0x0301}[r.Intn(2)]
		}
		return 0x0303
	case "xor":
		if odd {
			return 0x0301
		}
		return []uint16{0x0303, 0x0304}[r.Intn(2)]
	}
	return []uint16{0x0301, 0x0302, 0x0303, 0x0304, 0}[r.Intn(5)]
}

func hdrFor(vers uint16, typ byte, n int) []byte {
	v := vers
	if v == 0x0304 {
		v = 0x0303
	}
	if v == 0 {
		v = 0x0301
	}
	return []byte{typ, byte(v >> 8), byte(v), byte(n >> 8), byte(n)}
}

func rndTyp(r *zv.Rng) byte {
	if r.Chance(70) {
		return 23
	}
	return []byte{20, 21, 22, 23, 24, 0, 255, 1}[r.Intn(8)]
}

func payloadSpec(r *zv.Rng, n int) string {
	if n == 0 {
		return "-"
	}
	if n > 64 || r.Chance(30) {
		return fmt.Sprintf("g%d.%d", n, r.Intn(256))
	}
	if r.Chance(10) {
		return fmt.Sprintf("r%d.%d", n, []int{0, 0, 255, 1}[r.Intn(4)])
	}
	return zv.Hex(r.Bytes(n))
}

var kinds = []string{"stream", "cbc", "cbc", "prefix", "xor", "xor", "null"}

func genRecord(g *zv.Gen) {
	r := g.Rng
	/* extractPadding */
	g.Emit("c25 pad -")
	for a := 0; a < 256; a++ {
		g.Emitf("c25 pad %02x", a)
		for b := 0; b < 256; b++ {
			g.Emitf("c25 pad %02x%02x", a, b)
		}
	}
	step := g.N(7, 1)
	for L := 1; L <= 300; L++ {
		if !(L <= 20 || (L >= 250 && L <= 262) || L >= 298 || L%step == 0) {
			continue
		}
		for v := 0; v < 256; v++ {
			g.Emitf("c25 padf %d %d %d %d %d", L, v, v, 0, v)        // constant fill
			g.Emitf("c25 padf %d %d %d %d %d", L, v, v, v+1, v^0x01) // mismatch just outside the padding
			g.Emitf("c25 padf %d %d %d %d %d", L, v, v, v, v^0x80)   // mismatch on the last padding byte
			if v > 0 {
				g.Emitf("c25 padf %d %d %d %d %d", L, v, v, 1+r.Intn(v), v^(1<<uint(r.Intn(8)))) // mismatch inside
			}
			g.Emitf("c25 padf %d %d %d %d %d", L, r.Intn(256), v, r.Intn(L), r.Intn(256)) // unrelated fill
		}
	}
	for i, n := 0, g.N(20000, 300000); i < n; i++ {
		L := 1 + r.Intn(40)
		if r.Chance(10) {
			L = 250 + r.Intn(70)
		}
		p := r.Bytes(L)
		if r.Chance(70) { // near-valid
			v := r.Intn(L + 2)
			for j := 0; j <= v && j < L; j++ {
				p[L-1-j] = byte(v)
			}
			if r.Chance(40) {
				p[L-1-r.Intn(L)] ^= byte(1 << uint(r.Intn(8)))
			}
		}
		g.Emitf("c25 pad %s", zv.Hex(p))
	}

	/* encrypt / decrypt */
	nRec := g.N(700, 12000)
	for i := 0; i < nRec; i++ {
		kind := kinds[r.Intn(len(kinds))]
		c := rndCipher(r, kind)
		vers := rndVers(r, kind)
		seq := rndSeq(r)
		if r.Chance(1) {
			seq = bytes.Repeat([]byte{0xff}, 8)
		}
		n := rndLen(r, i%10 == 0)
		typ := rndTyp(r)
		hdr := hdrFor(vers, typ, n)
		ps := payloadSpec(r, n)
		rnd := r.Bytes([]int{16, 16, 16, 8, 7, 0, 40}[r.Intn(7)])
		vs := fmt.Sprintf("%04x", vers)
		g.Emitf("c25 enc %s %s %s %s %s %s", vs, c, zv.Hex(seq), zv.Hex(hdr), ps, zv.Hex(rnd))
		e := doEncrypt(vers, c, seq8(zv.Hex(seq)), hdr, parseBytes(ps), rnd)
		if e.err || e.panic {
			continue
		}
		rec := e.rec
		dec := func(rec []byte, s []byte, what string) {
			g.Emitf("c25 dec %s %s %s %s %s", vs, c, zv.Hex(s), zv.Hex(rec), what)
		}
		dec(rec, seq, "valid")
		var muts []string
		add := func(m string) {
			muts = append(muts, m)
			mr, kind := applyMut(rec, m)
			dec(mr, seq, kind)
		}
		nm := 2
		if len(rec) > 2000 {
			nm = 1
		}
		for j := 0; j < nm; j++ {
			switch r.Intn(6) {
			case 0, 1:
				pos := r.Intn(len(rec))
				if r.Chance(30) {
					pos = r.Intn(5)
				} else if r.Chance(30) {
					pos = len(rec) - 1 - r.Intn(min(len(rec), 40))
				} else if r.Chance(30) && len(rec) > 5 {
					pos = 5 + r.Intn(min(len(rec)-5, 24))
				}
				add(fmt.Sprintf("flip:%d:%d", pos, 1<<uint(r.Intn(8))))
			case 2:
				k := 1 + r.Intn(3)
				if r.Chance(50) {
					k = 1 + r.Intn(len(rec)-4)
				} else if c.kind == "cbc" && r.Chance(70) {
					k = len(c.key) * (1 + r.Intn(3))
				}
				add(fmt.Sprintf("trunc:%d", k))
			case 3:
				k := 1 + r.Intn(3)
				if c.kind == "cbc" && r.Chance(70) {
					k = len(c.key) * (1 + r.Intn(2))
				}
				add("ext:" + zv.Hex(r.Bytes(k)))
			case 4:
				s2 := append([]byte{}, seq...)
				s2[7-r.Intn(8)] ^= byte(1 << uint(r.Intn(8)))
				if r.Chance(30) {
					s2 = append([]byte{}, seq...)
					for k := 7; k >= 0; k-- { // seq+1: the record a replay/drop would shift to
						s2[k]++
						if s2[k] != 0 {
							break
						}
					}
				}
				muts = append(muts, "seq:"+zv.Hex(s2))
				dec(rec, s2, "seq")
			case 5: // too short: keep only the first k payload bytes
				k := r.Intn(min(len(rec)-4, 48))
				dec(rec[:5+min(k, len(rec)-5)], seq, "short")
			}
		}
		g.Emitf("c25 rt %s %s %s %s %s %s none %s", vs, c, zv.Hex(seq), zv.Hex(hdr), ps, zv.Hex(rnd), strings.Join(muts, " "))
	}
	genCrafted(g)
	genSizing(g)
	genReadx(g)
	genWritex(g)
}

// crafted records: CBC with arbitrary padding bytes / lengths, TLS 1.3 with zero padding and odd inner contents.
func genCrafted(g *zv.Gen) {
	r := g.Rng
	for i, n := 0, g.N(500, 8000); i < n; i++ {
		c := rndCipher(r, "cbc")
		bs := len(c.key)
		vers := []uint16{0x0301, 0x0302, 0x0303}[r.Intn(3)]
		seq := rndSeq(r)
		typ := rndTyp(r)
		n := r.Intn(70)
		payload := r.Bytes(n)
		hdr := hdrFor(vers, typ, n)
		mac := hmacSum(c.macAlg, c.macKey, seq, hdr, payload)
		body := append(append([]byte{}, payload...), mac...)
		what := "pad-valid-long"
		// padding: total length a multiple of bs, 1..256 bytes
		minPad := bs - len(body)%bs
		padLen := minPad + bs*r.Intn((256-minPad)/bs+1)
		pad := bytes.Repeat([]byte{byte(padLen - 1)}, padLen)
		switch r.Intn(7) {
		case 0: // one padding byte wrong
			pad[r.Intn(padLen)] ^= byte(1 << uint(r.Intn(8)))
			what = "pad-bad-byte"
		case 1: // length byte larger than the record
			pad[padLen-1] = byte(len(body) + padLen + r.Intn(4))
			what = "pad-len-too-big"
		case 2: // length byte claims exactly everything but the MAC / more than that
			if padLen > 1 {
				v := byte(padLen - 1 + 1 + r.Intn(len(body)+1))
				for j := range pad {
					pad[j] = v
				}
				what = "pad-eats-mac"
			}
		case 3: // padding length byte smaller: trailing bytes become data, MAC misplaced
			pad[padLen-1] = byte(r.Intn(padLen))
			what = "pad-len-small"
		case 4: // bad MAC with good padding
			body[n+r.Intn(len(mac))] ^= 1
			what = "pad-ok-mac-bad"
		}
		plain := append(body, pad...)
		iv := c.iv
		var rec []byte
		if vers >= 0x0302 {
			iv = r.Bytes(bs)
			rec = append(append([]byte{}, hdr...), iv...)
		} else {
			rec = append([]byte{}, hdr...)
		}
		enc := &toyCBC{key: c.key, iv: append([]byte{}, iv...)}
		ct := make([]byte, len(plain))
		enc.CryptBlocks(ct, plain)
		rec = append(rec, ct...)
		l := len(rec) - 5
		rec[3], rec[4] = byte(l>>8), byte(l)
		g.Emitf("c25 dec %04x %s %s %s %s", vers, c, zv.Hex(seq), zv.Hex(rec), what)
	}
	// bad padding but a MAC that is valid for the split decrypt uses after zeroing the padding length
	// (payload ‖ MAC ‖ one junk byte): must be rejected through paddingGood alone
	for i, n := 0, g.N(60, 600); i < n; i++ {
		c := rndCipher(r, "cbc")
		bs := len(c.key)
		vers := []uint16{0x0301, 0x0302, 0x0303}[r.Intn(3)]
		seq := rndSeq(r)
		macLen := 20
		if c.macAlg == "sha256" {
			macLen = 32
		}
		n := bs*(1+r.Intn(4)) - 1 - macLen%bs // payload ‖ MAC ‖ 1 byte fills whole blocks
		for n < 0 {
			n += bs
		}
		payload := r.Bytes(n)
		hdr := hdrFor(vers, 23, n)
		mac := hmacSum(c.macAlg, c.macKey, seq, hdr, payload)
		last := byte(1 + r.Intn(255))
		if mac[len(mac)-1] == last {
			last ^= 0x40
		}
		plain := append(append(append([]byte{}, payload...), mac...), last)
		iv := c.iv
		rec := append([]byte{}, hdr...)
		if vers >= 0x0302 {
			iv = r.Bytes(bs)
			rec = append(rec, iv...)
		}
		enc := &toyCBC{key: c.key, iv: append([]byte{}, iv...)}
		ct := make([]byte, len(plain))
		enc.CryptBlocks(ct, plain)
		rec = append(rec, ct...)
		l := len(rec) - 5
		rec[3], rec[4] = byte(l>>8), byte(l)
		g.Emitf("c25 dec %04x %s %s %s pad-bad-mac-good", vers, c, zv.Hex(seq), zv.Hex(rec))
	}
	// shortest records: exactly MAC-size bytes whose last byte is 0 (a MAC over the empty payload doubling as
	// one byte of padding) — rejected only by the minimum-length check
	for i, n := 0, g.N(30, 300); i < n; i++ {
		c := rndCipher(r, "cbc")
		c.macAlg = "sha256"
		bs := len(c.key)
		vers := []uint16{0x0301, 0x0302, 0x0303}[r.Intn(3)]
		hdr := hdrFor(vers, 23, 0)
		var seq, mac []byte
		for k := 0; k < 20000; k++ {
			seq = r.Bytes(8)
			mac = hmacSum(c.macAlg, c.macKey, seq, hdr, nil)
			if mac[31] == 0 {
				break
			}
		}
		if mac[31] != 0 {
			continue
		}
		iv := c.iv
		rec := append([]byte{}, hdr...)
		if vers >= 0x0302 {
			iv = r.Bytes(bs)
			rec = append(rec, iv...)
		}
		enc := &toyCBC{key: c.key, iv: append([]byte{}, iv...)}
		ct := make([]byte, 32)
		enc.CryptBlocks(ct, mac)
		rec = append(rec, ct...)
		l := len(rec) - 5
		rec[3], rec[4] = byte(l>>8), byte(l)
		g.Emitf("c25 dec %04x %s %s %s mac-as-padding", vers, c, zv.Hex(seq), zv.Hex(rec))
	}
	// TLS 1.3 inner plaintexts through the real encrypt (header type byte becomes the last inner byte)
	for i, n := 0, g.N(400, 6000); i < n; i++ {
		c := rndCipher(r, "xor")
		seq := rndSeq(r)
		n := r.Intn(40)
		var inner []byte
		what := ""
		switch r.Intn(6) {
		case 0:
			inner, what = make([]byte, 1+r.Intn(30)), "13-all-zero"
		case 1:
			inner, what = append(append(r.Bytes(n), 23), make([]byte, 1+r.Intn(20))...), "13-zero-padded"
		case 2:
			inner, what = append(append(r.Bytes(n), byte(r.Intn(256))), make([]byte, r.Intn(3))...), "13-odd-type"
		case 3:
			inner, what = append(genBytes(16384+r.Intn(3), r.Intn(256)), make([]byte, r.Intn(3))...), "13-long"
			inner[len(inner)-1-r.Intn(2)] |= 1
		case 4:
			inner, what = nil, "13-empty-inner"
		case 5:
			inner, what = append(r.Bytes(n), 23), "13-outer-type"
		}
		hdr := hdrFor(0x0304, 0, 0)
		var rec []byte
		if len(inner) > 0 {
			hdr[0] = inner[len(inner)-1]
			e := doEncrypt(0x0304, c, seq8(zv.Hex(seq)), hdr, inner[:len(inner)-1], nil)
			if e.err || e.panic {
				continue
			}
			rec = e.rec
		} else {
			// empty inner plaintext: seal directly with the toy AEAD under the xor nonce
			nonce := append([]byte{}, c.iv...)
			for j := 0; j < 8; j++ {
				nonce[4+j] ^= seq[j]
			}
			a := &toyAEAD{key: c.key, tagLen: c.tagLen}
			h := []byte{23, 3, 3, 0, byte(c.tagLen)}
			rec = a.Seal(append([]byte{}, h...), nonce, nil, h)
		}
		if what == "13-outer-type" {
			// the outer type is part of the additional data; re-seal is not possible through encrypt, so this is a mutated record
			rec[0] = []byte{20, 21, 22, 24}[r.Intn(4)]
		}
		g.Emitf("c25 dec 0304 %s %s %s %s", c, zv.Hex(seq), zv.Hex(rec), what)
	}
}

// maxPayloadSizeForWrite, writeRecordLocked, readRecordOrCCS
func genSizing(g *zv.Gen) {
	r := g.Rng
	allKinds := []string{"null", "stream", "cbc", "prefix", "xor"}
	for i, n := 0, g.N(3000, 40000); i < n; i++ {
		kind := allKinds[r.Intn(5)]
		c := rndCipher(r, kind)
		c.macKey = []byte{1}
		vers := []uint16{0x0301, 0x0302, 0x0303, 0x0304}[r.Intn(4)]
		bs := []int{0, 1, 131071, 131072, 131073, r.Intn(200000), r.Intn(5000)}[r.Intn(7)]
		ps := []int{0, 1, 2, 12, 13, 14, 15, 999, 1000, 1001, 1002, r.Intn(1100), r.Intn(30), 1 << 40}[r.Intn(14)]
		typ := []int{23, 23, 23, 22, 21}[r.Intn(5)]
		dyn := 0
		if r.Chance(10) {
			dyn = 1
		}
		g.Emitf("c25 maxp %04x %s %d %d %d %d", vers, c, dyn, bs, ps, typ)
	}
	for i, n := 0, g.N(160, 2500); i < n; i++ {
		kind := allKinds[r.Intn(5)]
		c := rndCipher(r, kind)
		vers := rndVers(r, kind)
		if kind == "null" {
			vers = []uint16{0x0301, 0x0303, 0x0304, 0}[r.Intn(4)]
		}
		if (kind == "stream" || kind == "cbc") && vers == 0x0304 {
			vers = 0x0303
		}
		if kind == "prefix" && vers == 0x0304 {
			vers = 0x0303
		}
		macHeavy := kind == "stream" || kind == "cbc"
		var L int
		switch r.Intn(8) {
		case 0:
			L = 0
		case 1, 2:
			L = 1 + r.Intn(200)
		case 3, 4:
			L = 1000 + r.Intn(3000)
		case 5:
			L = 16384*(1+r.Intn(2)) + r.Intn(3) - 1
		default:
			L = r.Intn(40000)
		}
		if macHeavy && L > 5000 && i%4 != 0 {
			L = r.Intn(5000)
		}
		if !macHeavy && r.Chance(15) {
			L = 131072 + r.Intn(60000)
		}
		bs := []int{0, 0, 0, 131072 - r.Intn(3000), 131072, r.Intn(131072)}[r.Intn(6)]
		ps := []int{0, 0, 0, 1, 5, 13, 14, 999, 1000, 1001}[r.Intn(10)]
		typ := []int{23, 23, 23, 22, 21}[r.Intn(5)]
		dyn, buf := 0, 0
		if r.Chance(15) {
			dyn = 1
		}
		if r.Chance(20) {
			buf = 1
		}
		rnd := r.Bytes(16 * 48)
		g.Emitf("c25 write %04x %s %s %d %d %d %d %d %s %s", vers, c, zv.Hex(rndSeq(r)), dyn, buf, bs, ps, typ, payloadSpec(r, L), zv.Hex(rnd))
	}
	// readRecordOrCCS
	for i, n := 0, g.N(500, 8000); i < n; i++ {
		kind := allKinds[r.Intn(5)]
		c := rndCipher(r, kind)
		vers := rndVers(r, kind)
		if kind == "null" {
			vers = []uint16{0x0301, 0x0303, 0x0304}[r.Intn(3)]
		}
		if vers == 0x0300 || (vers == 0x0304 && kind != "xor" && kind != "null") || (vers == 0x0301 && (kind == "xor" || kind == "prefix")) {
			vers = 0x0303
		}
		seq := rndSeq(r)
		cur := seq8(zv.Hex(seq))
		cc := c
		var wire []byte
		nrec := 1
		if r.Chance(25) {
			nrec = 2 + r.Intn(2)
		}
		if r.Chance(3) {
			nrec = 17 + r.Intn(2) // retry limit
		}
		for k := 0; k < nrec; k++ {
			n := rndLen(r, false)
			if nrec > 1 && k < nrec-1 && r.Chance(85) {
				n = 0 // ignorable empty record
			}
			if nrec == 1 && r.Chance(8) && kind != "stream" && kind != "cbc" {
				n = []int{16384, 16385, 16383}[r.Intn(3)]
			}
			typ := []byte{23, 23, 23, 23, 22, 21, 20, 99}[r.Intn(8)]
			if k < nrec-1 {
				typ = 23
			}
			payload := genBytes(n, r.Intn(256))
			if typ == 21 {
				payload = [][]byte{{1, 0}, {1, 90}, {2, 40}, {3, 3}, {1}, {1, 2, 3}}[r.Intn(6)]
			}
			if typ == 20 {
				payload = [][]byte{{1}, {2}, {1, 1}}[r.Intn(3)]
			}
			hdr := hdrFor(vers, typ, len(payload))
			ci, mac, st := cc.build(false)
			h := tls.ZVC25NewHalf(vers, ci, mac, cur)
			rec, err := h.Encrypt(append([]byte{}, hdr...), payload, &limReader{r.Bytes(16)})
			if err != nil {
				break
			}
			// carry the writer state over to the next record
			cur = h.Seq()
			if kind == "null" {
				for b := 7; b >= 0; b-- { // encrypt with a nil cipher does not count; the reader does
					cur[b]++
					if cur[b] != 0 {
						break
					}
				}
			}
			switch kind {
			case "stream":
				cc.ctr, _ = strconv.ParseUint(st(), 10, 64)
			case "cbc":
				cc.iv = zv.UnHex(st())
			}
			wire = append(wire, rec...)
		}
		have, hsc := 1, 1
		if r.Chance(8) {
			have = 0
		}
		if r.Chance(8) {
			hsc = 0
		}
		switch r.Intn(12) {
		case 0: // record version
			if len(wire) > 2 {
				wire[1+r.Intn(2)] ^= byte(1 << uint(r.Intn(3)))
			}
		case 1: // truncated stream
			wire = wire[:r.Intn(len(wire)+1)]
		case 2: // length field
			if len(wire) > 4 {
				wire[3+r.Intn(2)] ^= byte(1 << uint(r.Intn(8)))
			}
		case 3: // ciphertext byte
			if len(wire) > 5 {
				wire[5+r.Intn(len(wire)-5)] ^= byte(1 << uint(r.Intn(8)))
			}
		case 4: // trailing bytes after the record
			wire = append(wire, r.Bytes(1+r.Intn(8))...)
		}
		g.Emitf("c25 read %04x %d %d %s %s %s", vers, have, hsc, c, zv.Hex(seq), zv.Hex(wire))
	}
	// oversized records: header length around maxCiphertext / maxCiphertextTLS13, plaintext around maxPlaintext
	for _, vers := range []uint16{0x0301, 0x0303, 0x0304} {
		for _, n := range []int{16384 + 256 - 1, 16384 + 256, 16384 + 256 + 1, 16384 + 2048 - 1, 16384 + 2048, 16384 + 2048 + 1, 16384, 16385, 65535} {
			for _, kind := range []string{"null", "xor"} {
				c := rndCipher(r, kind)
				if kind == "xor" && vers == 0x0301 {
					continue
				}
				v := vers
				if v == 0x0304 {
					v = 0x0303
				}
				typ := 23
				if kind == "null" {
					typ = 22
				}
				g.Emitf("c25 read %04x 1 1 %s %s %02x%04x%04x+g%d.%d", vers, c, zv.Hex(rndSeq(r)), typ, v, n, n, r.Intn(256))
			}
		}
	}
	// VALID records exactly at / one above maxCiphertext (TLS 1.2) and maxCiphertextTLS13 (toy AEAD with a huge tag)
	for _, t := range []struct {
		vers   uint16
		tagLen int
		n      int
	}{{0x0303, 2048, 16384}, {0x0303, 2049, 16384}, {0x0304, 256, 16383}, {0x0304, 257, 16383}, {0x0304, 255, 16384}} {
		c := rndCipher(r, "xor")
		c.tagLen = t.tagLen
		seq := rndSeq(r)
		e := doEncrypt(t.vers, c, seq8(zv.Hex(seq)), hdrFor(t.vers, 23, t.n), genBytes(t.n, 7), nil)
		if e.err || e.panic {
			continue
		}
		g.Emitf("c25 read %04x 1 1 %s %s %s", t.vers, c, zv.Hex(seq), zv.Hex(e.rec))
	}
	// valid AEAD records whose plaintext is exactly / just above 2^14
	for i, n := 0, g.N(12, 60); i < n; i++ {
		kind := []string{"xor", "prefix", "xor"}[i%3]
		c := rndCipher(r, kind)
		vers := uint16(0x0303)
		if kind == "xor" && i%2 == 0 {
			vers = 0x0304
		}
		n := []int{16384, 16385, 16386, 16383}[r.Intn(4)]
		seq := rndSeq(r)
		e := doEncrypt(vers, c, seq8(zv.Hex(seq)), hdrFor(vers, 23, n), genBytes(n, i), r.Bytes(16))
		if e.err || e.panic {
			continue
		}
		g.Emitf("c25 read %04x 1 1 %s %s %s", vers, c, zv.Hex(seq), zv.Hex(e.rec))
	}
}
