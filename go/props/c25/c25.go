// Package c25: TLS record protection (tls/conn.go halfConn.encrypt/decrypt, extractPadding,
// maxPayloadSizeForWrite, writeRecordLocked, readRecordOrCCS; tls/cipher_suites.go nonce wrappers, tls10MAC).
//
// record.go — record-level correspondence (T2) through the verif hook with toy primitives defined
//
//	identically in lean/ZV/Model/C25.lean, plus record-level T3 oracles.
//
// real.go   — T3 with real handshakes for every (version, suite) and wire faults.
// real_seg.go — T3, unmodified wire over a scripted transport (short / zero-byte reads, data+EOF, deadline mid-record).
package c25

import (
	"os"
	"strings"
	"time"

	"zv/internal/zv"
)

func gen(g *zv.Gen) {
	// development aid only (never set by ./check): run a single stream, e.g. ZV_C25_ONLY=seg zvharness run C25 quick 1 out
	switch os.Getenv("ZV_C25_ONLY") {
	case "record":
		genRecord(g)
		return
	case "real":
		genReal(g)
		return
	case "seg":
		genSeg(g)
		return
	}
	genRecord(g)
	genReal(g)
	genSeg(g)
}

func exec(line string) zv.Out {
	f := strings.Fields(line)
	if len(f) >= 2 && f[1] == "real" {
		return execReal(line)
	}
	return execRecord(line)
}

func init() {
	zv.Register(&zv.Prop{ID: "C25", Topic: "c25", Gen: gen, Exec: exec, Timeout: 120 * time.Second, // real-handshake cases on a loaded machine
		Rule: "record level (T2 through the verif hook, toy stream/CBC/AEAD primitives + real HMAC-SHA1/SHA256): " +
			"extractPadding on every payload of length <= 2, on (length 1..300) x (last byte 0..255) x {constant fill, one mismatch inside / just outside the padding} and random payloads; " +
			"halfConn.encrypt and decrypt for null/stream/CBC(1.0 implicit IV, >=1.1 explicit IV)/prefix-nonce AEAD/xor-nonce AEAD (1.2 and 1.3) over random keys, sequence numbers, types, payload sizes incl. 0 and 2^14, " +
			"decrypt on valid, single-byte-mutated, truncated, extended, wrong-sequence, bad-padding, zero-padded (1.3) and too-short records; maxPayloadSizeForWrite over all branches; " +
			"writeRecordLocked fragmentation (sizes, wire bytes); readRecordOrCCS length/version checks; " +
			"readx: the full readRecordOrCCS (both values of expectChangeCipherSpec, pending cipher, preloaded handshake data, several calls) over a scripted transport (bytewise, 512-byte blocks, record by record, header/body cuts, one cut, straddling, random, with zero-byte reads, data+EOF) on multi-record streams with ignorable records, close_notify / fatal alerts, cuts, flips, dropped / duplicated / swapped records, the retry limit (14..18 ignorable records), cipher changes (good, bad body, no pending cipher, unexpected, handshake data pending), TLS 1.3 CCS / alert / interleaving rules, every header check, plaintext-size limits: result class incl. the alert, alert on the wire, sequence number, retryCount, read-ahead; " +
			"writex: writeRecordLocked with a pending cipher (switch, failed switch + sticky out error) and Conn.Write with the TLS 1.0 1/n-1 split on/off. A case is one distinct input line. " +
			"T3: decrypt(encrypt p) = p at the same sequence number, mutated record => error or identical plaintext, extractPadding = naive reference, fragments concatenate to the input and are <= 2^14; readx: same result with the canonical segmentation of the same bytes, error alert = alert on the wire, error stored; writex: a reader following the cipher change decrypts every write to the written bytes, first record of a split Write carries one byte; " +
			"real.go (T3 only): real handshakes for every negotiating (version, suite) pair (coverage of a required minimum set is itself checked); bidirectional transfers with random write-size profiles, read buffers and transport segmentation (delivered = written, per-record plaintext <= 2^14, ciphertext within the suite's expansion bound); single and multiple wire faults on protected records (flip, drop, dup, swap, trunc, replay, cut, garbage, zero, setlen, ccs, CBC block substitution): delivered bytes are a prefix of the written ones followed by a sticky error; " +
			"real_seg.go (T3 only): UNMODIFIED wire handed to the reader by a scripted transport that uses what io.Reader / net.Conn allow: one cut at every kind of position of the last record / last data record (header bytes 1..4, after the header, inside the body, last byte; thorough: every offset), every record split the same way, byte-by-byte, record-by-record, random sizes, everything in one read, the last bytes together with io.EOF or a separate EOF, close_notify in the same segment as the last data or no close_notify at all, zero-byte reads, a read deadline firing with or without data at any cut (the reader clears it and reads on): delivered = written, then a sticky io.EOF, no stale timeout, one Read per record, no transport read at a record boundary while received plaintext is undelivered; the live xfer transport also reports its end together with the last bytes"})
}
