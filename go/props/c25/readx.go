package c25

// readx / writex: the FULL readRecordOrCCS (both values of expectChangeCipherSpec, the alert sent for every
// error, the sticky error, the read-side cipher change, the retry limit) over a scripted, segmenting transport,
// and writeRecordLocked's ChangeCipherSpec epilogue with a pending cipher plus Conn.Write's 1/n-1 split.
// Both run the REAL code through tls/zv_c25_verif.go over the toy primitives of record.go (T2), with T3 oracles:
// the result of reading is the same for the canonical segmentation of the same bytes; an alert announced by the
// error is the alert on the wire; what Write wrote decrypts, across the cipher change, to what was written.

import (
	"bytes"
	"errors"
	"fmt"
	"io"
	"net"
	"strconv"
	"strings"
	"time"

	"github.com/zmap/zcrypto/tls"

	"zv/internal/zv"
)

// scriptConn returns exactly the scripted chunks from Read (a chunk larger than the caller's buffer is
// continued by the next Read), then io.EOF — together with the last chunk when eofLast is set.
type scriptConn struct {
	chunks  [][]byte
	eofLast bool
	out     []byte
	reads   int
}

func (c *scriptConn) Read(p []byte) (int, error) {
	c.reads++
	if len(c.chunks) == 0 {
		return 0, io.EOF
	}
	n := copy(p, c.chunks[0])
	if n < len(c.chunks[0]) {
		c.chunks[0] = c.chunks[0][n:]
		return n, nil
	}
	c.chunks = c.chunks[1:]
	if len(c.chunks) == 0 && c.eofLast {
		return n, io.EOF
	}
	return n, nil
}
func (c *scriptConn) Write(p []byte) (int, error)      { c.out = append(c.out, p...); return len(p), nil }
func (c *scriptConn) Close() error                     { return nil }
func (c *scriptConn) LocalAddr() net.Addr              { return nil }
func (c *scriptConn) RemoteAddr() net.Addr             { return nil }
func (c *scriptConn) SetDeadline(time.Time) error      { return nil }
func (c *scriptConn) SetReadDeadline(time.Time) error  { return nil }
func (c *scriptConn) SetWriteDeadline(time.Time) error { return nil }

func rxErrClass(err error) string {
	var op *net.OpError
	var rh tls.RecordHeaderError
	switch {
	case err == io.EOF:
		return "eof"
	case err == io.ErrUnexpectedEOF:
		return "ueof"
	case errors.As(err, &op):
		a, _ := op.Err.(tls.Alert)
		if op.Op == "local error" {
			return fmt.Sprintf("local.%d", a)
		}
		return fmt.Sprintf("remote.%d", a)
	case errors.As(err, &rh):
		return "hdr"
	case strings.Contains(err.Error(), "too many ignored records"):
		return "ignored"
	case strings.Contains(err.Error(), "pending application data"):
		return "pending"
	}
	return "other(" + err.Error() + ")"
}

// alerts written to the transport: (level, description) pairs of plaintext alert records
func wireAlerts(out []byte) (res [][2]byte, ok bool) {
	for len(out) > 0 {
		if len(out) < 7 || out[0] != 21 || out[3] != 0 || out[4] != 2 {
			return res, false
		}
		res = append(res, [2]byte{out[5], out[6]})
		out = out[7:]
	}
	return res, true
}

type readxRes struct {
	toks  []string
	tail  string
	viol  string
	reads int
}

func runReadx(vers uint16, have, hsc bool, c ciph, seq [8]byte, nextS string, hand []byte, eofLast bool, calls string, chunks [][]byte) (r readxRes) {
	ci, mac, _ := c.build(true)
	in := tls.ZVC25NewHalf(vers, ci, mac, seq)
	if nextS != "-" {
		nci, nmac, _ := parseCipher(nextS).build(true)
		in.SetNext(nci, nmac)
	}
	out := tls.ZVC25NewHalf(vers, nil, nil, [8]byte{})
	cs := make([][]byte, len(chunks))
	for i := range chunks {
		cs[i] = append([]byte{}, chunks[i]...)
	}
	tr := &scriptConn{chunks: cs, eofLast: eofLast}
	z := tls.ZVC25NewConnOn(tr, vers, have, hsc, false, false, false, nil, in, out, 0, 0)
	if len(hand) > 0 {
		z.PreloadHand(hand)
	}
	panicked := false
	for _, ch := range calls {
		if ch != 'p' {
			z.DrainInput()
		}
		handBefore := len(z.Hand())
		var err error
		func() {
			defer func() {
				if e := recover(); e != nil {
					panicked = true
				}
			}()
			err = z.ReadRecordOrCCS(ch == '1')
		}()
		if panicked {
			return readxRes{toks: []string{"panic"}}
		}
		switch {
		case err != nil:
			cl := rxErrClass(err)
			if cl == "hdr" {
				al, _ := wireAlerts(tr.out)
				if len(al) > 0 {
					cl += fmt.Sprintf(".%d", al[len(al)-1][1])
				} else {
					cl += ".-"
				}
			}
			r.toks = append(r.toks, "err:"+cl)
			if z.InErr() == nil {
				r.viol = "the error returned by readRecordOrCCS is not stored in c.in.err"
			}
			if strings.HasPrefix(cl, "local.") {
				al, ok := wireAlerts(tr.out)
				if !ok || len(al) != 1 || fmt.Sprintf("local.%d", al[0][1]) != cl || al[0][0] != 2 {
					r.viol = fmt.Sprintf("error %s but the alerts on the wire are %v", cl, al)
				}
			}
		case len(z.Input()) > 0:
			d := z.Input()
			r.toks = append(r.toks, "data:"+zv.Hex(d))
			if len(d) > 16384 {
				r.viol = "a record delivered more than 2^14 plaintext bytes"
			}
		case len(z.Hand()) > handBefore:
			r.toks = append(r.toks, "hand:"+zv.Hex(z.Hand()))
		default:
			r.toks = append(r.toks, "ccs")
		}
	}
	al, ok := wireAlerts(tr.out)
	as := "-"
	if !ok {
		as = "garbled"
	} else if len(al) > 1 {
		as = "many"
		r.viol = "more than one alert was sent"
	} else if len(al) == 1 {
		as = strconv.Itoa(int(al[0][1]))
	}
	is := z.InSeq()
	r.tail = fmt.Sprintf(" seq=%s rc=%d raw=%d alert=%s", zv.Hex(is[:]), z.RetryCount(), z.RawInputLen(), as)
	r.reads = tr.reads
	return r
}

func blocks512(b []byte) (cs [][]byte) {
	for len(b) > 512 {
		cs = append(cs, b[:512])
		b = b[512:]
	}
	return append(cs, b)
}

func execReadx(f []string) zv.Out {
	vers, have, hsc := parseVers(f[2]), f[3] == "1", f[4] == "1"
	c, seq := parseCipher(f[5]), seq8(f[6])
	nextS, hand, eofLast, calls := f[7], parseBytes(f[8]), f[9] == "1", f[10]
	var chunks [][]byte
	var all []byte
	for _, p := range strings.Split(f[11], ",") {
		b := parseBytes(p)
		chunks = append(chunks, b)
		all = append(all, b...)
	}
	r := runReadx(vers, have, hsc, c, seq, nextS, hand, eofLast, calls, chunks)
	o := zv.Out{Tags: []string{"readx", "readx-" + c.kind + "-" + f[2]}}
	if len(f) > 12 {
		cc := strings.SplitN(f[12], "/", 2)
		o.Tags = append(o.Tags, "readx-case="+cc[0])
		if len(cc) > 1 {
			o.Tags = append(o.Tags, "readx-chunking="+cc[1])
		}
	}
	if r.toks[0] == "panic" && len(r.toks) == 1 {
		o.Go = "panic"
		if f[6] != allFF {
			o.Viol = "readRecordOrCCS panicked"
		}
		return o
	}
	for _, t := range r.toks {
		k := strings.SplitN(t, ":", 2)
		if k[0] == "err" && strings.HasPrefix(k[1], "remote.") {
			o.Tags = append(o.Tags, "readx-err:remote")
		} else if k[0] == "err" {
			o.Tags = append(o.Tags, "readx-"+t)
		} else {
			o.Tags = append(o.Tags, "readx-"+k[0])
		}
	}
	if strings.Contains(calls, "1") {
		o.Tags = append(o.Tags, "readx-expectCCS")
	}
	o.Tags = append(o.Tags, fmt.Sprintf("readx-chunks<=%d", 1<<uint(bitlen(len(chunks)))))
	o.Go = strings.Join(r.toks, " ") + r.tail
	o.Viol = r.viol
	// T3 (central statement on the real code): the same bytes in the canonical segmentation give the same results
	r2 := runReadx(vers, have, hsc, c, seq, nextS, hand, !eofLast, calls, blocks512(all))
	if o.Viol == "" && strings.Join(r.toks, " ") != strings.Join(r2.toks, " ") {
		o.Viol = fmt.Sprintf("results depend on the transport segmentation: %v with the scripted chunks, %v with 512-byte blocks", r.toks, r2.toks)
	}
	return o
}

func bitlen(n int) int {
	k := 0
	for (1 << uint(k)) < n {
		k++
	}
	return k
}

/* ---------- writex ---------- */

func execWritex(f []string) zv.Out {
	vers, c, seq := parseVers(f[2]), parseCipher(f[3]), seq8(f[4])
	nextS, beast, dyn := f[5], f[6] == "1", f[7] == "1"
	ops, rnd := strings.Split(f[8], ","), parseBytes(f[9])
	ci, mac, _ := c.build(false)
	out := tls.ZVC25NewHalf(vers, ci, mac, seq)
	if nextS != "-" {
		nci, nmac, _ := parseCipher(nextS).build(false)
		out.SetNext(nci, nmac)
	}
	tr := &scriptConn{}
	z := tls.ZVC25NewConnOn(tr, vers, true, true, dyn, beast, false, &limReader{rnd}, nil, out, 0, 0)
	o := zv.Out{Tags: []string{"writex", "writex-" + c.kind + "-" + f[2]}}
	var toks []string
	type opRec struct {
		kind string
		data []byte
		recs [][]byte
	}
	var done []opRec
	stop := false
	for _, op := range ops {
		if stop {
			break
		}
		kd := strings.SplitN(op, ":", 2)
		data := parseBytes(kd[1])
		before := len(tr.out)
		var n int
		var err error
		panicked := false
		func() {
			defer func() {
				if e := recover(); e != nil {
					panicked = true
				}
			}()
			if kd[0] == "w" {
				n, err = z.Write(data)
			} else {
				n, err = z.WriteRecord(byte(atoi(kd[0][1:])), data)
			}
		}()
		if panicked {
			toks = append(toks, "panic")
			if f[4] != allFF {
				o.Viol = "write path panicked"
			}
			stop = true
			break
		}
		var lens []string
		var recs [][]byte
		w := tr.out[before:]
		for len(w) >= 5 && len(w) >= 5+(int(w[3])<<8|int(w[4])) {
			l := int(w[3])<<8 | int(w[4])
			lens = append(lens, strconv.Itoa(l))
			recs = append(recs, w[:5+l])
			w = w[5+l:]
		}
		if len(w) != 0 {
			o.Viol = "wire does not parse into records"
		}
		ls := "-"
		if len(lens) > 0 {
			ls = strings.Join(lens, ",")
		}
		var op1 *net.OpError
		switch {
		case err == nil:
			toks = append(toks, fmt.Sprintf("ok:%d:%s", n, ls))
			done = append(done, opRec{kd[0], data, recs})
			o.Tags = append(o.Tags, "writex-ok-"+kd[0][:1])
			if kd[0] == "w" && len(recs) > 1 && len(data) <= 1024 {
				o.Tags = append(o.Tags, "writex-split")
			}
		case kd[0] != "w" && errors.As(err, &op1) && op1.Op == "local error":
			toks = append(toks, fmt.Sprintf("ccserr:%d:%s", n, ls))
			done = append(done, opRec{"skip", nil, recs})
			o.Tags = append(o.Tags, "writex-ccserr")
			if a, _ := op1.Err.(tls.Alert); a != 80 {
				o.Viol = "a failed cipher change must report internal_error"
			}
		case kd[0] == "w" && n == 0 && len(recs) == 0 && errors.As(err, &op1) && op1.Op == "local error":
			toks = append(toks, "err:0")
			o.Tags = append(o.Tags, "writex-sticky-out-err")
		default:
			toks = append(toks, "err")
			o.Tags = append(o.Tags, "writex-err")
			stop = true
		}
	}
	wire := tr.out
	var ck uint32
	for _, b := range wire {
		ck = ck*31 + uint32(b)
	}
	wh := "*"
	if len(wire) <= 1024 {
		wh = zv.Hex(wire)
	}
	os := z.OutSeq()
	nx := 1
	if z.OutNextNil() {
		nx = 0
	}
	bs, ps := z.Counters()
	o.Go = strings.Join(toks, " ") + fmt.Sprintf(" wire=%d %d %s seq=%s next=%d sent=%d pkts=%d", len(wire), ck, wh, zv.Hex(os[:]), nx, bs, ps)
	if o.Viol != "" || stop {
		return o
	}
	// T3: a reader that follows the cipher change gets, per successful op, exactly the op's bytes in fragments
	// of 1..2^14 bytes; Write under TLS 1.0 + block cipher (mitigation on) starts with a 1-byte record.
	rci, rmac, _ := c.build(true)
	rd := tls.ZVC25NewHalf(vers, rci, rmac, seq)
	if c.kind == "null" {
		rd = tls.ZVC25NewHalf(vers, nil, nil, seq)
	}
	switched := false
	for _, d := range done {
		var got []byte
		for i, rec := range d.recs {
			pt, t, err := rd.Decrypt(append([]byte{}, rec...))
			if d.kind == "skip" {
				continue
			}
			wantT := byte(23)
			if d.kind != "w" {
				wantT = byte(atoi(d.kind[1:]))
			}
			if err != nil || t != wantT {
				o.Viol = "a written record does not decrypt at the reader"
				return o
			}
			if len(pt) == 0 || len(pt) > 16384 {
				o.Viol = fmt.Sprintf("fragment of %d bytes", len(pt))
			}
			if i == 0 && d.kind == "w" && vers == 0x0301 && c.kind == "cbc" && !beast && len(d.data) > 1 && len(pt) != 1 {
				o.Viol = fmt.Sprintf("TLS 1.0 CBC Write did not split off one byte (first record carries %d)", len(pt))
			}
			got = append(got, pt...)
		}
		if d.kind == "r20" && vers != 0x0304 && nextS != "-" && !switched {
			switched = true
			c = parseCipher(nextS)
			nci, nmac, _ := c.build(true)
			rd = tls.ZVC25NewHalf(vers, nci, nmac, [8]byte{})
		}
		if d.kind != "skip" && !bytes.Equal(got, d.data) {
			o.Viol = "the records of one write do not decrypt to the written bytes"
		}
	}
	return o
}

/* ---------- generators ---------- */

// wbuild produces the wire a peer would send: records through the REAL encrypt, writer state carried along.
type wbuild struct {
	vers uint16
	c    ciph
	seq  [8]byte
	r    *zv.Rng
	wire []byte
	ends []int // offsets of record ends
}

func (w *wbuild) add(typ byte, payload []byte) bool {
	ci, mac, st := w.c.build(false)
	h := tls.ZVC25NewHalf(w.vers, ci, mac, w.seq)
	rec, err := h.Encrypt(append([]byte{}, hdrFor(w.vers, typ, len(payload))...), payload, &limReader{w.r.Bytes(16)})
	if err != nil {
		return false
	}
	w.seq = h.Seq()
	switch w.c.kind {
	case "null":
		for b := 7; b >= 0; b-- { // encrypt with a nil cipher does not count; the reader does
			w.seq[b]++
			if w.seq[b] != 0 {
				break
			}
		}
	case "stream":
		w.c.ctr, _ = strconv.ParseUint(st(), 10, 64)
	case "cbc":
		w.c.iv = zv.UnHex(st())
	}
	w.wire = append(w.wire, rec...)
	w.ends = append(w.ends, len(w.wire))
	return true
}
func (w *wbuild) raw(b ...byte) {
	w.wire = append(w.wire, b...)
	w.ends = append(w.ends, len(w.wire))
}
func (w *wbuild) switchTo(c ciph) { w.c, w.seq = c, [8]byte{} }

// chunkings: every chunk at most 512 bytes (the smallest buffer bytes.Buffer.ReadFrom offers), so that the
// transport returns exactly the scripted chunks.
func chunkize(r *zv.Rng, wire []byte, ends []int) ([][]byte, string) {
	var cs [][]byte
	cut := func(b []byte, sizes func() int) {
		for len(b) > 0 {
			n := sizes()
			if n > len(b) {
				n = len(b)
			}
			if n > 512 {
				n = 512
			}
			cs = append(cs, b[:n])
			b = b[n:]
		}
	}
	mode := r.Intn(8)
	name := ""
	switch {
	case mode == 0 && len(wire) <= 400:
		cut(wire, func() int { return 1 })
		name = "bytewise"
	case mode == 1:
		cut(wire, func() int { return 512 })
		name = "blocks"
	case mode == 2: // record by record
		prev := 0
		for _, e := range ends {
			cut(wire[prev:e], func() int { return 512 })
			prev = e
		}
		cut(wire[prev:], func() int { return 512 })
		name = "records"
	case mode == 3: // header / body separately
		prev := 0
		for _, e := range ends {
			k := 1 + r.Intn(5)
			if prev+k > e {
				k = e - prev
			}
			cut(wire[prev:prev+k], func() int { return 512 })
			cut(wire[prev+k:e], func() int { return 512 })
			prev = e
		}
		cut(wire[prev:], func() int { return 512 })
		name = "header-cut"
	case mode == 4: // one cut
		k := 0
		if len(wire) > 0 {
			k = r.Intn(len(wire) + 1)
		}
		cut(wire[:k], func() int { return 512 })
		cut(wire[k:], func() int { return 512 })
		name = "one-cut"
	case mode == 5: // straddling record boundaries: tail of one record with the head of the next
		off := 3
		cut(wire, func() int { off += 2; return 7 + off%11 })
		name = "straddle"
	default:
		cut(wire, func() int {
			if r.Chance(30) {
				return 1 + r.Intn(6)
			}
			return 1 + r.Intn(300)
		})
		name = "random"
	}
	if r.Chance(25) { // zero-byte reads
		var cs2 [][]byte
		for _, c := range cs {
			if r.Chance(30) {
				cs2 = append(cs2, nil)
			}
			cs2 = append(cs2, c)
		}
		if r.Chance(50) {
			cs2 = append(cs2, nil)
		}
		cs = cs2
		name += "+empty"
	}
	if len(cs) == 0 {
		cs = [][]byte{nil}
	}
	return cs, name
}

func chunkSpec(cs [][]byte) string {
	var ss []string
	for _, c := range cs {
		ss = append(ss, zv.Hex(c))
	}
	return strings.Join(ss, ",")
}

func kindFor(r *zv.Rng, vers uint16) string {
	switch vers {
	case 0x0304:
		return "xor"
	case 0x0303:
		return []string{"stream", "cbc", "prefix", "xor"}[r.Intn(4)]
	}
	return []string{"stream", "cbc"}[r.Intn(2)]
}

func genReadx(g *zv.Gen) {
	r := g.Rng
	emit := func(vers uint16, have, hsc int, c ciph, seq []byte, next string, hand []byte, calls string, w *wbuild, what string) {
		cs, cn := chunkize(r, w.wire, w.ends)
		g.Emitf("c25 readx %04x %d %d %s %s %s %s %d %s %s %s/%s", vers, have, hsc, c, zv.Hex(seq), next, zv.Hex(hand), r.Intn(2), calls, chunkSpec(cs), what, cn)
	}
	smallPayload := func() []byte { return r.Bytes(1 + r.Intn(40)) }
	/* application data streams: several records, some empty, warning alerts in between, close_notify or a plain end */
	for i, n := 0, g.N(700, 9000); i < n; i++ {
		vers := []uint16{0x0301, 0x0302, 0x0303, 0x0303, 0x0304, 0x0304}[r.Intn(6)]
		kind := kindFor(r, vers)
		c := rndCipher(r, kind)
		seq := rndSeq(r)
		w := &wbuild{vers: vers, c: c, seq: seq8(zv.Hex(seq)), r: r}
		nrec := 1 + r.Intn(5)
		calls := ""
		what := "stream"
		for k := 0; k < nrec; k++ {
			switch x := r.Intn(20); {
			case x < 11:
				p := smallPayload()
				if r.Chance(10) {
					p = genBytes(200+r.Intn(1200), r.Intn(256))
				}
				w.add(23, p)
				calls += "0"
			case x < 14: // empty application data: ignored
				w.add(23, nil)
			case x < 16 && vers != 0x0304: // warning alert: ignored
				w.add(21, []byte{1, byte(1 + r.Intn(120))})
			case x < 17 && vers == 0x0304: // unprotected CCS: ignored
				w.raw(20, 3, 3, 0, 1, 1)
			case x < 18:
				w.add(22, smallPayload())
				calls += "0"
			default:
				w.add(23, smallPayload())
				calls += "0"
			}
		}
		switch r.Intn(10) {
		case 0, 1, 2:
			w.add(21, []byte{1, 0})
			what += "+close_notify"
		case 3:
			w.add(21, []byte{2, byte(1 + r.Intn(120))})
			what += "+fatal"
		case 4: // the transport ends inside a record
			if len(w.wire) > 0 {
				k := r.Intn(len(w.wire))
				w.wire = w.wire[:k]
				var e2 []int
				for _, e := range w.ends {
					if e <= k {
						e2 = append(e2, e)
					}
				}
				w.ends = e2
				what += "+cut"
			}
		case 5: // a modified byte
			if len(w.wire) > 0 {
				w.wire[r.Intn(len(w.wire))] ^= byte(1 << uint(r.Intn(8)))
				what += "+flip"
			}
		case 6: // a record dropped / duplicated / swapped
			if len(w.ends) >= 2 {
				a := w.ends[0]
				b := w.ends[1]
				first, second := append([]byte{}, w.wire[:a]...), append([]byte{}, w.wire[a:b]...)
				rest := append([]byte{}, w.wire[b:]...)
				switch r.Intn(3) {
				case 0:
					w.wire = append(second, rest...)
					what += "+drop"
				case 1:
					w.wire = append(append(append(first, first...), second...), rest...)
					what += "+dup"
				case 2:
					w.wire = append(append(second, first...), rest...)
					what += "+swap"
				}
				w.ends = nil
				off := 0
				for off+5 <= len(w.wire) {
					l := int(w.wire[off+3])<<8 | int(w.wire[off+4])
					if off+5+l > len(w.wire) {
						break
					}
					off += 5 + l
					w.ends = append(w.ends, off)
				}
			}
		}
		calls += "00"
		if r.Chance(5) {
			calls = strings.Replace(calls, "00", "0p", 1) // a call with undelivered application data
		}
		emit(vers, 1, 1, c, seq, "-", nil, calls, w, what)
	}
	/* the retry limit: 15..18 ignorable records, then data */
	for i, n := 0, g.N(40, 400); i < n; i++ {
		vers := []uint16{0x0301, 0x0303, 0x0304}[r.Intn(3)]
		c := rndCipher(r, kindFor(r, vers))
		seq := rndSeq(r)
		w := &wbuild{vers: vers, c: c, seq: seq8(zv.Hex(seq)), r: r}
		k := 14 + r.Intn(5)
		calls := "00"
		if r.Chance(30) { // a data record in the middle resets the count
			k = 20 + r.Intn(14)
		}
		for j := 0; j < k; j++ {
			if k >= 20 && j == k/2 {
				w.add(23, smallPayload())
				calls += "0"
			}
			switch x := r.Intn(3); {
			case x == 0 && vers == 0x0304:
				w.raw(20, 3, 3, 0, 1, 1)
			case x == 1 && vers != 0x0304:
				w.add(21, []byte{1, 90})
			default:
				w.add(23, nil)
			}
		}
		w.add(23, smallPayload())
		emit(vers, 1, 1, c, seq, "-", nil, calls, w, "retry-limit")
	}
	/* handshake phase: the cipher change */
	for i, n := 0, g.N(500, 6000); i < n; i++ {
		vers := []uint16{0x0301, 0x0302, 0x0303, 0x0303}[r.Intn(4)]
		var c ciph
		if r.Chance(75) {
			c = ciph{kind: "null"}
		} else {
			c = rndCipher(r, kindFor(r, vers)) // renegotiation: CCS under a cipher
		}
		nc := rndCipher(r, kindFor(r, vers))
		seq := rndSeq(r)
		w := &wbuild{vers: vers, c: c, seq: seq8(zv.Hex(seq)), r: r}
		next := nc.String()
		hsc := r.Intn(2)
		var hand []byte
		calls, what := "", "ccs"
		if r.Chance(60) {
			w.add(22, smallPayload())
			calls += "0"
		}
		ccsBody := []byte{1}
		mode := r.Intn(16)
		switch mode {
		case 0:
			ccsBody, what = [][]byte{{2}, {1, 1}, {}, {0}}[r.Intn(4)], "ccs-bad-body"
		case 1:
			next, what = "-", "ccs-no-next"
		case 2:
			hand, what = r.Bytes(1+r.Intn(5)), "ccs-hand-pending"
		}
		w.add(20, ccsBody)
		switch mode {
		case 3:
			calls, what = calls+"0", "ccs-unexpected"
		case 4: // expecting the CCS but something else comes
			w.wire, w.ends, w.seq, w.c = nil, nil, seq8(zv.Hex(seq)), c
			w.add([]byte{22, 23, 21, 21, 99}[r.Intn(5)], [][]byte{{1, 2}, {1, 50}, {2, 50}}[r.Intn(3)])
			calls, what = "1", "other-when-ccs-expected"
		default:
			calls += "1"
		}
		if mode > 4 || mode == 1 {
			w.switchTo(nc)
			for k, m := 0, 1+r.Intn(3); k < m; k++ {
				t := byte(22)
				if hsc == 1 && r.Chance(50) {
					t = 23
				}
				w.add(t, smallPayload())
				calls += "0"
			}
		}
		calls += "0"
		emit(vers, 1, hsc, c, seq, next, hand, calls, w, what)
	}
	/* TLS 1.3: CCS ignored also when expected, handshake data pending, alerts always fatal */
	for i, n := 0, g.N(200, 2500); i < n; i++ {
		c := rndCipher(r, "xor")
		if r.Chance(20) {
			c = ciph{kind: "null"}
		}
		seq := rndSeq(r)
		w := &wbuild{vers: 0x0304, c: c, seq: seq8(zv.Hex(seq)), r: r}
		var hand []byte
		calls, what := "", "13"
		switch r.Intn(7) {
		case 0:
			w.raw(20, 3, 3, 0, 1, 1)
			w.add(22, smallPayload())
			calls, what = "10", "13-ccs-ignored-when-expected"
		case 1:
			w.raw(20, 3, 3, 0, 1, byte(r.Intn(3)))
			w.add(22, smallPayload())
			calls, what = "00", "13-ccs-body"
		case 2:
			hand = r.Bytes(1 + r.Intn(4))
			w.add([]byte{23, 22, 21}[r.Intn(3)], smallPayload())
			calls, what = "00", "13-hand-pending"
		case 3:
			hand = r.Bytes(1 + r.Intn(4))
			w.raw(20, 3, 3, 0, 1, 1)
			calls, what = "00", "13-ccs-hand-pending"
		case 4:
			w.add(21, [][]byte{{1, 90}, {2, 40}, {1, 0}, {7, 7}}[r.Intn(4)])
			w.add(23, smallPayload())
			calls, what = "00", "13-alert"
		case 5:
			w.add(22, smallPayload())
			w.add(23, smallPayload())
			calls, what = "100", "13-expect-ccs-handshake"
		case 6:
			w.add(23, smallPayload())
			w.raw(20, 3, 3, 0, 2, 1, 1)
			w.add(23, smallPayload())
			calls, what = "000", "13-ccs-long"
		}
		if c.kind == "null" && r.Chance(50) {
			w.wire, w.ends = nil, nil
			w.add(23, smallPayload())
			calls, what = "00", "13-null-appdata"
		}
		emit(0x0304, 1, r.Intn(4)/3^1, c, seq, "-", hand, calls, w, what)
	}
	/* header checks and decrypt alerts */
	for i, n := 0, g.N(400, 5000); i < n; i++ {
		vers := []uint16{0x0301, 0x0302, 0x0303, 0x0304}[r.Intn(4)]
		c := rndCipher(r, kindFor(r, vers))
		if r.Chance(30) {
			c = ciph{kind: "null"}
		}
		seq := rndSeq(r)
		w := &wbuild{vers: vers, c: c, seq: seq8(zv.Hex(seq)), r: r}
		have, hsc := 1, 1
		what := ""
		typ := byte(23)
		if c.kind == "null" {
			typ = 22
		}
		w.add(typ, smallPayload())
		switch r.Intn(12) {
		case 0:
			w.wire[0], hsc, what = 0x80, 0, "sslv2"
		case 1:
			w.wire[0], what = 0x80, "type-0x80-after-handshake"
		case 2:
			w.wire[1+r.Intn(2)] ^= byte(1 << uint(r.Intn(8)))
			what = "record-version"
		case 3:
			have, what = 0, "first-record"
			if r.Chance(50) {
				w.wire[0] = []byte{21, 22, 23, 20}[r.Intn(4)]
			}
			if r.Chance(30) {
				w.wire[1] = byte(r.Intn(256))
			}
		case 4:
			l := []int{16384 + 256, 16384 + 257, 16384 + 2048, 16384 + 2049, 65535}[r.Intn(5)]
			w.wire[3], w.wire[4] = byte(l>>8), byte(l)
			what = "oversized-length"
		case 5:
			w.wire[0] = []byte{20, 21, 22, 24, 0}[r.Intn(5)]
			what = "outer-type"
		case 6:
			if len(w.wire) > 5 {
				w.wire[5+r.Intn(len(w.wire)-5)] ^= byte(1 << uint(r.Intn(8)))
			}
			what = "body-flip"
		case 7:
			w.wire, w.ends, w.seq = nil, nil, seq8(zv.Hex(seq))
			w.add(21, [][]byte{{1}, {1, 2, 3}, {}, {3, 3}, {0, 9}, {2, 0}}[r.Intn(6)])
			what = "alert-shape"
		case 8:
			w.wire, w.ends, w.seq = nil, nil, seq8(zv.Hex(seq))
			w.add([]byte{24, 0, 19, 255}[r.Intn(4)], smallPayload())
			what = "unknown-type"
		case 9:
			w.wire, w.ends, w.seq = nil, nil, seq8(zv.Hex(seq))
			w.add(22, nil)
			what = "empty-handshake"
		case 10:
			hsc, what = 0, "appdata-before-handshake-complete"
		case 11:
			w.wire, w.ends = nil, nil
			what = "empty-transport"
		}
		emit(vers, have, hsc, c, seq, "-", nil, "00", w, what)
	}
	/* plaintext-size limits through the full read path */
	for i, n := 0, g.N(10, 60); i < n; i++ {
		vers := []uint16{0x0303, 0x0304}[i%2]
		c := rndCipher(r, "xor")
		c.tagLen = 16
		seq := rndSeq(r)
		w := &wbuild{vers: vers, c: c, seq: seq8(zv.Hex(seq)), r: r}
		n := []int{16384, 16385, 16386, 16387}[r.Intn(4)]
		w.add(23, genBytes(n, i))
		emit(vers, 1, 1, c, seq, "-", nil, "00", w, "plaintext-limit")
	}
}

func genWritex(g *zv.Gen) {
	r := g.Rng
	for i, n := 0, g.N(400, 5000); i < n; i++ {
		vers := []uint16{0x0301, 0x0301, 0x0302, 0x0303, 0x0304}[r.Intn(5)]
		var c ciph
		if r.Chance(35) {
			c = ciph{kind: "null"}
		} else {
			c = rndCipher(r, kindFor(r, vers))
		}
		if vers == 0x0301 && r.Chance(50) {
			c = rndCipher(r, "cbc")
		}
		next := "-"
		if r.Chance(70) {
			v := vers
			if v == 0x0304 {
				v = 0x0303
			}
			next = rndCipher(r, kindFor(r, v)).String()
			if vers == 0x0301 && r.Chance(50) {
				next = rndCipher(r, "cbc").String()
			}
		}
		data := func() string {
			switch r.Intn(8) {
			case 0:
				return "-"
			case 1:
				return zv.Hex(r.Bytes(1))
			case 2:
				return zv.Hex(r.Bytes(2))
			case 3:
				return fmt.Sprintf("g%d.%d", 1000+r.Intn(4000), r.Intn(256))
			case 4:
				if c.kind == "stream" || c.kind == "cbc" {
					return fmt.Sprintf("g%d.%d", 3000, r.Intn(256))
				}
				return fmt.Sprintf("g%d.%d", 16384+r.Intn(3)-1+16384*r.Intn(2), r.Intn(256))
			}
			return zv.Hex(r.Bytes(1 + r.Intn(60)))
		}
		var ops []string
		for k, m := 0, r.Intn(3); k < m; k++ {
			if c.kind == "null" {
				ops = append(ops, "r22:"+data())
			} else {
				ops = append(ops, "w:"+data())
			}
		}
		if r.Chance(75) {
			body := "01"
			if r.Chance(5) {
				body = "-"
			}
			ops = append(ops, "r20:"+body)
		}
		for k, m := 0, 1+r.Intn(3); k < m; k++ {
			ops = append(ops, []string{"w:", "w:", "w:", "r23:", "r22:", "r21:"}[r.Intn(6)]+data())
		}
		g.Emitf("c25 writex %04x %s %s %s %d %d %s %s", vers, c, zv.Hex(rndSeq(r)), next, r.Intn(4)/3, r.Intn(5)/4, strings.Join(ops, ","), zv.Hex(r.Bytes(16*40)))
	}
}
