package c25

// C25 / T3 with real cipher suites, part 1: which (version, suite) pairs negotiate in this tree, and an
// INDEPENDENT description of each suite's record protection (derived from the IANA suite name only, never from
// zcrypto's suite table), used by the wire-length oracle.

import (
	"fmt"
	"runtime"
	"sort"
	"strings"
	"sync"
	"time"

	"github.com/zmap/zcrypto/tls"

	"zv/internal/tlsrig"
)

// prot describes how a suite protects a record (RFC 5246 §6.2.3, RFC 7905, RFC 8446 §5.2).
type prot struct {
	kind     string // "stream", "cbc", "aead", "tls13"
	mac      int    // MAC length (stream, cbc)
	block    int    // cipher block length (cbc)
	explicit int    // explicit nonce bytes on the wire (aead, TLS 1.2)
	tag      int    // AEAD tag length
	cipher   string // rc4, 3des, aes128, aes256, chacha20, … (tag only)
	kx       string // rsa, ecdhe_rsa, ecdhe_ecdsa, dhe_rsa, … (tag only)
}

// protFor derives the record protection from the standard suite name. ok=false: this oracle does not know the
// construction (a negotiating suite of unknown construction is reported as lost coverage, not skipped silently).
func protFor(vers uint16, name string) (p prot, ok bool) {
	if vers == tls.VersionTLS13 {
		if strings.Contains(name, "_WITH_") {
			return p, false
		}
		p = prot{kind: "tls13", tag: 16, kx: "tls13"}
		switch {
		case strings.Contains(name, "AES_128_GCM"):
			p.cipher = "aes128gcm"
		case strings.Contains(name, "AES_256_GCM"):
			p.cipher = "aes256gcm"
		case strings.Contains(name, "CHACHA20_POLY1305"):
			p.cipher = "chacha20"
		default:
			return p, false
		}
		return p, true
	}
	i := strings.Index(name, "_WITH_")
	if !strings.HasPrefix(name, "TLS_") || i < 0 {
		return p, false
	}
	p.kx = strings.ToLower(name[4:i])
	rest := strings.TrimSuffix(name[i+6:], "_OLD")
	macOf := func(s string) (int, bool) {
		switch {
		case strings.HasSuffix(s, "_SHA256"):
			return 32, true
		case strings.HasSuffix(s, "_SHA384"):
			return 48, true
		case strings.HasSuffix(s, "_SHA"):
			return 20, true
		case strings.HasSuffix(s, "_MD5"):
			return 16, true
		}
		return 0, false
	}
	switch {
	case strings.Contains(rest, "CHACHA20_POLY1305"):
		p.kind, p.tag, p.explicit, p.cipher = "aead", 16, 0, "chacha20"
		return p, true
	case strings.Contains(rest, "_GCM_"):
		p.kind, p.tag, p.explicit = "aead", 16, 8
		p.cipher = strings.ToLower(strings.ReplaceAll(rest[:strings.Index(rest, "_GCM_")], "_", "")) + "gcm"
		return p, true
	case strings.Contains(rest, "_CCM_8"):
		p.kind, p.tag, p.explicit, p.cipher = "aead", 8, 8, "aesccm8"
		return p, true
	case strings.HasSuffix(rest, "_CCM"):
		p.kind, p.tag, p.explicit, p.cipher = "aead", 16, 8, "aesccm"
		return p, true
	case strings.HasPrefix(rest, "RC4_"):
		p.kind, p.cipher = "stream", "rc4"
		p.mac, ok = macOf(rest)
		return p, ok
	case strings.HasPrefix(rest, "NULL_"):
		p.kind, p.cipher = "stream", "null"
		p.mac, ok = macOf(rest)
		return p, ok
	case strings.Contains(rest, "_CBC_"):
		p.kind = "cbc"
		c := rest[:strings.Index(rest, "_CBC_")]
		switch {
		case strings.HasPrefix(c, "3DES"), strings.HasPrefix(c, "DES"), strings.HasPrefix(c, "IDEA"), strings.HasPrefix(c, "RC2"):
			p.block = 8
		case strings.HasPrefix(c, "AES"), strings.HasPrefix(c, "CAMELLIA"), strings.HasPrefix(c, "SEED"), strings.HasPrefix(c, "ARIA"):
			p.block = 16
		default:
			return p, false
		}
		p.cipher = strings.ToLower(strings.ReplaceAll(c, "_", ""))
		if strings.HasPrefix(c, "3DES") {
			p.cipher = "3des"
		}
		p.mac, ok = macOf(rest)
		return p, ok
	}
	return p, false
}

const maxPT = 1 << 14

// ptRange: the plaintext length a protected record with this body length (bytes after the 5-byte header) can
// carry. exact=true when the construction determines it. The CBC lower bound assumes minimal padding (what
// (*halfConn).encrypt produces); only the upper bound is used for the 2^14 claim.
func (p prot) ptRange(vers uint16, body int) (lo, hi int, exact, valid bool) {
	switch p.kind {
	case "tls13":
		n := body - 1 - p.tag
		return n, n, true, n >= 0
	case "aead":
		n := body - p.explicit - p.tag
		return n, n, true, n >= 0
	case "stream":
		n := body - p.mac
		return n, n, true, n >= 0
	case "cbc":
		x := body
		if vers >= tls.VersionTLS11 {
			x -= p.block
		}
		if x <= 0 || x%p.block != 0 || x < p.mac+1 {
			return 0, 0, false, false
		}
		hi = x - p.mac - 1
		lo = x - p.mac - p.block
		if lo < 0 {
			lo = 0
		}
		return lo, hi, lo == hi, true
	}
	return 0, 0, false, false
}

// maxBody: the largest record body a conforming sender can produce for 2^14 plaintext bytes.
func (p prot) maxBody(vers uint16) int {
	switch p.kind {
	case "tls13":
		return maxPT + 1 + p.tag
	case "aead":
		return maxPT + p.explicit + p.tag
	case "stream":
		return maxPT + p.mac
	case "cbc":
		n := maxPT + p.mac + 1
		n += (p.block - n%p.block) % p.block
		if vers >= tls.VersionTLS11 {
			n += p.block
		}
		return n
	}
	return 0
}

// bodyLen: the body length (*halfConn).encrypt is expected to produce for n plaintext bytes (used by the
// generator to enumerate every byte position of a small record; the executor never relies on it).
func (p prot) bodyLen(vers uint16, n int) int {
	switch p.kind {
	case "tls13":
		return n + 1 + p.tag
	case "aead":
		return n + p.explicit + p.tag
	case "stream":
		return n + p.mac
	case "cbc":
		x := n + p.mac
		x += p.block - x%p.block
		if vers >= tls.VersionTLS11 {
			x += p.block
		}
		return x
	}
	return n
}

type pair struct {
	vers  uint16
	suite uint16
	cert  string // key of tlsrig.GetPKI().Leaf
	name  string
	prot  prot
	known bool // protFor understood the name
}

func (p pair) String() string { return fmt.Sprintf("%04x:%04x:%s", p.vers, p.suite, p.cert) }

func versName(v uint16) string {
	switch v {
	case tls.VersionTLS10:
		return "tls10"
	case tls.VersionTLS11:
		return "tls11"
	case tls.VersionTLS12:
		return "tls12"
	case tls.VersionTLS13:
		return "tls13"
	}
	return fmt.Sprintf("v%04x", v)
}

var allVersions = []uint16{tls.VersionTLS10, tls.VersionTLS11, tls.VersionTLS12, tls.VersionTLS13}

// configs builds the client and server configuration that can only negotiate (vers, suite).
func configs(vers, suite uint16, cert string) (ccfg, scfg *tls.Config) {
	pki := tlsrig.GetPKI()
	ccfg = &tls.Config{RootCAs: pki.Roots, ServerName: tlsrig.Host, MinVersion: vers, MaxVersion: vers,
		CipherSuites: []uint16{suite}, ForceSuites: true}
	scfg = &tls.Config{Certificates: []tls.Certificate{pki.Leaf[cert]}, MinVersion: vers, MaxVersion: vers,
		CipherSuites: []uint16{suite}}
	return
}

func tryPair(vers, suite uint16, cert string) bool {
	ccfg, scfg := configs(vers, suite, cert)
	res := tlsrig.Handshake(ccfg, scfg, tlsrig.Opts{Timeout: 8 * time.Second})
	if res.TimedOut || res.Client.Err != nil || res.Server.Err != nil || res.Client.Panic != nil || res.Server.Panic != nil {
		return false
	}
	cs, ss := res.Client.State, res.Server.State
	return cs.Version == vers && ss.Version == vers && cs.CipherSuite == suite && ss.CipherSuite == suite
}

var (
	pairsOnce sync.Once
	pairsAll  []pair
	pairsWall time.Duration
)

// candidateSuites: every code point zcrypto has a name for (the whole IANA registry as of the fork, ~340 ids);
// no reference to the implementation's suite tables.
func candidateSuites() []uint16 {
	var ids []uint16
	for id := 0; id <= 0xffff; id++ {
		if tls.CipherSuiteID(id).String() != "unknown" {
			ids = append(ids, uint16(id))
		}
	}
	return ids
}

// negotiated determines, once per process, every (version, suite) pair for which a real in-process handshake
// completes on both sides with exactly that version and suite.
func negotiated() []pair {
	pairsOnce.Do(func() {
		t0 := time.Now()
		type job struct{ vers, suite uint16 }
		var jobs []job
		for _, id := range candidateSuites() {
			for _, v := range allVersions {
				jobs = append(jobs, job{v, id})
			}
		}
		out := make([]*pair, len(jobs))
		var wg sync.WaitGroup
		ch := make(chan int, len(jobs))
		for i := range jobs {
			ch <- i
		}
		close(ch)
		workers := runtime.NumCPU()
		if workers > 8 {
			workers = 8
		}
		for w := 0; w < workers; w++ {
			wg.Add(1)
			go func() {
				defer wg.Done()
				for i := range ch {
					j := jobs[i]
					for _, cert := range []string{"rsa", "ecdsa"} {
						if tryPair(j.vers, j.suite, cert) {
							name := tls.CipherSuiteID(j.suite).String()
							pr, ok := protFor(j.vers, name)
							out[i] = &pair{vers: j.vers, suite: j.suite, cert: cert, name: name, prot: pr, known: ok}
							break
						}
					}
				}
			}()
		}
		wg.Wait()
		for _, p := range out {
			if p != nil {
				pairsAll = append(pairsAll, *p)
			}
		}
		sort.Slice(pairsAll, func(i, j int) bool {
			if pairsAll[i].vers != pairsAll[j].vers {
				return pairsAll[i].vers < pairsAll[j].vers
			}
			return pairsAll[i].suite < pairsAll[j].suite
		})
		pairsWall = time.Since(t0)
	})
	return pairsAll
}

// requiredPairs: the (version, suite) pairs that MUST negotiate in this tree (the suites of tls/cipher_suites.go
// `cipherSuites` in their version ranges plus the three TLS 1.3 suites). Losing one of them is reported as a
// violation by the `cover` case instead of silently shrinking the tested set.
func requiredPairs() [][2]uint16 {
	upTo12 := []uint16{
		tls.TLS_RSA_WITH_RC4_128_SHA, tls.TLS_RSA_WITH_3DES_EDE_CBC_SHA, tls.TLS_RSA_WITH_AES_128_CBC_SHA, tls.TLS_RSA_WITH_AES_256_CBC_SHA,
		tls.TLS_ECDHE_RSA_WITH_RC4_128_SHA, tls.TLS_ECDHE_RSA_WITH_3DES_EDE_CBC_SHA, tls.TLS_ECDHE_RSA_WITH_AES_128_CBC_SHA, tls.TLS_ECDHE_RSA_WITH_AES_256_CBC_SHA,
		tls.TLS_ECDHE_ECDSA_WITH_RC4_128_SHA, tls.TLS_ECDHE_ECDSA_WITH_AES_128_CBC_SHA, tls.TLS_ECDHE_ECDSA_WITH_AES_256_CBC_SHA,
	}
	only12 := []uint16{
		tls.TLS_RSA_WITH_AES_128_CBC_SHA256, tls.TLS_RSA_WITH_AES_128_GCM_SHA256, tls.TLS_RSA_WITH_AES_256_GCM_SHA384,
		tls.TLS_ECDHE_RSA_WITH_AES_128_CBC_SHA256, tls.TLS_ECDHE_RSA_WITH_AES_128_GCM_SHA256, tls.TLS_ECDHE_RSA_WITH_AES_256_GCM_SHA384,
		tls.TLS_ECDHE_ECDSA_WITH_AES_128_CBC_SHA256, tls.TLS_ECDHE_ECDSA_WITH_AES_128_GCM_SHA256, tls.TLS_ECDHE_ECDSA_WITH_AES_256_GCM_SHA384,
		tls.TLS_ECDHE_RSA_WITH_CHACHA20_POLY1305_SHA256, tls.TLS_ECDHE_ECDSA_WITH_CHACHA20_POLY1305_SHA256,
	}
	var r [][2]uint16
	for _, v := range []uint16{tls.VersionTLS10, tls.VersionTLS11, tls.VersionTLS12} {
		for _, s := range upTo12 {
			r = append(r, [2]uint16{v, s})
		}
	}
	for _, s := range only12 {
		r = append(r, [2]uint16{tls.VersionTLS12, s})
	}
	for _, s := range []uint16{tls.TLS_AES_128_GCM_SHA256, tls.TLS_AES_256_GCM_SHA384, tls.TLS_CHACHA20_POLY1305_SHA256} {
		r = append(r, [2]uint16{tls.VersionTLS13, s})
	}
	return r
}

// coverageProblems checks the negotiated set against the required minimum and the oracle's own knowledge.
func coverageProblems(ps []pair) []string {
	have := map[[2]uint16]bool{}
	var bad []string
	kinds := map[string]bool{}
	for _, p := range ps {
		have[[2]uint16{p.vers, p.suite}] = true
		if !p.known {
			bad = append(bad, fmt.Sprintf("negotiating suite of unknown construction %s %04x %s", versName(p.vers), p.suite, p.name))
			continue
		}
		kinds[versName(p.vers)+"/"+p.prot.kind] = true
		kinds[versName(p.vers)+"/"+p.prot.cipher] = true
	}
	for _, r := range requiredPairs() {
		if !have[r] {
			bad = append(bad, fmt.Sprintf("required pair does not negotiate: %s %s", versName(r[0]), tls.CipherSuiteID(r[1]).String()))
		}
	}
	for _, k := range []string{"tls10/stream", "tls10/cbc", "tls10/3des", "tls11/stream", "tls11/cbc", "tls11/3des",
		"tls12/stream", "tls12/cbc", "tls12/3des", "tls12/aead", "tls12/chacha20", "tls12/aes128gcm", "tls12/aes256gcm",
		"tls13/tls13", "tls13/chacha20", "tls13/aes128gcm", "tls13/aes256gcm"} {
		if !kinds[k] {
			bad = append(bad, "no negotiating pair of class "+k)
		}
	}
	return bad
}
