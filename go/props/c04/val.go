package c04

// Validity and serial number (T2 against ZV.Model.C04Val):
//
//	c04 val <serial> <nbUnix> <nbNsec> <nbOffSec> <naUnix> <naNsec> <naOffSec>
//	c04 valnil                                    nil serial: CreateCertificate must fail (T3 only)

import (
	"bytes"
	"encoding/hex"
	"fmt"
	"math/big"
	"strconv"
	"time"

	"github.com/zmap/zcrypto/x509"
	"github.com/zmap/zcrypto/x509/pkix"

	"zv/internal/x509rig"
	"zv/internal/zv"
)

func refTime(t time.Time) []byte {
	u := t.UTC()
	if u.Year() >= 1950 && u.Year() < 2050 {
		return x509rig.TLV(0x17, []byte(u.Format("060102150405Z")))
	}
	return x509rig.TLV(0x18, []byte(fmt.Sprintf("%04d", u.Year())+u.Format("0102150405Z")))
}

func showTime(t time.Time) string {
	_, off := t.Zone()
	return fmt.Sprintf("%d,%d,%d", t.Unix(), off, t.Nanosecond())
}

func execVal(f []string) zv.Out {
	key := x509rig.KeyByName("p256")
	rnd := zv.NewRng(0x76616c)
	if f[1] == "valnil" {
		t := &x509.Certificate{Subject: pkix.Name{CommonName: "v"}, NotBefore: time.Unix(1700000000, 0), NotAfter: time.Unix(1800000000, 0)}
		if _, err := x509.CreateCertificate(rnd, t, t, key.Pub, key.Priv); err == nil {
			return zv.Out{Viol: "CreateCertificate accepts a nil SerialNumber", Tags: []string{"val:nil-serial"}}
		}
		return zv.Out{Tags: []string{"val:nil-serial"}}
	}
	if len(f) != 9 {
		return zv.Out{Viol: "bad line"}
	}
	ser, ok := new(big.Int).SetString(f[2], 10)
	var n [6]int64
	for i := range n {
		v, err := strconv.ParseInt(f[3+i], 10, 64)
		if err != nil {
			ok = false
		}
		n[i] = v
	}
	if !ok {
		return zv.Out{Viol: "bad line"}
	}
	nb := time.Unix(n[0], n[1]).In(time.FixedZone("", int(n[2])))
	na := time.Unix(n[3], n[4]).In(time.FixedZone("", int(n[5])))
	var tags []string
	inDomain := true
	for _, t := range []time.Time{nb, na} {
		switch y := t.UTC().Year(); {
		case y < 0 || y > 9999:
			inDomain = false
			tags = append(tags, "val:year-out-of-range")
		case y < 1950:
			tags = append(tags, "val:generalized<1950")
		case y >= 2050:
			tags = append(tags, "val:generalized>=2050")
		default:
			tags = append(tags, "val:utctime")
		}
		if t.Nanosecond() != 0 {
			tags = append(tags, "val:sub-second")
		}
		if _, off := t.Zone(); off != 0 {
			tags = append(tags, "val:zone")
		}
		if t.UTC().Year() != t.Year() {
			tags = append(tags, "val:year-differs-in-UTC")
		}
	}
	switch {
	case ser.Sign() < 0:
		tags = append(tags, "val:serial-negative")
	case ser.BitLen()%8 == 0 && ser.Sign() > 0:
		tags = append(tags, "val:serial-top-bit")
	default:
		tags = append(tags, "val:serial-plain")
	}
	t := &x509.Certificate{SerialNumber: new(big.Int).Set(ser), Subject: pkix.Name{CommonName: "v"}, NotBefore: nb, NotAfter: na}
	der, err := x509.CreateCertificate(rnd, t, t, key.Pub, key.Priv)
	if err != nil {
		v := ""
		if inDomain {
			v = "CreateCertificate failed inside the domain: " + err.Error()
		}
		return zv.Out{Go: "err", Viol: v, Tags: append(tags, "val:create-error")}
	}
	c, err := x509.ParseCertificate(der)
	if err != nil {
		return zv.Out{Go: "err", Viol: "ParseCertificate rejects the created certificate: " + err.Error(), Tags: tags}
	}
	var viol []string
	// structural walk (standard library): TBS children [0] version, serial, sigalg, issuer, validity
	_, certBody, e1 := x509rig.Open(der)
	top, e2 := x509rig.Children(certBody)
	if e1 != nil || e2 != nil || len(top) < 1 {
		return zv.Out{Viol: "harness: cannot walk the certificate", Tags: tags}
	}
	_, tbsBody, e3 := x509rig.Open(top[0])
	kids, e4 := x509rig.Children(tbsBody)
	if e3 != nil || e4 != nil || len(kids) < 5 {
		return zv.Out{Viol: "harness: cannot walk the TBSCertificate", Tags: tags}
	}
	_, serBody, _ := x509rig.Open(kids[1])
	validity := kids[4]
	if want := x509rig.TLV(0x30, x509rig.Cat(refTime(nb), refTime(na))); !bytes.Equal(validity, want) {
		viol = append(viol, fmt.Sprintf("Validity %x differs from the reference encoding %x", validity, want))
	}
	if c.SerialNumber.Cmp(ser) != 0 {
		viol = append(viol, fmt.Sprintf("serial %v != %v", c.SerialNumber, ser))
	}
	for _, p := range [][2]time.Time{{c.NotBefore, nb}, {c.NotAfter, na}} {
		if !p[0].Equal(p[1].Truncate(time.Second)) || p[0].Nanosecond() != 0 {
			viol = append(viol, fmt.Sprintf("validity %v is not %v truncated to the second", p[0], p[1]))
		}
		if _, off := p[0].Zone(); off != 0 {
			viol = append(viol, "parsed time not in UTC")
		}
	}
	out := fmt.Sprintf("ok ser=%s serial=%s v=%s nb=%s na=%s", hex.EncodeToString(serBody), c.SerialNumber.String(), hex.EncodeToString(validity), showTime(c.NotBefore), showTime(c.NotAfter))
	v := ""
	for i, s := range viol {
		if i > 0 {
			v += "; "
		}
		v += s
	}
	return zv.Out{Go: out, Viol: v, Tags: tags}
}

func genVal(g *zv.Gen) {
	r := g.Rng
	offs := []int64{0, 0, 3600, -3600, 19800, 1, 59, -59, 86399, -43200, 50400}
	nsecs := []int64{0, 0, 1, 999999999, 500000000}
	yearStart := func(y int) int64 { return time.Date(y, 1, 1, 0, 0, 0, 0, time.UTC).Unix() }
	var instants []int64
	for _, y := range []int{0, 1, 100, 1949, 1950, 1951, 1968, 1969, 1970, 1999, 2000, 2001, 2049, 2050, 2051, 9999, 10000} {
		s := yearStart(y)
		instants = append(instants, s-1, s, s+1, s+86400*59, s+86400*60) // around Jan 1 and around Feb 28/29
	}
	instants = append(instants, yearStart(-1), yearStart(10001), yearStart(2024)+86400*59+86399)
	serials := []string{"0", "1", "127", "128", "255", "256", "32767", "32768", "-1", "-128", "-129", "-32768", "-32769",
		new(big.Int).Lsh(big.NewInt(1), 159).String(), new(big.Int).Sub(new(big.Int).Lsh(big.NewInt(1), 159), big.NewInt(1)).String()}
	pickSerial := func() string {
		if r.Chance(30) {
			return serials[r.Intn(len(serials))]
		}
		return x509rig.RandSerial(r).String()
	}
	emit := func(a, b int64) {
		g.Emitf("c04 val %s %d %d %d %d %d %d", pickSerial(), a, nsecs[r.Intn(len(nsecs))], offs[r.Intn(len(offs))], b, nsecs[r.Intn(len(nsecs))], offs[r.Intn(len(offs))])
	}
	for _, a := range instants {
		emit(a, instants[r.Intn(len(instants))])
		emit(yearStart(2020)+int64(r.Intn(1<<25)), a)
	}
	for _, s := range serials {
		g.Emitf("c04 val %s 1700000000 0 0 1800000000 0 0", s)
	}
	n := g.N(400, 20000)
	lo, hi := yearStart(0), yearStart(10000)
	for i := 0; i < n; i++ {
		a := lo + int64(r.U64()%uint64(hi-lo))
		b := lo + int64(r.U64()%uint64(hi-lo))
		if r.Chance(50) { // the UTCTime window
			a = yearStart(1950) + int64(r.U64()%uint64(yearStart(2050)-yearStart(1950)))
		}
		emit(a, b)
	}
	g.Emitf("c04 valnil")
}
