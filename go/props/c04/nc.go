package c04

// Name constraints at byte level (T2 against ZV.Model.C04NC):
//
//	c04 nc <crit> PE PD PDIR PIP XE XD XDIR XIP   the builder block of buildExtensions + case 30 of parseCertificate
//	c04 ncp <crit> <hex>                          case 30 alone on an arbitrary extension value (via ExtraExtensions)
//
// Lists: `,`-separated x<hex> (IP ranges x<addr>/x<mask>), `-` = empty. A directory name is the DER of its RDNSequence.

import (
	"bytes"
	"encoding/hex"
	"fmt"
	"math/big"
	"net"
	"strings"
	"time"

	"github.com/zmap/zcrypto/encoding/asn1"
	"github.com/zmap/zcrypto/x509"
	"github.com/zmap/zcrypto/x509/pkix"

	"zv/internal/x509rig"
	"zv/internal/zv"
)

func xh(b []byte) string { return "x" + hex.EncodeToString(b) }

func xlist(l [][]byte) string {
	if len(l) == 0 {
		return "-"
	}
	var s []string
	for _, b := range l {
		s = append(s, xh(b))
	}
	return strings.Join(s, ",")
}

func unx(s string) ([]byte, bool) {
	if !strings.HasPrefix(s, "x") {
		return nil, false
	}
	b, err := hex.DecodeString(s[1:])
	return b, err == nil
}

func unxlist(s string) ([][]byte, bool) {
	if s == "-" {
		return nil, true
	}
	var o [][]byte
	for _, p := range strings.Split(s, ",") {
		b, ok := unx(p)
		if !ok {
			return nil, false
		}
		o = append(o, b)
	}
	return o, true
}

type ncSide struct {
	email, dns, dir [][]byte
	ip              [][2][]byte
}

func (s *ncSide) line() string {
	var ips []string
	for _, p := range s.ip {
		ips = append(ips, xh(p[0])+"/"+xh(p[1]))
	}
	ipS := "-"
	if len(ips) > 0 {
		ipS = strings.Join(ips, ",")
	}
	return xlist(s.email) + " " + xlist(s.dns) + " " + xlist(s.dir) + " " + ipS
}

func parseNCSide(f []string) (*ncSide, bool) {
	s := &ncSide{}
	var ok bool
	if s.email, ok = unxlist(f[0]); !ok {
		return nil, false
	}
	if s.dns, ok = unxlist(f[1]); !ok {
		return nil, false
	}
	if s.dir, ok = unxlist(f[2]); !ok {
		return nil, false
	}
	if f[3] != "-" {
		for _, p := range strings.Split(f[3], ",") {
			am := strings.Split(p, "/")
			if len(am) != 2 {
				return nil, false
			}
			a, ok1 := unx(am[0])
			m, ok2 := unx(am[1])
			if !ok1 || !ok2 {
				return nil, false
			}
			s.ip = append(s.ip, [2][]byte{a, m})
		}
	}
	return s, true
}

func dirName(der []byte) (pkix.Name, bool) {
	var seq pkix.RDNSequence
	if rest, err := asn1.Unmarshal(der, &seq); err != nil || len(rest) != 0 {
		return pkix.Name{}, false
	}
	var n pkix.Name
	n.FillFromRDNSequence(&seq)
	return n, true
}

func ncTemplate() *x509.Certificate {
	return &x509.Certificate{SerialNumber: big.NewInt(77), Subject: pkix.Name{CommonName: "nc"},
		NotBefore: time.Unix(1700000000, 0).UTC(), NotAfter: time.Unix(1800000000, 0).UTC(), BasicConstraintsValid: true, IsCA: true}
}

func showST(l []x509.GeneralSubtreeString) string {
	if len(l) == 0 {
		return "-"
	}
	var s []string
	for _, e := range l {
		s = append(s, fmt.Sprintf("%s:%d:%d", xh([]byte(e.Data)), e.Min, e.Max))
	}
	return strings.Join(s, ",")
}

func showDirs(l []x509.GeneralSubtreeName) string {
	if len(l) == 0 {
		return "-"
	}
	var s []string
	for _, e := range l {
		seq := e.Data.OriginalRDNS
		if seq == nil {
			seq = pkix.RDNSequence{}
		}
		der, err := asn1.Marshal(seq)
		if err != nil {
			der = []byte("?")
		}
		s = append(s, fmt.Sprintf("%s:%d:%d", xh(der), e.Min, e.Max))
	}
	return strings.Join(s, ",")
}

func showIPs(l []x509.GeneralSubtreeIP) string {
	if len(l) == 0 {
		return "-"
	}
	var s []string
	for _, e := range l {
		s = append(s, fmt.Sprintf("%s/%s:%d:%d", xh(e.Data.IP), xh(e.Data.Mask), e.Min, e.Max))
	}
	return strings.Join(s, ",")
}

func showParsedNC(c *x509.Certificate) string {
	return fmt.Sprintf("P e=%s d=%s u=%s x4=%d dir=%s ip=%s X e=%s d=%s u=%s x4=%d dir=%s ip=%s",
		showST(c.PermittedEmailAddresses), showST(c.PermittedDNSNames), showST(c.PermittedURIs), len(c.PermittedX400Addresses),
		showDirs(c.PermittedDirectoryNames), showIPs(c.PermittedIPAddresses),
		showST(c.ExcludedEmailAddresses), showST(c.ExcludedDNSNames), showST(c.ExcludedURIs), len(c.ExcludedX400Addresses),
		showDirs(c.ExcludedDirectoryNames), showIPs(c.ExcludedIPAddresses))
}

// refNC: independent reference encoding of the extension value (harness DER writer, no zcrypto code).
func refNC(p, x *ncSide) []byte {
	T := x509rig.TLV
	side := func(tag byte, s *ncSide) []byte {
		var body []byte
		for _, d := range s.email {
			body = append(body, T(0x30, T(0x81, d))...)
		}
		for _, d := range s.dns {
			body = append(body, T(0x30, T(0x82, d))...)
		}
		for _, d := range s.dir {
			body = append(body, T(0x30, T(0xA4, d))...)
		}
		for _, am := range s.ip {
			body = append(body, T(0x30, T(0x87, x509rig.Cat(am[0], am[1])))...)
		}
		if len(s.email)+len(s.dns)+len(s.dir)+len(s.ip) == 0 {
			return nil
		}
		return T(tag, body)
	}
	return T(0x30, x509rig.Cat(side(0xA0, p), side(0xA1, x)))
}

func ncExt(c *x509.Certificate) *pkix.Extension {
	for i, e := range c.Extensions {
		if e.Id.Equal([]int{2, 5, 29, 30}) {
			return &c.Extensions[i]
		}
	}
	return nil
}

func execNC(f []string) zv.Out {
	key := x509rig.KeyByName("p256")
	rnd := zv.NewRng(0x6e63)
	switch {
	case f[1] == "nc" && len(f) == 11:
		p, ok1 := parseNCSide(f[3:7])
		x, ok2 := parseNCSide(f[7:11])
		if !ok1 || !ok2 || (f[2] != "0" && f[2] != "1") {
			return zv.Out{Viol: "bad line"}
		}
		t := ncTemplate()
		t.NameConstraintsCritical = f[2] == "1"
		inDomain := true
		tags := []string{"nc"}
		fill := func(s *ncSide, es, ds *[]x509.GeneralSubtreeString, dirs *[]x509.GeneralSubtreeName, ips *[]x509.GeneralSubtreeIP, which string) bool {
			for _, d := range s.email {
				*es = append(*es, x509.GeneralSubtreeString{Data: string(d)})
				tags = append(tags, "nc:"+which+"-email")
			}
			for _, d := range s.dns {
				*ds = append(*ds, x509.GeneralSubtreeString{Data: string(d)})
				tags = append(tags, "nc:"+which+"-dns")
			}
			for _, d := range s.dir {
				n, ok := dirName(d)
				if !ok {
					return false
				}
				*dirs = append(*dirs, x509.GeneralSubtreeName{Data: n})
				tags = append(tags, "nc:"+which+"-dir")
			}
			for _, am := range s.ip {
				*ips = append(*ips, x509.GeneralSubtreeIP{Data: net.IPNet{IP: net.IP(am[0]), Mask: net.IPMask(am[1])}})
				if !(len(am[0]) == 4 && len(am[1]) == 4) && !(len(am[0]) == 16 && len(am[1]) == 16) {
					inDomain = false
					tags = append(tags, fmt.Sprintf("nc:ip-off-domain(total=%d)", len(am[0])+len(am[1])))
				} else {
					tags = append(tags, fmt.Sprintf("nc:%s-ip%d", which, len(am[0])))
				}
			}
			return true
		}
		if !fill(p, &t.PermittedEmailAddresses, &t.PermittedDNSNames, &t.PermittedDirectoryNames, &t.PermittedIPAddresses, "permitted") ||
			!fill(x, &t.ExcludedEmailAddresses, &t.ExcludedDNSNames, &t.ExcludedDirectoryNames, &t.ExcludedIPAddresses, "excluded") {
			return zv.Out{Viol: "bad line (directory name)"}
		}
		der, err := x509.CreateCertificate(rnd, t, t, key.Pub, key.Priv)
		if err != nil {
			return zv.Out{Go: "err", Viol: "CreateCertificate failed: " + err.Error(), Tags: tags}
		}
		c, err := x509.ParseCertificate(der)
		if err != nil {
			v := ""
			if inDomain {
				v = "ParseCertificate rejects the created certificate: " + err.Error()
			}
			return zv.Out{Go: "err", Viol: v, Tags: append(tags, "nc:parse-error")}
		}
		var viol []string
		e := ncExt(c)
		if !hasNC(t) {
			tags = append(tags, "nc:absent")
			if e != nil {
				viol = append(viol, "name constraints extension written for an empty template")
			}
			return zv.Out{Go: "ok v=- crit=0 " + showParsedNC(c), Viol: strings.Join(viol, "; "), Tags: tags}
		}
		if e == nil {
			return zv.Out{Go: "err", Viol: "name constraints extension missing", Tags: tags}
		}
		if !bytes.Equal(e.Value, refNC(p, x)) {
			viol = append(viol, fmt.Sprintf("name constraints value %x differs from the reference encoding %x", e.Value, refNC(p, x)))
		}
		if e.Critical != t.NameConstraintsCritical || c.NameConstraintsCritical != t.NameConstraintsCritical {
			viol = append(viol, "NameConstraintsCritical not reproduced")
		}
		if inDomain {
			// round trip against the line itself (the library never saw these byte strings)
			chk := func(what string, got string, want string) {
				if got != want {
					viol = append(viol, fmt.Sprintf("%s: parsed %s, template %s", what, got, want))
				}
			}
			wantST := func(l [][]byte) string {
				if len(l) == 0 {
					return "-"
				}
				var s []string
				for _, d := range l {
					s = append(s, xh(d)+":0:0")
				}
				return strings.Join(s, ",")
			}
			wantIP := func(l [][2][]byte) string {
				if len(l) == 0 {
					return "-"
				}
				var s []string
				for _, am := range l {
					s = append(s, xh(am[0])+"/"+xh(am[1])+":0:0")
				}
				return strings.Join(s, ",")
			}
			chk("permitted email", showST(c.PermittedEmailAddresses), wantST(p.email))
			chk("permitted dns", showST(c.PermittedDNSNames), wantST(p.dns))
			chk("permitted dir", showDirs(c.PermittedDirectoryNames), wantST(p.dir))
			chk("permitted ip", showIPs(c.PermittedIPAddresses), wantIP(p.ip))
			chk("excluded email", showST(c.ExcludedEmailAddresses), wantST(x.email))
			chk("excluded dns", showST(c.ExcludedDNSNames), wantST(x.dns))
			chk("excluded dir", showDirs(c.ExcludedDirectoryNames), wantST(x.dir))
			chk("excluded ip", showIPs(c.ExcludedIPAddresses), wantIP(x.ip))
		}
		return zv.Out{Go: "ok v=" + xh(e.Value) + " crit=" + b01(e.Critical) + " " + showParsedNC(c), Viol: strings.Join(viol, "; "), Tags: tags}
	case f[1] == "ncp" && len(f) == 4:
		v, err := hex.DecodeString(f[3])
		if err != nil {
			return zv.Out{Viol: "bad line"}
		}
		t := ncTemplate()
		t.ExtraExtensions = []pkix.Extension{{Id: []int{2, 5, 29, 30}, Critical: f[2] == "1", Value: v}}
		der, err := x509.CreateCertificate(rnd, t, t, key.Pub, key.Priv)
		if err != nil {
			return zv.Out{Go: "err", Viol: "CreateCertificate failed: " + err.Error()}
		}
		c, err := x509.ParseCertificate(der)
		if err != nil {
			return zv.Out{Go: "err", Tags: []string{"ncp", "ncp:err"}}
		}
		if len(c.PermittedEdiPartyNames)+len(c.ExcludedEdiPartyNames)+len(c.PermittedRegisteredIDs)+len(c.ExcludedRegisteredIDs) > 0 {
			return zv.Out{Viol: "harness: generated a name form (ediPartyName / registeredID) the model does not cover"}
		}
		tags := []string{"ncp", "ncp:ok"}
		for _, l := range [][]x509.GeneralSubtreeString{c.PermittedDNSNames, c.ExcludedDNSNames, c.PermittedEmailAddresses, c.ExcludedEmailAddresses, c.PermittedURIs, c.ExcludedURIs} {
			for _, e := range l {
				if e.Min != 0 || e.Max != 0 {
					tags = append(tags, "ncp:min/max")
				}
			}
		}
		if len(c.PermittedDirectoryNames)+len(c.ExcludedDirectoryNames) > 0 {
			tags = append(tags, "ncp:dir")
		}
		if len(c.PermittedIPAddresses)+len(c.ExcludedIPAddresses) > 0 {
			tags = append(tags, "ncp:ip")
		}
		return zv.Out{Go: "ok crit=" + b01(c.NameConstraintsCritical) + " " + showParsedNC(c), Tags: tags}
	}
	return zv.Out{Viol: "bad line"}
}

// ---- generators ----

func randNCSide(r *zv.Rng) *ncSide {
	s := &ncSide{}
	str := func() []byte {
		switch r.Intn(6) {
		case 0:
			return nil
		case 1:
			return r.Bytes(1 + r.Intn(6)) // arbitrary octets: case 30 stores string(bytes) unchecked
		case 2:
			return []byte(strings.Repeat("a", 120+r.Intn(20)) + ".example") // long-form DER length
		}
		return []byte([]string{"example.com", ".example.org", "a@b.example", "x"}[r.Intn(4)])
	}
	for i := r.Intn(3); i > 0 && r.Chance(60); i-- {
		s.email = append(s.email, str())
	}
	for i := r.Intn(3); i > 0 && r.Chance(60); i-- {
		s.dns = append(s.dns, str())
	}
	for i := r.Intn(3); i > 0 && r.Chance(40); i-- {
		if der, err := asn1.Marshal(x509rig.RandName(r).ToRDNSequence()); err == nil {
			s.dir = append(s.dir, der)
		}
	}
	for i := r.Intn(3); i > 0 && r.Chance(60); i-- {
		n := []int{4, 16}[r.Intn(2)]
		a, m := r.Bytes(n), []byte(x509rig.RandIPNet(r, n).Mask)
		if r.Chance(12) { // outside the domain: address and mask of other lengths (written as is)
			a, m = r.Bytes(r.Intn(9)), r.Bytes(r.Intn(9))
			if r.Chance(40) {
				a = r.Bytes([]int{0, 2, 6, 8, 12, 20}[r.Intn(6)])
				tot := 32
				if len(a) <= 8 && r.Bool() {
					tot = 8
				}
				m = r.Bytes(tot - len(a))
			}
		}
		s.ip = append(s.ip, [2][]byte{a, m})
	}
	return s
}

func derInt(tag byte, r *zv.Rng) []byte {
	T := x509rig.TLV
	switch r.Intn(8) {
	case 0:
		return T(tag, nil) // empty INTEGER: error
	case 1:
		return T(tag, []byte{0x00, byte(r.Intn(128))}) // non-minimal: error
	case 2:
		return T(tag, r.Bytes(9)) // too large / non-minimal
	case 3:
		return T(tag, []byte{0xff - byte(r.Intn(100))}) // negative
	case 4:
		return T(tag|0x20, []byte{1}) // constructed bit set: not the field
	case 5:
		return T(tag, append([]byte{byte(1 + r.Intn(126))}, r.Bytes(r.Intn(8))...))
	}
	return T(tag, []byte{byte(r.Intn(128))})
}

func randSubtree(r *zv.Rng) []byte {
	T := x509rig.TLV
	var val []byte
	switch r.Intn(12) {
	case 0:
		val = T(0x81, r.Bytes(r.Intn(5)))
	case 1:
		val = T(0x82, []byte("example.com"))
	case 2:
		val = T(0x86, []byte("http://u.example/"))
	case 3:
		val = T(0xA3, r.Bytes(r.Intn(4)))
	case 4:
		der, err := asn1.Marshal(x509rig.RandName(r).ToRDNSequence())
		if err != nil {
			der = []byte{0x30, 0x00}
		}
		val = T([]byte{0xA4, 0x84, 0x04, 0x64}[r.Intn(4)], der) // the switch looks at the tag number only
	case 5:
		val = T(0xA4, [][]byte{nil, {0x31, 0x00}, {0x30, 0x03, 0x02, 0x01, 0x05}, {0x30, 0x05, 0x31, 0x03, 0x02, 0x01, 0x05}}[r.Intn(4)]) // not an RDNSequence
	case 6:
		val = T(0x87, r.Bytes([]int{8, 32}[r.Intn(2)]))
	case 7:
		val = T(0x87, r.Bytes([]int{0, 4, 7, 9, 16, 31, 33}[r.Intn(7)])) // bad range length
	case 8:
		val = T([]byte{0x80, 0x89, 0x9e, 0x0c, 0x13}[r.Intn(5)], r.Bytes(r.Intn(4))) // ignored tags
	case 9:
		val = T(0x02, r.Bytes(1+r.Intn(3))) // universal tag 2 = "dns" for the switch
	case 10:
		val = nil
	default:
		val = T(0x82, r.Bytes(r.Intn(8)))
	}
	body := val
	if r.Chance(35) {
		body = append(body, derInt(0x80, r)...)
	}
	if r.Chance(35) {
		body = append(body, derInt(0x81, r)...)
	}
	if r.Chance(8) {
		body = append(body, derInt(0x80, r)...) // after Max: ignored trailing element
	}
	tag := byte(0x30)
	if r.Chance(4) {
		tag = []byte{0x31, 0x10, 0xA0}[r.Intn(3)] // sequence tag mismatch
	}
	return T(tag, body)
}

func randNCValue(r *zv.Rng) []byte {
	T := x509rig.TLV
	side := func(tag byte) []byte {
		if r.Chance(30) {
			return nil
		}
		var b []byte
		for i := r.Intn(4); i > 0; i-- {
			b = append(b, randSubtree(r)...)
		}
		if r.Chance(3) {
			b = append(b, 0x30) // truncated element
		}
		return T(tag, b)
	}
	var body []byte
	switch r.Intn(10) {
	case 0:
		body = x509rig.Cat(side(0xA1), side(0xA0)) // wrong order: [0] after [1] is trailing data
	case 1:
		body = x509rig.Cat(side(0x80), side(0xA1)) // primitive [0]
	default:
		body = x509rig.Cat(side(0xA0), side(0xA1))
	}
	v := T(0x30, body)
	switch r.Intn(25) {
	case 0:
		v = append(v, r.Bytes(1+r.Intn(3))...) // trailing bytes after the value
	case 1:
		v = v[:len(v)-1-r.Intn(len(v)-1)]
	case 2:
		v[0] = 0x31
	}
	return v
}

func genNC(g *zv.Gen) {
	r := g.Rng
	n := g.N(500, 20000)
	for i := 0; i < n; i++ {
		p, x := randNCSide(r), randNCSide(r)
		g.Emitf("c04 nc %s %s %s", b01(r.Bool()), p.line(), x.line())
	}
	// the D41 shape, always present: one IPv4 and one IPv6 range on each side
	v4 := [2][]byte{{192, 0, 2, 0}, {255, 255, 255, 0}}
	v6 := [2][]byte{append([]byte{0x20, 0x01, 0x0d, 0xb8}, make([]byte, 12)...), append(bytes.Repeat([]byte{0xff}, 4), make([]byte, 12)...)}
	g.Emitf("c04 nc 1 %s %s", (&ncSide{ip: [][2][]byte{v4, v6}}).line(), (&ncSide{ip: [][2][]byte{v6, v4}}).line())
	g.Emitf("c04 nc 0 %s %s", (&ncSide{}).line(), (&ncSide{}).line())
	n = g.N(700, 30000)
	for i := 0; i < n; i++ {
		g.Emitf("c04 ncp %s %s", b01(r.Bool()), hex.EncodeToString(randNCValue(r)))
	}
}
