package c04

// State carried across calls / inputs mutated (T3-only lines; nothing is sent to the Lean model):
//
//   c04 seq <seed> <n> <tmode> <pmode> <mem>   n = 2..4 CreateCertificate calls that RE-USE the caller's values
//        tmode  reuse  one template value, field groups changed in place between the calls (the issuing loop)
//               fresh  a new template value per call (then the parent value is what is re-used)
//        pmode  self   parent == template (the same value as both arguments)
//               hand   one hand-built parent value (&Certificate{Subject, SubjectKeyId, …}), changed between the calls
//               parsed one parsed parent certificate, changed between the calls (Subject fields with RawSubject kept,
//                      RawSubject cleared with a new Subject, RawSubject cleared with the parsed Subject edited)
//               chain  the template of call i (already passed through CreateCertificate) is the hand-built parent of
//                      call i+1; with tmode=reuse two values alternate between the template and the parent role
//        mem    exact  slices with cap == len
//               spare  every slice handed in has poisoned spare capacity and is re-filled in place between the calls
//                      (`append(buf[:0], …)`: stale elements of the previous call sit behind len)
//               arena  spare, and every byte string is a window buf[a:b] of a shared buffer
//      oracle: every certificate parses back to the template AS IT WAS AT THE TIME OF ITS CALL (kept in a shadow value
//      the library never sees), issuer = the name the parent had at that time; template, parent, public key and private
//      key are fingerprinted (all fields, lengths, capacities, spare capacity contents) before and after every call.
//   c04 ncip <seed> <mem>      name-constraint IP ranges whose IP/Mask byte strings have spare capacity / share a buffer
//   c04 aux <seed> <kind> <mem>   the same two oracles for CreateCertificateRequest (csr), Certificate.CreateCRL (crl)
//                                  and CreateRevocationList (rl) with a re-used hand-built issuer

import (
	"fmt"
	"math/big"
	"reflect"
	"sort"
	"strconv"
	"strings"
	"time"

	"github.com/zmap/zcrypto/encoding/asn1"
	"github.com/zmap/zcrypto/x509"
	"github.com/zmap/zcrypto/x509/pkix"

	"zv/internal/x509rig"
	"zv/internal/zv"
)

// field groups an issuing loop changes between two calls
var fieldGroups = []struct {
	name   string
	fields []string
}{
	{"subject", []string{"Subject"}},
	{"serial", []string{"SerialNumber"}},
	{"validity", []string{"NotBefore", "NotAfter"}},
	{"san", []string{"DNSNames", "EmailAddresses", "IPAddresses"}},
	{"ku", []string{"KeyUsage"}},
	{"eku", []string{"ExtKeyUsage", "UnknownExtKeyUsage"}},
	{"bc", []string{"BasicConstraintsValid", "IsCA", "MaxPathLen", "MaxPathLenZero"}},
	{"ski", []string{"SubjectKeyId"}},
	{"aki", []string{"AuthorityKeyId"}},
	{"aia", []string{"OCSPServer", "IssuingCertificateURL"}},
	{"crldp", []string{"CRLDistributionPoints"}},
	{"pol", []string{"PolicyIdentifiers"}},
	{"nc", []string{"NameConstraintsCritical", "PermittedDNSNames", "ExcludedDNSNames", "PermittedEmailAddresses", "ExcludedEmailAddresses",
		"PermittedIPAddresses", "ExcludedIPAddresses", "PermittedDirectoryNames", "ExcludedDirectoryNames"}},
	{"extra", []string{"ExtraExtensions"}},
	{"sigalg", []string{"SignatureAlgorithm"}},
	{"rawsubject", []string{"RawSubject"}},
	{"rawjunk", []string{"RawIssuer", "Raw", "RawTBSCertificate", "RawSubjectPublicKeyInfo"}},
}

var seqKeys = []string{"ed25519", "ed25519", "ed25519", "p256", "p256", "p256", "rsa1024", "rsa1024", "p384", "p224", "rsa2048", "p521"}

// ncIPExact: the IP byte strings of name-constraint ranges get cap == len everywhere except in the `ncip` lines
// (buildExtensions builds the iPAddress value with append(range.IP, range.Mask...), which is examined there).
func ncIPExact(path string) bool {
	return strings.HasSuffix(path, "IPAddresses[].Data.IP") && (strings.HasPrefix(path, "Permitted") || strings.HasPrefix(path, "Excluded"))
}

// world: shadow values (never passed to zcrypto) and the names behind pre-set RawSubject values
type world struct {
	r        *zv.Rng
	rawNames map[string]pkix.Name
}

func (w *world) marshalName(n pkix.Name) []byte {
	b, err := asn1.Marshal(n.ToRDNSequence())
	if err != nil {
		panic("harness: name does not marshal: " + err.Error())
	}
	w.rawNames[string(b)] = n
	return b
}

// nameOf: the name CreateCertificate has to write for a certificate value: RawSubject if set, else what Subject
// marshals to (the parsed RDN sequence if the Subject came out of a parser, else its fields).
func (w *world) nameOf(spec *x509.Certificate) pkix.Name {
	if len(spec.RawSubject) > 0 {
		n, ok := w.rawNames[string(spec.RawSubject)]
		if !ok {
			panic("harness: RawSubject without a recorded name")
		}
		return n
	}
	if spec.Subject.OriginalRDNS != nil {
		var n pkix.Name
		rdn := spec.Subject.OriginalRDNS
		n.FillFromRDNSequence(&rdn)
		return n
	}
	return spec.Subject
}

var exactCopier = &x509rig.Copier{Mode: x509rig.MemExact}

func cloneCert(t *x509.Certificate) *x509.Certificate {
	n := new(x509.Certificate)
	exactCopier.Into(n, *t)
	return n
}

func sigAlgFor(r *zv.Rng, signer *x509rig.Key) x509.SignatureAlgorithm {
	algs := x509rig.SigAlgsFor(signer.Kind)
	for {
		a := algs[r.Intn(len(algs))]
		if signer.Name == "rsa1024" && a == x509.SHA512WithRSAPSS {
			continue // modulus too short, outside the domain
		}
		return a
	}
}

// redraw replaces the named group of spec by a new draw.
func (w *world) redraw(spec *x509.Certificate, group string, fields []string, signer *x509rig.Key) {
	r := w.r
	switch group {
	case "sigalg":
		spec.SignatureAlgorithm = sigAlgFor(r, signer)
	case "rawsubject":
		if len(spec.RawSubject) > 0 || r.Chance(40) {
			spec.RawSubject = nil
		} else {
			spec.RawSubject = w.marshalName(x509rig.RandName(r))
		}
	case "rawjunk":
		for _, f := range fields {
			var b []byte
			if r.Chance(60) {
				b = r.Bytes(1 + r.Intn(40))
			}
			reflect.ValueOf(spec).Elem().FieldByName(f).SetBytes(b)
		}
	case "extra":
		d := x509rig.RandTemplate(r, true)
		spec.ExtraExtensions = d.ExtraExtensions
		if r.Chance(30) {
			addOverrides(r, spec)
		}
	default:
		d := x509rig.RandTemplate(r, true)
		if group == "serial" && r.Chance(50) { // per-leaf serial: previous + 1
			d.SerialNumber = new(big.Int).Add(spec.SerialNumber, big.NewInt(1))
		}
		if group == "subject" && r.Chance(40) { // per-leaf CN, the rest of the name kept
			n := spec.Subject
			n.CommonName = d.Subject.CommonName
			if n.CommonName == "" {
				n.CommonName = "leaf"
			}
			d.Subject = n
		}
		for _, f := range fields {
			exactCopier.Field(spec, d, f)
		}
	}
}

// apply copies the named fields of spec into the live value the library gets to see.
func apply(c *x509rig.Copier, live, spec *x509.Certificate, fields []string) {
	for _, f := range fields {
		c.Field(live, spec, f)
	}
}

var allFields = func() []string {
	var l []string
	for _, g := range fieldGroups {
		l = append(l, g.fields...)
	}
	return l
}()

// one certificate value of the caller: the live value handed to zcrypto and its shadow
type value struct {
	live, spec *x509.Certificate
	key        *x509rig.Key // the key certified by this value when it is used as a template (= signing key when it is a parent)
}

func (w *world) newTemplate(c *x509rig.Copier, signer *x509rig.Key) *value {
	r := w.r
	spec := x509rig.RandTemplate(r, r.Chance(60))
	if r.Chance(20) {
		addOverrides(r, spec)
	}
	spec.SignatureAlgorithm = sigAlgFor(r, signer)
	if r.Chance(15) {
		spec.RawSubject = w.marshalName(x509rig.RandName(r))
	}
	v := &value{live: new(x509.Certificate), spec: spec}
	apply(c, v.live, spec, allFields)
	return v
}

// change re-draws some field groups of a value (shadow first, then the same groups of the live value).
func (w *world) change(c *x509rig.Copier, v *value, signer *x509rig.Key, asParent bool, tags map[string]bool) {
	r := w.r
	if v.spec.SignatureAlgorithm != 0 && !asParent { // the signer may have changed: keep the requested algorithm valid for it
		ok := false
		for _, a := range x509rig.SigAlgsFor(signer.Kind) {
			if a == v.spec.SignatureAlgorithm && !(signer.Name == "rsa1024" && a == x509.SHA512WithRSAPSS) {
				ok = true
			}
		}
		if !ok {
			v.spec.SignatureAlgorithm = sigAlgFor(r, signer)
			v.live.SignatureAlgorithm = v.spec.SignatureAlgorithm
		}
	}
	var picked []int
	for i, g := range fieldGroups {
		p := 12
		switch g.name {
		case "subject":
			p = 75
		case "serial":
			p = 60
		case "validity", "san":
			p = 35
		case "ku", "extra", "rawsubject":
			p = 20
		}
		if asParent { // what matters of a parent: its name and key id
			p = map[string]int{"subject": 80, "rawsubject": 25, "ski": 40, "ku": 10, "bc": 10}[g.name]
		}
		if r.Chance(p) {
			picked = append(picked, i)
		}
	}
	if len(picked) == 0 {
		picked = []int{0}
	}
	if !asParent && r.Chance(12) { // `*t = x509.Certificate{…}`: same pointer, everything re-assigned
		*v.live = x509.Certificate{}
		tags["seq:template-reset"] = true
		for _, i := range picked {
			w.redraw(v.spec, fieldGroups[i].name, fieldGroups[i].fields, signer)
		}
		cc := *c
		cc.Reuse = false
		apply(&cc, v.live, v.spec, allFields)
		return
	}
	for _, i := range picked {
		g := fieldGroups[i]
		w.redraw(v.spec, g.name, g.fields, signer)
		apply(c, v.live, v.spec, g.fields)
		tags["seq:changed="+g.name] = true
	}
}

func (w *world) handParent(c *x509rig.Copier) *value {
	r := w.r
	spec := &x509.Certificate{Subject: x509rig.RandName(r), BasicConstraintsValid: true, IsCA: true}
	if r.Chance(70) {
		spec.SubjectKeyId = r.Bytes(1 + r.Intn(20))
	}
	if r.Chance(40) {
		spec.KeyUsage = x509.KeyUsageCertSign | x509.KeyUsageCRLSign
	}
	if r.Chance(25) {
		spec.RawSubject = w.marshalName(x509rig.RandName(r))
	}
	if r.Chance(30) { // a complete CA template that simply never went through CreateCertificate
		d := x509rig.RandTemplate(r, false)
		d.Subject, d.SubjectKeyId, d.RawSubject = spec.Subject, spec.SubjectKeyId, spec.RawSubject
		d.BasicConstraintsValid, d.IsCA, d.SignatureAlgorithm = true, true, 0
		spec = d
	}
	v := &value{live: new(x509.Certificate), spec: spec}
	apply(c, v.live, spec, allFields)
	return v
}

// parsedParent: a self-signed CA certificate created from a fresh template and parsed; the shadow is a second parse.
func (w *world) parsedParent(signer *x509rig.Key) (*value, error) {
	r := w.r
	p := x509rig.RandTemplate(r, false)
	p.BasicConstraintsValid, p.IsCA = true, true
	if p.KeyUsage != 0 {
		p.KeyUsage |= x509.KeyUsageCertSign
	}
	p.ExtraExtensions, p.SignatureAlgorithm = nil, 0
	der, err := x509.CreateCertificate(zv.NewRng(0x5151), p, p, signer.Pub, signer.Priv)
	if err != nil {
		return nil, fmt.Errorf("parent: %w", err)
	}
	live, err := x509.ParseCertificate(der)
	if err != nil {
		return nil, fmt.Errorf("parent parse: %w", err)
	}
	spec, _ := x509.ParseCertificate(append([]byte{}, der...))
	w.rawNames[string(spec.RawSubject)] = p.Subject
	return &value{live: live, spec: spec, key: signer}, nil
}

// changeParsed edits a parsed parent between two calls, the ways a caller plausibly does.
func (w *world) changeParsed(v *value, tags map[string]bool) {
	r := w.r
	switch r.Intn(5) {
	case 0: // Subject fields edited, RawSubject kept: the issuer stays the parsed one
		n := x509rig.RandName(r)
		v.spec.Subject.CommonName, v.live.Subject.CommonName = n.CommonName, n.CommonName
		v.spec.Subject.Organization, v.live.Subject.Organization = n.Organization, append([]string{}, n.Organization...)
		tags["seq:parsed-parent:subject-edited"] = true
	case 1: // RawSubject cleared and a new Subject assigned: the issuer is the new name
		n := x509rig.RandName(r)
		v.spec.RawSubject, v.live.RawSubject = nil, nil
		v.spec.Subject = n
		exactCopier.Into(&v.live.Subject, n)
		tags["seq:parsed-parent:raw-cleared+new-subject"] = true
	case 2: // RawSubject cleared, parsed Subject (OriginalRDNS still set) edited
		v.spec.RawSubject, v.live.RawSubject = nil, nil
		cn := "edited " + strconv.Itoa(r.Intn(100))
		v.spec.Subject.CommonName, v.live.Subject.CommonName = cn, cn
		tags["seq:parsed-parent:raw-cleared+subject-edited"] = true
	case 3: // key id replaced
		id := r.Bytes(1 + r.Intn(20))
		v.spec.SubjectKeyId, v.live.SubjectKeyId = id, append([]byte{}, id...)
		tags["seq:parsed-parent:ski-changed"] = true
	default:
		tags["seq:parsed-parent:unchanged"] = true
	}
}

type frozen struct {
	name string
	fp   []string
	v    any
}

func freeze(name string, v any) frozen { return frozen{name, x509rig.Fingerprint(v), v} }

func (f frozen) check(fn string) string {
	if d := x509rig.FirstDiff(f.fp, x509rig.Fingerprint(f.v)); d != "" {
		return fmt.Sprintf("%s mutated its %s argument: %s", fn, f.name, d)
	}
	return ""
}

func sortedTags(m map[string]bool) []string {
	var l []string
	for k := range m {
		l = append(l, k)
	}
	sort.Strings(l)
	return l
}

func execReuse(f []string) zv.Out {
	switch {
	case len(f) == 7 && f[1] == "seq":
		return execSeq(f)
	case len(f) == 4 && f[1] == "ncip":
		return execNCIP(f)
	case len(f) == 5 && f[1] == "aux":
		return execAux(f)
	}
	return zv.Out{Viol: "bad line"}
}

func execSeq(f []string) zv.Out {
	seed, _ := strconv.ParseUint(f[2], 10, 64)
	n, _ := strconv.Atoi(f[3])
	tmode, pmode, mem := f[4], f[5], f[6]
	if n < 1 || n > 8 {
		return zv.Out{Viol: "bad line"}
	}
	r := zv.NewRng(seed)
	w := &world{r: r, rawNames: map[string]pkix.Name{}}
	tags := map[string]bool{"seq": true, "seq:template=" + tmode: true, "seq:parent=" + pmode: true, "seq:mem=" + mem: true, fmt.Sprintf("seq:calls=%d", n): true}
	cp := &x509rig.Copier{Mode: mem, R: r.Fork(), Exact: ncIPExact}
	var viol []string
	pick := func() *x509rig.Key { return x509rig.KeyByName(seqKeys[r.Intn(len(seqKeys))]) }

	fixedSigner := pick() // hand / parsed: the CA key of the whole sequence
	var parent *value
	switch pmode {
	case "hand":
		parent = w.handParent(cp)
		parent.key = fixedSigner
	case "parsed":
		var err error
		if parent, err = w.parsedParent(fixedSigner); err != nil {
			return zv.Out{Viol: "CreateCertificate failed on a template inside the documented domain: " + err.Error(), Tags: sortedTags(tags)}
		}
	}
	var tmpl, other *value // other: chain+reuse, the value currently in the parent role
	for i := 0; i < n; i++ {
		key := pick()
		signer := key
		switch pmode {
		case "hand", "parsed":
			signer = fixedSigner
		case "chain":
			if i > 0 {
				signer = tmpl.key // the previous template certified this key
			}
		}
		cp.Reuse = tmode == "reuse" && mem != x509rig.MemExact && r.Chance(75)
		// --- the caller prepares its values for call i
		prev := tmpl
		switch {
		case i == 0 || (tmode == "fresh"):
			tmpl = w.newTemplate(cp, signer)
		case pmode == "chain": // two values alternate: the previous parent becomes the template again, changed
			if other == nil {
				tmpl = w.newTemplate(cp, signer)
			} else {
				tmpl = other
				w.change(cp, tmpl, signer, false, tags)
			}
		default:
			w.change(cp, tmpl, signer, false, tags)
		}
		tmpl.key = key
		var par *value
		switch pmode {
		case "self":
			par = tmpl
		case "hand":
			par = parent
			if i > 0 && r.Chance(80) {
				w.change(cp, par, signer, true, tags)
			}
		case "parsed":
			par = parent
			if i > 0 {
				w.changeParsed(par, tags)
			}
		case "chain":
			if i == 0 {
				par = tmpl
			} else {
				par = prev
				other = prev
				if r.Chance(40) { // the CA template is edited after it was used to self-sign
					w.change(cp, par, signer, true, tags)
				}
			}
		}
		// --- expected: shadow copies taken now
		e := &expect{t: cloneCert(tmpl.spec), subject: w.nameOf(tmpl.spec), issuer: w.nameOf(par.spec), key: key, alg: int(tmpl.spec.SignatureAlgorithm)}
		if par != tmpl {
			e.signer = signer
			if pmode == "parsed" && len(par.spec.RawSubject) > 0 {
				e.parent = par.live
			}
		}
		if len(tmpl.spec.RawSubject) > 0 {
			tags["seq:template-rawsubject-preset"] = true
		}
		if par != tmpl && len(par.spec.RawSubject) > 0 && pmode != "parsed" {
			tags["seq:parent-rawsubject-preset"] = true
		}
		// --- the call, inputs frozen around it
		fr := []frozen{freeze("template", tmpl.live), freeze("public key", key.Pub), freeze("private key", signer.Priv)}
		if par != tmpl {
			fr = append(fr, freeze("parent", par.live))
		}
		shadow := freeze("shadow", tmpl.spec)
		der, err := x509.CreateCertificate(zv.NewRng(0x5151+uint64(i)), tmpl.live, par.live, key.Pub, signer.Priv)
		var v []string
		for _, z := range fr {
			if m := z.check("CreateCertificate"); m != "" {
				v = append(v, m)
			}
		}
		if m := shadow.check("CreateCertificate"); m != "" {
			v = append(v, "harness: the live template shares memory with its shadow: "+m)
		}
		if err != nil {
			v = append(v, "CreateCertificate failed on a template inside the documented domain: "+err.Error())
		} else if c, err := x509.ParseCertificate(der); err != nil {
			v = append(v, "ParseCertificate rejects the created certificate: "+err.Error())
		} else {
			var ctags []string
			v = append(v, compareCert(c, e, &ctags)...)
		}
		for _, m := range v {
			viol = append(viol, fmt.Sprintf("call #%d of %d (template %s, parent %s): %s", i+1, n, tmode, pmode, m))
		}
		if len(viol) > 6 {
			break
		}
	}
	return zv.Out{Viol: strings.Join(viol, "; "), Tags: sortedTags(tags)}
}

// ---- name-constraint IP ranges in caller buffers ----

func execNCIP(f []string) zv.Out {
	seed, _ := strconv.ParseUint(f[2], 10, 64)
	mem := f[3]
	r := zv.NewRng(seed)
	tags := map[string]bool{"ncip": true, "ncip:mem=" + mem: true}
	spec := x509rig.RandTemplate(r, false)
	spec.PermittedIPAddresses, spec.ExcludedIPAddresses = nil, nil
	for i := 1 + r.Intn(4); i > 0; i-- {
		n := 4
		if r.Chance(40) {
			n = 16
		}
		s := x509.GeneralSubtreeIP{Data: x509rig.RandIPNet(r, n)}
		if r.Chance(65) {
			spec.PermittedIPAddresses = append(spec.PermittedIPAddresses, s)
		} else {
			spec.ExcludedIPAddresses = append(spec.ExcludedIPAddresses, s)
		}
	}
	key := x509rig.KeyByName(seqKeys[r.Intn(len(seqKeys))])
	live := new(x509.Certificate)
	apply(&x509rig.Copier{Mode: mem, R: r.Fork()}, live, spec, allFields)
	fr := freeze("template", live)
	// the bytes behind every range's IP (inside its capacity), to name the exact place that was written
	type behind struct {
		name string
		ip   []byte
		old  []byte
	}
	var bh []behind
	for _, l := range []struct {
		n string
		l []x509.GeneralSubtreeIP
	}{{"PermittedIPAddresses", live.PermittedIPAddresses}, {"ExcludedIPAddresses", live.ExcludedIPAddresses}} {
		for i, s := range l.l {
			ip := []byte(s.Data.IP)
			bh = append(bh, behind{fmt.Sprintf("template.%s[%d].Data.IP", l.n, i), ip, append([]byte{}, ip[:cap(ip)]...)})
		}
	}
	der, err := x509.CreateCertificate(zv.NewRng(0x5151), live, live, key.Pub, key.Priv)
	var viol []string
	for _, b := range bh {
		now := b.ip[:cap(b.ip)]
		n := 0
		for i := len(b.ip); i < len(now); i++ {
			if now[i] != b.old[i] {
				n++
			}
		}
		if n > 0 {
			viol = append(viol, fmt.Sprintf("CreateCertificate wrote %d bytes behind %s (len %d, cap %d): the caller's memory after the address now holds %x, was %x",
				n, b.name, len(b.ip), cap(b.ip), now[len(b.ip):min(len(now), 2*len(b.ip))], b.old[len(b.ip):min(len(now), 2*len(b.ip))]))
			tags["ncip:caller-buffer-written"] = true
		}
	}
	if m := fr.check("CreateCertificate"); m != "" {
		viol = append(viol, m)
	}
	if err != nil {
		viol = append(viol, "CreateCertificate failed on a template inside the documented domain: "+err.Error())
	} else if c, err := x509.ParseCertificate(der); err != nil {
		viol = append(viol, "ParseCertificate rejects the created certificate: "+err.Error())
	} else {
		var ctags []string
		viol = append(viol, compareCert(c, &expect{t: spec, subject: spec.Subject, issuer: spec.Subject, key: key}, &ctags)...)
	}
	return zv.Out{Viol: strings.Join(viol, "; "), Tags: sortedTags(tags)}
}

// ---- CreateCertificateRequest / CreateCRL / CreateRevocationList: same two oracles, small domain ----

func execAux(f []string) zv.Out {
	seed, _ := strconv.ParseUint(f[2], 10, 64)
	kind, mem := f[3], f[4]
	r := zv.NewRng(seed)
	w := &world{r: r, rawNames: map[string]pkix.Name{}}
	tags := map[string]bool{"aux:" + kind: true, "aux:mem=" + mem: true}
	cp := &x509rig.Copier{Mode: mem, R: r.Fork()}
	key := x509rig.KeyByName(seqKeys[r.Intn(len(seqKeys))])
	var viol []string
	bad := func(i int, format string, a ...any) {
		viol = append(viol, fmt.Sprintf("call #%d (%s): ", i+1, kind)+fmt.Sprintf(format, a...))
	}
	checkFrozen := func(i int, fn string, fr []frozen) {
		for _, z := range fr {
			if m := z.check(fn); m != "" {
				bad(i, "%s", m)
			}
		}
	}
	n := 2 + r.Intn(2)
	switch kind {
	case "csr":
		live := new(x509.CertificateRequest)
		for i := 0; i < n; i++ {
			cp.Reuse = mem != x509rig.MemExact && r.Chance(70)
			ct := x509rig.RandTemplate(r, false)
			spec := &x509.CertificateRequest{Subject: ct.Subject, DNSNames: ct.DNSNames, EmailAddresses: ct.EmailAddresses, IPAddresses: ct.IPAddresses}
			for j := r.Intn(3); j > 0; j-- {
				spec.ExtraExtensions = append(spec.ExtraExtensions, pkix.Extension{Id: x509rig.RandOID(r), Value: r.Bytes(1 + r.Intn(12))})
			}
			for _, fld := range []string{"Subject", "DNSNames", "EmailAddresses", "IPAddresses", "ExtraExtensions"} {
				cp.Field(live, spec, fld)
			}
			fr := []frozen{freeze("template", live), freeze("private key", key.Priv)}
			der, err := x509.CreateCertificateRequest(zv.NewRng(seed^uint64(i)), live, key.Priv)
			checkFrozen(i, "CreateCertificateRequest", fr)
			if err != nil {
				bad(i, "CreateCertificateRequest: %v", err)
				continue
			}
			c, err := x509.ParseCertificateRequest(der)
			if err != nil {
				bad(i, "ParseCertificateRequest rejects the created CSR: %v", err)
				continue
			}
			if nameVec(c.Subject) != nameVec(spec.Subject) {
				bad(i, "subject %s != %s", nameVec(c.Subject), nameVec(spec.Subject))
			}
			if !strEq(c.DNSNames, spec.DNSNames) || !strEq(c.EmailAddresses, spec.EmailAddresses) || len(c.IPAddresses) != len(spec.IPAddresses) {
				bad(i, "SAN %v %v %v != %v %v %v", c.DNSNames, c.EmailAddresses, c.IPAddresses, spec.DNSNames, spec.EmailAddresses, spec.IPAddresses)
			} else {
				for j := range spec.IPAddresses {
					if !c.IPAddresses[j].Equal(spec.IPAddresses[j]) {
						bad(i, "SAN ip %v != %v", c.IPAddresses[j], spec.IPAddresses[j])
					}
				}
			}
			if err := c.CheckSignature(); err != nil {
				bad(i, "CSR signature: %v", err)
			}
		}
	case "crl", "rl":
		issuer := w.handParent(cp)
		issuer.spec.KeyUsage |= x509.KeyUsageCRLSign
		issuer.live.KeyUsage = issuer.spec.KeyUsage
		if len(issuer.spec.SubjectKeyId) == 0 {
			issuer.spec.SubjectKeyId = r.Bytes(8)
			cp.Field(issuer.live, issuer.spec, "SubjectKeyId")
		}
		if kind == "crl" { // CreateCRL marshals c.Subject and never looks at RawSubject
			issuer.spec.RawSubject, issuer.live.RawSubject = nil, nil
		}
		rlLive := new(x509.RevocationList)
		var rcsLive []pkix.RevokedCertificate
		for i := 0; i < n; i++ {
			cp.Reuse = mem != x509rig.MemExact && r.Chance(70)
			if i > 0 && r.Chance(80) {
				w.change(cp, issuer, key, true, tags)
				if len(issuer.spec.SubjectKeyId) == 0 || issuer.spec.KeyUsage&x509.KeyUsageCRLSign == 0 || kind == "crl" && len(issuer.spec.RawSubject) > 0 {
					issuer.spec.SubjectKeyId, issuer.spec.KeyUsage, issuer.spec.RawSubject = []byte{1, 2, 3}, issuer.spec.KeyUsage|x509.KeyUsageCRLSign, nil
					issuer.live.SubjectKeyId, issuer.live.KeyUsage, issuer.live.RawSubject = []byte{1, 2, 3}, issuer.spec.KeyUsage, nil
				}
			}
			wantIssuer := nameVec(w.nameOf(issuer.spec))
			now := time.Date(2000+r.Intn(40), time.Month(1+r.Intn(12)), 1+r.Intn(28), r.Intn(24), 0, 0, 0, time.UTC)
			exp := now.Add(time.Duration(1+r.Intn(1000)) * time.Hour)
			var serials []*big.Int
			for j := r.Intn(4); j > 0; j-- {
				serials = append(serials, new(big.Int).SetBytes(r.Bytes(1+r.Intn(10))))
			}
			var gotIssuer string
			var gotSerials []*big.Int
			if kind == "crl" {
				var spec []pkix.RevokedCertificate
				for _, s := range serials {
					spec = append(spec, pkix.RevokedCertificate{SerialNumber: s, RevocationTime: now})
				}
				cp.Into(&rcsLive, spec)
				fr := []frozen{freeze("receiver", issuer.live), freeze("revoked list", rcsLive), freeze("private key", key.Priv)}
				der, err := issuer.live.CreateCRL(zv.NewRng(seed^uint64(i)), key.Priv, rcsLive, now, exp)
				checkFrozen(i, "CreateCRL", fr)
				if err != nil {
					bad(i, "CreateCRL: %v", err)
					continue
				}
				cl, err := x509.ParseCRL(der)
				if err != nil {
					bad(i, "ParseCRL rejects the created CRL: %v", err)
					continue
				}
				var nm pkix.Name
				nm.FillFromRDNSequence(&cl.TBSCertList.Issuer)
				gotIssuer = nameVec(nm)
				for _, rc := range cl.TBSCertList.RevokedCertificates {
					gotSerials = append(gotSerials, rc.SerialNumber)
				}
			} else {
				spec := &x509.RevocationList{Number: big.NewInt(int64(1 + r.Intn(1000))), ThisUpdate: now, NextUpdate: exp}
				for _, s := range serials {
					spec.RevokedCertificates = append(spec.RevokedCertificates, x509.RevokedCertificate{SerialNumber: s, RevocationTime: now})
				}
				for _, fld := range []string{"Number", "ThisUpdate", "NextUpdate", "RevokedCertificates"} {
					cp.Field(rlLive, spec, fld)
				}
				fr := []frozen{freeze("template", rlLive), freeze("issuer", issuer.live), freeze("private key", key.Priv)}
				der, err := x509.CreateRevocationList(zv.NewRng(seed^uint64(i)), rlLive, issuer.live, key.Priv)
				checkFrozen(i, "CreateRevocationList", fr)
				if err != nil {
					bad(i, "CreateRevocationList: %v", err)
					continue
				}
				rl, err := x509.ParseRevocationList(der)
				if err != nil {
					bad(i, "ParseRevocationList rejects the created list: %v", err)
					continue
				}
				gotIssuer = nameVec(rl.Issuer)
				for _, rc := range rl.RevokedCertificates {
					gotSerials = append(gotSerials, rc.SerialNumber)
				}
				if rl.Number == nil || rl.Number.Cmp(spec.Number) != 0 {
					bad(i, "CRL number %v != %v", rl.Number, spec.Number)
				}
			}
			if gotIssuer != wantIssuer {
				bad(i, "issuer %s != %s", gotIssuer, wantIssuer)
			}
			if len(gotSerials) != len(serials) {
				bad(i, "%d entries != %d", len(gotSerials), len(serials))
			} else {
				for j := range serials {
					if gotSerials[j].Cmp(serials[j]) != 0 {
						bad(i, "entry %d serial %v != %v", j, gotSerials[j], serials[j])
					}
				}
			}
		}
	default:
		return zv.Out{Viol: "bad line"}
	}
	return zv.Out{Viol: strings.Join(viol, "; "), Tags: sortedTags(tags)}
}

// ---- Gen ----

func genReuse(g *zv.Gen) {
	r := g.Rng
	mems := []string{x509rig.MemExact, x509rig.MemSpare, x509rig.MemArena}
	combos := [][2]string{{"reuse", "self"}, {"reuse", "hand"}, {"reuse", "parsed"}, {"reuse", "chain"}, {"fresh", "hand"}, {"fresh", "parsed"}, {"fresh", "chain"}}
	per := g.N(12, 150)
	for _, c := range combos {
		for _, m := range mems {
			for n := 2; n <= 4; n++ {
				for i := 0; i < per; i++ {
					g.Emitf("c04 seq %d %d %s %s %s", r.U64()>>1, n, c[0], c[1], m)
				}
			}
		}
	}
	for i := g.N(150, 3000); i > 0; i-- { // single calls, every slice with spare capacity / in a shared buffer
		g.Emitf("c04 seq %d 1 fresh self %s", r.U64()>>1, mems[1+r.Intn(2)])
	}
	for _, k := range []string{"csr", "crl", "rl"} {
		for _, m := range mems {
			for i := g.N(15, 300); i > 0; i-- {
				g.Emitf("c04 aux %d %s %s", r.U64()>>1, k, m)
			}
		}
	}
	for _, m := range mems {
		for i := g.N(40, 600); i > 0; i-- {
			g.Emitf("c04 ncip %d %s", r.U64()>>1, m)
		}
	}
}
