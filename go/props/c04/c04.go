// Package c04: certificate issuance round-trips through parsing — x509.CreateCertificate → x509.ParseCertificate,
// field by field, plus the extension list (OID, critical, value bytes) against the Lean model of buildExtensions.
package c04

import (
	"bytes"
	"crypto"
	"encoding/hex"
	"fmt"
	"math/big"
	"net"
	"reflect"
	"sort"
	"strconv"
	"strings"

	"github.com/zmap/zcrypto/encoding/asn1"
	"github.com/zmap/zcrypto/x509"
	"github.com/zmap/zcrypto/x509/pkix"

	"zv/internal/x509rig"
	"zv/internal/zv"
)

// ---- deterministic case construction from a seed ----

type tcase struct {
	t       *x509.Certificate
	key     *x509rig.Key
	signer  *x509rig.Key // nil = self-signed
	parentT *x509.Certificate
}

var overridable = [][]int{{2, 5, 29, 15}, {2, 5, 29, 19}, {2, 5, 29, 14}, {2, 5, 29, 35}, {2, 5, 29, 17}, {2, 5, 29, 37}, {2, 5, 29, 31}, {2, 5, 29, 32}, {1, 3, 6, 1, 5, 5, 7, 1, 1}}

func overrideValue(r *zv.Rng, oid []int) []byte {
	T := x509rig.TLV
	switch oid[len(oid)-1] {
	case 15:
		return []byte{0x03, 0x02, 0x01, 0x06}
	case 19:
		return T(0x30, x509rig.Cat([]byte{0x01, 0x01, 0xff}, []byte{0x02, 0x01, byte(r.Intn(100))}))
	case 14:
		return T(0x04, r.Bytes(1+r.Intn(20)))
	case 35:
		return T(0x30, T(0x80, r.Bytes(1+r.Intn(20))))
	case 17:
		return T(0x30, x509rig.Cat(T(0x82, []byte("override.example")), T(0x86, []byte("http://u.example/")), T(0x87, r.Bytes(4))))
	case 37:
		return T(0x30, []byte{0x06, 0x08, 0x2b, 0x06, 0x01, 0x05, 0x05, 0x07, 0x03, 0x01, 0x06, 0x04, 0x2b, 0xce, 0x0f, 0x09})
	case 31:
		return T(0x30, T(0x30, T(0xA0, T(0xA0, T(0x86, []byte("http://override/crl"))))))
	case 32:
		return T(0x30, T(0x30, []byte{0x06, 0x03, 0x2b, 0xce, 0x0f}))
	case 1:
		return T(0x30, T(0x30, x509rig.Cat([]byte{0x06, 0x08, 0x2b, 0x06, 0x01, 0x05, 0x05, 0x07, 0x30, 0x01}, T(0x86, []byte("http://override/ocsp")))))
	}
	return nil
}

func addOverrides(r *zv.Rng, t *x509.Certificate) {
	for i := 1 + r.Intn(2); i > 0; i-- {
		oid := overridable[r.Intn(len(overridable))]
		dup := false
		for _, e := range t.ExtraExtensions {
			if e.Id.Equal(oid) {
				dup = true
			}
		}
		if !dup {
			t.ExtraExtensions = append(t.ExtraExtensions, pkix.Extension{Id: oid, Critical: r.Bool(), Value: overrideValue(r, oid)})
		}
	}
}

func build(seed uint64, keyName, signerName string, alg int) *tcase {
	r := zv.NewRng(seed)
	tc := &tcase{key: x509rig.KeyByName(keyName)}
	tc.t = x509rig.RandTemplate(r, r.Chance(60))
	if r.Chance(20) { // ExtraExtensions overriding generated ones
		addOverrides(r, tc.t)
	}
	tc.t.SignatureAlgorithm = x509.SignatureAlgorithm(alg)
	if signerName != "self" {
		tc.signer = x509rig.KeyByName(signerName)
		p := x509rig.RandTemplate(r, false)
		p.BasicConstraintsValid, p.IsCA = true, true
		if p.KeyUsage != 0 {
			p.KeyUsage |= x509.KeyUsageCertSign
		}
		p.ExtraExtensions = nil
		p.SignatureAlgorithm = 0
		tc.parentT = p
	}
	return tc
}

// ---- template → model fields ----

func hexList(l [][]byte) string {
	if len(l) == 0 {
		return "-"
	}
	var s []string
	for _, b := range l {
		s = append(s, hex.EncodeToString(b))
	}
	return strings.Join(s, ",")
}
func strs(l []string) [][]byte {
	var o [][]byte
	for _, s := range l {
		o = append(o, []byte(s))
	}
	return o
}
func oidStr(o []int) string {
	var p []string
	for _, a := range o {
		p = append(p, strconv.Itoa(a))
	}
	return strings.Join(p, ".")
}
func oidList(l []asn1.ObjectIdentifier) string {
	if len(l) == 0 {
		return "-"
	}
	var s []string
	for _, o := range l {
		s = append(s, oidStr(o))
	}
	return strings.Join(s, ";")
}
func b01(b bool) string {
	if b {
		return "1"
	}
	return "0"
}
func hx(b []byte) string { return zv.Hex(b) }

func hasNC(t *x509.Certificate) bool {
	return len(t.PermittedEmailAddresses) > 0 || len(t.PermittedDNSNames) > 0 || len(t.PermittedDirectoryNames) > 0 ||
		len(t.PermittedIPAddresses) > 0 || len(t.ExcludedEmailAddresses) > 0 || len(t.ExcludedDNSNames) > 0 ||
		len(t.ExcludedDirectoryNames) > 0 || len(t.ExcludedIPAddresses) > 0
}

// modelFields renders the template for the Lean model. nc = opaque name-constraints value ("-" or "crit:hex").
func modelFields(t *x509.Certificate, nc string) string {
	var eku []string
	for _, u := range t.ExtKeyUsage {
		eku = append(eku, strconv.Itoa(int(u)))
	}
	ekuS := "-"
	if len(eku) > 0 {
		ekuS = strings.Join(eku, ",")
	}
	var ips [][]byte
	for _, ip := range t.IPAddresses {
		ips = append(ips, []byte(ip))
	}
	var extra []string
	for _, e := range t.ExtraExtensions {
		extra = append(extra, oidStr(e.Id)+":"+b01(e.Critical)+":"+hx(e.Value))
	}
	extraS := "-"
	if len(extra) > 0 {
		extraS = strings.Join(extra, ";")
	}
	return strings.Join([]string{
		strconv.Itoa(int(t.KeyUsage)), ekuS, oidList(t.UnknownExtKeyUsage),
		fmt.Sprintf("%s,%s,%d,%s", b01(t.BasicConstraintsValid), b01(t.IsCA), t.MaxPathLen, b01(t.MaxPathLenZero)),
		hx(t.SubjectKeyId), hx(t.AuthorityKeyId), hexList(strs(t.OCSPServer)), hexList(strs(t.IssuingCertificateURL)),
		hexList(strs(t.DNSNames)), hexList(strs(t.EmailAddresses)), hexList(ips), oidList(t.PolicyIdentifiers), nc,
		hexList(strs(t.CRLDistributionPoints)), extraS}, " ")
}

// create runs the real code. Every argument of every CreateCertificate call is fingerprinted (x509rig.Fingerprint: all
// fields, lengths, capacities, spare capacity) before and after the call; mut lists the arguments that were written to.
func create(tc *tcase) (der []byte, parent *x509.Certificate, parentDER []byte, mut []string, err error) {
	rnd := zv.NewRng(0x5151)
	call := func(what string, template, par *x509.Certificate, key, signer *x509rig.Key) ([]byte, error) {
		fr := []frozen{freeze("template", template), freeze("public key", key.Pub), freeze("private key", signer.Priv)}
		if par != template {
			fr = append(fr, freeze("parent", par))
		}
		d, e := x509.CreateCertificate(rnd, template, par, key.Pub, signer.Priv)
		for _, z := range fr {
			if m := z.check("CreateCertificate (" + what + ")"); m != "" {
				mut = append(mut, m)
			}
		}
		return d, e
	}
	if tc.signer == nil {
		der, err = call("self-signed", tc.t, tc.t, tc.key, tc.key)
		return
	}
	parentDER, err = call("parent", tc.parentT, tc.parentT, tc.signer, tc.signer)
	if err != nil {
		return nil, nil, nil, mut, fmt.Errorf("parent: %w", err)
	}
	parent, err = x509.ParseCertificate(parentDER)
	if err != nil {
		return nil, nil, nil, mut, fmt.Errorf("parent parse: %w", err)
	}
	der, err = call("issued", tc.t, parent, tc.key, tc.signer)
	return
}

func ncOf(der []byte) string {
	c, err := x509.ParseCertificate(der)
	if err != nil {
		return "-"
	}
	for _, e := range c.Extensions {
		if e.Id.Equal([]int{2, 5, 29, 30}) {
			return b01(e.Critical) + ":" + hx(e.Value)
		}
	}
	return "-"
}

// ---- Exec ----

// multi-valued attributes are marshalled as ONE RelativeDistinguishedName (a SET OF, which DER sorts), so the order of
// the values of one attribute type is not preserved — they are compared as multisets.
func sorted(l []string) []string {
	o := append([]string{}, l...)
	sort.Strings(o)
	return o
}

func nameVec(n pkix.Name) string {
	n.Organization, n.OrganizationalUnit, n.Country, n.Locality, n.Province = sorted(n.Organization), sorted(n.OrganizationalUnit), sorted(n.Country), sorted(n.Locality), sorted(n.Province)
	n.StreetAddress, n.PostalCode, n.DomainComponent, n.EmailAddress = sorted(n.StreetAddress), sorted(n.PostalCode), sorted(n.DomainComponent), sorted(n.EmailAddress)
	return fmt.Sprintf("CN=%q O=%q OU=%q C=%q L=%q ST=%q STREET=%q PC=%q SN=%q DC=%q E=%q JL=%q JST=%q JC=%q OID=%q", n.CommonName, n.Organization, n.OrganizationalUnit,
		n.Country, n.Locality, n.Province, n.StreetAddress, n.PostalCode, n.SerialNumber, n.DomainComponent, n.EmailAddress,
		sorted(n.JurisdictionLocality), sorted(n.JurisdictionProvince), sorted(n.JurisdictionCountry), sorted(n.OrganizationIDs))
}

func strEq(a, b []string) bool {
	if len(a) == 0 && len(b) == 0 {
		return true
	}
	return reflect.DeepEqual(a, b)
}

func subtreeStrings(l []x509.GeneralSubtreeString) []string {
	var o []string
	for _, s := range l {
		o = append(o, fmt.Sprintf("%s/%d/%d", s.Data, s.Min, s.Max))
	}
	return o
}
func subtreeIPs(l []x509.GeneralSubtreeIP) []string {
	var o []string
	for _, s := range l {
		o = append(o, fmt.Sprintf("%x/%x/%d/%d", []byte(s.Data.IP), []byte(s.Data.Mask), s.Min, s.Max))
	}
	return o
}
func subtreeNames(l []x509.GeneralSubtreeName) []string {
	var o []string
	for _, s := range l {
		o = append(o, nameVec(s.Data))
	}
	return o
}

var sigTable = map[x509.SignatureAlgorithm]struct {
	scheme string
	h      crypto.Hash
}{
	x509.MD5WithRSA: {"pkcs1", crypto.MD5}, x509.SHA1WithRSA: {"pkcs1", crypto.SHA1}, x509.SHA256WithRSA: {"pkcs1", crypto.SHA256},
	x509.SHA384WithRSA: {"pkcs1", crypto.SHA384}, x509.SHA512WithRSA: {"pkcs1", crypto.SHA512},
	x509.SHA256WithRSAPSS: {"pss", crypto.SHA256}, x509.SHA384WithRSAPSS: {"pss", crypto.SHA384}, x509.SHA512WithRSAPSS: {"pss", crypto.SHA512},
	x509.ECDSAWithSHA1: {"ecdsa", crypto.SHA1}, x509.ECDSAWithSHA256: {"ecdsa", crypto.SHA256}, x509.ECDSAWithSHA384: {"ecdsa", crypto.SHA384},
	x509.ECDSAWithSHA512: {"ecdsa", crypto.SHA512}, x509.Ed25519Sig: {"ed25519", 0},
}

func overridden(t *x509.Certificate, oid []int) bool {
	for _, e := range t.ExtraExtensions {
		if e.Id.Equal(oid) {
			return true
		}
	}
	return false
}

func exec(line string) zv.Out {
	f := strings.Fields(line)
	if len(f) > 1 && (f[1] == "val" || f[1] == "valnil") {
		return execVal(f)
	}
	if len(f) > 1 && (f[1] == "nc" || f[1] == "ncp") {
		return execNC(f)
	}
	if len(f) > 1 && f[1] != "t" {
		return execReuse(f)
	}
	if len(f) != 21 || f[1] != "t" {
		return zv.Out{Viol: "bad line"}
	}
	seed, _ := strconv.ParseUint(f[2], 10, 64)
	alg, _ := strconv.Atoi(f[5])
	tc := build(seed, f[3], f[4], alg)
	t := tc.t
	tags := []string{"key=" + f[3], "alg=" + x509.SignatureAlgorithm(alg).String()}
	if tc.signer == nil {
		tags = append(tags, "self-signed")
	} else {
		tags = append(tags, "issued-by="+f[4])
	}
	tags = append(tags, x509rig.NameClasses(t.Subject)...)
	// sh: the same case built a second time from the seed — the library never sees it; the certificate is compared with
	// sh.t, not with the value that went through CreateCertificate (a write-back into the template would hide itself)
	sh := build(seed, f[3], f[4], alg)
	der, parent, _, mutated, err := create(tc)
	if err != nil {
		return zv.Out{Go: "err", Viol: "CreateCertificate failed on a template inside the documented domain: " + err.Error(), Tags: tags}
	}
	c, err := x509.ParseCertificate(der)
	if err != nil {
		return zv.Out{Go: "err", Viol: "ParseCertificate rejects the created certificate: " + err.Error(), Tags: tags}
	}
	if got := modelFields(sh.t, ncOf(der)); got != strings.Join(f[6:], " ") {
		return zv.Out{Viol: "harness: template regenerated from the seed differs from the fields on the line", Tags: tags}
	}

	// ---- canonical output for T2 ----
	var exts []string
	for _, e := range c.Extensions {
		exts = append(exts, oidStr(e.Id)+":"+b01(e.Critical)+":"+hx(e.Value))
	}
	extS := "-"
	if len(exts) > 0 {
		extS = strings.Join(exts, ";")
	}
	var eku []string
	for _, u := range c.ExtKeyUsage {
		eku = append(eku, strconv.Itoa(int(u)))
	}
	ekuS := "-"
	if len(eku) > 0 {
		ekuS = strings.Join(eku, ",")
	}
	var ips [][]byte
	for _, ip := range c.IPAddresses {
		ips = append(ips, []byte(ip))
	}
	out := fmt.Sprintf("ok exts=%s ku=%d eku=%s unk=%s bc=%s,%s,%d,%s ski=%s aki=%s dns=%s email=%s uri=%s ip=%s ocsp=%s iss=%s crldp=%s pol=%s",
		extS, int(c.KeyUsage), ekuS, oidList(c.UnknownExtKeyUsage), b01(c.BasicConstraintsValid), b01(c.IsCA), c.MaxPathLen, b01(c.MaxPathLenZero),
		hx(c.SubjectKeyId), hx(c.AuthorityKeyId), hexList(strs(c.DNSNames)), hexList(strs(c.EmailAddresses)), hexList(strs(c.URIs)), hexList(ips),
		hexList(strs(c.OCSPServer)), hexList(strs(c.IssuingCertificateURL)), hexList(strs(c.CRLDistributionPoints)), oidList(c.PolicyIdentifiers))

	// ---- T3: field-by-field round trip ----
	e := &expect{t: sh.t, subject: sh.t.Subject, issuer: sh.t.Subject, key: tc.key, alg: alg}
	if tc.signer != nil {
		e.issuer, e.signer, e.parent = sh.parentT.Subject, tc.signer, parent
	}
	viol := append(mutated, compareCert(c, e, &tags)...)
	sort.Strings(tags)
	return zv.Out{Go: out, Viol: strings.Join(viol, "; "), Tags: tags}
}

// expect: what a created certificate has to report. t is the template AS IT WAS AT THE TIME OF THE CALL (a value the
// library never saw when the caller's template is re-used), subject/issuer the names the certificate must carry.
type expect struct {
	t               *x509.Certificate
	subject, issuer pkix.Name
	key             *x509rig.Key      // subject key
	signer          *x509rig.Key      // nil = self-signed (parent == template, signed with key)
	parent          *x509.Certificate // parsed parent certificate, nil when self-signed or when the parent was hand-built
	alg             int
}

// compareCert: the T3 oracle — every listed field of the parsed certificate against the template, and the signature.
func compareCert(c *x509.Certificate, e *expect, tagsp *[]string) []string {
	t, tags := e.t, *tagsp
	defer func() { *tagsp = tags }()
	var viol []string
	bad := func(format string, a ...any) { viol = append(viol, fmt.Sprintf(format, a...)) }
	if c.SerialNumber.Cmp(t.SerialNumber) != 0 {
		bad("serial %v != %v", c.SerialNumber, t.SerialNumber)
	}
	if t.SerialNumber.Sign() < 0 {
		tags = append(tags, "serial-negative")
	} else if t.SerialNumber.BitLen() > 128 {
		tags = append(tags, "serial>128bit")
	}
	if nameVec(c.Subject) != nameVec(e.subject) {
		bad("subject %s != %s", nameVec(c.Subject), nameVec(e.subject))
	}
	if e.parent != nil && !bytes.Equal(c.RawIssuer, e.parent.RawSubject) {
		bad("RawIssuer != parent.RawSubject")
	}
	if nameVec(c.Issuer) != nameVec(e.issuer) {
		bad("issuer %s != %s", nameVec(c.Issuer), nameVec(e.issuer))
	}
	if !c.NotBefore.Equal(t.NotBefore) || !c.NotAfter.Equal(t.NotAfter) {
		bad("validity %v..%v != %v..%v", c.NotBefore, c.NotAfter, t.NotBefore, t.NotAfter)
	}
	if t.NotAfter.Year() >= 2050 {
		tags = append(tags, "generalizedtime")
	}
	if c.Version != 3 {
		bad("version %d", c.Version)
	}
	if !overridden(t, []int{2, 5, 29, 15}) && c.KeyUsage != t.KeyUsage {
		bad("KeyUsage %d != %d", c.KeyUsage, t.KeyUsage)
	}
	if !overridden(t, []int{2, 5, 29, 37}) {
		if len(c.ExtKeyUsage) != len(t.ExtKeyUsage) || (len(t.ExtKeyUsage) > 0 && !reflect.DeepEqual(c.ExtKeyUsage, t.ExtKeyUsage)) {
			bad("ExtKeyUsage %v != %v", c.ExtKeyUsage, t.ExtKeyUsage)
		}
		if oidList(c.UnknownExtKeyUsage) != oidList(t.UnknownExtKeyUsage) {
			bad("UnknownExtKeyUsage %v != %v", c.UnknownExtKeyUsage, t.UnknownExtKeyUsage)
		}
	}
	if !overridden(t, []int{2, 5, 29, 19}) {
		wantMPL, wantZero := 0, false
		if t.BasicConstraintsValid {
			wantMPL = t.MaxPathLen
			if t.MaxPathLen == 0 && !t.MaxPathLenZero {
				wantMPL = -1
			}
			wantZero = wantMPL == 0
			tags = append(tags, fmt.Sprintf("bc:mpl=%s", map[bool]string{true: "set", false: "unset(-1)"}[wantMPL >= 0]))
		}
		wantCA := t.BasicConstraintsValid && t.IsCA
		if c.BasicConstraintsValid != t.BasicConstraintsValid || c.IsCA != wantCA || c.MaxPathLen != wantMPL || c.MaxPathLenZero != wantZero {
			bad("basic constraints (valid=%v ca=%v mpl=%d zero=%v) != (valid=%v ca=%v mpl=%d zero=%v)", c.BasicConstraintsValid, c.IsCA, c.MaxPathLen, c.MaxPathLenZero,
				t.BasicConstraintsValid, wantCA, wantMPL, wantZero)
		}
	}
	if !overridden(t, []int{2, 5, 29, 14}) && !bytes.Equal(c.SubjectKeyId, t.SubjectKeyId) {
		bad("SubjectKeyId")
	}
	if !overridden(t, []int{2, 5, 29, 35}) && !bytes.Equal(c.AuthorityKeyId, t.AuthorityKeyId) {
		bad("AuthorityKeyId %x != template %x", c.AuthorityKeyId, t.AuthorityKeyId)
	}
	if !overridden(t, []int{2, 5, 29, 17}) {
		if !strEq(c.DNSNames, t.DNSNames) || !strEq(c.EmailAddresses, t.EmailAddresses) {
			bad("SAN dns/email %v %v != %v %v", c.DNSNames, c.EmailAddresses, t.DNSNames, t.EmailAddresses)
		}
		if len(c.IPAddresses) != len(t.IPAddresses) {
			bad("SAN ip count")
		} else {
			for i := range t.IPAddresses {
				if !c.IPAddresses[i].Equal(t.IPAddresses[i]) {
					bad("SAN ip %v != %v", c.IPAddresses[i], t.IPAddresses[i])
				}
				if len(t.IPAddresses[i]) == 16 && t.IPAddresses[i].To4() != nil {
					tags = append(tags, "ipv4-in-16-bytes")
					if len(c.IPAddresses[i]) != 4 {
						bad("IPv4 given in 16-byte form not normalised to 4 bytes")
					}
				}
			}
		}
	}
	if !overridden(t, []int{1, 3, 6, 1, 5, 5, 7, 1, 1}) && (!strEq(c.OCSPServer, t.OCSPServer) || !strEq(c.IssuingCertificateURL, t.IssuingCertificateURL)) {
		bad("AIA")
	}
	if !overridden(t, []int{2, 5, 29, 31}) && !strEq(c.CRLDistributionPoints, t.CRLDistributionPoints) {
		bad("CRLDistributionPoints %v != %v", c.CRLDistributionPoints, t.CRLDistributionPoints)
	}
	if !overridden(t, []int{2, 5, 29, 32}) && oidList(c.PolicyIdentifiers) != oidList(t.PolicyIdentifiers) {
		bad("PolicyIdentifiers")
	}
	if hasNC(t) {
		tags = append(tags, "name-constraints")
		if c.NameConstraintsCritical != t.NameConstraintsCritical {
			bad("NameConstraintsCritical")
		}
		cmp := func(name string, a, b []string) {
			if !strEq(a, b) {
				bad("name constraints %s: %v != %v", name, a, b)
			}
		}
		cmp("permitted dns", subtreeStrings(c.PermittedDNSNames), subtreeStrings(t.PermittedDNSNames))
		cmp("excluded dns", subtreeStrings(c.ExcludedDNSNames), subtreeStrings(t.ExcludedDNSNames))
		cmp("permitted email", subtreeStrings(c.PermittedEmailAddresses), subtreeStrings(t.PermittedEmailAddresses))
		cmp("excluded email", subtreeStrings(c.ExcludedEmailAddresses), subtreeStrings(t.ExcludedEmailAddresses))
		cmp("permitted ip", subtreeIPs(c.PermittedIPAddresses), subtreeIPs(t.PermittedIPAddresses))
		cmp("excluded ip", subtreeIPs(c.ExcludedIPAddresses), subtreeIPs(t.ExcludedIPAddresses))
		cmp("permitted dirname", subtreeNames(c.PermittedDirectoryNames), subtreeNames(t.PermittedDirectoryNames))
		cmp("excluded dirname", subtreeNames(c.ExcludedDirectoryNames), subtreeNames(t.ExcludedDirectoryNames))
	}
	// extra extensions: all present, in order, at the end; an overriding one suppresses the generated one
	ne := len(t.ExtraExtensions)
	if ne > 0 {
		tags = append(tags, "extra-extensions")
		if len(c.Extensions) < ne {
			bad("extra extensions missing")
		} else {
			tail := c.Extensions[len(c.Extensions)-ne:]
			for i, e := range t.ExtraExtensions {
				if !tail[i].Id.Equal(e.Id) || tail[i].Critical != e.Critical || !bytes.Equal(tail[i].Value, e.Value) {
					bad("extra extension %d (%v) not reproduced", i, e.Id)
				}
			}
		}
		for _, oid := range overridable {
			if overridden(t, oid) {
				tags = append(tags, "override")
				n := 0
				for _, e := range c.Extensions {
					if e.Id.Equal(oid) {
						n++
					}
				}
				if n != 1 {
					bad("extension %v appears %d times although ExtraExtensions overrides it", oid, n)
				}
			}
		}
	}
	// signature
	signerKey, parentForCheck := e.key, c
	if e.signer != nil {
		signerKey, parentForCheck = e.signer, e.parent
		if e.parent != nil {
			if err := c.CheckSignatureFrom(e.parent); err != nil {
				bad("CheckSignatureFrom(parent): %v", err)
			}
		}
		// issued certificate: self-signed only if the names coincide AND the signer key is the subject key
		if want := bytes.Equal(c.RawIssuer, c.RawSubject) && e.signer.Name == e.key.Name; c.SelfSigned != want {
			bad("SelfSigned=%v on an issued certificate (issuer==subject: %v, same key: %v)", c.SelfSigned, bytes.Equal(c.RawIssuer, c.RawSubject), e.signer.Name == e.key.Name)
		}
	} else {
		if !c.SelfSigned {
			bad("self-signed certificate not flagged SelfSigned")
		}
	}
	if parentForCheck != nil {
		if err := parentForCheck.CheckSignature(c.SignatureAlgorithm, c.RawTBSCertificate, c.Signature); err != nil {
			bad("CheckSignature with the signer's certificate: %v", err)
		}
	} else if err := x509.CheckSignatureFromKey(signerKey.Pub, c.SignatureAlgorithm, c.RawTBSCertificate, c.Signature); err != nil {
		bad("CheckSignatureFromKey with the signer's public key: %v", err) // hand-built parent: there is no parent certificate
	}
	if d, ok := sigTable[c.SignatureAlgorithm]; ok {
		if good, known := x509rig.Verify(signerKey.Pub, d.scheme, d.h, c.RawTBSCertificate, c.Signature); known && !good {
			bad("signature does not verify with the standard library (%s/%v)", d.scheme, d.h)
		}
	} else {
		bad("parsed SignatureAlgorithm %v unknown", c.SignatureAlgorithm)
	}
	if e.alg != 0 && int(c.SignatureAlgorithm) != e.alg {
		bad("SignatureAlgorithm %v != requested %v", c.SignatureAlgorithm, x509.SignatureAlgorithm(e.alg))
	}
	return viol
}

// ---- Gen ----

func emit(g *zv.Gen, seed uint64, key, signer string, alg int) {
	sk := signer
	if sk == "self" {
		sk = key
	}
	if sk == "rsa1024" && x509.SignatureAlgorithm(alg) == x509.SHA512WithRSAPSS {
		return // EMSA-PSS with SHA-512 and a 64-byte salt needs a modulus of at least 1040 bits: outside the domain
	}
	tc := build(seed, key, signer, alg)
	nc := "-"
	if hasNC(tc.t) && !overridden(tc.t, []int{2, 5, 29, 30}) {
		if der, _, _, _, err := create(tc); err == nil {
			nc = ncOf(der)
		}
	}
	g.Emitf("c04 t %d %s %s %d %s", seed, key, signer, alg, modelFields(tc.t, nc))
}

func gen(g *zv.Gen) {
	r := g.Rng
	keys := x509rig.Keys()
	// every key type x every accepted signature algorithm x self-signed / issued, a few templates each
	per := g.N(2, 12)
	for _, k := range keys {
		for _, a := range x509rig.SigAlgsFor(k.Kind) {
			for i := 0; i < per; i++ {
				emit(g, r.U64()>>1, k.Name, "self", int(a))
			}
		}
	}
	for _, s := range keys {
		for _, a := range x509rig.SigAlgsFor(s.Kind) {
			for i := 0; i < per; i++ {
				emit(g, r.U64()>>1, keys[r.Intn(len(keys))].Name, s.Name, int(a))
			}
		}
	}
	// random
	n := g.N(1800, 60000)
	for i := 0; i < n; i++ {
		k := keys[r.Intn(len(keys))]
		if k.Name == "rsa2048" && r.Chance(60) {
			k = keys[0]
		}
		signer := "self"
		algs := x509rig.SigAlgsFor(k.Kind)
		if r.Chance(45) {
			s := keys[r.Intn(len(keys))]
			if s.Name == "rsa2048" && r.Chance(60) {
				s = keys[0]
			}
			signer = s.Name
			algs = x509rig.SigAlgsFor(s.Kind)
		}
		emit(g, r.U64()>>1, k.Name, signer, int(algs[r.Intn(len(algs))]))
	}
	genNC(g)
	genVal(g)
	genReuse(g)
}

var _ = big.NewInt
var _ = net.IPv4len

func init() {
	zv.Register(&zv.Prop{ID: "C04", Topic: "c04", Gen: gen, Exec: exec,
		Rule: "templates drawn over the documented field domain (serials incl. 0, negative and 160-bit; names whose attribute values (CN, O, OU, L, ST, STREET, SN, EV jurisdiction, organizationIdentifier; also in directory-name constraints and the issuer) are drawn from printable ASCII, ASCII outside PrintableString, Latin-1, runes >= U+0100 whose low byte is a PrintableString character alone and mixed with printable ASCII, 22 Unicode blocks up to plane 14, UTF-8 length boundaries, real-world names, uniformly random code points; validity in the UTCTime and GeneralizedTime ranges and at their boundaries; KeyUsage 0..511; known/unknown EKUs; basic constraints with MaxPathLen -1/0/unset/n; key ids; DNS/email/IP SANs incl. IPv4 in 16-byte form; AIA; CRLDP; policies; name constraints with DNS/email/IP/directory names; extra extensions incl. ones overriding generated extensions) x subject key {RSA-1024/2048, P-224..P-521, Ed25519} x every signature algorithm CreateCertificate accepts for the signer x self-signed/issued; a case is one distinct template+keys; T3 = field-by-field comparison with the template, CheckSignatureFrom(parent) and standard-library signature verification. " +
			"Re-use stream (T3 only, reuse.go): sequences of 1-4 CreateCertificate calls that re-use the caller's values — one template value with field groups (subject, serial, validity, SANs, key usage, EKU, basic constraints, key ids, AIA, CRLDP, policies, name constraints, extra extensions, signature algorithm, RawSubject pre-set/cleared, junk in the other Raw* fields) changed in place or the whole struct re-assigned between the calls; parent = the template itself, one hand-built parent, one parsed parent (Subject edited with RawSubject kept / RawSubject cleared with a new or an edited Subject / key id replaced) or the previous template (chain, two values alternating roles) x memory layout of every slice handed in (cap == len / poisoned spare capacity re-filled in place like append(buf[:0], ...) / byte strings as windows of shared buffers); every certificate is compared with a shadow copy of the template as it was at the time of its call (the library never sees the shadow), issuer = the parent's name at that time; template, parent, public and private key are fingerprinted (every field incl. unexported ones, slice lengths, capacities and the contents of the spare capacity) before and after each call: any write into an argument is a violation. The same two oracles on CreateCertificateRequest, Certificate.CreateCRL and CreateRevocationList with a re-used hand-built issuer (aux lines), and on name-constraint IP ranges whose IP/Mask byte strings have spare capacity or share a buffer (ncip lines)"})
}
