package c33

// Calling conventions (T3 only): `c33 cc <type> <convention> <seed>`.
//
// encoding/json only calls a MarshalJSON method with a POINTER receiver when the value it walks is addressable; for a
// non-addressable value it silently falls back to the default encoding of the underlying type, which the type's
// UnmarshalJSON (always reached, the decoder allocates addressable storage) usually rejects.  So "the JSON encoding of
// a value round-trips" has to be checked in every position a value can be handed to json.Marshal in, not only through
// `json.Marshal(&v)`.  Each line builds one random value of one type, marshals it in ONE convention, decodes the text
// into the matching target shape (value targets and pointer targets) and applies the type's equality notion.

import (
	"encoding/json"
	"fmt"
	"sort"

	zjson "github.com/zmap/zcrypto/json"
	"github.com/zmap/zcrypto/tls"
	"github.com/zmap/zcrypto/x509"

	"zv/internal/zv"
)

type fieldV[T any] struct {
	A int    `json:"a"`
	F T      `json:"f"`
	Z string `json:"z"`
}
type fieldP[T any] struct {
	A int    `json:"a"`
	F *T     `json:"f"`
	Z string `json:"z"`
}
type fieldI struct {
	A int         `json:"a"`
	F interface{} `json:"f"`
}
type nestedV[T any] struct {
	In fieldV[T] `json:"in"`
	B  bool      `json:"b"`
}
type rawField struct {
	F json.RawMessage `json:"f"`
}
type rawNested struct {
	In rawField `json:"in"`
}

// convention -> is the value addressable while encoding/json walks it
var conventions = map[string]bool{
	"ptr":      true,  // json.Marshal(&v)                         -> Unmarshal(js, &out)
	"pptr":     true,  // json.Marshal(&p), p = &v                 -> Unmarshal(js, &outp), outp *T == nil
	"value":    false, // json.Marshal(v)
	"field-v":  false, // json.Marshal(S{F: v})
	"field-p":  true,  // json.Marshal(&S{F: v})
	"pfield-v": true,  // json.Marshal(S{F: &v})                   -> S{F *T}
	"pfield-p": true,  // json.Marshal(&S{F: &v})
	"nested-v": false, // json.Marshal(O{In: S{F: v}})
	"nested-p": true,  // json.Marshal(&O{In: S{F: v}})
	"map":      false, // json.Marshal(map[string]T{"k": v})
	"map-p":    false, // json.Marshal(&map[string]T{"k": v})      (map elements are never addressable)
	"pmap":     true,  // json.Marshal(map[string]*T{"k": &v})
	"slice":    true,  // json.Marshal([]T{v})                     (slice elements are addressable)
	"pslice":   true,  // json.Marshal([]*T{&v})
	"array-v":  false, // json.Marshal([1]T{v})
	"array-p":  true,  // json.Marshal(&[1]T{v})
	"iface":    false, // json.Marshal([]interface{}{v})
	"iface-p":  true,  // json.Marshal([]interface{}{&v})
	"ifield":   false, // json.Marshal(&S{F: interface{}(v)})
	"imap":     false, // json.Marshal(map[string]interface{}{"k": v})
}

func convNames() []string {
	var out []string
	for k := range conventions {
		out = append(out, k)
	}
	sort.Strings(out)
	return out
}

// rtc is rt in the calling convention conv.
//
// Violation texts start with "<type>, <addressable|non-addressable> value" so that the harness' per-class cap (first
// 60 characters) keeps failures of different types apart: a type that newly fails is never crowded out by another.
func rtc[T any](conv string, v *T, eq func(js []byte, a, b *T) string) (viol string, tag string) {
	if conv == "ptr" {
		return rt(v, eq)
	}
	addr, known := conventions[conv]
	if !known {
		panic("unknown calling convention " + conv)
	}
	pos := "non-addressable"
	if addr {
		pos = "addressable"
	}
	var in interface{}   // what is handed to json.Marshal
	var tgt interface{}  // what is handed to json.Unmarshal
	var inner func(js []byte) (json.RawMessage, error)
	var out func() *T
	whole := func(js []byte) (json.RawMessage, error) { return js, nil }
	fromField := func(js []byte) (json.RawMessage, error) { var r rawField; err := json.Unmarshal(js, &r); return r.F, err }
	fromMap := func(js []byte) (json.RawMessage, error) {
		var r map[string]json.RawMessage
		err := json.Unmarshal(js, &r)
		return r["k"], err
	}
	fromList := func(js []byte) (json.RawMessage, error) {
		var r []json.RawMessage
		err := json.Unmarshal(js, &r)
		if err == nil && len(r) != 1 {
			err = fmt.Errorf("%d elements", len(r))
		}
		if err != nil {
			return nil, err
		}
		return r[0], nil
	}
	switch conv {
	case "pptr":
		p := v
		var o *T
		in, tgt, inner, out = &p, &o, whole, func() *T { return o }
	case "value":
		o := new(T)
		in, tgt, inner, out = *v, o, whole, func() *T { return o }
	case "field-v", "field-p":
		c := fieldV[T]{A: 7, F: *v, Z: "z"}
		o := new(fieldV[T])
		in, tgt, inner, out = c, o, fromField, func() *T { return &o.F }
		if conv == "field-p" {
			in = &c
		}
	case "pfield-v", "pfield-p":
		c := fieldP[T]{A: 7, F: v, Z: "z"}
		o := new(fieldP[T])
		in, tgt, inner, out = c, o, fromField, func() *T { return o.F }
		if conv == "pfield-p" {
			in = &c
		}
	case "nested-v", "nested-p":
		c := nestedV[T]{In: fieldV[T]{A: 7, F: *v, Z: "z"}, B: true}
		o := new(nestedV[T])
		in, tgt, out = c, o, func() *T { return &o.In.F }
		inner = func(js []byte) (json.RawMessage, error) { var r rawNested; err := json.Unmarshal(js, &r); return r.In.F, err }
		if conv == "nested-p" {
			in = &c
		}
	case "map", "map-p":
		c := map[string]T{"k": *v}
		o := map[string]T{}
		in, tgt, inner = c, &o, fromMap
		out = func() *T {
			e, ok := o["k"]
			if !ok {
				return nil
			}
			return &e
		}
		if conv == "map-p" {
			in = &c
		}
	case "pmap":
		o := map[string]*T{}
		in, tgt, inner, out = map[string]*T{"k": v}, &o, fromMap, func() *T { return o["k"] }
	case "slice":
		var o []T
		in, tgt, inner = []T{*v}, &o, fromList
		out = func() *T {
			if len(o) != 1 {
				return nil
			}
			return &o[0]
		}
	case "pslice":
		var o []*T
		in, tgt, inner = []*T{v}, &o, fromList
		out = func() *T {
			if len(o) != 1 {
				return nil
			}
			return o[0]
		}
	case "array-v", "array-p":
		c := [1]T{*v}
		o := new([1]T)
		in, tgt, inner, out = c, o, fromList, func() *T { return &o[0] }
		if conv == "array-p" {
			in = &c
		}
	case "iface":
		var o []T
		in, tgt, inner = []interface{}{*v}, &o, fromList
		out = func() *T {
			if len(o) != 1 {
				return nil
			}
			return &o[0]
		}
	case "iface-p":
		var o []*T
		in, tgt, inner = []interface{}{v}, &o, fromList
		out = func() *T {
			if len(o) != 1 {
				return nil
			}
			return o[0]
		}
	case "ifield":
		o := new(fieldV[T])
		in, tgt, inner, out = &fieldI{A: 7, F: *v}, o, fromField, func() *T { return &o.F }
	case "imap":
		o := map[string]*T{}
		in, tgt, inner, out = map[string]interface{}{"k": *v}, &o, fromMap, func() *T { return o["k"] }
	}
	var js []byte
	res, p := guard(func() string {
		b, err := json.Marshal(in)
		if err != nil {
			return "err:" + err.Error()
		}
		js = b
		return ""
	})
	what := fmt.Sprintf("%T, %s value while encoding/json walks it [%s] - calling convention %s: ", *v, pos, map[bool]string{true: "pointer-receiver methods are callable", false: "only value-receiver methods are callable"}[addr], conv)
	if p {
		return what + "json.Marshal panics", "enc-panic"
	}
	if res != "" {
		return what + "json.Marshal fails: " + res, "enc-err"
	}
	ij, err := inner(js)
	if err != nil || ij == nil {
		return fmt.Sprintf("%sthe value's JSON cannot be located in %s (%v)", what, clip(js), err), "enc-shape"
	}
	res, p = guard(func() string {
		if err := json.Unmarshal(js, tgt); err != nil {
			return "err:" + err.Error()
		}
		return ""
	})
	if p {
		return fmt.Sprintf("%sjson.Unmarshal panics on the encoder's own output %s", what, clip(ij)), "dec-panic"
	}
	if res != "" {
		return fmt.Sprintf("%sjson.Unmarshal rejects the encoder's own output %s (%s)", what, clip(ij), res), "dec-err"
	}
	o := out()
	if o == nil {
		return fmt.Sprintf("%sthe decoded container holds no value (JSON %s)", what, clip(js)), "dec-missing"
	}
	if s := eq(ij, v, o); s != "" {
		return fmt.Sprintf("%sdecoded value differs: %s (JSON %s)", what, s, clip(ij)), "differs"
	}
	// the container's other members survive as well
	switch c := tgt.(type) {
	case *fieldV[T]:
		if c.A != 7 || (c.Z != "z" && conv != "ifield") {
			return what + "sibling members of the container were lost", "differs"
		}
	case *fieldP[T]:
		if c.A != 7 || c.Z != "z" {
			return what + "sibling members of the container were lost", "differs"
		}
	case *nestedV[T]:
		if c.In.A != 7 || c.In.Z != "z" || !c.B {
			return what + "sibling members of the container were lost", "differs"
		}
	}
	return "", "ok"
}

func clip(b []byte) string {
	if len(b) > 400 {
		return string(b[:400]) + "…"
	}
	return string(b)
}

// ---- the enumerated types in every convention (in-domain values: the ones the round trip is claimed for) ----

func enumCC[T comparable](mk func(r *zv.Rng) T) func(r *zv.Rng, conv string) (string, string) {
	return func(r *zv.Rng, conv string) (string, string) {
		v := mk(r)
		return rtc(conv, &v, func(_ []byte, a, b *T) string {
			if *a != *b {
				return fmt.Sprintf("%v became %v", *a, *b)
			}
			return ""
		})
	}
}

// u16 draws table values and arbitrary values alike
func pick16(r *zv.Rng, table string) int {
	if r.Bool() {
		var keys []int
		for k := range tls.ZVC33Tables()[table] {
			keys = append(keys, k)
		}
		sort.Ints(keys)
		if len(keys) > 0 {
			return keys[r.Intn(len(keys))]
		}
	}
	return r.Intn(65536)
}

func init() {
	add := func(name string, f func(r *zv.Rng, conv string) (string, string)) {
		if _, dup := structs[name]; dup {
			panic("duplicate " + name)
		}
		structs[name] = f
	}
	add("e-tlsversion", enumCC(func(r *zv.Rng) tls.TLSVersion {
		if r.Bool() {
			return tls.TLSVersion(0x0300 + r.Intn(6))
		}
		return tls.TLSVersion(r.Intn(65536))
	}))
	add("e-ciphersuite", enumCC(func(r *zv.Rng) tls.CipherSuiteID { return tls.CipherSuiteID(pick16(r, "cipherSuiteNames")) }))
	add("e-compression", enumCC(func(r *zv.Rng) tls.CompressionMethod { return tls.CompressionMethod(r.Intn(256)) }))
	add("e-curve", enumCC(func(r *zv.Rng) tls.CurveID { return tls.CurveID(pick16(r, "curveNames")) }))
	add("e-pointformat", enumCC(func(r *zv.Rng) tls.PointFormat { return tls.PointFormat(r.Intn(256)) }))
	add("e-sigandhash", enumCC(func(r *zv.Rng) tls.SignatureAndHash {
		if r.Bool() {
			return tls.SignatureAndHash{Signature: uint8(r.Intn(9)), Hash: uint8(r.Intn(9))}
		}
		return tls.SignatureAndHash{Signature: uint8(r.Intn(256)), Hash: uint8(r.Intn(256))}
	}))
	add("e-clientauth", enumCC(func(r *zv.Rng) tls.ClientAuthType {
		return tls.ClientAuthType(int(tls.NoClientCert) + r.Intn(int(tls.RequireAndVerifyClientCert)-int(tls.NoClientCert)+1))
	}))
	add("e-keyusage", enumCC(func(r *zv.Rng) x509.KeyUsage {
		if r.Bool() {
			return x509.KeyUsage(r.Intn(512))
		}
		return x509.KeyUsage(r.U64() >> uint(32+r.Intn(32)))
	}))
	add("e-tlscurveid", enumCC(func(r *zv.Rng) zjson.TLSCurveID { return zjson.TLSCurveID(pick16(r, "curveNames")) }))
	add("e-pubkeyalg", enumCC(func(r *zv.Rng) x509.PublicKeyAlgorithm { return x509.PublicKeyAlgorithm(r.Intn(int(x509.X25519) + 1)) }))
	// SignatureAlgorithm(0) does not round-trip in any convention: known finding D24 (`c33 sigalg 0`)
	add("e-sigalg", enumCC(func(r *zv.Rng) x509.SignatureAlgorithm { return x509.SignatureAlgorithm(1 + r.Intn(int(x509.Ed25519Sig))) }))
}
