package c33

import (
	"bytes"
	"encoding/json"
	"fmt"
	"math/big"
	"net"
	"reflect"
	"strings"

	"github.com/zmap/zcrypto/ct"
	"github.com/zmap/zcrypto/encoding/asn1"
	zjson "github.com/zmap/zcrypto/json"
	"github.com/zmap/zcrypto/rsa"
	"github.com/zmap/zcrypto/tls"
	"github.com/zmap/zcrypto/x509"
	"github.com/zmap/zcrypto/x509/pkix"

	"zv/internal/zv"
)

// ---- random values -------------------------------------------------------------------------

func rBig(r *zv.Rng) *big.Int {
	switch r.Intn(8) {
	case 0:
		return big.NewInt(0)
	case 1:
		return big.NewInt(int64(r.Intn(70000)))
	case 2: // leading zero bytes must not matter
		return new(big.Int).SetBytes(append([]byte{0, 0}, r.Bytes(1+r.Intn(8))...))
	default:
		return new(big.Int).SetBytes(r.Bytes(1 + r.Intn(96)))
	}
}
func rBigOpt(r *zv.Rng) *big.Int {
	if r.Chance(35) {
		return nil
	}
	return rBig(r)
}

var alphabet = []rune("abcdefghijklmnopqrstuvwxyzABCDEFGHIJKLMNOPQRSTUVWXYZ0123456789 .-_@/:,+=()'")
var nasty = []rune{'"', '\\', '<', '>', '&', '\n', '\t', 0x7f, 0x01, 0xe9, 0x4e2d, 0x2028, 0x1f600, '*', '?'}

func rStr(r *zv.Rng) string { // non-empty valid UTF-8
	n := 1 + r.Intn(12)
	var b strings.Builder
	for i := 0; i < n; i++ {
		if r.Chance(8) {
			b.WriteRune(nasty[r.Intn(len(nasty))])
		} else {
			b.WriteRune(alphabet[r.Intn(len(alphabet))])
		}
	}
	return b.String()
}
func rStrs(r *zv.Rng, maxn int) []string {
	n := r.Intn(maxn + 1)
	var out []string
	for i := 0; i < n; i++ {
		out = append(out, rStr(r))
	}
	return out
}
func rOID(r *zv.Rng) asn1.ObjectIdentifier { // what the asn1 parser can produce: >= 2 arcs, each 0..MaxInt32
	n := 2 + r.Intn(8)
	o := make(asn1.ObjectIdentifier, n)
	for i := range o {
		switch r.Intn(6) {
		case 0:
			o[i] = 0
		case 1:
			o[i] = int(r.U64() % (1 << 31))
		case 2:
			o[i] = 1<<31 - 1
		default:
			o[i] = r.Intn(1000)
		}
	}
	return o
}
func rBytes(r *zv.Rng, maxn int) []byte {
	if r.Chance(15) {
		return nil
	}
	return r.Bytes(r.Intn(maxn + 1))
}
func rIP(r *zv.Rng) net.IP {
	if r.Bool() {
		return net.IP(r.Bytes(4))
	}
	b := r.Bytes(16)
	if b[10] == 0xff && b[11] == 0xff { // keep clear of IPv4-mapped addresses
		b[10] = 0xfe
	}
	if r.Chance(10) { // the 16-byte form of an IPv4 address (what net.ParseIP returns)
		return net.IPv4(b[0], b[1], b[2], b[3])
	}
	return net.IP(b)
}

var knownAttrs = []asn1.ObjectIdentifier{
	{2, 5, 4, 3}, {2, 5, 4, 4}, {2, 5, 4, 5}, {2, 5, 4, 6}, {2, 5, 4, 7}, {2, 5, 4, 8}, {2, 5, 4, 9}, {2, 5, 4, 10}, {2, 5, 4, 11},
	{2, 5, 4, 17}, {2, 5, 4, 42}, {2, 5, 4, 97},
	{0, 9, 2342, 19200300, 100, 1, 25}, {1, 2, 840, 113549, 1, 9, 1},
	{1, 3, 6, 1, 4, 1, 311, 60, 2, 1, 1}, {1, 3, 6, 1, 4, 1, 311, 60, 2, 1, 2}, {1, 3, 6, 1, 4, 1, 311, 60, 2, 1, 3},
}

// rName builds a name the way the library does: FillFromRDNSequence on a parsed RDNSequence
// (or, sometimes, a hand-populated struct as a certificate template would be).
func rName(r *zv.Rng) pkix.Name {
	if r.Chance(20) {
		n := pkix.Name{Country: rStrs(r, 2), Organization: rStrs(r, 2), OrganizationalUnit: rStrs(r, 2), Locality: rStrs(r, 1), Province: rStrs(r, 1),
			StreetAddress: rStrs(r, 1), PostalCode: rStrs(r, 1), DomainComponent: rStrs(r, 2), EmailAddress: rStrs(r, 2),
			OrganizationIDs: rStrs(r, 1), JurisdictionCountry: rStrs(r, 1), JurisdictionLocality: rStrs(r, 1), JurisdictionProvince: rStrs(r, 1)}
		if r.Bool() {
			n.CommonName = rStr(r)
		}
		if r.Bool() {
			n.SerialNumber = rStr(r)
		}
		return n
	}
	var rdns pkix.RDNSequence
	nr := r.Intn(7)
	for i := 0; i < nr; i++ {
		var set pkix.RelativeDistinguishedNameSET
		ns := 1
		if r.Chance(15) {
			ns = 2
		}
		for j := 0; j < ns; j++ {
			var t asn1.ObjectIdentifier
			if r.Chance(90) {
				t = knownAttrs[r.Intn(len(knownAttrs))]
			} else {
				t = rOID(r)
			}
			set = append(set, pkix.AttributeTypeAndValue{Type: t, Value: rStr(r)})
		}
		rdns = append(rdns, set)
	}
	var n pkix.Name
	n.FillFromRDNSequence(&rdns)
	return n
}

// ---- equality notions ("equal value" per type, see Props/C33.lean) ---------------------------

func bigEq(what string, a, b *big.Int, nilIsZero bool) string {
	if a == nil && nilIsZero {
		a = new(big.Int)
	}
	if b == nil && nilIsZero {
		b = new(big.Int)
	}
	if (a == nil) != (b == nil) {
		return fmt.Sprintf("%s: nil-ness differs (%v vs %v)", what, a, b)
	}
	if a != nil && a.Cmp(b) != 0 {
		return fmt.Sprintf("%s: %v became %v", what, a, b)
	}
	return ""
}
func first(ss ...string) string {
	for _, s := range ss {
		if s != "" {
			return s
		}
	}
	return ""
}
func bytesEq(what string, a, b []byte) string {
	if !bytes.Equal(a, b) {
		return fmt.Sprintf("%s: %x became %x", what, a, b)
	}
	return ""
}
func strsEq(what string, a, b []string) string {
	if len(a) == 0 && len(b) == 0 {
		return ""
	}
	if !reflect.DeepEqual(a, b) {
		return fmt.Sprintf("%s: %q became %q", what, a, b)
	}
	return ""
}
func oidEq(what string, a, b []int) string {
	if !asn1.ObjectIdentifier(a).Equal(b) {
		return fmt.Sprintf("%s: %v became %v", what, a, b)
	}
	return ""
}

// nameEq: field-wise on every attribute the encoder emitted: the member lists of the JSON object js (the
// encoding of the original name) must be found in the corresponding fields of the decoded name d.
func nameEq(what string, js []byte, d *pkix.Name) string {
	var m map[string][]string
	if err := json.Unmarshal(js, &m); err != nil {
		return what + ": encoder output is not an object of string lists: " + err.Error()
	}
	extra := func(oid asn1.ObjectIdentifier) (out []string) {
		for _, a := range d.ExtraNames {
			if a.Type.Equal(oid) {
				if s, ok := a.Value.(string); ok {
					out = append(out, s)
				}
			}
		}
		return
	}
	single := func(s string, oid asn1.ObjectIdentifier) []string {
		var out []string
		if s != "" {
			out = append(out, s)
		}
		return append(out, extra(oid)...)
	}
	fields := map[string][]string{
		"common_name": single(d.CommonName, asn1.ObjectIdentifier{2, 5, 4, 3}), "serial_number": single(d.SerialNumber, asn1.ObjectIdentifier{2, 5, 4, 5}),
		"country": d.Country, "locality": d.Locality, "province": d.Province, "street_address": d.StreetAddress,
		"organization": d.Organization, "organizational_unit": d.OrganizationalUnit, "postal_code": d.PostalCode,
		"domain_component": d.DomainComponent, "email_address": d.EmailAddress, "given_name": d.GivenName, "surname": d.Surname,
		"jurisdiction_country": d.JurisdictionCountry, "jurisdiction_locality": d.JurisdictionLocality, "jurisdiction_province": d.JurisdictionProvince,
		"organization_id": d.OrganizationIDs,
	}
	for k, want := range m {
		got, known := fields[k]
		if !known {
			return fmt.Sprintf("%s: encoder emitted unexpected member %q", what, k)
		}
		if s := strsEq(what+"."+k, want, got); s != "" {
			return s
		}
	}
	for k, got := range fields {
		if _, ok := m[k]; !ok && len(got) > 0 {
			return fmt.Sprintf("%s.%s: decoded name has %q, the encoding had no such member", what, k, got)
		}
	}
	return ""
}

// ---- generic round trip -----------------------------------------------------------------------

// rt marshals v (through encoding/json, by pointer), unmarshals into a fresh value and compares.
func rt[T any](v *T, eq func(js []byte, a, b *T) string) (viol string, tag string) {
	var js []byte
	res, p := guard(func() string {
		b, err := json.Marshal(v)
		if err != nil {
			return "err:" + err.Error()
		}
		js = b
		return ""
	})
	if p {
		return "MarshalJSON panics", "enc-panic"
	}
	if res != "" {
		return "MarshalJSON fails: " + res, "enc-err"
	}
	out := new(T)
	res, p = guard(func() string {
		if err := json.Unmarshal(js, out); err != nil {
			return "err:" + err.Error()
		}
		return ""
	})
	if p {
		return fmt.Sprintf("UnmarshalJSON panics on the encoder's own output %s", js), "dec-panic"
	}
	if res != "" {
		return fmt.Sprintf("UnmarshalJSON rejects the encoder's own output %s (%s)", js, res), "dec-err"
	}
	if s := eq(js, v, out); s != "" {
		return fmt.Sprintf("decoded value differs: %s (JSON %s)", s, js), "differs"
	}
	return "", "ok"
}

func ipNetEq(what string, a, b net.IPNet) string {
	if !a.IP.Equal(b.IP) {
		return fmt.Sprintf("%s: address %v became %v", what, a.IP, b.IP)
	}
	return bytesEq(what+".mask", a.Mask, b.Mask)
}

func rSubtreeIP(r *zv.Rng, cidr bool) x509.GeneralSubtreeIP {
	n := 4
	if r.Bool() {
		n = 16
	}
	ip := r.Bytes(n)
	if n == 16 && ip[10] == 0xff && ip[11] == 0xff {
		ip[10] = 0
	}
	var mask net.IPMask
	if cidr {
		mask = net.CIDRMask(r.Intn(8*n+1), 8*n)
	} else {
		for {
			mask = net.IPMask(r.Bytes(n))
			if r.Bool() { // a single hole in an otherwise contiguous mask
				mask = net.CIDRMask(2+r.Intn(8*n-2), 8*n)
				h := r.Intn(8*n - 1)
				mask[h/8] ^= 0x80 >> uint(h%8)
			}
			if ones, bits := mask.Size(); ones == 0 && bits == 0 {
				break
			}
		}
	}
	return x509.GeneralSubtreeIP{Data: net.IPNet{IP: ip, Mask: mask}}
}

func rGeneralNames(r *zv.Rng) x509.GeneralNames {
	var g x509.GeneralNames
	for i, n := 0, r.Intn(3); i < n; i++ {
		g.DirectoryNames = append(g.DirectoryNames, rName(r))
	}
	g.DNSNames = rStrs(r, 3)
	for i, n := 0, r.Intn(3); i < n; i++ {
		e := pkix.EDIPartyName{PartyName: rStr(r)}
		if r.Bool() {
			e.NameAssigner = rStr(r)
		}
		g.EDIPartyNames = append(g.EDIPartyNames, e)
	}
	g.EmailAddresses = rStrs(r, 3)
	for i, n := 0, r.Intn(4); i < n; i++ {
		g.IPAddresses = append(g.IPAddresses, rIP(r))
	}
	for i, n := 0, r.Intn(3); i < n; i++ {
		g.OtherNames = append(g.OtherNames, pkix.OtherName{TypeID: rOID(r), Value: asn1.RawValue{Class: asn1.ClassContextSpecific, Tag: 0, IsCompound: true, Bytes: rBytes(r, 20)}})
	}
	for i, n := 0, r.Intn(3); i < n; i++ {
		g.RegisteredIDs = append(g.RegisteredIDs, rOID(r))
	}
	g.URIs = rStrs(r, 3)
	return g
}

func ediEq(what string, a, b []pkix.EDIPartyName) string {
	if len(a) != len(b) {
		return fmt.Sprintf("%s: %d entries became %d", what, len(a), len(b))
	}
	for i := range a {
		if a[i] != b[i] {
			return fmt.Sprintf("%s[%d]: %+v became %+v", what, i, a[i], b[i])
		}
	}
	return ""
}

// namesEq compares lists of names through their encodings (each original name's JSON vs the decoded name).
func namesEq(what string, a, b []pkix.Name) string {
	if len(a) != len(b) {
		return fmt.Sprintf("%s: %d entries became %d", what, len(a), len(b))
	}
	for i := range a {
		js, err := json.Marshal(&a[i])
		if err != nil {
			return what + ": " + err.Error()
		}
		if s := nameEq(fmt.Sprintf("%s[%d]", what, i), js, &b[i]); s != "" {
			return s
		}
	}
	return ""
}

func generalNamesEq(_ []byte, a, b *x509.GeneralNames) string {
	s := first(namesEq("directory_names", a.DirectoryNames, b.DirectoryNames), strsEq("dns_names", a.DNSNames, b.DNSNames),
		ediEq("edi_party_names", a.EDIPartyNames, b.EDIPartyNames), strsEq("email_addresses", a.EmailAddresses, b.EmailAddresses),
		strsEq("uniform_resource_identifiers", a.URIs, b.URIs))
	if s != "" {
		return s
	}
	if len(a.IPAddresses) != len(b.IPAddresses) {
		return fmt.Sprintf("ip_addresses: %d entries became %d", len(a.IPAddresses), len(b.IPAddresses))
	}
	for i := range a.IPAddresses {
		if !a.IPAddresses[i].Equal(b.IPAddresses[i]) {
			return fmt.Sprintf("ip_addresses[%d]: %v became %v", i, a.IPAddresses[i], b.IPAddresses[i])
		}
	}
	if len(a.OtherNames) != len(b.OtherNames) {
		return fmt.Sprintf("other_names: %d entries became %d", len(a.OtherNames), len(b.OtherNames))
	}
	for i := range a.OtherNames {
		if s := first(oidEq("other_names.id", a.OtherNames[i].TypeID, b.OtherNames[i].TypeID), bytesEq("other_names.value", a.OtherNames[i].Value.Bytes, b.OtherNames[i].Value.Bytes)); s != "" {
			return s
		}
	}
	if len(a.RegisteredIDs) != len(b.RegisteredIDs) {
		return fmt.Sprintf("registered_ids: %d entries became %d", len(a.RegisteredIDs), len(b.RegisteredIDs))
	}
	for i := range a.RegisteredIDs {
		if s := oidEq("registered_ids", a.RegisteredIDs[i], b.RegisteredIDs[i]); s != "" {
			return s
		}
	}
	return ""
}

func rNameConstraints(r *zv.Rng) x509.NameConstraints {
	var nc x509.NameConstraints
	nc.Critical = r.Bool()
	strs := func() (out []x509.GeneralSubtreeString) {
		for _, s := range rStrs(r, 2) {
			out = append(out, x509.GeneralSubtreeString{Data: s})
		}
		return
	}
	ips := func() (out []x509.GeneralSubtreeIP) {
		for i, n := 0, r.Intn(3); i < n; i++ {
			out = append(out, rSubtreeIP(r, true))
		}
		return
	}
	dirs := func() (out []x509.GeneralSubtreeName) {
		for i, n := 0, r.Intn(2); i < n; i++ {
			out = append(out, x509.GeneralSubtreeName{Data: rName(r)})
		}
		return
	}
	edis := func() (out []x509.GeneralSubtreeEdi) {
		for i, n := 0, r.Intn(2); i < n; i++ {
			out = append(out, x509.GeneralSubtreeEdi{Data: pkix.EDIPartyName{NameAssigner: rStr(r), PartyName: rStr(r)}})
		}
		return
	}
	oids := func() (out []x509.GeneralSubtreeOid) {
		for i, n := 0, r.Intn(2); i < n; i++ {
			out = append(out, x509.GeneralSubtreeOid{Data: rOID(r)})
		}
		return
	}
	nc.PermittedDNSNames, nc.PermittedEmailAddresses, nc.PermittedURIs = strs(), strs(), strs()
	nc.PermittedIPAddresses, nc.PermittedDirectoryNames, nc.PermittedEdiPartyNames, nc.PermittedRegisteredIDs = ips(), dirs(), edis(), oids()
	nc.ExcludedDNSNames, nc.ExcludedEmailAddresses, nc.ExcludedURIs = strs(), strs(), strs()
	nc.ExcludedIPAddresses, nc.ExcludedDirectoryNames, nc.ExcludedEdiPartyNames, nc.ExcludedRegisteredIDs = ips(), dirs(), edis(), oids()
	return nc
}

func nameConstraintsEq(_ []byte, a, b *x509.NameConstraints) string {
	if a.Critical != b.Critical {
		return "critical differs"
	}
	ss := func(what string, x, y []x509.GeneralSubtreeString) string {
		var p, q []string
		for _, e := range x {
			p = append(p, e.Data)
		}
		for _, e := range y {
			q = append(q, e.Data)
		}
		return strsEq(what, p, q)
	}
	ips := func(what string, x, y []x509.GeneralSubtreeIP) string {
		if len(x) != len(y) {
			return fmt.Sprintf("%s: %d entries became %d", what, len(x), len(y))
		}
		for i := range x {
			if s := ipNetEq(what, x[i].Data, y[i].Data); s != "" {
				return s
			}
		}
		return ""
	}
	dirs := func(what string, x, y []x509.GeneralSubtreeName) string {
		var p, q []pkix.Name
		for _, e := range x {
			p = append(p, e.Data)
		}
		for _, e := range y {
			q = append(q, e.Data)
		}
		return namesEq(what, p, q)
	}
	edis := func(what string, x, y []x509.GeneralSubtreeEdi) string {
		var p, q []pkix.EDIPartyName
		for _, e := range x {
			p = append(p, e.Data)
		}
		for _, e := range y {
			q = append(q, e.Data)
		}
		return ediEq(what, p, q)
	}
	oids := func(what string, x, y []x509.GeneralSubtreeOid) string {
		if len(x) != len(y) {
			return fmt.Sprintf("%s: %d entries became %d", what, len(x), len(y))
		}
		for i := range x {
			if s := oidEq(what, x[i].Data, y[i].Data); s != "" {
				return s
			}
		}
		return ""
	}
	return first(
		ss("permitted_names", a.PermittedDNSNames, b.PermittedDNSNames), ss("permitted_email_addresses", a.PermittedEmailAddresses, b.PermittedEmailAddresses),
		ss("permitted_uris", a.PermittedURIs, b.PermittedURIs), ips("permitted_ip_addresses", a.PermittedIPAddresses, b.PermittedIPAddresses),
		dirs("permitted_directory_names", a.PermittedDirectoryNames, b.PermittedDirectoryNames), edis("permitted_edi_party_names", a.PermittedEdiPartyNames, b.PermittedEdiPartyNames),
		oids("permitted_registred_id", a.PermittedRegisteredIDs, b.PermittedRegisteredIDs),
		ss("excluded_names", a.ExcludedDNSNames, b.ExcludedDNSNames), ss("excluded_email_addresses", a.ExcludedEmailAddresses, b.ExcludedEmailAddresses),
		ss("excluded_uris", a.ExcludedURIs, b.ExcludedURIs), ips("excluded_ip_addresses", a.ExcludedIPAddresses, b.ExcludedIPAddresses),
		dirs("excluded_directory_names", a.ExcludedDirectoryNames, b.ExcludedDirectoryNames), edis("excluded_edi_party_names", a.ExcludedEdiPartyNames, b.ExcludedEdiPartyNames),
		oids("excluded_registred_id", a.ExcludedRegisteredIDs, b.ExcludedRegisteredIDs))
}

func privEq(what string, a, b *zjson.ECDHPrivateParams) string {
	if (a == nil) != (b == nil) {
		return what + ": nil-ness differs"
	}
	if a == nil {
		return ""
	}
	if a.Length != b.Length {
		return what + ".length differs"
	}
	return bytesEq(what+".value", a.Value, b.Value)
}
func pointEq(what string, a, b *zjson.ECPoint) string {
	if (a == nil) != (b == nil) {
		return what + ": nil-ness differs"
	}
	if a == nil {
		return ""
	}
	return first(bigEq(what+".x", a.X, b.X, true), bigEq(what+".y", a.Y, b.Y, false))
}
func rPoint(r *zv.Rng, withY bool) *zjson.ECPoint {
	p := &zjson.ECPoint{X: rBig(r)}
	if r.Chance(5) {
		p.X = nil // a required member: encodes as the number 0
	}
	if withY {
		p.Y = rBig(r)
	}
	return p
}

// structured sub-ops: name -> runner on an Rng derived from the seed in the line
var structs = map[string]func(r *zv.Rng, conv string) (string, string){
	"s-dhparams": func(r *zv.Rng, conv string) (string, string) {
		v := &zjson.DHParams{Prime: rBig(r), Generator: rBig(r), ServerPublic: rBigOpt(r), ServerPrivate: rBigOpt(r), ClientPublic: rBigOpt(r), ClientPrivate: rBigOpt(r), SessionKey: rBigOpt(r)}
		if r.Chance(5) {
			v.Prime = nil
		}
		if r.Chance(5) {
			v.Generator = nil
		}
		return rtc(conv, v, func(_ []byte, a, b *zjson.DHParams) string {
			return first(bigEq("prime", a.Prime, b.Prime, true), bigEq("generator", a.Generator, b.Generator, true),
				bigEq("server_public", a.ServerPublic, b.ServerPublic, false), bigEq("server_private", a.ServerPrivate, b.ServerPrivate, false),
				bigEq("client_public", a.ClientPublic, b.ClientPublic, false), bigEq("client_private", a.ClientPrivate, b.ClientPrivate, false),
				bigEq("session_key", a.SessionKey, b.SessionKey, false))
		})
	},
	"s-ecpoint": func(r *zv.Rng, conv string) (string, string) {
		return rtc(conv, rPoint(r, true), func(_ []byte, a, b *zjson.ECPoint) string { return pointEq("point", a, b) })
	},
	"s-ecpoint-noy": func(r *zv.Rng, conv string) (string, string) {
		return rtc(conv, rPoint(r, false), func(_ []byte, a, b *zjson.ECPoint) string { return pointEq("point", a, b) })
	},
	"s-ecdhparams": func(r *zv.Rng, conv string) (string, string) {
		v := &zjson.ECDHParams{TLSCurveID: zjson.TLSCurveID(r.Intn(65536))}
		if r.Chance(20) {
			v.TLSCurveID = 0
		}
		if r.Chance(70) {
			v.ServerPublic = rPoint(r, true) // points without Y: see s-ecpoint-noy
		}
		if r.Chance(50) {
			v.ClientPublic = rPoint(r, true)
		}
		if r.Chance(50) {
			b := rBytes(r, 48)
			v.ServerPrivate = &zjson.ECDHPrivateParams{Value: b, Length: len(b)}
		}
		if r.Chance(50) {
			b := rBytes(r, 48)
			v.ClientPrivate = &zjson.ECDHPrivateParams{Value: b, Length: r.Intn(3) * len(b)}
		}
		return rtc(conv, v, func(_ []byte, a, b *zjson.ECDHParams) string {
			if a.TLSCurveID != b.TLSCurveID {
				return fmt.Sprintf("curve_id %d became %d", a.TLSCurveID, b.TLSCurveID)
			}
			return first(pointEq("server_public", a.ServerPublic, b.ServerPublic), pointEq("client_public", a.ClientPublic, b.ClientPublic),
				privEq("server_private", a.ServerPrivate, b.ServerPrivate), privEq("client_private", a.ClientPrivate, b.ClientPrivate))
		})
	},
	"s-rsapublickey": func(r *zv.Rng, conv string) (string, string) {
		v := &zjson.RSAPublicKey{}
		if !r.Chance(10) {
			v.PublicKey = &rsa.PublicKey{N: rBig(r), E: rBig(r)}
			if r.Bool() {
				v.E = big.NewInt(65537)
			}
		}
		return rtc(conv, v, func(_ []byte, a, b *zjson.RSAPublicKey) string {
			// a nil key encodes as the zero key (modulus 0, exponent 0)
			an, ae, bn, be := new(big.Int), new(big.Int), new(big.Int), new(big.Int)
			if a.PublicKey != nil {
				an, ae = a.N, a.E
			}
			if b.PublicKey != nil {
				bn, be = b.N, b.E
			}
			return first(bigEq("modulus", an, bn, true), bigEq("exponent", ae, be, true))
		})
	},
	"s-rsaclientparams": func(r *zv.Rng, conv string) (string, string) {
		v := &zjson.RSAClientParams{Length: uint16(r.Intn(65536)), EncryptedPMS: rBytes(r, 64)}
		if r.Chance(20) {
			v.Length = 0
		}
		return rtc(conv, v, func(_ []byte, a, b *zjson.RSAClientParams) string {
			if a.Length != b.Length {
				return "length differs"
			}
			return bytesEq("encrypted_pre_master_secret", a.EncryptedPMS, b.EncryptedPMS)
		})
	},
	"s-generalnames": func(r *zv.Rng, conv string) (string, string) {
		v := rGeneralNames(r)
		return rtc(conv, &v, generalNamesEq)
	},
	"s-nameconstraints": func(r *zv.Rng, conv string) (string, string) {
		v := rNameConstraints(r)
		return rtc(conv, &v, nameConstraintsEq)
	},
	"s-subtreeip-cidr": func(r *zv.Rng, conv string) (string, string) {
		v := rSubtreeIP(r, true)
		return rtc(conv, &v, func(_ []byte, a, b *x509.GeneralSubtreeIP) string { return ipNetEq("cidr", a.Data, b.Data) })
	},
	"s-subtreeip-noncidr": func(r *zv.Rng, conv string) (string, string) {
		v := rSubtreeIP(r, false)
		return rtc(conv, &v, func(_ []byte, a, b *x509.GeneralSubtreeIP) string { return ipNetEq("cidr", a.Data, b.Data) })
	},
	"s-name": func(r *zv.Rng, conv string) (string, string) {
		v := rName(r)
		return rtc(conv, &v, func(js []byte, _, b *pkix.Name) string { return nameEq("name", js, b) })
	},
	"s-atv": func(r *zv.Rng, conv string) (string, string) {
		v := &pkix.AttributeTypeAndValue{Type: rOID(r), Value: rStr(r)}
		if r.Chance(10) {
			v.Type = nil
		}
		return rtc(conv, v, func(_ []byte, a, b *pkix.AttributeTypeAndValue) string {
			if a.Value != b.Value {
				return fmt.Sprintf("value %q became %q", a.Value, b.Value)
			}
			return oidEq("type", a.Type, b.Type)
		})
	},
	"s-extension": func(r *zv.Rng, conv string) (string, string) {
		v := &pkix.Extension{Id: rOID(r), Critical: r.Bool(), Value: rBytes(r, 40)}
		return rtc(conv, v, func(_ []byte, a, b *pkix.Extension) string {
			if a.Critical != b.Critical {
				return "critical differs"
			}
			return first(oidEq("id", a.Id, b.Id), bytesEq("value", a.Value, b.Value))
		})
	},
	"s-othername": func(r *zv.Rng, conv string) (string, string) {
		v := &pkix.OtherName{TypeID: rOID(r), Value: asn1.RawValue{Class: asn1.ClassContextSpecific, IsCompound: true, Bytes: rBytes(r, 40)}}
		return rtc(conv, v, func(_ []byte, a, b *pkix.OtherName) string {
			return first(oidEq("id", a.TypeID, b.TypeID), bytesEq("value", a.Value.Bytes, b.Value.Bytes))
		})
	},
	"s-auxoid": func(r *zv.Rng, conv string) (string, string) {
		v := pkix.AuxOID(rOID(r))
		if r.Chance(10) {
			v = v[:1]
		}
		return rtc(conv, &v, func(_ []byte, a, b *pkix.AuxOID) string { return oidEq("oid", *a, *b) })
	},
	"s-fingerprint": func(r *zv.Rng, conv string) (string, string) {
		var v x509.CertificateFingerprint
		switch r.Intn(5) {
		case 0:
			v = x509.MD5Fingerprint(r.Bytes(10))
		case 1:
			v = x509.SHA1Fingerprint(r.Bytes(10))
		case 2:
			v = x509.SHA256Fingerprint(r.Bytes(10))
		case 3:
			v = x509.SHA512Fingerprint(r.Bytes(10))
		default:
			v = r.Bytes(1 + r.Intn(40))
		}
		return rtc(conv, &v, func(_ []byte, a, b *x509.CertificateFingerprint) string { return bytesEq("fingerprint", *a, *b) })
	},
	"s-digitallysigned": func(r *zv.Rng, conv string) (string, string) {
		v := &ct.DigitallySigned{HashAlgorithm: ct.HashAlgorithm(r.Intn(256)), SignatureAlgorithm: ct.SignatureAlgorithm(r.Intn(256)), Signature: rBytes(r, 80)}
		if r.Chance(2) {
			v.Signature = r.Bytes(65535)
		}
		return rtc(conv, v, func(_ []byte, a, b *ct.DigitallySigned) string {
			if a.HashAlgorithm != b.HashAlgorithm || a.SignatureAlgorithm != b.SignatureAlgorithm {
				return "algorithms differ"
			}
			return bytesEq("signature", a.Signature, b.Signature)
		})
	},
	"s-sha256hash": func(r *zv.Rng, conv string) (string, string) {
		var v ct.SHA256Hash
		copy(v[:], r.Bytes(32))
		return rtc(conv, &v, func(_ []byte, a, b *ct.SHA256Hash) string { return bytesEq("hash", a[:], b[:]) })
	},
	"s-keyshare": func(r *zv.Rng, conv string) (string, string) {
		c := tls.CurveID(r.Intn(65536))
		v := &tls.KeyShareExtension{KeyExchange: &c}
		return rtc(conv, v, func(_ []byte, a, b *tls.KeyShareExtension) string {
			if b.KeyExchange == nil || *a.KeyExchange != *b.KeyExchange {
				return "key exchange group differs"
			}
			return ""
		})
	},
}
