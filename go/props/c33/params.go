package c33

import (
	"encoding/base64"
	"encoding/json"
	"fmt"
	"math/big"
	"strings"

	zjson "github.com/zmap/zcrypto/json"

	"zv/internal/zv"
)

// T2 for the key parameters: `c33 ecpoint <x> <y>`, `c33 dhparams <7 members>` with <hex of big-endian bytes|nil>,
// and decode-only `c33 ecpoint-dec <member> <member>` with member = absent | jnull | <valuehex|null>:<length>.

func argBig(s string) *big.Int {
	if s == "nil" {
		return nil
	}
	return new(big.Int).SetBytes(zv.UnHex(s))
}
func showBig(b *big.Int) string {
	if b == nil {
		return "nil"
	}
	return zv.Hex(b.Bytes())
}

type auxParam struct {
	Value  *[]byte `json:"value"`
	Length int     `json:"length"`
}

// showParam prints a cryptoParameter JSON object: <hex|null>/<length>, `absent` for a missing member.
func showParam(raw json.RawMessage) string {
	if raw == nil {
		return "absent"
	}
	var p auxParam
	var m map[string]json.RawMessage
	if err := json.Unmarshal(raw, &m); err != nil || len(m) != 2 || json.Unmarshal(raw, &p) != nil {
		return "bad:" + string(raw)
	}
	v := "null"
	if p.Value != nil {
		v = zv.Hex(*p.Value)
	}
	return fmt.Sprintf("%s/%d", v, p.Length)
}

func members(js []byte, names []string) string {
	var m map[string]json.RawMessage
	if err := json.Unmarshal(js, &m); err != nil {
		return "not-an-object"
	}
	var out []string
	for _, n := range names {
		out = append(out, showParam(m[n]))
		delete(m, n)
	}
	if len(m) != 0 {
		return "unexpected-members"
	}
	return strings.Join(out, ",")
}

var dhNames = []string{"prime", "generator", "server_public", "server_private", "client_public", "client_private", "session_key"}

func memberJSON(a string) (string, bool) {
	switch a {
	case "absent":
		return "", false
	case "jnull":
		return "null", true
	}
	f := strings.Split(a, ":")
	v := "null"
	if f[0] != "null" {
		v = `"` + base64.StdEncoding.EncodeToString(zv.UnHex(f[0])) + `"`
	}
	return fmt.Sprintf(`{"value":%s,"length":%s}`, v, f[1]), true
}

func execParams(typ string, args []string) zv.Out {
	tags := []string{typ}
	switch typ {
	case "ecpoint", "ecpoint-dec":
		var js []byte
		enc := ""
		if typ == "ecpoint" {
			p := &zjson.ECPoint{X: argBig(args[0]), Y: argBig(args[1])}
			b, err := json.Marshal(p)
			if err != nil {
				return zv.Out{Go: "err", Viol: "MarshalJSON fails: " + err.Error(), Tags: tags}
			}
			js = b
			enc = members(js, []string{"x", "y"}) + ";"
			if p.Y == nil {
				tags = append(tags, "ecpoint:no-y")
			}
			if p.X == nil {
				tags = append(tags, "ecpoint:nil-x")
			}
		} else {
			var ms []string
			for i, n := range []string{"x", "y"} {
				if m, ok := memberJSON(args[i]); ok {
					ms = append(ms, `"`+n+`":`+m)
				} else {
					tags = append(tags, "ecpoint-dec:absent-"+n)
				}
			}
			js = []byte("{" + strings.Join(ms, ",") + "}")
		}
		var out zjson.ECPoint
		res, p := guard(func() string {
			if err := json.Unmarshal(js, &out); err != nil {
				return "err"
			}
			return "ok " + showBig(out.X) + "/" + showBig(out.Y)
		})
		viol := ""
		if p {
			viol = fmt.Sprintf("ECPoint.UnmarshalJSON panics on %s", js)
		} else if typ == "ecpoint" {
			x := argBig(args[0])
			if x == nil {
				x = new(big.Int)
			}
			if want := "ok " + showBig(x) + "/" + showBig(argBig(args[1])); res != want {
				viol = fmt.Sprintf("point %s/%s encodes to %s, which decodes to %q", args[0], args[1], js, res)
			}
		}
		return zv.Out{Go: enc + res, Viol: viol, Tags: tags}
	case "dhparams":
		v := &zjson.DHParams{Prime: argBig(args[0]), Generator: argBig(args[1]), ServerPublic: argBig(args[2]), ServerPrivate: argBig(args[3]),
			ClientPublic: argBig(args[4]), ClientPrivate: argBig(args[5]), SessionKey: argBig(args[6])}
		js, err := json.Marshal(v)
		if err != nil {
			return zv.Out{Go: "err", Viol: "MarshalJSON fails: " + err.Error(), Tags: tags}
		}
		var out zjson.DHParams
		res, p := guard(func() string {
			if err := json.Unmarshal(js, &out); err != nil {
				return "err"
			}
			var ss []string
			for _, b := range []*big.Int{out.Prime, out.Generator, out.ServerPublic, out.ServerPrivate, out.ClientPublic, out.ClientPrivate, out.SessionKey} {
				ss = append(ss, showBig(b))
			}
			return "ok " + strings.Join(ss, "/")
		})
		var want []string
		for i, a := range args {
			b := argBig(a)
			if b == nil && i < 2 {
				b = new(big.Int)
			}
			want = append(want, showBig(b))
		}
		viol := ""
		if p {
			viol = fmt.Sprintf("DHParams.UnmarshalJSON panics on %s", js)
		} else if res != "ok "+strings.Join(want, "/") {
			viol = fmt.Sprintf("parameters %s encode to %s, which decode to %q", strings.Join(args, "/"), js, res)
		}
		return zv.Out{Go: members(js, dhNames) + ";" + res, Viol: viol, Tags: tags}
	}
	panic("unknown sub-op " + typ)
}

func genBigArg(r *zv.Rng, nilPct int) string {
	if r.Chance(nilPct) {
		return "nil"
	}
	switch r.Intn(6) {
	case 0:
		return "-" // zero
	case 1:
		return zv.Hex(append([]byte{0, 0}, r.Bytes(r.Intn(4))...)) // leading zero bytes
	case 2:
		return zv.Hex([]byte{byte(r.Intn(256))})
	default:
		return zv.Hex(r.Bytes(1 + r.Intn(40)))
	}
}

func genParams(g *zv.Gen) {
	r := g.Rng
	g.Emit("c33 ecpoint nil nil")
	g.Emit("c33 ecpoint - nil")
	g.Emit("c33 ecpoint 01 nil")
	g.Emit("c33 ecpoint-dec absent absent")
	g.Emit("c33 ecpoint-dec jnull jnull")
	n := g.N(2000, 60000)
	for i := 0; i < n; i++ {
		g.Emitf("c33 ecpoint %s %s", genBigArg(r, 5), genBigArg(r, 40))
		var a []string
		for j := 0; j < 7; j++ {
			pct := 40
			if j < 2 {
				pct = 5
			}
			a = append(a, genBigArg(r, pct))
		}
		g.Emitf("c33 dhparams %s", strings.Join(a, " "))
		mem := func() string {
			switch r.Intn(8) {
			case 0:
				return "absent"
			case 1:
				return "jnull"
			case 2:
				return fmt.Sprintf("null:%d", r.Intn(3)*8)
			default:
				b := r.Bytes(r.Intn(12))
				if r.Chance(20) {
					b = append([]byte{0}, b...)
				}
				l := 8 * len(b)
				if r.Chance(20) {
					l = r.Intn(500) - 100 // the length member is not validated
				}
				return fmt.Sprintf("%s:%d", zv.Hex(b), l)
			}
		}
		g.Emitf("c33 ecpoint-dec %s %s", mem(), mem())
	}
}
