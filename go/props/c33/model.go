package c33

import (
	"encoding/json"
	"fmt"
	"math/big"
	"net"
	"sort"
	"strconv"
	"strings"

	"github.com/zmap/zcrypto/ct"
	"github.com/zmap/zcrypto/encoding/asn1"
	zjson "github.com/zmap/zcrypto/json"
	"github.com/zmap/zcrypto/rsa"
	"github.com/zmap/zcrypto/tls"
	"github.com/zmap/zcrypto/x509"
	"github.com/zmap/zcrypto/x509/pkix"

	"zv/internal/zv"
)

// T2 + T3 for the structured types that are modelled in Lean (ZV.Model.C33Struct): `c33 m-<type> <value…>` runs the REAL
// MarshalJSON and UnmarshalJSON through a POINTER (so that finding F-C33-ptr-receiver does not interfere) and prints
// `<abstract JSON>;<decode result>`; `c33 m-<type>-dec <members…>` builds a JSON text from the given scalars and prints the
// decode result only.  Abstract JSON: {k=v,…} keys sorted, s:<hex of the string>, n:<literal>, b:true|false, null.
// Values: OID `1.2.3` | nil;  bytes <hex> | - (empty, non-nil) | nil;  JSON scalars absent | null | s:<hex> | n:<literal> | b:… | other.

func canon2(b []byte) string {
	dec := json.NewDecoder(strings.NewReader(string(b)))
	dec.UseNumber()
	var v interface{}
	if err := dec.Decode(&v); err != nil {
		return "not-json:" + zv.Hex(b)
	}
	return canon2Val(v)
}

func canon2Val(v interface{}) string {
	switch t := v.(type) {
	case nil:
		return "null"
	case string:
		return "s:" + hx(t)
	case json.Number:
		return "n:" + t.String()
	case bool:
		return "b:" + strconv.FormatBool(t)
	case map[string]interface{}:
		keys := make([]string, 0, len(t))
		for k := range t {
			keys = append(keys, k)
		}
		sort.Strings(keys)
		parts := make([]string, 0, len(keys))
		for _, k := range keys {
			parts = append(parts, k+"="+canon2Val(t[k]))
		}
		return "{" + strings.Join(parts, ",") + "}"
	case []interface{}:
		parts := make([]string, 0, len(t))
		for _, e := range t {
			parts = append(parts, canon2Val(e))
		}
		return "[" + strings.Join(parts, " ") + "]"
	}
	return "?"
}

func mOID(s string) []int {
	if s == "nil" {
		return nil
	}
	var out []int
	for _, p := range strings.Split(s, ".") {
		n, err := strconv.Atoi(p)
		if err != nil {
			panic("bad oid argument " + s)
		}
		out = append(out, n)
	}
	return out
}
func mShowOID(o []int) string {
	if len(o) == 0 {
		return "nil"
	}
	var ss []string
	for _, a := range o {
		ss = append(ss, strconv.Itoa(a))
	}
	return strings.Join(ss, ".")
}
func mBytes(s string) []byte {
	if s == "nil" {
		return nil
	}
	b := zv.UnHex(s)
	if b == nil {
		b = []byte{}
	}
	return b
}
func mShowBytes(b []byte) string {
	if b == nil {
		return "nil"
	}
	return zv.Hex(b)
}

// scalar builds the JSON text of one scalar argument; ok=false: member absent.
func scalar(a string) (string, bool) {
	switch {
	case a == "absent":
		return "", false
	case a == "null":
		return "null", true
	case a == "other":
		return `{"z":1}`, true // (an array of numbers would be accepted by a []byte member)
	case a == "b:true":
		return "true", true
	case a == "b:false":
		return "false", true
	case strings.HasPrefix(a, "s:"):
		return jstr(unhx(a[2:])), true
	case strings.HasPrefix(a, "n:"):
		return a[2:], true
	}
	panic("bad scalar argument " + a)
}
func object(names []string, args []string) []byte {
	var ms []string
	for i, n := range names {
		if t, ok := scalar(args[i]); ok {
			ms = append(ms, jstr(n)+":"+t)
		}
	}
	return []byte("{" + strings.Join(ms, ",") + "}")
}
func bare(arg string) []byte {
	t, ok := scalar(arg)
	if !ok {
		panic("a bare value cannot be absent")
	}
	return []byte(t)
}

// gBare: a scalar for a bare-value decoder (never absent)
func gBare(r *zv.Rng, good string) string {
	if s := gScalar(r, good, 0); s != "absent" {
		return s
	}
	return "null"
}

// mcase is one modelled type.
type mcase struct {
	names []string // member names for the -dec op (nil: bare value)
	// enc marshals the value named by args through a pointer; want is the normal form the decode result must equal
	enc func(args []string) (js []byte, want string, err error)
	// dec unmarshals into a fresh value and prints it
	dec func(js []byte) (string, error)
	// encMayFail: an encoder error is the specified behaviour for these args (the model says err too)
	encMayFail func(args []string) bool
	// outside: the value is outside the domain of the round-trip theorem (see Props/C33.lean): the encoder's output
	// is still compared with the model (T2), a decode that does not give the value back is not a violation; a panic is
	outside func(args []string) bool
}

func oidOutside(s string, negOK bool) bool {
	o := mOID(s)
	if len(o) == 0 {
		return true
	}
	for _, a := range o {
		if a < 0 && !negOK {
			return true
		}
	}
	return false
}

func bigArgDec(s string) *big.Int { // decimal | nil
	if s == "nil" {
		return nil
	}
	b, ok := new(big.Int).SetString(s, 10)
	if !ok {
		panic("bad integer argument " + s)
	}
	return b
}

func pointArg(s string) *zjson.ECPoint {
	if s == "nil" {
		return nil
	}
	f := strings.Split(s, "/")
	return &zjson.ECPoint{X: argBig(f[0]), Y: argBig(f[1])}
}
func privArg(s string) *zjson.ECDHPrivateParams {
	if s == "nil" {
		return nil
	}
	f := strings.Split(s, ":")
	l, err := strconv.Atoi(f[1])
	if err != nil {
		panic("bad length " + s)
	}
	return &zjson.ECDHPrivateParams{Value: mBytes(f[0]), Length: l}
}
func showPointVal(p *zjson.ECPoint) string {
	if p == nil {
		return "nil"
	}
	return showBig(p.X) + "/" + showBig(p.Y)
}
func showPrivVal(p *zjson.ECDHPrivateParams) string {
	if p == nil {
		return "nil"
	}
	return mShowBytes(p.Value) + ":" + strconv.Itoa(p.Length)
}
func nfPoint(p *zjson.ECPoint) string {
	if p == nil {
		return "nil"
	}
	x := p.X
	if x == nil {
		x = new(big.Int)
	}
	return showBig(x) + "/" + showBig(p.Y)
}
func emptyAsNil(b []byte) []byte {
	if len(b) == 0 {
		return nil
	}
	return b
}
func nilAsEmpty(b []byte) []byte {
	if b == nil {
		return []byte{}
	}
	return b
}
func nfPriv(p *zjson.ECDHPrivateParams) string {
	if p == nil {
		return "nil"
	}
	return mShowBytes(emptyAsNil(p.Value)) + ":" + strconv.Itoa(p.Length)
}

var mcases = map[string]*mcase{
	"m-auxoid": {
		enc: func(a []string) ([]byte, string, error) {
			v := pkix.AuxOID(mOID(a[0]))
			js, err := json.Marshal(&v)
			return js, mShowOID(v), err
		},
		dec: func(js []byte) (string, error) {
			var o pkix.AuxOID
			err := json.Unmarshal(js, &o)
			return mShowOID(o), err
		},
		outside: func(a []string) bool { return oidOutside(a[0], false) }, // the empty OID is finding D24
	},
	"m-fingerprint": {
		enc: func(a []string) ([]byte, string, error) {
			v := x509.CertificateFingerprint(mBytes(a[0]))
			js, err := json.Marshal(&v)
			return js, mShowBytes(nilAsEmpty(v)), err
		},
		dec: func(js []byte) (string, error) {
			var o x509.CertificateFingerprint
			err := json.Unmarshal(js, &o)
			return mShowBytes(o), err
		},
	},
	"m-sha256": {
		enc: func(a []string) ([]byte, string, error) {
			var v ct.SHA256Hash
			copy(v[:], zv.UnHex(a[0]))
			js, err := json.Marshal(&v)
			return js, zv.Hex(v[:]), err
		},
		dec: func(js []byte) (string, error) {
			var o ct.SHA256Hash
			err := json.Unmarshal(js, &o)
			return zv.Hex(o[:]), err
		},
	},
	"m-ds": {
		enc: func(a []string) ([]byte, string, error) {
			h, _ := strconv.Atoi(a[0])
			s, _ := strconv.Atoi(a[1])
			v := &ct.DigitallySigned{HashAlgorithm: ct.HashAlgorithm(h), SignatureAlgorithm: ct.SignatureAlgorithm(s), Signature: mBytes(a[2])}
			js, err := json.Marshal(v)
			return js, fmt.Sprintf("%d/%d/%s", h, s, mShowBytes(nilAsEmpty(v.Signature))), err
		},
		dec: func(js []byte) (string, error) {
			var o ct.DigitallySigned
			err := json.Unmarshal(js, &o)
			return fmt.Sprintf("%d/%d/%s", o.HashAlgorithm, o.SignatureAlgorithm, mShowBytes(o.Signature)), err
		},
		encMayFail: func(a []string) bool { return len(mBytes(a[2])) > 65535 },
	},
	"m-atv": {
		names: []string{"type", "value"},
		enc: func(a []string) ([]byte, string, error) {
			v := &pkix.AttributeTypeAndValue{Type: mOID(a[0]), Value: unhx(a[1])}
			js, err := json.Marshal(v)
			return js, mShowOID(v.Type) + "/" + a[1], err
		},
		dec: func(js []byte) (string, error) {
			var o pkix.AttributeTypeAndValue
			err := json.Unmarshal(js, &o)
			s, _ := o.Value.(string)
			return mShowOID(o.Type) + "/" + hx(s), err
		},
	},
	"m-othername": {
		names: []string{"id", "value"},
		enc: func(a []string) ([]byte, string, error) {
			v := &pkix.OtherName{TypeID: mOID(a[0]), Value: asn1.RawValue{Class: asn1.ClassContextSpecific, IsCompound: true, Bytes: mBytes(a[1])}}
			js, err := json.Marshal(v)
			return js, mShowOID(v.TypeID) + "/" + mShowBytes(emptyAsNil(v.Value.Bytes)), err
		},
		dec: func(js []byte) (string, error) {
			var o pkix.OtherName
			err := json.Unmarshal(js, &o)
			if err == nil && (o.Value.Class != asn1.ClassContextSpecific || o.Value.Tag != 0 || !o.Value.IsCompound) {
				return "bad-rawvalue", nil
			}
			return mShowOID(o.TypeID) + "/" + mShowBytes(o.Value.Bytes), err
		},
		outside: func(a []string) bool { return oidOutside(a[0], true) },
	},
	"m-ext": {
		names: []string{"id", "critical", "value"},
		enc: func(a []string) ([]byte, string, error) {
			v := &pkix.Extension{Id: mOID(a[0]), Critical: a[1] == "1", Value: mBytes(a[2])}
			js, err := json.Marshal(v)
			return js, mShowOID(v.Id) + "/" + a[1] + "/" + mShowBytes(emptyAsNil(v.Value)), err
		},
		dec: func(js []byte) (string, error) {
			var o pkix.Extension
			err := json.Unmarshal(js, &o)
			c := "0"
			if o.Critical {
				c = "1"
			}
			return mShowOID(o.Id) + "/" + c + "/" + mShowBytes(o.Value), err
		},
		outside: func(a []string) bool { return oidOutside(a[0], true) },
	},
	"m-rsa": {
		names: []string{"exponent", "modulus", "length"},
		enc: func(a []string) ([]byte, string, error) {
			v := &zjson.RSAPublicKey{}
			want := "-/0"
			if a[0] != "nokey" {
				v.PublicKey = &rsa.PublicKey{N: argBig(a[0]), E: bigArgDec(a[1])}
				// normal form (after fix dd0a2ef): a nil modulus / exponent is written like zero and reads back as 0
				n, e := v.N, a[1]
				if n == nil {
					n = new(big.Int)
				}
				if e == "nil" {
					e = "0"
				}
				want = showBig(n) + "/" + e
			}
			js, err := json.Marshal(v)
			return js, want, err
		},
		dec: func(js []byte) (string, error) {
			var o zjson.RSAPublicKey
			err := json.Unmarshal(js, &o)
			if err != nil {
				return "", err
			}
			return showBig(o.N) + "/" + o.E.String(), nil
		},
	},
	"m-rsaclient": {
		names: []string{"length", "encrypted_pre_master_secret"},
		enc: func(a []string) ([]byte, string, error) {
			l, _ := strconv.Atoi(a[0])
			v := &zjson.RSAClientParams{Length: uint16(l), EncryptedPMS: mBytes(a[1])}
			js, err := json.Marshal(v)
			return js, a[0] + "/" + mShowBytes(emptyAsNil(v.EncryptedPMS)), err
		},
		dec: func(js []byte) (string, error) {
			var o zjson.RSAClientParams
			err := json.Unmarshal(js, &o)
			return strconv.Itoa(int(o.Length)) + "/" + mShowBytes(o.EncryptedPMS), err
		},
	},
	"m-subtreeip4": { // <mapped 0|1> <ip hex, 4 bytes> <mask hex, 4 bytes>
		names: []string{"cidr", "begin", "end", "mask"},
		enc: func(a []string) ([]byte, string, error) {
			ip := net.IP(zv.UnHex(a[1]))
			if len(ip) == 0 {
				ip = net.IP{0, 0, 0, 0}[:0]
			}
			q := append(net.IP{}, ip...)
			if a[0] == "1" {
				ip = net.IPv4(ip[0], ip[1], ip[2], ip[3])
			}
			v := &x509.GeneralSubtreeIP{Data: net.IPNet{IP: ip, Mask: net.IPMask(zv.UnHex(a[2]))}}
			js, err := json.Marshal(v)
			// normal form: the decoder always returns the 16-byte IPv4-mapped form of the address
			return js, zv.Hex(net.IPv4(q[0], q[1], q[2], q[3])) + "/" + a[2], err
		},
		dec: func(js []byte) (string, error) {
			var o x509.GeneralSubtreeIP
			err := json.Unmarshal(js, &o)
			return zv.Hex(o.Data.IP) + "/" + zv.Hex(o.Data.Mask), err
		},
	},
	"m-keyshare": {
		enc: func(a []string) ([]byte, string, error) {
			v := &tls.KeyShareExtension{}
			if a[0] != "nil" {
				c, _ := strconv.Atoi(a[0])
				id := tls.CurveID(c)
				v.KeyExchange = &id
			}
			js, err := json.Marshal(v)
			return js, a[0], err
		},
		dec: func(js []byte) (string, error) {
			var o tls.KeyShareExtension
			err := json.Unmarshal(js, &o)
			if err != nil || o.KeyExchange == nil {
				return "nil", err
			}
			return strconv.Itoa(int(*o.KeyExchange)), nil
		},
		outside: func(a []string) bool { return a[0] == "nil" }, // a nil group is written null, which the decoder refuses
	},
	"m-ecdh": {
		enc: func(a []string) ([]byte, string, error) {
			c, _ := strconv.Atoi(a[0])
			v := &zjson.ECDHParams{TLSCurveID: zjson.TLSCurveID(c), ServerPublic: pointArg(a[1]), ServerPrivate: privArg(a[2]), ClientPublic: pointArg(a[3]), ClientPrivate: privArg(a[4])}
			js, err := json.Marshal(v)
			return js, strings.Join([]string{a[0], nfPoint(v.ServerPublic), nfPriv(v.ServerPrivate), nfPoint(v.ClientPublic), nfPriv(v.ClientPrivate)}, " "), err
		},
		dec: func(js []byte) (string, error) {
			var o zjson.ECDHParams
			err := json.Unmarshal(js, &o)
			return strings.Join([]string{strconv.Itoa(int(o.TLSCurveID)), showPointVal(o.ServerPublic), showPrivVal(o.ServerPrivate), showPointVal(o.ClientPublic), showPrivVal(o.ClientPrivate)}, " "), err
		},
	},
}

func execModel(typ string, args []string) zv.Out {
	tags := []string{typ}
	if strings.HasSuffix(typ, "-dec") {
		c := mcases[strings.TrimSuffix(typ, "-dec")]
		if c == nil {
			panic("unknown sub-op " + typ)
		}
		var js []byte
		if c.names == nil {
			js = bare(args[0])
		} else {
			js = object(c.names, args)
		}
		res, p := guard(func() string {
			s, err := c.dec(js)
			if err != nil {
				return "err"
			}
			return "ok " + s
		})
		viol := ""
		if p {
			viol = fmt.Sprintf("%s: UnmarshalJSON panics on %s", typ, js)
		}
		return zv.Out{Go: res, Viol: viol, Tags: append(tags, typ+":"+strings.Fields(res)[0])}
	}
	c := mcases[typ]
	if c == nil {
		panic("unknown sub-op " + typ)
	}
	var js []byte
	var want string
	res, p := guard(func() string {
		b, w, err := c.enc(args)
		if err != nil {
			return "err"
		}
		js, want = b, w
		return ""
	})
	if p {
		return zv.Out{Go: "panic", Viol: fmt.Sprintf("%s: MarshalJSON panics on the value %s", typ, strings.Join(args, " ")), Tags: append(tags, typ+":enc-panic")}
	}
	if res == "err" {
		viol := ""
		if c.encMayFail == nil || !c.encMayFail(args) {
			viol = fmt.Sprintf("%s: MarshalJSON fails on the value %s", typ, strings.Join(args, " "))
		}
		return zv.Out{Go: "err", Viol: viol, Tags: append(tags, typ+":enc-err")}
	}
	res, p = guard(func() string {
		s, err := c.dec(js)
		if err != nil {
			return "err"
		}
		return "ok " + s
	})
	viol := ""
	if p {
		viol = fmt.Sprintf("%s: UnmarshalJSON panics on the encoder's own output %s", typ, js)
	} else if res != "ok "+want && !(c.outside != nil && c.outside(args)) {
		viol = fmt.Sprintf("%s: value %s encodes to %s, which decodes to %q (want %q)", typ, strings.Join(args, " "), js, res, "ok "+want)
	}
	return zv.Out{Go: canon2(js) + ";" + res, Viol: viol, Tags: append(tags, typ+":"+strings.Fields(res)[0])}
}

// ---- generators ------------------------------------------------------------------------------------

func gOID(r *zv.Rng) string { // >= 1 arc, arcs over the whole non-negative int range
	n := 1 + r.Intn(9)
	var ss []string
	for i := 0; i < n; i++ {
		var a uint64
		switch r.Intn(8) {
		case 0:
			a = 0
		case 1:
			a = r.U64() >> 1
		case 2:
			a = 1<<63 - 1
		case 3:
			a = 1<<31 - uint64(r.Intn(2))
		case 4:
			a = uint64(r.Intn(11)) // one digit / 10
		default:
			a = uint64(r.Intn(100000))
		}
		ss = append(ss, strconv.FormatUint(a, 10))
	}
	return strings.Join(ss, ".")
}
func gOIDNeg(r *zv.Rng) string { // with negative arcs (written; AuxOID refuses them, the others keep them)
	o := strings.Split(gOID(r), ".")
	i := r.Intn(len(o))
	switch r.Intn(3) {
	case 0:
		o[i] = "-9223372036854775808"
	case 1:
		o[i] = "-1"
	default:
		o[i] = "-" + strconv.Itoa(1+r.Intn(1000))
	}
	return strings.Join(o, ".")
}
func gBytes(r *zv.Rng, maxn int) string { // nil | empty | sizes around the base64 group boundaries
	switch r.Intn(10) {
	case 0:
		return "nil"
	case 1:
		return "-"
	case 2:
		return zv.Hex(r.Bytes(1 + r.Intn(6)))
	}
	return zv.Hex(r.Bytes(1 + r.Intn(maxn)))
}

var b64junk = []string{"", "A", "AA", "AAA", "AAAA", "AA==", "AAA=", "AA=", "A===", "====", "AA==AAAA", "AAA=AAAA", "AAAA\nAAAA", "\r\nAAAA\n", "AA\n=\n=\n", "AA=\nA",
	"AAAA AAAA", "AAA*", "AAAAA", "AAAAAA", "AAAAAA==", "AAAAAAA=", "AAAAAP==", "AAAAAB==", "//8=", "--8=", "__8=", "AAAAé", "AQIDBA==", "AQIDBAU=", "AQIDBAUG"}

// gScalar: a JSON scalar for a decode-only line; good is the well-formed choice.
func gScalar(r *zv.Rng, good string, kind byte) string {
	if r.Chance(60) {
		return good
	}
	switch r.Intn(9) {
	case 0:
		return "absent"
	case 1:
		return "null"
	case 2:
		return "other"
	case 3:
		return "b:" + strconv.FormatBool(r.Bool())
	case 4:
		return "n:" + []string{"0", "-0", "1", "-1", "8", "16", "65535", "65536", "1e2", "1.0", "1.5", "-1e0", "9223372036854775807", "9223372036854775808", "-9223372036854775808", "-9223372036854775809", "340282366920938463463374607431768211456"}[r.Intn(17)]
	case 5:
		return "s:" + hx([]string{"", "0", "1.2", "1..2", ".1", "1.", "1.-2", "+1.2", "1.+2", " 1.2", "01.002", "1.9223372036854775807", "1.9223372036854775808", "1.-9223372036854775808", "1.-9223372036854775809", "a.b", "1.2.x", "١.٢"}[r.Intn(18)])
	case 6:
		return "s:" + hx([]string{"", "0", "00", "0g", "ABCDEF", "abcdef", "AbCd", "abc", "0x00", "é"}[r.Intn(10)])
	case 7:
		return "s:" + hx(strings.NewReplacer("\\n", "\n", "\\r", "\r").Replace(b64junk[r.Intn(len(b64junk))]))
	}
	_ = kind
	return "s:" + hx(rStr(r))
}

func b64(b []byte) string { bs, _ := json.Marshal(b); return strings.Trim(string(bs), `"`) }

func genModel(g *zv.Gen) {
	r := g.Rng
	// fixed corner cases; `m-rsa nil …` are the inputs of finding F-C33-rsa-nil-modulus (MarshalJSON panicked on a nil
	// modulus, failed on a nil exponent; fixed by dd0a2ef: written like zero)
	for _, l := range []string{"c33 m-rsa nil 65537", "c33 m-rsa 05 nil", "c33 m-rsa nil nil", "c33 m-rsa nil 0", "c33 m-rsa nil -3", "c33 m-rsa - nil", "c33 m-rsa 0100 nil", "c33 m-rsa nokey", "c33 m-rsa - 0", "c33 m-rsa 01 -3", "c33 m-rsa 010001 340282366920938463463374607431768211457",
		"c33 m-auxoid nil", "c33 m-auxoid 1.-2", "c33 m-auxoid 0", "c33 m-auxoid 9223372036854775807.0", "c33 m-othername nil 01", "c33 m-ext nil 1 nil", "c33 m-atv nil -", "c33 m-atv nil 61",
		"c33 m-atv 2.5.4.3 -", "c33 m-fingerprint nil", "c33 m-fingerprint -", "c33 m-ds 0 0 nil", "c33 m-ds 255 255 -", "c33 m-rsaclient 0 nil", "c33 m-rsaclient 0 -", "c33 m-rsaclient 65535 00",
		"c33 m-ecdh 0 nil nil nil nil", "c33 m-ecdh 0 nil/nil -:0 nil/nil nil:0", "c33 m-ecdh 65535 -/- 00:-1 01/nil -:9223372036854775807",
		"c33 m-auxoid-dec s:-", "c33 m-auxoid-dec null", "c33 m-fingerprint-dec null", "c33 m-sha256-dec null", "c33 m-ds-dec null", "c33 m-ds-dec s:-",
		"c33 m-rsa-dec absent absent absent", "c33 m-rsa-dec n:3 absent absent", "c33 m-rsa-dec s:3137 s:41513d3d n:8", "c33 m-rsa-dec s:2b35 s:41513d3d n:8", "c33 m-rsa-dec s:303037 s:41513d3d n:8", "c33 m-rsa-dec s:2d30 s:41513d3d n:8",
		"c33 m-rsa-dec s:316532 s:41513d3d n:8", "c33 m-rsa-dec s:31652b s:41513d3d n:8", "c33 m-rsa-dec s:312e s:41513d3d n:8", "c33 m-rsa-dec s:2d s:41513d3d n:8", "c33 m-rsa-dec s:2d3132 absent n:0", "c33 m-ext-dec absent absent absent", "c33 m-othername-dec absent absent"} {
		g.Emit(l)
	}
	// IPv4 subtrees: every prefix length, both address forms; `… 00000020` is the input of finding F-C33-subtreeip-hexmask
	// (a non-prefix mask whose hex digits read as a decimal prefix length; fixed by 0939895: the hex form is read first);
	// decode-only: texts BOTH readers could accept (eight decimal digits) and their 7- / 9-digit neighbours
	g.Emit("c33 m-subtreeip4 0 0a010203 00000020")
	for _, t := range []string{"1.2.3.4/00000020", "1.2.3.4/00000000", "1.2.3.4/00000032", "1.2.3.4/00000033", "1.2.3.4/00000008", "1.2.3.4/0000020", "1.2.3.4/000000020", "1.2.3.4/020", "1.2.3.4/20",
		"1.2.3.4/0000002a", "1.2.3.4/0000002A", "1.2.3.4/99999999", "1.2.3.4/00000001", "1.2.3.4/01", "1.2.3.4/32", "1.2.3.4/33"} {
		g.Emitf("c33 m-subtreeip4-dec s:%s absent absent absent", hx(t))
	}
	for x := 0; x <= 0x32; x++ { // all 32 formerly ambiguous masks (+ the contiguous 0) in both address forms
		if x%16 < 10 {
			g.Emitf("c33 m-subtreeip4 %d %s 000000%02x", x%2, zv.Hex(r.Bytes(4)), x)
		}
	}
	for _, l := range []string{"c33 m-subtreeip4 0 0a010203 00000033", "c33 m-subtreeip4 0 0a010203 00000100", "c33 m-subtreeip4 1 0a010203 ff00ff00", "c33 m-subtreeip4 0 00000000 00000000",
		"c33 m-subtreeip4 0 ffffffff ffffffff", "c33 m-subtreeip4-dec s:312e322e332e342f303136 absent absent absent", "c33 m-subtreeip4-dec s:312e322e332e342f4646464646463030 absent absent absent",
		"c33 m-subtreeip4-dec s:312e322e332e30342f38 absent absent absent", "c33 m-subtreeip4-dec s:312e322e332e342f382f39 absent absent absent", "c33 m-subtreeip4-dec absent absent absent absent"} {
		g.Emit(l)
	}
	for n := 0; n <= 32; n++ {
		g.Emitf("c33 m-subtreeip4 %d %s %s", n%2, zv.Hex(r.Bytes(4)), zv.Hex(net.CIDRMask(n, 32)))
	}
	for i := 0; i < g.N(700, 30000); i++ {
		var mk []byte
		switch r.Intn(4) {
		case 0:
			mk = net.CIDRMask(r.Intn(33), 32)
		case 1: // one hole in a prefix
			mk = net.CIDRMask(2+r.Intn(30), 32)
			h := r.Intn(31)
			mk[h/8] ^= 0x80 >> uint(h%8)
		case 2: // hex digits that are all decimal
			mk = []byte{byte(r.Intn(10) + 16*r.Intn(10)), byte(r.Intn(10) + 16*r.Intn(10)), byte(r.Intn(10) + 16*r.Intn(10)), byte(r.Intn(10) + 16*r.Intn(10))}
			if r.Bool() {
				mk[0], mk[1] = 0, 0
			}
			if r.Chance(30) { // the 32 masks of finding F-C33-subtreeip-hexmask (fixed by 0939895): hex digits that read as a prefix length
				mk = []byte{0, 0, 0, byte(r.Intn(10) + 16*r.Intn(4))}
			}
		default:
			mk = r.Bytes(4)
		}
		ipb := r.Bytes(4)
		switch r.Intn(6) {
		case 0:
			ipb = []byte{0, 0, 0, 0}
		case 1:
			ipb = []byte{255, 255, 255, 255}
		case 2:
			ipb[r.Intn(4)] = []byte{0, 9, 10, 99, 100, 255}[r.Intn(6)]
		}
		g.Emitf("c33 m-subtreeip4 %d %s %s", r.Intn(2), zv.Hex(ipb), zv.Hex(mk))
		// decode-only: IPv4 texts, right and wrong (never a ':' - IPv6 text is outside the model)
		ipt := net.IP(ipb).String()
		if r.Chance(30) {
			ipt = []string{"1.2.3", "1.2.3.4.5", "1..3.4", ".1.2.3", "1.2.3.", "01.2.3.4", "1.2.3.256", "1.2.3.0255", "1.2.3.x", "1.2.3.4%eth0", "", "1234", " 1.2.3.4", "1.2.3.4 ", "0.0.0.0", "255.255.255.255", "00.0.0.0", "1.2.3.+4"}[r.Intn(18)]
		}
		sfx := "/" + strconv.Itoa(r.Intn(34))
		switch r.Intn(8) {
		case 0:
			sfx = "/" + strings.ToUpper(zv.Hex(mk))
		case 1:
			sfx = "/" + zv.Hex(mk)
		case 2:
			sfx = []string{"/000000" + strconv.Itoa(10+r.Intn(30)), "/0000000" + strconv.Itoa(r.Intn(10)), "", "/", "/033", "/0000000000000000000000000008", "/99999999999999999999", "/-1", "/+8", "/8/9", "/ff", "/ffffff", "/ffffffff00", "/8 ", "/0x10", "/16777215", "/16777216"}[r.Intn(17)]
		}
		cs := gScalar(r, "s:"+hx(ipt+sfx), 's')
		if strings.HasPrefix(cs, "s:") && strings.Contains(unhx(cs[2:]), ":") {
			cs = "null" // IPv6 text is outside the model
		}
		g.Emitf("c33 m-subtreeip4-dec %s %s %s %s", cs, gScalar(r, "absent", 's'), gScalar(r, "s:"+hx("1.2.3.4"), 's'), gScalar(r, "absent", 's'))
	}
	g.Emit("c33 m-keyshare nil")
	for i := 0; i < g.N(300, 65536); i++ {
		c := i
		if g.Quick && i >= 64 {
			c = r.Intn(65536)
		}
		g.Emitf("c33 m-keyshare %d", c)
	}
	g.Emitf("c33 m-ds 4 3 %s", zv.Hex(r.Bytes(65535)))
	g.Emitf("c33 m-ds 4 3 %s", zv.Hex(r.Bytes(65536))) // encoder error, not a truncated length
	n := g.N(700, 30000)
	for i := 0; i < n; i++ {
		oid := gOID(r)
		g.Emitf("c33 m-auxoid %s", oid)
		if r.Chance(5) {
			g.Emitf("c33 m-auxoid %s", gOIDNeg(r))
		}
		g.Emitf("c33 m-auxoid-dec %s", gBare(r, "s:"+hx(oid)))
		fp := gBytes(r, 64)
		g.Emitf("c33 m-fingerprint %s", fp)
		g.Emitf("c33 m-fingerprint-dec %s", gBare(r, "s:"+hx(strings.ToUpper(zv.Hex(r.Bytes(1+r.Intn(8)))))))
		g.Emitf("c33 m-sha256 %s", zv.Hex(r.Bytes(32)))
		g.Emitf("c33 m-sha256-dec %s", gBare(r, "s:"+hx(b64(r.Bytes(30+r.Intn(5))))))
		g.Emitf("c33 m-ds %d %d %s", r.Intn(256), r.Intn(256), gBytes(r, 300))
		// decode-only: right / short / long length fields, trailing bytes
		sig := r.Bytes(r.Intn(20))
		l := len(sig) + []int{0, 0, 0, 1, -1, 256, 5}[r.Intn(7)]
		if l < 0 {
			l = 0
		}
		raw := append([]byte{byte(r.Intn(256)), byte(r.Intn(256)), byte(l >> 8), byte(l)}, sig...)
		raw = raw[:len(raw)-[]int{0, 0, 0, 1, 2}[r.Intn(5)]%len(raw)]
		g.Emitf("c33 m-ds-dec %s", gBare(r, "s:"+hx(b64(raw))))

		t := gOID(r)
		if r.Chance(10) {
			t = gOIDNeg(r)
		}
		val := "-"
		if !r.Chance(10) {
			val = hx(rStr(r))
		}
		if r.Chance(5) {
			g.Emitf("c33 m-atv nil %s", val)
		}
		g.Emitf("c33 m-atv %s %s", t, val)
		g.Emitf("c33 m-atv-dec %s %s", gScalar(r, "s:"+hx(t), 'o'), gScalar(r, "s:"+val, 's'))
		g.Emitf("c33 m-othername %s %s", t, gBytes(r, 40))
		g.Emitf("c33 m-othername-dec %s %s", gScalar(r, "s:"+hx(t), 'o'), gScalar(r, "s:"+hx(b64(r.Bytes(r.Intn(9)))), 'b'))
		g.Emitf("c33 m-ext %s %d %s", t, r.Intn(2), gBytes(r, 40))
		g.Emitf("c33 m-ext-dec %s %s %s", gScalar(r, "s:"+hx(t), 'o'), gScalar(r, "b:"+strconv.FormatBool(r.Bool()), 't'), gScalar(r, "s:"+hx(b64(r.Bytes(r.Intn(9)))), 'b'))

		// RSA keys: moduli of every size class incl. 0, exponents negative / small / beyond 64 bits
		e := new(big.Int).SetBytes(r.Bytes(1 + r.Intn(4)))
		switch r.Intn(8) {
		case 0:
			e = big.NewInt(65537)
		case 1:
			e = new(big.Int).SetBytes(r.Bytes(9 + r.Intn(20)))
		case 2:
			e.Neg(e)
		case 3:
			e = big.NewInt(0)
		}
		es := e.String()
		if r.Chance(8) {
			es = "nil"
		}
		g.Emitf("c33 m-rsa %s %s", genBigArg(r, 8), es)
		m := r.Bytes(r.Intn(6))
		if r.Chance(20) {
			m = append([]byte{0}, m...)
		}
		ml := 8 * len(m)
		if r.Chance(15) {
			ml += []int{-8, 8, 1, -1}[r.Intn(4)]
		}
		g.Emitf("c33 m-rsa-dec %s %s %s", gScalar(r, "n:"+e.String(), 'n'), gScalar(r, "s:"+hx(b64(m)), 'b'), gScalar(r, "n:"+strconv.Itoa(ml), 'n'))
		g.Emitf("c33 m-rsaclient %d %s", []int{0, 1, 255, 256, 65535, r.Intn(65536)}[r.Intn(6)], gBytes(r, 64))
		g.Emitf("c33 m-rsaclient-dec %s %s", gScalar(r, "n:"+strconv.Itoa(r.Intn(65536)), 'n'), gScalar(r, "s:"+hx(b64(r.Bytes(r.Intn(9)))), 'b'))

		pt := func() string {
			if r.Chance(30) {
				return "nil"
			}
			return genBigArg(r, 5) + "/" + genBigArg(r, 40)
		}
		pv := func() string {
			if r.Chance(40) {
				return "nil"
			}
			l := int64(r.Intn(100))
			switch r.Intn(6) {
			case 0:
				l = 0
			case 1:
				l = -1 - int64(r.Intn(50))
			case 2:
				l = int64(r.U64())
			}
			return gBytes(r, 48) + ":" + strconv.FormatInt(l, 10)
		}
		c := r.Intn(65536)
		if r.Chance(25) {
			c = []int{0, 23, 24, 29, 65535}[r.Intn(5)]
		}
		g.Emitf("c33 m-ecdh %d %s %s %s %s", c, pt(), pv(), pt(), pv())
	}
}
