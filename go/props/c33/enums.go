package c33

import (
	"encoding/hex"
	"encoding/json"
	"fmt"
	"sort"
	"strconv"
	"strings"

	zjson "github.com/zmap/zcrypto/json"
	"github.com/zmap/zcrypto/tls"
	"github.com/zmap/zcrypto/x509"

	"zv/internal/zv"
)

func hx(s string) string { return zv.Hex([]byte(s)) }
func unhx(s string) string { return string(zv.UnHex(s)) }

func jstr(s string) string {
	b, _ := json.Marshal(s)
	return string(b)
}

// canon prints the JSON text the real encoder produced as the abstract record the model builds:
// members sorted by key, strings hex-encoded.
func canon(b []byte) string {
	dec := json.NewDecoder(strings.NewReader(string(b)))
	dec.UseNumber()
	var v interface{}
	if err := dec.Decode(&v); err != nil {
		return "not-json:" + hex.EncodeToString(b)
	}
	return canonVal(v)
}

func canonVal(v interface{}) string {
	switch t := v.(type) {
	case nil:
		return "null"
	case string:
		return "s:" + hx(t)
	case json.Number:
		return "n:" + t.String()
	case bool:
		return "b:" + strconv.FormatBool(t)
	case map[string]interface{}:
		keys := make([]string, 0, len(t))
		for k := range t {
			keys = append(keys, k)
		}
		sort.Strings(keys)
		parts := make([]string, 0, len(keys))
		for _, k := range keys {
			parts = append(parts, k+"="+canonVal(t[k]))
		}
		return strings.Join(parts, ",")
	case []interface{}:
		parts := make([]string, 0, len(t))
		for _, e := range t {
			parts = append(parts, canonVal(e))
		}
		return "[" + strings.Join(parts, " ") + "]"
	}
	return "?"
}

// guard runs f and maps a Go panic to ("panic", true).
func guard(f func() string) (res string, panicked bool) {
	defer func() {
		if r := recover(); r != nil {
			res, panicked = "panic", true
		}
	}()
	return f(), false
}

// enumCase is one enumerated type: how to build a value from the line, marshal it and unmarshal it again.
type enumCase struct {
	// enc returns the JSON of the value named by args (through encoding/json, as users do)
	enc func(args []string) ([]byte, error)
	// dec runs the real UnmarshalJSON on b and prints the decoded value
	dec func(b []byte) (string, error)
	// want prints the value of args the way dec prints it
	want func(args []string) string
	// inDomain: values the library can produce (round trip is required); outside only "no panic" is required
	inDomain func(args []string) bool
	// decJSON builds the JSON text of a decode-only line
	decJSON func(args []string) string
}

func atoi(s string) int {
	n, err := strconv.Atoi(s)
	if err != nil {
		panic("bad int in line: " + s)
	}
	return n
}

func nvJSON(withHex bool) func(args []string) string {
	return func(a []string) string {
		if withHex {
			return fmt.Sprintf(`{"hex":%s,"name":%s,"value":%s}`, jstr(unhx(a[0])), jstr(unhx(a[1])), a[2])
		}
		return fmt.Sprintf(`{"name":%s,"value":%s}`, jstr(unhx(a[0])), a[1])
	}
}

var always = func([]string) bool { return true }

var enums = map[string]*enumCase{
	"tlsversion": {
		enc:      func(a []string) ([]byte, error) { v := tls.TLSVersion(atoi(a[0])); return json.Marshal(&v) },
		dec:      func(b []byte) (string, error) { var v tls.TLSVersion; err := json.Unmarshal(b, &v); return strconv.Itoa(int(v)), err },
		want:     func(a []string) string { return a[0] },
		inDomain: always, decJSON: nvJSON(false),
	},
	"ciphersuite": {
		enc:      func(a []string) ([]byte, error) { v := tls.CipherSuiteID(atoi(a[0])); return json.Marshal(&v) },
		dec:      func(b []byte) (string, error) { var v tls.CipherSuiteID; err := json.Unmarshal(b, &v); return strconv.Itoa(int(v)), err },
		want:     func(a []string) string { return a[0] },
		inDomain: always, decJSON: nvJSON(true),
	},
	"compression": {
		enc:      func(a []string) ([]byte, error) { v := tls.CompressionMethod(atoi(a[0])); return json.Marshal(&v) },
		dec:      func(b []byte) (string, error) { var v tls.CompressionMethod; err := json.Unmarshal(b, &v); return strconv.Itoa(int(v)), err },
		want:     func(a []string) string { return a[0] },
		inDomain: always, decJSON: nvJSON(true),
	},
	"curve": {
		enc:      func(a []string) ([]byte, error) { v := tls.CurveID(atoi(a[0])); return json.Marshal(&v) },
		dec:      func(b []byte) (string, error) { var v tls.CurveID; err := json.Unmarshal(b, &v); return strconv.Itoa(int(v)), err },
		want:     func(a []string) string { return a[0] },
		inDomain: always, decJSON: nvJSON(true),
	},
	"pointformat": {
		enc:      func(a []string) ([]byte, error) { v := tls.PointFormat(atoi(a[0])); return json.Marshal(&v) },
		dec:      func(b []byte) (string, error) { var v tls.PointFormat; err := json.Unmarshal(b, &v); return strconv.Itoa(int(v)), err },
		want:     func(a []string) string { return a[0] },
		inDomain: always, decJSON: nvJSON(true),
	},
	"sigandhash": {
		enc: func(a []string) ([]byte, error) {
			v := tls.SignatureAndHash{Signature: uint8(atoi(a[0])), Hash: uint8(atoi(a[1]))}
			return json.Marshal(&v)
		},
		dec: func(b []byte) (string, error) {
			var v tls.SignatureAndHash
			err := json.Unmarshal(b, &v)
			return fmt.Sprintf("%d/%d", v.Signature, v.Hash), err
		},
		want:     func(a []string) string { return a[0] + "/" + a[1] },
		inDomain: always,
		decJSON: func(a []string) string {
			return fmt.Sprintf(`{"signature_algorithm":%s,"hash_algorithm":%s}`, jstr(unhx(a[0])), jstr(unhx(a[1])))
		},
	},
	"clientauth": {
		enc:      func(a []string) ([]byte, error) { v := tls.ClientAuthType(atoi(a[0])); return json.Marshal(&v) },
		dec:      func(b []byte) (string, error) { var v tls.ClientAuthType; err := json.Unmarshal(b, &v); return strconv.Itoa(int(v)), err },
		want:     func(a []string) string { return a[0] },
		inDomain: func(a []string) bool { v := atoi(a[0]); return v >= int(tls.NoClientCert) && v <= int(tls.RequireAndVerifyClientCert) },
		decJSON:  func(a []string) string { return jstr(unhx(a[0])) },
	},
	"keyusage": {
		enc:      func(a []string) ([]byte, error) { v := x509.KeyUsage(atoi(a[0])); return json.Marshal(&v) },
		dec:      func(b []byte) (string, error) { var v x509.KeyUsage; err := json.Unmarshal(b, &v); return strconv.Itoa(int(v)), err },
		want:     func(a []string) string { return a[0] },
		inDomain: func(a []string) bool { v := atoi(a[0]); return v >= 0 && v < 1<<32 },
		decJSON: func(a []string) string {
			// a[0]: 9-bit mask of flag members to include (they are not validated by the decoder), a[1]: value
			names := []string{"digital_signature", "content_commitment", "key_encipherment", "data_encipherment", "key_agreement", "certificate_sign", "crl_sign", "encipher_only", "decipher_only"}
			m := atoi(a[0])
			s := "{"
			for i, n := range names {
				if m>>uint(i)&1 == 1 {
					s += `"` + n + `":true,`
				}
			}
			return s + `"value":` + a[1] + "}"
		},
	},
	"tlscurveid": {
		enc:      func(a []string) ([]byte, error) { v := zjson.TLSCurveID(atoi(a[0])); return json.Marshal(&v) },
		dec:      func(b []byte) (string, error) { var v zjson.TLSCurveID; err := json.Unmarshal(b, &v); return strconv.Itoa(int(v)), err },
		want:     func(a []string) string { return a[0] },
		inDomain: always,
		decJSON:  func(a []string) string { return fmt.Sprintf(`{"name":%s,"id":%s}`, jstr(unhx(a[0])), a[1]) },
	},
	"pubkeyalg": {
		enc:      func(a []string) ([]byte, error) { v := x509.PublicKeyAlgorithm(atoi(a[0])); return json.Marshal(&v) },
		dec:      func(b []byte) (string, error) { var v x509.PublicKeyAlgorithm; err := json.Unmarshal(b, &v); return strconv.Itoa(int(v)), err },
		want:     func(a []string) string { return a[0] },
		inDomain: func(a []string) bool { v := atoi(a[0]); return v >= 0 && v <= int(x509.X25519) },
		decJSON: func(a []string) string {
			if a[0] == "-" {
				return "{}"
			}
			return fmt.Sprintf(`{"name":%s}`, jstr(unhx(a[0])))
		},
	},
	"sigalg": {
		enc:      func(a []string) ([]byte, error) { v := x509.SignatureAlgorithm(atoi(a[0])); return json.Marshal(&v) },
		dec:      func(b []byte) (string, error) { var v x509.SignatureAlgorithm; err := json.Unmarshal(b, &v); return strconv.Itoa(int(v)), err },
		want:     func(a []string) string { return a[0] },
		inDomain: func(a []string) bool { v := atoi(a[0]); return v >= 0 && v <= int(x509.Ed25519Sig) },
		decJSON: func(a []string) string {
			n := ""
			if a[0] != "-" {
				n = `"name":` + jstr(unhx(a[0])) + ","
			}
			return fmt.Sprintf(`{%s"oid":%s}`, n, jstr(unhx(a[1])))
		},
	},
}

func execEnum(typ string, args []string) zv.Out {
	decOnly := strings.HasSuffix(typ, "-dec")
	ec := enums[strings.TrimSuffix(typ, "-dec")]
	if ec == nil {
		panic("unknown type " + typ)
	}
	tags := []string{typ}
	runDec := func(b []byte) (string, bool) {
		return guard(func() string {
			v, err := ec.dec(b)
			if err != nil {
				return "err"
			}
			return "ok " + v
		})
	}
	if decOnly {
		res, p := runDec([]byte(ec.decJSON(args)))
		tags = append(tags, typ+":"+strings.Fields(res)[0])
		viol := ""
		if p {
			viol = "UnmarshalJSON panics on " + ec.decJSON(args)
		}
		return zv.Out{Go: res, Viol: viol, Tags: tags}
	}
	var js []byte
	encRes, p := guard(func() string {
		b, err := ec.enc(args)
		if err != nil {
			return "err"
		}
		js = b
		return ""
	})
	if p || encRes != "" {
		viol := ""
		if p || ec.inDomain(args) {
			viol = "MarshalJSON " + encRes + " for value " + strings.Join(args, "/")
		}
		return zv.Out{Go: encRes, Viol: viol, Tags: append(tags, typ+":enc-"+encRes)}
	}
	res, p := runDec(js)
	viol := ""
	in := ec.inDomain(args)
	switch {
	case p:
		viol = fmt.Sprintf("UnmarshalJSON panics on the encoder's own output %s", js)
	case in && res == "err":
		viol = fmt.Sprintf("UnmarshalJSON rejects the encoder's own output %s", js)
	case in && res != "ok "+ec.want(args):
		viol = fmt.Sprintf("value %s encodes to %s, which decodes to %q", ec.want(args), js, res)
	}
	if in {
		tags = append(tags, typ+":in-domain")
	} else {
		tags = append(tags, typ+":out-of-domain:"+strings.Fields(res)[0])
	}
	return zv.Out{Go: canon(js) + ";" + res, Viol: viol, Tags: tags}
}
