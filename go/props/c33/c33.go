// Package c33: JSON encodings of zcrypto value types round-trip (MarshalJSON / UnmarshalJSON of the enumerated
// protocol types, key parameters, names, fingerprints, CT values), driven through encoding/json as users do.
package c33

import (
	"sort"
	"strconv"
	"strings"

	zjson "github.com/zmap/zcrypto/json"
	"github.com/zmap/zcrypto/tls"
	"github.com/zmap/zcrypto/x509"

	"zv/internal/zv"
)

func exec(line string) zv.Out {
	f := strings.Fields(line)
	typ, args := f[1], f[2:]
	if typ == "cc" { // c33 cc <type> <convention> <seed>
		run, ok := structs[args[0]]
		if !ok {
			panic("unknown type " + args[0])
		}
		seed, err := strconv.ParseUint(args[2], 10, 64)
		if err != nil {
			panic("bad seed")
		}
		viol, tag := run(zv.NewRng(seed), args[1])
		pos := "non-addressable"
		if conventions[args[1]] {
			pos = "addressable"
		}
		return zv.Out{Go: "", Viol: viol, Tags: []string{"cc", "cc:" + args[1], "cc:" + args[0], "cc:" + pos + ":" + tag}}
	}
	if run, ok := structs[typ]; ok {
		seed, err := strconv.ParseUint(args[0], 10, 64)
		if err != nil {
			panic("bad seed")
		}
		viol, tag := run(zv.NewRng(seed), "ptr")
		return zv.Out{Go: "", Viol: viol, Tags: []string{typ, typ + ":" + tag}}
	}
	if strings.HasPrefix(typ, "m-") {
		return execModel(typ, args)
	}
	switch typ {
	case "ecpoint", "ecpoint-dec", "dhparams":
		return execParams(typ, args)
	}
	return execEnum(typ, args)
}

func tableNames() (sig, hash, suites, comp, curves, pf, ca, ec []string) {
	t := tls.ZVC33Tables()
	vals := func(m map[int]string) []string {
		var out []string
		for _, v := range m {
			out = append(out, v)
		}
		sort.Strings(out)
		return out
	}
	return vals(t["signatureNames"]), vals(t["hashNames"]), vals(t["cipherSuiteNames"]), vals(t["compressionNames"]), vals(t["curveNames"]),
		vals(t["pointFormatNames"]), vals(t["clientAuthTypeNames"]), vals(zjson.ZVC33ECIDToName())
}

func gen(g *zv.Gen) {
	r := g.Rng
	// corpus: the inputs on which the defects D9, D10, D16, D22, D23, D24 (known finding), D29 first showed
	for _, l := range []string{"c33 pubkeyalg 4", "c33 pubkeyalg 5", "c33 s-ecpoint-noy 17", "c33 ecpoint - nil", "c33 clientauth 0",
		"c33 s-name 17", "c33 s-name 1000020", "c33 s-name 3000026", "c33 s-name 12000053", "c33 s-fingerprint 17", "c33 s-fingerprint 5000032",
		"c33 sigalg 0", "c33 s-subtreeip-noncidr 17", "c33 s-generalnames 1000020", "c33 s-nameconstraints 2000023"} {
		g.Emit(l)
	}
	// ---- T2 + T3, exhaustive: every value of every small enumerated type -----------------------
	for v := 0; v < 65536; v++ {
		g.Emitf("c33 tlsversion %d", v)
		g.Emitf("c33 ciphersuite %d", v)
		g.Emitf("c33 curve %d", v)
		g.Emitf("c33 tlscurveid %d", v)
	}
	for v := 0; v < 256; v++ {
		g.Emitf("c33 compression %d", v)
		g.Emitf("c33 pointformat %d", v)
	}
	if g.Quick { // both axes in full, plus random pairs
		for v := 0; v < 256; v++ {
			g.Emitf("c33 sigandhash %d %d", v, r.Intn(256))
			g.Emitf("c33 sigandhash %d %d", r.Intn(256), v)
			for h := 0; h < 9; h++ {
				g.Emitf("c33 sigandhash %d %d", v, h)
			}
		}
	} else {
		for s := 0; s < 256; s++ {
			for h := 0; h < 256; h++ {
				g.Emitf("c33 sigandhash %d %d", s, h)
			}
		}
	}
	for v := -3; v < 70; v++ {
		g.Emitf("c33 clientauth %d", v)
	}
	g.Emit("c33 clientauth 9223372036854775807")
	g.Emit("c33 clientauth -9223372036854775808")
	for v := 0; v < 512; v++ {
		g.Emitf("c33 keyusage %d", v)
	}
	for i := 0; i < 300; i++ {
		g.Emitf("c33 keyusage %d", int64(r.U64())>>uint(r.Intn(64)))
		g.Emitf("c33 keyusage %d", r.U64()>>uint(32+r.Intn(32)))
	}
	for v := -3; v < 40; v++ {
		g.Emitf("c33 pubkeyalg %d", v)
		g.Emitf("c33 sigalg %d", v)
	}

	// ---- decode-only streams: mismatched / unknown names, wrong values, "unknown.N" ------------
	sig, hash, suites, comp, curves, pf, ca, ec := tableNames()
	junk := []string{"", "unknown", "Unknown", "unknown.", "unknown.1", "unknown.256", "unknown.-1", "unknown.+7", "unknown.007", "unknown.unknown.3",
		"unknown.2147483647", "unknown.2147483648", "unknown.-2147483648", "unknown.-2147483649", "unknown.99999999999999999999", "unknown.1x", "unknown. 1",
		"17", "-17", "+17", "300", "1_0", "0x10", "rsa ", " rsa", "RSA", "x", "1.2.3", "ClientAuthType(1)", "unknown_algorithm", "0", "1.2.840.113549.1.1.10"}
	pick := func(pool ...[]string) string {
		p := pool[r.Intn(len(pool))]
		if len(p) == 0 {
			return "x"
		}
		return p[r.Intn(len(p))]
	}
	rval := func(max int) int64 {
		switch r.Intn(10) {
		case 0:
			return int64(max) + 1 + int64(r.Intn(3))
		case 1:
			return -1 - int64(r.Intn(3))
		case 2:
			return int64(r.U64())
		case 3:
			return int64(max) - int64(r.Intn(2))
		case 4:
			return int64(max+1) * int64(1+r.Intn(5)) + int64(r.Intn(max+1)) // truncates onto a valid value for an int member
		default:
			return int64(r.Intn(max + 1))
		}
	}
	nd := g.N(1500, 40000)
	t := tls.ZVC33Tables()
	keysOf := func(m map[int]string) []int {
		var out []int
		for k := range m {
			out = append(out, k)
		}
		sort.Ints(out)
		return out
	}
	suiteKeys, curveKeys, compKeys, pfKeys := keysOf(t["cipherSuiteNames"]), keysOf(t["curveNames"]), keysOf(t["compressionNames"]), keysOf(t["pointFormatNames"])
	for i := 0; i < nd; i++ {
		// name/value pairs: right pair, right value + other name, unknown
		k := suiteKeys[r.Intn(len(suiteKeys))]
		name := t["cipherSuiteNames"][k]
		if r.Chance(40) {
			name = pick(suites, junk)
		}
		val := int64(k)
		if r.Chance(30) {
			val = rval(65535)
		}
		g.Emitf("c33 ciphersuite-dec %s %s %d", hx(pick(junk)), hx(name), val)

		k = curveKeys[r.Intn(len(curveKeys))]
		name = t["curveNames"][k]
		if r.Chance(40) {
			name = pick(curves, junk, ec)
		}
		val = int64(k)
		if r.Chance(30) {
			val = rval(65535)
		}
		g.Emitf("c33 curve-dec %s %s %d", hx(pick(junk)), hx(name), val)
		g.Emitf("c33 tlscurveid-dec %s %d", hx(name), val)

		k = compKeys[r.Intn(len(compKeys))]
		name = t["compressionNames"][k]
		if r.Chance(40) {
			name = pick(comp, junk)
		}
		val = int64(k)
		if r.Chance(30) {
			val = rval(255)
		}
		g.Emitf("c33 compression-dec %s %s %d", hx(pick(junk)), hx(name), val)

		k = pfKeys[r.Intn(len(pfKeys))]
		name = t["pointFormatNames"][k]
		if r.Chance(40) {
			name = pick(pf, junk)
		}
		val = int64(k)
		if r.Chance(30) {
			val = rval(255)
		}
		g.Emitf("c33 pointformat-dec %s %s %d", hx(pick(junk)), hx(name), val)

		v := 0x0300 + r.Intn(6)
		name = tls.TLSVersion(v).String()
		if r.Chance(40) {
			name = pick([]string{"SSLv3", "TLSv1.0", "TLSv1.1", "TLSv1.2", "TLSv1.3", "unknown"}, junk)
		}
		val = int64(v)
		if r.Chance(40) {
			val = rval(65535)
		}
		g.Emitf("c33 tlsversion-dec %s %d", hx(name), val)

		g.Emitf("c33 sigandhash-dec %s %s", hx(pick(sig, hash, junk)), hx(pick(hash, sig, junk)))
		g.Emitf("c33 sigandhash-dec %s %s", hx("unknown."+strconv.FormatInt(rval(255), 10)), hx(strconv.FormatInt(rval(255), 10)))
		g.Emitf("c33 clientauth-dec %s", hx(pick(ca, ca, junk)))
		g.Emitf("c33 keyusage-dec %d %d", r.Intn(512), rval(1<<32-1))
		g.Emitf("c33 pubkeyalg-dec %s", hx(pick(x509.ZVC33KeyAlgorithmNames(), junk, sig)))
		// signature algorithms: table OIDs with matching / other / no names, junk OIDs
		det := x509.ZVC33SignatureAlgorithmDetails()
		d := det[r.Intn(len(det))]
		var arcs []string
		for _, a := range d.OID {
			arcs = append(arcs, strconv.Itoa(a))
		}
		oid := strings.Join(arcs, ".")
		switch r.Intn(8) {
		case 0:
			oid = pick(junk)
		case 1:
			oid += "." + strconv.Itoa(r.Intn(3))
		case 2:
			oid = strings.Join(arcs[:len(arcs)-1], ".")
		case 3:
			oid = strings.Replace(oid, ".", ".+", 1+r.Intn(2))
		case 4:
			oid = strings.Replace(oid, ".", "..", 1)
		}
		g.Emitf("c33 sigalg-dec %s %s", hx(pick(x509.ZVC33AlgoName(), junk)), hx(oid))
	}

	// ---- T2 + T3: key parameters and points on the abstract JSON tree -------------------------
	genParams(g)

	// ---- T2 + T3: the modelled structured types (OIDs, fingerprints, CT values, attribute values, other names,
	// extensions, RSA keys and client parameters, ECDH parameters) with decode-only malformed streams ----------
	genModel(g)

	// ---- T3 only: structured types, random values incl. omitted optional members ---------------
	var sn []string
	for k := range structs {
		sn = append(sn, k)
	}
	sort.Strings(sn)
	ns := g.N(600, 40000)
	for _, k := range sn {
		if !strings.HasPrefix(k, "s-") {
			continue
		}
		for i := 0; i < ns; i++ {
			g.Emitf("c33 %s %d", k, r.U64())
		}
	}

	// ---- T3 only: every type in every calling convention (value, pointer, field of a struct passed by value / by
	// pointer, nested struct, map value, slice / array element, inside interface{}; value and pointer decode targets).
	// The first seeds per (type, convention) are fixed so that every run has the same small grid.
	nc := g.N(12, 400)
	for _, k := range sn {
		for _, c := range convNames() {
			for i := 0; i < nc; i++ {
				seed := uint64(i + 1)
				if i >= 4 {
					seed = r.U64()
				}
				g.Emitf("c33 cc %s %s %d", k, c, seed)
			}
		}
	}
}

func init() {
	zv.Register(&zv.Prop{ID: "C33", Topic: "c33", Gen: gen, Exec: exec,
		Rule: "every value of TLSVersion, CipherSuiteID, CurveID, json.TLSCurveID (65536 each), CompressionMethod, PointFormat (256 each), SignatureAndHash (both axes in full + 9 hash columns; thorough: all 65536 pairs), ClientAuthType -3..69 and the int64 bounds, KeyUsage 0..511 + 600 random ints, PublicKeyAlgorithm and SignatureAlgorithm -3..39: real MarshalJSON then real UnmarshalJSON, both compared with the Lean model; json.ECPoint (with/without Y, nil X) and json.DHParams (nil optional members) compared member by member with the model, ECPoint decode-only lines with absent/null members; decode-only lines with right/mismatched/unknown names, out-of-range values and unknown.N strings for every decoder; m-<type> = the MODELLED structured types (pkix.AuxOID, x509.CertificateFingerprint, ct.SHA256Hash, ct.DigitallySigned, pkix.AttributeTypeAndValue, OtherName, Extension, json.RSAPublicKey (nil key / nil modulus / nil exponent in every run), RSAClientParams, ECDHParams, tls.KeyShareExtension, x509.GeneralSubtreeIP with IPv4 addresses in 4- and 16-byte form (all 33 prefix masks, masks with one hole, masks whose hex digits are all decimal, random masks; decode-only IPv4 CIDR / hex-mask texts right and wrong)): 700 random values each (OIDs of 1..9 arcs over the whole int range, nil / empty / boundary-size byte strings around the base64 group sizes, 65535- and 65536-byte signatures, moduli of every size incl. 0, exponents negative / beyond 64 bits, every present/absent combination of ECDH members) through the real MarshalJSON + UnmarshalJSON by pointer, abstract JSON members and decode result compared with the Lean model, and m-<type>-dec decode-only lines (absent / null / wrong-kind members, malformed and non-canonical base64, hex, OID and number texts, wrong DigitallySigned / RSA lengths); T3-only random structured values (DH/ECDH/RSA parameters, points with and without Y, general names, name constraints, IP subtrees with CIDR and non-CIDR masks, names, attribute values, extensions, other names, OIDs, fingerprints, CT DigitallySigned and SHA256Hash, key share); cc = EVERY type above (11 enumerated + 19 structured runners) in EVERY calling convention of encoding/json — json.Marshal(&v), (&p), (v), field of a struct passed by value / by pointer, *T field, struct nested in a struct by value / by pointer, map[string]T (by value / by pointer), map[string]*T, []T, []*T, [1]T by value / by pointer, []interface{}{v}, []interface{}{&v}, interface{} field, map[string]interface{} — decoded into the matching value and pointer targets (T, *T allocated by the decoder, container members), 4 fixed + 8 random values per (type, convention) (thorough: 400): the round trip must hold in each; addressable and non-addressable positions are tagged separately — a case is one distinct line"})
}
