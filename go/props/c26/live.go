package c26

// `c26 live <seed> <version> <suite>` (T3 only): a real in-process handshake (tlsrig); the secrets the
// handshake actually used (client handshake log: randoms, pre-master secret, master secret, both Finished
// verify_data values; ConnectionState exporter) are recomputed with the RFC reference implementation from
// the plaintext handshake transcript.  Ties the derivation functions to the way the handshake calls them
// (seed order, labels, transcript coverage), and records that the server never echoes extended_master_secret.

import (
	"bytes"
	"fmt"
	"strconv"
	"strings"

	"github.com/zmap/zcrypto/tls"

	"zv/internal/tlsrig"
	"zv/internal/zv"
)

// handshake messages carried in plaintext records before the first ChangeCipherSpec
func preCCSHandshake(stream []byte) [][]byte {
	var hs []byte
	for len(stream) >= 5 {
		typ, n := stream[0], int(stream[3])<<8|int(stream[4])
		if len(stream) < 5+n {
			break
		}
		if typ == 20 {
			break
		}
		if typ == 22 {
			hs = append(hs, stream[5:5+n]...)
		}
		stream = stream[5+n:]
	}
	var msgs [][]byte
	for len(hs) >= 4 {
		n := int(hs[1])<<16 | int(hs[2])<<8 | int(hs[3])
		if len(hs) < 4+n {
			break
		}
		msgs = append(msgs, hs[:4+n])
		hs = hs[4+n:]
	}
	return msgs
}

func liveKeyType(s uint16) string {
	switch s {
	case 0xc02b, 0xc02c, 0xc009, 0xc00a, 0xc023, 0xcca9, 0xc007, 0xc008:
		return "ecdsa"
	}
	return "rsa"
}

func execLive(f []string) zv.Out {
	vers64, _ := strconv.ParseUint(f[3], 10, 16)
	suite64, _ := strconv.ParseUint(f[4], 10, 16)
	version, suite := uint16(vers64), uint16(suite64)
	pki := tlsrig.GetPKI()
	scfg := &tls.Config{Certificates: []tls.Certificate{pki.Leaf[liveKeyType(suite)]}, MinVersion: tls.VersionTLS10, MaxVersion: tls.VersionTLS13,
		CipherSuites: []uint16{suite}, SessionTicketsDisabled: true}
	ccfg := &tls.Config{ServerName: tlsrig.Host, RootCAs: pki.Roots, MinVersion: version, MaxVersion: version,
		CipherSuites: []uint16{suite}, ForceSuites: true, SessionTicketsDisabled: true}
	res := tlsrig.Handshake(ccfg, scfg, tlsrig.Opts{KeepOpen: true})
	defer res.Client.Conn.Close()
	defer res.Server.Conn.Close()
	tags := []string{"op=live", fmt.Sprintf("version=%04x", version), fmt.Sprintf("live-suite=%04x", suite)}
	if res.Client.Err != nil || res.Server.Err != nil || res.TimedOut {
		return zv.Out{Viol: fmt.Sprintf("rig: handshake %04x/%04x failed: client %v server %v timeout %v", version, suite, res.Client.Err, res.Server.Err, res.TimedOut), Tags: tags}
	}
	if res.Client.State.Version != version || res.Client.State.CipherSuite != suite {
		return zv.Out{Viol: fmt.Sprintf("rig: negotiated %04x/%04x", res.Client.State.Version, res.Client.State.CipherSuite), Tags: tags}
	}
	var viol []string
	if !bytes.Equal(res.Client.EKM, res.Server.EKM) || len(res.Client.EKM) != 32 {
		viol = append(viol, "client and server export different keying material")
	}
	if version == tls.VersionTLS13 {
		return zv.Out{Tags: append(tags, "tls13-ekm-agree"), Viol: strings.Join(viol, " | ")}
	}
	for side, conn := range map[string]*tls.Conn{"client": res.Client.Conn, "server": res.Server.Conn} {
		log := conn.GetHandshakeLog()
		if log == nil || log.ClientHello == nil || log.ServerHello == nil || log.KeyMaterial == nil || log.KeyMaterial.MasterSecret == nil ||
			log.KeyMaterial.PreMasterSecret == nil || log.ClientFinished == nil || log.ServerFinished == nil {
			if side == "server" && (log == nil || log.ClientHello == nil) {
				continue // the server-side log does not keep every message; the client log is the reference
			}
			viol = append(viol, "rig: "+side+" handshake log incomplete")
			continue
		}
		if log.ServerHello.ExtendedMasterSecret {
			viol = append(viol, side+": ServerHello carries extended_master_secret although the tree has no RFC 7627 derivation")
		}
		cr, sr := log.ClientHello.Random, log.ServerHello.Random
		pms, ms := log.KeyMaterial.PreMasterSecret.Value, log.KeyMaterial.MasterSecret.Value
		prf, hn, _ := refPRFForVersion(version, suite)
		if want := prf(pms, []byte("master secret"), cat(cr, sr), 48); !bytes.Equal(ms, want) {
			viol = append(viol, fmt.Sprintf("%s: handshake master secret %x is not PRF(pre_master_secret, \"master secret\", client_random+server_random) = %x", side, ms, want))
		}
		// transcript: ClientHello, server flight up to ServerHelloDone, ClientKeyExchange
		out, in := preCCSHandshake(res.ClientOut), preCCSHandshake(res.ClientIn)
		if len(out) != 2 || len(in) < 3 || out[0][0] != 1 || out[1][0] != 16 || in[len(in)-1][0] != 14 {
			viol = append(viol, fmt.Sprintf("rig: unexpected plaintext flights (%d client, %d server messages)", len(out), len(in)))
			continue
		}
		transcript := cat(out[0], bytes.Join(in, nil), out[1])
		sum := func(msgs []byte) []byte {
			if hn == "none" {
				return cat(digest("md5", msgs), digest("sha1", msgs))
			}
			return digest(hn, msgs)
		}
		cfin := prf(ms, []byte("client finished"), sum(transcript), 12)
		if !bytes.Equal(cfin, log.ClientFinished.VerifyData) {
			viol = append(viol, fmt.Sprintf("%s: client Finished verify_data %x, RFC value over the transcript %x", side, log.ClientFinished.VerifyData, cfin))
		}
		cfinMsg := append([]byte{20, 0, 0, 12}, cfin...)
		sfin := prf(ms, []byte("server finished"), sum(cat(transcript, cfinMsg)), 12)
		if !bytes.Equal(sfin, log.ServerFinished.VerifyData) {
			viol = append(viol, fmt.Sprintf("%s: server Finished verify_data %x, RFC value over the transcript %x", side, log.ServerFinished.VerifyData, sfin))
		}
		// exporter as computed by tlsrig: ExportKeyingMaterial("zv exporter", "ctx", 32)
		if want := refEKM(version, suite, ms, cr, sr, []byte("zv exporter"), []byte("ctx"), 32); want != "ok "+zv.Hex(res.Client.EKM) {
			viol = append(viol, fmt.Sprintf("%s: exported keying material %x, RFC 5705 value %s", side, res.Client.EKM, want))
		}
		tags = append(tags, "live-checked="+side)
	}
	return zv.Out{Tags: tags, Viol: strings.Join(viol, " | ")}
}

// (version, suite) pairs for the live check: every implemented non-DSS/DHE-free suite the rig's PKI can serve
func livePairs() [][2]uint16 {
	var r [][2]uint16
	seen := map[uint16]bool{}
	for _, s := range tls.ZVSuites() {
		if seen[s.ID] {
			continue
		}
		seen[s.ID] = true
		switch s.ID { // DSS needs a DSA key, which the shared PKI does not have
		case 0x0032, 0x0038, 0x0040, 0x006a, 0x00a2, 0x00a3, 0x0013, 0x0066,
			0xc008: // … and ECDHE_ECDSA_3DES is client-only (not in the server's suite list)
			continue
		}
		_, tls12only := sha384Suites[s.ID]
		switch s.ID {
		case 0x009c, 0x009e, 0x003c, 0x003d, 0x0067, 0x006b, 0xc023, 0xc027, 0xc02b, 0xc02f, 0xcca8, 0xcca9, 0xccaa:
			tls12only = true
		}
		if !tls12only {
			r = append(r, [2]uint16{0x0301, s.ID}, [2]uint16{0x0302, s.ID})
		}
		r = append(r, [2]uint16{0x0303, s.ID})
	}
	for _, s := range tls.ZVSuites13() {
		r = append(r, [2]uint16{0x0304, s.ID})
	}
	return r
}
