// Package c26: TLS key derivation (tls/prf.go, tls/key_schedule.go) through the verif hook
// tls/zv_c26_verif.go.  T2: every line is also evaluated by the Lean model (ZV.Model.C26 with the
// executable hashes of ZV.Hash).  T3: every line is compared with an independent implementation
// written from the RFC texts (ref.go) with crypto/hmac and golang.org/x/crypto/hkdf.
// seq.go: the derived closures / running hashes queried many times on ONE object; livex.go: the exporter of live
// connections queried repeatedly on both ends and recomputed from the log (TLS <= 1.2) or the wire (TLS 1.3), with and
// without client authentication, sequentially and from several goroutines; par.go: one exporter closure called concurrently.
package c26

import (
	"bytes"
	"fmt"
	"strconv"
	"strings"

	"github.com/zmap/zcrypto/tls"

	"zv/internal/zv"
)

func atoi(s string) int { n, _ := strconv.Atoi(s); return n }

func optHex(s string) []byte { // "nil" → nil slice, "-" → empty non-nil slice
	if s == "nil" {
		return nil
	}
	if s == "-" {
		return []byte{}
	}
	return zv.UnHex(s)
}

// catch runs f; a Go panic becomes the canonical output "panic".
func catch(f func() string) (out string) {
	defer func() {
		if r := recover(); r != nil {
			out = "panic"
		}
	}()
	return f()
}

func lenTag(prefix string, n int) string {
	switch {
	case n == 0:
		return prefix + "=0"
	case n <= 16:
		return prefix + "<=16"
	case n <= 64:
		return prefix + "<=64"
	case n <= 128:
		return prefix + "<=128"
	case n <= 256:
		return prefix + "<=256"
	case n <= 512:
		return prefix + "<=512"
	}
	return prefix + ">512"
}

func cmp(what string, got, want string) string {
	if got != want {
		if len(got) > 300 {
			got = got[:300] + "…"
		}
		if len(want) > 300 {
			want = want[:300] + "…"
		}
		return fmt.Sprintf("%s: zcrypto returns %s, the RFC definition gives %s", what, got, want)
	}
	return ""
}

func exec(line string) zv.Out {
	f := strings.Fields(line)
	op := f[1]
	tags := []string{"op=" + op}
	var got, want string
	switch op {
	case "phash":
		n := atoi(f[3])
		secret, seed := zv.UnHex(f[4]), zv.UnHex(f[5])
		got = zv.Hex(tls.ZVPHash(n, secret, seed, f[2]))
		want = zv.Hex(refPHash(hashByName(f[2]), secret, seed, n))
		tags = append(tags, "hash="+f[2], lenTag("n", n), fmt.Sprintf("n%%size=%d", boundaryClass(n, hashByName(f[2])().Size())))
	case "split":
		s := zv.UnHex(f[2])
		a, b := tls.ZVSplitPreMasterSecret(s)
		got = zv.Hex(a) + "," + zv.Hex(b)
		ra, rb := refSplit(s)
		want = zv.Hex(ra) + "," + zv.Hex(rb)
		tags = append(tags, fmt.Sprintf("secretlen%%2=%d", len(s)%2))
	case "prf10":
		n := atoi(f[2])
		secret, label, seed := zv.UnHex(f[3]), zv.UnHex(f[4]), zv.UnHex(f[5])
		got = zv.Hex(tls.ZVPrf10(n, secret, label, seed))
		want = zv.Hex(refPRF10(secret, label, seed, n))
		tags = append(tags, lenTag("n", n), fmt.Sprintf("secretlen%%2=%d", len(secret)%2))
	case "prf12":
		n := atoi(f[3])
		secret, label, seed := zv.UnHex(f[4]), zv.UnHex(f[5]), zv.UnHex(f[6])
		got = zv.Hex(tls.ZVPrf12(f[2], n, secret, label, seed))
		want = zv.Hex(refPRF12(hashByName(f[2]), secret, label, seed, n))
		tags = append(tags, "hash="+f[2], lenTag("n", n))
	case "prfv":
		version, suite, n := uint16(atoi(f[2])), uint16(atoi(f[3])), atoi(f[4])
		secret, label, seed := zv.UnHex(f[5]), zv.UnHex(f[6]), zv.UnHex(f[7])
		got = catch(func() string {
			out, h := tls.ZVPrfForVersion(version, suite, n, secret, label, seed)
			return hashName(h) + " " + zv.Hex(out)
		})
		if prf, hn, ok := refPRFForVersion(version, suite); ok {
			want = hn + " " + zv.Hex(prf(secret, label, seed, n))
		} else {
			want = "panic"
		}
		tags = append(tags, fmt.Sprintf("version=%04x", version), lenTag("n", n), "prf="+strings.Fields(want)[0])
	case "master":
		version, suite := uint16(atoi(f[2])), uint16(atoi(f[3]))
		pms, cr, sr := zv.UnHex(f[4]), zv.UnHex(f[5]), zv.UnHex(f[6])
		got = catch(func() string { return zv.Hex(tls.ZVMasterFromPreMasterSecret(version, suite, pms, cr, sr)) })
		if prf, _, ok := refPRFForVersion(version, suite); ok {
			// RFC 5246 §8.1: master_secret = PRF(pre_master_secret, "master secret", ClientHello.random + ServerHello.random)[0..47]
			want = zv.Hex(prf(pms, []byte("master secret"), cat(cr, sr), 48))
		} else {
			want = "panic"
		}
		tags = append(tags, fmt.Sprintf("version=%04x", version), lenTag("pms", len(pms)))
	case "keys":
		version, suite := uint16(atoi(f[2])), uint16(atoi(f[3]))
		ms, cr, sr := zv.UnHex(f[4]), zv.UnHex(f[5]), zv.UnHex(f[6])
		mac, key, iv := atoi(f[7]), atoi(f[8]), atoi(f[9])
		got = catch(func() string {
			k := tls.ZVKeysFromMasterSecret(version, suite, ms, cr, sr, mac, key, iv)
			var s []string
			for _, x := range k {
				s = append(s, zv.Hex(x))
			}
			return strings.Join(s, ",")
		})
		if prf, _, ok := refPRFForVersion(version, suite); ok {
			// RFC 5246 §6.3: key_block = PRF(master_secret, "key expansion", server_random + client_random), partitioned:
			// client_write_MAC_key, server_write_MAC_key, client_write_key, server_write_key, client_write_IV, server_write_IV
			kb := prf(ms, []byte("key expansion"), cat(sr, cr), 2*mac+2*key+2*iv)
			var s []string
			for _, l := range []int{mac, mac, key, key, iv, iv} {
				s = append(s, zv.Hex(kb[:l]))
				kb = kb[l:]
			}
			want = strings.Join(s, ",")
		} else {
			want = "panic"
		}
		tags = append(tags, fmt.Sprintf("version=%04x", version), fmt.Sprintf("zero-parts=%d", b2i(mac == 0)+b2i(key == 0)+b2i(iv == 0)))
	case "fin":
		version, suite := uint16(atoi(f[2])), uint16(atoi(f[3]))
		ms := zv.UnHex(f[4])
		var msgs [][]byte
		if f[5] != "-" {
			for _, m := range strings.Split(f[5], ",") {
				msgs = append(msgs, zv.UnHex(m))
			}
		}
		got = catch(func() string {
			s, c, sv := tls.ZVFinished(version, suite, ms, msgs)
			return zv.Hex(s) + "," + zv.Hex(c) + "," + zv.Hex(sv)
		})
		if prf, hn, ok := refPRFForVersion(version, suite); ok {
			all := bytes.Join(msgs, nil)
			var sum []byte
			if hn == "none" { // RFC 2246 §7.4.9: MD5(handshake_messages) + SHA-1(handshake_messages)
				sum = cat(digest("md5", all), digest("sha1", all))
			} else { // RFC 5246 §7.4.9: Hash(handshake_messages) with the PRF hash
				sum = digest(hn, all)
			}
			want = zv.Hex(sum) + "," + zv.Hex(prf(ms, []byte("client finished"), sum, 12)) + "," + zv.Hex(prf(ms, []byte("server finished"), sum, 12))
		} else {
			want = "panic"
		}
		tags = append(tags, fmt.Sprintf("version=%04x", version), fmt.Sprintf("writes=%d", len(msgs)))
	case "ekm":
		version, suite := uint16(atoi(f[2])), uint16(atoi(f[3]))
		ms, cr, sr, label, ctx, n := zv.UnHex(f[4]), zv.UnHex(f[5]), zv.UnHex(f[6]), zv.UnHex(f[7]), optHex(f[8]), atoi(f[9])
		got = catch(func() string {
			out, err := tls.ZVEkm(version, suite, ms, cr, sr, string(label), ctx, n)
			if err != nil {
				return "err"
			}
			return "ok " + zv.Hex(out)
		})
		want = refEKM(version, suite, ms, cr, sr, label, ctx, n)
		tags = append(tags, fmt.Sprintf("version=%04x", version), lenTag("n", n), "res="+strings.Fields(want)[0])
		if ctx == nil {
			tags = append(tags, "ctx=nil")
		} else {
			tags = append(tags, lenTag("ctx", len(ctx)))
		}
	case "xl":
		suite := uint16(atoi(f[2]))
		secret, label, ctx, n := zv.UnHex(f[3]), zv.UnHex(f[4]), zv.UnHex(f[5]), atoi(f[6])
		got = catch(func() string { return "ok " + zv.Hex(tls.ZVExpandLabel(suite, secret, string(label), ctx, n)) })
		want = refExpandLabel(suite, secret, label, ctx, n)
		tags = append(tags, fmt.Sprintf("suite=%04x", suite), lenTag("n", n), lenTag("label", len(label)), lenTag("ctx", len(ctx)), "res="+strings.Fields(want)[0])
	case "ds":
		suite := uint16(atoi(f[2]))
		secret, label, msgs := zv.UnHex(f[3]), zv.UnHex(f[4]), optHex(f[5])
		got = catch(func() string {
			return "ok " + zv.Hex(tls.ZVDeriveSecret(suite, secret, string(label), msgs, f[5] == "nil"))
		})
		// RFC 8446 §7.1: Derive-Secret(Secret, Label, Messages) = HKDF-Expand-Label(Secret, Label, Transcript-Hash(Messages), Hash.length)
		hn := ref13Hash(suite)
		want = refExpandLabel(suite, secret, label, digest(hn, msgs), hashByName(hn)().Size())
		tags = append(tags, fmt.Sprintf("suite=%04x", suite), lenTag("label", len(label)), "res="+strings.Fields(want)[0])
		if f[5] == "nil" {
			tags = append(tags, "transcript=nil")
		}
	case "ext":
		suite := uint16(atoi(f[2]))
		ns, cur := optHex(f[3]), zv.UnHex(f[4])
		got = zv.Hex(tls.ZVExtract(suite, ns, cur))
		want = zv.Hex(refExtract(suite, ns, cur))
		tags = append(tags, fmt.Sprintf("suite=%04x", suite), lenTag("salt", len(cur)))
		if ns == nil {
			tags = append(tags, "ikm=nil")
		}
	case "nts":
		suite := uint16(atoi(f[2]))
		secret := zv.UnHex(f[3])
		got = catch(func() string { return "ok " + zv.Hex(tls.ZVNextTrafficSecret(suite, secret)) })
		// RFC 8446 §7.2: application_traffic_secret_N+1 = HKDF-Expand-Label(application_traffic_secret_N, "traffic upd", "", Hash.length)
		want = refExpandLabel(suite, secret, []byte("traffic upd"), nil, hashByName(ref13Hash(suite))().Size())
		tags = append(tags, fmt.Sprintf("suite=%04x", suite))
	case "tk":
		suite := uint16(atoi(f[2]))
		secret := zv.UnHex(f[3])
		got = catch(func() string {
			k, iv := tls.ZVTrafficKey(suite, secret)
			return "ok " + zv.Hex(k) + "," + zv.Hex(iv)
		})
		// RFC 8446 §7.3 with key_length from B.4 / RFC 5116 and iv_length 12
		k := refExpandLabel(suite, secret, []byte("key"), nil, ref13KeyLen(suite))
		iv := refExpandLabel(suite, secret, []byte("iv"), nil, 12)
		want = k + "," + strings.TrimPrefix(iv, "ok ")
		tags = append(tags, fmt.Sprintf("suite=%04x", suite))
	case "fin13":
		suite := uint16(atoi(f[2]))
		bk, msgs := zv.UnHex(f[3]), zv.UnHex(f[4])
		got = catch(func() string { return "ok " + zv.Hex(tls.ZVFinishedHash13(suite, bk, msgs)) })
		want = "ok " + zv.Hex(refFinished13(suite, bk, msgs))
		tags = append(tags, fmt.Sprintf("suite=%04x", suite))
	case "ekm13":
		suite := uint16(atoi(f[2]))
		master, msgs, label, ctx, n := zv.UnHex(f[3]), zv.UnHex(f[4]), zv.UnHex(f[5]), zv.UnHex(f[6]), atoi(f[7])
		got = catch(func() string {
			out, err := tls.ZVExportKeyingMaterial13(suite, master, msgs, string(label), ctx, n)
			if err != nil {
				return "err"
			}
			return "ok " + zv.Hex(out)
		})
		want = refExporter13(suite, master, msgs, label, ctx, n)
		tags = append(tags, fmt.Sprintf("suite=%04x", suite), lenTag("n", n), lenTag("label", len(label)), "res="+strings.Fields(want)[0])
	case "suitebyid", "mutual":
		// the lookup the handshakes go through (mutualCipherSuite -> cipherSuiteByID over implementedCipherSuites)
		show := func(r tls.ZV26Suite, ok bool) string {
			if !ok {
				return "nil"
			}
			return fmt.Sprintf("%d,%d,%d,%d,%d", r.ID, r.MacLen, r.KeyLen, r.IVLen, r.Flags)
		}
		var id uint16
		if op == "suitebyid" {
			id = uint16(atoi(f[2]))
			got = show(tls.ZVCipherSuiteByID(id))
		} else {
			var have []uint16
			if f[2] != "-" {
				for _, x := range strings.Split(f[2], ",") {
					have = append(have, uint16(atoi(x)))
				}
			}
			id = uint16(atoi(f[3]))
			got = show(tls.ZVMutualCipherSuite(have, id))
			tags = append(tags, fmt.Sprintf("offered=%v", got != "nil"))
		}
		// T3: whatever row comes back carries the RFC's key-block lengths and PRF hash for that id
		if got != "nil" {
			var gid, mac, key, iv, flags int
			fmt.Sscanf(got, "%d,%d,%d,%d,%d", &gid, &mac, &key, &iv, &flags)
			rm, rk, ri, known := refSuiteLens(id)
			_, is384 := sha384Suites[id]
			if gid != int(id) || !known || mac != rm || key != rk || iv != ri || (flags&tls.ZVSuiteSHA384Bit() != 0) != is384 {
				return zv.Out{Go: got, Viol: fmt.Sprintf("%s %04x: zcrypto's suite row is %s, the RFCs give mac/key/iv %d/%d/%d sha384=%v", op, id, got, rm, rk, ri, is384), Tags: tags}
			}
			tags = append(tags, "row=found")
		} else {
			tags = append(tags, "row=nil")
		}
		return zv.Out{Go: got, Tags: tags}
	case "keyssuite":
		version, suite := uint16(atoi(f[2])), uint16(atoi(f[3]))
		ms, cr, sr := zv.UnHex(f[4]), zv.UnHex(f[5]), zv.UnHex(f[6])
		got = catch(func() string {
			k := tls.ZVKeysForSuite(version, suite, ms, cr, sr)
			var s []string
			for _, x := range k {
				s = append(s, zv.Hex(x))
			}
			return strings.Join(s, ",")
		})
		if prf, _, ok := refPRFForVersion(version, suite); ok {
			mac, key, iv, known := refSuiteLens(suite)
			if !known {
				return zv.Out{Go: got, Viol: fmt.Sprintf("harness: no RFC lengths for suite %04x", suite), Tags: tags}
			}
			kb := prf(ms, []byte("key expansion"), cat(sr, cr), 2*mac+2*key+2*iv)
			var s []string
			for _, l := range []int{mac, mac, key, key, iv, iv} {
				s = append(s, zv.Hex(kb[:l]))
				kb = kb[l:]
			}
			want = strings.Join(s, ",")
			tags = append(tags, fmt.Sprintf("suite-lens=%d/%d/%d", mac, key, iv))
		} else {
			want = "panic"
		}
		tags = append(tags, fmt.Sprintf("version=%04x", version))
	case "hs13":
		suite := uint16(atoi(f[2]))
		early, shared, msgs := optHex(f[3]), zv.UnHex(f[4]), zv.UnHex(f[5])
		got = catch(func() string {
			c, s, m, err := tls.ZVEstablishHandshakeKeys13(suite, early != nil, early, shared, msgs)
			if err != nil {
				return "err"
			}
			return "ok " + zv.Hex(c) + "," + zv.Hex(s) + "," + zv.Hex(m)
		})
		{
			// RFC 8446 7.1
			hn := ref13Hash(suite)
			size := hashByName(hn)().Size()
			zeros := make([]byte, size)
			ds := func(secret []byte, label string, m []byte) []byte {
				return unOK(refExpandLabel(suite, secret, []byte(label), digest(hn, m), size))
			}
			e := early
			if e == nil {
				e = refExtract(suite, zeros, zeros)
			}
			hsS := refExtract(suite, shared, ds(e, "derived", nil))
			want = "ok " + zv.Hex(ds(hsS, "c hs traffic", msgs)) + "," + zv.Hex(ds(hsS, "s hs traffic", msgs)) + "," + zv.Hex(refExtract(suite, zeros, ds(hsS, "derived", nil)))
		}
		tags = append(tags, fmt.Sprintf("suite=%04x", suite), fmt.Sprintf("usingPSK=%v", early != nil))
	case "psk13":
		suite := uint16(atoi(f[2]))
		res, nonce, hello := zv.UnHex(f[3]), zv.UnHex(f[4]), zv.UnHex(f[5])
		hn := ref13Hash(suite)
		size := hashByName(hn)().Size()
		got = catch(func() string {
			// the four calls of loadSession / checkForResumption, on the real functions
			psk := tls.ZVExpandLabel(suite, res, "resumption", nonce, size)
			early := tls.ZVExtract(suite, psk, nil)
			binderKey := tls.ZVDeriveSecret(suite, early, "res binder", nil, true)
			return "ok " + zv.Hex(psk) + "," + zv.Hex(tls.ZVFinishedHash13(suite, binderKey, hello))
		})
		if len(nonce) > 255 {
			want = "panic"
		} else {
			zeros := make([]byte, size)
			psk := unOK(refExpandLabel(suite, res, []byte("resumption"), nonce, size))
			early := refExtract(suite, psk, zeros)
			bk := unOK(refExpandLabel(suite, early, []byte("res binder"), digest(hn, nil), size))
			want = "ok " + zv.Hex(psk) + "," + zv.Hex(refFinished13(suite, bk, hello))
		}
		tags = append(tags, fmt.Sprintf("suite=%04x", suite), lenTag("nonce", len(nonce)), "res="+strings.Fields(want)[0])
	case "app13":
		suite := uint16(atoi(f[2]))
		master, m1, m2 := zv.UnHex(f[3]), zv.UnHex(f[4]), zv.UnHex(f[5])
		got = catch(func() string {
			return "ok " + zv.Hex(tls.ZVDeriveSecret(suite, master, "c ap traffic", m1, false)) + "," +
				zv.Hex(tls.ZVDeriveSecret(suite, master, "s ap traffic", m1, false)) + "," + zv.Hex(tls.ZVDeriveSecret(suite, master, "res master", m2, false))
		})
		{
			hn := ref13Hash(suite)
			size := hashByName(hn)().Size()
			ds := func(label string, m []byte) string {
				return zv.Hex(unOK(refExpandLabel(suite, master, []byte(label), digest(hn, m), size)))
			}
			want = "ok " + ds("c ap traffic", m1) + "," + ds("s ap traffic", m1) + "," + ds("res master", m2)
		}
		tags = append(tags, fmt.Sprintf("suite=%04x", suite))
	case "prfseq", "ekmseq", "ekm13seq", "finseq", "sched13":
		return execSeq(f)
	case "ekmpar", "ekm13par":
		return execPar(f)
	case "livex":
		return execLiveX(f)
	case "kat":
		return execKAT(f)
	case "live":
		return execLive(f)
	default:
		return zv.Out{Go: "bad-op", Viol: "harness: unknown op " + op}
	}
	return finish(line, got, want, op, tags, f)
}

func finish(_ string, got, want, what string, tags []string, _ []string) zv.Out {
	return zv.Out{Go: got, Viol: cmp(what, got, want), Tags: tags}
}

func b2i(b bool) int {
	if b {
		return 1
	}
	return 0
}

func boundaryClass(n, size int) int { // 0: multiple of the hash size, 1: one past, 2: one short, 3: other
	switch {
	case n%size == 0:
		return 0
	case n%size == 1:
		return 1
	case n%size == size-1:
		return 2
	}
	return 3
}

func init() {
	zv.Register(&zv.Prop{ID: "C26", Topic: "c26", Gen: gen, Exec: exec,
		Rule: "random secrets/labels/seeds (lengths 0..~80, incl. empty and odd/even secrets) x EVERY output length 0..512 for every hash (MD5, SHA-1, SHA-256, SHA-384, SHA-512), prf10, prf12 and HKDF-Expand-Label per TLS 1.3 suite (thorough: 12 independent repetitions) x every implemented TLS<=1.2 suite and version 1.0/1.1/1.2 (+ unknown versions) x all three TLS 1.3 suites, label/context/length limits of HKDF-Expand-Label (254..256-byte vectors, 255*HashLen+-1); a case is one distinct call; T3 = independent RFC implementation (crypto/hmac, x/crypto/hkdf) + published vectors (RFC 8448, TLS 1.2 PRF test vector) + real handshakes for every servable (version, suite) pair whose logged pre-master/master secret, Finished verify_data and exporter output are recomputed from the plaintext transcript with the RFC reference; STATEFUL USE (one object, many queries; every answer compared with the reference evaluated on that query alone, T2 + T3): prfseq = one PRF closure of prfAndHashForVersion called 2-5 times with inputs of changing lengths, ekmseq / ekm13seq = ONE exporter closure (the object kept in Conn.ekm, TLS 1.0-1.2 and every TLS 1.3 suite) queried 2-6 times with different labels (incl. reserved and over-long ones) x contexts nil / empty / 1 byte / around the 64- and 128-byte hash blocks / random / repeated x lengths, some queries repeated verbatim, plus a fixed 3-query grid first-context x second-context; finseq = one finishedHash with Sum/clientSum/serverSum before the first and after every Write; sched13 = one TLS 1.3 transcript hash shared by deriveSecret / finishedHash / exportKeyingMaterial with writes in between, random scripts and the handshake's own order (exporter created before the client Finished is written, queried afterwards); livex = live connections for every servable (version, suite) pair, full and resumed (ticket / PSK), on which ConnectionState().ExportKeyingMaterial is called 4-8 times on BOTH ends in different orders (stored and fresh ConnectionState alternately, one query repeated): both ends agree, repeats agree, and every answer equals RFC 5705 from the logged master secret (TLS 1.0-1.2, full and resumed) or RFC 8446 7.5 recomputed from the wire (TLS 1.3 full handshakes: X25519 private key from a recording Config.Rand, server flight decrypted with the reference's own handshake keys, full 7.1 schedule); livex with CLIENT AUTHENTICATION: the same check on handshakes in which the server asks for a client certificate — Config.ClientAuth = NoClientCert / RequestClientCert / RequireAnyClientCert / VerifyClientCertIfGiven / RequireAndVerifyClientCert x client with no certificate / an RSA / ECDSA / Ed25519 certificate (the 8 combinations that complete) x TLS 1.0, 1.1, 1.2 (RSA, ECDHE-RSA, ECDHE-ECDSA suites) and every TLS 1.3 suite, full and some resumed: both ends agree and equal the reference (TLS 1.3: exporter secret over ClientHello..server Finished although the client's Certificate / CertificateVerify follow); CONCURRENT USE: every livex connection repeats its queries from 8 goroutines at once on both ends (stored and fresh ConnectionState, one query with a 9-29 KB context), and ekmpar / ekm13par call ONE exporter closure (TLS 1.0-1.2 / each TLS 1.3 suite) from 8-16 goroutines x 10-40 rounds with contexts from nil to 32 KB: every single answer must equal the sequential answer / the RFC reference"})
}
