package c26

// `c26 livex <seed> <version> <suite> <mode> [<clientauth> <clientcert>]` (T3 only): the exporter of a LIVE connection queried the way an
// application does — several ConnectionState().ExportKeyingMaterial calls with different labels / contexts (nil,
// empty, non-empty) / lengths on the same connection, on BOTH ends, in different orders, with one query repeated.
// mode 0: full handshake; mode 1: the second of two connections, resumed through a session cache (ticket / PSK).
// clientauth: the server's Config.ClientAuth (0 NoClientCert .. 4 RequireAndVerifyClientCert), clientcert: none | rsa |
// ecdsa | ed25519 = the certificate the client owns.  With clientauth >= 1 the server sends a CertificateRequest and the
// client answers with Certificate (possibly empty) [+ CertificateVerify]: those messages come AFTER the point of the
// transcript the TLS 1.3 exporter secret is derived at (ClientHello..server Finished, RFC 8446 7.1), so both ends must
// still export the reference value.
//
// Oracle: (a) every query gives the same bytes on both ends although the ends issue the queries in different orders,
// (b) a repeated query gives the same bytes again, (d) the same queries issued CONCURRENTLY from several goroutines
// through the one connection (stored ConnectionState copies and fresh ones share the closure kept in Conn.ekm) give the
// same bytes again, (c) every answer is the RFC value recomputed by the reference:
// TLS <= 1.2 from the logged master secret and the hello randoms (RFC 5705); TLS 1.3 full handshakes from the WIRE:
// the client's X25519 private key is taken from a recording Config.Rand, the server share from the plaintext
// ServerHello, the server's encrypted flight is decrypted with the reference's own handshake traffic keys, and the
// whole RFC 8446 §7.1 schedule (early -> handshake -> master -> exporter master over ClientHello..server Finished)
// is run by ref.go.  So the way the handshake wires the key schedule to Conn.ekm is covered, not only the functions.

import (
	"bytes"
	"crypto/aes"
	"crypto/cipher"
	"crypto/rand"
	"fmt"
	"strconv"
	"strings"
	"sync"
	"time"

	"golang.org/x/crypto/chacha20poly1305"
	"golang.org/x/crypto/curve25519"

	"github.com/zmap/zcrypto/tls"

	"zv/internal/tlsrig"
	"zv/internal/zv"
)

// recRand records every Read made through Config.Rand (the client's X25519 private key is one of them).
type recRand struct {
	mu    sync.Mutex
	reads [][]byte
}

func (r *recRand) Read(p []byte) (int, error) {
	n, err := rand.Read(p)
	r.mu.Lock()
	r.reads = append(r.reads, bytes.Clone(p[:n]))
	r.mu.Unlock()
	return n, err
}

type lruCache struct {
	mu sync.Mutex
	m  map[string]*tls.ClientSessionState
}

func (c *lruCache) Get(k string) (*tls.ClientSessionState, bool) {
	c.mu.Lock()
	defer c.mu.Unlock()
	s, ok := c.m[k]
	return s, ok
}
func (c *lruCache) Put(k string, s *tls.ClientSessionState) {
	c.mu.Lock()
	defer c.mu.Unlock()
	if s == nil {
		delete(c.m, k)
	} else {
		c.m[k] = s
	}
}

func ref13AEAD(suite uint16, key []byte) (cipher.AEAD, error) {
	if suite == 0x1303 {
		return chacha20poly1305.New(key)
	}
	b, err := aes.NewCipher(key)
	if err != nil {
		return nil, err
	}
	return cipher.NewGCM(b)
}

// ref13MasterFromWire recomputes (master secret, transcript ClientHello..server Finished) of a full TLS 1.3
// handshake from the client's transport bytes and the client's recorded randomness.
func ref13MasterFromWire(suite uint16, clientOut, clientIn []byte, reads [][]byte) (master, transcript []byte, err error) {
	hn := ref13Hash(suite)
	size := hashByName(hn)().Size()
	zeros := make([]byte, size)
	out, _ := tlsrig.SplitRecords(clientOut)
	in, _ := tlsrig.SplitRecords(clientIn)
	if len(out) == 0 || len(in) == 0 || out[0][0] != 22 || in[0][0] != 22 {
		return nil, nil, fmt.Errorf("no plaintext hello records")
	}
	ch, sh := out[0][5:], in[0][5:]
	if ch[0] != 1 || sh[0] != 2 || 4+(int(ch[1])<<16|int(ch[2])<<8|int(ch[3])) != len(ch) || 4+(int(sh[1])<<16|int(sh[2])<<8|int(sh[3])) != len(sh) {
		return nil, nil, fmt.Errorf("hello messages not alone in their records")
	}
	// ServerHello: type(1) len(3) version(2) random(32) sid<0..32> suite(2) compression(1) extensions<..>
	p := sh[4+2+32:]
	p = p[1+int(p[0]):]
	if got := uint16(p[0])<<8 | uint16(p[1]); got != suite {
		return nil, nil, fmt.Errorf("ServerHello suite %04x", got)
	}
	p = p[3:]
	p = p[2:]
	var serverShare []byte
	for len(p) >= 4 {
		typ, l := int(p[0])<<8|int(p[1]), int(p[2])<<8|int(p[3])
		body := p[4 : 4+l]
		p = p[4+l:]
		if typ == 51 { // key_share: group(2) key_exchange<1..2^16-1>
			if len(body) < 4 || int(body[0])<<8|int(body[1]) != 29 {
				return nil, nil, fmt.Errorf("server key share is not X25519")
			}
			serverShare = body[4:]
		}
	}
	if len(serverShare) != 32 {
		return nil, nil, fmt.Errorf("no server key share")
	}
	var priv []byte
	for _, rd := range reads {
		if len(rd) != 32 {
			continue
		}
		pub, e := curve25519.X25519(rd, curve25519.Basepoint)
		if e == nil && bytes.Contains(ch, pub) {
			priv = rd
		}
	}
	if priv == nil {
		return nil, nil, fmt.Errorf("client X25519 private key not among the recorded Config.Rand reads")
	}
	shared, e := curve25519.X25519(priv, serverShare)
	if e != nil {
		return nil, nil, e
	}
	// RFC 8446 §7.1
	ds := func(secret []byte, label string, msgs []byte) []byte {
		return unOK(refExpandLabel(suite, secret, []byte(label), digest(hn, msgs), size))
	}
	early := refExtract(suite, zeros, zeros)                         // HKDF-Extract(salt 0, PSK absent = 0)
	hsSecret := refExtract(suite, shared, ds(early, "derived", nil)) // HKDF-Extract(salt Derive-Secret(., "derived", ""), (EC)DHE)
	transcript = cat(ch, sh)
	sTraffic := ds(hsSecret, "s hs traffic", transcript)
	key := unOK(refExpandLabel(suite, sTraffic, []byte("key"), nil, ref13KeyLen(suite)))
	iv := unOK(refExpandLabel(suite, sTraffic, []byte("iv"), nil, 12))
	aead, e := ref13AEAD(suite, key)
	if e != nil {
		return nil, nil, e
	}
	var hs []byte
	seq := uint64(0)
	done := false
	for _, rec := range in[1:] {
		if rec[0] == 20 { // compatibility ChangeCipherSpec
			continue
		}
		if rec[0] != 23 {
			return nil, nil, fmt.Errorf("unexpected record type %d in the server flight", rec[0])
		}
		nonce := bytes.Clone(iv)
		for i := 0; i < 8; i++ {
			nonce[11-i] ^= byte(seq >> (8 * i))
		}
		seq++
		pt, e := aead.Open(nil, nonce, rec[5:], rec[:5])
		if e != nil {
			return nil, nil, fmt.Errorf("server flight does not decrypt under the reference's handshake traffic key: %v", e)
		}
		for len(pt) > 0 && pt[len(pt)-1] == 0 {
			pt = pt[:len(pt)-1]
		}
		if len(pt) == 0 || pt[len(pt)-1] != 22 {
			return nil, nil, fmt.Errorf("inner content type is not handshake")
		}
		hs = append(hs, pt[:len(pt)-1]...)
		// complete messages so far; stop after Finished (type 20)
		rest := hs
		for len(rest) >= 4 {
			n := 4 + (int(rest[1])<<16 | int(rest[2])<<8 | int(rest[3]))
			if len(rest) < n {
				break
			}
			if rest[0] == 20 {
				if len(rest) != n {
					return nil, nil, fmt.Errorf("data after the server Finished in the same record")
				}
				done = true
			}
			rest = rest[n:]
		}
		if done {
			break
		}
	}
	if !done {
		return nil, nil, fmt.Errorf("server Finished not found")
	}
	transcript = cat(transcript, hs)
	master = refExtract(suite, zeros, ds(hsSecret, "derived", nil))
	return master, transcript, nil
}

type xq struct {
	label string
	ctx   []byte
	n     int
}

func (q xq) String() string {
	c := "nil"
	if q.ctx != nil {
		c = zv.Hex(q.ctx)
		if len(q.ctx) > 160 {
			c = fmt.Sprintf("%s…[%d bytes]", zv.Hex(q.ctx[:24]), len(q.ctx))
		}
	}
	return fmt.Sprintf("(%q, %s, %d)", q.label, c, q.n)
}

func execLiveX(f []string) zv.Out {
	seed, _ := strconv.ParseUint(f[2], 10, 64)
	vers64, _ := strconv.ParseUint(f[3], 10, 16)
	suite64, _ := strconv.ParseUint(f[4], 10, 16)
	mode := atoi(f[5])
	auth, ccert := 0, "none"
	if len(f) >= 8 {
		auth, ccert = atoi(f[6]), f[7]
	}
	version, suite := uint16(vers64), uint16(suite64)
	r := zv.NewRng(seed)
	pki := tlsrig.GetPKI()
	rr := &recRand{}
	cache := &lruCache{m: map[string]*tls.ClientSessionState{}}
	scfg := &tls.Config{Certificates: []tls.Certificate{pki.Leaf[liveKeyType(suite)]}, MinVersion: tls.VersionTLS10, MaxVersion: tls.VersionTLS13,
		CipherSuites: []uint16{suite}, SessionTicketsDisabled: mode == 0}
	ccfg := &tls.Config{ServerName: tlsrig.Host, RootCAs: pki.Roots, MinVersion: version, MaxVersion: version,
		CipherSuites: []uint16{suite}, ForceSuites: true, SessionTicketsDisabled: mode == 0, Rand: rr,
		CurvePreferences: []tls.CurveID{tls.X25519}}
	scfg.ClientAuth = tls.ClientAuthType(auth)
	if auth >= int(tls.VerifyClientCertIfGiven) {
		scfg.ClientCAs = pki.Roots
	}
	if ccert != "none" {
		cc, ok := pki.Client[ccert]
		if !ok {
			return zv.Out{Viol: "harness: unknown client certificate kind " + ccert}
		}
		ccfg.Certificates = []tls.Certificate{cc}
	}
	if mode == 1 {
		ccfg.ClientSessionCache = cache
		var k [32]byte
		copy(k[:], r.Bytes(32))
		scfg.SetSessionTicketKeys([][32]byte{k})
	}
	tags := []string{"op=livex", fmt.Sprintf("version=%04x", version), fmt.Sprintf("live-suite=%04x", suite), fmt.Sprintf("mode=%d", mode)}
	if len(f) >= 8 {
		tags = append(tags, fmt.Sprintf("client-auth=%d/%s", auth, map[bool]string{true: "cert", false: "nocert"}[ccert != "none"]), fmt.Sprintf("client-auth:version=%04x", version))
	}
	var res *tlsrig.Result
	var firstMaster []byte
	for conn := 0; conn <= mode; conn++ {
		res = tlsrig.Handshake(ccfg, scfg, tlsrig.Opts{KeepOpen: true})
		if res.Client.Err != nil || res.Server.Err != nil || res.TimedOut {
			res.Client.Conn.Close()
			res.Server.Conn.Close()
			return zv.Out{Viol: fmt.Sprintf("rig: handshake %04x/%04x #%d failed: client %v server %v timeout %v", version, suite, conn, res.Client.Err, res.Server.Err, res.TimedOut), Tags: tags}
		}
		if conn < mode {
			// let the client process post-handshake messages (TLS 1.3 NewSessionTicket), then close
			done := make(chan struct{})
			go func() { defer close(done); res.Server.Conn.Write([]byte{0x5a}) }()
			res.Client.Conn.SetReadDeadline(time.Now().Add(8 * time.Second))
			var b [1]byte
			res.Client.Conn.Read(b[:])
			<-done
			if log := res.Client.Conn.GetHandshakeLog(); log != nil && log.KeyMaterial != nil && log.KeyMaterial.MasterSecret != nil {
				firstMaster = log.KeyMaterial.MasterSecret.Value
			}
			res.Client.Conn.Close()
			res.Server.Conn.Close()
		}
	}
	defer res.Client.Conn.Close()
	defer res.Server.Conn.Close()
	if res.Client.State.Version != version || res.Client.State.CipherSuite != suite {
		return zv.Out{Viol: fmt.Sprintf("rig: negotiated %04x/%04x", res.Client.State.Version, res.Client.State.CipherSuite), Tags: tags}
	}
	if auth >= 1 && mode == 0 {
		if got := len(res.Server.State.PeerCertificates) > 0; got != (ccert != "none") {
			return zv.Out{Viol: fmt.Sprintf("rig: client auth %d with client certificate %s: server saw a client certificate = %v", auth, ccert, got), Tags: tags}
		}
		tags = append(tags, "certificate-request-answered")
	}
	if mode == 1 && !(res.Client.State.DidResume && res.Server.State.DidResume) {
		return zv.Out{Viol: fmt.Sprintf("rig: second connection not resumed (client %v server %v)", res.Client.State.DidResume, res.Server.State.DidResume), Tags: tags}
	}
	if mode == 1 {
		tags = append(tags, "resumed")
	}

	// the reference exporter for this connection
	var ref func(q xq) string
	refKind := "none"
	if version == tls.VersionTLS13 {
		if mode == 0 {
			master, transcript, err := ref13MasterFromWire(suite, res.ClientOut, res.ClientIn, rr.reads)
			if err != nil {
				return zv.Out{Viol: "rig: TLS 1.3 reference key schedule from the wire: " + err.Error(), Tags: tags}
			}
			ref = func(q xq) string { return refExporter13(suite, master, transcript, []byte(q.label), q.ctx, q.n) }
			refKind = "wire13"
		}
	} else {
		log := res.Client.Conn.GetHandshakeLog()
		if log == nil || log.ClientHello == nil || log.ServerHello == nil {
			return zv.Out{Viol: "rig: client handshake log incomplete", Tags: tags}
		}
		ms := firstMaster
		if mode == 0 {
			if log.KeyMaterial == nil || log.KeyMaterial.MasterSecret == nil {
				return zv.Out{Viol: "rig: client handshake log has no master secret", Tags: tags}
			}
			ms = log.KeyMaterial.MasterSecret.Value
		}
		if ms != nil {
			cr, sr := log.ClientHello.Random, log.ServerHello.Random
			ref = func(q xq) string { return refEKM(version, suite, ms, cr, sr, []byte(q.label), q.ctx, q.n) }
			refKind = "log12"
		}
	}
	tags = append(tags, "ref="+refKind)

	// the queries
	labels := []string{"EXPORTER-zv", "EXPORTER-Channel-Binding", "zv exporter", "ttls keying material", "", "client finished", "key expansion"}
	var qs []xq
	var prevCtx [][]byte
	for k := 3 + r.Intn(4); k > 0; k-- {
		q := xq{label: labels[r.Intn(len(labels))], n: []int{0, 1, 16, 20, 32, 48, 64, 1 + r.Intn(150)}[r.Intn(8)]}
		if r.Chance(30) {
			q.label = string(r.Bytes(1 + r.Intn(30)))
		}
		switch r.Intn(6) {
		case 0: // nil
		case 1:
			q.ctx = []byte{}
		case 2:
			if len(prevCtx) > 0 {
				q.ctx = prevCtx[r.Intn(len(prevCtx))]
				break
			}
			fallthrough
		default:
			q.ctx = r.Bytes([]int{1, 3, 32, 63, 64, 65, 128, 1 + r.Intn(100)}[r.Intn(8)])
		}
		prevCtx = append(prevCtx, q.ctx)
		qs = append(qs, q)
	}
	// one query with a long context: hashing it takes long enough for concurrent calls to overlap
	qs = append(qs, xq{label: "EXPORTER-zv-long", ctx: r.Bytes(9000 + r.Intn(20000)), n: 32})
	// client: in order, then query 0 again; server: a rotation of the reversed order, then its first one again
	cOrder, sOrder := []int{}, []int{}
	for i := range qs {
		cOrder = append(cOrder, i)
		sOrder = append(sOrder, len(qs)-1-i)
	}
	rot := r.Intn(len(qs))
	sOrder = append(sOrder[rot:], sOrder[:rot]...)
	cOrder = append(cOrder, 0)
	sOrder = append(sOrder, sOrder[0])
	ask := func(c *tls.Conn, st tls.ConnectionState, order []int) [][]string {
		got := make([][]string, len(qs))
		for j, i := range order {
			q := qs[i]
			s := st
			if j%2 == 1 { // alternately through the stored state and through a fresh ConnectionState()
				s = c.ConnectionState()
			}
			got[i] = append(got[i], catch(func() string { return ekmOut(s.ExportKeyingMaterial(q.label, q.ctx, q.n)) }))
		}
		return got
	}
	cg := ask(res.Client.Conn, res.Client.State, cOrder)
	sg := ask(res.Server.Conn, res.Server.State, sOrder)
	var viol []string
	for i, q := range qs {
		for _, side := range []struct {
			n string
			g []string
		}{{"client", cg[i]}, {"server", sg[i]}} {
			for k := 1; k < len(side.g); k++ {
				if side.g[k] != side.g[0] {
					viol = append(viol, fmt.Sprintf("%s: the same exporter query %v answered %s first and %s later on one connection", side.n, q, side.g[0], side.g[k]))
				}
			}
			if ref != nil {
				if want := ref(q); side.g[0] != want {
					viol = append(viol, cmp(fmt.Sprintf("%s ExportKeyingMaterial%v (query order %v)", side.n, q, map[string][]int{"client": cOrder, "server": sOrder}[side.n]), side.g[0], want))
				}
			}
		}
		if cg[i][0] != sg[i][0] {
			viol = append(viol, fmt.Sprintf("client and server export different keying material for %v (client order %v, server order %v): %s vs %s", q, cOrder, sOrder, cg[i][0], sg[i][0]))
		}
		if q.ctx == nil {
			tags = append(tags, "ctx=nil")
		} else {
			tags = append(tags, lenTag("ctx", len(q.ctx)))
		}
		tags = append(tags, "res="+strings.Fields(cg[i][0])[0])
	}
	tags = append(tags, fmt.Sprintf("queries=%d", len(qs)))
	// (d) the same queries, concurrently, through the same two connections
	if len(viol) == 0 {
		want := make([]string, len(qs))
		for i := range qs {
			want[i] = cg[i][0]
		}
		calls, bad, first := exportConcurrently([]*tls.Conn{res.Client.Conn, res.Server.Conn}, []tls.ConnectionState{res.Client.State, res.Server.State}, qs, want, 8, 6)
		tags = append(tags, "concurrent-exports")
		if bad > 0 {
			viol = append(viol, fmt.Sprintf("%d of %d CONCURRENT ExportKeyingMaterial calls on one connection (8 goroutines, both ends) differ from the answer the same query got sequentially: %s", bad, calls, first))
		}
	}
	if len(viol) > 3 {
		viol = viol[:3]
	}
	return zv.Out{Tags: tags, Viol: strings.Join(viol, " | ")}
}

// exportConcurrently issues every query rounds times from each of g goroutines (goroutine k works on conns[k%len(conns)],
// alternately through the stored ConnectionState and through a fresh one, starting at a different query) and compares
// every answer with want.  All goroutines are released together.
func exportConcurrently(conns []*tls.Conn, states []tls.ConnectionState, qs []xq, want []string, g, rounds int) (calls, bad int, first string) {
	var wg sync.WaitGroup
	var mu sync.Mutex
	start := make(chan struct{})
	for k := 0; k < g; k++ {
		wg.Add(1)
		go func(k int) {
			defer wg.Done()
			side := k % len(conns)
			nb, nc, fst := 0, 0, ""
			<-start
			for rd := 0; rd < rounds; rd++ {
				for j := range qs {
					i := (j + k + rd) % len(qs)
					q := qs[i]
					st := states[side]
					if (j+rd)%2 == 1 {
						st = conns[side].ConnectionState()
					}
					got := catch(func() string { return ekmOut(st.ExportKeyingMaterial(q.label, q.ctx, q.n)) })
					nc++
					if got != want[i] {
						nb++
						if fst == "" {
							fst = fmt.Sprintf("goroutine %d (%s) query %v: got %s, sequential answer %s", k, []string{"client", "server"}[side%2], q, clip(got), clip(want[i]))
						}
					}
				}
			}
			mu.Lock()
			calls += nc
			bad += nb
			if first == "" {
				first = fst
			}
			mu.Unlock()
		}(k)
	}
	close(start)
	wg.Wait()
	return
}

func clip(s string) string {
	if len(s) > 140 {
		return s[:140] + "…"
	}
	return s
}
