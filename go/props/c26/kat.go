package c26

import (
	"fmt"
	"strings"

	"github.com/zmap/zcrypto/tls"

	"zv/internal/zv"
)

// Published vectors (T3 only; the random cases are additionally compared with the model).
type kat struct {
	name string
	run  func() string
	want string
}

var kats = []kat{
	{"RFC 8448 §3 early secret = HKDF-Extract(0, 0) [SHA-256]",
		func() string { return zv.Hex(tls.ZVExtract(0x1301, nil, nil)) },
		"33ad0a1c607ec03b09e6cd9893680ce210adf300aa1f2660e1b22e10f170f92a"},
	{"RFC 8448 §3 Derive-Secret(early secret, \"derived\", \"\")",
		func() string {
			return zv.Hex(tls.ZVDeriveSecret(0x1301, zv.UnHex("33ad0a1c607ec03b09e6cd9893680ce210adf300aa1f2660e1b22e10f170f92a"), "derived", nil, true))
		},
		"6f2615a108c702c5678f54fc9dbab69716c076189c48250cebeac3576c3611ba"},
	{"RFC 8448 §3 handshake secret = HKDF-Extract(derived, ECDHE)",
		func() string {
			return zv.Hex(tls.ZVExtract(0x1301, zv.UnHex("8bd4054fb55b9d63fdfbacf9f04b9f0d35e6d63f537563efd46272900f89492d"),
				zv.UnHex("6f2615a108c702c5678f54fc9dbab69716c076189c48250cebeac3576c3611ba")))
		},
		"1dc826e93606aa6fdc0aadc12f741b01046aa6b99f691ed221a9f0ca043fbeac"},
	{"RFC 8448 §3 server handshake traffic key/iv",
		func() string {
			k, iv := tls.ZVTrafficKey(0x1301, zv.UnHex("b67b7d690cc16c4e75e54213cb2d37b4e9c912bcded9105d42befd59d391ad38"))
			return zv.Hex(k) + "," + zv.Hex(iv)
		},
		"3fce516009c21727d0f2e4e86ee403bc,5d313eb2671276ee13000b30"},
	{"TLS 1.2 PRF (SHA-256) test vector, 100 bytes, label \"test label\"",
		func() string {
			return zv.Hex(tls.ZVPrf12("sha256", 100, zv.UnHex("9bbe436ba940f017b17652849a71db35"), []byte("test label"), zv.UnHex("a0ba9f936cda311827a6f796ffd5198c")))
		},
		"e3f229ba727be17b8d122620557cd453c2aab21d07c3d495329b52d4e61edb5a6b301791e90d35c9c9a46b4e14baf9af0fa022f7077def17abfd3797c0564bab4fbc91666e9def9b97fce34f796789baa48082d122ee42c5a72e5a5110fff70187347b66"},
}

func execKAT(f []string) zv.Out {
	i := atoi(f[2])
	if i < 0 || i >= len(kats) {
		return zv.Out{Viol: "harness: no such vector"}
	}
	k := kats[i]
	got := catch(k.run)
	out := zv.Out{Tags: []string{"op=kat"}}
	if got != k.want {
		out.Viol = fmt.Sprintf("published vector %q: zcrypto returns %s, published value %s", k.name, got, k.want)
	}
	_ = strings.TrimSpace
	return out
}
