package c26

// Concurrent use of ONE exporter closure (T3 only).  The closure a handshake stores in Conn.ekm is handed out with every
// ConnectionState copy, so applications call it from several goroutines at once; it must behave as a pure function.
//
//	c26 ekmpar   <version> <suite> <ms> <cr> <sr> <goroutines> <rounds> <label>:<ctx|nil|->:<len>,…   TLS 1.0-1.2 closure
//	c26 ekm13par <suite13> <master> <msgs>        <goroutines> <rounds> <label>:<ctx|nil|->:<len>,…   TLS 1.3 closure
//
// Every goroutine runs the whole query list <rounds> times (each starting at a different query), all goroutines are
// released together, and EVERY answer is compared with the RFC reference evaluated on that query alone.

import (
	"fmt"
	"strings"
	"sync"

	"github.com/zmap/zcrypto/tls"

	"zv/internal/zv"
)

func execPar(f []string) zv.Out {
	op := f[1]
	var ekm func(string, []byte, int) ([]byte, error)
	var ref func(c call) string
	var rest []string
	tags := []string{"op=" + op}
	switch op {
	case "ekmpar":
		version, suite := uint16(atoi(f[2])), uint16(atoi(f[3]))
		ms, cr, sr := zv.UnHex(f[4]), zv.UnHex(f[5]), zv.UnHex(f[6])
		ekm = tls.ZVEkmClosure(version, suite, append([]byte{}, ms...), append([]byte{}, cr...), append([]byte{}, sr...))
		ref = func(c call) string { return refEKM(version, suite, ms, cr, sr, c.label, c.ctx, c.n) }
		rest = f[7:]
		tags = append(tags, fmt.Sprintf("version=%04x", version))
	case "ekm13par":
		suite := uint16(atoi(f[2]))
		master, msgs := zv.UnHex(f[3]), zv.UnHex(f[4])
		ekm = tls.ZVExporter13(suite, append([]byte{}, master...), msgs)
		ref = func(c call) string { return refExporter13(suite, master, msgs, c.label, c.ctx, c.n) }
		rest = f[5:]
		tags = append(tags, fmt.Sprintf("suite=%04x", suite))
	}
	g, rounds := atoi(rest[0]), atoi(rest[1])
	var calls []call
	var want []string
	for _, cs := range strings.Split(rest[2], ",") {
		c := parseCall(strings.Split(cs, ":"))
		calls = append(calls, c)
		want = append(want, ref(c))
		tags = append(tags, ctxTag(c.ctx))
	}
	// sequential pass first: a failure here is not a concurrency failure
	for i, c := range calls {
		if got := catch(func() string { return ekmOut(ekm(string(c.label), c.ctx, c.n)) }); got != want[i] {
			return zv.Out{Viol: cmp(fmt.Sprintf("%s sequential query #%d", op, i), got, want[i]), Tags: tags}
		}
	}
	var wg sync.WaitGroup
	var mu sync.Mutex
	total, bad, first := 0, 0, ""
	start := make(chan struct{})
	for k := 0; k < g; k++ {
		wg.Add(1)
		go func(k int) {
			defer wg.Done()
			nb, nc, fst := 0, 0, ""
			<-start
			for rd := 0; rd < rounds; rd++ {
				for j := range calls {
					i := (j + k + rd) % len(calls)
					c := calls[i]
					got := catch(func() string { return ekmOut(ekm(string(c.label), c.ctx, c.n)) })
					nc++
					if got != want[i] {
						nb++
						if fst == "" {
							fst = cmp(fmt.Sprintf("goroutine %d, round %d, query #%d (label %q, context of %d bytes, %d bytes asked)", k, rd, i, c.label, len(c.ctx), c.n), clip(got), clip(want[i]))
						}
					}
				}
			}
			mu.Lock()
			total += nc
			bad += nb
			if first == "" {
				first = fst
			}
			mu.Unlock()
		}(k)
	}
	close(start)
	wg.Wait()
	tags = append(tags, fmt.Sprintf("goroutines=%d", g), fmt.Sprintf("calls=%d", len(calls)))
	viol := ""
	if bad > 0 {
		viol = fmt.Sprintf("%s: %d of %d CONCURRENT calls of one exporter closure (%d goroutines) differ from the RFC value although every sequential call is exact; first: %s", op, bad, total, g, first)
	}
	return zv.Out{Viol: viol, Tags: tags}
}

// query lists for the concurrent stream: contexts from nil to tens of kilobytes (hashing a long context keeps a call
// inside the closure long enough for the others to overlap with it), no panicking queries
func genParCalls(r *zv.Rng, pool []string, k int) string {
	var calls []string
	for i := 0; i < k; i++ {
		var ctx string
		sel := r.Intn(7)
		if i == 0 { // every list has a long context and a short one next to it
			sel = 6
		} else if i == 1 {
			sel = r.Intn(3)
		}
		switch sel {
		case 0:
			ctx = "nil"
		case 1:
			ctx = "-"
		case 2:
			ctx = zv.Hex(r.Bytes(1 + r.Intn(64)))
		case 3:
			ctx = zv.Hex(r.Bytes([]int{63, 64, 65, 127, 128, 129}[r.Intn(6)]))
		case 4:
			ctx = zv.Hex(r.Bytes(1000 + r.Intn(3000)))
		default:
			ctx = zv.Hex(r.Bytes(8000 + r.Intn(24000)))
		}
		calls = append(calls, fmt.Sprintf("%s:%s:%d", zv.Hex([]byte(pool[r.Intn(len(pool))])), ctx, []int{16, 32, 48, 64, 1 + r.Intn(120)}[r.Intn(5)]))
	}
	return strings.Join(calls, ",")
}

func genPar(g *zv.Gen, suites13 []uint16) {
	r := g.Rng
	labels := []string{"EXPORTER-zv", "EXPORTER-Channel-Binding", "ttls keying material", "client EAP encryption", "zv exporter"}
	for rep := g.N(3, 40); rep > 0; rep-- {
		for _, s13 := range suites13 {
			g.Emitf("c26 ekm13par %d %s %s %d %d %s", s13, zv.Hex(r.Bytes(hashSizes[ref13Hash(s13)])), zv.Hex(r.Bytes(r.Intn(100))), 8+r.Intn(9), 20+r.Intn(20), genParCalls(r, labels, 3+r.Intn(4)))
		}
		for _, v := range []int{0x0301, 0x0302, 0x0303} {
			sid := []uint16{0x002f, 0xc030, 0xc02f, 0x0035}[r.Intn(4)]
			if v != 0x0303 {
				sid = []uint16{0x002f, 0x0035, 0xc013}[r.Intn(3)]
			}
			g.Emitf("c26 ekmpar %d %d %s %s %s %d %d %s", v, sid, zv.Hex(r.Bytes(48)), zv.Hex(r.Bytes(32)), zv.Hex(r.Bytes(32)), 8+r.Intn(9), 10+r.Intn(10), genParCalls(r, labels, 3+r.Intn(4)))
		}
	}
}
