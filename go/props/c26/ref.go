package c26

// Independent reference implementation written from the RFC texts (not from zcrypto's code):
// RFC 2246 §5 / RFC 5246 §5 (P_hash, PRF), RFC 5705 §4 (exporter), RFC 5869 (HKDF, via x/crypto/hkdf),
// RFC 8446 §7.1, §7.3, §7.5, §4.4.4.

import (
	"crypto"
	"crypto/hmac"
	"crypto/md5"
	"crypto/sha1"
	"crypto/sha256"
	"crypto/sha512"
	"hash"
	"io"

	"golang.org/x/crypto/hkdf"

	"zv/internal/zv"
)

func hashByName(name string) func() hash.Hash {
	switch name {
	case "md5":
		return md5.New
	case "sha1":
		return sha1.New
	case "sha256":
		return sha256.New
	case "sha384":
		return sha512.New384
	case "sha512":
		return sha512.New
	}
	panic("hash " + name)
}

func hashName(h crypto.Hash) string {
	switch h {
	case 0:
		return "none"
	case crypto.SHA256:
		return "sha256"
	case crypto.SHA384:
		return "sha384"
	}
	return h.String()
}

func digest(name string, msg []byte) []byte {
	h := hashByName(name)()
	h.Write(msg)
	return h.Sum(nil)
}

func cat(parts ...[]byte) []byte {
	var r []byte
	for _, p := range parts {
		r = append(r, p...)
	}
	return r
}

func mac(h func() hash.Hash, key, msg []byte) []byte {
	m := hmac.New(h, key)
	m.Write(msg)
	return m.Sum(nil)
}

// P_hash(secret, seed) = HMAC_hash(secret, A(1) + seed) + HMAC_hash(secret, A(2) + seed) + ...
// A(0) = seed, A(i) = HMAC_hash(secret, A(i-1));   truncated to n bytes.
func refPHash(h func() hash.Hash, secret, seed []byte, n int) []byte {
	size := h().Size()
	k := (n + size - 1) / size
	a := make([][]byte, k+1)
	a[0] = seed
	for i := 1; i <= k; i++ {
		a[i] = mac(h, secret, a[i-1])
	}
	var out []byte
	for i := 1; i <= k; i++ {
		out = append(out, mac(h, secret, cat(a[i], seed))...)
	}
	return out[:n]
}

// RFC 2246 §5: L_S1 = L_S2 = ceil(L_S / 2); S1 = first L_S1 bytes, S2 = last L_S2 bytes.
func refSplit(secret []byte) ([]byte, []byte) {
	l := len(secret)
	half := l/2 + l%2
	return secret[:half], secret[l-half:]
}

// PRF(secret, label, seed) = P_MD5(S1, label + seed) XOR P_SHA-1(S2, label + seed)
func refPRF10(secret, label, seed []byte, n int) []byte {
	s1, s2 := refSplit(secret)
	a := refPHash(md5.New, s1, cat(label, seed), n)
	b := refPHash(sha1.New, s2, cat(label, seed), n)
	out := make([]byte, n)
	for i := range out {
		out[i] = a[i] ^ b[i]
	}
	return out
}

// RFC 5246 §5: PRF(secret, label, seed) = P_<hash>(secret, label + seed)
func refPRF12(h func() hash.Hash, secret, label, seed []byte, n int) []byte {
	return refPHash(h, secret, cat(label, seed), n)
}

// RFC 5288 §3 / RFC 5289 §3: the *_SHA384 suites use SHA-384 in the TLS 1.2 PRF, all others SHA-256 (RFC 5246 §5).
var sha384Suites = map[uint16]string{
	0x009D: "TLS_RSA_WITH_AES_256_GCM_SHA384", 0x009F: "TLS_DHE_RSA_WITH_AES_256_GCM_SHA384",
	0x00A1: "TLS_DH_RSA_WITH_AES_256_GCM_SHA384", 0x00A3: "TLS_DHE_DSS_WITH_AES_256_GCM_SHA384",
	0x00A5: "TLS_DH_DSS_WITH_AES_256_GCM_SHA384", 0x00A7: "TLS_DH_anon_WITH_AES_256_GCM_SHA384",
	0x00A9: "TLS_PSK_WITH_AES_256_GCM_SHA384", 0x00AB: "TLS_DHE_PSK_WITH_AES_256_GCM_SHA384", 0x00AD: "TLS_RSA_PSK_WITH_AES_256_GCM_SHA384",
	0xC024: "TLS_ECDHE_ECDSA_WITH_AES_256_CBC_SHA384", 0xC026: "TLS_ECDH_ECDSA_WITH_AES_256_CBC_SHA384",
	0xC028: "TLS_ECDHE_RSA_WITH_AES_256_CBC_SHA384", 0xC02A: "TLS_ECDH_RSA_WITH_AES_256_CBC_SHA384",
	0xC02C: "TLS_ECDHE_ECDSA_WITH_AES_256_GCM_SHA384", 0xC02E: "TLS_ECDH_ECDSA_WITH_AES_256_GCM_SHA384",
	0xC030: "TLS_ECDHE_RSA_WITH_AES_256_GCM_SHA384", 0xC032: "TLS_ECDH_RSA_WITH_AES_256_GCM_SHA384",
}

type prfFn func(secret, label, seed []byte, n int) []byte

// ok = false: no PRF is defined for this version (zcrypto panics there).
func refPRFForVersion(version, suite uint16) (prfFn, string, bool) {
	switch version {
	case 0x0301, 0x0302:
		return refPRF10, "none", true
	case 0x0303:
		if _, is := sha384Suites[suite]; is {
			return func(s, l, sd []byte, n int) []byte { return refPRF12(sha512.New384, s, l, sd, n) }, "sha384", true
		}
		return func(s, l, sd []byte, n int) []byte { return refPRF12(sha256.New, s, l, sd, n) }, "sha256", true
	}
	return nil, "", false
}

// RFC 5705 §4: PRF(master_secret, label, client_random + server_random [+ context_value_length + context_value])[length];
// labels of the TLS PRF itself are reserved.
func refEKM(version, suite uint16, ms, cr, sr, label, ctx []byte, n int) string {
	switch string(label) {
	case "client finished", "server finished", "master secret", "key expansion":
		return "err"
	}
	seed := cat(cr, sr)
	if ctx != nil {
		if len(ctx) > 0xffff {
			return "err"
		}
		seed = cat(seed, []byte{byte(len(ctx) / 256), byte(len(ctx) % 256)}, ctx)
	}
	prf, _, ok := refPRFForVersion(version, suite)
	if !ok {
		return "panic"
	}
	return "ok " + zv.Hex(prf(ms, label, seed, n))
}

// RFC 8446 B.4
func ref13Hash(suite uint16) string {
	switch suite {
	case 0x1301, 0x1303, 0x1304, 0x1305:
		return "sha256"
	case 0x1302:
		return "sha384"
	}
	panic("suite13")
}

// AEAD key lengths: AES-128-GCM 16, AES-256-GCM 32, ChaCha20-Poly1305 32 (RFC 5116, RFC 8439)
func ref13KeyLen(suite uint16) int {
	switch suite {
	case 0x1301:
		return 16
	case 0x1302, 0x1303:
		return 32
	}
	panic("suite13")
}

// HKDF-Expand-Label(Secret, Label, Context, Length) = HKDF-Expand(Secret, HkdfLabel, Length)
// struct { uint16 length; opaque label<7..255> = "tls13 " + Label; opaque context<0..255> = Context; } HkdfLabel;
// Inputs that cannot be encoded (vector too long) or exceed 255*HashLen have no defined output (zcrypto panics).
func refExpandLabel(suite uint16, secret, label, ctx []byte, n int) string {
	hn := ref13Hash(suite)
	full := "tls13 " + string(label)
	if len(full) > 255 || len(ctx) > 255 || n > 255*hashByName(hn)().Size() || n > 0xffff {
		return "panic"
	}
	info := []byte{byte(n >> 8), byte(n), byte(len(full))}
	info = append(info, full...)
	info = append(info, byte(len(ctx)))
	info = append(info, ctx...)
	out := make([]byte, n)
	if _, err := io.ReadFull(hkdf.Expand(hashByName(hn), secret, info), out); err != nil {
		return "panic"
	}
	return "ok " + zv.Hex(out)
}

func unOK(s string) []byte { return zv.UnHex(s[3:]) }

// HKDF-Extract(salt, IKM) = HMAC-Hash(salt, IKM); RFC 8446 §7.1: a missing IKM is a string of Hash.length zero bytes.
func refExtract(suite uint16, ikm, salt []byte) []byte {
	hn := ref13Hash(suite)
	if ikm == nil {
		ikm = make([]byte, hashByName(hn)().Size())
	}
	return mac(hashByName(hn), salt, ikm)
}

// RFC 8446 §4.4.4
func refFinished13(suite uint16, baseKey, msgs []byte) []byte {
	hn := ref13Hash(suite)
	fk := unOK(refExpandLabel(suite, baseKey, []byte("finished"), nil, hashByName(hn)().Size()))
	return mac(hashByName(hn), fk, digest(hn, msgs))
}

// RFC 8446 §7.5
func refExporter13(suite uint16, master, msgs, label, ctx []byte, n int) string {
	hn := ref13Hash(suite)
	size := hashByName(hn)().Size()
	ems := unOK(refExpandLabel(suite, master, []byte("exp master"), digest(hn, msgs), size))
	d := refExpandLabel(suite, ems, label, digest(hn, nil), size)
	if d == "panic" {
		return d
	}
	return refExpandLabel(suite, unOK(d), []byte("exporter"), digest(hn, ctx), n)
}

// refSuiteLens: (MAC key, cipher key, fixed IV) lengths of the key block per suite, from the RFCs defining the suites.
func refSuiteLens(id uint16) (mac, key, iv int, ok bool) {
	in := func(l ...uint16) bool {
		for _, x := range l {
			if x == id {
				return true
			}
		}
		return false
	}
	switch {
	case in(0x0005, 0x0066, 0xC007, 0xC011):
		return 20, 16, 0, true
	case in(0x000A, 0x0013, 0x0016, 0xC008, 0xC012):
		return 20, 24, 8, true
	case in(0x002F, 0x0032, 0x0033, 0xC009, 0xC013):
		return 20, 16, 16, true
	case in(0x0035, 0x0038, 0x0039, 0xC00A, 0xC014):
		return 20, 32, 16, true
	case in(0x003C, 0x0040, 0x0067, 0xC023, 0xC027):
		return 32, 16, 16, true
	case in(0x003D, 0x006A, 0x006B):
		return 32, 32, 16, true
	case in(0x009C, 0x009E, 0x00A2, 0xC02B, 0xC02F):
		return 0, 16, 4, true
	case in(0x009D, 0x009F, 0x00A3, 0xC02C, 0xC030):
		return 0, 32, 4, true
	case in(0xCCA8, 0xCCA9, 0xCCAA):
		return 0, 32, 12, true
	}
	return 0, 0, 0, false
}
