package c26

import (
	"fmt"
	"sort"
	"strings"

	"github.com/zmap/zcrypto/tls"

	"zv/internal/zv"
)

var hashSizes = map[string]int{"md5": 16, "sha1": 20, "sha256": 32, "sha384": 48, "sha512": 64}
var hashNames = []string{"md5", "sha1", "sha256", "sha384", "sha512"}

// interesting output lengths: 0..3, every multiple of each hash size and its neighbours, 512 and its neighbours.
func boundaryLens() []int {
	set := map[int]bool{0: true, 1: true, 2: true, 3: true, 11: true, 12: true, 13: true, 47: true, 48: true, 49: true, 510: true, 511: true, 512: true}
	for _, s := range hashSizes {
		for m := s; m <= 512; m += s {
			for d := -1; d <= 1; d++ {
				if m+d >= 0 && m+d <= 512 {
					set[m+d] = true
				}
			}
		}
	}
	var r []int
	for k := range set {
		r = append(r, k)
	}
	sort.Ints(r)
	return r
}

func rlen(r *zv.Rng) int { // secret / seed / label lengths: empty, short, block-size neighbours, longer than an HMAC block
	switch r.Intn(10) {
	case 0:
		return 0
	case 1:
		return 1 + r.Intn(3)
	case 2:
		return []int{47, 48, 49, 63, 64, 65, 127, 128, 129, 130}[r.Intn(10)]
	case 3:
		return 65 + r.Intn(140)
	}
	return 1 + r.Intn(64)
}

func rbytes(r *zv.Rng) []byte { return r.Bytes(rlen(r)) }

var labels12 = []string{"master secret", "key expansion", "client finished", "server finished", "test label", "EXPORTER-zv", "extended master secret", ""}
var labels13 = []string{"derived", "c hs traffic", "s hs traffic", "c ap traffic", "s ap traffic", "exp master", "res master", "res binder", "ext binder", "c e traffic", "e exp master", "traffic upd", "key", "iv", "finished", "exporter", "resumption", ""}

func rlabel(r *zv.Rng, pool []string) []byte {
	if r.Chance(60) {
		return []byte(pool[r.Intn(len(pool))])
	}
	return r.Bytes(r.Intn(40))
}

func gen(g *zv.Gen) {
	r := g.Rng
	// published vectors first
	for i := range kats {
		g.Emitf("c26 kat %d", i)
	}
	var suites []tls.ZV26Suite
	seenSuite := map[uint16]bool{}
	for _, s := range tls.ZVSuites() { // implementedCipherSuites lists some suites twice
		if !seenSuite[s.ID] {
			seenSuite[s.ID] = true
			suites = append(suites, s)
		}
	}
	sort.Slice(suites, func(i, j int) bool { return suites[i].ID < suites[j].ID })
	var suites13 []uint16
	for _, s := range tls.ZVSuites13() {
		suites13 = append(suites13, s.ID)
	}
	// real handshakes: the secrets actually used are recomputed from the RFCs
	for rep := g.N(1, 4); rep > 0; rep-- {
		for _, p := range livePairs() {
			g.Emitf("c26 live %d %d %d", r.U64()>>1, p[0], p[1])
		}
	}
	// the exporter of live connections queried repeatedly on both ends (full and resumed handshakes)
	for rep := g.N(1, 4); rep > 0; rep-- {
		for _, p := range livePairs() {
			for mode := 0; mode <= 1; mode++ {
				g.Emitf("c26 livex %d %d %d %d", r.U64()>>1, p[0], p[1], mode)
			}
		}
	}
	// … and the same on handshakes in which the server asks for a client certificate (every ClientAuth policy, client
	// with and without a certificate of each key type), TLS 1.0 - 1.3, full and resumed: the client's Certificate /
	// CertificateVerify follow the server Finished, i.e. the point of the transcript the TLS 1.3 exporter is bound to
	for rep := g.N(1, 4); rep > 0; rep-- {
		genClientAuth(g)
	}
	// concurrent calls of ONE exporter closure
	genPar(g, suites13)
	versions := []int{0x0301, 0x0302, 0x0303}
	bl := boundaryLens()
	var lens []int // every output length 0..512
	for n := 0; n <= 512; n++ {
		lens = append(lens, n)
	}
	rn := func() int { // random output length, biased to boundaries
		if r.Chance(50) {
			return bl[r.Intn(len(bl))]
		}
		return r.Intn(513)
	}

	// 1. P_hash and the PRFs for every hash over the length grid
	reps := g.N(1, 12)
	for rep := 0; rep < reps; rep++ {
		for _, n := range lens {
			for _, h := range hashNames {
				g.Emitf("c26 phash %s %d %s %s", h, n, zv.Hex(rbytes(r)), zv.Hex(rbytes(r)))
			}
			g.Emitf("c26 prf10 %d %s %s %s", n, zv.Hex(rbytes(r)), zv.Hex(rlabel(r, labels12)), zv.Hex(rbytes(r)))
			h := []string{"sha256", "sha384"}[r.Intn(2)]
			g.Emitf("c26 prf12 %s %d %s %s %s", h, n, zv.Hex(rbytes(r)), zv.Hex(rlabel(r, labels12)), zv.Hex(rbytes(r)))
		}
	}
	// 2. secret splitting for every length 0..40 and long ones
	for l := 0; l <= 40; l++ {
		g.Emitf("c26 split %s", zv.Hex(r.Bytes(l)))
	}
	// 3. version/suite dispatch: every implemented suite x version, plus unknown versions
	for _, s := range suites {
		for _, v := range versions {
			g.Emitf("c26 prfv %d %d %d %s %s %s", v, s.ID, rn()%100, zv.Hex(rbytes(r)), zv.Hex(rlabel(r, labels12)), zv.Hex(rbytes(r)))
		}
		// master secret, key block with the suite's own lengths, Finished, exporter: TLS 1.2 + one older version
		for _, v := range []int{0x0303, versions[r.Intn(2)]} {
			g.Emitf("c26 master %d %d %s %s %s", v, s.ID, zv.Hex(r.Bytes([]int{48, 32, 66, 1 + r.Intn(100)}[r.Intn(4)])), zv.Hex(r.Bytes(32)), zv.Hex(r.Bytes(32)))
			g.Emitf("c26 keys %d %d %s %s %s %d %d %d", v, s.ID, zv.Hex(r.Bytes(48)), zv.Hex(r.Bytes(32)), zv.Hex(r.Bytes(32)), s.MacLen, s.KeyLen, s.IVLen)
		}
	}
	for _, v := range []int{0, 0x0300, 0x0304, 0x0305, 0xfeff} {
		s := suites[r.Intn(len(suites))]
		g.Emitf("c26 prfv %d %d 16 %s %s %s", v, s.ID, zv.Hex(rbytes(r)), zv.Hex(rlabel(r, labels12)), zv.Hex(rbytes(r)))
		g.Emitf("c26 master %d %d %s %s %s", v, s.ID, zv.Hex(r.Bytes(48)), zv.Hex(r.Bytes(32)), zv.Hex(r.Bytes(32)))
		g.Emitf("c26 keys %d %d %s %s %s 20 16 16", v, s.ID, zv.Hex(r.Bytes(48)), zv.Hex(r.Bytes(32)), zv.Hex(r.Bytes(32)))
		g.Emitf("c26 ekm %d %d %s %s %s %s nil 20", v, s.ID, zv.Hex(r.Bytes(48)), zv.Hex(r.Bytes(32)), zv.Hex(r.Bytes(32)), zv.Hex([]byte("EXPORTER-zv")))
	}
	n := g.N(1500, 40000)
	for i := 0; i < n; i++ {
		s := suites[r.Intn(len(suites))]
		v := versions[r.Intn(3)]
		// key block with arbitrary part lengths (incl. zero parts)
		pl := func() int { return []int{0, 0, 4, 8, 12, 16, 20, 24, 32, 48, r.Intn(40)}[r.Intn(11)] }
		g.Emitf("c26 keys %d %d %s %s %s %d %d %d", v, s.ID, zv.Hex(rbytes(r)), zv.Hex(rbytes(r)), zv.Hex(rbytes(r)), pl(), pl(), pl())
		g.Emitf("c26 master %d %d %s %s %s", v, s.ID, zv.Hex(rbytes(r)), zv.Hex(rbytes(r)), zv.Hex(rbytes(r)))
		// Finished over a transcript written in several pieces
		var msgs []string
		for k := r.Intn(4); k > 0; k-- {
			msgs = append(msgs, zv.Hex(r.Bytes(r.Intn(120))))
		}
		ms := "-"
		if len(msgs) > 0 {
			ms = strings.Join(msgs, ",")
		}
		g.Emitf("c26 fin %d %d %s %s", v, s.ID, zv.Hex(r.Bytes(48)), ms)
		// exporter: reserved labels, nil / empty / non-empty context
		ctx := "nil"
		switch r.Intn(4) {
		case 0:
			ctx = "-"
		case 1, 2:
			ctx = zv.Hex(r.Bytes(1 + r.Intn(70)))
		}
		g.Emitf("c26 ekm %d %d %s %s %s %s %s %d", v, s.ID, zv.Hex(r.Bytes(48)), zv.Hex(r.Bytes(32)), zv.Hex(r.Bytes(32)), zv.Hex(rlabel(r, labels12)), ctx, rn()%200)
	}
	// exporter context length limit (2^16): just below and at the limit
	for _, cl := range []int{65535, 65536} {
		g.Emitf("c26 ekm %d %d %s %s %s %s %s 8", 0x0303, 0xc02f, zv.Hex(r.Bytes(48)), zv.Hex(r.Bytes(32)), zv.Hex(r.Bytes(32)), zv.Hex([]byte("EXPORTER-zv")), zv.Hex(r.Bytes(cl)))
	}

	// 4. TLS 1.3: HKDF-Expand-Label over the length grid for each suite
	for _, s := range suites13 {
		for _, n := range lens {
			ctx := r.Bytes([]int{0, 32, 48, r.Intn(80)}[r.Intn(4)])
			g.Emitf("c26 xl %d %s %s %s %d", s, zv.Hex(rbytes(r)), zv.Hex(rlabel(r, labels13)), zv.Hex(ctx), n)
		}
		// encoding limits: "tls13 "+label is a <7..255> vector, context <0..255>, output <= 255*HashLen
		for _, ll := range []int{248, 249, 250, 251, 300} {
			g.Emitf("c26 xl %d %s %s %s 16", s, zv.Hex(r.Bytes(32)), zv.Hex(r.Bytes(ll)), zv.Hex(r.Bytes(r.Intn(3))))
			g.Emitf("c26 ds %d %s %s %s", s, zv.Hex(r.Bytes(32)), zv.Hex(r.Bytes(ll)), zv.Hex(r.Bytes(10)))
			g.Emitf("c26 ekm13 %d %s %s %s %s 16", s, zv.Hex(r.Bytes(32)), zv.Hex(r.Bytes(9)), zv.Hex(r.Bytes(ll)), zv.Hex(r.Bytes(5)))
		}
		for _, cl := range []int{254, 255, 256, 257, 400} {
			g.Emitf("c26 xl %d %s %s %s 16", s, zv.Hex(r.Bytes(32)), zv.Hex(rlabel(r, labels13)), zv.Hex(r.Bytes(cl)))
		}
		hs := hashSizes[ref13Hash(s)]
		for _, n := range []int{255*hs - 1, 255 * hs, 255*hs + 1, 255*hs + hs, 65535, 65536, 65537, 70000} {
			if g.Quick && n > 255*hs+1 && n < 65535 {
				continue
			}
			g.Emitf("c26 xl %d %s %s - %d", s, zv.Hex(r.Bytes(hs)), zv.Hex([]byte("key")), n)
		}
	}
	n = g.N(800, 25000)
	for i := 0; i < n; i++ {
		s := suites13[r.Intn(len(suites13))]
		msgs := "nil"
		if r.Chance(75) {
			msgs = zv.Hex(r.Bytes(r.Intn(150)))
		}
		g.Emitf("c26 ds %d %s %s %s", s, zv.Hex(rbytes(r)), zv.Hex(rlabel(r, labels13)), msgs)
		ns := "nil"
		if r.Chance(70) {
			ns = zv.Hex(rbytes(r))
		}
		g.Emitf("c26 ext %d %s %s", s, ns, zv.Hex(rbytes(r)))
		g.Emitf("c26 nts %d %s", s, zv.Hex(rbytes(r)))
		g.Emitf("c26 tk %d %s", s, zv.Hex(rbytes(r)))
		g.Emitf("c26 fin13 %d %s %s", s, zv.Hex(rbytes(r)), zv.Hex(r.Bytes(r.Intn(150))))
		g.Emitf("c26 ekm13 %d %s %s %s %s %d", s, zv.Hex(rbytes(r)), zv.Hex(r.Bytes(r.Intn(100))), zv.Hex(rlabel(r, labels12)), zv.Hex(r.Bytes(r.Intn(40))), rn()%300)
	}
	// 4b. the handshake's wiring: establishKeys with the suite's own lengths (every suite x version), the TLS 1.3
	// schedule of establishHandshakeKeys (with and without PSK), ticket PSK / binder, application + resumption secrets
	for _, s := range suites {
		for _, v := range []int{0x0301, 0x0302, 0x0303, 0x0300} {
			g.Emitf("c26 keyssuite %d %d %s %s %s", v, s.ID, zv.Hex(r.Bytes(48)), zv.Hex(r.Bytes(32)), zv.Hex(r.Bytes(32)))
		}
	}
	// the suite lookup itself: every id of both tables, their neighbours, TLS 1.3 ids, random ids
	idset := map[uint16]bool{0: true, 0xffff: true, 0x1301: true, 0x1302: true, 0x1303: true}
	for _, s := range append(tls.ZVSuites(), tls.ZVSuitesAdvertised()...) {
		idset[s.ID], idset[s.ID+1], idset[s.ID-1] = true, true, true
	}
	for k := g.N(100, 2000); k > 0; k-- {
		idset[uint16(r.Intn(65536))] = true
	}
	var ids []int
	for id := range idset {
		ids = append(ids, int(id))
	}
	sort.Ints(ids)
	for _, id := range ids {
		g.Emitf("c26 suitebyid %d", id)
		var have []string
		for k := r.Intn(5); k > 0; k-- {
			have = append(have, fmt.Sprint(suites[r.Intn(len(suites))].ID))
		}
		if r.Chance(60) {
			have = append(have, fmt.Sprint(id))
		}
		hv := "-"
		if len(have) > 0 {
			hv = strings.Join(have, ",")
		}
		g.Emitf("c26 mutual %s %d", hv, id)
	}
	n = g.N(300, 8000)
	for i := 0; i < n; i++ {
		s := suites13[r.Intn(len(suites13))]
		hs := hashSizes[ref13Hash(s)]
		early := "nil"
		if r.Chance(50) {
			early = zv.Hex(r.Bytes(hs))
		}
		g.Emitf("c26 hs13 %d %s %s %s", s, early, zv.Hex(r.Bytes([]int{32, 32, 48, 66, 1 + r.Intn(70)}[r.Intn(5)])), zv.Hex(r.Bytes(r.Intn(300))))
		nl := []int{0, 1, 8, 8, 8, 32, 255, r.Intn(256)}[r.Intn(8)]
		g.Emitf("c26 psk13 %d %s %s %s", s, zv.Hex(r.Bytes(hs)), zv.Hex(r.Bytes(nl)), zv.Hex(r.Bytes(r.Intn(300))))
		m1 := r.Bytes(r.Intn(200))
		g.Emitf("c26 app13 %d %s %s %s", s, zv.Hex(r.Bytes(hs)), zv.Hex(m1), zv.Hex(append(append([]byte{}, m1...), r.Bytes(4+hs)...)))
	}
	for _, s := range suites13 { // ticket nonce limit: opaque ticket_nonce<0..255>
		for _, nl := range []int{254, 255, 256, 300} {
			g.Emitf("c26 psk13 %d %s %s %s", s, zv.Hex(r.Bytes(32)), zv.Hex(r.Bytes(nl)), zv.Hex(r.Bytes(40)))
		}
	}
	// 5. the derived closures / running hashes used the way a connection uses them: many queries on ONE object
	genSeq(g, suites, suites13, rn)
	_ = fmt.Sprint
}

// client-auth grid for livex: (ClientAuth policy, client certificate) pairs whose handshake succeeds
var clientAuthModes = [][2]string{{"0", "none"}, {"0", "cert"}, {"1", "none"}, {"1", "cert"}, {"2", "cert"}, {"3", "none"}, {"3", "cert"}, {"4", "cert"}}

func genClientAuth(g *zv.Gen) {
	r := g.Rng
	servable := map[[2]uint16]bool{}
	for _, p := range livePairs() {
		servable[p] = true
	}
	k := 0
	for _, v := range []uint16{0x0301, 0x0302, 0x0303, 0x0304} {
		var suites []uint16
		switch v {
		case 0x0304:
			suites = []uint16{0x1301, 0x1302, 0x1303}
		case 0x0303:
			suites = []uint16{0x002f, 0xc013, 0xc009, 0xc02f, 0xc02b, 0xc030, 0xcca8, 0x009c}
		default:
			suites = []uint16{0x002f, 0xc013, 0xc009, 0x0035, 0xc014}
		}
		for _, s := range suites {
			if !servable[[2]uint16{v, s}] {
				continue
			}
			for _, m := range clientAuthModes {
				cert := m[1]
				if cert == "cert" {
					kinds := []string{"ecdsa", "rsa"}
					if v >= 0x0303 {
						kinds = append(kinds, "ed25519")
					}
					cert = kinds[k%len(kinds)]
					k++
				}
				mode := 0
				if m[0] != "0" && r.Chance(25) { // some resumed connections (the first one carried the client certificate)
					mode = 1
				}
				g.Emitf("c26 livex %d %d %d %d %s %s", r.U64()>>1, v, s, mode, m[0], cert)
			}
		}
	}
}
