package c26

// Stateful use of the derived objects, the way a connection uses them (T2 + T3):
//
//	c26 prfseq <version> <suite> <n>:<secret>:<label>:<seed>,…                  ONE PRF closure (prfAndHashForVersion, kept in finishedHash.prf), inputs of changing lengths
//	c26 ekmseq <version> <suite> <ms> <cr> <sr> <label>:<ctx|nil|->:<len>,…   ONE TLS<=1.2 exporter closure (Conn.ekm), queried repeatedly
//	c26 ekm13seq <suite13> <master> <msgs> <label>:<ctx|nil|->:<len>,…        ONE TLS 1.3 exporter closure, queried repeatedly
//	c26 finseq <version> <suite> <ms> <msg>,<msg>…                            ONE finishedHash: Sum/clientSum/serverSum before the first and after every Write
//	c26 sched13 <suite13> <step>,…                                            ONE TLS 1.3 transcript hash shared by deriveSecret / finishedHash /
//	     steps: w:<hex> | ds:<secret>:<label> | fin:<basekey> | exp:<master> | ekm:<label>:<ctx|nil|->:<len>      exportKeyingMaterial with writes in between
//
// Every query of a sequence is compared with the RFC reference evaluated on that query alone: the result of a
// query must not depend on the queries (or transcript writes) that came before or after it.

import (
	"bytes"
	"fmt"
	"strings"

	"github.com/zmap/zcrypto/tls"

	"zv/internal/zv"
)

type call struct {
	label []byte
	ctx   []byte // nil = Go nil
	n     int
}

func parseCall(f []string) call { return call{zv.UnHex(f[0]), optHex(f[1]), atoi(f[2])} }

func ekmOut(out []byte, err error) string {
	if err != nil {
		return "err"
	}
	return "ok " + zv.Hex(out)
}

func ctxTag(c []byte) string {
	if c == nil {
		return "ctx=nil"
	}
	return lenTag("ctx", len(c))
}

func execSeq(f []string) zv.Out {
	op := f[1]
	tags := []string{"op=" + op}
	var got, want []string
	switch op {
	case "prfseq":
		version, suite := uint16(atoi(f[2])), uint16(atoi(f[3]))
		calls := strings.Split(f[4], ",")
		refPrf, hn, ok := refPRFForVersion(version, suite)
		if !ok {
			return zv.Out{Go: "bad-op", Viol: "harness: prfseq needs a TLS 1.0-1.2 version"}
		}
		prf, h := tls.ZVPrfClosure(version, suite)
		got, want = append(got, hashName(h)), append(want, hn)
		for _, cs := range calls {
			p := strings.Split(cs, ":")
			n, secret, label, seed := atoi(p[0]), zv.UnHex(p[1]), zv.UnHex(p[2]), zv.UnHex(p[3])
			got = append(got, zv.Hex(prf(n, secret, label, seed)))
			want = append(want, zv.Hex(refPrf(secret, label, seed, n)))
		}
		tags = append(tags, fmt.Sprintf("version=%04x", version), "prf="+hn, fmt.Sprintf("calls=%d", len(calls)))
	case "ekmseq":
		version, suite := uint16(atoi(f[2])), uint16(atoi(f[3]))
		ms, cr, sr := zv.UnHex(f[4]), zv.UnHex(f[5]), zv.UnHex(f[6])
		ms0, cr0, sr0 := bytes.Clone(ms), bytes.Clone(cr), bytes.Clone(sr)
		ekm := tls.ZVEkmClosure(version, suite, ms, cr, sr)
		calls := strings.Split(f[7], ",")
		for _, cs := range calls {
			c := parseCall(strings.Split(cs, ":"))
			got = append(got, catch(func() string { return ekmOut(ekm(string(c.label), c.ctx, c.n)) }))
			want = append(want, refEKM(version, suite, ms0, cr0, sr0, c.label, c.ctx, c.n))
			tags = append(tags, ctxTag(c.ctx), "res="+strings.Fields(want[len(want)-1])[0])
		}
		if !bytes.Equal(ms, ms0) || !bytes.Equal(cr, cr0) || !bytes.Equal(sr, sr0) {
			got = append(got, "exporter modified its master secret / randoms")
		}
		tags = append(tags, fmt.Sprintf("version=%04x", version), fmt.Sprintf("calls=%d", len(calls)))
	case "ekm13seq":
		suite := uint16(atoi(f[2]))
		master, msgs := zv.UnHex(f[3]), zv.UnHex(f[4])
		ekm := tls.ZVExporter13(suite, master, msgs)
		calls := strings.Split(f[5], ",")
		for _, cs := range calls {
			c := parseCall(strings.Split(cs, ":"))
			got = append(got, catch(func() string { return ekmOut(ekm(string(c.label), c.ctx, c.n)) }))
			want = append(want, refExporter13(suite, master, msgs, c.label, c.ctx, c.n))
			tags = append(tags, ctxTag(c.ctx), "res="+strings.Fields(want[len(want)-1])[0])
		}
		tags = append(tags, fmt.Sprintf("suite=%04x", suite), fmt.Sprintf("calls=%d", len(calls)))
	case "finseq":
		version, suite := uint16(atoi(f[2])), uint16(atoi(f[3]))
		ms := zv.UnHex(f[4])
		var msgs [][]byte
		if f[5] != "-" {
			for _, m := range strings.Split(f[5], ",") {
				msgs = append(msgs, zv.UnHex(m))
			}
		}
		g := catch(func() string {
			var s []string
			for _, t := range tls.ZVFinishedSteps(version, suite, ms, msgs) {
				s = append(s, zv.Hex(t[0])+","+zv.Hex(t[1])+","+zv.Hex(t[2]))
			}
			return strings.Join(s, ";")
		})
		got = []string{g}
		if prf, hn, ok := refPRFForVersion(version, suite); ok {
			var w []string
			at := func(all []byte) string {
				var sum []byte
				if hn == "none" {
					sum = cat(digest("md5", all), digest("sha1", all))
				} else {
					sum = digest(hn, all)
				}
				return zv.Hex(sum) + "," + zv.Hex(prf(ms, []byte("client finished"), sum, 12)) + "," + zv.Hex(prf(ms, []byte("server finished"), sum, 12))
			}
			for k := 0; k <= len(msgs); k++ {
				w = append(w, at(bytes.Join(msgs[:k], nil)))
			}
			w = append(w, at(bytes.Join(msgs, nil)))
			want = []string{strings.Join(w, ";")}
		} else {
			want = []string{"panic"}
		}
		tags = append(tags, fmt.Sprintf("version=%04x", version), fmt.Sprintf("writes=%d", len(msgs)))
	case "sched13":
		suite := uint16(atoi(f[2]))
		hn := ref13Hash(suite)
		size := hashByName(hn)().Size()
		z := tls.ZVNewSched13(suite)
		var msgs []byte               // reference: everything written so far
		var expMaster, expMsgs []byte // reference: arguments of the last exporter creation
		haveExp := false
		steps := strings.Split(f[3], ",")
		for _, st := range steps {
			p := strings.Split(st, ":")
			tags = append(tags, "step="+p[0])
			switch p[0] {
			case "w":
				b := zv.UnHex(p[1])
				z.Write(b)
				msgs = append(msgs, b...)
				got, want = append(got, "w"), append(want, "w")
			case "ds":
				secret, label := zv.UnHex(p[1]), zv.UnHex(p[2])
				got = append(got, catch(func() string { return "ok " + zv.Hex(z.DeriveSecret(secret, string(label))) }))
				want = append(want, refExpandLabel(suite, secret, label, digest(hn, msgs), size))
			case "fin":
				bk := zv.UnHex(p[1])
				got = append(got, catch(func() string { return "ok " + zv.Hex(z.Finished(bk)) }))
				want = append(want, "ok "+zv.Hex(refFinished13(suite, bk, msgs)))
			case "exp":
				expMaster, expMsgs, haveExp = zv.UnHex(p[1]), bytes.Clone(msgs), true
				got = append(got, catch(func() string { z.NewExporter(expMaster); return "exp" }))
				want = append(want, "exp")
			case "ekm":
				if !haveExp {
					return zv.Out{Go: "bad-op", Viol: "harness: ekm step before exp"}
				}
				c := parseCall(p[1:])
				got = append(got, catch(func() string { return ekmOut(z.Export(string(c.label), c.ctx, c.n)) }))
				want = append(want, refExporter13(suite, expMaster, expMsgs, c.label, c.ctx, c.n))
				tags = append(tags, ctxTag(c.ctx))
			default:
				return zv.Out{Go: "bad-op", Viol: "harness: unknown step " + p[0]}
			}
		}
		tags = append(tags, fmt.Sprintf("suite=%04x", suite), fmt.Sprintf("steps=%d", len(steps)))
	}
	g, w := strings.Join(got, ";"), strings.Join(want, ";")
	viol := ""
	if g != w {
		// name the first query that differs
		for i := range want {
			if i >= len(got) || got[i] != want[i] {
				gi := "(missing)"
				if i < len(got) {
					gi = got[i]
				}
				viol = cmp(fmt.Sprintf("%s query #%d of %d on one object", op, i, len(want)), gi, want[i])
				break
			}
		}
		if viol == "" {
			viol = cmp(op, g, w)
		}
	}
	return zv.Out{Go: g, Viol: viol, Tags: tags}
}

// ---- generators

// exporter contexts: nil, empty, short, around the hash block sizes (64 / 128 bytes: a hash object that is reused
// across calls shows at exactly these lengths as well as at all others), occasionally a repeat of an earlier one
func genCtx(r *zv.Rng, prev []string) string {
	switch r.Intn(9) {
	case 0:
		return "nil"
	case 1:
		return "-"
	case 2:
		if len(prev) > 0 {
			return prev[r.Intn(len(prev))]
		}
	case 3:
		return zv.Hex(r.Bytes([]int{55, 56, 63, 64, 65, 111, 112, 127, 128, 129}[r.Intn(10)]))
	case 4:
		return zv.Hex(r.Bytes(1))
	}
	return zv.Hex(r.Bytes(1 + r.Intn(70)))
}

// a query list for one exporter closure: k queries with different labels / contexts / lengths, some repeated verbatim
func genCalls(r *zv.Rng, pool []string, k int, rn func() int, reserved, long bool) string {
	var calls, ctxs []string
	for i := 0; i < k; i++ {
		if i > 0 && r.Chance(15) { // the same query again: must give the same answer
			calls = append(calls, calls[r.Intn(len(calls))])
			continue
		}
		label := rlabel(r, pool)
		if reserved && r.Chance(8) {
			label = []byte([]string{"client finished", "server finished", "master secret", "key expansion"}[r.Intn(4)])
		}
		if long && r.Chance(5) {
			label = r.Bytes(250 + r.Intn(10)) // "tls13 "+label no longer fits: that query panics, the closure stays usable
		}
		ctx := genCtx(r, ctxs)
		ctxs = append(ctxs, ctx)
		calls = append(calls, fmt.Sprintf("%s:%s:%d", zv.Hex(label), ctx, rn()%160))
	}
	return strings.Join(calls, ",")
}

func genSeq(g *zv.Gen, suites []tls.ZV26Suite, suites13 []uint16, rn func() int) {
	r := g.Rng
	versions := []int{0x0301, 0x0302, 0x0303}
	exporterLabels := []string{"EXPORTER-zv", "EXPORTER_DTLS_OVER_SCTP", "EXPORTER-Channel-Binding", "EXPORTER: teap session key seed", "ttls keying material", "client EAP encryption", "zv exporter", ""}
	// fixed small shapes first (so that every seed has them): 2 and 3 queries, first context non-empty / nil / empty
	for _, s13 := range suites13 {
		for _, first := range []string{"nil", "-", zv.Hex(r.Bytes(1)), zv.Hex(r.Bytes(32)), zv.Hex(r.Bytes(64)), zv.Hex(r.Bytes(200))} {
			for _, second := range []string{"nil", "-", zv.Hex(r.Bytes(7))} {
				l := zv.Hex([]byte("EXPORTER-zv"))
				g.Emitf("c26 ekm13seq %d %s %s %s:%s:32,%s:%s:32,%s:%s:32", s13, zv.Hex(r.Bytes(32)), zv.Hex(r.Bytes(40)), l, first, l, second, l, first)
			}
		}
	}
	for _, v := range versions {
		for _, sid := range []uint16{0x002f, 0xc030} {
			for _, first := range []string{"nil", "-", zv.Hex(r.Bytes(1)), zv.Hex(r.Bytes(64))} {
				for _, second := range []string{"nil", "-", zv.Hex(r.Bytes(7))} {
					l := zv.Hex([]byte("EXPORTER-zv"))
					g.Emitf("c26 ekmseq %d %d %s %s %s %s:%s:32,%s:%s:32,%s:%s:32", v, sid, zv.Hex(r.Bytes(48)), zv.Hex(r.Bytes(32)), zv.Hex(r.Bytes(32)), l, first, l, second, l, first)
				}
			}
		}
	}
	n := g.N(250, 8000)
	for i := 0; i < n; i++ {
		s := suites[r.Intn(len(suites))]
		v := versions[r.Intn(3)]
		g.Emitf("c26 ekmseq %d %d %s %s %s %s", v, s.ID, zv.Hex(r.Bytes(48)), zv.Hex(r.Bytes(32)), zv.Hex(r.Bytes(32)),
			genCalls(r, exporterLabels, 2+r.Intn(5), rn, true, false))
		s13 := suites13[r.Intn(len(suites13))]
		g.Emitf("c26 ekm13seq %d %s %s %s", s13, zv.Hex(rbytes(r)), zv.Hex(r.Bytes(r.Intn(100))),
			genCalls(r, exporterLabels, 2+r.Intn(5), rn, false, true))
		// one PRF closure called with inputs of different lengths (long first, then shorter, then longer)
		var pc []string
		for k := 2 + r.Intn(4); k > 0; k-- {
			pc = append(pc, fmt.Sprintf("%d:%s:%s:%s", rn()%120, zv.Hex(rbytes(r)), zv.Hex(rlabel(r, labels12)), zv.Hex(r.Bytes([]int{0, 1, 32, 36, 48, 64, r.Intn(100)}[r.Intn(7)]))))
		}
		g.Emitf("c26 prfseq %d %d %s", v, s.ID, strings.Join(pc, ","))
		// one finishedHash, sums between the writes
		var msgs []string
		for k := r.Intn(5); k > 0; k-- {
			msgs = append(msgs, zv.Hex(r.Bytes([]int{0, 1, 4, 55, 56, 63, 64, 65, 119, 128, r.Intn(200)}[r.Intn(11)])))
		}
		ms := "-"
		if len(msgs) > 0 {
			ms = strings.Join(msgs, ",")
		}
		g.Emitf("c26 finseq %d %d %s %s", v, s.ID, zv.Hex(r.Bytes(48)), ms)
		// one TLS 1.3 transcript shared by the key schedule functions
		var steps []string
		haveExp := false
		var ctxs []string
		for k := 3 + r.Intn(8); k > 0; k-- {
			switch c := r.Intn(10); {
			case c < 3:
				steps = append(steps, "w:"+zv.Hex(r.Bytes([]int{0, 1, 4, 63, 64, 65, 127, 128, r.Intn(150)}[r.Intn(9)])))
			case c < 5:
				steps = append(steps, fmt.Sprintf("ds:%s:%s", zv.Hex(rbytes(r)), zv.Hex(rlabel(r, labels13))))
			case c < 6:
				steps = append(steps, "fin:"+zv.Hex(rbytes(r)))
			case c < 7 || !haveExp:
				steps = append(steps, "exp:"+zv.Hex(rbytes(r)))
				haveExp = true
			default:
				ctx := genCtx(r, ctxs)
				ctxs = append(ctxs, ctx)
				steps = append(steps, fmt.Sprintf("ekm:%s:%s:%d", zv.Hex(rlabel(r, exporterLabels)), ctx, rn()%160))
			}
		}
		g.Emitf("c26 sched13 %d %s", s13, strings.Join(steps, ","))
	}
	// the handshake's own order (client side, RFC 8446 §7.1): … ServerHello | hs secrets | … server Finished | app secrets,
	// exporter creation | client Finished written AFTER the exporter was created | exporter queried
	for _, s13 := range suites13 {
		for rep := g.N(3, 40); rep > 0; rep-- {
			hsSecret, master := zv.Hex(r.Bytes(hashSizes[ref13Hash(s13)])), zv.Hex(r.Bytes(hashSizes[ref13Hash(s13)]))
			lab := func(s string) string { return zv.Hex([]byte(s)) }
			steps := []string{"w:" + zv.Hex(r.Bytes(150)), "w:" + zv.Hex(r.Bytes(90)),
				"ds:" + hsSecret + ":" + lab("c hs traffic"), "ds:" + hsSecret + ":" + lab("s hs traffic"),
				"w:" + zv.Hex(r.Bytes(10)), "w:" + zv.Hex(r.Bytes(600)), "w:" + zv.Hex(r.Bytes(80)), "fin:" + zv.Hex(r.Bytes(32)), "w:" + zv.Hex(r.Bytes(36)),
				"ds:" + master + ":" + lab("c ap traffic"), "ds:" + master + ":" + lab("s ap traffic"), "exp:" + master,
				"fin:" + zv.Hex(r.Bytes(32)), "w:" + zv.Hex(r.Bytes(36)), "ds:" + master + ":" + lab("res master")}
			var ctxs []string
			for k := 2 + r.Intn(4); k > 0; k-- {
				ctx := genCtx(r, ctxs)
				ctxs = append(ctxs, ctx)
				steps = append(steps, fmt.Sprintf("ekm:%s:%s:%d", zv.Hex(rlabel(r, exporterLabels)), ctx, rn()%100))
			}
			g.Emitf("c26 sched13 %d %s", s13, strings.Join(steps, ","))
		}
	}
}
