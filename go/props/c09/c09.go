// Package c09: hostname verification (x509/verify.go VerifyHostname, matchHostnames,
// toLowerCaseASCII) — public API for VerifyHostname, verif hooks for the helpers.
package c09

import (
	"bytes"
	"fmt"
	"net"
	"strconv"
	"strings"

	"github.com/zmap/zcrypto/encoding/asn1"
	"github.com/zmap/zcrypto/x509"
	"github.com/zmap/zcrypto/x509/pkix"

	"zv/internal/zv"
)

// ---------- encoding of case lines ----------

func hexList(l []string) string {
	if len(l) == 0 {
		return "_"
	}
	ss := make([]string, len(l))
	for i, s := range l {
		ss[i] = zv.Hex([]byte(s))
	}
	return strings.Join(ss, ",")
}

func unHexList(s string) []string {
	if s == "_" {
		return nil
	}
	var out []string
	for _, p := range strings.Split(s, ",") {
		out = append(out, string(zv.UnHex(p)))
	}
	return out
}

func oidsStr(oids [][]int) string {
	if len(oids) == 0 {
		return "_"
	}
	var ss []string
	for _, o := range oids {
		var ps []string
		for _, a := range o {
			ps = append(ps, strconv.Itoa(a))
		}
		ss = append(ss, strings.Join(ps, "."))
	}
	return strings.Join(ss, ";")
}

func parseOids(s string) [][]int {
	if s == "_" {
		return nil
	}
	var out [][]int
	for _, o := range strings.Split(s, ";") {
		var oid []int
		for _, a := range strings.Split(o, ".") {
			n, err := strconv.Atoi(a)
			if err != nil {
				panic("bad oid in case line")
			}
			oid = append(oid, n)
		}
		out = append(out, oid)
	}
	return out
}

// ---------- T3 reference: the property's sentence, written independently ----------

func asciiLower(s string) string {
	b := []byte(s)
	for i := range b {
		if b[i] >= 'A' && b[i] <= 'Z' {
			b[i] |= 0x20
		}
	}
	return string(b)
}

// labels cuts s at every '.', without strings.Split.
func labels(s string) []string {
	var out []string
	start := 0
	for i := 0; i < len(s); i++ {
		if s[i] == '.' {
			out = append(out, s[start:i])
			start = i + 1
		}
	}
	return append(out, s[start:])
}

func stripOneDot(s string) string {
	if len(s) > 0 && s[len(s)-1] == '.' {
		return s[:len(s)-1]
	}
	return s
}

// refMatch: label by label, one trailing dot ignored on each side, '*' = any single label.
func refMatch(pattern, host string) bool {
	p, h := stripOneDot(pattern), stripOneDot(host)
	if p == "" || h == "" {
		return false
	}
	pl, hl := labels(p), labels(h)
	if len(pl) != len(hl) {
		return false
	}
	for i := range pl {
		if pl[i] != "*" && pl[i] != hl[i] {
			return false
		}
	}
	return true
}

func to16(ip []byte) []byte {
	switch len(ip) {
	case 16:
		return ip
	case 4:
		return append([]byte{0, 0, 0, 0, 0, 0, 0, 0, 0, 0, 0xff, 0xff}, ip...)
	}
	return nil
}

// ---------- the declarative IP-literal grammar (ZV.C09.IPLiteral: DottedQuad / V6Spec) ----------
// Written from the Lean specification (lean/ZV/Proofs/C09IPv4.lean, C09IPv6.lean, C09IP.lean),
// not from net/netip: strings.Split over '.' / ':' / "::" and per-field predicates.

// IsOctet: 1-3 decimal digits, no leading zero unless "0", value <= 255
func refOctet(f string) (byte, bool) {
	if len(f) < 1 || len(f) > 3 {
		return 0, false
	}
	v := 0
	for i := 0; i < len(f); i++ {
		if f[i] < '0' || f[i] > '9' {
			return 0, false
		}
		v = v*10 + int(f[i]-'0')
	}
	if (len(f) > 1 && f[0] == '0') || v > 255 {
		return 0, false
	}
	return byte(v), true
}

// DottedQuad
func refQuad(s string) ([]byte, bool) {
	parts := strings.Split(s, ".")
	if len(parts) != 4 {
		return nil, false
	}
	out := make([]byte, 0, 4)
	for _, p := range parts {
		b, ok := refOctet(p)
		if !ok {
			return nil, false
		}
		out = append(out, b)
	}
	return out, true
}

// IsHexGroup: 1-4 hex digits
func refGroup(g string) (int, bool) {
	if len(g) < 1 || len(g) > 4 {
		return 0, false
	}
	v := 0
	for i := 0; i < len(g); i++ {
		c := g[i]
		switch {
		case c >= '0' && c <= '9':
			v = v*16 + int(c-'0')
		case c >= 'a' && c <= 'f':
			v = v*16 + int(c-'a') + 10
		case c >= 'A' && c <= 'F':
			v = v*16 + int(c-'A') + 10
		default:
			return 0, false
		}
	}
	return v, true
}

// V6Seq: non-empty ':'-separated groups, the last element optionally a dotted quad
func refSeq(s string, allowQuad bool) ([]byte, bool) {
	parts := strings.Split(s, ":")
	var out []byte
	for i, p := range parts {
		if allowQuad && i == len(parts)-1 && strings.Contains(p, ".") {
			q, ok := refQuad(p)
			if !ok {
				return nil, false
			}
			out = append(out, q...)
			continue
		}
		v, ok := refGroup(p)
		if !ok {
			return nil, false
		}
		out = append(out, byte(v>>8), byte(v))
	}
	return out, true
}

// IPLiteral: the 16 bytes denoted by s, or false
func refIPLiteral(s string) ([]byte, bool) {
	if q, ok := refQuad(s); ok {
		return to16(q), true
	}
	if i := strings.Index(s, "::"); i >= 0 {
		l, r := s[:i], s[i+2:]
		var L, R []byte
		ok := true
		if l != "" {
			if L, ok = refSeq(l, false); !ok {
				return nil, false
			}
		}
		if r != "" {
			if R, ok = refSeq(r, true); !ok {
				return nil, false
			}
		}
		if len(L)+len(R) >= 16 {
			return nil, false
		}
		out := append([]byte{}, L...)
		out = append(out, make([]byte, 16-len(L)-len(R))...)
		return append(out, R...), true
	}
	b, ok := refSeq(s, true)
	if !ok || len(b) != 16 {
		return nil, false
	}
	return b, true
}

type certSpec struct {
	oids [][]int
	dns  []string
	ips  []string
	cn   string
}

func refVerify(c certSpec, host string) bool {
	cand := host
	if len(host) >= 3 && host[0] == '[' && host[len(host)-1] == ']' {
		cand = host[1 : len(host)-1]
	}
	if ip := net.ParseIP(cand); ip != nil {
		for _, x := range c.ips {
			if x16 := to16([]byte(x)); x16 != nil && bytes.Equal(x16, ip.To16()) {
				return true
			}
		}
		return false
	}
	hasSAN := false
	for _, o := range c.oids {
		if len(o) == 4 && o[0] == 2 && o[1] == 5 && o[2] == 29 && o[3] == 17 {
			hasSAN = true
		}
	}
	lh := asciiLower(host)
	if hasSAN {
		for _, d := range c.dns {
			if refMatch(asciiLower(d), lh) {
				return true
			}
		}
		return false
	}
	return refMatch(asciiLower(c.cn), lh)
}

func (c certSpec) build() *x509.Certificate {
	cert := &x509.Certificate{DNSNames: c.dns, Subject: pkix.Name{CommonName: c.cn}}
	for _, ip := range c.ips {
		cert.IPAddresses = append(cert.IPAddresses, net.IP([]byte(ip)))
	}
	for _, o := range c.oids {
		cert.Extensions = append(cert.Extensions, pkix.Extension{Id: asn1.ObjectIdentifier(o)})
	}
	return cert
}

// ---------- Exec ----------

func lenTag(prefix string, n int) string {
	switch {
	case n <= 3:
		return prefix + "len<=3"
	case n <= 6:
		return prefix + "len<=6"
	case n <= 16:
		return prefix + "len<=16"
	}
	return prefix + "len>16"
}

func exec(line string) zv.Out {
	f := strings.Fields(line)
	switch f[1] {
	case "low":
		in := string(zv.UnHex(f[2]))
		got := x509.ZVToLowerCaseASCII(in)
		viol := ""
		if want := asciiLower(in); got != want {
			viol = fmt.Sprintf("toLowerCaseASCII(%q) = %q, byte-wise ASCII lowering gives %q", in, got, want)
		}
		tags := []string{"low", lenTag("low-", len(in))}
		if got != in {
			tags = append(tags, "low-changed")
		}
		return zv.Out{Go: zv.Hex([]byte(got)), Viol: viol, Tags: tags}
	case "ip":
		in := string(zv.UnHex(f[2]))
		ip := net.ParseIP(in)
		// T3: the declarative grammar (proved equal to the Lean model of net.ParseIP) on the real function
		viol := ""
		ref, isLit := refIPLiteral(in)
		if isLit != (ip != nil) || (isLit && !bytes.Equal(ref, []byte(ip.To16()))) {
			viol = fmt.Sprintf("net.ParseIP(%q) = %v, the IP-literal grammar gives %v (literal=%v)", in, []byte(ip), ref, isLit)
		}
		if ip == nil {
			return zv.Out{Go: "nil", Viol: viol, Tags: []string{"ip", "ip-nil"}}
		}
		tag := "ip-v6"
		if ip.To4() != nil {
			tag = "ip-v4-or-mapped"
		}
		tags := []string{"ip", tag}
		if strings.Contains(in, "::") {
			tags = append(tags, "ip-ellipsis")
		}
		if strings.Contains(in, ":") && strings.Contains(in, ".") {
			tags = append(tags, "ip-embedded-v4")
		}
		return zv.Out{Go: zv.Hex([]byte(ip)), Viol: viol, Tags: tags}
	case "mh":
		p := string(zv.UnHex(f[2]))
		hosts := unHexList(f[3])
		var sb strings.Builder
		viol := ""
		nt := 0
		for _, h := range hosts {
			got := x509.ZVMatchHostnames(p, h)
			if got {
				sb.WriteByte('t')
				nt++
			} else {
				sb.WriteByte('f')
			}
			if want := refMatch(p, h); got != want && viol == "" {
				viol = fmt.Sprintf("matchHostnames(%q, %q) = %v, label-wise rule gives %v", p, h, got, want)
			}
		}
		tags := []string{"mh", lenTag("mh-pattern-", len(p))}
		if nt > 0 {
			tags = append(tags, "mh-some-match")
		}
		if strings.Contains(p, "*") {
			tags = append(tags, "mh-wildcard")
		}
		return zv.Out{Go: sb.String(), Viol: viol, Tags: tags}
	case "vh":
		c := certSpec{oids: parseOids(f[2]), dns: unHexList(f[3]), ips: unHexList(f[4]), cn: string(zv.UnHex(f[5]))}
		hosts := unHexList(f[6])
		cert := c.build()
		var outs []string
		viol := ""
		tags := []string{"vh"}
		seen := map[string]bool{}
		add := func(t string) {
			if !seen[t] {
				seen[t] = true
				tags = append(tags, t)
			}
		}
		if cert.ZVHasSANExtension() {
			add("vh-san")
		} else {
			add("vh-cn-fallback")
		}
		for _, h := range hosts {
			err := cert.VerifyHostname(h)
			got := err == nil
			if got {
				outs = append(outs, "ok")
				add("vh-accept")
			} else {
				he, ok := err.(x509.HostnameError)
				if !ok {
					outs = append(outs, "err")
					if viol == "" {
						viol = fmt.Sprintf("VerifyHostname(%q) returned a non-HostnameError %T", h, err)
					}
					continue
				}
				outs = append(outs, "e:"+zv.Hex([]byte(he.Host)))
				add("vh-reject")
			}
			cand := h
			if len(h) >= 3 && h[0] == '[' && h[len(h)-1] == ']' {
				cand = h[1 : len(h)-1]
				add("vh-bracketed")
			}
			if net.ParseIP(cand) != nil {
				if got {
					add("vh-ip-accept")
				} else {
					add("vh-ip-reject")
				}
			}
			if want := refVerify(c, h); got != want && viol == "" {
				viol = fmt.Sprintf("VerifyHostname(%q) accept=%v on cert{san=%v dns=%q ips=%x cn=%q}; the documented rules give %v",
					h, got, cert.ZVHasSANExtension(), c.dns, c.ips, c.cn, want)
			}
		}
		return zv.Out{Go: strings.Join(outs, ","), Viol: viol, Tags: tags}
	case "em":
		c := certSpec{oids: parseOids(f[2]), dns: unHexList(f[3]), ips: unHexList(f[4]), cn: string(zv.UnHex(f[5]))}
		host := string(zv.UnHex(f[6]))
		ipStrs := unHexList(f[7])
		cert := c.build()
		viol := ""
		if len(ipStrs) != len(cert.IPAddresses) {
			panic("c09 em: ipstr list does not belong to the IP SAN list")
		}
		for i, ip := range cert.IPAddresses {
			if ip.String() != ipStrs[i] {
				viol = fmt.Sprintf("em line carries %q for IP SAN %x but net.IP.String gives %q", ipStrs[i], []byte(ip), ip.String())
			}
		}
		var err error = x509.HostnameError{Certificate: cert, Host: host}
		msg := err.Error()
		// T3: independent classification of the message
		tag := ""
		var want string
		switch {
		case net.ParseIP(host) != nil && len(c.ips) == 0:
			tag = "em-ip-no-ipsans"
			want = "x509: cannot validate certificate for " + host + " because it doesn't contain any IP SANs"
		case net.ParseIP(host) != nil:
			tag = "em-ip-list"
			want = "x509: certificate is valid for " + strings.Join(ipStrs, ", ") + ", not " + host
		case cert.ZVHasSANExtension() && len(strings.Join(c.dns, "")) == 0 && len(c.dns) <= 1:
			tag = "em-san-no-names"
			want = "x509: certificate is not valid for any names, but wanted to match " + host
		case cert.ZVHasSANExtension():
			tag = "em-dns-list"
			want = "x509: certificate is valid for " + strings.Join(c.dns, ", ") + ", not " + host
		case c.cn == "":
			tag = "em-cn-empty"
			want = "x509: certificate is not valid for any names, but wanted to match " + host
		default:
			tag = "em-cn"
			want = "x509: certificate is valid for " + c.cn + ", not " + host
		}
		if msg != want && viol == "" {
			viol = fmt.Sprintf("HostnameError{%q}.Error() = %q, documented form %q", host, msg, want)
		}
		return zv.Out{Go: zv.Hex([]byte(msg)), Viol: viol, Tags: []string{"em", tag}}
	}
	panic("c09: unknown sub-op " + f[1])
}

// ---------- generators ----------

var alphabet = []byte{'a', 'B', '1', '.', '*', '[', ']', ':', 0xC3, 0xA9}

// allStrings enumerates every string over alpha with length lo..hi.
func allStrings(alpha []byte, lo, hi int) []string {
	var out []string
	var rec func(prefix []byte)
	rec = func(prefix []byte) {
		if len(prefix) >= lo {
			out = append(out, string(prefix))
		}
		if len(prefix) == hi {
			return
		}
		for _, a := range alpha {
			rec(append(append([]byte{}, prefix...), a))
		}
	}
	rec(nil)
	return out
}

var sanOid = []int{2, 5, 29, 17}

func randLabel(r *zv.Rng) string {
	switch r.Intn(10) {
	case 0:
		return "*"
	case 1:
		return ""
	case 2:
		return "xn--" + string(rune('a'+r.Intn(3)))
	case 3:
		return "\xc3\xa9" + string(rune('a'+r.Intn(3)))
	case 4:
		return "*" + string(rune('a'+r.Intn(3)))
	}
	n := 1 + r.Intn(4)
	b := make([]byte, n)
	for i := range b {
		b[i] = "abAB01-wW"[r.Intn(9)]
	}
	return string(b)
}

func randName(r *zv.Rng) string {
	n := 1 + r.Intn(4)
	var ls []string
	for i := 0; i < n; i++ {
		ls = append(ls, randLabel(r))
	}
	s := strings.Join(ls, ".")
	if r.Chance(15) {
		s += "."
	}
	if r.Chance(5) {
		s += "."
	}
	return s
}

// mutate derives a host that is likely to (nearly) match pattern.
func mutate(r *zv.Rng, pattern string) string {
	ls := strings.Split(pattern, ".")
	for i := range ls {
		if ls[i] == "*" && r.Chance(80) {
			ls[i] = randLabel(r)
		}
	}
	h := strings.Join(ls, ".")
	switch r.Intn(12) {
	case 0:
		h += "."
	case 1:
		h = strings.TrimSuffix(h, ".")
	case 2:
		h = strings.ToUpper(h)
	case 3:
		h = "x." + h
	case 4:
		if i := strings.IndexByte(h, '.'); i >= 0 {
			h = h[i+1:]
		}
	case 5:
		if len(h) > 0 {
			b := []byte(h)
			b[r.Intn(len(b))] ^= 0x20
			h = string(b)
		}
	case 6:
		if len(h) > 0 {
			b := []byte(h)
			b[r.Intn(len(b))] = alphabet[r.Intn(len(alphabet))]
			h = string(b)
		}
	case 7:
		h = "[" + h + "]"
	}
	return h
}

func randIPString(r *zv.Rng) (string, []byte) {
	switch r.Intn(4) {
	case 0: // dotted IPv4
		b := r.Bytes(4)
		return net.IP(b).String(), b
	case 1: // IPv4-mapped written as IPv6
		b := r.Bytes(4)
		return "::ffff:" + net.IP(b).String(), b
	case 2: // IPv6 with zero runs
		b := r.Bytes(16)
		for i := 0; i < 16; i += 2 {
			if r.Chance(50) {
				b[i], b[i+1] = 0, 0
			}
		}
		return net.IP(b).String(), b
	}
	b := r.Bytes(16)
	if r.Chance(30) {
		copy(b, []byte{0, 0, 0, 0, 0, 0, 0, 0, 0, 0, 0xff, 0xff})
	}
	// expanded form, mixed case
	var gs []string
	for i := 0; i < 16; i += 2 {
		g := fmt.Sprintf("%x", int(b[i])<<8|int(b[i+1]))
		if r.Chance(30) {
			g = strings.ToUpper(g)
		}
		if r.Chance(10) {
			g = "0" + g
		}
		gs = append(gs, g)
	}
	return strings.Join(gs, ":"), b
}

func mutateIPString(r *zv.Rng, s string) string {
	if len(s) == 0 {
		return s
	}
	b := []byte(s)
	switch r.Intn(8) {
	case 0:
		b[r.Intn(len(b))] = "0123456789abcdefABCDEF:.%g "[r.Intn(27)]
	case 1:
		i := r.Intn(len(b))
		b = append(b[:i:i], b[i+1:]...)
	case 2:
		i := r.Intn(len(b) + 1)
		b = append(b[:i:i], append([]byte{"0:.1f%"[r.Intn(6)]}, b[i:]...)...)
	case 3:
		return s + "%eth0"
	case 4:
		return s + ":" + s
	case 5:
		return "0" + s
	case 6:
		return strings.Replace(s, ":", "::", 1)
	}
	return string(b)
}

func gen(g *zv.Gen) {
	r := g.Rng
	// ---- corpus: documented corner cases
	for _, s := range []string{"", "A", "a", "\xc3B", "\xef\xbf\xbdZ", "\xc3\xa9", "\xc3\xa9Q", "\xe0\xa0\x80", "\xed\xa0\x80X", "\xf4\x90\x80\x80", "\xf0\x90\x80\x80K", "\xc0\xafX", "\xffA"} {
		g.Emitf("c09 low %s", zv.Hex([]byte(s)))
	}
	for _, s := range []string{"", "1.2.3.4", "01.2.3.4", "1.2.3.256", "1.2.3", "1.2.3.4.5", "::", "::1", "1::", "1::2", "::ffff:1.2.3.4", "1:2:3:4:5:6:7:8", "1:2:3:4:5:6:7::", "::2:3:4:5:6:7:8",
		"1:2:3:4:5:6:7:8::", "1:2:3:4:5:6:1.2.3.4", "1:2:3:4:5:1.2.3.4", "::1.2.3.4", "1::1.2.3.4", "fe80::1%eth0", "%", "1.2.3.4%x", "12345::", "::fffff", "1:::2", ":1", "1:", "::1:", "FFFF::ffff",
		"1:2:3:4:5:6:7:1.2.3.4", "::1:2:3:4:5:6:1.2.3.4", "::01.2.3.4", "1.2..4", ".1.2.3", "1.2.3.", "::a.2.3.4", "::1a.2.3.4"} {
		g.Emitf("c09 ip %s", zv.Hex([]byte(s)))
	}
	g.Emitf("c09 mh %s %s", zv.Hex([]byte("*.example.com")), hexList([]string{"www.example.com", "example.com", "a.b.example.com", ".example.com", "www.example.com.", "www.example.com..", "WWW.example.com"}))
	g.Emitf("c09 mh %s %s", zv.Hex([]byte("a.*.c.")), hexList([]string{"a.b.c", "a..c", "a.b.c.", "a.*.c", "a.b.d"}))

	// ---- toLowerCaseASCII: exhaustive over the property alphabet and over a UTF-8-structure alphabet
	for _, s := range allStrings(alphabet, 0, g.N(4, 5)) {
		g.Emitf("c09 low %s", zv.Hex([]byte(s)))
	}
	utf := []byte{'B', 'a', 0x80, 0xA9, 0xC3, 0xE0, 0xA0, 0xED, 0xEF, 0xBF, 0xBD, 0xF0, 0xF4, 0x90}
	for _, s := range allStrings(utf, 1, g.N(3, 4)) {
		g.Emitf("c09 low %s", zv.Hex([]byte(s)))
	}
	for i, n := 0, g.N(5000, 200000); i < n; i++ {
		l := r.Intn(41)
		b := make([]byte, l)
		for j := range b {
			switch r.Intn(4) {
			case 0:
				b[j] = byte(r.U64())
			case 1:
				b[j] = utf[r.Intn(len(utf))]
			default:
				b[j] = "abcxyzABCXYZ019.-*@[`{"[r.Intn(22)]
			}
		}
		if r.Chance(40) { // make it already lower case ASCII / valid UTF-8 so that the early return is taken
			b = []byte(strings.ToLower(strings.ToValidUTF8(string(b), "\xc3\xa9")))
		}
		g.Emitf("c09 low %s", zv.Hex(b))
	}

	// ---- matchHostnames: exhaustive patterns x hosts over the alphabet
	short := allStrings(alphabet, 0, 3)
	shortHex := hexList(short)
	for _, p := range short {
		g.Emitf("c09 mh %s %s", zv.Hex([]byte(p)), shortHex)
	}
	// longer patterns, each paired with hosts derived from it (all label substitutions over a few labels, dots, case)
	subs := []string{"a", "B", "", "*", "1", "a.a", "\xc3\xa9"}
	for _, p := range allStrings(alphabet, 4, g.N(4, 5)) {
		hosts := []string{p, p + ".", strings.TrimSuffix(p, "."), asciiLower(p), "a." + p}
		if strings.Contains(p, "*") {
			for _, s := range subs {
				hosts = append(hosts, strings.Replace(p, "*", s, 1), strings.ReplaceAll(p, "*", s))
			}
		}
		for i := 0; i < 3; i++ {
			hosts = append(hosts, mutate(r, p))
		}
		g.Emitf("c09 mh %s %s", zv.Hex([]byte(p)), hexList(hosts))
	}
	for i, n := 0, g.N(5000, 200000); i < n; i++ {
		p := randName(r)
		var hosts []string
		for j := 0; j < 6; j++ {
			hosts = append(hosts, mutate(r, p))
		}
		hosts = append(hosts, randName(r))
		g.Emitf("c09 mh %s %s", zv.Hex([]byte(p)), hexList(hosts))
	}

	// ---- net.ParseIP (trusted, validated): exhaustive over a small alphabet + structured random
	for _, s := range allStrings([]byte{'1', '0', 'f', ':', '.'}, 0, g.N(7, 9)) {
		g.Emitf("c09 ip %s", zv.Hex([]byte(s)))
	}
	for _, s := range allStrings(alphabet, 0, 4) {
		g.Emitf("c09 ip %s", zv.Hex([]byte(s)))
	}
	for i, n := 0, g.N(20000, 500000); i < n; i++ {
		s, _ := randIPString(r)
		for r.Chance(50) {
			s = mutateIPString(r, s)
		}
		g.Emitf("c09 ip %s", zv.Hex([]byte(s)))
	}

	// ---- VerifyHostname through the public API
	// (a) one DNS SAN / CN = every pattern of length <= 2, against every host of length <= 4 (IP literals
	//     such as "::", "1::1", "[::]", "a::B" are among them, hence the IP SANs)
	ipSans := []string{string(make([]byte, 16)), string(net.ParseIP("::1").To16()), string(net.ParseIP("1::1").To16()), string([]byte{0, 0, 0, 1}), string(net.ParseIP("a::b").To16())}
	hosts4 := allStrings(alphabet, 0, g.N(4, 5))
	var chunks []string
	for i := 0; i < len(hosts4); i += 1111 {
		j := i + 1111
		if j > len(hosts4) {
			j = len(hosts4)
		}
		chunks = append(chunks, hexList(hosts4[i:j]))
	}
	for _, p := range allStrings(alphabet, 0, 2) {
		for mode := 0; mode < 3; mode++ {
			var c certSpec
			switch mode {
			case 0: // SAN present, CN must be ignored (CN = "*" would match a lot)
				c = certSpec{oids: [][]int{sanOid}, dns: []string{p}, ips: ipSans, cn: "*"}
			case 1: // no SAN: CN is the only name; DNSNames must be ignored
				c = certSpec{oids: [][]int{{2, 5, 29, 15}}, dns: []string{"*", "*.*"}, ips: ipSans[:2], cn: p}
			case 2: // SAN extension present after another one, two DNS names
				c = certSpec{oids: [][]int{{2, 5, 29, 15}, sanOid}, dns: []string{"a.B", p}, cn: p + "a"}
			}
			for _, ch := range chunks {
				g.Emitf("c09 vh %s %s %s %s %s", oidsStr(c.oids), hexList(c.dns), hexList(c.ips), zv.Hex([]byte(c.cn)), ch)
			}
		}
	}
	// (b) random certificates: SAN/CN sets up to 3 entries, IPv4/IPv6/IPv4-mapped/bracketed hosts
	oidChoices := [][][]int{nil, {sanOid}, {{2, 5, 29, 15}}, {{2, 5, 29, 15}, sanOid}, {{2, 5, 29}}, {{2, 5, 29, 17, 1}}, {{2, 5, 29, 18}, {2, 5, 29, 17}, {2, 5, 29, 19}}}
	for i, n := 0, g.N(15000, 400000); i < n; i++ {
		var c certSpec
		c.oids = oidChoices[r.Intn(len(oidChoices))]
		for j, k := 0, r.Intn(4); j < k; j++ {
			c.dns = append(c.dns, randName(r))
		}
		var ipStrs []string
		for j, k := 0, r.Intn(4); j < k; j++ {
			s, b := randIPString(r)
			ipStrs = append(ipStrs, s)
			if len(b) == 4 && r.Chance(40) {
				b = to16(b)
			}
			if r.Chance(5) {
				b = b[:r.Intn(len(b))]
			}
			c.ips = append(c.ips, string(b))
		}
		if r.Chance(70) {
			c.cn = randName(r)
		}
		var hosts []string
		for j, k := 0, 1+r.Intn(8); j < k; j++ {
			var h string
			switch r.Intn(6) {
			case 0:
				if len(c.dns) > 0 {
					h = mutate(r, c.dns[r.Intn(len(c.dns))])
				} else {
					h = mutate(r, c.cn)
				}
			case 1:
				h = mutate(r, c.cn)
			case 2:
				if len(ipStrs) > 0 {
					h = ipStrs[r.Intn(len(ipStrs))]
				} else {
					h, _ = randIPString(r)
				}
				if r.Chance(30) {
					// the other spelling of the same address
					if ip := net.ParseIP(h); ip != nil {
						if v4 := ip.To4(); v4 != nil && r.Bool() {
							h = "::ffff:" + v4.String()
						} else {
							h = ip.String()
						}
					}
				}
				if r.Chance(30) {
					h = mutateIPString(r, h)
				}
				if r.Chance(40) {
					h = "[" + h + "]"
				}
			case 3:
				h, _ = randIPString(r)
				if r.Chance(40) {
					h = "[" + h + "]"
				}
			case 4:
				h = randName(r)
			case 5:
				if len(c.dns) > 0 {
					h = c.dns[r.Intn(len(c.dns))]
					if r.Chance(50) {
						h = strings.ToUpper(h)
					}
				} else {
					h = c.cn
				}
			}
			hosts = append(hosts, h)
		}
		g.Emitf("c09 vh %s %s %s %s %s", oidsStr(c.oids), hexList(c.dns), hexList(c.ips), zv.Hex([]byte(c.cn)), hexList(hosts))
		if i%3 == 0 { // HostnameError.Error on the Host values VerifyHostname would put into the error (and on the raw host)
			var ss []string
			for _, b := range c.ips {
				ss = append(ss, net.IP([]byte(b)).String())
			}
			if r.Chance(15) {
				c.dns = nil
			} else if r.Chance(10) {
				c.dns = []string{""}
			}
			if r.Chance(25) {
				c.ips, ss = nil, nil
			}
			for _, h := range hosts[:1+r.Intn(len(hosts))] {
				if len(h) >= 3 && h[0] == '[' && h[len(h)-1] == ']' && r.Chance(70) {
					h = h[1 : len(h)-1]
				}
				g.Emitf("c09 em %s %s %s %s %s %s", oidsStr(c.oids), hexList(c.dns), hexList(c.ips), zv.Hex([]byte(c.cn)), zv.Hex([]byte(h)), hexList(ss))
			}
		}
	}
}

func init() {
	zv.Register(&zv.Prop{ID: "C09", Topic: "c09", Gen: gen, Exec: exec,
		Rule: "alphabet S = {a,B,1,'.','*','[',']',':',0xC3,0xA9}. low: every string over S up to length 4 (quick) / 5 (thorough), every string over a 14-byte UTF-8-structure alphabet up to length 3/4, random byte strings up to length 40; " +
			"mh: every pattern x host pair over S with both lengths <= 3 (one line per pattern, 1111 hosts each), every pattern of length 4 (thorough: 4-5) with hosts derived from it, random multi-label names with mutated hosts; " +
			"ip: net.ParseIP vs the Lean parseIP on every string over {1,0,f,':','.'} up to length 7/9, every string over S up to length 4, random IPv4/IPv6/IPv4-mapped spellings with mutations; " +
			"vh: VerifyHostname on hand-built certificates: every pattern over S of length <= 2 as the only DNS SAN / as CN without SAN / as second SAN, against every host over S up to length 4/5, plus random certificates (0-3 DNS SANs, 0-3 IP SANs incl. 4-byte/16-byte/truncated, CN, extension lists with and without the SAN OID) with derived DNS hosts and IPv4/IPv6/IPv4-mapped/bracketed literals. " +
			"em: HostnameError{cert, host}.Error() on a third of the random certificates (hosts as VerifyHostname stores them: bracket-stripped IP literals, raw names; DNS lists emptied / IP SANs dropped at random), net.IP.String of the IP SANs carried in the line and re-checked; T3 = the three documented message forms rebuilt in the harness. " +
			"A case is one line (a pattern or certificate with its batch of hosts); T3 = independent label-wise matcher / byte-wise lowering / rule evaluation in the harness; for ip lines T3 = the declarative IP-literal grammar (dotted quad / eight groups / one \"::\" / trailing dotted quad; the Lean spec IPLiteral re-written with strings.Split) evaluated against net.ParseIP, result bytes included."})
}
