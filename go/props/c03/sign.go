package c03

// The signer side: signingParamsForPublicKey of x509 and of ocsp (through the verif hooks), GetSignatureAlgorithmFromAI /
// getSignatureAlgorithmFromOID on what they return, and the signer options the REAL creation APIs hand to the signer
// (recorded by a wrapping crypto.Signer).
//
//   c03 sparams <x509|ocsp> <label> <req>   -> ok <hash> <oid> <absent|null|raw:hex> <written> <pss>:<hash> | err | panic
//   c03 sigai <oid> <absent|null|pss:h>     -> int(x509.GetSignatureAlgorithmFromAI)
//   c03 sigoid <oid>                        -> int(ocsp.getSignatureAlgorithmFromOID)

import (
	"crypto"
	"crypto/ecdsa"
	"crypto/ed25519"
	"crypto/elliptic"
	"crypto/rand"
	"errors"
	"fmt"
	"math/big"
	"strconv"
	"strings"
	"sync"

	"github.com/zmap/zcrypto/dsa"
	zasn1 "github.com/zmap/zcrypto/encoding/asn1"
	zrsa "github.com/zmap/zcrypto/rsa"
	"github.com/zmap/zcrypto/x509"
	"github.com/zmap/zcrypto/x509/pkix"
	"github.com/zmap/zcrypto/x509/revocation/ocsp"

	"zv/internal/zv"
	"zv/props/c03/c03api"
)

// labels: the arms of the type switch / curve switch as the T1 extractor names them, plus keys that fall through
var signLabels = []string{"*rsa.PublicKey", "*ecdsa.PublicKey:P224", "*ecdsa.PublicKey:P256", "*ecdsa.PublicKey:P384", "*ecdsa.PublicKey:P521",
	"ed25519.PublicKey", "*ecdsa.PublicKey:other", "*dsa.PublicKey", "nil"}

var (
	signOnce sync.Once
	signKeys = map[string]crypto.Signer{}
	signIss  = map[string]*x509.Certificate{}
)

func signInit() {
	signOnce.Do(func() {
		signKeys["*rsa.PublicKey"] = apiKey("rsa")
		signKeys["*ecdsa.PublicKey:P256"] = apiKey("ecdsa-p256")
		signKeys["*ecdsa.PublicKey:P384"] = apiKey("ecdsa-p384")
		signKeys["ed25519.PublicKey"] = apiKey("ed25519")
		k224, _ := ecdsa.GenerateKey(elliptic.P224(), rand.Reader)
		k521, _ := ecdsa.GenerateKey(elliptic.P521(), rand.Reader)
		signKeys["*ecdsa.PublicKey:P224"], signKeys["*ecdsa.PublicKey:P521"] = k224, k521
		for n, k := range signKeys {
			if iss, err := c03api.Issuer(k); err == nil {
				signIss[n] = iss
			}
		}
	})
}

// a public key of the Go type / curve the label names (the private half is irrelevant to signingParamsForPublicKey)
func labelPub(label string) interface{} {
	signInit()
	if k, ok := signKeys[label]; ok {
		return k.Public()
	}
	switch label {
	case "*ecdsa.PublicKey:other":
		p := *elliptic.P256().Params() // same numbers, another Curve value: none of the named curves
		return &ecdsa.PublicKey{Curve: &p, X: p.Gx, Y: p.Gy}
	case "*dsa.PublicKey":
		return &dsa.PublicKey{Parameters: dsa.Parameters{P: big.NewInt(23), Q: big.NewInt(11), G: big.NewInt(4)}, Y: big.NewInt(9)}
	case "nil":
		return nil
	}
	panic("bad key label " + label)
}

func showOid(o zasn1.ObjectIdentifier) string {
	if len(o) == 0 {
		return "-"
	}
	s := make([]string, len(o))
	for i, a := range o {
		s[i] = strconv.Itoa(a)
	}
	return strings.Join(s, ".")
}

func parseOid(s string) zasn1.ObjectIdentifier {
	if s == "-" {
		return zasn1.ObjectIdentifier{}
	}
	var o zasn1.ObjectIdentifier
	for _, a := range strings.Split(s, ".") {
		o = append(o, atoi(a))
	}
	return o
}

func showParams(p zasn1.RawValue) string {
	switch {
	case len(p.FullBytes) > 0:
		return "raw:" + zv.Hex(p.FullBytes)
	case p.Tag == 5 && p.Class == 0 && !p.IsCompound && len(p.Bytes) == 0:
		return "null"
	case p.Tag == 0 && p.Class == 0 && !p.IsCompound && len(p.Bytes) == 0:
		return "absent"
	}
	return fmt.Sprintf("other:%d/%d/%v/%s", p.Class, p.Tag, p.IsCompound, zv.Hex(p.Bytes))
}

func execSParams(a []string, tags []string) zv.Out {
	pkg, label, req := a[0], a[1], atoi(a[2])
	pub := labelPub(label)
	var h crypto.Hash
	var ai pkix.AlgorithmIdentifier
	var err error
	var written x509.SignatureAlgorithm
	apis := []string{"cert", "csr", "rl"}
	switch pkg {
	case "x509":
		h, ai, err = x509.ZVC03SigningParamsForPublicKey(pub, x509.SignatureAlgorithm(req))
		written = x509.GetSignatureAlgorithmFromAI(ai)
	case "ocsp":
		h, ai, err = ocsp.ZVC03SigningParamsForPublicKey(pub, x509.SignatureAlgorithm(req))
		written = ocsp.ZVC03GetSignatureAlgorithmFromOID(ai.Algorithm)
		apis = []string{"ocsp"}
	default:
		panic("bad package " + pkg)
	}
	tags = append(tags, "pkg="+pkg, "label="+label, "req="+a[2])
	key, haveKey := signKeys[label]
	if err != nil {
		tags = append(tags, "sparams=err")
		// T3: the creation APIs must refuse what signingParamsForPublicKey refuses
		if haveKey {
			for _, api := range apis {
				if _, e := c03api.Make(api, x509.SignatureAlgorithm(req), key, signIss[label]); e == nil || !errors.Is(e, c03api.ErrCreate) {
					return zv.Out{Go: "err", Tags: tags, Viol: fmt.Sprintf("%s signingParamsForPublicKey(%s, %d) fails (%v) but %s does not refuse: %v", pkg, label, req, err, api, e)}
				}
			}
		}
		return zv.Out{Go: "err", Tags: tags}
	}
	tags = append(tags, "sparams=ok", "params="+strings.SplitN(showParams(ai.Parameters), ":", 2)[0], fmt.Sprintf("written=%d", int(written)))
	if !haveKey {
		panic("signingParamsForPublicKey accepted a key type the harness has no signer for: " + label)
	}
	// the options the real creation APIs hand to the signer, and the algorithm their parsers read back
	opts, viol := "", ""
	for _, api := range apis {
		rec := &c03api.Recorder{Inner: key}
		m, e := c03api.Make(api, x509.SignatureAlgorithm(req), rec, signIss[label])
		if e != nil {
			viol = fmt.Sprintf("%s signingParamsForPublicKey(%s, %d) succeeds but %s fails: %v", pkg, label, req, api, e)
			break
		}
		o := fmt.Sprintf("%d:%d", b2i(rec.PSS), int(rec.Hash))
		if opts == "" {
			opts = o
		} else if opts != o {
			viol = fmt.Sprintf("%s with (%s, %d) hands the signer options %s, the certificate API %s", api, label, req, o, opts)
		}
		if m.Written != written {
			viol = fmt.Sprintf("%s with (%s, %d): the parser reads algorithm %d from the object, GetSignatureAlgorithmFromAI on the signing parameters gives %d", api, label, req, int(m.Written), int(written))
		}
		if rec.Hash != h {
			viol = fmt.Sprintf("%s with (%s, %d): signer asked for hash %d, signingParamsForPublicKey said %d", api, label, req, int(rec.Hash), int(h))
		}
		// the property itself: the written algorithm is verified with the scheme the signer was asked for
		if sa, ok := stdAlgo[int(m.Written)]; !ok || sa.h != rec.Hash || sa.pss != rec.PSS {
			viol = fmt.Sprintf("%s with (%s, %d): object says algorithm %d, signer was asked for pss=%v hash=%d", api, label, req, int(m.Written), rec.PSS, int(rec.Hash))
		}
		if e := m.Verify(); e != nil && viol == "" {
			viol = fmt.Sprintf("%s with (%s, %d): the object does not verify with its own verification API: %v", api, label, req, e)
		}
	}
	tags = append(tags, "opts="+opts)
	return zv.Out{Go: fmt.Sprintf("ok %d %s %s %d %s", int(h), showOid(ai.Algorithm), showParams(ai.Parameters), int(written), opts), Viol: viol, Tags: tags}
}

func b2i(b bool) int {
	if b {
		return 1
	}
	return 0
}

func execSigAI(a []string, tags []string) zv.Out {
	ai := pkix.AlgorithmIdentifier{Algorithm: parseOid(a[0])}
	switch {
	case a[1] == "absent":
	case a[1] == "null":
		ai.Parameters = zasn1.NullRawValue
	case strings.HasPrefix(a[1], "pss:"):
		ai.Parameters.FullBytes = x509.ZVC03RSAPSSParameters(crypto.Hash(atoi(a[1][4:])))
	default:
		panic("bad params " + a[1])
	}
	got := int(x509.GetSignatureAlgorithmFromAI(ai))
	tags = append(tags, "params="+strings.SplitN(a[1], ":", 2)[0], fmt.Sprintf("algo=%d", got))
	return zv.Out{Go: strconv.Itoa(got), Tags: tags}
}

func execSigOID(a []string, tags []string) zv.Out {
	got := int(ocsp.ZVC03GetSignatureAlgorithmFromOID(parseOid(a[0])))
	return zv.Out{Go: strconv.Itoa(got), Tags: append(tags, fmt.Sprintf("algo=%d", got))}
}

// genSign: every (package, key label, requested algorithm 0..19 and two large values); every OID of either details table
// (and near misses) x every parameter shape.
func genSign(g *zv.Gen) {
	for _, pkg := range []string{"x509", "ocsp"} {
		for _, l := range signLabels {
			for req := 0; req <= 19; req++ {
				g.Emitf("c03 sparams %s %s %d", pkg, l, req)
			}
			g.Emitf("c03 sparams %s %s 255", pkg, l)
			g.Emitf("c03 sparams %s %s %d", pkg, l, 20+g.Rng.Intn(1<<20))
		}
	}
	oids := map[string]bool{"-": true, "1.2": true, "1.2.840.113549.1.1": true, "1.2.840.113549.1.1.10.1": true, "1.2.840.113549.1.1.1": true, "2.5.4.3": true}
	for a := 0; a <= 17; a++ {
		for _, l := range []string{"*rsa.PublicKey", "*ecdsa.PublicKey:P256", "ed25519.PublicKey"} {
			if _, ai, err := x509.ZVC03SigningParamsForPublicKey(labelPub(l), x509.SignatureAlgorithm(a)); err == nil {
				o := ai.Algorithm
				oids[showOid(o)] = true
				last := append(zasn1.ObjectIdentifier{}, o...)
				last[len(last)-1]++
				oids[showOid(last)] = true
				oids[showOid(o[:len(o)-1])] = true
			}
		}
	}
	// OIDs only reachable through the tables (DSA, MD2, the ISO SHA1WithRSA alias)
	for _, s := range []string{"1.2.840.113549.1.1.2", "1.3.14.3.2.29", "1.2.840.10040.4.3", "2.16.840.1.101.3.4.3.2", "1.3.14.3.2.30", "1.2.840.10040.4.1"} {
		oids[s] = true
	}
	var sorted []string
	for o := range oids {
		sorted = append(sorted, o)
	}
	sortStrings(sorted)
	for _, o := range sorted {
		for _, p := range []string{"absent", "null", "pss:5", "pss:6", "pss:7"} {
			g.Emitf("c03 sigai %s %s", o, p)
		}
		g.Emitf("c03 sigoid %s", o)
	}
	_ = ed25519.PublicKeySize
	_ = zrsa.PSSSaltLengthEqualsHash
}

func sortStrings(s []string) {
	for i := 1; i < len(s); i++ {
		for j := i; j > 0 && s[j] < s[j-1]; j-- {
			s[j], s[j-1] = s[j-1], s[j]
		}
	}
}
