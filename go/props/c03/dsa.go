package c03

// DSA: zcrypto/dsa Sign and Verify against crypto/dsa of the standard library and the Lean model, for every
// (parameter set, digest length) combination - in particular digests longer and shorter than the group order.

import (
	"bytes"
	"crypto"
	cdsa "crypto/dsa"
	"fmt"
	"io"
	"math/big"

	"github.com/zmap/zcrypto/dsa"

	"zv/internal/zv"
	"zv/props/c23"
)

// generated once with crypto/dsa.GenerateParameters (standard sizes) and a p = m*q+1 search (small / odd sizes); see dsaParams
var dsaParamHex = [][4]string{
	{"L2048N224",
		"f7657f0086a60744f6a27f5b2c4bce96bbd44022dc0ac465452aa91d40fad7507bd46bb092e9b694bf83bd6a5056ef212ae0e01d80a61fa958c4cba437a7585aa493f663bd1e0a21b9200c95854dcdbf08c3fc8c6bfe8316fad057513458287071408a72f786d10626f3f7ff3b39345c7bde0880dd7442edc1e14a3760a3aa11d3d5c7e963ce1756a13a8c46d331c8eaa055926a11f94f3b126b007ac1671df6ebaea3f9c88ca169812555265c170859f59c77a109175c175b7408f536f6bf32b401f656b8573ce1d6e04dfba1a2a44454dd65aed34fec963bdd51f09d0ca4db7aa7740b4437eca0516110ac395d6ea019d4f19772bb08cca75bfe58b6a05c8b",
		"f9e34284a4ba94a9ed409cb93bfacc6728687c5258b4db04d02cb3d3",
		"7a9c24e06b909047b41be411341ef622bec39510eaea08c6f770ef2e5218ee1bd745e2bd70d5673068bf55b18bdde6afdbd41ace143d7d50d64493b4a17e455483ce586c81d83357a41d3eae6d503aac51172d5ff7edba62d95eccbf09d2468182007f8b7364eae4d8e7a57eae390683754d90489d9d39bf98d9a128c1c77635f2f73b16250940a31bb9a810672644246f6ea1dd63c76d4cc74140328f1e79992d3e67cdc13c3fa7a1b74b94f1d1e049320718697e1066c17eee0bdc8b875821b83025ad87259647ef4221a0d77ba260c3062c979ab6f42397eaf400426bb331b5b5a4ad153591a66ebe6eb4461abac124e0ab2902effa53a0c3acb0042d5e"},
	{"L2048N256",
		"f792891fbcbca9b49d8915cb25d43677c517ec97abb31cdd94b2a6bcdc1ac96966fb2f51bb271fc6afa9dba58911666531b3087876732fa32a13957bba31c2bef94a72057a1f973cdb0d8f7f50eb74c11275ab51a6a2c3f27462d084e591d3928a4d016b660aaff390b56e5bce6a35e971c75cb3253e5cea7733186efaa53b39b5ce15c4faa71deeaa44a897805160b2b1a027a526fffd5e6c7b4ce0dce6130e5f2900a956de26ad5ad7e6cd17815ef3cce7cba3f91a43919b410aeace2eb9ce0b26418dc5c2665f9723f63aac662c5728164d266bdbd23e08e2ee04ce914df3115c1a5b9c968be1ed06f82b5a335cca70146dc341f36837b2157388a4dcc92d",
		"86658de83caa8051651927cc100f5a6256a0fe87bbb017f390bd516d30f6c23d",
		"2b7ab6cd37cfd2c307d6d6948603697e18722de7dfcde7d96024600bc5aa422e4566be71faffd1f7874246bcaadd22df37272eb23178dfae0ca116155897e63367fa6949fbe4467f653ae584756c5432e9739d9be90790a03753fc5c02c0663bdd6b063ed1dbb3eb729334efc0de36071e284f6a97e13de4bda052887f07062ea01a1ec1eef7cc00f81d75a5571996e551c84136e1e5a71d3f12a05f3303f9786b07f045f8fc2c517e41c1fb92d32ea937489741c20c9cf7a70d5e69756fcb974108f8b8fa7d11d561af664500ac5da36e840e70657ff620517a287f036713787b019a9dc037d0f402ef97e3c98502cbf336b6fddcd21a9b248522b501f227bf"},
	{"L3072N256",
		"8dc6d9aac245489e3b5262003de6502916a49989d080003a6486eacd7e2163c9d9884467a9313c70b39c89a0e503a54e95fd8c0c9836d2e357678754d49fa8dec8210e14b2e88a9c3481018ac2a638b1127fe545ff67399454dc4a03bd72a52412245b82e6316b06c0becc655c28a93ae17d9904e587f1e2b0cb41aa26d463c10a6c88b4f24b29ed1d1a12471bb9c1137764085154e8a17d728ccae8b169518cbb773c6bfaab8982385cfe4ff675f985ca17f28b75cb78cea474cc8d69be2d4f0e5223a946cb39952eda3bb6ba5821f917afd2a09bd7a2bc22aeb3c38e8f9a4ee517ac3801b205dc76e3dc08f7ff72fed6c6ff07cef5ee68b41ffff85a8c915d2e75261e83cb7edfcbac4a8f2a7595a9fe37cc45a0adc955da3de695b68c9ef8fdb57f5093112eb907d6c8d7c87260af0a50dd62a21cb1250ebddf66f9c39f3ad080ee2839eb388784b33592d0f2a8e3647d8c4b12a1e6d6edb43a19e126098d75dbd8acb41bad3161657a9e68552e2e018b12a1e567d892ecaf0ec289db9c57",
		"8197cca824fa0277bffa4ca072a2bf32b715bdcc22fc5a46c75f91beb3e0fea5",
		"4aea077ef26968130f39f9d1893fce928b065f12777ae88c1923dc990875d885608c8f32193a1abd79d48e06dfcd7c6d1c2b5cbd3cc3fdf5e4483f1a224ba96d95a4caf0b7b342f1cbc2a57d02146f5c09887361e767ef8723377bb796d25e086f17023c17c2c5244fe76d220a8cfb2d15d3929e224f9639bd03737bcba4afb39a929e0d81144ad7f6fa1d29f0b46dba29df58091af181233a7249e43921122081dcf29bf01cfa1be4ab8c9d09c6986fa2991ae10c27f75342328440621f213c98afc9aa40c751e720ee6d2e8a0efbf56fab055b32cc0652c8c16d8c7956e43565b254f56a6c9b93df9190796db401ac6f4dca3b7fac949c73e7e90c15cc5403b5826b4f21070f661dd60d9cb648ee1d580e6204588d636db11c1094d96afd39edcc4a723a2aa7f597f51503127a20a4cdf15329b0b97540b4107d3b5ee16acca2b6b93c15a9d4f2cb35a4f402642cff41944540d5162c571aa08a253f958f841c85287ad582816cf525a9e1f9f8ffd9fca49b57adff0644451dcd4e0b485614"},
	{"L512N160",
		"8cc4b003dfbdf0c95959c1e35616e87035e1b069ca3f323db8d38ede136de03ad61d86e9a8fd417cff5e4e4717cf9e83ce3eb1a41a43a1af5cb34aa7bfb51cb3",
		"e4e640a1e37db685a403f4503cbde131228b8c25",
		"3e34c1ea8a2b76d2b7fdef6c3346b776dfb63f3b1a27e47fdeaf8eac94f12aad0980018bac246f69d9e66f9454d87bc864f7cd60157e1546ad59bfe6cec0b946"},
	{"L640N224",
		"9bdfd8e151ff70104f2e1469acfd2741ce62b76aa4fbaadedeb30eb390289b2ea0863d3e5de7a199a29981963790f54c82f3a98cdeee7f7018127ac55c45ae4961c27176319b2560ad91a5f2375d7f27",
		"cef581c55f3032ed11e47f0d4fa4c1ca073be4a21749bc077eb1b2ff",
		"62e51e5ed86092437b9c6d1488d53133658586902fb7cf2447dab985ddebd36f3a2c2b09b2b944396cb87ee721bfaa5a187549965936ada7dbcd4d47ae01e3b67f61c9e84b62639e28596da322c33979"},
	{"L768N256",
		"992d5e7914fa531a9a4d27627a809639cb6ca2aa60d0de7afbeef08a21e9626d1b46385c135861f738229c4ae3e1ee04faabe052a6cdbef2638258243ff47f93cc56919f9f34520e8e779f45308facfb8c589d2d97544e68561c1ff1de06422b",
		"c101a9d8fb7da834f7dee6aac1bc098947ce892261220da0c16fc8d44a8ac487",
		"53d40d8f18635154d6855fbe89003526f214d083ffb9be7efbe02d484daf629dbaa82f29ab0fc71d05f861e5016d7b77826d520455f7eb347f4e81b6a3639f722665723b6ce74be4fa55f6ac3a7c92144324d4abc4a152f0cf0c49cc30b918da"},
	{"L512N163",
		"af3f18ac1eba11a76f591428e6d93e61b6506feb129762b5fbd0bacf036a35b03d9876cc7fcd76218fb0629ebf7aa9a3ad841c6636a63b1b5932bbbb13becab1",
		"653b9be29b4e16e863692f4b5566ce55913e884f7",
		"7bdae99885c1692f1dc8fa0f107a4441feb059d673a687392775f7c539ea515e430bd27f25808b907f53a9e8ce75293241ee77593ccd960e9bed1e95430a42a3"},
	{"L512N192",
		"b3581a94b4ffc752176540e2ade6545bb0d19f87f890ac64f4c2445298118b1a37a39e1d2e4c044b596edcdee614400ec39601109fbadd2b2026d106d10c9bcf",
		"e1fd8b9a6e3ec27b3f9d36fa7e42e5cafb7d1d602762a219",
		"660a3a3df333c299bd2025ec8f2c85be0cb132d21c7fcf74ee255cdbd85b02c6167b207fb6a61fff6172fcf8b3d708fd1a582d76e753878a6c57a81d7b6b9d6f"},
	{"L1024N384",
		"95b3ea588b0f039426573cdb70d3b716872f049e08477c682901edbe558a3dc84c79e47043143e905b00df50d09878b3d39db087ac7db2f2eb5511f8ac84c8ac031b7966a07581c93d0908cf47c7d54c8efd956eacdbf55ab8f0f028acd6496fdf03fad05d27a2b26e67b87da18455aeec629f3a3901e359760fd9280440e32f",
		"e1674f073b31a0a02eb6f28a9e44b11d9d52e04736eb5a4107348c0d14a113d70b36be05663611a71b6677a83fd7f903",
		"2745507c9854534433fc992753cf41045c2092a235dc307baac355ae6d6be9badc67571ab8cbec1469cf0471538250e824cd3e39fc75d8b6520467b7ab688241c72066af7308a70e67b565c6dfe0837e5628ec10ded258a46b446cb3d909106fc609c9cc92ccf3f1d1f8823a62df251070737ca19a7a1feca74aaabe82b5c615"},
	{"L512N16",
		"e4ea3f714551fd9e22a792220d3ccb4b35f8e616c315b134c0fae96a801421db715c4343b382d3554781747f75aa42698549f3098883c0a05c21b5cf736168af",
		"f3d7",
		"116ce6d250cd8d54f929fc466feb4115853ba0f53d0dfe947928fca42fc5e75279dc6af7bf7aaad86e299ad03174fbb425223fd56fa3a3537bc08445173b55e6"},
}

type dsaSet struct {
	name    string
	P, Q, G *big.Int
	quick   bool // also in the quick tier
	x509    bool // Q.BitLen() is a multiple of 8 and at least 160: usable through CheckSignatureFromKey with real digests
}

func dsaSets() []dsaSet {
	out := []dsaSet{{"L1024N160", c23.UnHx(dsaP), c23.UnHx(dsaQ), c23.UnHx(dsaG), true, true}}
	for _, h := range dsaParamHex {
		s := dsaSet{name: h[0], P: c23.UnHx(h[1]), Q: c23.UnHx(h[2]), G: c23.UnHx(h[3]), quick: h[0] != "L3072N256"}
		s.x509 = s.Q.BitLen()%8 == 0 && s.Q.BitLen() >= 160
		out = append(out, s)
	}
	return out
}

// detReader feeds a fixed byte string to dsa.Sign. Both zcrypto/dsa and crypto/dsa start with randutil.MaybeReadByte,
// which reads ONE byte with probability 1/2 before anything else; a one-byte read that is the very first read is
// answered without consuming anything, so that the stream the k loop sees (reads of Q.BitLen()/8 >= 2 bytes) is the
// same in every run and for both libraries. Later one-byte reads (io.ReadFull finishing a short read) are real.
type detReader struct {
	r       *bytes.Reader
	started bool
}

func newDet(b []byte) *detReader { return &detReader{r: bytes.NewReader(b)} }
func (d *detReader) Read(p []byte) (int, error) {
	first := !d.started
	d.started = true
	if first && len(p) == 1 {
		return 1, nil
	}
	return d.r.Read(p)
}

// skip1 is detReader's trick for any reader: one-byte reads (randutil.MaybeReadByte) consume nothing, so the generator's
// signatures are a function of the seed.
type skip1 struct{ r io.Reader }

func (s skip1) Read(p []byte) (int, error) {
	if len(p) == 1 {
		return 1, nil
	}
	return s.r.Read(p)
}

func dsaY(P, G, X *big.Int) *big.Int {
	if P.Sign() <= 0 || X.Sign() < 0 {
		return big.NewInt(1)
	}
	return new(big.Int).Exp(G, X, P)
}

// digestMuts: digests derived from dg that (for a group order of >= 160 bits) are different numbers mod q ...
func digestMuts(dg []byte) (differ [][]byte, same [][]byte) {
	if len(dg) > 0 {
		a := append([]byte{}, dg...)
		a[len(a)-1] ^= 1
		b := append([]byte{}, dg...)
		b[0] ^= 0x80
		differ = append(differ, a, b)
		if len(dg) > 1 {
			differ = append(differ, dg[:len(dg)-1]) // a digest cut by one byte is another number (unless it was all zero)
		}
	}
	differ = append(differ, append(append([]byte{}, dg...), 1))
	same = append(same, append([]byte{0}, dg...)) // ... and one that is the same number
	return
}

func allZero(b []byte) bool {
	for _, x := range b {
		if x != 0 {
			return false
		}
	}
	return true
}

func lenClass(dg []byte, q *big.Int) string {
	n := (q.BitLen() + 7) / 8
	switch {
	case len(dg) > n:
		return "digest>q"
	case len(dg) < n:
		return "digest<q"
	}
	return "digest=q"
}

// execDSASign: c03 dsasign P Q G X digest rnd
func execDSASign(a []string, tags []string) zv.Out {
	P, Q, G, X := c23.UnHx(a[0]), c23.UnHx(a[1]), c23.UnHx(a[2]), c23.UnHx(a[3])
	dg, rnd := zv.UnHex(a[4]), zv.UnHex(a[5])
	Y := dsaY(P, G, X)
	priv := &dsa.PrivateKey{PublicKey: dsa.PublicKey{Parameters: dsa.Parameters{P: P, Q: Q, G: G}, Y: Y}, X: X}
	spriv := &cdsa.PrivateKey{PublicKey: cdsa.PublicKey{Parameters: cdsa.Parameters{P: P, Q: Q, G: G}, Y: Y}, X: X}
	tags = append(tags, fmt.Sprintf("N=%d", Q.BitLen()), fmt.Sprintf("L=%d", P.BitLen()), lenClass(dg, Q), fmt.Sprintf("dlen=%d", len(dg)))
	r, s, err := dsa.Sign(newDet(rnd), priv, dg)
	out := "err"
	if err == nil {
		out = "ok " + r.Text(16) + " " + s.Text(16)
	}
	viol := ""
	fail := func(f string, x ...any) {
		if viol == "" {
			viol = fmt.Sprintf(f, x...)
		}
	}
	r2, s2, err2 := cdsa.Sign(newDet(rnd), spriv, dg)
	if (err == nil) != (err2 == nil) {
		fail("dsa.Sign (N=%d, %d-byte digest): zcrypto says %v, crypto/dsa on the same random stream says %v", Q.BitLen(), len(dg), err, err2)
	} else if err == nil && (r.Cmp(r2) != 0 || s.Cmp(s2) != 0) {
		fail("dsa.Sign (N=%d, %d-byte digest): zcrypto's (r,s) differs from crypto/dsa's on the same key, digest and random stream", Q.BitLen(), len(dg))
	}
	if err != nil {
		return zv.Out{Go: out, Viol: viol, Tags: append(tags, "sign=err")}
	}
	tags = append(tags, "sign=ok")
	if !dsa.Verify(&priv.PublicKey, dg, r, s) {
		fail("dsa.Verify rejects the signature dsa.Sign just made (N=%d, %d-byte digest)", Q.BitLen(), len(dg))
	}
	if !cdsa.Verify(&spriv.PublicKey, dg, r, s) {
		fail("crypto/dsa.Verify rejects the signature zcrypto's dsa.Sign made (N=%d, %d-byte digest)", Q.BitLen(), len(dg))
	}
	differ, same := digestMuts(dg)
	for _, d2 := range append(differ, same...) {
		if v, v2 := dsa.Verify(&priv.PublicKey, d2, r, s), cdsa.Verify(&spriv.PublicKey, d2, r, s); v != v2 {
			fail("dsa.Verify of a genuine signature against the changed digest %x: zcrypto %v, crypto/dsa %v", d2, v, v2)
		}
	}
	if Q.BitLen() >= 160 && !allZero(dg) {
		for _, d2 := range differ {
			if dsa.Verify(&priv.PublicKey, d2, r, s) {
				fail("dsa.Verify accepts a genuine signature for the different digest %x (signed: %x)", d2, dg)
			}
		}
	}
	return zv.Out{Go: out, Viol: viol, Tags: tags}
}

// execDSAVer: c03 dsaver P Q G Y digest r s
func execDSAVer(a []string, tags []string) zv.Out {
	P, Q, G, Y := c23.UnHx(a[0]), c23.UnHx(a[1]), c23.UnHx(a[2]), c23.UnHx(a[3])
	dg, r, s := zv.UnHex(a[4]), c23.UnHx(a[5]), c23.UnHx(a[6])
	v := dsa.Verify(&dsa.PublicKey{Parameters: dsa.Parameters{P: P, Q: Q, G: G}, Y: Y}, dg, r, s)
	v2 := cdsa.Verify(&cdsa.PublicKey{Parameters: cdsa.Parameters{P: P, Q: Q, G: G}, Y: Y}, dg, r, s)
	out := "0"
	if v {
		out = "1"
	}
	tags = append(tags, fmt.Sprintf("N=%d", Q.BitLen()), lenClass(dg, Q), "verdict="+out)
	viol := ""
	if v != v2 {
		viol = fmt.Sprintf("dsa.Verify (N=%d, %d-byte digest): zcrypto says %v, crypto/dsa says %v", Q.BitLen(), len(dg), v, v2)
	}
	return zv.Out{Go: out, Viol: viol, Tags: tags}
}

var dsaHashes = []crypto.Hash{crypto.SHA1, crypto.SHA224, crypto.SHA256, crypto.SHA384, crypto.SHA512}

// genDSA: every parameter set x every digest length (the five SHA digests of a random message, and raw lengths around
// the byte length of q), signed by zcrypto (dsasign lines) and by crypto/dsa (dsaver lines: zcrypto must accept what
// the standard signer makes, and judge every changed digest / (r,s) as the standard verifier does).
func genDSA(g *zv.Gen) {
	r := g.Rng
	for _, ps := range dsaSets() {
		if g.Quick && !ps.quick {
			continue
		}
		n := (ps.Q.BitLen() + 7) / 8
		pa := fmt.Sprintf("%s %s %s", c23.Hx(ps.P), c23.Hx(ps.Q), c23.Hx(ps.G))
		qm1 := new(big.Int).Sub(ps.Q, big.NewInt(1))
		for round := 0; round < g.N(1, 6); round++ {
			x := new(big.Int).SetBytes(r.Bytes(n + 8))
			x.Mod(x, qm1)
			x.Add(x, big.NewInt(1))
			y := dsaY(ps.P, ps.G, x)
			spriv := &cdsa.PrivateKey{PublicKey: cdsa.PublicKey{Parameters: cdsa.Parameters{P: ps.P, Q: ps.Q, G: ps.G}, Y: y}, X: x}
			var digests [][]byte
			msg := r.Bytes(1 + r.Intn(100))
			for _, h := range dsaHashes {
				hh := h.New()
				hh.Write(msg)
				digests = append(digests, hh.Sum(nil))
			}
			for _, l := range []int{0, 1, n - 1, n, n + 1, 2 * n, 2*n + 1, 100} {
				if l >= 0 {
					digests = append(digests, r.Bytes(l))
				}
			}
			lead := r.Bytes(n)
			lead[0] |= 0x80
			digests = append(digests, append(lead, r.Bytes(n)...), make([]byte, n), append(bytes.Repeat([]byte{0xff}, n), 0xff)) // top bit set / zero / all ones
			for di, dg := range digests {
				rnd := r.Bytes(12 * n)
				switch di % 9 {
				case 1:
					copy(rnd, qm1.FillBytes(make([]byte, n))) // k = q-1: the largest admissible k
				case 2:
					copy(rnd, big.NewInt(1).FillBytes(make([]byte, n))) // k = 1: the smallest (r = g mod q)
				case 3:
					copy(rnd, make([]byte, n)) // k = 0: redraw
				case 5:
					copy(rnd, bytes.Repeat([]byte{0xff}, n)) // k >= q: redraw
				case 6:
					copy(rnd, ps.Q.FillBytes(make([]byte, n))) // k = q exactly: redraw
				case 8:
					// twelve times k = q before a good k: the inner loop redraws WITHOUT using up one of the ten attempts
					// (a loop that lets k = q through gets s = 0 each time and runs out of attempts)
					rnd = nil
					for i := 0; i < 12; i++ {
						rnd = append(rnd, ps.Q.FillBytes(make([]byte, n))...)
					}
					rnd = append(rnd, r.Bytes(12*n)...)
				case 7:
					rnd = rnd[:n-1+r.Intn(2)*(n/2)] // the reader runs dry (in the first read, or in a redraw)
					if len(rnd) >= n {
						copy(rnd, make([]byte, n))
					}
				}
				g.Emitf("c03 dsasign %s %s %s %s", pa, c23.Hx(x), zv.Hex(dg), zv.Hex(rnd))
				rv, sv, err := cdsa.Sign(newDet(r.Bytes(12*n)), spriv, dg)
				if err != nil {
					continue
				}
				va := func(d []byte, rr, ss *big.Int) {
					g.Emitf("c03 dsaver %s %s %s %s %s", pa, c23.Hx(y), zv.Hex(d), c23.Hx(rr), c23.Hx(ss))
				}
				va(dg, rv, sv)
				differ, same := digestMuts(dg)
				for _, d2 := range append(differ, same...) {
					va(d2, rv, sv)
				}
				if len(dg) > n {
					va(dg[:n], rv, sv) // the FIPS 186-3 truncation, which neither library performs
				}
				switch di % 4 {
				case 0:
					va(dg, new(big.Int).Add(rv, ps.Q), sv)
					va(dg, rv, new(big.Int).Sub(ps.Q, sv))
				case 1:
					va(dg, rv, new(big.Int).Add(sv, ps.Q))
					va(dg, sv, rv)
				case 2:
					va(dg, big.NewInt(0), sv)
					va(dg, rv, big.NewInt(0))
					va(dg, new(big.Int).Neg(rv), sv)
				case 3:
					va(dg, ps.Q, sv)
					va(dg, rv, new(big.Int).Neg(sv))
					va(dg, new(big.Int).Add(rv, big.NewInt(1)), sv)
				}
			}
			// malformed private keys / parameters: Sign must refuse as crypto/dsa does
			dg := digests[2]
			for _, bad := range []string{
				fmt.Sprintf("%s %s %s 0", c23.Hx(ps.P), c23.Hx(ps.Q), c23.Hx(ps.G)),
				fmt.Sprintf("0 %s %s %s", c23.Hx(ps.Q), c23.Hx(ps.G), c23.Hx(x)),
				fmt.Sprintf("%s 0 %s %s", c23.Hx(ps.P), c23.Hx(ps.G), c23.Hx(x)),
				fmt.Sprintf("%s %s 0 %s", c23.Hx(ps.P), c23.Hx(ps.Q), c23.Hx(x)),
				fmt.Sprintf("%s %s %s %s", c23.Hx(ps.P), c23.Hx(new(big.Int).Rsh(ps.Q, 1)), c23.Hx(ps.G), c23.Hx(big.NewInt(5))),
			} {
				g.Emitf("c03 dsasign %s %s %s", bad, zv.Hex(dg), zv.Hex(r.Bytes(12*n)))
			}
		}
	}
}
