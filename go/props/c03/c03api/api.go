// Package c03api: one helper per creation API of zcrypto (certificate, CSR, legacy CRL, revocation list, OCSP response):
// create with the library, parse with the library, verify with the library's own verification API.
// Shared by the C03 harness (T3) and the C03 extractor (T1: which scheme the API actually signs with).
package c03api

import (
	"crypto"
	"crypto/rand"
	"errors"
	"io"
	"math/big"
	"time"

	zrsa "github.com/zmap/zcrypto/rsa"
	"github.com/zmap/zcrypto/x509"
	"github.com/zmap/zcrypto/x509/pkix"
	"github.com/zmap/zcrypto/x509/revocation/ocsp"
)

var APIs = []string{"cert", "csr", "crl", "rl", "ocsp"}

// Recorder wraps a signer and remembers how it was asked to sign.
type Recorder struct {
	Inner  crypto.Signer
	Called bool
	PSS    bool
	Hash   crypto.Hash
	Digest []byte
	Sig    []byte
}

func (r *Recorder) Public() crypto.PublicKey { return r.Inner.Public() }
func (r *Recorder) Sign(rnd io.Reader, digest []byte, opts crypto.SignerOpts) ([]byte, error) {
	r.Called = true
	_, r.PSS = opts.(*zrsa.PSSOptions)
	r.Hash = opts.HashFunc()
	r.Digest = append([]byte{}, digest...)
	sig, err := r.Inner.Sign(rnd, digest, opts)
	r.Sig = sig
	return sig, err
}

// Made is a created-and-parsed object.
type Made struct {
	DER     []byte
	Written x509.SignatureAlgorithm // algorithm identifier found in the object by the library's parser
	TBS     []byte
	Sig     []byte
	Verify  func() error // the object's own verification API
}

var t0 = time.Date(2024, 1, 1, 0, 0, 0, 0, time.UTC)

func caTemplate(algo x509.SignatureAlgorithm) *x509.Certificate {
	return &x509.Certificate{
		SerialNumber: big.NewInt(7), Subject: pkix.Name{CommonName: "zv c03"},
		NotBefore: t0, NotAfter: t0.AddDate(10, 0, 0), IsCA: true, BasicConstraintsValid: true,
		KeyUsage: x509.KeyUsageCertSign | x509.KeyUsageCRLSign | x509.KeyUsageDigitalSignature, SubjectKeyId: []byte{1, 2, 3, 4},
		SignatureAlgorithm: algo,
	}
}

// Issuer creates (default algorithm) and parses a self-signed CA certificate for key.
func Issuer(key crypto.Signer) (*x509.Certificate, error) {
	t := caTemplate(0)
	der, err := x509.CreateCertificate(rand.Reader, t, t, key.Public(), key)
	if err != nil {
		return nil, err
	}
	return x509.ParseCertificate(der)
}

var ErrCreate = errors.New("creation API refused")

// Make runs one creation API with the requested algorithm; a creation error is returned wrapped in ErrCreate.
func Make(api string, algo x509.SignatureAlgorithm, key crypto.Signer, issuer *x509.Certificate) (*Made, error) {
	ce := func(err error) error { return errors.Join(ErrCreate, err) }
	switch api {
	case "cert":
		t := caTemplate(algo)
		der, err := x509.CreateCertificate(rand.Reader, t, t, key.Public(), key)
		if err != nil {
			return nil, ce(err)
		}
		c, err := x509.ParseCertificate(der)
		if err != nil {
			return nil, err
		}
		return &Made{DER: der, Written: c.SignatureAlgorithm, TBS: c.RawTBSCertificate, Sig: c.Signature,
			Verify: func() error { return c.CheckSignatureFrom(c) }}, nil
	case "csr":
		der, err := x509.CreateCertificateRequest(rand.Reader, &x509.CertificateRequest{Subject: pkix.Name{CommonName: "zv csr"}, SignatureAlgorithm: algo}, key)
		if err != nil {
			return nil, ce(err)
		}
		c, err := x509.ParseCertificateRequest(der)
		if err != nil {
			return nil, err
		}
		return &Made{DER: der, Written: c.SignatureAlgorithm, TBS: c.RawTBSCertificateRequest, Sig: c.Signature, Verify: c.CheckSignature}, nil
	case "crl":
		if algo != 0 {
			return nil, ce(errors.New("CreateCRL has no algorithm parameter"))
		}
		der, err := issuer.CreateCRL(rand.Reader, key, nil, t0, t0.AddDate(0, 1, 0))
		if err != nil {
			return nil, ce(err)
		}
		l, err := x509.ParseDERCRL(der)
		if err != nil {
			return nil, err
		}
		return &Made{DER: der, Written: x509.GetSignatureAlgorithmFromAI(l.SignatureAlgorithm), TBS: l.TBSCertList.Raw, Sig: l.SignatureValue.RightAlign(),
			Verify: func() error { return issuer.CheckCRLSignature(l) }}, nil
	case "rl":
		der, err := x509.CreateRevocationList(rand.Reader, &x509.RevocationList{SignatureAlgorithm: algo, Number: big.NewInt(1), ThisUpdate: t0, NextUpdate: t0.AddDate(0, 1, 0)}, issuer, key)
		if err != nil {
			return nil, ce(err)
		}
		l, err := x509.ParseRevocationList(der)
		if err != nil {
			return nil, err
		}
		return &Made{DER: der, Written: l.SignatureAlgorithm, TBS: l.RawTBSRevocationList, Sig: l.Signature,
			Verify: func() error { return l.CheckSignatureFrom(issuer) }}, nil
	case "ocsp":
		der, err := ocsp.CreateResponse(issuer, issuer, ocsp.Response{Status: ocsp.Good, SerialNumber: big.NewInt(9), ThisUpdate: t0, NextUpdate: t0.AddDate(0, 0, 7), SignatureAlgorithm: algo}, key)
		if err != nil {
			return nil, ce(err)
		}
		r, err := ocsp.ParseResponse(der, nil)
		if err != nil {
			return nil, err
		}
		return &Made{DER: der, Written: r.SignatureAlgorithm, TBS: r.TBSResponseData, Sig: r.Signature,
			Verify: func() error { return r.CheckSignatureFrom(issuer) }}, nil
	}
	return nil, errors.New("unknown api " + api)
}
