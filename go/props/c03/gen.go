package c03

import (
	"crypto"
	"crypto/ecdsa"
	"crypto/ed25519"
	"crypto/elliptic"
	"fmt"
	"math/big"
	"strings"

	"github.com/zmap/zcrypto/dsa"
	zrsa "github.com/zmap/zcrypto/rsa"

	"zv/internal/zv"
	"zv/props/c03/c03api"
	"zv/props/c23"
)

type signer struct {
	keyArgs string                                 // five fields
	altArgs []string                               // same key under another Go type (aug) / another key of the same kind
	sign    func(algo int, msg []byte) []byte      // genuine signature under `algo` (nil if not applicable)
	rsa     *c23.Key                               // RSA: the private key, for forgeries that need it
	algos   []int                                  // algorithms this key can sign
	q       *big.Int                               // group order for DER signatures (nil for RSA/Ed25519)
	rounds  int                                    // 0 = the default number of rounds
}

func flipBit(r *zv.Rng, b []byte) []byte {
	c := append([]byte{}, b...)
	if len(c) == 0 {
		return []byte{1}
	}
	c[r.Intn(len(c))] ^= 1 << uint(r.Intn(8))
	return c
}

func emit(g *zv.Gen, keyArgs string, algo int, msg, sig []byte) { emitOp(g, "csfk", keyArgs, algo, msg, sig) }

// emitGenuine: the signature was made by the library's own signer with the matching key over exactly msg under algo.
func emitGenuine(g *zv.Gen, keyArgs string, algo int, msg, sig []byte) {
	emitOp(g, "csfkg", keyArgs, algo, msg, sig)
}

func emitOp(g *zv.Gen, op, keyArgs string, algo int, msg, sig []byte) {
	o := 0
	if oracle(strings.Fields(keyArgs), algo, msg, sig) {
		o = 1
	}
	g.Emitf("c03 %s %s %d %s %s %d", op, keyArgs, algo, zv.Hex(msg), zv.Hex(sig), o)
}

func gen(g *zv.Gen) {
	r := g.Rng
	// ---- API sweep (T3): every api x algorithm x key type, then bit flips of TBS / signature
	for _, api := range c03api.APIs {
		for _, kt := range []string{"rsa", "ecdsa-p256", "ecdsa-p384", "ed25519"} {
			for a := 0; a <= 17; a++ {
				g.Emitf("c03 api %s %d %s none", api, a, kt)
				for j := 0; j < g.N(2, 20); j++ {
					g.Emitf("c03 api %s %d %s t%d", api, a, kt, r.Intn(1<<30))
					g.Emitf("c03 api %s %d %s s%d", api, a, kt, r.Intn(1<<30))
				}
			}
		}
	}

	// ---- keys for CheckSignatureFromKey
	var signers []signer
	for i, sp := range []struct {
		bits, np int
		e        string
	}{{1280, 2, "65537"}, {1536, 3, "large"}, {2048, 2, "3"},
		// modulus bit lengths = 1..7 mod 8 (1 mod 8: the PSS representative has a whole leading octet that must be zero)
		{1025, 2, "65537"}, {1281, 2, "3"}, {1031, 2, "65537"}, {2049, 2, "65537"}, {1545, 3, "large"}, {1028, 2, "3"}} {
		if (i == 2 || i >= 6) && g.Quick {
			continue
		}
		k := c23.GenKey(r.Fork(), sp.bits, sp.np, sp.e, false)
		k2 := c23.GenKey(r.Fork(), sp.bits, 2, "65537", false)
		priv := c23.ParsePriv(strings.Fields(k.PrivArgs("-")))
		rr := r.Fork()
		var algos []int
		for _, a := range []int{2, 3, 4, 5, 6, 13, 14, 15} {
			// RSASSA-PSS with sLen = hLen needs emLen >= 2*hLen+2 (SHA-512: a modulus of at least 1033 bits)
			if sa := stdAlgo[a]; !sa.pss || (sp.bits-1+7)/8 >= 2*sa.h.Size()+2 {
				algos = append(algos, a)
			}
		}
		signers = append(signers, signer{
			rsa:     k,
			keyArgs: "rsa " + k.PubArgs() + " - -", altArgs: []string{"rsa " + k2.PubArgs() + " - -"},
			algos: algos,
			sign: func(algo int, msg []byte) []byte {
				sa := stdAlgo[algo]
				var sig []byte
				var err error
				if sa.pss {
					sig, err = zrsa.SignPSS(rr, priv, sa.h, digestFor(algo, msg), &zrsa.PSSOptions{SaltLength: zrsa.PSSSaltLengthEqualsHash})
				} else {
					sig, err = zrsa.SignPKCS1v15(nil, priv, sa.h, digestFor(algo, msg))
				}
				if err != nil {
					panic(err)
				}
				return sig
			}})
	}
	// DSA: every parameter set with a group order of 160 / 224 / 256 (/ 192 / 384) bits, DSAWithSHA1 and DSAWithSHA256:
	// the digest is shorter than, as long as, and longer than q
	for si, ps := range dsaSets() {
		if !ps.x509 || (g.Quick && !ps.quick) {
			continue
		}
		params := dsa.Parameters{P: ps.P, Q: ps.Q, G: ps.G}
		mk := func() (*dsa.PrivateKey, string) {
			x := new(big.Int).SetBytes(r.Bytes(ps.Q.BitLen()/8 + 4))
			x.Mod(x, new(big.Int).Sub(params.Q, big.NewInt(1)))
			x.Add(x, big.NewInt(1))
			pk := &dsa.PrivateKey{PublicKey: dsa.PublicKey{Parameters: params, Y: new(big.Int).Exp(params.G, x, params.P)}, X: x}
			return pk, fmt.Sprintf("dsa %s %s %s %s", c23.Hx(ps.P), c23.Hx(ps.Q), c23.Hx(ps.G), c23.Hx(pk.Y))
		}
		pk, args := mk()
		_, args2 := mk()
		rr := r.Fork()
		sg := signer{keyArgs: args, altArgs: []string{args2}, algos: []int{7, 8}, q: params.Q,
			sign: func(algo int, msg []byte) []byte {
				rv, sv, err := dsa.Sign(skip1{rr}, pk, digestFor(algo, msg))
				if err != nil {
					panic(err)
				}
				return encSig(rv, sv)
			}}
		if si > 0 {
			sg.rounds = g.N(1, 6)
		}
		signers = append(signers, sg)
	}
	// ECDSA P-256 / P-384, as *ecdsa.PublicKey and as *AugmentedECDSA
	for _, c := range []struct {
		name  string
		curve elliptic.Curve
	}{{"p256", elliptic.P256()}, {"p384", elliptic.P384()}} {
		mk := func() *ecdsa.PrivateKey {
			n := c.curve.Params().N
			d := new(big.Int).SetBytes(r.Bytes(n.BitLen()/8 + 8))
			d.Mod(d, new(big.Int).Sub(n, big.NewInt(1)))
			d.Add(d, big.NewInt(1))
			x, y := c.curve.ScalarBaseMult(d.Bytes())
			return &ecdsa.PrivateKey{PublicKey: ecdsa.PublicKey{Curve: c.curve, X: x, Y: y}, D: d}
		}
		k, k2 := mk(), mk()
		ka := func(kind string, kk *ecdsa.PrivateKey) string {
			return fmt.Sprintf("%s %s %s %s -", kind, c.name, c23.Hx(kk.X), c23.Hx(kk.Y))
		}
		rr := r.Fork()
		sg := func(algo int, msg []byte) []byte {
			rv, sv, err := ecdsa.Sign(rr, k, digestFor(algo, msg))
			if err != nil {
				panic(err)
			}
			return encSig(rv, sv)
		}
		signers = append(signers, signer{keyArgs: ka("ecdsa", k), altArgs: []string{ka("aug", k), ka("ecdsa", k2)}, algos: []int{9, 10, 11, 12}, q: c.curve.Params().N, sign: sg})
		signers = append(signers, signer{keyArgs: ka("aug", k), altArgs: []string{ka("ecdsa", k), ka("aug", k2)}, algos: []int{9, 10, 11, 12}, q: c.curve.Params().N, sign: sg})
	}
	// Ed25519
	{
		priv := ed25519.NewKeyFromSeed(r.Bytes(32))
		priv2 := ed25519.NewKeyFromSeed(r.Bytes(32))
		signers = append(signers, signer{keyArgs: "ed " + zv.Hex(priv.Public().(ed25519.PublicKey)) + " - - -",
			altArgs: []string{"ed " + zv.Hex(priv2.Public().(ed25519.PublicKey)) + " - - -"}, algos: []int{16},
			sign: func(algo int, msg []byte) []byte { return ed25519.Sign(priv, msg) }})
	}

	genDSA(g)
	genSign(g)
	// key types outside the type switch of CheckSignatureFromKey: rejected under every algorithm, whatever the signature
	for _, ok := range []string{"stdrsa", "ecdsaval", "nil"} {
		for a := 0; a <= 17; a++ {
			emit(g, "other "+ok+" - - -", a, r.Bytes(1+r.Intn(40)), r.Bytes(r.Intn(80)))
		}
	}

	for _, s := range signers {
		rounds := g.N(3, 30)
		if s.rounds > 0 {
			rounds = s.rounds
		}
		for _, algo := range s.algos {
			for round := 0; round < rounds; round++ {
				msg := r.Bytes(1 + r.Intn(200))
				sig := s.sign(algo, msg)
				emitGenuine(g, s.keyArgs, algo, msg, sig) // genuine: must be accepted
				// changed message
				emit(g, s.keyArgs, algo, flipBit(r, msg), sig)
				emit(g, s.keyArgs, algo, append(append([]byte{}, msg...), 0), sig)
				emit(g, s.keyArgs, algo, msg[:len(msg)-1], sig)
				// changed key
				for _, alt := range s.altArgs {
					emit(g, alt, algo, msg, sig)
				}
				// changed claimed algorithm: all of them
				if round == 0 {
					for a := 0; a <= 17; a++ {
						emit(g, s.keyArgs, a, msg, sig)
					}
				} else {
					emit(g, s.keyArgs, r.Intn(18), msg, sig)
				}
				// changed signature: generic byte-level mutations
				for j := 0; j < 4; j++ {
					emit(g, s.keyArgs, algo, msg, flipBit(r, sig))
				}
				emit(g, s.keyArgs, algo, msg, sig[:len(sig)-1])
				emit(g, s.keyArgs, algo, msg, append(append([]byte{}, sig...), byte(r.Intn(256))))
				emit(g, s.keyArgs, algo, msg, append([]byte{0}, sig...))
				emit(g, s.keyArgs, algo, msg, nil)
				if s.rsa != nil {
					// signatures only the key holder can make and every verifier must reject (see c23.Forgeries): roots of
					// EM + 2^(bits-1) (PSS: the must-be-zero top bit, a whole leading octet when bits = 1 mod 8), of EM with
					// one structural defect, s + j*n, n - s, zero-extended. For PSS the salt decides whether the first one
					// exists (EM + 2^(bits-1) < n): redraw a few times.
					pss := stdAlgo[algo].pss
					fgs := c23.Forgeries(r, s.rsa, sig, pss)
					for try := 0; pss && try < 6 && (len(fgs) == 0 || fgs[0].Kind != "rep+2^(bits-1)"); try++ {
						if f2 := c23.Forgeries(r, s.rsa, s.sign(algo, msg), true); len(f2) > 0 && f2[0].Kind == "rep+2^(bits-1)" {
							fgs = append(f2[:1], fgs...)
						}
					}
					for _, fg := range fgs {
						emit(g, s.keyArgs, algo, msg, fg.Sig)
					}
				}
				if s.q == nil {
					continue
				}
				// DER-level mutations of (r, s)
				rv, sv, ok := strictSig(sig)
				if !ok {
					panic("generated signature is not strict DER")
				}
				body := append(encInt(rv), encInt(sv)...)
				third := encInt(big.NewInt(int64(r.Intn(1000))))
				neg := func(v *big.Int) []byte { // same magnitude bytes, top bit forced: a negative INTEGER
					b := v.Bytes()
					b[0] |= 0x80
					return append(encLen(0x02, len(b)), b...)
				}
				pad := func(v *big.Int) []byte { // non-minimal: extra leading 00
					b := append([]byte{0, 0}, v.Bytes()...)
					if v.Bytes()[0]&0x80 == 0 {
						b = b[1:]
					}
					return append(encLen(0x02, len(b)), b...)
				}
				muts := [][]byte{
					encSig(rv, sv, third),                                                  // third INTEGER inside the SEQUENCE (D19)
					encSig(rv, sv, []byte{0x05, 0x00}),                                     // NULL inside
					append(encSig(rv, sv), third...),                                       // element after the SEQUENCE (D18)
					append(encSig(rv, sv), 0),                                              // one trailing byte (D18)
					append([]byte{0x30, 0x81, byte(len(body))}, body...),                   // non-minimal / long-form length
					append([]byte{0x30, 0x80}, append(body, 0, 0)...),                      // indefinite length
					append(encLen(0x30, len(body)+1), body...),                             // length one too long
					append(encLen(0x30, len(body)-1), body...),                             // length one too short (last byte becomes trailing)
					append(encLen(0x31, len(body)), body...),                               // SET instead of SEQUENCE
					append(encLen(0x10, len(body)), body...),                               // primitive SEQUENCE tag
					append(encLen(0x30, len(neg(rv))+len(encInt(sv))), append(neg(rv), encInt(sv)...)...), // negative r
					append(encLen(0x30, len(pad(rv))+len(encInt(sv))), append(pad(rv), encInt(sv)...)...), // non-minimal r
					append(encLen(0x30, len(encInt(rv))+len(pad(sv))), append(encInt(rv), pad(sv)...)...), // non-minimal s
					encSig(big.NewInt(0), sv), encSig(rv, big.NewInt(0)),                   // zero
					encSig(new(big.Int).Add(rv, s.q), sv), encSig(rv, new(big.Int).Add(sv, s.q)), // out of range (same residue)
					encSig(rv, new(big.Int).Sub(s.q, sv)),                                  // (r, q-s): valid for ECDSA, not for DSA
					encSig(sv, rv),                                                         // swapped
					encSig(s.q, sv),
					append(encLen(0x30, len(encInt(rv))), encInt(rv)...),                   // only one INTEGER
					{0x30, 0x00}, {0x30}, {0x02, 0x01, 0x01},
					append(encLen(0x30, 2+len(encInt(sv))), append([]byte{0x02, 0x00}, encInt(sv)...)...), // empty INTEGER
				}
				for _, m := range muts {
					emit(g, s.keyArgs, algo, msg, m)
				}
			}
		}
	}
	_ = crypto.SHA256
}
