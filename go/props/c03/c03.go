// Package c03: signature verification (x509.CheckSignatureFromKey and the creation APIs' sign/verify agreement).
package c03

import (
	"bytes"
	"crypto"
	cdsa "crypto/dsa"
	"crypto/ecdsa"
	"crypto/ed25519"
	"crypto/elliptic"
	"crypto/rand"
	crsa "crypto/rsa"
	"crypto/x509/pkix"
	"encoding/hex"
	"errors"
	"fmt"
	"math/big"
	"strconv"
	"strings"
	"sync"

	"github.com/zmap/zcrypto/dsa"
	zasn1 "github.com/zmap/zcrypto/encoding/asn1"
	zrsa "github.com/zmap/zcrypto/rsa"
	"github.com/zmap/zcrypto/x509"

	"zv/internal/zv"
	"zv/props/c03/c03api"
	"zv/props/c23"
)

var _ = pkix.Name{}

func init() {
	zv.Register(&zv.Prop{ID: "C03", Topic: "c03", Gen: gen, Exec: exec,
		Rule: "sparams: both signingParamsForPublicKey (x509, ocsp; through verif hooks) for every (key label in {RSA, ECDSA P-224/P-256/P-384/P-521, ECDSA on an unnamed curve, Ed25519, DSA, nil}, requested algorithm 0..19, 255, one large value): hash, OID, parameters, the algorithm GetSignatureAlgorithmFromAI / getSignatureAlgorithmFromOID reads back and the options a recording crypto.Signer receives from the REAL CreateCertificate / CreateCertificateRequest / CreateRevocationList / ocsp.CreateResponse = the Lean model; T3: the APIs refuse exactly what the function refuses, their parsers read back the same algorithm, the signer is asked for the standard scheme of that algorithm, the object verifies; sigai / sigoid: GetSignatureAlgorithmFromAI on every table OID and near misses x {absent, NULL, rsaPSSParameters(SHA-256/384/512)} and ocsp getSignatureAlgorithmFromOID = model; csfk with a key of a Go type outside the type switch (crypto/rsa key, ecdsa key by value, nil) under all 18 algorithms; dsa: zcrypto/dsa.Sign and Verify for every (parameter set with N = 160/224/256 and L = 512..3072, plus N = 16/192/384 and an N = 163 set Sign must refuse; digest = SHA-1/224/256/384/512 of a message and raw lengths 0, 1, n-1, n, n+1, 2n, 2n+1, 100 around the byte length n of q, top bit set, all zero, all ones) on a fixed random stream (incl. k = 0 / k >= q redraws and a reader running dry): same (r,s) as crypto/dsa and as the Lean model, own and standard verifier accept it and reject every changed digest; signatures made by crypto/dsa and their mutations (digest changed / truncated to n bytes / zero-extended, r+q, q-s, s+q, swapped, zero, negative) through zcrypto's Verify = crypto/dsa's verdict = model; csfkg lines: every genuine signature of the csfk stream (made by the library's own signers: zcrypto/rsa, zcrypto/dsa over all N = 160/224/256 sets with DSAWithSHA1 and DSAWithSHA256, crypto/ecdsa, ed25519) must be ACCEPTED by CheckSignatureFromKey; api: every (creation API in {CreateCertificate, CreateCertificateRequest, CreateCRL, CreateRevocationList, ocsp.CreateResponse}, SignatureAlgorithm 0..17, key in {RSA, ECDSA P-256/P-384, Ed25519}) create -> parse -> own verification API, plus verification after mutating the signed bytes / signature; csfk: x509.CheckSignatureFromKey on genuine signatures (RSA 1280/1536/2048 and moduli of 1025/1281/1031/2049/1545/1028 bits, i.e. bit length = 1..7 mod 8, PKCS#1 v1.5 and PSS per hash, DSA L1024N160, ECDSA P-256/P-384 as *ecdsa.PublicKey and as *AugmentedECDSA, Ed25519) and on mutations of message, signature (bit flips, truncation, extension, RSA forgeries made with the private key: roots of EM + 2^(modBits-1) (must-be-zero top bit / leading octet of the PSS representative), of EM + j*256^(k-1) and of structurally damaged EM, s + j*n, n - s, zero-extended; DER re-encodings: trailing bytes, third INTEGER, non-minimal lengths/integers, negative/zero r,s), key and claimed algorithm (all 18 values); a case is one distinct line; T3 = strict reference verifiers (own strict DER reader + crypto/ecdsa.VerifyASN1 / crypto/dsa.Verify / crypto/rsa (directly, wherever its key limits allow) / ed25519.Verify)"})
}

const (
	dsaP = "8b90eaabab4020e0db52bceec22154c4021f87af3ba08b327f929778687ac28fd81d9591261f201d9b915f782f3c73f5c38556727abd70cad9a5fc6366f9a914285730647fecdef785f20cbcdff18bbccc52a63543906bbfdfeea6153a5494222e55547448f9c8ee72397deb1f0528db52a94fefc53bfc62198c10791d15cc6b"
	dsaQ = "a7d526bea35dee65cc8373700bb7b1eaeb351487"
	dsaG = "4623ab400a453313f5c9292fc65d3bddd4224d75ed8d65046a9d35c553c644c65ffd7d8c3631328cf8d9ff918107c3b59313e7ac0a5c0b21692b93b2912e0032f268121b62abc5592fc8d1e1f1d3938adcfaeca629c7df5a3be299af4b6b2debd417ee66a12928c92affd1844fdbaaf23dc166254997b29a91e9b4a49e26eeda"
)

// the standard reading of the algorithm identifiers (independent of zcrypto's switch): hash and family
var stdAlgo = map[int]struct {
	h   crypto.Hash
	fam string
	pss bool
}{
	2: {crypto.MD5, "rsa", false}, 3: {crypto.SHA1, "rsa", false}, 4: {crypto.SHA256, "rsa", false}, 5: {crypto.SHA384, "rsa", false}, 6: {crypto.SHA512, "rsa", false},
	7: {crypto.SHA1, "dsa", false}, 8: {crypto.SHA256, "dsa", false},
	9: {crypto.SHA1, "ecdsa", false}, 10: {crypto.SHA256, "ecdsa", false}, 11: {crypto.SHA384, "ecdsa", false}, 12: {crypto.SHA512, "ecdsa", false},
	13: {crypto.SHA256, "rsa", true}, 14: {crypto.SHA384, "rsa", true}, 15: {crypto.SHA512, "rsa", true}, 16: {0, "ed25519", false},
}

func digestFor(algo int, msg []byte) []byte {
	a, ok := stdAlgo[algo]
	if !ok || a.h == 0 {
		return msg
	}
	h := a.h.New()
	h.Write(msg)
	return h.Sum(nil)
}

// ---- independent DER readers (harness-side reference; nothing from zcrypto) ----

func derLen(b []byte, strict bool) (l int, rest []byte, ok bool) {
	if len(b) == 0 {
		return
	}
	if b[0] < 0x80 {
		return int(b[0]), b[1:], true
	}
	n := int(b[0] & 0x7f)
	if n == 0 || n > 3 || len(b) < 1+n {
		return
	}
	for _, x := range b[1 : 1+n] {
		l = l<<8 | int(x)
	}
	if strict && (l < 0x80 || b[1] == 0) {
		return
	}
	return l, b[1+n:], true
}

func derInt(b []byte, strict bool) (v *big.Int, rest []byte, ok bool) {
	if len(b) == 0 || b[0] != 0x02 {
		return
	}
	l, r, ok2 := derLen(b[1:], strict)
	if !ok2 || l > len(r) || l == 0 {
		return
	}
	c := r[:l]
	if strict && l > 1 && ((c[0] == 0 && c[1]&0x80 == 0) || (c[0] == 0xff && c[1]&0x80 != 0)) {
		return
	}
	v = new(big.Int).SetBytes(c)
	if c[0]&0x80 != 0 {
		v.Sub(v, new(big.Int).Lsh(big.NewInt(1), uint(8*l)))
	}
	return v, r[l:], true
}

// strictSig: exactly SEQUENCE { INTEGER r, INTEGER s } in DER, nothing before/inside/after.
func strictSig(sig []byte) (r, s *big.Int, ok bool) {
	if len(sig) == 0 || sig[0] != 0x30 {
		return
	}
	l, body, ok2 := derLen(sig[1:], true)
	if !ok2 || l != len(body) {
		return
	}
	r, body, ok2 = derInt(body, true)
	if !ok2 {
		return nil, nil, false
	}
	s, body, ok2 = derInt(body, true)
	if !ok2 || len(body) != 0 {
		return nil, nil, false
	}
	return r, s, true
}

// firstTwoInts: lenient reading of the first two INTEGERs of an outer SEQUENCE (for the primitive oracle).
func firstTwoInts(sig []byte) (r, s *big.Int, ok bool) {
	if len(sig) == 0 || sig[0] != 0x30 {
		return
	}
	l, body, ok2 := derLen(sig[1:], false)
	if !ok2 || l > len(body) {
		return
	}
	body = body[:l]
	r, body, ok2 = derInt(body, false)
	if !ok2 {
		return nil, nil, false
	}
	s, _, ok2 = derInt(body, false)
	if !ok2 {
		return nil, nil, false
	}
	return r, s, true
}

func encInt(v *big.Int) []byte {
	b := v.Bytes()
	if len(b) == 0 || b[0]&0x80 != 0 {
		b = append([]byte{0}, b...)
	}
	return append(encLen(0x02, len(b)), b...)
}
func encLen(tag byte, l int) []byte {
	switch {
	case l < 0x80:
		return []byte{tag, byte(l)}
	case l < 0x100:
		return []byte{tag, 0x81, byte(l)}
	}
	return []byte{tag, 0x82, byte(l >> 8), byte(l)}
}
func encSig(r, s *big.Int, extra ...[]byte) []byte {
	body := append(encInt(r), encInt(s)...)
	for _, e := range extra {
		body = append(body, e...)
	}
	return append(encLen(0x30, len(body)), body...)
}

// ---- keys on the case line ----
//   rsa <N> <E> - -      dsa <P> <Q> <G> <Y>      ecdsa|aug <curve> <X> <Y> -      ed <pubhex> - - -

func parseKey(f []string) (key interface{}, std interface{}) {
	switch f[0] {
	case "rsa":
		k := c23.ParsePub(f[1:3])
		return k, k
	case "dsa":
		k := &dsa.PublicKey{Parameters: dsa.Parameters{P: c23.UnHx(f[1]), Q: c23.UnHx(f[2]), G: c23.UnHx(f[3])}, Y: c23.UnHx(f[4])}
		return k, k
	case "ecdsa", "aug":
		var c elliptic.Curve = elliptic.P256()
		if f[1] == "p384" {
			c = elliptic.P384()
		}
		k := &ecdsa.PublicKey{Curve: c, X: c23.UnHx(f[2]), Y: c23.UnHx(f[3])}
		if f[0] == "aug" {
			return &x509.AugmentedECDSA{Pub: k}, k
		}
		return k, k
	case "ed":
		k := ed25519.PublicKey(zv.UnHex(f[1]))
		return k, k
	case "other": // a Go type outside the type switch: crypto/rsa's key (not zcrypto/rsa's), a key by value, nil
		switch f[1] {
		case "stdrsa":
			k := &crsa.PublicKey{N: big.NewInt(3233), E: 17}
			return k, otherKey{}
		case "ecdsaval":
			k := ecdsa.PublicKey{Curve: elliptic.P256(), X: elliptic.P256().Params().Gx, Y: elliptic.P256().Params().Gy}
			return k, otherKey{}
		case "nil":
			return nil, otherKey{}
		}
	}
	panic("bad key type " + f[0])
}

// otherKey marks (for the T3 reference) a key no verifier exists for: every signature must be rejected
type otherKey struct{}

func atoi(s string) int {
	n, err := strconv.Atoi(s)
	if err != nil {
		panic("bad int " + s)
	}
	return n
}

// oracle: result of the bare primitive on what a lenient reader finds (ECDSA / Ed25519 only).
func oracle(f []string, algo int, msg, sig []byte) bool {
	_, std := parseKey(f)
	switch k := std.(type) {
	case *ecdsa.PublicKey:
		r, s, ok := firstTwoInts(sig)
		if !ok || r.Sign() <= 0 || s.Sign() <= 0 {
			return false
		}
		return ecdsa.Verify(k, digestFor(algo, msg), r, s)
	case ed25519.PublicKey:
		return len(k) == ed25519.PublicKeySize && ed25519.Verify(k, digestFor(algo, msg), sig)
	}
	return false
}

func exec(line string) zv.Out {
	f := strings.Fields(line)
	op, a := f[1], f[2:]
	tags := []string{"op=" + op}
	switch op {
	case "dsasign":
		return execDSASign(a, tags)
	case "dsaver":
		return execDSAVer(a, tags)
	case "sparams":
		return execSParams(a, tags)
	case "sigai":
		return execSigAI(a, tags)
	case "sigoid":
		return execSigOID(a, tags)
	case "csfk", "csfkg": // kt k1 k2 k3 k4 algo signed sig oracle ; csfkg: the signature was made by the library's own signer over exactly these bytes with the matching key
		key, std := parseKey(a[:5])
		algo := atoi(a[5])
		msg, sig := zv.UnHex(a[6]), zv.UnHex(a[7])
		err := x509.CheckSignatureFromKey(key, x509.SignatureAlgorithm(algo), msg, sig)
		out := "ok"
		if err != nil {
			out = "err"
		}
		tags = append(tags, "key="+a[0], "algo="+a[5], "verdict="+out)
		viol := ""
		// T3: strict reference verdict
		sa, known := stdAlgo[algo]
		ref := false
		refKnown := true
		switch k := std.(type) {
		case *zrsa.PublicKey:
			switch {
			case !known:
				ref = false
			case sa.pss:
				// crypto/rsa wherever its key limits allow (odd N, odd 3 <= E < 2^31); otherwise zcrypto/rsa, which C23 ties to it
				if sp := c23.StdPub(k); sp != nil {
					tags = append(tags, "ref=crypto/rsa")
					e2, decided := c23.StdVerifyPSS(sp, sa.h, digestFor(algo, msg), sig, crsa.PSSSaltLengthEqualsHash)
					ref = decided && e2 == nil
					if !decided { // the reference itself panicked (see c23.StdVerifyPSS): fall back to zcrypto/rsa
						ref = zrsa.VerifyPSS(k, sa.h, digestFor(algo, msg), sig, &zrsa.PSSOptions{SaltLength: zrsa.PSSSaltLengthEqualsHash}) == nil
					}
				} else {
					ref = zrsa.VerifyPSS(k, sa.h, digestFor(algo, msg), sig, &zrsa.PSSOptions{SaltLength: zrsa.PSSSaltLengthEqualsHash}) == nil
				}
			default:
				if sp := c23.StdPub(k); sp != nil {
					tags = append(tags, "ref=crypto/rsa")
					ref = crsa.VerifyPKCS1v15(sp, sa.h, digestFor(algo, msg), sig) == nil
				} else {
					ref = zrsa.VerifyPKCS1v15(k, sa.h, digestFor(algo, msg), sig) == nil // C23 ties this verifier to crypto/rsa
				}
			}
			if k.N != nil {
				tags = append(tags, fmt.Sprintf("bits%%8=%d", k.N.BitLen()%8))
			}
			if known && sa.fam != "rsa" {
				refKnown = false // algorithm of another key family claimed with an RSA key: see finding F-C03-family
				tags = append(tags, "family-mismatch")
			}
		case *dsa.PublicKey:
			if known {
				if r, s, ok := strictSig(sig); ok && r.Sign() > 0 && s.Sign() > 0 {
					// crypto/dsa of the standard library, not zcrypto/dsa (which is the code under test)
					ref = cdsa.Verify(&cdsa.PublicKey{Parameters: cdsa.Parameters{P: k.P, Q: k.Q, G: k.G}, Y: k.Y}, digestFor(algo, msg), r, s)
				}
				tags = append(tags, fmt.Sprintf("N=%d", k.Q.BitLen()))
				if sa.fam != "dsa" {
					refKnown = false
					tags = append(tags, "family-mismatch")
				}
			}
		case *ecdsa.PublicKey:
			if known {
				ref = ecdsa.VerifyASN1(k, digestFor(algo, msg), sig)
				if sa.fam != "ecdsa" {
					refKnown = false
					tags = append(tags, "family-mismatch")
				}
			}
		case otherKey:
			ref = false
			tags = append(tags, "other="+a[1])
		case ed25519.PublicKey:
			if known {
				ref = ed25519.Verify(k, digestFor(algo, msg), sig)
				if sa.fam != "ed25519" {
					refKnown = false
					tags = append(tags, "family-mismatch")
				}
			}
		}
		if refKnown && ref != (err == nil) {
			viol = fmt.Sprintf("CheckSignatureFromKey(%s, algo %d) says %v but the strict reference verifier says accept=%v", a[0], algo, err, ref)
		}
		if !refKnown && err == nil && !ref {
			viol = fmt.Sprintf("CheckSignatureFromKey(%s, algo %d) accepted what the reference rejects", a[0], algo)
		}
		if op == "csfkg" {
			tags = append(tags, "genuine")
			if err != nil && viol == "" {
				viol = fmt.Sprintf("CheckSignatureFromKey(%s, algo %d) rejects a signature the library's own signer made with the matching private key over the same %d bytes: %v", a[0], algo, len(msg), err)
			}
		}
		if a[8] != "0" && a[8] != "1" {
			panic("bad oracle bit")
		}
		if want := oracle(a[:5], algo, msg, sig); (a[8] == "1") != want {
			panic("oracle bit on the case line does not match the primitive")
		}
		return zv.Out{Go: out, Viol: viol, Tags: tags}
	case "api": // api algo keytype mut : T3 only
		api, algo, kt, mut := a[0], atoi(a[1]), a[2], a[3]
		key := apiKey(kt)
		iss := apiIssuer(kt)
		m, err := c03api.Make(api, x509.SignatureAlgorithm(algo), key, iss)
		tags = append(tags, "api="+api, "key="+kt, "mut="+mut)
		if err != nil {
			if errors.Is(err, c03api.ErrCreate) {
				return zv.Out{Tags: append(tags, "refused"), Trivial: true}
			}
			return zv.Out{Viol: fmt.Sprintf("%s with algorithm %d and a %s key produced an object its own parser rejects: %v", api, algo, kt, err), Tags: tags}
		}
		tags = append(tags, "accepted")
		pub := iss.PublicKey
		if api == "csr" {
			pub = nil
		}
		switch mut {
		case "none":
			if e := m.Verify(); e != nil {
				return zv.Out{Viol: fmt.Sprintf("%s with algorithm %d and a %s key: the created object does not verify with its own verification API: %v", api, algo, kt, e), Tags: tags}
			}
		default:
			// mutated TBS / signature must not verify under the issuer key with the written algorithm
			if pub == nil {
				c, _ := x509.ParseCertificateRequest(m.DER)
				pub = c.PublicKey
			}
			tbs, sig := append([]byte{}, m.TBS...), append([]byte{}, m.Sig...)
			seed, _ := strconv.ParseUint(mut[1:], 10, 64)
			r := zv.NewRng(seed)
			if mut[0] == 't' {
				tbs[r.Intn(len(tbs))] ^= 1 << uint(r.Intn(8))
			} else {
				sig[r.Intn(len(sig))] ^= 1 << uint(r.Intn(8))
			}
			if e := x509.CheckSignatureFromKey(pub, m.Written, tbs, sig); e == nil {
				// an accepted flip must itself be a valid signature under the strict reference
				if !refAccept(pub, int(m.Written), tbs, sig) {
					return zv.Out{Viol: fmt.Sprintf("%s/%d/%s: a one-bit mutation (%s) of the signed bytes or signature still verifies", api, algo, kt, mut), Tags: tags}
				}
			}
		}
		return zv.Out{Tags: tags}
	}
	panic("unknown c03 op " + op)
}

func refAccept(pub interface{}, algo int, msg, sig []byte) bool {
	sa, ok := stdAlgo[algo]
	if !ok {
		return false
	}
	switch k := pub.(type) {
	case *zrsa.PublicKey:
		if sa.pss {
			return zrsa.VerifyPSS(k, sa.h, digestFor(algo, msg), sig, &zrsa.PSSOptions{SaltLength: zrsa.PSSSaltLengthEqualsHash}) == nil
		}
		return zrsa.VerifyPKCS1v15(k, sa.h, digestFor(algo, msg), sig) == nil
	case *ecdsa.PublicKey:
		return ecdsa.VerifyASN1(k, digestFor(algo, msg), sig)
	case *x509.AugmentedECDSA:
		return ecdsa.VerifyASN1(k.Pub, digestFor(algo, msg), sig)
	case ed25519.PublicKey:
		return ed25519.Verify(k, digestFor(algo, msg), sig)
	}
	return false
}

// ---- fixed per-process keys for the api sweep (T3 only: nothing about them is on the case line) ----
var (
	apiOnce sync.Once
	apiKeys = map[string]crypto.Signer{}
	apiIss  = map[string]*x509.Certificate{}
)

func apiInit() {
	apiOnce.Do(func() {
		rk, err := zrsa.GenerateKey(rand.Reader, 2048)
		if err != nil {
			panic(err)
		}
		e256, _ := ecdsa.GenerateKey(elliptic.P256(), rand.Reader)
		e384, _ := ecdsa.GenerateKey(elliptic.P384(), rand.Reader)
		_, ed, _ := ed25519.GenerateKey(rand.Reader)
		apiKeys["rsa"], apiKeys["ecdsa-p256"], apiKeys["ecdsa-p384"], apiKeys["ed25519"] = rk, e256, e384, ed
		for n, k := range apiKeys {
			iss, err := c03api.Issuer(k)
			if err != nil {
				panic(fmt.Sprintf("issuer for %s: %v", n, err))
			}
			apiIss[n] = iss
		}
	})
}
func apiKey(kt string) crypto.Signer { apiInit(); return apiKeys[kt] }
func apiIssuer(kt string) *x509.Certificate {
	apiInit()
	return apiIss[kt]
}

var _ = bytes.Equal
var _ = hex.EncodeToString
var _ = zasn1.Unmarshal
