// racecmd runs ONE line of the C17 harness; it is built with `go build -race -tags verif` by the
// harness and its stderr is searched for race reports.
//
//	racecmd race     <jitter> <10 scan fields>      runs the line once
//	racecmd raceslow <jitter> <10 scan fields>      one run whose server delays so that the scan lasts > 1 s
//	racecmd racecap  <jitter> <10 cap fields>       a `cap` line (kind pattern repeated over a big log)
//	racecmd raceseq  <jitter> <n> <10 fields>*n     n consecutive scans on one Scanner value
//	racecmd raceslowseq <jitter> <n> <10 fields>*n  the same with the delaying server
package main

import (
	"fmt"
	"os"
	"strconv"
	"time"

	"zv/props/c17/rig"
)

func main() {
	if len(os.Args) < 4 {
		fmt.Println("usage")
		os.Exit(2)
	}
	jit, _ := strconv.ParseUint(os.Args[2], 10, 64)
	var cs []*rig.Case
	var err error
	switch os.Args[1] {
	case "race", "raceslow":
		var c *rig.Case
		c, err = rig.Parse(os.Args[3:])
		cs = []*rig.Case{c}
	case "racecap":
		var c *rig.Case
		c, err = rig.ParseCap(os.Args[3:])
		cs = []*rig.Case{c}
	case "raceseq", "raceslowseq":
		cs, err = rig.ParseSeq(os.Args[3:])
	default:
		err = fmt.Errorf("unknown kind %q", os.Args[1])
	}
	if err != nil {
		fmt.Println("bad line:", err)
		os.Exit(2)
	}
	if os.Args[1] == "raceslow" || os.Args[1] == "raceslowseq" {
		rig.SlowServer = 250 * time.Millisecond
	}
	rs := rig.RunSeq(cs, jit+1, 90*time.Second)
	if v := rig.OracleSeq(cs, rs); v != "" {
		fmt.Println("violation:", v)
		os.Exit(3)
	}
	fmt.Println("ok")
}
