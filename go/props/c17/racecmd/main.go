// racecmd runs ONE scan line of the C17 harness; it is built with `go build -race -tags verif` by the
// harness and its stderr is searched for race reports.
//
//	racecmd race     <jitter> <10 scan fields>   runs the line once
//	racecmd raceslow <jitter> <10 scan fields>   one run whose server delays so that the scan lasts > 1 s
package main

import (
	"fmt"
	"os"
	"strconv"
	"time"

	"zv/props/c17/rig"
)

func main() {
	if len(os.Args) != 13 {
		fmt.Println("usage")
		os.Exit(2)
	}
	jit, _ := strconv.ParseUint(os.Args[2], 10, 64)
	c, err := rig.Parse(os.Args[3:])
	if err != nil {
		fmt.Println("bad line:", err)
		os.Exit(2)
	}
	reps := 1
	if os.Args[1] == "raceslow" {
		reps = 1
		rig.SlowServer = 250 * time.Millisecond
	}
	for i := 0; i < reps; i++ {
		r := rig.Run(c, jit+uint64(i)*1000003+1, 60*time.Second)
		if v := rig.Oracle(c, r); v != "" {
			fmt.Println("violation:", v)
			os.Exit(3)
		}
	}
	fmt.Println("ok")
}
