// Package rig is the part of the C17 harness shared by the normal harness (T2/T3) and by the
// race-instrumented stand-alone runner (racecmd): an in-process CT log served through an
// http.RoundTripper, driven by a per-range truncation/error script, and a runner for the REAL
// scanner.Scan against it.
package rig

import (
	"bytes"
	"crypto/ecdsa"
	"crypto/elliptic"
	"crypto/rand"
	stdx509 "crypto/x509"
	"crypto/x509/pkix"
	"encoding/asn1"
	"encoding/base64"
	"encoding/binary"
	"encoding/json"
	"errors"
	"fmt"
	"io"
	"math/big"
	"net/http"
	"regexp"
	"runtime"
	"sort"
	"strconv"
	"strings"
	"sync"
	"sync/atomic"
	"time"

	"github.com/sirupsen/logrus"
	"github.com/zmap/zcrypto/ct"
	"github.com/zmap/zcrypto/ct/client"
	"github.com/zmap/zcrypto/ct/scanner"
	ctx509 "github.com/zmap/zcrypto/ct/x509"
)

// ---------------------------------------------------------------------------------------------
// case lines:  c17 scan <start> <max> <tree> <batch> <nf> <nm> <opts> <kinds> <script> <sched>
//   opts   3 chars: [P-] PrecertOnly, [I-] IgnoreParsingErrors, matcher a(ll)|n(one)|s(ubject regex "zv-match")
//   kinds  one letter per log index 0..tree-1 (see Kinds)
//   script `<end>:tok,tok,…/<end>:…` or `-`; tok = e (HTTP 503) | t (transport error) | f (HTTP 500: scanner
//          sleeps 500 ms) | <n> (answer with the first min(n, requested) entries; 0 = empty answer, scanner sleeps)
//          — the j-th request whose `end` parameter is <end> gets the j-th token; afterwards full answers.
//   sched  digits used only by the Lean interleaving model (its result must not depend on them)
//
//   c17 cap <start> <max> <tree> <batch> <nf> <nm> <opts> <pattern> <script> <sched>
//          the same scan, but the log holds kind pattern[i % len(pattern)] at position i (big logs with a short
//          line; used for the scans around the channel capacities of Scan: fetches 1000, jobs 100000)
//   c17 seq <n> <10 scan fields> … (n times)
//          n consecutive Scans on ONE *Scanner (options replaced through the hook Scanner.ZVSetOptions, the
//          log swapped behind the same LogClient); output = the n scan outputs joined by `|`
// ---------------------------------------------------------------------------------------------

type Case struct {
	Start, Max, Tree, Batch int64
	NF, NM                  int
	PrecertOnly, Ignore     bool
	Matcher                 byte
	Kinds                   string
	Script                  map[int64][]string
	Sched                   string
}

func Parse(f []string) (*Case, error) {
	if len(f) != 10 {
		return nil, fmt.Errorf("want 10 fields, got %d", len(f))
	}
	c := &Case{Script: map[int64][]string{}}
	var err error
	geti := func(s string) int64 {
		v, e := strconv.ParseInt(s, 10, 64)
		if e != nil {
			err = e
		}
		return v
	}
	c.Start, c.Max, c.Tree, c.Batch = geti(f[0]), geti(f[1]), geti(f[2]), geti(f[3])
	c.NF, c.NM = int(geti(f[4])), int(geti(f[5]))
	if len(f[6]) != 3 {
		return nil, errors.New("opts")
	}
	c.PrecertOnly, c.Ignore, c.Matcher = f[6][0] == 'P', f[6][1] == 'I', f[6][2]
	c.Kinds = f[7]
	if c.Kinds == "-" {
		c.Kinds = ""
	}
	if int64(len(c.Kinds)) != c.Tree {
		return nil, errors.New("kinds length != tree size")
	}
	if f[8] != "-" {
		for _, part := range strings.Split(f[8], "/") {
			kv := strings.SplitN(part, ":", 2)
			if len(kv) != 2 {
				return nil, errors.New("script")
			}
			c.Script[geti(kv[0])] = strings.Split(kv[1], ",")
		}
	}
	c.Sched = f[9]
	return c, err
}

func (c *Case) Stop() int64 {
	if c.Max == 0 {
		return c.Tree
	}
	return c.Max
}

// MaxCapTree bounds the log size of a `cap` line (the kinds are expanded in memory).
const MaxCapTree = 4 << 20

// ParseCap parses the 10 fields of a `cap` line: like a scan line, field 7 is a pattern repeated over the tree.
func ParseCap(f []string) (*Case, error) {
	if len(f) != 10 {
		return nil, fmt.Errorf("want 10 fields, got %d", len(f))
	}
	tree, err := strconv.ParseInt(f[2], 10, 64)
	if err != nil || tree < 0 || tree > MaxCapTree {
		return nil, errors.New("tree")
	}
	pat := f[7]
	if pat == "-" || pat == "" {
		if tree != 0 {
			return nil, errors.New("empty pattern")
		}
		pat = "-"
	}
	g := append([]string(nil), f...)
	if tree == 0 {
		g[7] = "-"
	} else {
		g[7] = strings.Repeat(pat, int(tree)/len(pat)+1)[:tree]
	}
	return Parse(g)
}

// ParseSeq parses `<n> <10 fields>*n`.
func ParseSeq(f []string) ([]*Case, error) {
	if len(f) < 1 {
		return nil, errors.New("seq: no count")
	}
	n, err := strconv.Atoi(f[0])
	if err != nil || n < 1 || n > 16 || len(f) != 1+10*n {
		return nil, errors.New("seq: field count")
	}
	var cs []*Case
	for i := 0; i < n; i++ {
		c, err := Parse(f[1+10*i : 11+10*i])
		if err != nil {
			return nil, err
		}
		cs = append(cs, c)
	}
	return cs, nil
}

// ---------------------------------------------------------------------------------------------
// entry pool
// ---------------------------------------------------------------------------------------------

// Kinds lists the entry kinds a log position can hold.
//
//	a  X.509 entry, parses, CN zv-match-a        b  X.509 entry, parses, CN zv-other-b
//	n  X.509 entry with an unknown critical extension (NonFatalErrors), CN zv-match-n
//	u  X.509 entry, garbage bytes (not ASN.1)    v  X.509 entry, well-formed outer Certificate, broken TBS
//	p  precert entry, parses, CN zv-match-p      q  precert entry, parses, CN zv-other-q
//	r  precert entry, garbage TBS                s  precert entry whose "TBS" is a whole Certificate (fatal, but
//	                                                well-formed as an outer ASN1Certificate)
const Kinds = "abnuvpqrs"

type poolEntry struct {
	precert bool
	der     []byte // X509Entry or PrecertEntry.TBSCertificate
	extra   []byte // extra_data
}

var (
	poolOnce sync.Once
	pool     map[byte]*poolEntry
)

func mkCert(cn string, critUnknown bool) (der, tbs []byte) {
	key, err := ecdsa.GenerateKey(elliptic.P256(), rand.Reader)
	if err != nil {
		panic(err)
	}
	t := &stdx509.Certificate{
		SerialNumber: big.NewInt(int64(len(cn)) + 1000),
		Subject:      pkix.Name{CommonName: cn, Organization: []string{"zv"}},
		NotBefore:    time.Unix(1600000000, 0),
		NotAfter:     time.Unix(1900000000, 0),
		DNSNames:     []string{cn + ".example"},
		KeyUsage:     stdx509.KeyUsageDigitalSignature,
	}
	if critUnknown {
		t.ExtraExtensions = []pkix.Extension{{Id: asn1.ObjectIdentifier{1, 3, 6, 1, 4, 1, 55555, 1}, Critical: true, Value: []byte{5, 0}}}
	}
	der, err = stdx509.CreateCertificate(rand.Reader, t, t, &key.PublicKey, key)
	if err != nil {
		panic(err)
	}
	c, err := stdx509.ParseCertificate(der)
	if err != nil {
		panic(err)
	}
	return der, c.RawTBSCertificate
}

func u24(b []byte) []byte {
	return append([]byte{byte(len(b) >> 16), byte(len(b) >> 8), byte(len(b))}, b...)
}

func initPool() {
	pool = map[byte]*poolEntry{}
	emptyChain := []byte{0, 0, 0}
	derA, _ := mkCert("zv-match-a", false)
	derB, _ := mkCert("zv-other-b", false)
	derN, _ := mkCert("zv-match-n", true)
	derP, tbsP := mkCert("zv-match-p", false)
	derQ, tbsQ := mkCert("zv-other-q", false)
	// well-formed outer Certificate ::= SEQUENCE { tbs SEQUENCE{INTEGER 1}, alg SEQUENCE{OID}, sig BIT STRING }
	type outer struct {
		TBS asn1.RawValue
		Alg pkix.AlgorithmIdentifier
		Sig asn1.BitString
	}
	derV, err := asn1.Marshal(outer{
		TBS: asn1.RawValue{FullBytes: []byte{0x30, 0x03, 0x02, 0x01, 0x01}},
		Alg: pkix.AlgorithmIdentifier{Algorithm: asn1.ObjectIdentifier{1, 2, 840, 10045, 4, 3, 2}},
		Sig: asn1.BitString{Bytes: []byte{1, 2, 3, 4}, BitLength: 32},
	})
	if err != nil {
		panic(err)
	}
	pool['a'] = &poolEntry{der: derA, extra: emptyChain}
	pool['b'] = &poolEntry{der: derB, extra: emptyChain}
	pool['n'] = &poolEntry{der: derN, extra: emptyChain}
	pool['u'] = &poolEntry{der: []byte{0xde, 0xad, 0xbe, 0xef, 0x01}, extra: emptyChain}
	pool['v'] = &poolEntry{der: derV, extra: emptyChain}
	pool['p'] = &poolEntry{precert: true, der: tbsP, extra: append(u24(derP), emptyChain...)}
	pool['q'] = &poolEntry{precert: true, der: tbsQ, extra: append(u24(derQ), emptyChain...)}
	pool['r'] = &poolEntry{precert: true, der: []byte{0xde, 0xad, 0xbe, 0xef, 0x02}, extra: append(u24(derP), emptyChain...)}
	pool['s'] = &poolEntry{precert: true, der: derQ, extra: append(u24(derQ), emptyChain...)}
}

const tsBase = 1500000000000

// leaf builds the MerkleTreeLeaf of log position idx (the timestamp encodes the position).
func leaf(kind byte, idx int64) (leafInput, extra []byte) {
	poolOnce.Do(initPool)
	pe := pool[kind]
	if pe == nil {
		panic("unknown kind " + string(kind))
	}
	var b bytes.Buffer
	b.WriteByte(0) // version v1
	b.WriteByte(0) // timestamped entry
	binary.Write(&b, binary.BigEndian, uint64(tsBase+idx))
	if pe.precert {
		b.Write([]byte{0, 1})
		var ikh [32]byte
		ikh[0] = 0x77
		b.Write(ikh[:])
		b.Write(u24(pe.der))
	} else {
		b.Write([]byte{0, 0})
		b.Write(u24(pe.der))
	}
	b.Write([]byte{0, 0}) // extensions
	return b.Bytes(), pe.extra
}

// ---------------------------------------------------------------------------------------------
// the log server
// ---------------------------------------------------------------------------------------------

type Request struct{ Start, End int64 }

type server struct {
	c      *Case
	mu     sync.Mutex
	seen   map[int64]int // requests so far per `end`
	reqs   []Request     // in arrival order
	served map[int64]int // how often each index was delivered in a 200 answer
	bad    string        // first protocol problem (request outside the tree, start > end …)
	jitter uint64
	nreq   uint64
}

func (s *server) jit() {
	if s.jitter == 0 {
		return
	}
	x := mix(s.jitter + atomic.AddUint64(&s.nreq, 1))
	switch x % 5 {
	case 0:
		runtime.Gosched()
	case 1:
		time.Sleep(time.Duration(x>>8%200) * time.Microsecond)
	}
}

func mix(z uint64) uint64 {
	z += 0x9e3779b97f4a7c15
	z = (z ^ (z >> 30)) * 0xbf58476d1ce4e5b9
	z = (z ^ (z >> 27)) * 0x94d049bb133111eb
	return z ^ (z >> 31)
}

func resp(req *http.Request, code int, body []byte) *http.Response {
	return &http.Response{
		StatusCode: code, Status: fmt.Sprintf("%d %s", code, http.StatusText(code)),
		Proto: "HTTP/1.1", ProtoMajor: 1, ProtoMinor: 1, Header: http.Header{"Content-Type": {"application/json"}},
		Body: io.NopCloser(bytes.NewReader(body)), ContentLength: int64(len(body)), Request: req,
	}
}

// SlowServer delays every get-entries answer (used by the race runner to keep a scan alive past the 1 s
// progress ticker of Scan).
var SlowServer time.Duration

func (s *server) RoundTrip(req *http.Request) (*http.Response, error) {
	s.jit()
	if SlowServer > 0 && strings.HasSuffix(req.URL.Path, client.GetEntriesPath) {
		time.Sleep(SlowServer)
	}
	switch req.URL.Path {
	case "/log" + client.GetSTHPath:
		root := make([]byte, 32)
		sig := []byte{4, 3, 0, 4, 1, 2, 3, 4}
		b, _ := json.Marshal(map[string]any{
			"tree_size": s.c.Tree, "timestamp": uint64(tsBase),
			"sha256_root_hash":    base64.StdEncoding.EncodeToString(root),
			"tree_head_signature": base64.StdEncoding.EncodeToString(sig),
		})
		return resp(req, 200, b), nil
	case "/log" + client.GetEntriesPath:
		q := req.URL.Query()
		st, e1 := strconv.ParseInt(q.Get("start"), 10, 64)
		en, e2 := strconv.ParseInt(q.Get("end"), 10, 64)
		s.mu.Lock()
		defer s.mu.Unlock()
		s.reqs = append(s.reqs, Request{st, en})
		if e1 != nil || e2 != nil || st < 0 || en < st || en >= s.c.Tree {
			if s.bad == "" {
				s.bad = fmt.Sprintf("scanner sent get-entries start=%q end=%q for a log of %d entries", q.Get("start"), q.Get("end"), s.c.Tree)
			}
			return resp(req, 400, []byte("bad range")), nil
		}
		j := s.seen[en]
		s.seen[en] = j + 1
		n := en - st + 1
		if toks := s.c.Script[en]; j < len(toks) {
			switch toks[j] {
			case "e":
				return resp(req, 503, []byte("try later")), nil
			case "f":
				return resp(req, 500, []byte("oops")), nil
			case "t":
				return nil, errors.New("zv: simulated transport error")
			default:
				k, err := strconv.ParseInt(toks[j], 10, 64)
				if err != nil || k < 0 {
					panic("bad script token " + toks[j])
				}
				if k < n {
					n = k
				}
			}
		}
		type ent struct {
			LeafInput string `json:"leaf_input"`
			ExtraData string `json:"extra_data"`
		}
		out := struct {
			Entries []ent `json:"entries"`
		}{Entries: []ent{}}
		for i := st; i < st+n; i++ {
			li, ex := leaf(s.c.Kinds[i], i)
			out.Entries = append(out.Entries, ent{base64.StdEncoding.EncodeToString(li), base64.StdEncoding.EncodeToString(ex)})
			s.served[i]++
		}
		b, _ := json.Marshal(out)
		return resp(req, 200, b), nil
	}
	return resp(req, 404, []byte("no such endpoint")), nil
}

// ---------------------------------------------------------------------------------------------
// running the real scanner
// ---------------------------------------------------------------------------------------------

type Callback struct {
	Idx    int64 // LogEntry.Index as handed to the callback
	TsIdx  int64 // log position the leaf really came from (encoded in its timestamp)
	Pre    bool  // foundPrecert (true) / foundCert (false)
	Kind   byte
	RawOK  bool // RawCert equals the bytes the server stored at TsIdx
	Parsed bool // X509Cert / Precert.TBSCertificate non-nil
}

type Result struct {
	Ret      int64
	Err      error
	TimedOut bool
	CBs      []Callback
	Cnt      [4]int64
	Reqs     []Request
	Served   map[int64]int
	Bad      string
}

type jitMatcher struct {
	inner  scanner.Matcher
	jitter uint64
	n      uint64
}

func (m *jitMatcher) j() {
	if m.jitter == 0 {
		return
	}
	x := mix(m.jitter ^ atomic.AddUint64(&m.n, 1)<<1)
	if x%4 == 0 {
		runtime.Gosched()
	}
}
func (m *jitMatcher) CertificateMatches(c *ctx509.Certificate) bool {
	m.j()
	return m.inner.CertificateMatches(c)
}
func (m *jitMatcher) PrecertificateMatches(p *ct.Precertificate) bool {
	m.j()
	return m.inner.PrecertificateMatches(p)
}

var reMatch = regexp.MustCompile("zv-match")

// swapRT lets one LogClient (hence one Scanner) talk to a different scripted log in every scan of a sequence.
type swapRT struct{ cur atomic.Pointer[server] }

func (s *swapRT) RoundTrip(req *http.Request) (*http.Response, error) {
	return s.cur.Load().RoundTrip(req)
}

// SameOpts: do two cases configure the Scanner identically (everything but the log, its script and the schedule)?
func SameOpts(a, b *Case) bool {
	return a.Start == b.Start && a.Max == b.Max && a.Batch == b.Batch && a.NF == b.NF && a.NM == b.NM &&
		a.PrecertOnly == b.PrecertOnly && a.Ignore == b.Ignore && a.Matcher == b.Matcher
}

func optsOf(c *Case, jitter uint64) scanner.ScannerOptions {
	var m scanner.Matcher
	switch c.Matcher {
	case 'a':
		m = scanner.MatchAll{}
	case 'n':
		m = scanner.MatchNone{}
	default:
		m = scanner.MatchSubjectRegex{CertificateSubjectRegex: reMatch, PrecertificateSubjectRegex: reMatch}
	}
	if jitter != 0 {
		m = &jitMatcher{inner: m, jitter: jitter}
	}
	return scanner.ScannerOptions{
		Matcher: m, PrecertOnly: c.PrecertOnly, BatchSize: c.Batch, NumWorkers: c.NM, ParallelFetch: c.NF,
		StartIndex: c.Start, Quiet: true, Name: "zv", MaximumIndex: c.Max, IgnoreParsingErrors: c.Ignore,
	}
}

// Run executes scanner.Scan for the case on a fresh Scanner. jitter != 0 adds Gosched/sleeps in the server and
// the matcher. Callbacks are recorded through a buffered channel only (no lock shared between matcher
// goroutines, so that the harness adds no happens-before edges that could hide a race).
func Run(c *Case, jitter uint64, timeout time.Duration) *Result {
	return RunSeq([]*Case{c}, jitter, timeout)[0]
}

// RunSeq executes one Scan per case, all on the SAME *Scanner value (and the same LogClient): the first with
// the options given to NewScanner, the later ones after Scanner.ZVSetOptions. Every scan gets its own
// scripted log, callbacks and Result; `timeout` is per scan. After a scan that did not return the remaining
// ones are not started (their Result has TimedOut set as well).
func RunSeq(cs []*Case, jitter uint64, timeout time.Duration) []*Result {
	poolOnce.Do(initPool)
	rt := &swapRT{}
	lc := client.ZVNewWithRoundTripper("http://zv.invalid/log", rt)
	lg := logrus.New()
	lg.SetOutput(io.Discard)
	lg.SetLevel(logrus.PanicLevel)
	var sc *scanner.Scanner
	out := make([]*Result, len(cs))
	for i, c := range cs {
		srv := &server{c: c, seen: map[int64]int{}, served: map[int64]int{}, jitter: jitter}
		rt.cur.Store(srv)
		if sc == nil {
			sc = scanner.NewScanner(lc, optsOf(c, jitter), lg)
		} else if !SameOpts(cs[i-1], c) {
			// with identical options the Scanner is reused exactly as the public API allows (nothing is written
			// between the scans); otherwise the options are replaced through the verification hook
			sc.ZVSetOptions(optsOf(c, jitter))
		}
		out[i] = runOne(sc, c, srv, timeout)
		if out[i].TimedOut {
			for j := i + 1; j < len(cs); j++ {
				out[j] = &Result{TimedOut: true}
			}
			break
		}
	}
	return out
}

func runOne(sc *scanner.Scanner, c *Case, srv *server, timeout time.Duration) *Result {
	capN := int(c.Tree)*2 + 16
	cbs := make(chan Callback, capN)
	mk := func(pre bool) func(*ct.LogEntry, string) {
		return func(e *ct.LogEntry, _ string) {
			ts := int64(e.Leaf.TimestampedEntry.Timestamp) - tsBase
			cb := Callback{Idx: e.Index, TsIdx: ts, Pre: pre}
			if ts >= 0 && ts < int64(len(c.Kinds)) {
				cb.Kind = c.Kinds[ts]
				cb.RawOK = bytes.Equal(e.RawCert, pool[cb.Kind].der)
			}
			if pre {
				cb.Parsed = e.Precert != nil && e.Precert.TBSCertificate != nil
			} else {
				cb.Parsed = e.X509Cert != nil
			}
			select {
			case cbs <- cb:
			default: // more callbacks than 2*tree+16: keep the scan going, the count below shows it
			}
		}
	}
	res := &Result{}
	done := make(chan struct{})
	updater := make(chan int64, 64)
	go func() {
		defer close(done)
		res.Ret, res.Err = sc.Scan(mk(false), mk(true), updater)
	}()
	tm := time.NewTimer(timeout)
	defer tm.Stop()
	select {
	case <-done:
	case <-tm.C:
		return &Result{TimedOut: true} // `res` still belongs to the stuck goroutine
	}
	a, b, cc, d := sc.ZVCounters()
	res.Cnt = [4]int64{a, b, cc, d}
	for {
		select {
		case cb := <-cbs:
			res.CBs = append(res.CBs, cb)
			continue
		default:
		}
		break
	}
	sort.SliceStable(res.CBs, func(i, j int) bool {
		if res.CBs[i].Idx != res.CBs[j].Idx {
			return res.CBs[i].Idx < res.CBs[j].Idx
		}
		return res.CBs[i].TsIdx < res.CBs[j].TsIdx
	})
	srv.mu.Lock()
	res.Reqs = append([]Request(nil), srv.reqs...)
	res.Served = srv.served
	res.Bad = srv.bad
	srv.mu.Unlock()
	return res
}

// CanonSeq joins the canonical outputs of the scans of a sequence.
func CanonSeq(rs []*Result) string {
	var parts []string
	for _, r := range rs {
		parts = append(parts, r.Canon())
	}
	return strings.Join(parts, "|")
}

// OracleSeq evaluates the property on every scan of a sequence on one Scanner: each scan is held against the
// expectation of a SINGLE scan of its own case (return value = its own start + its own processed count, counters
// and callbacks exactly its own range) — nothing of an earlier scan may show. Empty = holds.
func OracleSeq(cs []*Case, rs []*Result) string {
	for i, c := range cs {
		if v := Oracle(c, rs[i]); v != "" {
			if len(cs) == 1 {
				return v
			}
			return fmt.Sprintf("scan %d of %d on the same Scanner (start %d, stop %d, batch %d): %s", i+1, len(cs), c.Start, c.Stop(), c.Batch, v)
		}
	}
	return ""
}

// Canon is the canonical observable output compared with the Lean model.
func (r *Result) Canon() string {
	if r.TimedOut {
		return "timeout"
	}
	if r.Err != nil {
		return "err"
	}
	var sb strings.Builder
	fmt.Fprintf(&sb, "ret=%d;cnt=%d,%d,%d,%d;cb=", r.Ret, r.Cnt[0], r.Cnt[1], r.Cnt[2], r.Cnt[3])
	if len(r.CBs) == 0 {
		sb.WriteByte('-')
	}
	for i, cb := range r.CBs {
		if i > 0 {
			sb.WriteByte(',')
		}
		w := "c"
		if cb.Pre {
			w = "p"
		}
		k := "?"
		if cb.Kind != 0 {
			k = string(cb.Kind)
		}
		fmt.Fprintf(&sb, "%d:%s%s", cb.Idx, k, w)
	}
	sb.WriteString(";req=")
	rq := append([]Request(nil), r.Reqs...)
	sort.SliceStable(rq, func(i, j int) bool { return rq[i].End < rq[j].End })
	if len(rq) == 0 {
		sb.WriteByte('-')
	}
	for i, q := range rq {
		if i > 0 {
			sb.WriteByte(',')
		}
		fmt.Fprintf(&sb, "%d-%d", q.Start, q.End)
	}
	return sb.String()
}

// expectation of the property, written independently of the Lean model: which callback (if any) an entry of
// a given kind must produce, and which counters it bumps.
func expect(c *Case, k byte) (cb byte, pre, unparsable, nonfatal bool) {
	match := func(good bool) bool {
		switch c.Matcher {
		case 'a':
			return true
		case 'n':
			return false
		}
		return good
	}
	switch k {
	case 'a', 'b', 'n':
		if c.PrecertOnly {
			return 0, false, false, false
		}
		if match(k != 'b') {
			cb = 'c'
		}
		return cb, false, false, k == 'n'
	case 'u':
		if c.PrecertOnly {
			return 0, false, false, false
		}
		return 0, false, true, false
	case 'v':
		if c.PrecertOnly {
			return 0, false, false, false
		}
		if c.Ignore {
			return 'c', false, true, false
		}
		return 0, false, true, false
	case 'p', 'q':
		if match(k == 'p') {
			cb = 'p'
		}
		return cb, true, false, false
	case 'r':
		return 0, false, true, false
	case 's':
		if c.Ignore {
			return 'p', true, true, false
		}
		return 0, false, true, false
	}
	panic("kind")
}

// Oracle evaluates the property on the implementation alone. Empty = holds.
func Oracle(c *Case, r *Result) string {
	if r.TimedOut {
		return "Scan did not return (deadlock or livelock)"
	}
	if r.Err != nil {
		return "Scan returned an error against a well-behaved log: " + r.Err.Error()
	}
	if r.Bad != "" {
		return r.Bad
	}
	start, stop := c.Start, c.Stop()
	if stop < start {
		stop = start
	}
	if c.NF < 1 || c.NM < 1 {
		return "" // degenerate configuration: nothing is promised
	}
	if r.Ret != stop {
		return fmt.Sprintf("Scan returned %d, want start+processed = %d", r.Ret, stop)
	}
	var want [4]int64
	seen := map[int64]int{}
	for _, cb := range r.CBs {
		if cb.Idx != cb.TsIdx {
			return fmt.Sprintf("callback got the entry of log position %d with Index %d", cb.TsIdx, cb.Idx)
		}
		if cb.Idx < start || cb.Idx >= stop {
			return fmt.Sprintf("callback for index %d outside [%d,%d)", cb.Idx, start, stop)
		}
		if !cb.RawOK {
			return fmt.Sprintf("callback for index %d carries other bytes than the log stores there", cb.Idx)
		}
		seen[cb.Idx]++
		if seen[cb.Idx] > 1 {
			return fmt.Sprintf("index %d handed to the callbacks %d times", cb.Idx, seen[cb.Idx])
		}
	}
	for i := start; i < stop; i++ {
		cb, pre, unp, nf := expect(c, c.Kinds[i])
		want[0]++
		if pre {
			want[1]++
		}
		if unp {
			want[2]++
		}
		if nf {
			want[3]++
		}
		if (cb != 0) != (seen[i] == 1) {
			return fmt.Sprintf("index %d (kind %c): callback count %d, expected %v", i, c.Kinds[i], seen[i], cb != 0)
		}
		if r.Served[i] != 1 {
			return fmt.Sprintf("index %d was downloaded %d times in successful answers", i, r.Served[i])
		}
	}
	for i, n := range r.Served {
		if (i < start || i >= stop) && n > 0 {
			return fmt.Sprintf("index %d outside the scanned range was downloaded", i)
		}
	}
	for _, cb := range r.CBs {
		e, _, _, _ := expect(c, cb.Kind)
		if (e == 'p') != cb.Pre {
			return fmt.Sprintf("index %d (kind %c) went to the wrong callback", cb.Idx, cb.Kind)
		}
	}
	if r.Cnt != want {
		return fmt.Sprintf("counters (certsProcessed,precertsSeen,unparsable,nonFatal) = %v, want %v (lost update?)", r.Cnt, want)
	}
	return ""
}

// RefRanges is the harness's own statement of the partition (used by the generators to aim scripts at
// range ends; not used by the oracle).
func RefRanges(start, stop, batch int64) [][2]int64 {
	var out [][2]int64
	for s := start; s < stop; s += batch {
		e := s + batch - 1
		if e > stop-1 {
			e = stop - 1
		}
		out = append(out, [2]int64{s, e})
	}
	return out
}
