// Package c17: the CT log scanner (ct/scanner Scan / fetcherJob / processEntry, ct/client GetEntries) run
// against an in-process scripted log; T2 against the Lean model ZV.Model.C17, T3 oracle "every index exactly
// once, right entry, right callback, return = start+processed, counters exact", and a race-detector run of the
// same scripts in a separately built `-race` binary (explored, not proved).
package c17

import (
	"bytes"
	"fmt"
	"os"
	"os/exec"
	"path/filepath"
	"runtime"
	"strconv"
	"strings"
	"sync"
	"time"

	"zv/internal/zv"
	"zv/props/c17/rig"
)

func init() {
	zv.Register(&zv.Prop{
		ID: "C17", Topic: "c17", Gen: gen, Exec: execLine, Timeout: 400 * time.Second,
		Rule: "scan lines: random start/stop offsets, batch 1-7 (plus large), fetchers 1-4, matchers 1-4, option and matcher " +
			"combinations, entry kinds (good/non-fatal/unparsable certs and precerts), per-range server scripts of errors and " +
			"truncations; non-trivial = at least one scripted fault or >1 range; race lines re-run a scan line under -race",
	})
}

// ---------------------------------------------------------------------------------------------
// generator
// ---------------------------------------------------------------------------------------------

func genScan(r *zv.Rng, big bool) string {
	tree := int64(r.Intn(24))
	if r.Chance(10) {
		tree = int64(24 + r.Intn(40))
	}
	if big {
		tree = int64(60 + r.Intn(200))
	}
	var start, max int64
	if tree > 0 && r.Chance(60) {
		start = int64(r.Intn(int(tree) + 1))
	}
	if r.Chance(3) {
		start = tree + int64(r.Intn(3)) // nothing to do
	}
	if tree > 0 && r.Chance(50) {
		max = int64(r.Intn(int(tree))) + 1 // 1..tree (0 = "whole tree")
	}
	batch := int64(1 + r.Intn(7))
	if r.Chance(8) {
		batch = int64(8 + r.Intn(300))
	}
	if big {
		batch = int64(1 + r.Intn(40))
	}
	nf, nm := 1+r.Intn(4), 1+r.Intn(4)
	if r.Chance(2) {
		nf = 0
	} else if r.Chance(2) {
		nm = 0
	}
	opts := []byte("--a")
	if r.Chance(15) {
		opts[0] = 'P'
	}
	if r.Chance(35) {
		opts[1] = 'I'
	}
	opts[2] = "ans"[r.Intn(3)]
	if r.Chance(40) {
		opts[2] = 's'
	}
	kinds := make([]byte, tree)
	style := r.Intn(4)
	for i := range kinds {
		switch style {
		case 0:
			kinds[i] = "ab"[r.Intn(2)]
		case 1:
			kinds[i] = "abpq"[r.Intn(4)]
		default:
			kinds[i] = rig.Kinds[r.Intn(len(rig.Kinds))]
		}
	}
	stop := max
	if max == 0 {
		stop = tree
	}
	var parts []string
	if nf > 0 {
		for _, rg := range rig.RefRanges(start, stop, batch) {
			if !r.Chance(55) {
				continue
			}
			n := 1 + r.Intn(4)
			if r.Chance(10) {
				n += r.Intn(8)
			}
			var toks []string
			for j := 0; j < n; j++ {
				switch {
				case r.Chance(30):
					toks = append(toks, "e")
				case r.Chance(15):
					toks = append(toks, "t")
				default:
					w := int(rg[1]-rg[0]) + 1
					k := 1 + r.Intn(w+1) // 1..w+1 (w+1: more than asked, server truncates)
					if r.Chance(40) {
						k = 1
					}
					toks = append(toks, fmt.Sprint(k))
				}
			}
			parts = append(parts, fmt.Sprintf("%d:%s", rg[1], strings.Join(toks, ",")))
		}
		if r.Chance(5) { // a script for an `end` that is no range end: must stay unused
			parts = append(parts, fmt.Sprintf("%d:e,e,1", stop+5))
		}
	}
	script := "-"
	if len(parts) > 0 {
		script = strings.Join(parts, "/")
	}
	ns := r.Intn(30)
	sched := make([]byte, ns)
	for i := range sched {
		sched[i] = byte('0' + r.Intn(8))
	}
	ks := string(kinds)
	if ks == "" {
		ks = "-"
	}
	ss := string(sched)
	if ss == "" {
		ss = "-"
	}
	return fmt.Sprintf("%d %d %d %d %d %d %s %s %s %s", start, max, tree, batch, nf, nm, opts, ks, script, ss)
}

func gen(g *zv.Gen) {
	// fixed corner cases
	for _, l := range []string{
		"0 0 0 1 1 1 --a - - -",
		"0 0 1 1 1 1 --a a - 0",
		"0 0 5 2 2 2 --a apapa 1:e,1,t,1/3:1/4:e,e 0123",
		"3 0 3 2 1 1 --a aaa - -",
		"5 0 3 2 1 1 --a aaa - -",
		"2 9 10 3 3 2 -Is abnuvpqrsa 4:1,1,1/7:e,2/8:t 7654321",
		"0 0 9 4 1 4 PIs abnuvpqrs 3:5,e/7:1/8:1 11",
		"0 0 9 9 4 1 --n abnuvpqrs 8:1,e,1,t,1,1,1,1,1,1 22",
		"0 0 4 1 0 2 --a abab - -",
		"0 0 4 1 2 0 --a abab - -",
	} {
		g.Emit("c17 scan " + l)
	}
	// the 500 / empty-answer paths sleep 500 ms each: a handful only
	g.Emit("c17 scan 0 0 4 2 2 2 --a apap 1:f,1/3:0,e 5")
	n := g.N(800, 20000)
	for i := 0; i < n; i++ {
		g.Emit("c17 scan " + genScan(g.Rng, false))
	}
	for i := 0; i < g.N(30, 500); i++ {
		g.Emit("c17 scan " + genScan(g.Rng, true))
	}
	// race-detector runs (T3-only): the same kind of scan line, executed by the -race binary
	nr := g.N(100, 1500)
	for i := 0; i < nr; i++ {
		l := genScan(g.Rng, i%8 == 0)
		g.Emit(fmt.Sprintf("c17 race %d %s", 1+g.Rng.Intn(1<<30), l))
	}
	// one slow scan so that the 1 s progress ticker of Scan runs concurrently with the matchers
	g.Emit("c17 raceslow 7 0 0 40 4 2 3 --s " + strings.Repeat("apbq", 10) + " - -")
}

// ---------------------------------------------------------------------------------------------
// exec
// ---------------------------------------------------------------------------------------------

func execLine(line string) zv.Out {
	f := strings.Fields(line)
	if len(f) < 2 || f[0] != "c17" {
		return zv.Out{Go: "bad-op"}
	}
	switch f[1] {
	case "scan":
		return execScan(f[2:])
	case "race", "raceslow":
		return execRace(f[1], f[2:])
	}
	return zv.Out{Go: "bad-op"}
}

func execScan(f []string) zv.Out {
	c, err := rig.Parse(f)
	if err != nil {
		return zv.Out{Go: "bad-op"}
	}
	jitter := uint64(0)
	if len(c.Sched)%2 == 1 {
		jitter = uint64(len(c.Sched))*7919 + uint64(c.Tree)
	}
	r := rig.Run(c, jitter, 60*time.Second)
	if r.TimedOut {
		// a hang must reproduce in 2 of 3 runs before it is reported (DESIGN §5a risk 5: loaded machine)
		r2 := rig.Run(c, jitter, 60*time.Second)
		if r2.TimedOut {
			r = r2
		} else if r3 := rig.Run(c, jitter, 60*time.Second); !r3.TimedOut {
			r = r3
		}
	}
	nfault := 0
	for _, t := range c.Script {
		nfault += len(t)
	}
	nr := len(rig.RefRanges(c.Start, c.Stop(), c.Batch))
	tags := []string{
		fmt.Sprintf("batch=%s", bucket(int(c.Batch))), fmt.Sprintf("fetchers=%d", c.NF), fmt.Sprintf("matchers=%d", c.NM),
		fmt.Sprintf("ranges=%s", bucket(nr)), fmt.Sprintf("faults=%s", bucket(nfault)), "opts=" + f[6],
	}
	if c.Start > 0 {
		tags = append(tags, "start>0")
	}
	if c.Max > 0 {
		tags = append(tags, "max-index")
	}
	if len(r.Reqs) > nr {
		tags = append(tags, "retries")
	}
	return zv.Out{Go: r.Canon(), Viol: rig.Oracle(c, r), Tags: tags, Trivial: nfault == 0 && nr <= 1}
}

func bucket(n int) string {
	switch {
	case n <= 7:
		return fmt.Sprint(n)
	case n <= 15:
		return "8-15"
	case n <= 63:
		return "16-63"
	}
	return "64+"
}

// ---- the race-instrumented runner -------------------------------------------------------------

var (
	raceOnce sync.Once
	raceBin  string
	raceErr  string
)

func goDir() string {
	_, file, _, ok := runtime.Caller(0)
	if ok {
		d := filepath.Dir(filepath.Dir(filepath.Dir(file))) // …/go
		if _, err := os.Stat(filepath.Join(d, "go.mod")); err == nil {
			return d
		}
	}
	if exe, err := os.Executable(); err == nil { // <verif>/.build/zvharness
		d := filepath.Join(filepath.Dir(filepath.Dir(exe)), "go")
		if _, err := os.Stat(filepath.Join(d, "go.mod")); err == nil {
			return d
		}
	}
	return ""
}

func goEnv() []string {
	var env []string
	for _, kv := range os.Environ() {
		k := strings.SplitN(kv, "=", 2)[0]
		switch k {
		case "GOFLAGS", "GOPROXY", "GOTOOLCHAIN", "GOSUMDB", "GONOSUMDB", "GONOSUMCHECK", "GOMEMLIMIT", "GORACE", "GOMAXPROCS":
			continue
		}
		env = append(env, kv)
	}
	return append(env, "GOFLAGS=-mod=mod", "GOPROXY=off")
}

func buildRace() {
	d := goDir()
	if d == "" {
		raceErr = "cannot locate the harness source directory (go.mod) to build the -race runner"
		return
	}
	final := filepath.Join(os.TempDir(), "zv-c17-racecmd")
	out := fmt.Sprintf("%s.%d", final, os.Getpid())
	cmd := exec.Command("go", "build", "-race", "-tags", "verif", "-o", out, "./props/c17/racecmd")
	cmd.Dir = d
	cmd.Env = goEnv()
	b, err := cmd.CombinedOutput()
	if err != nil {
		raceErr = "go build -race failed: " + err.Error() + "\n" + string(b)
		return
	}
	// atomic replace: concurrent runs keep executing the inode they started; no per-run litter in TempDir
	if err := os.Rename(out, final); err != nil {
		raceBin = out
		return
	}
	raceBin = final
}

func execRace(kind string, f []string) zv.Out {
	if len(f) != 11 {
		return zv.Out{Go: "bad-op"}
	}
	o := execRace1(kind, f)
	if len(o.Tags) > 0 && o.Tags[0] == "race-timeout" {
		o2 := execRace1(kind, f)
		if len(o2.Tags) > 0 && o2.Tags[0] == "race-timeout" {
			return o2
		}
		if o3 := execRace1(kind, f); !(len(o3.Tags) > 0 && o3.Tags[0] == "race-timeout") {
			return o3
		}
	}
	return o
}

func execRace1(kind string, f []string) zv.Out {
	raceOnce.Do(buildRace)
	if raceErr != "" {
		return zv.Out{Viol: raceErr, Tags: []string{"race-build-failed"}}
	}
	jv, _ := strconv.ParseUint(f[0], 10, 64)
	procs := []string{"1", "2", "8"}[jv%3]
	cmd := exec.Command(raceBin, append([]string{kind}, f...)...)
	cmd.Env = append(goEnv(), "GORACE=halt_on_error=0 exitcode=66", "GOMAXPROCS="+procs)
	var stdout, stderr bytes.Buffer
	cmd.Stdout, cmd.Stderr = &stdout, &stderr
	done := make(chan error, 1)
	if err := cmd.Start(); err != nil {
		return zv.Out{Viol: "cannot start race runner: " + err.Error()}
	}
	go func() { done <- cmd.Wait() }()
	var werr error
	select {
	case werr = <-done:
	case <-time.After(120 * time.Second):
		cmd.Process.Kill()
		<-done
		return zv.Out{Viol: "race runner did not finish within 120 s (deadlock?)\n" + tail(stderr.String(), 1500), Tags: []string{"race-timeout"}}
	}
	tags := []string{"race-run", "race-GOMAXPROCS=" + procs}
	se := stderr.String()
	if i := strings.Index(se, "WARNING: DATA RACE"); i >= 0 {
		rep := se[i:]
		if j := strings.Index(rep[1:], "=================="); j > 0 {
			rep = rep[:j+1]
		}
		return zv.Out{Viol: "data race reported by the race detector while scanning:\n" + summarise(rep), Tags: append(tags, "DATA-RACE")}
	}
	so := strings.TrimSpace(stdout.String())
	if werr != nil || !strings.HasPrefix(so, "ok") {
		return zv.Out{Viol: "race runner: " + fmt.Sprint(werr) + " " + tail(so, 600) + "\n" + tail(se, 1200), Tags: append(tags, "race-run-failed")}
	}
	return zv.Out{Tags: tags}
}

func tail(s string, n int) string {
	if len(s) > n {
		return "…" + s[len(s)-n:]
	}
	return s
}

// summarise keeps the access lines and the first frames of a race report.
func summarise(rep string) string {
	var out []string
	lines := strings.Split(rep, "\n")
	for i := 0; i < len(lines) && len(out) < 14; i++ {
		l := strings.TrimRight(lines[i], " ")
		if strings.HasPrefix(l, "WARNING") {
			out = append(out, l)
			continue
		}
		if strings.HasPrefix(l, "Read at") || strings.HasPrefix(l, "Write at") ||
			strings.HasPrefix(l, "Previous") || strings.HasPrefix(l, "Goroutine") {
			out = append(out, l)
			for k := 1; k <= 4 && i+k < len(lines); k++ {
				if strings.TrimSpace(lines[i+k]) == "" {
					break
				}
				out = append(out, "  "+strings.TrimSpace(lines[i+k]))
			}
		}
	}
	return strings.Join(out, "\n")
}
