// Package c17: the CT log scanner (ct/scanner Scan / fetcherJob / processEntry, ct/client GetEntries) run
// against an in-process scripted log; T2 against the Lean model ZV.Model.C17, T3 oracle "every index exactly
// once, right entry, right callback, return = start+processed, counters exact", and a race-detector run of the
// same scripts in a separately built `-race` binary (explored, not proved).
//
// Besides the random scan lines there are two systematic families:
//   - cap lines: scans whose number of fetch ranges / entries sits just below, at and above the capacities of the
//     internal channels of Scan (fetches: 1000 ranges, jobs: 100000 entries) — a scan that needs a buffer to be
//     large enough (instead of a running consumer) stalls there and is reported by the watchdog of rig.Run;
//   - seq lines: 2-3 consecutive Scans on ONE *Scanner value (same / grown / different log, same / different start
//     index), each compared with the expectation for a single scan of its own.
package c17

import (
	"bytes"
	"fmt"
	"hash/fnv"
	"os"
	"os/exec"
	"path/filepath"
	"runtime"
	"sort"
	"strconv"
	"strings"
	"sync"
	"time"

	"zv/internal/zv"
	"zv/props/c17/rig"
)

func init() {
	zv.Register(&zv.Prop{
		ID: "C17", Topic: "c17", Gen: gen, Exec: execLine, Timeout: 700 * time.Second,
		Rule: "scan lines: random start/stop offsets, batch 1-7 (plus large), fetchers 1-4, matchers 1-4, option and matcher " +
			"combinations, entry kinds (good/non-fatal/unparsable certs and precerts), per-range server scripts of errors and " +
			"truncations; non-trivial = at least one scripted fault or >1 range; cap lines: range counts 990-1012, ~2000, ~3000 " +
			"around the capacity 1000 of the fetches channel (batch 1-5, T2) and entry counts 99998-100003+ around the capacity " +
			"100000 of the jobs channel (T3-only), tiny entries; seq lines: 2-3 Scans on one Scanner value (identical reuse, " +
			"grown log continued at the previous return value, other start on the same log, unrelated scans); race / racecap / " +
			"raceseq / raceslow / raceslowseq lines re-run such lines under -race",
	})
}

// ---------------------------------------------------------------------------------------------
// generator
// ---------------------------------------------------------------------------------------------

// scanSpec is one scan line (the 10 fields after `c17 scan`).
type scanSpec struct {
	start, max, tree, batch int64
	nf, nm                  int
	opts, kinds             string
	script, sched           string
}

func (s scanSpec) stop() int64 {
	if s.max == 0 {
		return s.tree
	}
	return s.max
}

func (s scanSpec) String() string {
	ks := s.kinds
	if ks == "" {
		ks = "-"
	}
	return fmt.Sprintf("%d %d %d %d %d %d %s %s %s %s", s.start, s.max, s.tree, s.batch, s.nf, s.nm, s.opts, ks, s.script, s.sched)
}

func genKinds(r *zv.Rng, n int64) string {
	kinds := make([]byte, n)
	style := r.Intn(4)
	for i := range kinds {
		switch style {
		case 0:
			kinds[i] = "ab"[r.Intn(2)]
		case 1:
			kinds[i] = "abpq"[r.Intn(4)]
		default:
			kinds[i] = rig.Kinds[r.Intn(len(rig.Kinds))]
		}
	}
	return string(kinds)
}

// genScript scripts faults for about half of the ranges of the scan.
func genScript(r *zv.Rng, start, stop, batch int64, nf int) string {
	var parts []string
	if nf > 0 {
		for _, rg := range rig.RefRanges(start, stop, batch) {
			if !r.Chance(55) {
				continue
			}
			parts = append(parts, fmt.Sprintf("%d:%s", rg[1], genToks(r, int(rg[1]-rg[0])+1)))
		}
		if r.Chance(5) { // a script for an `end` that is no range end: must stay unused
			parts = append(parts, fmt.Sprintf("%d:e,e,1", stop+5))
		}
	}
	if len(parts) == 0 {
		return "-"
	}
	return strings.Join(parts, "/")
}

// genToks: the server's reactions to the successive requests for one range of width w.
func genToks(r *zv.Rng, w int) string {
	n := 1 + r.Intn(4)
	if r.Chance(10) {
		n += r.Intn(8)
	}
	var toks []string
	for j := 0; j < n; j++ {
		switch {
		case r.Chance(30):
			toks = append(toks, "e")
		case r.Chance(15):
			toks = append(toks, "t")
		default:
			k := 1 + r.Intn(w+1) // 1..w+1 (w+1: more than asked, server truncates)
			if r.Chance(40) {
				k = 1
			}
			toks = append(toks, fmt.Sprint(k))
		}
	}
	return strings.Join(toks, ",")
}

func genSched(r *zv.Rng) string {
	ns := r.Intn(30)
	if ns == 0 {
		return "-"
	}
	sched := make([]byte, ns)
	for i := range sched {
		sched[i] = byte('0' + r.Intn(8))
	}
	return string(sched)
}

func genOpts(r *zv.Rng) string {
	opts := []byte("--a")
	if r.Chance(15) {
		opts[0] = 'P'
	}
	if r.Chance(35) {
		opts[1] = 'I'
	}
	opts[2] = "ans"[r.Intn(3)]
	if r.Chance(40) {
		opts[2] = 's'
	}
	return string(opts)
}

func genSpec(r *zv.Rng, big bool) scanSpec {
	tree := int64(r.Intn(24))
	if r.Chance(10) {
		tree = int64(24 + r.Intn(40))
	}
	if big {
		tree = int64(60 + r.Intn(200))
	}
	var start, max int64
	if tree > 0 && r.Chance(60) {
		start = int64(r.Intn(int(tree) + 1))
	}
	if r.Chance(3) {
		start = tree + int64(r.Intn(3)) // nothing to do
	}
	if tree > 0 && r.Chance(50) {
		max = int64(r.Intn(int(tree))) + 1 // 1..tree (0 = "whole tree")
	}
	batch := int64(1 + r.Intn(7))
	if r.Chance(8) {
		batch = int64(8 + r.Intn(300))
	}
	if big {
		batch = int64(1 + r.Intn(40))
	}
	nf, nm := 1+r.Intn(4), 1+r.Intn(4)
	if r.Chance(2) {
		nf = 0
	} else if r.Chance(2) {
		nm = 0
	}
	sp := scanSpec{start: start, max: max, tree: tree, batch: batch, nf: nf, nm: nm}
	sp.opts = genOpts(r)
	sp.kinds = genKinds(r, tree)
	sp.script = genScript(r, start, sp.stop(), batch, nf)
	sp.sched = genSched(r)
	return sp
}

func genScan(r *zv.Rng, big bool) string { return genSpec(r, big).String() }

// ---- cap lines: scans around the capacities of the channels inside Scan --------------------------------------

const (
	capFetches = 1000   // fetches := make(chan fetchRange, 1000)
	capJobs    = 100000 // jobs := make(chan matcherJob, 100000)
)

// genCap builds the 10 fields of a cap line scanning exactly n entries in batches of `batch` (so in
// ceil(n/batch) ranges). Entries are tiny (kind u/r: 5 garbage bytes) with a few real ones sprinkled in; a few
// ranges — among them the ones around the 1000th — get scripted faults.
func genCap(r *zv.Rng, n, batch int64) string {
	var start int64
	if r.Chance(35) {
		start = int64(1 + r.Intn(40))
	}
	stop := start + n
	sp := scanSpec{start: start, tree: stop, batch: batch}
	if r.Chance(50) {
		sp.max = stop
		sp.tree = stop + int64(r.Intn(5))
	}
	if stop == 0 {
		sp.max = 0
	}
	sp.nf, sp.nm = 1+r.Intn(4), 1+r.Intn(4)
	if r.Chance(15) {
		sp.nf = []int{8, 16, 32}[r.Intn(3)]
	}
	if r.Chance(10) {
		sp.nm = []int{8, 16}[r.Intn(2)]
	}
	sp.opts = genOpts(r)
	switch {
	case r.Chance(45):
		sp.kinds = "u"
	case n > 20000: // keep big logs cheap: one real entry in 40-200
		sp.kinds = strings.Repeat("u", 20+r.Intn(80)) + string(rig.Kinds[r.Intn(len(rig.Kinds))]) + strings.Repeat("r", 20+r.Intn(80))
	default:
		pat := make([]byte, 2+r.Intn(8))
		for i := range pat {
			pat[i] = 'u'
			if r.Chance(30) {
				pat[i] = rig.Kinds[r.Intn(len(rig.Kinds))]
			}
		}
		sp.kinds = string(pat)
	}
	rs := (n + batch - 1) / batch
	idx := map[int64]bool{}
	if rs > 0 {
		for _, i := range []int64{0, rs - 1, capFetches - 2, capFetches - 1, capFetches, capFetches + 1} {
			if i >= 0 && i < rs && r.Chance(50) {
				idx[i] = true
			}
		}
		for k := 0; k < 4; k++ {
			idx[int64(r.Intn(int(rs)))] = true
		}
	}
	var ids []int64
	for i := range idx {
		ids = append(ids, i)
	}
	sort.Slice(ids, func(a, b int) bool { return ids[a] < ids[b] })
	var parts []string
	for _, i := range ids {
		s0 := start + i*batch
		e0 := s0 + batch - 1
		if e0 > stop-1 {
			e0 = stop - 1
		}
		parts = append(parts, fmt.Sprintf("%d:%s", e0, genToks(r, int(e0-s0)+1)))
	}
	sp.script = "-"
	if len(parts) > 0 {
		sp.script = strings.Join(parts, "/")
	}
	sp.sched = genSched(r)
	return sp.String()
}

// entriesFor picks an entry count that needs exactly nr ranges of size batch.
func entriesFor(r *zv.Rng, nr, batch int64) int64 {
	if nr <= 0 {
		return 0
	}
	if r.Chance(40) {
		return nr * batch
	}
	return (nr-1)*batch + 1 + int64(r.Intn(int(batch)))
}

func genCaps(g *zv.Gen) {
	r := g.Rng
	emit := func(nr, batch int64) { g.Emit("c17 cap " + genCap(r, entriesFor(r, nr, batch), batch)) }
	// --- the fetches channel: 1000 ranges
	for _, nr := range []int64{capFetches - 1, capFetches, capFetches + 1, capFetches + 2} {
		emit(nr, 1)
	}
	emit(capFetches, int64(2+r.Intn(3)))
	emit(capFetches+1, int64(2+r.Intn(3)))
	emit(2*capFetches+1, 1)
	for i := 0; i < g.N(3, 60); i++ {
		emit(int64(capFetches-10+r.Intn(23)), int64(1+r.Intn(5)))
	}
	if !g.Quick {
		for nr := int64(capFetches - 4); nr <= capFetches+5; nr++ {
			for _, b := range []int64{1, 2, 5} {
				emit(nr, b)
			}
		}
		for _, nr := range []int64{2*capFetches - 1, 2 * capFetches, 2*capFetches + 2, 3 * capFetches, 3*capFetches + 1, 4*capFetches + 1} {
			emit(nr, int64(1+r.Intn(3)))
		}
	}
	// --- the jobs channel: 100000 entries (T3-only lines: too big for the model's quadratic sorts)
	jobsN := []int64{capJobs, capJobs + 1}
	if !g.Quick {
		jobsN = []int64{capJobs - 2, capJobs - 1, capJobs, capJobs + 1, capJobs + 2, capJobs + 3, capJobs + 100, capJobs + capJobs/2, 2*capJobs + 1}
	}
	for _, n := range jobsN {
		reps := g.N(1, 2)
		for k := 0; k < reps; k++ {
			b := []int64{1000, 5000, 33334, capJobs, capJobs + 1, 2 * capJobs, 500}[r.Intn(7)] // at most a few thousand requests per line
			if g.Quick {
				b = []int64{1000, 5000, capJobs + 1}[r.Intn(3)]
			}
			g.Emit("c17 cap " + genCap(r, n, b))
		}
	}
	// both at once: more than 1000 ranges AND more than 100000 entries …
	g.Emit("c17 cap " + genCap(r, entriesFor(r, capFetches+1, 100), 100))
	// … and so many of both that the ranges do not fit into `fetches` even after the fetchers (at most 32 here,
	// each holding one range) have taken as many as it takes to fill `jobs`: (ranges-1000-fetchers)*batch > 100000.
	// Queueing all ranges then needs running matchers, not only running fetchers.
	g.Emit("c17 cap " + genCap(r, entriesFor(r, 2*capFetches+100, 100), 100))
	if !g.Quick {
		// the default BatchSize against a log of a million entries (every real log)
		g.Emit("c17 cap " + genCap(r, capFetches*1000+1, 1000))
		g.Emit("c17 cap " + genCap(r, capFetches*1000, 1000))
		g.Emit("c17 cap " + genCap(r, entriesFor(r, capFetches+200, 1000), 1000))
		g.Emit("c17 cap " + genCap(r, entriesFor(r, 3*capFetches+1+int64(r.Intn(50)), 50), 50))
	}
}

// ---- seq lines: consecutive scans on one Scanner value ---------------------------------------------------------

// genSeq returns `<n> <10 fields>*n`. sameOptsOnly keeps the Scanner options identical in all scans (pure reuse
// through the public API; only the log behind the client changes) — required for the -race runs, where replacing
// the options through the hook would itself be an unsynchronised write.
func genSeq(r *zv.Rng, sameOptsOnly bool) string {
	n := 2 + r.Intn(2)
	first := genSpec(r, r.Chance(5))
	mode := r.Intn(4)
	if sameOptsOnly {
		mode = r.Intn(2) * 4 // 0 or 4
	}
	specs := []scanSpec{first}
	for i := 1; i < n; i++ {
		prev := specs[i-1]
		var sp scanSpec
		switch mode {
		case 0: // identical reuse: same options, same log, fresh server script
			sp = prev
			sp.script = genScript(r, sp.start, sp.stop(), sp.batch, sp.nf)
		case 1: // monitor loop: the log has grown, the next scan continues at the previous return value
			sp = prev
			sp.start = prev.stop()
			if sp.start < prev.start {
				sp.start = prev.start
			}
			grow := int64(r.Intn(14))
			if sp.start > prev.tree {
				grow += sp.start - prev.tree
			}
			sp.tree = prev.tree + grow
			sp.kinds = prev.kinds + genKinds(r, grow)
			sp.max = 0
			if r.Chance(30) && sp.tree > sp.start {
				sp.max = sp.start + 1 + int64(r.Intn(int(sp.tree-sp.start)))
			}
			sp.script = genScript(r, sp.start, sp.stop(), sp.batch, sp.nf)
		case 2: // other start / max on the same log
			sp = prev
			sp.start, sp.max = 0, 0
			if sp.tree > 0 && r.Chance(70) {
				sp.start = int64(r.Intn(int(sp.tree) + 1))
			}
			if sp.tree > 0 && r.Chance(50) {
				sp.max = int64(r.Intn(int(sp.tree))) + 1
			}
			if r.Chance(30) {
				sp.batch = int64(1 + r.Intn(7))
			}
			sp.script = genScript(r, sp.start, sp.stop(), sp.batch, sp.nf)
		case 3: // unrelated scan (other log, other options)
			sp = genSpec(r, false)
		case 4: // same options, other log (grown or replaced); start and max stay
			sp = prev
			if r.Chance(50) {
				grow := int64(r.Intn(14))
				sp.tree += grow
				sp.kinds += genKinds(r, grow)
			} else {
				sp.tree = int64(r.Intn(40))
				sp.kinds = genKinds(r, sp.tree)
			}
			if sp.max > sp.tree { // keep the scan inside the log
				sp.tree = sp.max
				sp.kinds = genKinds(r, sp.tree)
			}
			sp.script = genScript(r, sp.start, sp.stop(), sp.batch, sp.nf)
		}
		sp.sched = genSched(r)
		specs = append(specs, sp)
	}
	var parts []string
	for _, sp := range specs {
		parts = append(parts, sp.String())
	}
	return fmt.Sprintf("%d %s", n, strings.Join(parts, " "))
}

func gen(g *zv.Gen) {
	// fixed corner cases
	for _, l := range []string{
		"0 0 0 1 1 1 --a - - -",
		"0 0 1 1 1 1 --a a - 0",
		"0 0 5 2 2 2 --a apapa 1:e,1,t,1/3:1/4:e,e 0123",
		"3 0 3 2 1 1 --a aaa - -",
		"5 0 3 2 1 1 --a aaa - -",
		"2 9 10 3 3 2 -Is abnuvpqrsa 4:1,1,1/7:e,2/8:t 7654321",
		"0 0 9 4 1 4 PIs abnuvpqrs 3:5,e/7:1/8:1 11",
		"0 0 9 9 4 1 --n abnuvpqrs 8:1,e,1,t,1,1,1,1,1,1 22",
		"0 0 4 1 0 2 --a abab - -",
		"0 0 4 1 2 0 --a abab - -",
	} {
		g.Emit("c17 scan " + l)
	}
	// the 500 / empty-answer paths sleep 500 ms each: a handful only
	g.Emit("c17 scan 0 0 4 2 2 2 --a apap 1:f,1/3:0,e 5")
	n := g.N(800, 20000)
	for i := 0; i < n; i++ {
		g.Emit("c17 scan " + genScan(g.Rng, false))
	}
	for i := 0; i < g.N(30, 500); i++ {
		g.Emit("c17 scan " + genScan(g.Rng, true))
	}
	// scans around the capacities of the internal channels of Scan
	genCaps(g)
	// 2-3 consecutive scans on one Scanner value
	for _, l := range []string{
		"2 0 0 5 2 2 2 --a apapa - - 0 0 5 2 2 2 --a apapa - -",
		"2 5 0 37 10 2 2 --a " + strings.Repeat("a", 37) + " - - 5 0 37 10 2 2 --a " + strings.Repeat("a", 37) + " - 01",
		"3 0 4 9 2 1 1 -Is abnuvpqrs 1:e,1 3 4 0 9 2 1 1 -Is abnuvpqrs 5:1,t 1 9 0 9 2 1 1 -Is abnuvpqrs - -",
		"3 2 0 9 3 3 2 PIa abnuvpqrs - - 0 0 3 1 1 1 --n uvr - - 1 0 4 2 2 4 --s psna 2:1 7",
	} {
		g.Emit("c17 seq " + l)
	}
	for i := 0; i < g.N(120, 4000); i++ {
		g.Emit("c17 seq " + genSeq(g.Rng, false))
	}
	// race-detector runs (T3-only): the same kind of scan line, executed by the -race binary
	nr := g.N(100, 1500)
	for i := 0; i < nr; i++ {
		l := genScan(g.Rng, i%8 == 0)
		g.Emit(fmt.Sprintf("c17 race %d %s", 1+g.Rng.Intn(1<<30), l))
	}
	// reuse of one Scanner value under -race (options identical in all scans of a line, see genSeq)
	for i := 0; i < g.N(14, 300); i++ {
		g.Emit(fmt.Sprintf("c17 raceseq %d %s", 1+g.Rng.Intn(1<<30), genSeq(g.Rng, true)))
	}
	// more than 1000 ranges under -race
	for i := 0; i < g.N(1, 6); i++ {
		g.Emit(fmt.Sprintf("c17 racecap %d %s", 1+g.Rng.Intn(1<<30), genCap(g.Rng, capFetches+1+int64(g.Rng.Intn(3)), 1)))
	}
	// one slow scan so that the 1 s progress ticker of Scan runs concurrently with the matchers
	slow := "0 0 40 4 2 3 --s " + strings.Repeat("apbq", 10) + " - -"
	g.Emit("c17 raceslow 7 " + slow)
	// … and the same Scanner value used for a second scan afterwards (GOMAXPROCS 1 / 2 / 8 by the jitter value)
	g.Emit("c17 raceslowseq 9 2 " + slow + " " + slow)
	if !g.Quick {
		g.Emit("c17 raceslow 8 " + slow)
		g.Emit("c17 raceslow 9 " + slow)
		g.Emit("c17 raceslowseq 7 2 " + slow + " " + slow)
		g.Emit("c17 raceslowseq 8 3 " + slow + " " + slow + " " + slow)
	}
}

// ---------------------------------------------------------------------------------------------
// exec
// ---------------------------------------------------------------------------------------------

func execLine(line string) zv.Out {
	f := strings.Fields(line)
	if len(f) < 2 || f[0] != "c17" {
		return zv.Out{Go: "bad-op"}
	}
	switch f[1] {
	case "scan":
		return execScan(f[2:])
	case "cap":
		return execCap(f[2:])
	case "seq":
		return execSeq(f[2:])
	case "race", "raceslow", "racecap", "raceseq", "raceslowseq":
		return execRace(f[1], f[2:])
	}
	return zv.Out{Go: "bad-op"}
}

// runChecked runs the scans (all on one Scanner value) with the watchdog of rig.RunSeq. A hang must reproduce in
// 2 of 3 runs before it is reported (DESIGN §5a risk 5: loaded machine).
func runChecked(cs []*rig.Case, jitter uint64, timeout time.Duration) []*rig.Result {
	hung := func(rs []*rig.Result) bool { return rs[len(rs)-1].TimedOut }
	rs := rig.RunSeq(cs, jitter, timeout)
	if hung(rs) {
		rs2 := rig.RunSeq(cs, jitter, timeout)
		if hung(rs2) {
			rs = rs2
		} else if rs3 := rig.RunSeq(cs, jitter, timeout); !hung(rs3) {
			rs = rs3
		}
	}
	return rs
}

func jitterOf(c *rig.Case) uint64 {
	if len(c.Sched)%2 == 1 {
		return uint64(len(c.Sched))*7919 + uint64(c.Tree)
	}
	return 0
}

func scanTags(c *rig.Case, r *rig.Result, opts string) ([]string, int, int) {
	nfault := 0
	for _, t := range c.Script {
		nfault += len(t)
	}
	nr := len(rig.RefRanges(c.Start, c.Stop(), c.Batch))
	tags := []string{
		fmt.Sprintf("batch=%s", bucket(int(c.Batch))), fmt.Sprintf("fetchers=%d", c.NF), fmt.Sprintf("matchers=%d", c.NM),
		fmt.Sprintf("ranges=%s", bucket(nr)), fmt.Sprintf("faults=%s", bucket(nfault)), "opts=" + opts,
	}
	if c.Start > 0 {
		tags = append(tags, "start>0")
	}
	if c.Max > 0 {
		tags = append(tags, "max-index")
	}
	if len(r.Reqs) > nr {
		tags = append(tags, "retries")
	}
	return tags, nfault, nr
}

func execScan(f []string) zv.Out {
	c, err := rig.Parse(f)
	if err != nil {
		return zv.Out{Go: "bad-op"}
	}
	r := runChecked([]*rig.Case{c}, jitterOf(c), 60*time.Second)[0]
	tags, nfault, nr := scanTags(c, r, f[6])
	return zv.Out{Go: r.Canon(), Viol: rig.Oracle(c, r), Tags: tags, Trivial: nfault == 0 && nr <= 1}
}

func rel(n, capacity int) string {
	switch {
	case n < capacity:
		return "below"
	case n == capacity:
		return "at"
	}
	return "above"
}

// execCap: a scan line with a kind pattern. Lines small enough for the model are compared with it (T2);
// the others (the 100000-entry ones) are T3-only.
func execCap(f []string) zv.Out {
	c, err := rig.ParseCap(f)
	if err != nil {
		return zv.Out{Go: "bad-op"}
	}
	start, stop := c.Start, c.Stop()
	if stop < start {
		stop = start
	}
	n := stop - start
	nr := 0
	if c.Batch > 0 {
		nr = int((n + c.Batch - 1) / c.Batch)
	}
	r := runChecked([]*rig.Case{c}, jitterOf(c), 90*time.Second+time.Duration(c.Tree/10000+int64(nr)/100)*time.Second)[0]
	tags := []string{
		"cap-line", "cap-fetches(1000-ranges)=" + rel(nr, capFetches), "cap-jobs(100000-entries)=" + rel(int(n), capJobs),
		fmt.Sprintf("fetchers=%d", c.NF), fmt.Sprintf("matchers=%d", c.NM), "opts=" + f[6],
	}
	out := zv.Out{Viol: rig.Oracle(c, r), Tags: tags}
	if out.Viol != "" && r.TimedOut {
		out.Viol += fmt.Sprintf(" [%d ranges (fetches channel holds %d), %d entries (jobs channel holds %d), %d fetchers, %d matchers]",
			nr, capFetches, n, capJobs, c.NF, c.NM)
	}
	if nr <= 4200 && c.Tree <= 13000 {
		out.Go = r.Canon()
		out.Tags = append(out.Tags, "cap-T2")
	} else {
		out.Tags = append(out.Tags, "cap-T3-only")
	}
	return out
}

// execSeq: n consecutive scans on one Scanner value; every scan is held against the single-scan expectation
// of its own case (oracle) and against the model run on the counters the previous scan left behind (T2).
func execSeq(f []string) zv.Out {
	cs, err := rig.ParseSeq(f)
	if err != nil {
		return zv.Out{Go: "bad-op"}
	}
	rs := runChecked(cs, jitterOf(cs[0]), 60*time.Second)
	tags := []string{fmt.Sprintf("seq=%d", len(cs))}
	same, sameLog := true, true
	for i := 1; i < len(cs); i++ {
		a, b := cs[i-1], cs[i]
		if !rig.SameOpts(a, b) {
			same = false
		}
		if a.Kinds != b.Kinds {
			sameLog = false
		}
		if b.Start != a.Start {
			tags = append(tags, "seq-start-changes")
		}
	}
	if same {
		tags = append(tags, "seq-same-options(no-hook)")
	} else {
		tags = append(tags, "seq-options-replaced")
	}
	if sameLog {
		tags = append(tags, "seq-same-log")
	} else {
		tags = append(tags, "seq-other-log")
	}
	for i, c := range cs {
		if i > 0 && c.NF > 0 && c.NM > 0 && cs[i-1].NF > 0 && cs[i-1].NM > 0 && cs[i-1].Stop() > cs[i-1].Start && c.Stop() > c.Start {
			tags = append(tags, "seq-nonempty-after-nonempty")
			break
		}
	}
	return zv.Out{Go: rig.CanonSeq(rs), Viol: rig.OracleSeq(cs, rs), Tags: tags}
}

func bucket(n int) string {
	switch {
	case n <= 7:
		return fmt.Sprint(n)
	case n <= 15:
		return "8-15"
	case n <= 63:
		return "16-63"
	}
	return "64+"
}

// ---- the race-instrumented runner -------------------------------------------------------------

var (
	raceOnce sync.Once
	raceBin  string
	raceErr  string
)

func goDir() string {
	_, file, _, ok := runtime.Caller(0)
	if ok {
		d := filepath.Dir(filepath.Dir(filepath.Dir(file))) // …/go
		if _, err := os.Stat(filepath.Join(d, "go.mod")); err == nil {
			return d
		}
	}
	if exe, err := os.Executable(); err == nil { // <verif>/.build/zvharness
		d := filepath.Join(filepath.Dir(filepath.Dir(exe)), "go")
		if _, err := os.Stat(filepath.Join(d, "go.mod")); err == nil {
			return d
		}
	}
	return ""
}

func goEnv() []string {
	var env []string
	for _, kv := range os.Environ() {
		k := strings.SplitN(kv, "=", 2)[0]
		switch k {
		case "GOFLAGS", "GOPROXY", "GOTOOLCHAIN", "GOSUMDB", "GONOSUMDB", "GONOSUMCHECK", "GOMEMLIMIT", "GORACE", "GOMAXPROCS":
			continue
		}
		env = append(env, kv)
	}
	return append(env, "GOFLAGS=-mod=mod", "GOPROXY=off")
}

func buildRace() {
	d := goDir()
	if d == "" {
		raceErr = "cannot locate the harness source directory (go.mod) to build the -race runner"
		return
	}
	// one binary per harness source tree: private copies of the framework checking different zcrypto worktrees at
	// the same time must not replace each other's runner
	h := fnv.New32a()
	h.Write([]byte(d))
	final := filepath.Join(os.TempDir(), fmt.Sprintf("zv-c17-racecmd-%08x", h.Sum32()))
	out := fmt.Sprintf("%s.%d", final, os.Getpid())
	cmd := exec.Command("go", "build", "-race", "-tags", "verif", "-o", out, "./props/c17/racecmd")
	cmd.Dir = d
	cmd.Env = goEnv()
	b, err := cmd.CombinedOutput()
	if err != nil {
		raceErr = "go build -race failed: " + err.Error() + "\n" + string(b)
		return
	}
	// atomic replace: concurrent runs keep executing the inode they started; no per-run litter in TempDir
	if err := os.Rename(out, final); err != nil {
		raceBin = out
		return
	}
	raceBin = final
}

func execRace(kind string, f []string) zv.Out {
	switch kind {
	case "raceseq", "raceslowseq":
		if len(f) < 2 {
			return zv.Out{Go: "bad-op"}
		}
		if _, err := rig.ParseSeq(f[1:]); err != nil {
			return zv.Out{Go: "bad-op"}
		}
	default:
		if len(f) != 11 {
			return zv.Out{Go: "bad-op"}
		}
	}
	o := execRace1(kind, f)
	if len(o.Tags) > 0 && o.Tags[0] == "race-timeout" {
		o2 := execRace1(kind, f)
		if len(o2.Tags) > 0 && o2.Tags[0] == "race-timeout" {
			return o2
		}
		if o3 := execRace1(kind, f); !(len(o3.Tags) > 0 && o3.Tags[0] == "race-timeout") {
			return o3
		}
	}
	return o
}

func execRace1(kind string, f []string) zv.Out {
	raceOnce.Do(buildRace)
	if raceErr != "" {
		return zv.Out{Viol: raceErr, Tags: []string{"race-build-failed"}}
	}
	jv, _ := strconv.ParseUint(f[0], 10, 64)
	procs := []string{"1", "2", "8"}[jv%3]
	cmd := exec.Command(raceBin, append([]string{kind}, f...)...)
	cmd.Env = append(goEnv(), "GORACE=halt_on_error=0 exitcode=66", "GOMAXPROCS="+procs)
	var stdout, stderr bytes.Buffer
	cmd.Stdout, cmd.Stderr = &stdout, &stderr
	done := make(chan error, 1)
	if err := cmd.Start(); err != nil {
		return zv.Out{Viol: "cannot start race runner: " + err.Error()}
	}
	go func() { done <- cmd.Wait() }()
	var werr error
	select {
	case werr = <-done:
	case <-time.After(120 * time.Second):
		cmd.Process.Kill()
		<-done
		return zv.Out{Viol: "race runner did not finish within 120 s (deadlock?)\n" + tail(stderr.String(), 1500), Tags: []string{"race-timeout"}}
	}
	tags := []string{"race-run", "race-GOMAXPROCS=" + procs, "race-kind=" + kind}
	se := stderr.String()
	if strings.Contains(se, "WARNING: DATA RACE") {
		// one report per run; when there are several, prefer one that is not the reset-vs-progress-goroutine race of
		// a reused Scanner (Scan's own plain write against atomic.LoadInt64), so that it cannot mask another race
		var reps []string
		for _, blk := range strings.Split(se, "==================") {
			if i := strings.Index(blk, "WARNING: DATA RACE"); i >= 0 {
				reps = append(reps, summarise(blk[i:]))
			}
		}
		rep := reps[0]
		for _, r := range reps {
			if !(strings.Contains(r, "scanner.(*Scanner).Scan()\n") && strings.Contains(r, "sync/atomic.LoadInt64()")) {
				rep = r
				break
			}
		}
		return zv.Out{Viol: "data race reported by the race detector while scanning:\n" + rep, Tags: append(tags, "DATA-RACE")}
	}
	so := strings.TrimSpace(stdout.String())
	if werr != nil || !strings.HasPrefix(so, "ok") {
		return zv.Out{Viol: "race runner: " + fmt.Sprint(werr) + " " + tail(so, 600) + "\n" + tail(se, 1200), Tags: append(tags, "race-run-failed")}
	}
	return zv.Out{Tags: tags}
}

func tail(s string, n int) string {
	if len(s) > n {
		return "…" + s[len(s)-n:]
	}
	return s
}

// summarise keeps the access lines and the first frames of a race report.
func summarise(rep string) string {
	var out []string
	lines := strings.Split(rep, "\n")
	for i := 0; i < len(lines) && len(out) < 14; i++ {
		l := strings.TrimRight(lines[i], " ")
		if strings.HasPrefix(l, "WARNING") {
			out = append(out, l)
			continue
		}
		if strings.HasPrefix(l, "Read at") || strings.HasPrefix(l, "Write at") ||
			strings.HasPrefix(l, "Previous") || strings.HasPrefix(l, "Goroutine") {
			out = append(out, l)
			for k := 1; k <= 4 && i+k < len(lines); k++ {
				if strings.TrimSpace(lines[i+k]) == "" {
					break
				}
				out = append(out, "  "+strings.TrimSpace(lines[i+k]))
			}
		}
	}
	return strings.Join(out, "\n")
}
