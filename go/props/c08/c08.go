// Package c08: CertPool (x509/cert_pool.go) as a fingerprint-keyed ordered set, over universes of
// real certificates; findVerifiedParents through the verif hook ZVFindVerifiedParents.
package c08

import (
	"bytes"
	"encoding/pem"
	"fmt"
	"sort"
	"strconv"
	"strings"
	"sync"

	"github.com/zmap/zcrypto/x509"

	"zv/internal/zv"
)

const nRegs = 3

// Universe: a handful of real certificates (index = uid) with shared subjects, shared key ids and one
// duplicate DER (a second *Certificate object parsed from the same bytes).
type Universe struct {
	Certs []*x509.Certificate
	DER   [][]byte
	FP    []int // fingerprint identity (first index with the same DER)
	Subj  []int
	Iss   []int
	SKID  []int
	AKID  []int
	Chk   [][]bool // Chk[i][j]: Certs[i].CheckSignatureFrom(Certs[j]) == nil
	Fresh []*x509.Certificate // a further parse of every DER (stands for the objects AppendCertsFromPEM creates, in the reference)
	names *Interner
	kids  *Interner
}

var (
	uniMu sync.Mutex
	unis  = map[uint64]*Universe{}
)

func handSpecs() []CertSpec {
	ku := x509.KeyUsageCertSign
	return []CertSpec{
		{Subject: 1, Key: 1, SKID: 1, IssuerName: 1, AKID: 0, SignKey: 1, Serial: 0, BCValid: true, IsCA: true, MaxPathLen: -1, KeyUsage: ku},  // root R
		{Subject: 1, Key: 2, SKID: 2, IssuerName: 1, AKID: 2, SignKey: 2, Serial: 1, BCValid: true, IsCA: true, MaxPathLen: -1},                // root R' (same subject, other key)
		{Subject: 2, Key: 3, SKID: 3, IssuerName: 1, AKID: 1, SignKey: 1, Serial: 2, BCValid: true, IsCA: true, MaxPathLen: 0, KeyUsage: ku},   // I by R
		{Subject: 2, Key: 3, SKID: 3, IssuerName: 1, AKID: 2, SignKey: 2, Serial: 3, BCValid: true, IsCA: true, MaxPathLen: -1},                // I' (same subject+key+skid) by R'
		{Subject: 3, Key: 4, SKID: 0, IssuerName: 2, AKID: 3, SignKey: 3, Serial: 4, MaxPathLen: -1},                                          // leaf by I key (AKID lookup: 2 and 3 both verify)
		{Subject: 1, Key: 4, SKID: 0, IssuerName: 2, AKID: 0, SignKey: 1, Serial: 5, BCValid: true, IsCA: false, MaxPathLen: -1},               // no SKID/AKID, subject R, issuer I, bad signature (name lookup)
	}
}

func randSpecs(r *zv.Rng) []CertSpec {
	var specs []CertSpec
	for i := 0; i < 6; i++ {
		s := CertSpec{Subject: 1 + r.Intn(3), Key: 1 + r.Intn(4), Serial: i, MaxPathLen: -1}
		switch r.Intn(10) {
		case 0, 1:
			s.SKID = 0
		case 2, 3, 4:
			s.SKID = 1 + r.Intn(3)
		default:
			s.SKID = 10 + s.Key
		}
		j := r.Intn(i + 1)
		if j == i {
			s.IssuerName, s.SignKey = s.Subject, s.Key
			if r.Chance(50) {
				s.AKID = s.SKID
			}
		} else {
			p := specs[j]
			s.IssuerName, s.SignKey = p.Subject, p.Key
			switch r.Intn(4) {
			case 0:
				s.AKID = 0
			case 1:
				s.AKID = 1 + r.Intn(3)
			default:
				s.AKID = p.SKID
			}
		}
		if r.Chance(20) {
			s.SignKey = 1 + r.Intn(4) // possibly a bad signature
		}
		s.BCValid = r.Chance(75)
		s.IsCA = s.BCValid && r.Chance(75)
		switch r.Intn(5) {
		case 0:
			s.KeyUsage = x509.KeyUsageCertSign
		case 1:
			s.KeyUsage = x509.KeyUsageDigitalSignature
		}
		specs = append(specs, s)
	}
	return specs
}

// GetUniverse builds (once) the universe with the given seed; seed 0 is the hand-made one.
func GetUniverse(seed uint64) *Universe {
	uniMu.Lock()
	defer uniMu.Unlock()
	if u, ok := unis[seed]; ok {
		return u
	}
	var specs []CertSpec
	if seed == 0 {
		specs = handSpecs()
	} else {
		specs = randSpecs(zv.NewRng(seed * 7919))
	}
	u := &Universe{names: NewInterner(), kids: NewInterner()}
	for _, s := range specs {
		der, err := MintDER(s)
		if err != nil {
			panic(fmt.Sprintf("c08: cannot mint %+v: %v", s, err))
		}
		u.DER = append(u.DER, der)
	}
	u.DER = append(u.DER, u.DER[0]) // duplicate DER, distinct object
	for _, der := range u.DER {
		c, err := x509.ParseCertificate(der)
		if err != nil {
			panic("c08: minted certificate does not parse: " + err.Error())
		}
		u.Certs = append(u.Certs, c)
		c2, _ := x509.ParseCertificate(der)
		u.Fresh = append(u.Fresh, c2)
	}
	for i, c := range u.Certs {
		fp := i
		for j := 0; j < i; j++ {
			if bytes.Equal(u.DER[j], u.DER[i]) {
				fp = j
				break
			}
		}
		u.FP = append(u.FP, fp+1)
		u.Subj = append(u.Subj, u.names.ID(c.RawSubject))
		u.Iss = append(u.Iss, u.names.ID(c.RawIssuer))
		u.SKID = append(u.SKID, u.kids.ID(c.SubjectKeyId))
		u.AKID = append(u.AKID, u.kids.ID(c.AuthorityKeyId))
	}
	for i := range u.Certs {
		row := make([]bool, len(u.Certs))
		for j := range u.Certs {
			row[j] = u.Certs[i].CheckSignatureFrom(u.Certs[j]) == nil
		}
		u.Chk = append(u.Chk, row)
	}
	unis[seed] = u
	return u
}

// Desc is the abstract universe sent to the model: per certificate fp:subject:issuer:skid:akid, and the chk matrix.
func (u *Universe) Desc() string {
	var cs, rows []string
	for i := range u.Certs {
		cs = append(cs, fmt.Sprintf("%d:%d:%d:%d:%d", u.FP[i], u.Subj[i], u.Iss[i], u.SKID[i], u.AKID[i]))
		var sb strings.Builder
		for _, b := range u.Chk[i] {
			if b {
				sb.WriteByte('1')
			} else {
				sb.WriteByte('0')
			}
		}
		rows = append(rows, sb.String())
	}
	return strings.Join(cs, ";") + " " + strings.Join(rows, ";")
}

// uid of a certificate object found in a pool: universe index, or 100 + index of the first
// universe certificate with the same DER for objects created by AppendCertsFromPEM.
func (u *Universe) uid(c *x509.Certificate) int {
	for i, x := range u.Certs {
		if x == c {
			return i
		}
	}
	for i, d := range u.DER {
		if bytes.Equal(d, c.Raw) {
			return 100 + i
		}
	}
	return -1
}

func (u *Universe) pemFor(tokens []string) []byte {
	var out []byte
	for _, t := range tokens {
		switch t[0] {
		case 'c':
			i, _ := strconv.Atoi(t[1:])
			out = append(out, pem.EncodeToMemory(&pem.Block{Type: "CERTIFICATE", Bytes: u.DER[i]})...)
		case 'g':
			out = append(out, []byte("this is not PEM at all\n-----BEGIN nothing\n")...)
		case 'n':
			out = append(out, pem.EncodeToMemory(&pem.Block{Type: "X509 CRL", Bytes: u.DER[1]})...)
		case 'h':
			out = append(out, pem.EncodeToMemory(&pem.Block{Type: "CERTIFICATE", Headers: map[string]string{"Proc-Type": "4,ENCRYPTED"}, Bytes: u.DER[2]})...)
		case 'u':
			out = append(out, pem.EncodeToMemory(&pem.Block{Type: "CERTIFICATE", Bytes: u.DER[3][:len(u.DER[3])/2]})...)
		case 't':
			out = append(out, pem.EncodeToMemory(&pem.Block{Type: "CERTIFICATE", Bytes: append(append([]byte{}, u.DER[4]...), 0)})...)
		default:
			panic("c08: bad pem token " + t)
		}
	}
	return out
}

// ---- T3 reference: ordered set keyed by fingerprint ----
type refPool struct {
	certs []*x509.Certificate
}

func (r *refPool) has(c *x509.Certificate) bool {
	for _, x := range r.certs {
		if bytes.Equal(x.FingerprintSHA256, c.FingerprintSHA256) {
			return true
		}
	}
	return false
}
func (r *refPool) add(c *x509.Certificate) {
	if !r.has(c) {
		r.certs = append(r.certs, c)
	}
}

func bit(b bool) byte {
	if b {
		return '1'
	}
	return '0'
}

func exec(line string) zv.Out {
	f := strings.Fields(line)
	useed, _ := strconv.ParseUint(f[1], 10, 64)
	u := GetUniverse(useed)
	if got := u.Desc(); got != f[2]+" "+f[3] {
		panic("c08: universe description on the case line does not match the regenerated universe")
	}
	regs := make([]*x509.CertPool, nRegs)
	refs := make([]*refPool, nRegs)
	for i := 0; i < 2; i++ {
		regs[i], refs[i] = x509.NewCertPool(), &refPool{}
	}
	viol := ""
	fail := func(format string, a ...any) {
		if viol == "" {
			viol = fmt.Sprintf(format, a...)
		}
	}
	var pemRes []byte
	tags := map[string]bool{}
	ops := strings.Split(f[4], ",")
	if f[4] == "-" {
		ops = nil
	}
	for k, op := range ops {
		args := strings.Split(op[1:], ":")
		switch op[0] {
		case 'a':
			r, _ := strconv.Atoi(args[0])
			i, _ := strconv.Atoi(args[1])
			if refs[r].has(u.Certs[i]) {
				tags["add-duplicate"] = true
			}
			regs[r].AddCert(u.Certs[i])
			refs[r].add(u.Certs[i])
		case 'p':
			r, _ := strconv.Atoi(args[0])
			toks := strings.Split(args[1], ".")
			before := regs[r].Size()
			ok := regs[r].AppendCertsFromPEM(u.pemFor(toks))
			wantOK := false
			for _, t := range toks {
				if t[0] == 'c' {
					wantOK = true
					i, _ := strconv.Atoi(t[1:])
					if !refs[r].has(u.Certs[i]) {
						// a fresh object parsed from the PEM text; compare by DER below
						refs[r].add(u.Fresh[i])
					}
				} else {
					tags["pem-skip-"+t[:1]] = true
				}
			}
			if ok != wantOK {
				fail("op %d %s: AppendCertsFromPEM returned %v, want %v (a certificate block was parsed iff ok)", k, op, ok, wantOK)
			}
			if regs[r].Size() > before {
				tags["pem-added"] = true
			}
			pemRes = append(pemRes, bit(ok))
		case 's':
			d, _ := strconv.Atoi(args[0])
			a, _ := strconv.Atoi(args[1])
			b, _ := strconv.Atoi(args[2])
			if regs[a] == nil || regs[b] == nil {
				tags["sum-with-nil"] = true
			}
			sum := regs[a].Sum(regs[b])
			ref := &refPool{}
			if refs[a] != nil {
				for _, c := range refs[a].certs {
					ref.add(c)
				}
			}
			if refs[b] != nil {
				for _, c := range refs[b].certs {
					ref.add(c)
				}
			}
			regs[d], refs[d] = sum, ref
		default:
			panic("c08: bad op " + op)
		}
	}
	// ---- observation (T2 output) and oracle (T3)
	var parts []string
	for r := 0; r < nRegs; r++ {
		p := regs[r]
		if p == nil {
			parts = append(parts, "nil")
			if p.Size() != 0 {
				fail("nil pool has Size %d", p.Size())
			}
			continue
		}
		certs := p.Certificates()
		subs := p.Subjects()
		var ids, ss []string
		for _, c := range certs {
			ids = append(ids, strconv.Itoa(u.uid(c)))
		}
		for _, s := range subs {
			ss = append(ss, strconv.Itoa(u.names.ID(s)))
		}
		parts = append(parts, fmt.Sprintf("%d/%s/%s", p.Size(), strings.Join(ids, "."), strings.Join(ss, ".")))
		// T3: the pool is exactly the reference ordered set
		ref := refs[r]
		if p.Size() != len(ref.certs) || len(certs) != len(ref.certs) || len(subs) != len(ref.certs) {
			fail("pool %d: Size=%d len(Certificates)=%d len(Subjects)=%d, but %d distinct fingerprints were added", r, p.Size(), len(certs), len(subs), len(ref.certs))
		} else {
			for i, c := range certs {
				if !bytes.Equal(c.Raw, ref.certs[i].Raw) {
					fail("pool %d: Certificates()[%d] is not the %d-th distinct certificate in first-insertion order", r, i, i)
				}
				if u.uid(c) < 100 && c != ref.certs[i] {
					fail("pool %d: Certificates()[%d] is not the first-inserted object for its fingerprint", r, i)
				}
				if !bytes.Equal(subs[i], c.RawSubject) {
					fail("pool %d: Subjects()[%d] differs from Certificates()[%d].RawSubject", r, i, i)
				}
			}
		}
		// T3: index maps point at the right positions
		bySKID, byName, bySHA := p.ZVIndex()
		for i, c := range certs {
			if n, ok := bySHA[string(c.FingerprintSHA256)]; !ok || n != i {
				fail("pool %d: bySHA256 of certs[%d] = %d,%v", r, i, n, ok)
			}
			found := false
			for _, n := range byName[string(c.RawSubject)] {
				found = found || n == i
			}
			if !found {
				fail("pool %d: byName does not list certs[%d]", r, i)
			}
		}
		if len(bySHA) != len(certs) {
			fail("pool %d: bySHA256 has %d keys for %d certificates", r, len(bySHA), len(certs))
		}
		for _, m := range []map[string][]int{bySKID, byName} {
			for _, l := range m {
				if !sort.IntsAreSorted(l) {
					fail("pool %d: an index list is not ascending: %v", r, l)
				}
				for _, n := range l {
					if n < 0 || n >= len(certs) {
						fail("pool %d: index %d out of range", r, n)
					}
				}
			}
		}
	}
	var cb, vb []byte
	for r := 0; r < nRegs; r++ {
		for i, c := range u.Certs {
			got := regs[r].Contains(c)
			cb = append(cb, bit(got))
			want := refs[r] != nil && refs[r].has(c)
			if got != want {
				fail("pool %d: Contains(cert %d) = %v, want %v", r, i, got, want)
			}
		}
	}
	for a := 0; a < nRegs; a++ {
		for b := 0; b < nRegs; b++ {
			got := regs[a].Covers(regs[b])
			vb = append(vb, bit(got))
			want := true
			if refs[b] != nil {
				for _, c := range refs[b].certs {
					if refs[a] == nil || !refs[a].has(c) {
						want = false
					}
				}
			}
			if got != want {
				fail("pool %d Covers pool %d = %v, want %v", a, b, got, want)
			}
		}
	}
	var pp []string
	for r := 0; r < nRegs; r++ {
		for i, c := range u.Certs {
			parents, errCert, err := regs[r].ZVFindVerifiedParents(c)
			var ps []string
			for _, n := range parents {
				ps = append(ps, strconv.Itoa(n))
				// T3: only pool members whose signature over the child verifies
				if n < 0 || n >= regs[r].Size() {
					fail("findVerifiedParents(pool %d, cert %d) returned index %d outside the pool", r, i, n)
				} else {
					par := regs[r].Certificates()[n]
					ok := false
					if j := u.uid(par); j >= 0 && j < 100 {
						ok = u.Chk[i][j] // CheckSignatureFrom(child i, universe object j), computed once with the real function
					} else {
						ok = c.CheckSignatureFrom(par) == nil
					}
					if !ok {
						fail("findVerifiedParents(pool %d, cert %d) returned member %d whose signature check over the child fails", r, i, n)
					}
				}
			}
			if len(parents) > 0 {
				tags["parents-found"] = true
			}
			if len(parents) > 1 {
				tags["parents-multiple"] = true
			}
			ec := "-"
			if errCert != nil {
				ec = strconv.Itoa(u.uid(errCert))
				tags["parents-rejected-candidate"] = true
			}
			pp = append(pp, fmt.Sprintf("%s/%s/%c", strings.Join(ps, "."), ec, bit(err == nil)))
		}
	}
	out := strings.Join(parts, "|") + "|C=" + string(cb) + "|V=" + string(vb) + "|P=" + strings.Join(pp, ",") + "|M=" + string(pemRes)
	tl := []string{fmt.Sprintf("ops=%d", len(ops)), fmt.Sprintf("universe=%d", useed)}
	for t := range tags {
		tl = append(tl, t)
	}
	sort.Strings(tl)
	return zv.Out{Go: out, Viol: viol, Tags: tl}
}

func gen(g *zv.Gen) {
	r := g.Rng
	emit := func(useed uint64, ops []string) {
		o := "-"
		if len(ops) > 0 {
			o = strings.Join(ops, ",")
		}
		g.Emitf("c08 %d %s %s", useed, GetUniverse(useed).Desc(), o)
	}
	// exhaustive short histories over a fixed op alphabet, on the hand-made universe and a random one
	var alpha []string
	for i := 0; i < 7; i++ {
		alpha = append(alpha, fmt.Sprintf("a0:%d", i))
	}
	alpha = append(alpha, "a1:1", "a1:3", "a1:6",
		"p0:c2.g.c2.c4", "p1:n.c0.u.h.c5", "p0:g.u.t",
		"s2:0:1", "s0:1:0", "s1:2:0")
	for k, useed := range []uint64{0, 1 + g.Seed%1000} {
		maxlen := g.N(4, 5)
		if k > 0 {
			maxlen = g.N(3, 4)
		}
		var rec func(prefix []string)
		rec = func(prefix []string) {
			emit(useed, prefix)
			if len(prefix) == maxlen {
				return
			}
			for _, a := range alpha {
				rec(append(append([]string{}, prefix...), a))
			}
		}
		rec(nil)
	}
	// random longer histories on many universes
	n := g.N(8000, 300000)
	toks := []string{"g", "n", "h", "u", "t"}
	for i := 0; i < n; i++ {
		useed := uint64(r.Intn(g.N(40, 400)))
		l := 1 + r.Intn(14)
		nilReg := true // register 2 is nil until a Sum is assigned to it
		var ops []string
		for j := 0; j < l; j++ {
			switch k := r.Intn(10); {
			case k < 5:
				reg := r.Intn(nRegs)
				if reg == 2 && nilReg {
					reg = r.Intn(2)
				}
				ops = append(ops, fmt.Sprintf("a%d:%d", reg, r.Intn(7)))
			case k < 7:
				reg := r.Intn(nRegs)
				if reg == 2 && nilReg {
					reg = r.Intn(2)
				}
				var ts []string
				for m, nb := 0, 1+r.Intn(5); m < nb; m++ {
					if r.Chance(55) {
						ts = append(ts, fmt.Sprintf("c%d", r.Intn(7)))
					} else {
						ts = append(ts, toks[r.Intn(len(toks))])
					}
				}
				ops = append(ops, fmt.Sprintf("p%d:%s", reg, strings.Join(ts, ".")))
			default:
				d, a, b := r.Intn(nRegs), r.Intn(nRegs), r.Intn(nRegs)
				ops = append(ops, fmt.Sprintf("s%d:%d:%d", d, a, b))
				if d == 2 {
					nilReg = false
				}
			}
		}
		emit(useed, ops)
	}
}

func init() {
	zv.Register(&zv.Prop{ID: "C08", Topic: "c08", Gen: gen, Exec: exec,
		Rule: "universes of 7 real Ed25519 certificates (6 minted with x509.CreateCertificate + one second object with duplicate DER; universe 0 hand-made with shared subjects, shared key ids, two parents with the same subject+key, a bad signature; the others random) x operation histories over three pool variables (two NewCertPool, one nil): AddCert, AppendCertsFromPEM (blocks: certificate / garbage text / non-certificate block / block with headers / truncated DER / DER with trailing byte), Sum (incl. nil receiver/argument). Exhaustive histories up to length 4 (quick) / 5 (thorough) over a 16-op alphabet on the hand-made universe and up to 3/4 on a seed-dependent random one + random histories up to 14 ops on 40/400 universes. After each history: Size, Certificates, Subjects of every pool, Contains for every universe certificate, Covers for every pair, findVerifiedParents for every pool x certificate. T3 = independent slice-based ordered set keyed by fingerprint, index-map sanity, and CheckSignatureFrom on every returned parent."})
}
