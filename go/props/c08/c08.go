// Package c08: CertPool (x509/cert_pool.go) as a fingerprint-keyed ordered set, over universes of
// real certificates; findVerifiedParents through the verif hook ZVFindVerifiedParents.
package c08

import (
	"bytes"
	"encoding/pem"
	"fmt"
	"sort"
	"strconv"
	"strings"
	"sync"

	"github.com/zmap/zcrypto/x509"

	"zv/internal/zv"
)

const nRegs = 4

// Universe: real certificates (index = uid) with MANY shared subjects and shared key ids (at least four
// distinct certificates with one subject and four with one SubjectKeyId: the index buckets of the pool then
// reach lengths with spare capacity) and one duplicate DER (a second *Certificate object parsed from the same bytes).
type Universe struct {
	Certs []*x509.Certificate
	DER   [][]byte
	FP    []int // fingerprint identity (first index with the same DER)
	Subj  []int
	Iss   []int
	SKID  []int
	AKID  []int
	Chk   [][]bool // Chk[i][j]: Certs[i].CheckSignatureFrom(Certs[j]) == nil
	Fresh []*x509.Certificate // a further parse of every DER (stands for the objects AppendCertsFromPEM creates, in the reference)
	names *Interner
	kids  *Interner

	NameIDs, KidIDs []int          // sorted distinct name ids (subjects and issuers) / non-empty key ids (SKID and AKID)
	nameKey, kidKey map[int]string // id -> raw bytes (the key of the pool's index maps)
	SubjClass       []int          // certificates (distinct fingerprints) of the most frequent subject
	KidClass        []int          // certificates (distinct fingerprints) of the most frequent non-empty SubjectKeyId
	desc            string
	pemChecked      sync.Map // token list -> true: the rendered PEM text was checked against the tokens
	parentsMemo     sync.Map // pool state -> []string: findVerifiedParents results of intermediate observations
}

var (
	uniMu sync.Mutex
	unis  = map[uint64]*Universe{}
)

func handSpecs() []CertSpec {
	ku := x509.KeyUsageCertSign
	return []CertSpec{
		{Subject: 1, Key: 1, SKID: 1, IssuerName: 1, AKID: 0, SignKey: 1, Serial: 0, BCValid: true, IsCA: true, MaxPathLen: -1, KeyUsage: ku},  // 0 root R
		{Subject: 1, Key: 2, SKID: 2, IssuerName: 1, AKID: 2, SignKey: 2, Serial: 1, BCValid: true, IsCA: true, MaxPathLen: -1},                // 1 root R' (same subject, other key)
		{Subject: 2, Key: 3, SKID: 3, IssuerName: 1, AKID: 1, SignKey: 1, Serial: 2, BCValid: true, IsCA: true, MaxPathLen: 0, KeyUsage: ku},   // 2 I by R
		{Subject: 2, Key: 3, SKID: 3, IssuerName: 1, AKID: 2, SignKey: 2, Serial: 3, BCValid: true, IsCA: true, MaxPathLen: -1},                // 3 I' (same subject+key+skid) by R'
		{Subject: 3, Key: 4, SKID: 0, IssuerName: 2, AKID: 3, SignKey: 3, Serial: 4, MaxPathLen: -1},                                          // 4 leaf by I key (AKID lookup: 2 and 3 both verify)
		{Subject: 1, Key: 4, SKID: 0, IssuerName: 2, AKID: 0, SignKey: 1, Serial: 5, BCValid: true, IsCA: false, MaxPathLen: -1},               // 5 no SKID/AKID, subject R, issuer I, bad signature (name lookup)
		{Subject: 1, Key: 5, SKID: 1, IssuerName: 1, AKID: 1, SignKey: 5, Serial: 6, BCValid: true, IsCA: true, MaxPathLen: -1},                // 6 R2: subject and key id of R, own key, self-signed
		{Subject: 1, Key: 6, SKID: 1, IssuerName: 1, AKID: 1, SignKey: 1, Serial: 7, BCValid: true, IsCA: true, MaxPathLen: -1},                // 7 R3: subject and key id of R, issued by R
		{Subject: 1, Key: 7, SKID: 1, IssuerName: 1, AKID: 0, SignKey: 7, Serial: 8, BCValid: true, IsCA: true, MaxPathLen: -1},                // 8 R4: subject and key id of R, own key, self-signed
		{Subject: 4, Key: 8, SKID: 4, IssuerName: 1, AKID: 1, SignKey: 5, Serial: 9, MaxPathLen: -1},                                          // 9 child of R2 (AKID lookup among the four members with key id 1)
		{Subject: 5, Key: 9, SKID: 0, IssuerName: 1, AKID: 0, SignKey: 7, Serial: 10, MaxPathLen: -1},                                         // 10 child of R4 (name lookup among the six members with subject 1)
	}
}

// randSpecs: 9..11 certificates; certificates 0..4 share subject 1, certificates 2..6 share key id 1, the rest
// is drawn with a universe-specific bias towards that subject / key id.
func randSpecs(r *zv.Rng) []CertSpec {
	var specs []CertSpec
	n := 9 + r.Intn(3)
	pSubj, pKid := 30+r.Intn(60), 20+r.Intn(60)
	for i := 0; i < n; i++ {
		s := CertSpec{Subject: 2 + r.Intn(2), Key: 1 + r.Intn(6), Serial: i, MaxPathLen: -1}
		if i <= 4 || r.Chance(pSubj) {
			s.Subject = 1
		}
		switch {
		case (i >= 2 && i <= 6) || r.Chance(pKid):
			s.SKID = 1
		case r.Chance(15):
			s.SKID = 0
		case r.Chance(30):
			s.SKID = 2 + r.Intn(2)
		default:
			s.SKID = 10 + s.Key
		}
		j := r.Intn(i + 1)
		if j == i {
			s.IssuerName, s.SignKey = s.Subject, s.Key
			if r.Chance(50) {
				s.AKID = s.SKID
			}
		} else {
			p := specs[j]
			s.IssuerName, s.SignKey = p.Subject, p.Key
			switch r.Intn(4) {
			case 0:
				s.AKID = 0
			case 1:
				s.AKID = 1 + r.Intn(3)
			default:
				s.AKID = p.SKID
			}
		}
		if r.Chance(20) {
			s.SignKey = 1 + r.Intn(6) // possibly a bad signature
		}
		s.BCValid = r.Chance(75)
		s.IsCA = s.BCValid && r.Chance(75)
		switch r.Intn(5) {
		case 0:
			s.KeyUsage = x509.KeyUsageCertSign
		case 1:
			s.KeyUsage = x509.KeyUsageDigitalSignature
		}
		specs = append(specs, s)
	}
	return specs
}

// GetUniverse builds (once) the universe with the given seed; seed 0 is the hand-made one.
func GetUniverse(seed uint64) *Universe {
	uniMu.Lock()
	defer uniMu.Unlock()
	if u, ok := unis[seed]; ok {
		return u
	}
	var specs []CertSpec
	if seed == 0 {
		specs = handSpecs()
	} else {
		specs = randSpecs(zv.NewRng(seed * 7919))
	}
	u := &Universe{names: NewInterner(), kids: NewInterner(), nameKey: map[int]string{}, kidKey: map[int]string{}}
	for _, s := range specs {
		der, err := MintDER(s)
		if err != nil {
			panic(fmt.Sprintf("c08: cannot mint %+v: %v", s, err))
		}
		u.DER = append(u.DER, der)
	}
	u.DER = append(u.DER, u.DER[0]) // duplicate DER, distinct object
	for _, der := range u.DER {
		c, err := x509.ParseCertificate(der)
		if err != nil {
			panic("c08: minted certificate does not parse: " + err.Error())
		}
		u.Certs = append(u.Certs, c)
		c2, _ := x509.ParseCertificate(der)
		u.Fresh = append(u.Fresh, c2)
	}
	note := func(in *Interner, keys map[int]string, b []byte) int {
		id := in.ID(b)
		keys[id] = string(b)
		return id
	}
	for i, c := range u.Certs {
		fp := i
		for j := 0; j < i; j++ {
			if bytes.Equal(u.DER[j], u.DER[i]) {
				fp = j
				break
			}
		}
		u.FP = append(u.FP, fp+1)
		u.Subj = append(u.Subj, note(u.names, u.nameKey, c.RawSubject))
		u.Iss = append(u.Iss, note(u.names, u.nameKey, c.RawIssuer))
		u.SKID = append(u.SKID, note(u.kids, u.kidKey, c.SubjectKeyId))
		u.AKID = append(u.AKID, note(u.kids, u.kidKey, c.AuthorityKeyId))
	}
	for id := range u.nameKey {
		if id != 0 {
			u.NameIDs = append(u.NameIDs, id)
		}
	}
	for id := range u.kidKey {
		if id != 0 {
			u.KidIDs = append(u.KidIDs, id)
		}
	}
	sort.Ints(u.NameIDs)
	sort.Ints(u.KidIDs)
	class := func(ids []int, skipZero bool) []int {
		var best []int
		seen := map[int]bool{}
		for _, id := range ids {
			if seen[id] || (skipZero && id == 0) {
				continue
			}
			seen[id] = true
			var l []int
			for i := range ids {
				if ids[i] == id && u.FP[i] == i+1 {
					l = append(l, i)
				}
			}
			if len(l) > len(best) {
				best = l
			}
		}
		return best
	}
	u.SubjClass, u.KidClass = class(u.Subj, false), class(u.SKID, true)
	if len(u.SubjClass) < 4 || len(u.KidClass) < 4 {
		panic("c08: universe without four same-subject / four same-key-id certificates")
	}
	for i := range u.Certs {
		row := make([]bool, len(u.Certs))
		for j := range u.Certs {
			row[j] = u.Certs[i].CheckSignatureFrom(u.Certs[j]) == nil
		}
		u.Chk = append(u.Chk, row)
	}
	u.desc = u.mkDesc()
	unis[seed] = u
	return u
}

// Desc is the abstract universe sent to the model: per certificate fp:subject:issuer:skid:akid, and the chk matrix.
func (u *Universe) Desc() string { return u.desc }

func (u *Universe) mkDesc() string {
	var cs, rows []string
	for i := range u.Certs {
		cs = append(cs, fmt.Sprintf("%d:%d:%d:%d:%d", u.FP[i], u.Subj[i], u.Iss[i], u.SKID[i], u.AKID[i]))
		var sb strings.Builder
		for _, b := range u.Chk[i] {
			if b {
				sb.WriteByte('1')
			} else {
				sb.WriteByte('0')
			}
		}
		rows = append(rows, sb.String())
	}
	return strings.Join(cs, ";") + " " + strings.Join(rows, ";")
}

// uid of a certificate object found in a pool: universe index, or 100 + index of the first
// universe certificate with the same DER for objects created by AppendCertsFromPEM.
func (u *Universe) uid(c *x509.Certificate) int {
	for i, x := range u.Certs {
		if x == c {
			return i
		}
	}
	for i, d := range u.DER {
		if bytes.Equal(d, c.Raw) {
			return 100 + i
		}
	}
	return -1
}

// A PEM token of the case line: `g` = text that is not PEM (pem.Decode yields no block for it), else
// `<hex of block.Type>_<len(block.Headers)>_<body>` with body c<i> (DER of certificate i), u<i> (first half of it),
// t<i> (DER + one trailing byte), e (no bytes).
type pemTok struct {
	garbage bool
	typ     string
	nh      int
	kind    byte
	idx     int
}

func tk(typ string, nh int, body string) string {
	h := "-"
	if typ != "" {
		h = fmt.Sprintf("%x", typ)
	}
	return fmt.Sprintf("%s_%d_%s", h, nh, body)
}

func parseTok(t string) pemTok {
	if t == "g" {
		return pemTok{garbage: true}
	}
	f := strings.Split(t, "_")
	if len(f) != 3 || len(f[2]) == 0 {
		panic("c08: bad pem token " + t)
	}
	var typ []byte
	if f[0] != "-" {
		if _, err := fmt.Sscanf(f[0], "%x", &typ); err != nil {
			panic("c08: bad pem token " + t)
		}
	}
	nh, err := strconv.Atoi(f[1])
	if err != nil {
		panic("c08: bad pem token " + t)
	}
	tok := pemTok{typ: string(typ), nh: nh, kind: f[2][0]}
	if tok.kind != 'e' {
		if tok.idx, err = strconv.Atoi(f[2][1:]); err != nil {
			panic("c08: bad pem token " + t)
		}
	}
	return tok
}

// accepted is the harness's own reading of the AppendCertsFromPEM contract (T3 reference, independent of the
// model): a block counts iff it is a header-less "CERTIFICATE" block whose bytes are a certificate.
func (t pemTok) accepted() bool {
	return !t.garbage && t.typ == "CERTIFICATE" && t.nh == 0 && t.kind == 'c'
}

func anyAccepted(toks []string) bool {
	for _, t := range toks {
		if parseTok(t).accepted() {
			return true
		}
	}
	return false
}

func (u *Universe) body(t pemTok) []byte {
	switch t.kind {
	case 'c':
		return u.DER[t.idx]
	case 'u':
		return u.DER[t.idx][:len(u.DER[t.idx])/2]
	case 't':
		return append(append([]byte{}, u.DER[t.idx]...), 0)
	case 'e':
		return nil
	}
	panic("c08: bad pem body")
}

// pemFor renders the tokens as PEM text and checks (harness sanity, not a property of zcrypto) that encoding/pem
// sees exactly the blocks the case line describes and that ParseCertificate fails on exactly the u/t/e bodies.
func (u *Universe) pemFor(tokens []string) []byte {
	var out []byte
	var blocks []pemTok
	for _, t := range tokens {
		tok := parseTok(t)
		if tok.garbage {
			out = append(out, []byte("this is not PEM at all\n-----BEGIN nothing\n")...)
			continue
		}
		var hd map[string]string
		if tok.nh > 0 {
			hd = map[string]string{}
			for i := 0; i < tok.nh; i++ {
				hd[fmt.Sprintf("Zv-Header-%d", i)] = "4,ENCRYPTED"
			}
		}
		enc := pem.EncodeToMemory(&pem.Block{Type: tok.typ, Headers: hd, Bytes: u.body(tok)})
		if enc == nil {
			panic("c08: cannot encode pem token " + t)
		}
		out = append(out, enc...)
		blocks = append(blocks, tok)
	}
	if _, ok := u.pemChecked.Load(strings.Join(tokens, ".")); !ok {
		rest := out
		for i := 0; ; i++ {
			var b *pem.Block
			b, rest = pem.Decode(rest)
			if b == nil {
				if i != len(blocks) {
					panic(fmt.Sprintf("c08: harness: pem.Decode sees %d blocks in %v", i, tokens))
				}
				break
			}
			if i >= len(blocks) || b.Type != blocks[i].typ || len(b.Headers) != blocks[i].nh || !bytes.Equal(b.Bytes, u.body(blocks[i])) {
				panic(fmt.Sprintf("c08: harness: pem.Decode block %d of %v is not what the case line describes", i, tokens))
			}
			if _, err := x509.ParseCertificate(b.Bytes); (err == nil) != (blocks[i].kind == 'c') {
				panic(fmt.Sprintf("c08: harness: ParseCertificate on block %d of %v: %v", i, tokens, err))
			}
		}
		u.pemChecked.Store(strings.Join(tokens, "."), true)
	}
	return out
}

// ---- T3 reference: ordered set keyed by fingerprint (a VALUE: Sum builds a new one from copies) ----
type refPool struct {
	certs []*x509.Certificate
}

func (r *refPool) has(c *x509.Certificate) bool {
	for _, x := range r.certs {
		if bytes.Equal(x.FingerprintSHA256, c.FingerprintSHA256) {
			return true
		}
	}
	return false
}
func (r *refPool) add(c *x509.Certificate) {
	if !r.has(c) {
		r.certs = append(r.certs, c)
	}
}

func bit(b bool) byte {
	if b {
		return '1'
	}
	return '0'
}

func dots(l []int) string {
	ss := make([]string, len(l))
	for i, x := range l {
		ss[i] = strconv.Itoa(x)
	}
	return strings.Join(ss, ".")
}

func sameInts(a, b []int) bool {
	if len(a) != len(b) {
		return false
	}
	for i := range a {
		if a[i] != b[i] {
			return false
		}
	}
	return true
}

// realParents calls the real findVerifiedParents of pool p for every universe certificate; the strings
// are `parents/errCert/errNil` (T2). T3: only members whose signature over the child verifies are
// returned, and (the characterisation proved as parents_sound) exactly the verifying lookup candidates.
func (u *Universe) realParents(p *x509.CertPool, certs []*x509.Certificate, where string, fail func(string, ...any), tags map[string]bool) []string {
	var pp []string
	uids := make([]int, len(certs))
	for i, c := range certs {
		uids[i] = u.uid(c)
	}
	for i, c := range u.Certs {
		// the call writes child.ValidSignature: run it on a private shallow copy of the child (the universe objects are
		// shared between concurrent cases); before the call the flag is set for odd i, clear for even i
		cc := *c
		cc.ValidSignature = i%2 == 1
		parents, errCert, err := p.ZVFindVerifiedParents(&cc)
		// T3: ValidSignature is set iff a parent was found, and never cleared
		if cc.ValidSignature != (i%2 == 1 || len(parents) > 0) {
			fail("%s: findVerifiedParents(cert %d) left ValidSignature=%v (before: %v) with %d verified parents", where, i, cc.ValidSignature, i%2 == 1, len(parents))
		}
		if cc.ValidSignature && i%2 == 0 {
			tags["parents-set-ValidSignature"] = true
		}
		for _, n := range parents {
			// T3: only pool members whose signature over the child verifies
			if n < 0 || n >= len(certs) {
				fail("%s: findVerifiedParents(cert %d) returned index %d outside the pool", where, i, n)
				continue
			}
			ok := false
			if j := uids[n]; j >= 0 {
				ok = u.Chk[i][j%100] // CheckSignatureFrom(child i, certificate with the DER of universe object j), computed once with the real function
			} else {
				ok = c.CheckSignatureFrom(certs[n]) == nil
			}
			if !ok {
				fail("%s: findVerifiedParents(cert %d) returned member %d whose signature check over the child fails", where, i, n)
			}
		}
		// T3: every member that is a lookup candidate (key id of the child's AKID if some member has it, else
		// the child's issuer name) and verifies the child is returned, in pool order
		var bySK, byNm, want []int
		for n, m := range certs {
			if len(c.AuthorityKeyId) > 0 && bytes.Equal(m.SubjectKeyId, c.AuthorityKeyId) {
				bySK = append(bySK, n)
			}
			if bytes.Equal(m.RawSubject, c.RawIssuer) {
				byNm = append(byNm, n)
			}
		}
		cand := bySK
		if len(cand) == 0 {
			cand = byNm
		}
		for _, n := range cand {
			if j := uids[n]; j >= 0 && u.Chk[i][j%100] {
				want = append(want, n)
			}
		}
		if !sameInts(parents, want) {
			fail("%s: findVerifiedParents(cert %d) = %v, but the pool members that are lookup candidates and verify the child are %v", where, i, parents, want)
		}
		if len(parents) > 0 {
			tags["parents-found"] = true
		}
		if len(parents) > 1 {
			tags["parents-multiple"] = true
		}
		ec := "-"
		if errCert != nil {
			ec = strconv.Itoa(u.uid(errCert))
			tags["parents-rejected-candidate"] = true
		}
		pp = append(pp, fmt.Sprintf("%s/%s/%c/%c", dots(parents), ec, bit(err == nil), bit(cc.ValidSignature)))
	}
	return pp
}

// observePool: the full observation of one live pool (T2 text) and the T3 oracle against the reference.
// final=false: the findVerifiedParents results of a pool STATE (certificate objects + the three index maps, which
// is all the function reads) are computed with the real function once per universe and reused for equal states.
func (u *Universe) observePool(p *x509.CertPool, ref *refPool, where string, final bool, fail func(string, ...any), tags map[string]bool) string {
	certs := p.Certificates()
	subs := p.Subjects()
	ids := make([]int, len(certs))
	ss := make([]int, len(subs))
	for i, c := range certs {
		ids[i] = u.uid(c)
	}
	for i, s := range subs {
		ss[i] = u.names.ID(s)
	}
	// T3: the pool is exactly the reference ordered set
	if p.Size() != len(ref.certs) || len(certs) != len(ref.certs) || len(subs) != len(ref.certs) {
		fail("%s: Size=%d len(Certificates)=%d len(Subjects)=%d, but %d distinct fingerprints were added", where, p.Size(), len(certs), len(subs), len(ref.certs))
	} else {
		for i, c := range certs {
			if !bytes.Equal(c.Raw, ref.certs[i].Raw) {
				fail("%s: Certificates()[%d] is not the %d-th distinct certificate in first-insertion order", where, i, i)
			}
			if ids[i] < 100 && c != ref.certs[i] {
				fail("%s: Certificates()[%d] is not the first-inserted object for its fingerprint", where, i)
			}
			if !bytes.Equal(subs[i], c.RawSubject) {
				fail("%s: Subjects()[%d] differs from Certificates()[%d].RawSubject", where, i, i)
			}
		}
	}
	var cb []byte
	for i, c := range u.Certs {
		got := p.Contains(c)
		cb = append(cb, bit(got))
		if want := ref.has(c); got != want {
			fail("%s: Contains(cert %d) = %v, want %v", where, i, got, want)
		}
	}
	// T3: the index maps are EXACTLY the positions computed from certs (nothing missing, nothing foreign)
	bySKID, byName, bySHA := p.ZVIndex()
	wantName, wantSKID := map[string][]int{}, map[string][]int{}
	for i, c := range certs {
		if n, ok := bySHA[string(c.FingerprintSHA256)]; !ok || n != i {
			fail("%s: bySHA256 of certs[%d] = %d,%v", where, i, n, ok)
		}
		wantName[string(c.RawSubject)] = append(wantName[string(c.RawSubject)], i)
		if len(c.SubjectKeyId) > 0 {
			wantSKID[string(c.SubjectKeyId)] = append(wantSKID[string(c.SubjectKeyId)], i)
		}
	}
	if len(bySHA) != len(certs) {
		fail("%s: bySHA256 has %d keys for %d certificates", where, len(bySHA), len(certs))
	}
	for _, x := range []struct {
		what      string
		got, want map[string][]int
	}{{"byName", byName, wantName}, {"bySubjectKeyId", bySKID, wantSKID}} {
		for k, l := range x.want {
			if !sameInts(x.got[k], l) {
				fail("%s: %s bucket is %v, but the members with that subject / key id are at %v (a member is missed by parent lookup, or a foreign index is looked up)", where, x.what, x.got[k], l)
			}
			if len(l) >= 4 {
				tags["bucket>=4-"+x.what] = true
			}
		}
		for k, l := range x.got {
			if _, ok := x.want[k]; !ok {
				fail("%s: %s has a bucket %v for a subject / key id no member has", where, x.what, l)
			}
		}
	}
	var in, ik []string
	for _, id := range u.NameIDs {
		in = append(in, dots(byName[u.nameKey[id]]))
	}
	for _, id := range u.KidIDs {
		ik = append(ik, dots(bySKID[u.kidKey[id]]))
	}
	state := fmt.Sprintf("%d/%s/%s/C=%s/N=%s/K=%s", p.Size(), dots(ids), dots(ss), cb, strings.Join(in, ","), strings.Join(ik, ","))
	var pp []string
	if !final {
		if v, ok := u.parentsMemo.Load(state); ok {
			pp = v.([]string)
		}
	}
	if pp == nil {
		viol := false
		pp = u.realParents(p, certs, where, func(f string, a ...any) { viol = true; fail(f, a...) }, tags)
		if !viol {
			u.parentsMemo.Store(state, pp)
		}
	}
	return state + "/P=" + strings.Join(pp, ",")
}

func exec(line string) zv.Out {
	f := strings.Fields(line)
	useed, _ := strconv.ParseUint(f[1], 10, 64)
	u := GetUniverse(useed)
	if got := u.Desc(); got != f[2]+" "+f[3] {
		panic("c08: universe description on the case line does not match the regenerated universe")
	}
	regs := make([]*x509.CertPool, nRegs)
	refs := make([]*refPool, nRegs)
	for i := 0; i < 2; i++ {
		regs[i], refs[i] = x509.NewCertPool(), &refPool{}
	}
	viol := ""
	fail := func(format string, a ...any) {
		if viol == "" {
			viol = fmt.Sprintf(format, a...)
		}
	}
	var pemRes []byte
	tags := map[string]bool{}
	ops := strings.Split(f[4], ",")
	if f[4] == "-" {
		ops = nil
	}
	// ---- observation of EVERY live pool (T2 text, delta-encoded: "=" for a variable whose observation is the
	// same text as after the previous operation) and oracle (T3), called after every operation
	prev := make([]string, nRegs)
	var steps []string
	observe := func(k int, final bool) {
		where := "initially"
		if k >= 0 {
			where = fmt.Sprintf("after op %d %s", k, ops[k])
		}
		var parts []string
		for r := 0; r < nRegs; r++ {
			p := regs[r]
			var o string
			if p == nil {
				o = "nil"
				if p.Size() != 0 {
					fail("nil pool has Size %d", p.Size())
				}
				for i, c := range u.Certs {
					if p.Contains(c) {
						fail("nil pool Contains(cert %d)", i)
					}
				}
				for _, v0 := range []bool{false, true} {
					cc := *u.Certs[0]
					cc.ValidSignature = v0
					if ps, ec, err := p.ZVFindVerifiedParents(&cc); len(ps) != 0 || ec != nil || err != nil || cc.ValidSignature != v0 {
						fail("nil pool returns parents or touches ValidSignature")
					}
				}
			} else {
				o = u.observePool(p, refs[r], fmt.Sprintf("%s: pool %d", where, r), final, fail, tags)
			}
			if k >= 0 && o == prev[r] {
				parts = append(parts, "=")
			} else {
				parts = append(parts, o)
			}
			prev[r] = o
		}
		var vb []byte
		for a := 0; a < nRegs; a++ {
			for b := 0; b < nRegs; b++ {
				got := regs[a].Covers(regs[b])
				vb = append(vb, bit(got))
				want := true
				if refs[b] != nil {
					for _, c := range refs[b].certs {
						if refs[a] == nil || !refs[a].has(c) {
							want = false
						}
					}
				}
				if got != want {
					fail("%s: pool %d Covers pool %d = %v, want %v", where, a, b, got, want)
				}
			}
		}
		steps = append(steps, strings.Join(parts, "|")+"|V="+string(vb))
	}
	observe(-1, len(ops) == 0)
	role := map[*x509.CertPool]string{} // what an earlier Sum made of this pool object
	grew := func(r, before int) {
		if regs[r].Size() > before {
			if w, ok := role[regs[r]]; ok {
				tags["mutated-after-sum-"+w] = true
			}
		}
	}
	for k, op := range ops {
		args := strings.Split(op[1:], ":")
		if r, _ := strconv.Atoi(args[0]); op[0] == 'a' && args[1] == "n" {
			// AddCert(nil): explicit panic, tested before the receiver is touched (so also on a nil receiver)
			var val any
			func() {
				defer func() { val = recover() }()
				regs[r].AddCert(nil)
			}()
			tag := "addcert-nil-cert-panic"
			if regs[r] == nil {
				tag = "addcert-nil-cert-nil-receiver-panic"
			}
			if val == nil {
				return zv.Out{Go: "no-panic", Tags: []string{"addcert-nil-cert-no-panic"}}
			}
			v := ""
			if msg, ok := val.(string); !ok || msg != "adding nil Certificate to CertPool" {
				v = fmt.Sprintf("op %d %s: AddCert(nil) panics with %v instead of its documented message (nil dereference?)", k, op, val)
			}
			return zv.Out{Go: "panic", Viol: v, Tags: []string{tag}}
		} else if regs[r] == nil && (op[0] == 'a' || (op[0] == 'p' && anyAccepted(strings.Split(args[1], ".")))) {
			// a certificate is added through a nil *CertPool: the code dereferences nil (the model says panic). The
			// generators only produce this deliberately; the shrinker may produce it by deleting the Sum that made
			// the variable live.
			panicked := func() (p bool) {
				defer func() { p = recover() != nil }()
				if op[0] == 'a' {
					i, _ := strconv.Atoi(args[1])
					regs[r].AddCert(u.Certs[i])
				} else {
					regs[r].AppendCertsFromPEM(u.pemFor(strings.Split(args[1], ".")))
				}
				return false
			}()
			if panicked {
				return zv.Out{Go: "panic", Tags: []string{"nil-receiver-panic-" + op[:1]}}
			}
			return zv.Out{Go: "no-panic", Tags: []string{"nil-receiver-no-panic"}} // differs from the model's "panic": reported through T2
		}
		switch op[0] {
		case 'a':
			r, _ := strconv.Atoi(args[0])
			i, _ := strconv.Atoi(args[1])
			if refs[r].has(u.Certs[i]) {
				tags["add-duplicate"] = true
			}
			before := regs[r].Size()
			regs[r].AddCert(u.Certs[i])
			refs[r].add(u.Certs[i])
			grew(r, before)
		case 'p':
			r, _ := strconv.Atoi(args[0])
			toks := strings.Split(args[1], ".")
			before := regs[r].Size()
			ok := regs[r].AppendCertsFromPEM(u.pemFor(toks))
			wantOK := false
			for _, t := range toks {
				tok := parseTok(t)
				switch {
				case tok.accepted():
					wantOK = true
					if !refs[r].has(u.Certs[tok.idx]) {
						// a fresh object parsed from the PEM text; compare by DER below
						refs[r].add(u.Fresh[tok.idx])
					}
				case tok.garbage:
					tags["pem-garbage-text"] = true
				case tok.typ != "CERTIFICATE":
					tags["pem-skip-type"] = true
					if strings.EqualFold(strings.TrimSpace(tok.typ), "CERTIFICATE") || strings.Contains(tok.typ, "CERTIFICATE") {
						tags["pem-skip-type-near-miss"] = true
					}
				case tok.nh != 0:
					tags[fmt.Sprintf("pem-skip-headers-%d", tok.nh)] = true
				default:
					tags["pem-skip-unparsable-"+string(tok.kind)] = true
				}
			}
			if regs[r] == nil {
				tags["pem-nil-receiver-nothing-accepted"] = true
			}
			tags[fmt.Sprintf("pem-ok-%v", ok)] = true
			if ok != wantOK {
				fail("op %d %s: AppendCertsFromPEM returned %v, want %v (a certificate block was parsed iff ok)", k, op, ok, wantOK)
			}
			if regs[r] != nil && regs[r].Size() > before {
				tags["pem-added"] = true
				grew(r, before)
			}
			pemRes = append(pemRes, bit(ok))
		case 's':
			d, _ := strconv.Atoi(args[0])
			a, _ := strconv.Atoi(args[1])
			b, _ := strconv.Atoi(args[2])
			if regs[a] == nil || regs[b] == nil {
				tags["sum-with-nil"] = true
			}
			sum := regs[a].Sum(regs[b])
			ref := &refPool{}
			if refs[a] != nil {
				for _, c := range refs[a].certs {
					ref.add(c)
				}
			}
			if refs[b] != nil {
				for _, c := range refs[b].certs {
					ref.add(c)
				}
			}
			// T3: Sum returns a NEW pool
			for r := 0; r < nRegs; r++ {
				if sum == nil || (regs[r] != nil && regs[r] == sum) {
					fail("op %d %s: Sum returned nil or one of the existing pools instead of a new pool", k, op)
				}
			}
			if regs[a] != nil && regs[a].Size() > 0 {
				role[regs[a]] = "receiver"
			}
			if regs[b] != nil && regs[b].Size() > 0 && regs[b] != regs[a] {
				role[regs[b]] = "argument"
			}
			if sum != nil {
				if _, ok := role[sum]; !ok {
					role[sum] = "result"
				}
			}
			regs[d], refs[d] = sum, ref
		default:
			panic("c08: bad op " + op)
		}
		observe(k, k == len(ops)-1)
	}
	out := strings.Join(steps, "#") + "#M=" + string(pemRes)
	tl := []string{fmt.Sprintf("ops=%d", len(ops)), fmt.Sprintf("universe=%d", useed)}
	for t := range tags {
		tl = append(tl, t)
	}
	sort.Strings(tl)
	return zv.Out{Go: out, Viol: viol, Tags: tl}
}

// live tracks which pool variables are non-nil along a generated history (variables 2.. are nil until a Sum is
// assigned to them; a method call that writes through a nil *CertPool would be a nil dereference).
type live [nRegs]bool

func newLive() live { return live{true, true} }

// admit reports whether op can run without dereferencing a nil pool, and marks the destination of a Sum live.
func (l *live) admit(op string) bool {
	args := strings.Split(op[1:], ":")
	r, _ := strconv.Atoi(args[0])
	switch op[0] {
	case 'a':
		return l[r] && args[1] != "n"
	case 'p':
		return l[r] || !anyAccepted(strings.Split(args[1], "."))
	case 's':
		l[r] = true
	}
	return true
}

func gen(g *zv.Gen) {
	r := g.Rng
	emit := func(useed uint64, ops []string) {
		o := "-"
		if len(ops) > 0 {
			o = strings.Join(ops, ",")
		}
		g.Emitf("c08 %d %s %s", useed, GetUniverse(useed).Desc(), o)
	}
	// all histories of exactly `depth` further operations over `alpha` after `prefix` (every prefix of a history
	// is observed inside the case, so only the leaves are emitted)
	exhaust := func(useed uint64, prefix []string, alpha []string, depth int) {
		var rec func(h []string, l live, d int)
		rec = func(h []string, l live, d int) {
			if d == 0 {
				emit(useed, h)
				return
			}
			for _, a := range alpha {
				l2 := l
				if !l2.admit(a) {
					continue
				}
				rec(append(append([]string{}, h...), a), l2, d-1)
			}
		}
		l := newLive()
		for _, a := range prefix {
			if !l.admit(a) {
				panic("c08: bad prefix")
			}
		}
		rec(prefix, l, depth)
	}
	// PEM tokens: C(i) = header-less CERTIFICATE block with the DER of certificate i, and the four skipped shapes
	C := func(i int) string { return tk("CERTIFICATE", 0, fmt.Sprintf("c%d", i)) }
	tN, tH, tU, tT := tk("X509 CRL", 0, "c1"), tk("CERTIFICATE", 1, "c2"), tk("CERTIFICATE", 0, "u3"), tk("CERTIFICATE", 0, "t4")
	emit(0, nil)
	// AddCert(nil): explicit panic, on a live and on a nil receiver, first or late in a history
	emit(0, []string{"a0:n"})
	emit(0, []string{"a2:n"})
	emit(0, []string{"a0:0", "s2:0:1", "a2:n"})
	emit(0, []string{"a0:0", "p1:" + C(1), "a1:n"})
	// AppendCertsFromPEM through a nil pool variable: no dereference unless a block is accepted
	emit(0, []string{"p2:" + tN + "." + tH + "." + tU + "." + tT + ".g", "p3:" + tk("certificate", 0, "c1"), "p2:" + tk("CERTIFICATE", 2, "c1")})
	emit(0, []string{"p2:" + tN + "." + tH + "." + C(1)})
	emit(0, []string{"p2:" + C(1) + "." + tN})
	// a certificate added through a nil pool variable: nil dereference in code and model alike
	emit(0, []string{"a0:0", "a2:1"})
	emit(0, []string{"a0:0", "p3:g." + C(1)})
	emit(0, []string{"s2:0:1", "a3:1"})
	// (A) exhaustive short histories from the empty pools on the hand-made universe
	alpha := []string{"a0:0", "a0:1", "a0:6", "a0:7", "a0:8", "a0:11", "a0:4", "a1:1", "a1:3", "a1:7", "a1:11",
		"p0:" + C(2) + ".g." + C(2) + "." + C(4), "p1:" + tN + "." + C(0) + "." + tU + "." + tH + "." + C(5), "p0:g." + tU + "." + tT, "p1:" + C(8) + "." + C(10),
		"s2:0:1", "s0:1:0", "s1:2:0", "s3:2:1", "a2:8", "a3:6"}
	exhaust(0, nil, alpha, g.N(3, 4))
	// (B) exhaustive tails after a pre-loaded state: k certificates of one subject (or one key id) in pool 0 -- the
	// bucket lengths 2,3,5 (3 and 5 leave spare capacity in an appended slice) -- and one certificate in pool 1; the
	// tail alphabet sums the pools and then adds further certificates of the same subject / key id to ANY of the pools
	for _, useed := range []uint64{0, 1 + g.Seed%1000} {
		u := GetUniverse(useed)
		for ci, class := range [][]int{u.SubjClass, u.KidClass} {
			ks := []int{2, 3, 5}
			if !g.Quick {
				ks = []int{1, 2, 3, 4, 5, 6, 7}
			}
			for _, k := range ks {
				if k+1 > len(class) {
					continue
				}
				var prefix []string
				for _, c := range class[:k] {
					prefix = append(prefix, fmt.Sprintf("a0:%d", c))
				}
				other := 0
				for other < len(u.Certs)-1 && (u.Subj[other] == u.Subj[class[0]] || u.SKID[other] == u.SKID[class[0]]) {
					other++
				}
				if ci == 1 {
					other = class[len(class)-1] // a certificate of the class itself in the argument pool
				}
				prefix = append(prefix, fmt.Sprintf("a1:%d", other))
				x := class[k]
				y := class[(k+1)%len(class)]
				tail := []string{"s2:0:1", "s2:1:0", "s3:2:0",
					fmt.Sprintf("a0:%d", x), fmt.Sprintf("a1:%d", x), fmt.Sprintf("a2:%d", x), fmt.Sprintf("a3:%d", x),
					fmt.Sprintf("a0:%d", y), fmt.Sprintf("a2:%d", y), "p2:" + C(x)}
				depth := 3
				if !g.Quick && (k == 3 || k == 5) {
					depth = 4
				}
				exhaust(useed, prefix, tail, depth)
			}
		}
	}
	// (C) the sum-then-mutate-both patterns, systematically, on several universes: receiver with k = 1.. certificates
	// of one subject / key id, non-empty argument, then the next certificates of the class added to result,
	// receiver, argument and second-generation sums in every order of a list of tails
	nu := g.N(8, 60)
	for s := 0; s < nu; s++ {
		useed := uint64(s)
		if s > 0 {
			useed = uint64(1 + (int(g.Seed)*131+s*17)%1000)
		}
		u := GetUniverse(useed)
		for _, class := range [][]int{u.SubjClass, u.KidClass} {
			for k := 1; k < len(class) && k <= 7; k++ {
				x, y := class[k], class[(k+1)%len(class)]
				for _, other := range []int{(class[0] + 1) % (len(u.Certs) - 1), class[len(class)-1]} {
					for rcv := 0; rcv < 2; rcv++ { // which variable is the receiver of the Sum
						arg := 1 - rcv
						var pre []string
						for _, c := range class[:k] {
							pre = append(pre, fmt.Sprintf("a%d:%d", rcv, c))
						}
						pre = append(pre, fmt.Sprintf("a%d:%d", arg, other), fmt.Sprintf("s2:%d:%d", rcv, arg))
						tails := [][]string{
							{fmt.Sprintf("a2:%d", x), fmt.Sprintf("a%d:%d", rcv, x)},
							{fmt.Sprintf("a%d:%d", rcv, x), fmt.Sprintf("a2:%d", x)},
							{"p2:" + C(x), fmt.Sprintf("p%d:g.", rcv) + C(x)},
							{fmt.Sprintf("a2:%d", x), fmt.Sprintf("a%d:%d", rcv, y), fmt.Sprintf("a2:%d", y), fmt.Sprintf("a%d:%d", rcv, x)},
							{fmt.Sprintf("s3:2:%d", rcv), fmt.Sprintf("a3:%d", x), fmt.Sprintf("a2:%d", x), fmt.Sprintf("a%d:%d", rcv, x)},
							{fmt.Sprintf("a%d:%d", arg, x), fmt.Sprintf("a2:%d", x), fmt.Sprintf("a%d:%d", rcv, y)},
							{fmt.Sprintf("s%d:2:%d", rcv, arg), fmt.Sprintf("a%d:%d", rcv, x), fmt.Sprintf("a2:%d", x), fmt.Sprintf("s3:%d:2", rcv), fmt.Sprintf("a3:%d", y), fmt.Sprintf("a2:%d", y)},
						}
						for _, t := range tails {
							emit(useed, append(append([]string{}, pre...), t...))
						}
					}
				}
			}
		}
	}
	// (E) AppendCertsFromPEM alone: ALL block lists of length <= 2 over 16 block shapes and of length 3 over 7 of them (thorough: length <= 3 over 20 shapes) -- every
	// combination of {right type, near-miss types, other type, empty type} x {0,1,2 headers} x {DER, truncated, trailing
	// byte, empty} that matters for the three `continue`s -- on a pool that already holds certificate 0, on an empty
	// pool and (only lists without an accepted block) on a nil pool variable
	{
		shapes := []string{C(0), C(1), C(11), tk("CERTIFICATE", 1, "c2"), tk("CERTIFICATE", 2, "c3"), tk("certificate", 0, "c2"),
			tk("CERTIFICATE ", 0, "c2"), tk("TRUSTED CERTIFICATE", 0, "c3"), tk("CERTIFICATE REQUEST", 0, "c3"), tk("X509 CRL", 0, "c4"),
			tk("CERTIFICAT", 0, "c4"), tk("CERTIFICATE", 0, "u1"), tk("CERTIFICATE", 0, "t1"), tk("CERTIFICATE", 0, "e"), tk("X509 CRL", 1, "u2"), "g"}
		if !g.Quick {
			shapes = append(shapes, tk("", 0, "c5"), tk("CERTIFICATES", 0, "c5"), tk(" CERTIFICATE", 0, "c5"), tk("CERTIFICATE", 3, "t5"))
		}
		all := func(shapes []string, minLen, maxLen int) {
			var rec func(l []string)
			rec = func(l []string) {
				if len(l) >= minLen && len(l) > 0 {
					j := strings.Join(l, ".")
					emit(0, []string{"a0:0", "p0:" + j, "p1:" + j})
					if !anyAccepted(l) {
						emit(0, []string{"p2:" + j, "s3:2:2", "p3:" + j})
					}
				}
				if len(l) == maxLen {
					return
				}
				for _, sh := range shapes {
					rec(append(append([]string{}, l...), sh))
				}
			}
			rec(nil)
		}
		if g.Quick {
			all(shapes, 1, 2)
			all([]string{C(0), C(1), tk("CERTIFICATE", 1, "c2"), tk("certificate", 0, "c2"), tk("CERTIFICATE", 0, "u1"), tk("X509 CRL", 0, "c4"), "g"}, 3, 3)
		} else {
			all(shapes, 1, 3)
		}
	}
	// (D) random longer histories on many universes: every operation picks ANY live pool variable (so receivers,
	// arguments and results of earlier Sums keep being mutated), certificates are drawn with a per-history bias
	// towards one subject / key id class
	n := g.N(5000, 100000)
	types := []string{"CERTIFICATE", "CERTIFICATE", "CERTIFICATE", "X509 CRL", "certificate", "CERTIFICATE ", "TRUSTED CERTIFICATE", "CERTIFICAT", "PUBLIC KEY"}
	skipTok := func(nc int) string {
		// a block that must be skipped: wrong type, headers, or unparsable bytes (at least one of the three)
		for {
			typ, nh, kind := types[r.Intn(len(types))], 0, "c"
			if r.Chance(35) {
				nh = 1 + r.Intn(3)
			}
			if r.Chance(40) {
				kind = []string{"u", "t", "e"}[r.Intn(3)]
			}
			body := kind
			if kind != "e" {
				body = fmt.Sprintf("%s%d", kind, r.Intn(nc))
			}
			if t := tk(typ, nh, body); !parseTok(t).accepted() {
				return t
			}
		}
	}
	for i := 0; i < n; i++ {
		useed := uint64(r.Intn(g.N(40, 400)))
		u := GetUniverse(useed)
		class := u.SubjClass
		if r.Chance(50) {
			class = u.KidClass
		}
		bias := 40 + r.Intn(55)
		pick := func() int {
			if r.Chance(bias) {
				return class[r.Intn(len(class))]
			}
			return r.Intn(len(u.Certs))
		}
		l := newLive()
		anyLive := func() int {
			for {
				if x := r.Intn(nRegs); l[x] {
					return x
				}
			}
		}
		var ops []string
		for j, ln := 0, 2+r.Intn(18); j < ln; j++ {
			var op string
			switch k := r.Intn(20); {
			case k < 11:
				op = fmt.Sprintf("a%d:%d", anyLive(), pick())
			case k < 14:
				var ts []string
				for m, nb := 0, 1+r.Intn(4); m < nb; m++ {
					switch {
					case r.Chance(55):
						ts = append(ts, C(pick()))
					case r.Chance(15):
						ts = append(ts, "g")
					default:
						ts = append(ts, skipTok(len(u.Certs)))
					}
				}
				op = fmt.Sprintf("p%d:%s", anyLive(), strings.Join(ts, "."))
			case k == 14:
				// PEM text without certificate on any variable, nil ones included
				op = fmt.Sprintf("p%d:%s.%s", r.Intn(nRegs), skipTok(len(u.Certs)), skipTok(len(u.Certs)))
			default:
				op = fmt.Sprintf("s%d:%d:%d", r.Intn(nRegs), r.Intn(nRegs), r.Intn(nRegs))
			}
			if !l.admit(op) {
				panic("c08: generated an operation on a nil pool")
			}
			ops = append(ops, op)
		}
		emit(useed, ops)
	}
}

func init() {
	zv.Register(&zv.Prop{ID: "C08", Topic: "c08", Gen: gen, Exec: exec,
		Rule: "universes of 10..12 real Ed25519 certificates (minted with x509.CreateCertificate + one second object with duplicate DER; every universe has >= 4 distinct certificates with one subject and >= 4 with one SubjectKeyId; universe 0 hand-made: six same-subject and four same-key-id certificates, two parents with the same subject+key, a bad signature, children found by AKID and by name among them; the others random with a bias to one subject / key id) x operation histories over FOUR pool variables (two NewCertPool, two nil): AddCert (incl. AddCert(nil) on live and nil receivers), AppendCertsFromPEM (PEM text rendered from block descriptions Type x number of headers x body: CERTIFICATE and the near misses certificate / 'CERTIFICATE ' / TRUSTED CERTIFICATE / CERTIFICATE REQUEST / CERTIFICAT, other and empty types; 0..3 headers; DER / truncated DER / DER with trailing byte / empty body; text that is not PEM; the harness checks that encoding/pem sees exactly the described blocks), Sum (incl. nil receiver/argument, destination = any variable), where every later operation may mutate ANY live pool (receiver, argument and result of earlier Sums). (A) all histories of 3 (quick) / 4 (thorough) operations over a 21-op alphabet on the hand-made universe; (B) all 3-operation tails over a 10-op alphabet after pre-loading a pool with 2,3,5 (thorough 1..7; 4-operation tails for 3 and 5) certificates of one subject / key id; (C) systematic sum-then-mutate-both patterns for every receiver bucket length on 8/60 universes; (D) random histories up to 19 ops on 40/400 universes; (E) ALL PEM block lists of length <= 2 over 16 block shapes and of length 3 over 7 (thorough: <= 3 over 20) on a pre-loaded, an empty and a nil pool. After EVERY operation, for EVERY live pool: Size, Certificates, Subjects, Contains for every universe certificate, the three index maps (hook ZVIndex), findVerifiedParents for every universe certificate incl. the child's ValidSignature after the call (flag preset for odd children; real call on a private copy of the child, once per distinct pool state per universe and always after the last operation), Covers for every pair of variables. T3 = independent slice-based ordered set keyed by fingerprint (a value: Sum copies), index maps exactly equal to the positions computed from Certificates(), Sum returns a new pool, CheckSignatureFrom on every returned parent and parents = verifying lookup candidates, ValidSignature set iff a parent was found and never cleared, AppendCertsFromPEM ok iff a header-less CERTIFICATE block with parsable bytes was present, AddCert(nil) panics with its documented message."})
}
