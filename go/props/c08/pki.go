package c08

// Minting of small real PKIs (Ed25519 keys from fixed seeds, deterministic signatures) shared by the
// C08 and C07 harnesses. A certificate is described by a CertSpec; Mint produces the parsed
// *x509.Certificate through x509.CreateCertificate + x509.ParseCertificate.

import (
	"crypto/ed25519"
	"fmt"
	"math/big"
	"sync"
	"time"

	"github.com/zmap/zcrypto/x509"
	"github.com/zmap/zcrypto/x509/pkix"
)

type CertSpec struct {
	Subject    int // name index
	Key        int // subject key index
	SKID       int // 0 = no SubjectKeyId, k = key id value k
	IssuerName int // name index
	AKID       int // 0 = no AuthorityKeyId
	SignKey    int // key that really signs
	Serial     int

	BCValid        bool
	IsCA           bool
	MaxPathLen     int // -1 = unset
	KeyUsage       x509.KeyUsage
	EKU            []x509.ExtKeyUsage
	UnknownEKU     bool
	NotBefore      int64 // unix seconds
	NotAfter       int64
	DNS            []string // DNS SANs
}

var (
	keyMu sync.Mutex
	keys  = map[int]ed25519.PrivateKey{}
)

func Key(i int) ed25519.PrivateKey {
	keyMu.Lock()
	defer keyMu.Unlock()
	if k, ok := keys[i]; ok {
		return k
	}
	seed := make([]byte, ed25519.SeedSize)
	copy(seed, fmt.Sprintf("zv-pki-key-%d", i))
	k := ed25519.NewKeyFromSeed(seed)
	keys[i] = k
	return k
}

func name(i int) pkix.Name { return pkix.Name{CommonName: fmt.Sprintf("zv name %d", i)} }

func keyID(i int) []byte {
	if i == 0 {
		return nil
	}
	return []byte{0x4b, byte(i >> 8), byte(i)}
}

type zeroReader struct{}

func (zeroReader) Read(p []byte) (int, error) {
	for i := range p {
		p[i] = 0
	}
	return len(p), nil
}

// MintDER creates the certificate described by s.
func MintDER(s CertSpec) ([]byte, error) {
	nb, na := s.NotBefore, s.NotAfter
	if nb == 0 && na == 0 {
		nb, na = 1000000000, 2000000000
	}
	tmpl := &x509.Certificate{
		SerialNumber:          big.NewInt(int64(s.Serial) + 1),
		Subject:               name(s.Subject),
		SubjectKeyId:          keyID(s.SKID),
		AuthorityKeyId:        keyID(s.AKID),
		NotBefore:             time.Unix(nb, 0).UTC(),
		NotAfter:              time.Unix(na, 0).UTC(),
		BasicConstraintsValid: s.BCValid,
		IsCA:                  s.IsCA,
		KeyUsage:              s.KeyUsage,
		ExtKeyUsage:           s.EKU,
		DNSNames:              s.DNS,
	}
	if s.BCValid && s.MaxPathLen >= 0 {
		tmpl.MaxPathLen = s.MaxPathLen
		tmpl.MaxPathLenZero = s.MaxPathLen == 0
	} else {
		tmpl.MaxPathLen = -1
	}
	if s.UnknownEKU {
		tmpl.UnknownExtKeyUsage = append(tmpl.UnknownExtKeyUsage, []int{1, 3, 6, 1, 4, 1, 99999, 1})
	}
	parent := &x509.Certificate{Subject: name(s.IssuerName), SubjectKeyId: keyID(s.AKID)}
	return x509.CreateCertificate(zeroReader{}, tmpl, parent, Key(s.Key).Public(), Key(s.SignKey))
}

func Mint(s CertSpec) (*x509.Certificate, error) {
	der, err := MintDER(s)
	if err != nil {
		return nil, err
	}
	return x509.ParseCertificate(der)
}

// Interner maps byte strings to small positive integers (0 is reserved for the empty string).
type Interner struct{ m map[string]int }

func NewInterner() *Interner { return &Interner{m: map[string]int{}} }
func (in *Interner) ID(b []byte) int {
	if len(b) == 0 {
		return 0
	}
	if v, ok := in.m[string(b)]; ok {
		return v
	}
	v := len(in.m) + 1
	in.m[string(b)] = v
	return v
}
