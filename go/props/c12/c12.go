// Package c12: Verifier.Verify result assembly (verifier/verifier.go, x509.FilterByDate, OneCRL/CRLSet lookup).
package c12

import (
	"context"
	"crypto/sha256"
	"encoding/hex"
	"fmt"
	"math/big"
	"sort"
	"strconv"
	"strings"
	"time"

	"github.com/zmap/zcrypto/verifier"
	"github.com/zmap/zcrypto/x509"
	"github.com/zmap/zcrypto/x509/pkix"
	"github.com/zmap/zcrypto/x509/revocation/crl"
	"github.com/zmap/zcrypto/x509/revocation/google"
	"github.com/zmap/zcrypto/x509/revocation/mozilla"

	"zv/internal/zv"
	"zv/props/c10"
	"zv/props/c11"
)

// line: c12 <specs> <verify-matrix> <start> <time> <name> <onecrl> <crlset> [<rev>] <ops>
//   time    <t> | <t>@<t> | z@<t>   with <t> = <sec> | <sec>n<nsec>, seconds relative to c10.Epoch.
//           Before '@': VerifyTime ("z" = time.Time{}); after '@': the clock reading the MODEL uses when VerifyTime
//           is zero (the harness checks the machine clock lies on the same side of every certificate boundary)
//   rev     -  |  <ShouldCheckOCSP><ShouldCheckCRL><len OCSPServer><len CRLDistributionPoints>/<provider>
//           provider: n (nil: defaultRevocation, run under an already cancelled context)
//                   | s<r><i><e><r><i><e>  stub answering CheckOCSP / CheckCRL with (isRevoked, info id or 0 = nil, err)
//   name    -  |  e<n> ("h<n>.test")  |  w<n> ("x.d<n>.test")  |  v<n> ("x.y.d<n>.test")  |  b<n> ("d<n>.test")  |  c<n> ("n<n>")
//   onecrl  -  |  o/<iss.serial+…|->/<subj.key+…|->     (issuer-name+serial entries / blocked subject+key entries)
//   crlset  -  |  g/<key.serial+…|->/<key+…|->           (issuer-SPKI+serial entries / blocked SPKIs)
// output: exp=<0|1> cur=<chains> old=<chains> nev=<chains> vae=<chains> par=<fps> rev=<0|1> type=<t> name=<na|ok|err> psk=<s:k|->
//         [ocsp=<skip|nil|s:k|?>:<r><i><e> crl=<skip|call|?>:<r><i><e>]   (only with a <rev> other than "-")

func hostname(tok string) string {
	if tok == "-" {
		return ""
	}
	n := tok[1:]
	switch tok[0] {
	case 'e':
		return "h" + n + ".test"
	case 'w':
		return "x.d" + n + ".test"
	case 'v':
		return "x.y.d" + n + ".test"
	case 'b':
		return "d" + n + ".test"
	case 'c':
		return "n" + n
	}
	panic("bad name token " + tok)
}

// refNameOK: the documented rule restricted to the names above: a SAN dNSName is compared label by label
// ("*" = exactly one label); without SAN the common name "n<subj>" is used.
func refNameOK(s c10.CertSpec, tok string) bool {
	n, _ := strconv.Atoi(tok[1:])
	switch {
	case s.DNS > 0:
		return tok[0] == 'e' && n == s.DNS
	case s.DNS < 0:
		return tok[0] == 'w' && n == -s.DNS
	default:
		return tok[0] == 'c' && n == s.Subj
	}
}

type pair struct{ a, b int }

func parsePairs(s string) []pair {
	var out []pair
	if s == "-" {
		return out
	}
	for _, p := range strings.Split(s, "+") {
		f := strings.Split(p, ".")
		a, _ := strconv.Atoi(f[0])
		b := 0
		if len(f) > 1 {
			b, _ = strconv.Atoi(f[1])
		}
		out = append(out, pair{a, b})
	}
	return out
}

func spkiHash(k int) []byte {
	h := sha256.Sum256(c10.SPKI(k))
	return h[:]
}

type revSets struct {
	oneSerial, oneBlocked []pair
	setSerial             []pair
	setBlocked            []pair
	one                   *mozilla.OneCRL
	set                   *google.CRLSet
}

func nameString(u *c10.Universe, id int) string {
	for i, s := range u.Specs {
		if s.Iss == id {
			return u.Certs[i].Issuer.String()
		}
		if s.Subj == id {
			return u.Certs[i].Subject.String()
		}
	}
	n := c10.Name(id)
	return n.String()
}

func rawName(u *c10.Universe, id int) []byte {
	for i, s := range u.Specs {
		if s.Subj == id {
			return u.Certs[i].RawSubject
		}
		if s.Iss == id {
			return u.Certs[i].RawIssuer
		}
	}
	return []byte("no such name")
}

func buildRev(u *c10.Universe, one, set string) *revSets {
	r := &revSets{}
	if one != "-" {
		f := strings.Split(one, "/")
		r.oneSerial, r.oneBlocked = parsePairs(f[1]), parsePairs(f[2])
		r.one = &mozilla.OneCRL{IssuerLists: map[string]*mozilla.IssuerList{}}
		for _, p := range r.oneSerial {
			k := nameString(u, p.a)
			l := r.one.IssuerLists[k]
			if l == nil {
				l = &mozilla.IssuerList{}
				r.one.IssuerLists[k] = l
			}
			l.Entries = append(l.Entries, &mozilla.Entry{SerialNumber: big.NewInt(int64(p.b))})
		}
		for _, p := range r.oneBlocked {
			r.one.Blocked = append(r.one.Blocked, &mozilla.SubjectAndPublicKey{RawSubject: rawName(u, p.a), PubKeyHash: spkiHash(p.b)})
		}
	}
	if set != "-" {
		f := strings.Split(set, "/")
		r.setSerial, r.setBlocked = parsePairs(f[1]), parsePairs(f[2])
		r.set = &google.CRLSet{IssuerLists: map[string]*google.IssuerList{}}
		for _, p := range r.setSerial {
			k := hex.EncodeToString(spkiHash(p.a))
			l := r.set.IssuerLists[k]
			if l == nil {
				l = &google.IssuerList{SPKIHash: k}
				r.set.IssuerLists[k] = l
			}
			l.Entries = append(l.Entries, &google.Entry{SerialNumber: big.NewInt(int64(p.b))})
		}
		for _, p := range r.setBlocked {
			r.set.BlockedSPKIs = append(r.set.BlockedSPKIs, hex.EncodeToString(spkiHash(p.a)))
		}
	}
	return r
}

func chainsStr(cs [][]int) string {
	s := c11.Canon(cs)
	return s[strings.Index(s, " ")+1:]
}

// tm: an instant as (seconds relative to c10.Epoch, nanoseconds)
type tm struct{ sec, nsec int64 }

// zeroRel: time.Time{} relative to c10.Epoch
const zeroRel = -62135596800 - c10.Epoch

func parseTm(s string) tm {
	f := strings.Split(s, "n")
	t := tm{}
	t.sec, _ = strconv.ParseInt(f[0], 10, 64)
	if len(f) > 1 {
		t.nsec, _ = strconv.ParseInt(f[1], 10, 64)
	}
	return t
}

func (t tm) ns() *big.Int {
	x := new(big.Int).Mul(big.NewInt(t.sec), big.NewInt(1000000000))
	return x.Add(x, big.NewInt(t.nsec))
}

// lt: a is strictly before b on the line of real time (nanoseconds; independent of time.Time)
func lt(a, b tm) bool { return a.ns().Cmp(b.ns()) < 0 }

func (t tm) goTime() time.Time { return time.Unix(c10.Epoch+t.sec, t.nsec) }

func fromGo(t time.Time) tm { return tm{t.Unix() - c10.Epoch, int64(t.Nanosecond())} }

type ans struct {
	revoked bool
	info    int
	err     bool
}

func parseAns(s string) ans { return ans{s[0] == '1', int(s[1] - '0'), s[2] == '1'} }

type ctxKey struct{}

// stub: a RevocationProvider with scripted answers that records how it was called
type stub struct {
	ocsp, crl           ans
	ocspCalls, crlCalls int
	ocspCert, crlCert   *x509.Certificate
	ocspIssuer          *x509.Certificate
	crlList             *pkix.CertificateList
	ctxOK               bool
	ocspInfo, crlInfo   *verifier.RevocationInfo
	ocspErr, crlErr     error
}

func (a ans) values() (bool, *verifier.RevocationInfo, error) {
	var info *verifier.RevocationInfo
	if a.info != 0 {
		info = &verifier.RevocationInfo{Reason: crl.RevocationReasonCode(a.info)}
	}
	var err error
	if a.err {
		err = fmt.Errorf("stub provider error")
	}
	return a.revoked, info, err
}

func (s *stub) CheckOCSP(ctx context.Context, c *x509.Certificate, issuer *x509.Certificate) (bool, *verifier.RevocationInfo, error) {
	s.ocspCalls++
	s.ocspCert, s.ocspIssuer = c, issuer
	s.ctxOK = s.ctxOK && ctx.Value(ctxKey{}) == "c12"
	var r bool
	r, s.ocspInfo, s.ocspErr = s.ocsp.values()
	return r, s.ocspInfo, s.ocspErr
}

func (s *stub) CheckCRL(ctx context.Context, c *x509.Certificate, certList *pkix.CertificateList) (bool, *verifier.RevocationInfo, error) {
	s.crlCalls++
	s.crlCert, s.crlList = c, certList
	s.ctxOK = s.ctxOK && ctx.Value(ctxKey{}) == "c12"
	var r bool
	r, s.crlInfo, s.crlErr = s.crl.values()
	return r, s.crlInfo, s.crlErr
}

func showAns(r bool, info *verifier.RevocationInfo, err error) string {
	out := "0"
	if r {
		out = "1"
	}
	if info == nil {
		out += "-"
	} else {
		out += strconv.Itoa(int(info.Reason))
	}
	if err != nil {
		return out + "1"
	}
	return out + "0"
}

type class int

const (
	current class = iota
	expired
	never
)

// refClass: valid now / valid at some time / never, from the definition (intersection of validity periods, open interval).
func refClass(u *c10.Universe, ch []int, now tm) class {
	lo, hi := int64(-1<<62), int64(1<<62)
	for _, i := range ch {
		if u.Specs[i].NB > lo {
			lo = u.Specs[i].NB
		}
		if u.Specs[i].NA < hi {
			hi = u.Specs[i].NA
		}
	}
	switch {
	case lt(tm{lo, 0}, now) && lt(now, tm{hi, 0}):
		return current
	case lo < hi:
		return expired
	}
	return never
}

func exec(line string) zv.Out {
	f := strings.Fields(line)
	if len(f) != 9 && len(f) != 10 {
		panic("bad c12 line")
	}
	revTok := "-"
	if len(f) == 10 {
		revTok = f[8]
		f = append(f[:8:8], f[9])
	}
	u := c10.Load(f[1])
	if p := u.SelfCheck(); p != "" {
		return zv.Out{Go: "harness-error", Viol: p}
	}
	start, _ := strconv.Atoi(f[3])
	// VerifyTime, and the clock reading of the line
	var vt time.Time
	var clk tm
	tf := strings.Split(f[4], "@")
	if tf[0] != "z" {
		vt = parseTm(tf[0]).goTime()
	}
	if len(tf) > 1 {
		clk = parseTm(tf[1])
	}
	zeroVT := tf[0] == "z" || parseTm(tf[0]) == tm{zeroRel, 0} // the instants for which IsZero() holds, by definition
	now := clk
	if !zeroVT {
		now = parseTm(tf[0])
	}
	nameTok := f[5]
	ops := c10.ParseOps(f[8])
	rev := buildRev(u, f[6], f[7])
	viol := ""
	set := func(s string, a ...any) {
		if viol == "" {
			viol = fmt.Sprintf(s, a...)
		}
	}
	if vm := u.VerifyMatrix(); vm != f[2] {
		set("signature relation differs from construction: " + vm)
	}
	rg := c10.BuildGraph(u, ops)
	g := c10.Translate(u, rg.ZVDump())
	c := u.Certs[start]
	spec := u.Specs[start]
	v := verifier.NewVerifier(rg, nil)
	opts := verifier.VerificationOptions{VerifyTime: vt, Name: hostname(nameTok), OneCRL: rev.one, CRLSet: rev.set}
	var st *stub
	nOCSP, nCDP := 0, 0
	if revTok != "-" {
		rf := strings.Split(revTok, "/")
		opts.ShouldCheckOCSP, opts.ShouldCheckCRL = rf[0][0] == '1', rf[0][1] == '1'
		nOCSP, nCDP = int(rf[0][2]-'0'), int(rf[0][3]-'0')
		// the parsed values of the AIA / CRL distribution point extensions (parsing them is not C12's subject)
		for i := 0; i < nOCSP; i++ {
			c.OCSPServer = append(c.OCSPServer, fmt.Sprintf("http://ocsp%d.invalid/", i))
		}
		for i := 0; i < nCDP; i++ {
			c.CRLDistributionPoints = append(c.CRLDistributionPoints, fmt.Sprintf("http://crl%d.invalid/x.crl", i))
		}
		if rf[1][0] == 's' {
			st = &stub{ocsp: parseAns(rf[1][1:4]), crl: parseAns(rf[1][4:7]), ctxOK: true}
			opts.RevocationProvider = st
		}
	}
	var res *verifier.VerificationResult
	t0 := time.Now()
	switch {
	case revTok == "-":
		res = v.Verify(c, opts)
	case st != nil:
		res = v.VerifyWithContext(context.WithValue(context.Background(), ctxKey{}, "c12"), c, opts)
	default:
		// defaultRevocation: no HTTP request may leave the machine; a cancelled context makes every request fail at once
		ctx, cancel := context.WithCancel(context.Background())
		cancel()
		res = v.VerifyWithContext(ctx, c, opts)
	}
	t1 := time.Now()
	if zeroVT {
		// the model's clock and the machine's clock must be on the same side of every boundary the code compares with
		for i, sp := range u.Specs {
			for _, b := range []int64{sp.NB, sp.NA} {
				for _, real := range []tm{fromGo(t0), fromGo(t1)} {
					if lt(tm{b, 0}, clk) != lt(tm{b, 0}, real) || lt(clk, tm{b, 0}) != lt(real, tm{b, 0}) {
						return zv.Out{Go: "harness-error", Viol: fmt.Sprintf("harness: the machine clock %v and the clock %v of the line are on different sides of boundary %d of certificate %d", real, clk, b, i)}
					}
				}
			}
		}
	}

	conv := func(cs []x509.CertificateChain) [][]int {
		l, p := c11.ChainsToIdx(u, cs)
		if p != "" {
			set(p)
		}
		return l
	}
	cur, old, nev, vae := conv(res.CurrentChains), conv(res.ExpiredChains), conv(res.NeverValidChains), conv(res.ValidAtExpirationChains)
	var par []int
	for _, p := range res.Parents {
		par = append(par, u.CertIndex(p))
	}
	sort.Ints(par)
	parStr := "-"
	if len(par) > 0 {
		var ss []string
		for _, p := range par {
			ss = append(ss, strconv.Itoa(p))
		}
		parStr = strings.Join(ss, "+")
	}
	b := func(x bool) string {
		if x {
			return "1"
		}
		return "0"
	}
	typ := map[x509.CertificateType]string{x509.CertificateTypeUnknown: "unknown", x509.CertificateTypeLeaf: "leaf", x509.CertificateTypeIntermediate: "intermediate", x509.CertificateTypeRoot: "root"}[res.CertificateType]
	nameOut := "na"
	if nameTok != "-" {
		nameOut = "ok"
		if res.NameError != nil {
			nameOut = "err"
		}
	} else if res.NameError != nil {
		set("NameError set although no name was given")
	}
	psk := "-"
	if len(res.ParentSPKISubjectFingerprint) > 0 {
		psk = "?"
		for i, cc := range u.Certs {
			if string(cc.SPKISubjectFingerprint) == string(res.ParentSPKISubjectFingerprint) {
				psk = c10.NodeKey{S: u.Specs[i].Subj, K: u.Specs[i].Key}.String()
			}
		}
	}
	out := fmt.Sprintf("exp=%s cur=%s old=%s nev=%s vae=%s par=%s rev=%s type=%s name=%s psk=%s",
		b(res.Expired), chainsStr(cur), chainsStr(old), chainsStr(nev), chainsStr(vae), parStr, b(res.InRevocationSet), typ, nameOut, psk)
	if revTok != "-" {
		oc, cc := "?", "?"
		if st != nil {
			oc, cc = "skip", "skip"
			if st.ocspCalls > 0 {
				oc = "nil"
				if st.ocspIssuer != nil {
					oc = "?"
					if i := u.CertIndex(st.ocspIssuer); i >= 0 {
						oc = c10.NodeKey{S: u.Specs[i].Subj, K: u.Specs[i].Key}.String()
					}
				}
			}
			if st.crlCalls > 0 {
				cc = "call"
			}
		}
		out += fmt.Sprintf(" ocsp=%s:%s crl=%s:%s", oc, showAns(res.OCSPRevoked, res.OCSPRevocationInfo, res.OCSPCheckError),
			cc, showAns(res.CRLRevoked, res.CRLRevocationInfo, res.CRLCheckError))
	}

	// ---- T3: the property's sentence on the result alone ----
	walked := c11.Reference(u, g, start) // independent enumeration (validated against WalkChains by C11)
	if w2, _ := c11.ChainsToIdx(u, rg.WalkChains(c)); c11.Canon(w2) != c11.Canon(walked) {
		set("WalkChains differs from the permitted paths (C11)")
	}
	all := append(append(append([][]int{}, cur...), old...), nev...)
	if c11.Canon(all) != c11.Canon(walked) {
		set("current+expired+never-valid chains %s are not the walked chains %s", c11.Canon(all), c11.Canon(walked))
	}
	for _, ch := range cur {
		if refClass(u, ch, now) != current {
			set("chain %v reported current but is not valid at the verification time", ch)
		}
	}
	for _, ch := range old {
		if refClass(u, ch, now) != expired {
			set("chain %v reported expired but is current or was never valid", ch)
		}
	}
	for _, ch := range nev {
		if refClass(u, ch, now) != never {
			set("chain %v reported never-valid although its validity periods intersect", ch)
		}
	}
	var wantVae [][]int
	for _, ch := range walked {
		if refClass(u, ch, tm{spec.NA - 1, 0}) == current {
			wantVae = append(wantVae, ch)
		}
	}
	if c11.Canon(vae) != c11.Canon(wantVae) {
		set("valid-at-expiration chains %s, expected %s", c11.Canon(vae), c11.Canon(wantVae))
	}
	wantExpired := !(lt(tm{spec.NB, 0}, now) && lt(now, tm{spec.NA, 0}))
	if res.Expired != wantExpired {
		set("Expired=%v", res.Expired)
	}
	rel := cur
	if wantExpired {
		rel = wantVae
	}
	ps := map[int]bool{}
	for _, ch := range rel {
		if len(ch) >= 2 {
			ps[ch[1]] = true
		}
	}
	var wantPar []int
	for p := range ps {
		wantPar = append(wantPar, p)
	}
	sort.Ints(wantPar)
	if fmt.Sprint(wantPar) != fmt.Sprint(par) {
		set("Parents=%v, the distinct second certificates of the relevant chains are %v", par, wantPar)
	}
	wantType := "unknown"
	if e := g.Edge(start); e != nil && e.Root {
		wantType = "root"
	} else if spec.CA && len(wantPar) > 0 {
		wantType = "intermediate"
	} else if len(wantPar) > 0 {
		wantType = "leaf"
	}
	if typ != wantType {
		set("CertificateType=%s, rule says %s", typ, wantType)
	}
	if nameTok != "-" && (res.NameError == nil) != refNameOK(spec, nameTok) {
		set("NameError=%v for name %s", res.NameError, hostname(nameTok))
	}
	// "lists the certificate": an issuer+serial entry of its issuer; a Blocked entry with its subject and the SHA-256
	// of ITS SubjectPublicKeyInfo bytes (a key id is one encoding; what Firefox's blocklist compares); a CRLSet
	// entry under the SubjectPublicKeyInfo bytes of one of its parents.
	listed, twinTag := false, ""
	if rev.one != nil {
		for _, p := range rev.oneSerial {
			listed = listed || (p.a == spec.Iss && p.b == spec.Serial)
		}
		for _, p := range rev.oneBlocked {
			listed = listed || (p.a == spec.Subj && p.b == spec.Key)
			if p.a == spec.Subj && canonKey(p.b) == canonKey(spec.Key) && spec.Key >= c10.RSABase {
				if p.b == spec.Key {
					twinTag += " twin-entry=own-encoding"
				} else {
					twinTag += " twin-entry=other-encoding"
				}
			}
		}
	}
	if rev.set != nil {
		for _, pi := range wantPar {
			pk := u.Specs[pi].Key
			for _, p := range rev.setSerial {
				listed = listed || (p.a == pk && p.b == spec.Serial)
			}
			for _, p := range rev.setBlocked {
				listed = listed || p.a == pk
			}
		}
	}
	if res.InRevocationSet != listed {
		set("InRevocationSet=%v but the supplied sets list the certificate: %v", res.InRevocationSet, listed)
	}
	// ---- T3: revocation switches ----
	ocspDue, crlDue := opts.ShouldCheckOCSP && nOCSP > 0, opts.ShouldCheckCRL && nCDP > 0
	if st != nil {
		if st.ocspCalls > 1 || st.crlCalls > 1 || (st.ocspCalls == 1) != ocspDue || (st.crlCalls == 1) != crlDue {
			set("provider called CheckOCSP %d / CheckCRL %d times; the switches say %v / %v", st.ocspCalls, st.crlCalls, ocspDue, crlDue)
		}
		if !st.ctxOK {
			set("provider called with another context")
		}
		if st.ocspCalls == 1 {
			isParent := false
			for _, p := range res.Parents {
				isParent = isParent || p == st.ocspIssuer
			}
			if st.ocspCert != c || (len(res.Parents) == 0) != (st.ocspIssuer == nil) || (st.ocspIssuer != nil && !isParent) {
				set("CheckOCSP called with the wrong certificate / an issuer that is not one of Parents")
			}
			if res.OCSPRevoked != st.ocsp.revoked || res.OCSPRevocationInfo != st.ocspInfo || res.OCSPCheckError != st.ocspErr {
				set("OCSP fields are not the provider's answer")
			}
		}
		if st.crlCalls == 1 {
			if st.crlCert != c || st.crlList != nil {
				set("CheckCRL called with the wrong certificate / a non-nil list")
			}
			if res.CRLRevoked != st.crl.revoked || res.CRLRevocationInfo != st.crlInfo || res.CRLCheckError != st.crlErr {
				set("CRL fields are not the provider's answer")
			}
		}
	} else if revTok != "-" {
		if ocspDue && (res.OCSPCheckError == nil || res.OCSPRevoked || res.OCSPRevocationInfo != nil) {
			set("defaultRevocation.CheckOCSP under a cancelled context did not answer (false, nil, error)")
		}
		if crlDue && (res.CRLCheckError == nil || res.CRLRevoked || res.CRLRevocationInfo != nil) {
			set("defaultRevocation.CheckCRL under a cancelled context did not answer (false, nil, error)")
		}
	}
	if !ocspDue && (res.OCSPRevoked || res.OCSPRevocationInfo != nil || res.OCSPCheckError != nil) {
		set("OCSP fields set although the OCSP check is not due")
	}
	if !crlDue && (res.CRLRevoked || res.CRLRevocationInfo != nil || res.CRLCheckError != nil) {
		set("CRL fields set although the CRL check is not due")
	}
	for _, p := range res.Parents {
		if string(p.SPKISubjectFingerprint) != string(res.ParentSPKISubjectFingerprint) || string(p.RawSubjectPublicKeyInfo) != string(res.ParentSPKI) {
			set("parents with different (SPKI, subject)")
		}
	}
	if res.Name != opts.Name {
		// VerifyTime of the result is never filled in by VerifyWithContext; Name is copied
		if res.Name != opts.Name {
			set("Name not copied")
		}
	}

	tags := []string{"type=" + typ, "name=" + nameOut, "rev=" + b(res.InRevocationSet), "exp=" + b(res.Expired),
		fmt.Sprintf("cur=%d", min(len(cur), 4)), fmt.Sprintf("old=%d", min(len(old), 4)), fmt.Sprintf("nev=%d", min(len(nev), 4)),
		fmt.Sprintf("vae=%d", min(len(vae), 4)), fmt.Sprintf("par=%d", min(len(par), 4))}
	switch {
	case tf[0] == "z":
		tags = append(tags, "time=zero-value")
	case zeroVT:
		tags = append(tags, "time=zero-unix")
	case now.nsec != 0:
		tags = append(tags, "time=subsecond")
		for _, sp := range u.Specs {
			if now.sec == sp.NB || now.sec == sp.NA || now.sec == sp.NA-1 || now.sec == sp.NB-1 {
				tags = append(tags, "time=subsecond-at-boundary")
				break
			}
		}
	default:
		tags = append(tags, "time=whole")
	}
	if now.sec < zeroRel+10 {
		tags = append(tags, "time=near-year-1")
	}
	tags = append(tags, strings.Fields(twinTag)...)
	if spec.Key >= c10.RSABase {
		tags = append(tags, fmt.Sprintf("start-key-alt-encoded=%v", canonKey(spec.Key) != spec.Key))
	}
	if revTok != "-" {
		tags = append(tags, fmt.Sprintf("switch-ocsp=%v/urls=%d", opts.ShouldCheckOCSP, min(nOCSP, 2)), fmt.Sprintf("switch-crl=%v/urls=%d", opts.ShouldCheckCRL, min(nCDP, 2)))
		if st != nil {
			tags = append(tags, "provider=stub")
			if st.ocspCalls == 1 {
				tags = append(tags, fmt.Sprintf("ocsp-issuer-nil=%v", st.ocspIssuer == nil), "ocsp-answer="+showAns(st.ocsp.values()))
			}
			if st.crlCalls == 1 {
				tags = append(tags, "crl-answer="+showAns(st.crl.values()))
			}
		} else {
			tags = append(tags, "provider=default-offline", fmt.Sprintf("default-ocsp-due=%v/parents=%v", ocspDue, len(par) > 0), fmt.Sprintf("default-crl-due=%v", crlDue))
		}
	}
	// entries sharing the component the lookup starts with, and where among them the certificate's own entry is
	share := func(label string, ps []pair, a int, own func(pair) bool) {
		n, pos := 0, -1
		for _, p := range ps {
			if p.a == a {
				if own(p) && pos < 0 {
					pos = n
				}
				n++
			}
		}
		if n >= 2 {
			where := "absent"
			switch {
			case pos == 0:
				where = "first"
			case pos == n-1:
				where = "last"
			case pos > 0:
				where = "middle"
			}
			tags = append(tags, fmt.Sprintf("%s-share=%d", label, min(n, 5)), label+"-own="+where)
		}
	}
	if rev.one != nil {
		tags = append(tags, "onecrl")
		share("onecrl-subject", rev.oneBlocked, spec.Subj, func(p pair) bool { return p.b == spec.Key })
		share("onecrl-issuer", rev.oneSerial, spec.Iss, func(p pair) bool { return p.b == spec.Serial })
	}
	if rev.set != nil {
		tags = append(tags, "crlset")
		share("crlset-issuer", rev.setSerial, spec.Sign, func(p pair) bool { return p.b == spec.Serial })
		if len(rev.setBlocked) >= 2 {
			tags = append(tags, fmt.Sprintf("crlset-blocked=%d", min(len(rev.setBlocked), 5)))
		}
	}
	return zv.Out{Go: out, Viol: viol, Tags: tags}
}

func canonKey(k int) int {
	if k >= c10.RSABase && (k-c10.RSABase)%2 == 1 {
		return k - 1
	}
	return k
}

var nbs = []int64{-1000, -1000, -1000, -1000, -1000, -1000, -10, -1, 0, 1, 10}
var nas = []int64{1000, 1000, 1000, 1000, 1000, 1000, 20, 11, 10, 9, 1, 0, -5}

func gen(g *zv.Gen) {
	r := g.Rng
	hs := c10.Handcrafted()
	ng := g.N(700, 3000)
	sharedSeq := 0
	for i := 0; i < ng; i++ {
		var cs []c10.CertSpec
		if i%2 == 0 {
			cs = append(cs, hs[r.Intn(len(hs))]...)
		} else {
			cs = c10.RandomUniverse(r, 3+r.Intn(6))
		}
		c10.NoTwins(cs)
		for j := range cs {
			cs[j].Serial = 1 + r.Intn(4) // collisions of serial numbers across issuers on purpose
			cs[j].NB, cs[j].NA = nbs[r.Intn(len(nbs))], nas[r.Intn(len(nas))]
			switch x := r.Intn(100); {
			case x < 12:
				cs[j].CA = false
			case x < 18:
				cs[j].BC, cs[j].CA, cs[j].MPL = false, false, 0
			case x < 25:
				cs[j].MPL = r.Intn(2)
			}
			switch x := r.Intn(100); {
			case x < 30:
				cs[j].DNS = 1 + r.Intn(2)
			case x < 50:
				cs[j].DNS = -1 - r.Intn(2)
			}
		}
		var ops []c10.Op
		for j := range cs {
			if r.Chance(90) {
				self := cs[j].Subj == cs[j].Iss && cs[j].Key == cs[j].Sign
				ops = append(ops, c10.Op{Root: (self && r.Chance(75)) || r.Chance(8), I: j})
			}
		}
		for j := len(ops) - 1; j > 0; j-- {
			x := r.Intn(j + 1)
			ops[j], ops[x] = ops[x], ops[j]
		}
		tok := c10.FormatSpecs(cs)
		vm := c10.Load(tok).VerifyMatrix()
		// boundary times: -1/0/+1 around every NotBefore / NotAfter of the universe
		tset := map[int64]bool{}
		for _, c := range cs {
			for d := int64(-1); d <= 1; d++ {
				tset[c.NB+d], tset[c.NA+d] = true, true
			}
		}
		tset[5], tset[-3] = true, true // inside / outside most periods
		var times []int64
		for t := range tset {
			times = append(times, t)
		}
		sort.Slice(times, func(a, b int) bool { return times[a] < times[b] })
		nstart := 2
		if !g.Quick {
			nstart = 3
		}
		for k := 0; k < nstart; k++ {
			start := r.Intn(len(cs))
			for tries := 0; tries < 3 && cs[start].Subj == cs[start].Iss && cs[start].Key == cs[start].Sign; tries++ {
				start = r.Intn(len(cs)) // prefer certificates that are not self-signed
			}
			s := cs[start]
			for _, t := range times {
				if g.Quick && !r.Chance(45) && t != 5 {
					continue
				}
				name := "-"
				switch x := r.Intn(10); {
				case x < 2:
					name = fmt.Sprintf("e%d", 1+r.Intn(2))
				case x < 4:
					name = fmt.Sprintf("w%d", 1+r.Intn(2))
				case x == 4:
					name = fmt.Sprintf("v%d", 1+r.Intn(2))
				case x == 5:
					name = fmt.Sprintf("b%d", 1+r.Intn(2))
				case x == 6:
					name = fmt.Sprintf("c%d", s.Subj)
				case x == 7:
					name = fmt.Sprintf("c%d", r.Intn(4))
				}
				pr := func(n int, f func() string) string {
					var ss []string
					for i := 0; i < n; i++ {
						ss = append(ss, f())
					}
					if len(ss) == 0 {
						return "-"
					}
					return strings.Join(ss, "+")
				}
				one, set := "-", "-"
				if r.Chance(55) {
					one = "o/" + pr(r.Intn(3), func() string {
						if r.Chance(40) {
							return fmt.Sprintf("%d.%d", s.Iss, s.Serial) // lists the certificate
						}
						return fmt.Sprintf("%d.%d", r.Intn(5), 1+r.Intn(4))
					}) + "/" + pr(r.Intn(2), func() string {
						if r.Chance(40) {
							return fmt.Sprintf("%d.%d", s.Subj, s.Key)
						}
						return fmt.Sprintf("%d.%d", r.Intn(4), r.Intn(5))
					})
				}
				if r.Chance(55) {
					set = "g/" + pr(r.Intn(3), func() string {
						if r.Chance(45) {
							return fmt.Sprintf("%d.%d", s.Sign, s.Serial) // the signing key = a verifying parent's key
						}
						return fmt.Sprintf("%d.%d", r.Intn(6), 1+r.Intn(4))
					}) + "/" + pr(r.Intn(2), func() string {
						if r.Chance(35) {
							return strconv.Itoa(s.Sign)
						}
						return strconv.Itoa(r.Intn(6))
					})
				}
				if r.Chance(12) { // a sharing set (see sharedSets) at a random time / with a name as well
					one, set = sharedSets(r, s, sharedSeq)
					sharedSeq++
				}
				g.Emitf("c12 %s %s %d %d %s %s %s %s", tok, vm, start, t, name, one, set, c10.FormatOps(ops))
			}
			// Sets with SEVERAL entries sharing one lookup key (same subject / different keys, same issuer /
			// different serials, same parent key / different serials, several blocked SPKIs), the certificate's
			// own entry at every position or absent: one line per kind and (graph, certificate).
			for kind := 0; kind < sharedKinds; kind++ {
				one, set := sharedSets(r, s, sharedSeq*sharedKinds+kind)
				g.Emitf("c12 %s %s %d %d - %s %s %s", tok, vm, start, 5, one, set, c10.FormatOps(ops))
			}
			sharedSeq++
			// Sub-second verification times: 1 ns / half a second / 999999999 ns into the seconds around the
			// certificate's own boundaries (NotBefore, NotAfter, NotAfter-1 s) and around a boundary of another certificate.
			o := cs[r.Intn(len(cs))]
			for _, sec := range []int64{s.NB - 1, s.NB, s.NA - 2, s.NA - 1, s.NA, []int64{o.NB - 1, o.NB, o.NA - 1, o.NA}[r.Intn(4)]} {
				ns := []int64{1, 500000000, 999999999}[r.Intn(3)]
				if g.Quick && !r.Chance(35) {
					continue
				}
				g.Emitf("c12 %s %s %d %dn%d - - - - %s", tok, vm, start, sec, ns, c10.FormatOps(ops))
			}
			// Revocation switches: every flag / URL-count combination over a run, a stub provider with scripted
			// answers (also revoked together with an error, an error with info) or the default provider offline.
			nrev := g.N(2, 10)
			for k := 0; k < nrev; k++ {
				t := int64(5) // most periods contain it: parents exist, the issuer argument is not nil
				if r.Chance(30) {
					t = times[r.Intn(len(times))]
				}
				g.Emitf("c12 %s %s %d %d - - - %s %s", tok, vm, start, t, revToken(r, revSeq), c10.FormatOps(ops))
				revSeq++
			}
		}
		// The zero VerifyTime: the same graph with validity periods that end long before (2020) or long after (2045+)
		// any run of this harness, verified with time.Time{} (=> time.Now()), with the Unix instant that IsZero() also
		// accepts, and with the instants 1 ns / 1 s around it (which are NOT zero: the year 1 is outside every period).
		if i%4 == 0 {
			zs := append([]c10.CertSpec{}, cs...)
			for j := range zs {
				zs[j].NB = []int64{-1000, -1000, -1000, 800000000}[r.Intn(4)]
				zs[j].NA = []int64{1000, 900000000, 900000000, 900000000}[r.Intn(4)]
			}
			ztok := c10.FormatSpecs(zs)
			zvm := c10.Load(ztok).VerifyMatrix()
			start := r.Intn(len(zs))
			clk := 2000 + r.Intn(700000000)
			clkNs := []int{0, 1, 999999999}[r.Intn(3)]
			for _, vt := range []string{"z", strconv.Itoa(zeroRel), fmt.Sprintf("%dn1", zeroRel), strconv.Itoa(zeroRel + 1), strconv.Itoa(zeroRel - 1), fmt.Sprintf("%dn999999999", zeroRel-1)} {
				g.Emitf("c12 %s %s %d %s@%dn%d - - - - %s", ztok, zvm, start, vt, clk, clkNs, c10.FormatOps(ops))
			}
			// the clock is not consulted when VerifyTime is set: the same instant given explicitly, and an instant in 2020
			g.Emitf("c12 %s %s %d %dn%d - - - - %s", ztok, zvm, start, clk, clkNs, c10.FormatOps(ops))
			g.Emitf("c12 %s %s %d 5@%d - - - - %s", ztok, zvm, start, clk, c10.FormatOps(ops))
		}
	}
	twinGen(g)
}

var revSeq int

// revToken: flags and URL counts in rotation (so every combination occurs), provider answers at random.
func revToken(r *zv.Rng, seq int) string {
	so, sc := seq&1, (seq>>1)&1
	uo, uc := (seq>>2)%3, (seq/12)%3
	if r.Chance(60) { // most cases: both checks due
		so, sc = 1, 1
		uo, uc = 1+r.Intn(2), 1+r.Intn(2)
	}
	prov := "n"
	if !r.Chance(15) {
		a := func() string { return fmt.Sprintf("%d%d%d", r.Intn(2), r.Intn(4), r.Intn(2)) }
		prov = "s" + a() + a()
	}
	return fmt.Sprintf("%d%d%d%d/%s", so, sc, uo, uc, prov)
}

// twinGen: certificates whose RSA key is carried in either SubjectPublicKeyInfo encoding (key id 101 = key id 100
// without the NULL algorithm parameters). OneCRL.Check hashes the certificate's own SubjectPublicKeyInfo bytes
// (before 8a7eec0: the RE-MARSHALLED key), CRLSet.Check is given the hash of the parent's bytes: an entry made
// from the certificate's own encoding flags it, an entry made from the other encoding of the same key does not.
func twinGen(g *zv.Gen) {
	r := g.Rng
	for _, rootKey := range []int{1, 100, 101} {
		for _, leafKey := range []int{100, 101, 102, 103} {
			cs := []c10.CertSpec{
				{Subj: 0, Key: rootKey, Iss: 0, Sign: rootKey, CA: true, BC: true, MPL: -1, NB: -1000, NA: 1000, Serial: 1},
				{Subj: 1, Key: leafKey, Iss: 0, Sign: rootKey, CA: r.Chance(50), BC: true, MPL: -1, NB: -1000, NA: 1000, Serial: 3},
			}
			tok := c10.FormatSpecs(cs)
			vm := c10.Load(tok).VerifyMatrix()
			ops := c10.FormatOps([]c10.Op{{Root: true, I: 0}, {I: 1}})
			k0 := canonKey(leafKey)
			for _, one := range []string{
				fmt.Sprintf("o/-/1.%d", k0), fmt.Sprintf("o/-/1.%d", k0+1), fmt.Sprintf("o/-/1.%d+1.%d", k0, k0+1),
				fmt.Sprintf("o/-/0.%d+1.%d", k0, (k0+2-100)%4+100), fmt.Sprintf("o/0.3/1.%d", k0+1), fmt.Sprintf("o/0.2/0.%d", k0+1)} {
				g.Emitf("c12 %s %s 1 5 - %s - - %s", tok, vm, one, ops)
			}
			for _, set := range []string{
				fmt.Sprintf("g/%d.3/-", rootKey), fmt.Sprintf("g/-/%d", rootKey), "g/7.3/8",
				fmt.Sprintf("g/%d.3/-", twinOf(rootKey)), fmt.Sprintf("g/-/%d", twinOf(rootKey))} {
				g.Emitf("c12 %s %s 1 5 - - %s - %s", tok, vm, set, ops)
			}
		}
	}
}

// twinOf: the id of the other encoding of an RSA key (another key for ECDSA ids)
func twinOf(k int) int {
	if k >= c10.RSABase {
		return k ^ 1
	}
	return k + 1
}

const sharedKinds = 6

// sharedSets builds revocation sets in which several entries share the component a lookup starts with, so that a
// scan that stops at the first partial match (or keeps only one entry per issuer) is observable.
//
//	kind 0  OneCRL.Blocked: n entries with the certificate's subject and n different keys
//	kind 1  OneCRL issuer list: n serial numbers under the certificate's issuer
//	kind 2  CRLSet issuer list: n serial numbers under the signing (= parent) key
//	kind 3  CRLSet.BlockedSPKIs: n different keys
//	kind 4  OneCRL: kinds 0 and 1 together, entries of other subjects / issuers interleaved
//	kind 5  CRLSet: kinds 2 and 3 together, entries of other keys interleaved
//
// seq picks kind, n in 2..5 and the position of the certificate's own entry (0..n-1, or n = absent) in rotation,
// so that over a run every position of every length occurs for every kind.
func sharedSets(r *zv.Rng, s c10.CertSpec, seq int) (one, set string) {
	kind := seq % sharedKinds
	seq /= sharedKinds
	n := 2 + seq%4
	pos := (seq / 4) % (n + 1)
	// n distinct values around own, own at position pos (absent when pos == n)
	distinct := func(own, lo, hi int) []int {
		var out []int
		used := map[int]bool{own: true}
		for len(out) < n {
			if len(out) == pos {
				out = append(out, own)
				continue
			}
			v := lo + r.Intn(hi-lo)
			if used[v] {
				continue
			}
			used[v] = true
			out = append(out, v)
		}
		return out
	}
	pairs := func(a int, bs []int, noiseA, noiseB int) string {
		var ss []string
		for _, b := range bs {
			if noiseA > 0 && r.Chance(35) {
				ss = append(ss, fmt.Sprintf("%d.%d", (a+1+r.Intn(noiseA))%(noiseA+1), 1+r.Intn(noiseB)))
			}
			ss = append(ss, fmt.Sprintf("%d.%d", a, b))
		}
		return strings.Join(ss, "+")
	}
	singles := func(as []int) string {
		var ss []string
		for _, a := range as {
			ss = append(ss, strconv.Itoa(a))
		}
		return strings.Join(ss, "+")
	}
	one, set = "-", "-"
	switch kind {
	case 0:
		one = "o/-/" + pairs(s.Subj, distinct(s.Key, 0, 12), 0, 0)
	case 1:
		one = "o/" + pairs(s.Iss, distinct(s.Serial, 1, 9), 0, 0) + "/-"
	case 2:
		set = "g/" + pairs(s.Sign, distinct(s.Serial, 1, 9), 0, 0) + "/-"
	case 3:
		set = "g/-/" + singles(distinct(s.Sign, 0, 12))
	case 4:
		// the own entry is in exactly one of the two lists or in neither
		ser, blk := distinct(s.Serial, 1, 9), distinct(s.Key, 0, 12)
		if pos < n {
			if r.Chance(50) {
				ser[pos] = 9 // not the certificate's serial number (those are 1..4 / 1..8)
			} else {
				blk[pos] = 12 // not a key of the universe
			}
		}
		one = "o/" + pairs(s.Iss, ser, 5, 4) + "/" + pairs(s.Subj, blk, 4, 5)
	case 5:
		ser, blk := distinct(s.Serial, 1, 9), distinct(s.Sign, 0, 12)
		if pos < n {
			if r.Chance(50) {
				ser[pos] = 9
			} else {
				blk[pos] = 12
			}
		}
		set = "g/" + pairs(s.Sign, ser, 6, 4) + "/" + singles(blk)
	}
	return one, set
}

func init() {
	zv.Register(&zv.Prop{ID: "C12", Topic: "c12", Gen: gen, Exec: exec,
		Rule: "real graphs (C10 structures and random universes) whose certificates have validity periods drawn from a small grid so that boundaries coincide; 2-3 start certificates per graph; verification times at -1/0/+1 s around every NotBefore/NotAfter of the universe; names matching / not matching the SAN or CN (exact, wildcard, wrong label count); OneCRL and CRLSet absent, empty, listing the certificate by issuer+serial / subject+key / parent SPKI+serial / blocked parent SPKI, or listing others; per (graph, certificate) six sets with 2-5 entries SHARING the component a lookup starts with (OneCRL blocked entries with the certificate's subject and different keys, OneCRL serials under its issuer, CRLSet serials under its signing key, several blocked SPKIs, and both lists together with foreign entries interleaved), the certificate's own entry at every position or absent; sub-second verification times (1 ns, 0.5 s, 999999999 ns into the seconds around NotBefore / NotAfter / NotAfter-1 s); the revocation switches (both flags x 0-2 OCSP URLs x 0-2 CRL distribution points in rotation, a stub RevocationProvider with all 16 answers (isRevoked, info or nil, error or nil) per check that records its calls, or the default provider under a cancelled context); the zero VerifyTime on graphs whose periods end in 2020 or after 2045 (time.Time{}, the Unix instant for which IsZero() holds, 1 ns / 1 s around it; the machine clock must lie in the same cell as the line's clock); a fixed stream of certificates whose RSA key is carried in the SubjectPublicKeyInfo encoding without NULL parameters, with OneCRL entries for either encoding and CRLSet entries for either encoding of the parent key; a case is one (graph, certificate, time, name, sets, switches); T3 = the property's sentence evaluated on VerificationResult with an independent walk and classification"})
}
